// Extractor for C20: Gen/ImageConsts.lean — the facts of image.go / color.go the image model is
// parameterised by: the rounding-up of the cell counts, the early-return guard, the arms of the
// scale-factor switch of resizeImage (comparison and the factor each arm scales by), the alpha
// thresholds and the four-way glyph table of HalfBlockImage.Resize, the full-block threshold, the
// cell geometry literals passed to resizeImage by the block renderers, the fields compared by
// samePlacement and the RGB flag shift.  Local variable names are canonicalised by order of
// definition, so renaming locals does not change the output; any other shape it does not understand
// makes it fail.
package main

import (
	"fmt"
	"go/ast"
	"go/token"
	"regexp"
	"sort"
	"strconv"
	"strings"
	"unicode/utf8"

	"verifextract/ex"
)

func main() { ex.Main([]string{"ImageConsts.lean", "ImageFlow.lean"}, gen) }

const prelude = `namespace VaxisModel.Gen.ImageConsts

/-- Comparison operators as they occur in the source. -/
inductive Cmp | lt | le | eq | ne | ge | gt
  deriving DecidableEq, Repr
/-- Which scale factor an arm of the switch in resizeImage multiplies a pixel dimension by. -/
inductive Factor | none | sfX | sfY
  deriving DecidableEq, Repr
inductive Conn | and | or
  deriving DecidableEq, Repr
/-- One arm ` + "`case sfX <cmp> sfY:`" + ` and the factors used for the new pixel width / height. -/
structure Arm where
  cmp : Cmp
  fw : Factor
  fh : Factor
  deriving DecidableEq, Repr
/-- Which pixel of the vertical pair a colour is taken from. -/
inductive Px | none | top | bot
  deriving DecidableEq, Repr
/-- One arm of the switch in HalfBlockImage.Resize: the conjunction
    ` + "`ta <topCmp> transparentEnough && ba <botCmp> transparentEnough`" + ` (absent conjunct = none),
    the glyph (code point) and where foreground / background come from. -/
structure HalfArm where
  topCmp : Option Cmp
  botCmp : Option Cmp
  glyph : Nat
  fg : Px
  bg : Px
  deriving DecidableEq, Repr
/-- Fields of a placement. -/
inductive PField | id | col | row | w | h
  deriving DecidableEq, Repr
/-- The lower pixel of a block cell: ` + "`img.At(x, y+1)`" + ` whatever y+1 is (outside the image: whatever the image type
    returns there — the zero colour for image.NRGBA / image.RGBA), or the upper pixel again when the image has no row
    y+1 (FullBlockImage since F220), or the zero colour when it has no row y+1 (HalfBlockImage since F320). -/
inductive Bottom | read | topIfMissing | zeroIfMissing
  deriving DecidableEq, Repr
/-- One axis of (*Vaxis).cellPixelSize: the value starts as ` + "`init`" + ` and becomes ` + "`pix / cells`" + ` when
    ` + "`cells <cellsCmp> cellsLit && pix/cells <quotCmp> quotLit`" + `. -/
structure CellAxis where
  init : Nat
  cellsCmp : Cmp
  cellsLit : Nat
  quotCmp : Cmp
  quotLit : Nat
  deriving DecidableEq, Repr
/-- The cell-size arithmetic of KittyImage.Resize / Sixel.Resize: the cell geometry comes from
    ` + "`X.vx.cellPixelSize()`" + ` and is what ` + "`resizeImage`" + ` gets (geom); ` + "`X.w = max.X / cellPixW`" + ` and
    ` + "`X.h = max.Y / cellPixH`" + ` (quotW, quotH); ` + "`if max.X%cellPixW != 0 { X.w += 1 }`" + ` and the same for the height
    (roundUpW, roundUpH). -/
structure ResizeShape where
  geom : Bool
  quotW : Bool
  quotH : Bool
  roundUpW : Bool
  roundUpH : Bool
  deriving DecidableEq, Repr
/-- The two placement loops of (*Vaxis).render, statement by statement (true = the statement is there, in that
    position): in the loop over ` + "`vx.graphicsLast`" + `: delete-and-continue on refresh, skip when a same placement is in
    ` + "`vx.graphicsNext`" + `, delete; between the loops: empty the last list on refresh; in the loop over
    ` + "`vx.graphicsNext`" + `: skip when a same placement is in ` + "`vx.graphicsLast`" + `, move the cursor and write; then
    ` + "`vx.graphicsLast = vx.graphicsNext`" + `.  ` + "`extra`" + `: statements of that stretch the extractor does not know. -/
structure RenderShape where
  delOnRefresh : Bool
  delKeepSame : Bool
  delRest : Bool
  clearOnRefresh : Bool
  writeSkipSame : Bool
  writeRest : Bool
  saveLast : Bool
  extra : List String
  deriving DecidableEq, Repr
/-- One leading ` + "`if … { return }`" + ` of a Draw method: no encoded data yet (` + "`X.buf.Len() == 0`" + `), the encoder goroutine
    still running (` + "`atomicLoad(&X.encoding)`" + `), the size test ` + "`X.w <cw> w <conn> X.h <ch> h`" + ` against
    ` + "`w, h := win.Size()`" + `, the image has no cells (` + "`X.w == 0 || X.h == 0`" + `, F520), or a condition the extractor does not know (the model then treats the method as never
    drawing, and the theorems about Gen's gates fail). -/
inductive Gate | noData | encoding | size (cw : Cmp) (conn : Conn) (ch : Cmp) | zeroSize | unknown (text : String)
  deriving DecidableEq, Repr
/-- The top-level statements of the placement stretch of (*Vaxis).render, in SOURCE ORDER (round 4): the loop over
    ` + "`vx.graphicsLast`" + ` (deletes), ` + "`if vx.refresh { vx.graphicsLast = … }`" + `, the loop over ` + "`vx.graphicsNext`" + ` (writes),
    ` + "`vx.graphicsLast = vx.graphicsNext`" + `; anything else is ` + "`other`" + `. -/
inductive RStage | deleteLoop | clearLast | writeLoop | saveLast | other
  deriving DecidableEq, Repr
/-- What Window.Clear does to the next-frame placement list (round 4): assigns a fresh empty list
    (` + "`[]*placement{}`" + ` / ` + "`nil`" + ` / ` + "`make([]*placement, 0)`" + `), re-slices the old one (` + "`…[:0]`" + `: the backing array stays shared with
    the saved list), does not assign it at all, or something else. -/
inductive ClearForm | fresh | reslice | missing | other
  deriving DecidableEq, Repr
/-- One simple statement of the kitty upload code (round 4): ` + "`atomicStore(&k.uploaded, v)`" + `; the chunking loop that
    appends the new encoding to ` + "`k.buf`" + ` (` + "`for buf.Len() > 0 { … fmt.Fprintf(k.buf, …) }`" + `); ` + "`w.Write(k.buf.Bytes())`" + `;
    ` + "`k.buf.Reset()`" + `; the ` + "`a=p`" + ` command (` + "`fmt.Fprintf(w, \"…a=p…\", k.id, pid)`" + `); anything else that mentions
    ` + "`k.uploaded`" + ` or ` + "`k.buf`" + `. -/
inductive KAct | storeUploaded (v : Bool) | appendChunks | sendBuf | resetBuf | place | other (text : String)
  deriving DecidableEq, Repr
/-- A statement of the kitty upload code: a simple one, or ` + "`if !atomicLoad(&k.uploaded) { … }`" + ` /
    ` + "`if atomicLoad(&k.uploaded) { … }`" + ` around simple ones. -/
inductive KStmt | act (a : KAct) | ifNotUploaded (body : List KAct) | ifUploaded (body : List KAct)
  deriving DecidableEq, Repr
/-- An ` + "`int`" + ` expression of a block image's Draw loop over the loop index ` + "`i`" + `, the image's ` + "`width`" + ` field and the
    locals ` + "`y`" + `, ` + "`x`" + ` (whatever they are called in the source: named by the order of their definition). -/
inductive IExpr | i | width | y | x | lit (n : Nat) | div (a b : IExpr) | sub (a b : IExpr) | mul (a b : IExpr)
  | add (a b : IExpr) | unknown (text : String)
  deriving DecidableEq, Repr
/-- What a block image's Draw passes to SetCell: the stored cell itself (half block), or a space of width 1 whose
    background is the stored colour (full block). -/
inductive CellForm | stored | spaceOnStoredBg | unknown (text : String)
  deriving DecidableEq, Repr
/-- ` + "`for i, cell := range X.cells { <y> := …; <x> := …; win.SetCell(<a>, <b>, <cell>) }`" + ` (round 4): whether the loop
    ranges over the cell list with index and value, the definitions of the two locals, the two coordinate arguments
    of SetCell, the cell form; ` + "`extra`" + `: statements of the loop the extractor does not know. -/
structure DrawLoop where
  rangeCells : Bool
  yDef : IExpr
  xDef : IExpr
  setCol : IExpr
  setRow : IExpr
  cell : CellForm
  extra : List String
  deriving DecidableEq, Repr

`

var cmpNames = map[token.Token]string{token.LSS: ".lt", token.LEQ: ".le", token.EQL: ".eq", token.NEQ: ".ne", token.GEQ: ".ge", token.GTR: ".gt"}

// canonicalise renames the receiver, the parameters and the locals (in order of definition) of fd
// to the given names; it reports false if the counts differ.
func canonicalise(c *ex.Ctx, fd *ast.FuncDecl, recv string, params, locals []string) bool {
	ren := map[*ast.Object]string{}
	renName := map[string]string{}
	_ = ren
	if fd.Recv != nil && len(fd.Recv.List) == 1 && len(fd.Recv.List[0].Names) == 1 {
		renName[fd.Recv.List[0].Names[0].Name] = recv
	}
	var ps []string
	for _, f := range fd.Type.Params.List {
		for _, n := range f.Names {
			ps = append(ps, n.Name)
		}
	}
	if len(ps) != len(params) {
		c.Fail("%s: %s has %d parameters, expected %d", c.Pos(fd), fd.Name.Name, len(ps), len(params))
		return false
	}
	for i, p := range ps {
		renName[p] = params[i]
	}
	var defs []string
	seen := map[string]bool{}
	def := func(e ast.Expr) {
		id, ok := e.(*ast.Ident)
		if !ok || id.Name == "_" || seen[id.Name] {
			return
		}
		if _, isParam := renName[id.Name]; isParam {
			return
		}
		seen[id.Name] = true
		defs = append(defs, id.Name)
	}
	ast.Inspect(fd.Body, func(n ast.Node) bool {
		switch s := n.(type) {
		case *ast.AssignStmt:
			if s.Tok == token.DEFINE {
				for _, l := range s.Lhs {
					def(l)
				}
			}
		case *ast.RangeStmt:
			if s.Tok == token.DEFINE {
				if s.Key != nil {
					def(s.Key)
				}
				if s.Value != nil {
					def(s.Value)
				}
			}
		case *ast.ValueSpec:
			for _, n := range s.Names {
				def(n)
			}
		}
		return true
	})
	if len(defs) != len(locals) {
		c.Fail("%s: %s defines %d locals %v, expected %d %v", c.Pos(fd), fd.Name.Name, len(defs), defs, len(locals), locals)
		return false
	}
	for i, d := range defs {
		renName[d] = locals[i]
	}
	// two-phase rename to avoid collisions
	ast.Inspect(fd, func(n ast.Node) bool {
		if se, ok := n.(*ast.SelectorExpr); ok {
			// rename only the base of a selector, never the field name
			ast.Inspect(se.X, func(m ast.Node) bool {
				if id, ok := m.(*ast.Ident); ok {
					if nn, ok := renName[id.Name]; ok {
						id.Name = "\x00" + nn
					}
				}
				return true
			})
			return false
		}
		if kv, ok := n.(*ast.KeyValueExpr); ok {
			// keys of struct literals are field names
			ast.Inspect(kv.Value, func(m ast.Node) bool {
				if id, ok := m.(*ast.Ident); ok {
					if nn, ok := renName[id.Name]; ok && !strings.HasPrefix(id.Name, "\x00") {
						id.Name = "\x00" + nn
					}
				}
				return true
			})
			return false
		}
		if id, ok := n.(*ast.Ident); ok {
			if nn, ok := renName[id.Name]; ok {
				id.Name = "\x00" + nn
			}
		}
		return true
	})
	ast.Inspect(fd, func(n ast.Node) bool {
		if id, ok := n.(*ast.Ident); ok && strings.HasPrefix(id.Name, "\x00") {
			id.Name = id.Name[1:]
		}
		return true
	})
	return true
}

func src(c *ex.Ctx, n ast.Node) string {
	return strings.Join(strings.Fields(c.Src(n)), " ")
}

// cmpOf parses `<lhs> OP <rhs>` with the given operand texts.
func cmpOf(c *ex.Ctx, e ast.Expr, lhs, rhs string) (string, bool) {
	for {
		if p, ok := e.(*ast.ParenExpr); ok {
			e = p.X
			continue
		}
		break
	}
	be, ok := e.(*ast.BinaryExpr)
	if !ok {
		return "", false
	}
	nm, ok := cmpNames[be.Op]
	if !ok || src(c, be.X) != lhs || src(c, be.Y) != rhs {
		return "", false
	}
	return nm, true
}

// roundUpIf recognises `if X%C != 0 { V += 1 }` (also V++ / V = V + 1).
func roundUpIf(c *ex.Ctx, s ast.Stmt, x, cell, v string) bool {
	is, ok := s.(*ast.IfStmt)
	if !ok || is.Init != nil || is.Else != nil || len(is.Body.List) != 1 {
		return false
	}
	if src(c, is.Cond) != x+"%"+cell+" != 0" {
		return false
	}
	b := src(c, is.Body.List[0])
	return b == v+" += 1" || b == v+"++" || b == v+" = "+v+" + 1"
}

func gen(c *ex.Ctx) {
	f := c.Parse("image.go")
	cf := c.Parse("color.go")
	if f == nil || cf == nil {
		return
	}
	var sb strings.Builder
	sb.WriteString(prelude)

	// ---- constants
	te, ok := ex.FindVarValue(f, "transparentEnough").(*ast.BasicLit)
	if !ok || te.Kind != token.INT {
		c.Fail("image.go: const transparentEnough is not an integer literal")
		return
	}
	teV, err := strconv.ParseUint(te.Value, 0, 32)
	if err != nil {
		c.Fail("image.go: transparentEnough: %v", err)
		return
	}
	fmt.Fprintf(&sb, "def transparentEnough : Nat := %d\n", teV)
	be, ok := ex.FindVarValue(cf, "rgb").(*ast.BinaryExpr)
	if !ok || be.Op != token.SHL || src(c, be.X) != "1" {
		c.Fail("color.go: const rgb is not `1 << n`")
		return
	}
	fmt.Fprintf(&sb, "def rgbShift : Nat := %s\n", src(c, be.Y))
	rc := ex.FindFunc(cf, "", "RGBColor")
	if rc == nil || !canonicalise(c, rc, "", []string{"r", "g", "b"}, []string{"color"}) {
		c.Fail("color.go: RGBColor not found / unexpected shape")
		return
	}
	if got := src(c, rc.Body); got != "{ color := Color(int(r)<<16 | int(g)<<8 | int(b)) return color | rgb }" {
		c.Fail("color.go: RGBColor body not understood: %s", got)
		return
	}

	// ---- resizeImage
	fd := ex.FindFunc(f, "", "resizeImage")
	if fd == nil {
		c.Fail("image.go: resizeImage not found")
		return
	}
	// since the F420 repair the function starts by translating an image whose bounds do not start at the origin
	// (`if min := img.Bounds().Min; min != (image.Point{}) { img = originImage{…} }`): one more local, defined first
	resizeLocals := []string{"wPix", "hPix", "columns", "lines", "sfX", "sfY", "newPixelWidth", "newPixelHeight", "dst"}
	if fd.Body != nil && len(fd.Body.List) > 0 {
		if is, ok := fd.Body.List[0].(*ast.IfStmt); ok && is.Init != nil {
			resizeLocals = append([]string{"min"}, resizeLocals...)
		}
	}
	if !canonicalise(c, fd, "", []string{"img", "w", "h", "cellPixW", "cellPixH"}, resizeLocals) {
		return
	}
	originNormalised := false
	colsUp, linesUp := false, false
	var fitCond string
	var arms []string
	have := map[string]bool{}
	for _, s := range fd.Body.List {
		t := src(c, s)
		switch {
		case t == "if min := img.Bounds().Min; min != (image.Point{}) { img = originImage{Image: img, min: min} }" && len(have) == 0:
			// (must be the first statement: everything after it measures the translated image)
			originNormalised = true
			continue
		case t == "wPix := img.Bounds().Max.X", t == "hPix := img.Bounds().Max.Y",
			t == "columns := wPix / cellPixW", t == "lines := hPix / cellPixH",
			t == "sfX := float64(w) / float64(columns)", t == "sfY := float64(h) / float64(lines)",
			t == "newPixelWidth := wPix", t == "newPixelHeight := hPix",
			t == "dst := image.NewRGBA(image.Rect(0, 0, newPixelWidth, newPixelHeight))",
			t == "draw.NearestNeighbor.Scale(dst, dst.Rect, img, img.Bounds(), draw.Over, nil)",
			t == "return dst":
			if have[t] {
				c.Fail("%s: duplicate statement %q", c.Pos(s), t)
				return
			}
			have[t] = true
			continue
		case strings.HasPrefix(t, "log."):
			continue
		}
		if roundUpIf(c, s, "wPix", "cellPixW", "columns") {
			colsUp = true
			continue
		}
		if roundUpIf(c, s, "hPix", "cellPixH", "lines") {
			linesUp = true
			continue
		}
		if is, ok := s.(*ast.IfStmt); ok && is.Init == nil && is.Else == nil && src(c, is.Body) == "{ return img }" {
			cond, ok := is.Cond.(*ast.BinaryExpr)
			if !ok || (cond.Op != token.LAND && cond.Op != token.LOR) {
				c.Fail("%s: early-return guard is not `columns OP w &&/|| lines OP h`", c.Pos(is))
				return
			}
			a, ok1 := cmpOf(c, cond.X, "columns", "w")
			b, ok2 := cmpOf(c, cond.Y, "lines", "h")
			if !ok1 || !ok2 {
				c.Fail("%s: early-return guard is not `columns OP w &&/|| lines OP h`: %s", c.Pos(is), src(c, is.Cond))
				return
			}
			conn := ".and"
			if cond.Op == token.LOR {
				conn = ".or"
			}
			if fitCond != "" {
				c.Fail("%s: second early return", c.Pos(is))
				return
			}
			fitCond = fmt.Sprintf("(%s, %s, %s)", a, conn, b)
			continue
		}
		if sw, ok := s.(*ast.SwitchStmt); ok && sw.Init == nil && sw.Tag == nil {
			if arms != nil {
				c.Fail("%s: second switch", c.Pos(sw))
				return
			}
			arms = []string{}
			for _, cs := range sw.Body.List {
				cc := cs.(*ast.CaseClause)
				if len(cc.List) != 1 {
					c.Fail("%s: case clause is not a single comparison of sfX with sfY", c.Pos(cc))
					return
				}
				op, ok := cmpOf(c, cc.List[0], "sfX", "sfY")
				if !ok {
					c.Fail("%s: case clause is not `sfX OP sfY`: %s", c.Pos(cc), src(c, cc.List[0]))
					return
				}
				fw, fh := ".none", ".none"
				for _, bs := range cc.Body {
					switch src(c, bs) {
					case "newPixelWidth = int(sfX * float64(wPix))":
						fw = ".sfX"
					case "newPixelWidth = int(sfY * float64(wPix))":
						fw = ".sfY"
					case "newPixelHeight = int(sfX * float64(hPix))":
						fh = ".sfX"
					case "newPixelHeight = int(sfY * float64(hPix))":
						fh = ".sfY"
					default:
						c.Fail("%s: statement in switch arm not understood: %s", c.Pos(bs), src(c, bs))
						return
					}
				}
				arms = append(arms, fmt.Sprintf("⟨%s, %s, %s⟩", op, fw, fh))
			}
			continue
		}
		c.Fail("%s: statement of resizeImage not understood: %s", c.Pos(s), t)
		return
	}
	for _, need := range []string{"wPix := img.Bounds().Max.X", "hPix := img.Bounds().Max.Y", "columns := wPix / cellPixW",
		"lines := hPix / cellPixH", "sfX := float64(w) / float64(columns)", "sfY := float64(h) / float64(lines)",
		"newPixelWidth := wPix", "newPixelHeight := hPix",
		"dst := image.NewRGBA(image.Rect(0, 0, newPixelWidth, newPixelHeight))", "return dst"} {
		if !have[need] {
			c.Fail("image.go resizeImage: statement %q not found", need)
			return
		}
	}
	if fitCond == "" || arms == nil {
		c.Fail("image.go resizeImage: early return or scale-factor switch not found")
		return
	}
	fmt.Fprintf(&sb, "\n/-- resizeImage starts by translating an image whose bounds do not start at the origin to (0, 0) (F420). -/\ndef resizeOriginNormalised : Bool := %v\n", originNormalised)
	fmt.Fprintf(&sb, "\n/-- `if wPix%%cellPixW != 0 { columns += 1 }` present / same for lines. -/\ndef columnsRoundUp : Bool := %v\ndef linesRoundUp : Bool := %v\n", colsUp, linesUp)
	fmt.Fprintf(&sb, "/-- the guard of `return img`: `columns <c1> w  <conn>  lines <c2> h`. -/\ndef fitCond : Cmp × Conn × Cmp := %s\n", fitCond)
	fmt.Fprintf(&sb, "/-- arms of the scale-factor switch, in source order. -/\ndef resizeArms : List Arm := [%s]\n", strings.Join(arms, ", "))

	// ---- block renderers
	geom := func(recvT, recvN string, locals []string) (*ast.FuncDecl, string, bool) {
		fd := ex.FindFunc(f, recvT, "Resize")
		if fd == nil {
			c.Fail("image.go: %s.Resize not found", recvT)
			return nil, "", false
		}
		if !canonicalise(c, fd, recvN, []string{"w", "h"}, locals) {
			return nil, "", false
		}
		g := ""
		for _, s := range fd.Body.List {
			t := src(c, s)
			pre := "img := resizeImage(" + recvN + ".img, w, h, "
			if strings.HasPrefix(t, pre) && strings.HasSuffix(t, ")") {
				parts := strings.Split(strings.TrimSuffix(strings.TrimPrefix(t, pre), ")"), ", ")
				if len(parts) == 2 {
					a, e1 := strconv.ParseUint(parts[0], 0, 32)
					b, e2 := strconv.ParseUint(parts[1], 0, 32)
					if e1 == nil && e2 == nil {
						g = fmt.Sprintf("(%d, %d)", a, b)
					}
				}
			}
		}
		if g == "" {
			c.Fail("image.go: %s.Resize: call `resizeImage(%s.img, w, h, <int>, <int>)` not found", recvT, recvN)
			return nil, "", false
		}
		return fd, g, true
	}
	hb, hg, ok := geom("HalfBlockImage", "hb", []string{"img", "i", "y", "x", "tr", "tg", "tb", "ta", "br", "bg", "bb", "ba"})
	if !ok {
		return
	}
	fb, fg, ok := geom("FullBlockImage", "fb", []string{"img", "i", "y", "x", "top", "bot", "r", "g", "b", "a"})
	if !ok {
		return
	}
	fmt.Fprintf(&sb, "\n/-- cell geometry literals passed to resizeImage by HalfBlockImage.Resize / FullBlockImage.Resize. -/\ndef halfBlockGeom : Nat × Nat := %s\ndef fullBlockGeom : Nat × Nat := %s\n", hg, fg)

	// half block: the pixel reads and the switch
	var hsw, fsw *ast.SwitchStmt
	reads := map[string]bool{}
	ast.Inspect(hb.Body, func(n ast.Node) bool {
		switch s := n.(type) {
		case *ast.SwitchStmt:
			if s.Tag == nil {
				hsw = s
			}
		case *ast.AssignStmt:
			reads[src(c, s)] = true
		}
		return true
	})
	for _, need := range []string{"y := i / hb.width", "x := i - (y * hb.width)", "y *= 2",
		"tr, tg, tb, ta := toRGB(img.At(x, y))",
		"hb.width = img.Bounds().Max.X", "h = img.Bounds().Max.Y", "hb.height = h / 2"} {
		if !reads[need] {
			c.Fail("image.go HalfBlockImage.Resize: statement %q not found", need)
			return
		}
	}
	// the lower pixel: read unconditionally (`br, bg, bb, ba := toRGB(img.At(x, y+1))`: whatever the image type returns
	// outside its bounds), or — since the F320 repair — only when the image has a row y+1, the four values staying
	// zero (transparent) otherwise
	halfBottom := ""
	switch {
	case reads["br, bg, bb, ba := toRGB(img.At(x, y+1))"]:
		halfBottom = ".read"
	case reads["br, bg, bb, ba = toRGB(img.At(x, y+1))"]:
		declared := false
		ast.Inspect(hb.Body, func(n ast.Node) bool {
			if ds, ok := n.(*ast.DeclStmt); ok && src(c, ds) == "var br, bg, bb, ba uint8" {
				declared = true
			}
			if is, ok := n.(*ast.IfStmt); ok && declared && is.Init == nil && is.Else == nil && len(is.Body.List) == 1 &&
				src(c, is.Cond) == "y+1 < img.Bounds().Max.Y" && src(c, is.Body.List[0]) == "br, bg, bb, ba = toRGB(img.At(x, y+1))" {
				halfBottom = ".zeroIfMissing"
			}
			return true
		})
	}
	if halfBottom == "" {
		// not recognised: degrade to the unconditional read (what the model then computes differs from the code only
		// where the difference is a defect — F320) and let Props.C20Pixels.half_block_bottom_shape fail
		halfBottom = ".read"
	}
	fmt.Fprintf(&sb, "\n/-- how HalfBlockImage.Resize reads the lower pixel of a cell. -/\ndef halfBlockBottom : Bottom := %s\n", halfBottom)
	if hsw == nil {
		c.Fail("image.go HalfBlockImage.Resize: switch not found")
		return
	}
	var harms []string
	for _, cs := range hsw.Body.List {
		cc := cs.(*ast.CaseClause)
		top, bot := "none", "none"
		if len(cc.List) > 1 {
			c.Fail("%s: case with several expressions", c.Pos(cc))
			return
		}
		if len(cc.List) == 1 {
			var atoms []ast.Expr
			var flat func(e ast.Expr)
			flat = func(e ast.Expr) {
				if b, ok := e.(*ast.BinaryExpr); ok && b.Op == token.LAND {
					flat(b.X)
					flat(b.Y)
					return
				}
				atoms = append(atoms, e)
			}
			flat(cc.List[0])
			for _, a := range atoms {
				if op, ok := cmpOf(c, a, "ta", "transparentEnough"); ok && top == "none" {
					top = "some " + op
				} else if op, ok := cmpOf(c, a, "ba", "transparentEnough"); ok && bot == "none" {
					bot = "some " + op
				} else {
					c.Fail("%s: condition not a conjunction of `ta/ba OP transparentEnough`: %s", c.Pos(a), src(c, cc.List[0]))
					return
				}
			}
		}
		if len(cc.Body) != 1 {
			c.Fail("%s: arm body is not a single assignment", c.Pos(cc))
			return
		}
		as, ok := cc.Body[0].(*ast.AssignStmt)
		if !ok || len(as.Lhs) != 1 || src(c, as.Lhs[0]) != "hb.cells[i]" || as.Tok != token.ASSIGN {
			c.Fail("%s: arm body is not `hb.cells[i] = Cell{…}`", c.Pos(cc))
			return
		}
		cl, ok := as.Rhs[0].(*ast.CompositeLit)
		if !ok || src(c, cl.Type) != "Cell" {
			c.Fail("%s: arm body is not `hb.cells[i] = Cell{…}`", c.Pos(cc))
			return
		}
		glyph, fgS, bgS := -1, ".none", ".none"
		px := func(e ast.Expr) (string, bool) {
			switch src(c, e) {
			case "RGBColor(tr, tg, tb)":
				return ".top", true
			case "RGBColor(br, bg, bb)":
				return ".bot", true
			}
			return "", false
		}
		for _, el := range cl.Elts {
			kv, ok := el.(*ast.KeyValueExpr)
			if !ok {
				c.Fail("%s: unkeyed Cell literal", c.Pos(el))
				return
			}
			switch src(c, kv.Key) {
			case "Character":
				ch, ok := kv.Value.(*ast.CompositeLit)
				if !ok {
					c.Fail("%s: Character is not a literal", c.Pos(kv))
					return
				}
				for _, ce := range ch.Elts {
					ckv, ok := ce.(*ast.KeyValueExpr)
					if !ok {
						c.Fail("%s: unkeyed Character literal", c.Pos(ce))
						return
					}
					switch src(c, ckv.Key) {
					case "Grapheme":
						bl, ok := ckv.Value.(*ast.BasicLit)
						if !ok || bl.Kind != token.STRING {
							c.Fail("%s: Grapheme is not a string literal", c.Pos(ckv))
							return
						}
						s, err := strconv.Unquote(bl.Value)
						if err != nil || utf8.RuneCountInString(s) != 1 {
							c.Fail("%s: Grapheme is not a single code point", c.Pos(ckv))
							return
						}
						r, _ := utf8.DecodeRuneInString(s)
						glyph = int(r)
					case "Width":
						if src(c, ckv.Value) != "1" {
							c.Fail("%s: Width is not 1", c.Pos(ckv))
							return
						}
					default:
						c.Fail("%s: unexpected Character field", c.Pos(ckv))
						return
					}
				}
			case "Style":
				st, ok := kv.Value.(*ast.CompositeLit)
				if !ok {
					c.Fail("%s: Style is not a literal", c.Pos(kv))
					return
				}
				for _, se := range st.Elts {
					skv, ok := se.(*ast.KeyValueExpr)
					if !ok {
						c.Fail("%s: unkeyed Style literal", c.Pos(se))
						return
					}
					p, ok := px(skv.Value)
					if !ok {
						c.Fail("%s: colour is not RGBColor(tr, tg, tb) / RGBColor(br, bg, bb): %s", c.Pos(skv), src(c, skv.Value))
						return
					}
					switch src(c, skv.Key) {
					case "Foreground":
						fgS = p
					case "Background":
						bgS = p
					default:
						c.Fail("%s: unexpected Style field %s", c.Pos(skv), src(c, skv.Key))
						return
					}
				}
			default:
				c.Fail("%s: unexpected Cell field %s", c.Pos(kv), src(c, kv.Key))
				return
			}
		}
		if glyph < 0 {
			c.Fail("%s: arm without a glyph", c.Pos(cc))
			return
		}
		harms = append(harms, fmt.Sprintf("⟨%s, %s, 0x%X, %s, %s⟩", top, bot, glyph, fgS, bgS))
	}
	fmt.Fprintf(&sb, "\n/-- arms of the switch in HalfBlockImage.Resize, in source order. -/\ndef halfBlockArms : List HalfArm := [\n  %s]\n", strings.Join(harms, ",\n  "))

	// full block
	reads = map[string]bool{}
	ast.Inspect(fb.Body, func(n ast.Node) bool {
		switch s := n.(type) {
		case *ast.SwitchStmt:
			if s.Tag == nil {
				fsw = s
			}
		case *ast.AssignStmt:
			reads[src(c, s)] = true
		}
		return true
	})
	// the lower pixel: read unconditionally (`bot := img.At(x, y+1)`, out of bounds = zero colour), or — since the
	// F220 repair — the upper pixel again when the image has no row y+1
	bottom := ""
	switch {
	case reads["bot := img.At(x, y+1)"]:
		bottom = ".read"
	case reads["bot := top"] && reads["bot = img.At(x, y+1)"]:
		ast.Inspect(fb.Body, func(n ast.Node) bool {
			if is, ok := n.(*ast.IfStmt); ok && is.Init == nil && is.Else == nil && len(is.Body.List) == 1 &&
				src(c, is.Cond) == "y+1 < img.Bounds().Max.Y" && src(c, is.Body.List[0]) == "bot = img.At(x, y+1)" {
				bottom = ".topIfMissing"
			}
			return true
		})
	}
	if bottom == "" {
		c.Fail("image.go FullBlockImage.Resize: how the lower pixel `bot` is read is not understood")
		return
	}
	fmt.Fprintf(&sb, "\n/-- how FullBlockImage.Resize reads the lower pixel of a cell. -/\ndef fullBlockBottom : Bottom := %s\n", bottom)
	for _, need := range []string{"y := i / fb.width", "x := i - (y * fb.width)", "y *= 2",
		"top := img.At(x, y)", "r, g, b, a := averageColor(top, bot)",
		"fb.width = img.Bounds().Max.X", "h = img.Bounds().Max.Y", "fb.height = h / 2"} {
		if !reads[need] {
			c.Fail("image.go FullBlockImage.Resize: statement %q not found", need)
			return
		}
	}
	if fsw == nil || len(fsw.Body.List) != 2 {
		c.Fail("image.go FullBlockImage.Resize: two-arm switch not found")
		return
	}
	c0 := fsw.Body.List[0].(*ast.CaseClause)
	c1 := fsw.Body.List[1].(*ast.CaseClause)
	if len(c0.List) != 1 || len(c1.List) != 0 || len(c0.Body) != 1 || len(c1.Body) != 1 ||
		src(c, c0.Body[0]) != "fb.cells[i] = 0" || src(c, c1.Body[0]) != "fb.cells[i] = RGBColor(r, g, b)" {
		c.Fail("%s: FullBlockImage.Resize switch not `case a OP n: cells[i] = 0; default: cells[i] = RGBColor(r, g, b)`", c.Pos(fsw))
		return
	}
	cb, ok := c0.List[0].(*ast.BinaryExpr)
	if !ok || src(c, cb.X) != "a" {
		c.Fail("%s: full-block threshold test is not `a OP n`", c.Pos(c0))
		return
	}
	var thr uint64
	switch y := cb.Y.(type) {
	case *ast.BasicLit:
		thr, err = strconv.ParseUint(y.Value, 0, 32)
		if err != nil {
			c.Fail("%s: %v", c.Pos(y), err)
			return
		}
	case *ast.Ident:
		if y.Name != "transparentEnough" {
			c.Fail("%s: full-block threshold is not a literal or transparentEnough", c.Pos(y))
			return
		}
		thr = teV
	default:
		c.Fail("%s: full-block threshold is not a literal", c.Pos(cb))
		return
	}
	op, ok := cmpNames[cb.Op]
	if !ok {
		c.Fail("%s: full-block threshold test is not a comparison", c.Pos(cb))
		return
	}
	fmt.Fprintf(&sb, "\n/-- `case a <cmp> <n>:` in FullBlockImage.Resize (cell left at the default colour). -/\ndef fullBlockCmp : Cmp × Nat := (%s, %d)\n", op, thr)

	// ---- samePlacement
	sp := ex.FindFunc(f, "", "samePlacement")
	if sp == nil || !canonicalise(c, sp, "", []string{"p1", "p2"}, nil) {
		c.Fail("image.go: samePlacement not found / unexpected shape")
		return
	}
	var fields []string
	n := len(sp.Body.List)
	for i, s := range sp.Body.List {
		t := src(c, s)
		if i == n-1 {
			if t != "return true" {
				c.Fail("%s: samePlacement does not end in `return true`", c.Pos(s))
				return
			}
			break
		}
		found := false
		for _, fl := range []string{"id", "col", "row", "w", "h"} {
			if t == fmt.Sprintf("if p1.%s != p2.%s { return false }", fl, fl) {
				fields = append(fields, "."+fl)
				found = true
			}
		}
		if !found {
			c.Fail("%s: samePlacement statement not understood: %s", c.Pos(s), t)
			return
		}
	}
	fmt.Fprintf(&sb, "\n/-- fields compared by samePlacement. -/\ndef samePlacementFields : List PField := [%s]\n", strings.Join(fields, ", "))

	// ---- (*Vaxis).cellPixelSize, structured (interpreted by Model/ImageTerm.lean: termCellWith); `none` = a shape the
	// extractor does not know (the model then yields a zero cell size and the theorems about it fail)
	{
		wAx, hAx := cellPixelAxes(c, ex.FindFunc(f, "Vaxis", "cellPixelSize"))
		fmt.Fprintf(&sb, "\n/-- (*Vaxis).cellPixelSize, horizontal / vertical axis. -/\ndef cellPixelSizeW : Option CellAxis := %s\ndef cellPixelSizeH : Option CellAxis := %s\n", wAx, hAx)
	}

	// ---- the cell-size arithmetic of the two Resize methods, structured (interpreted by Model/ImageTerm.lean)
	{
		b := func(x bool) string {
			if x {
				return "true"
			}
			return "false"
		}
		shape := func(l []ast.Stmt, recv string) string {
			var geom1, geom2, qw, qh, uw, uh bool
			for _, st := range l {
				switch t := src(c, st); {
				case t == "cellPixW, cellPixH := "+recv+".vx.cellPixelSize()":
					geom1 = true
				case t == "img := resizeImage("+recv+".img, w, h, cellPixW, cellPixH)":
					geom2 = true
				case t == recv+".w = max.X / cellPixW":
					qw = true
				case t == recv+".h = max.Y / cellPixH":
					qh = true
				case roundUpIf(c, st, "max.X", "cellPixW", recv+".w"):
					uw = true
				case roundUpIf(c, st, "max.Y", "cellPixH", recv+".h"):
					uh = true
				}
			}
			return fmt.Sprintf("⟨%s, %s, %s, %s, %s⟩", b(geom1 && geom2), b(qw), b(qh), b(uw), b(uh))
		}
		var kl, sl []ast.Stmt
		if fd := ex.FindFunc(f, "KittyImage", "Resize"); fd != nil && fd.Body != nil {
			kl = fd.Body.List
		}
		if fd := ex.FindFunc(f, "Sixel", "Resize"); fd != nil && fd.Body != nil {
			sl = goFuncBody(fd.Body.List)
		}
		fmt.Fprintf(&sb, "\n/-- the cell-size arithmetic of KittyImage.Resize / of Sixel.Resize (inside its goroutine). -/\ndef kittyResize : ResizeShape := %s\ndef sixelResize : ResizeShape := %s\n", shape(kl, "k"), shape(sl, "s"))
	}

	// ---- the placement loops of (*Vaxis).render, structured (interpreted by Model/Placements.lean: renderShaped)
	fmt.Fprintf(&sb, "\n/-- the placement loops of (*Vaxis).render. -/\ndef renderShape : RenderShape := %s\n", renderShape(c))
	fmt.Fprintf(&sb, "\n/-- the top-level statements of that stretch of render, in source order. -/\ndef renderOrder : List RStage := [%s]\n",
		strings.Join(renderOrder(c), ", "))

	// ---- Window.Clear: what it does to vx.graphicsNext
	clearForm := ".missing"
	if wf := c.Parse("window.go"); wf != nil {
		if fd := ex.FindFunc(wf, "Window", "Clear"); fd != nil && fd.Body != nil {
			ast.Inspect(fd.Body, func(n ast.Node) bool {
				as, ok := n.(*ast.AssignStmt)
				if !ok || len(as.Lhs) != 1 || len(as.Rhs) != 1 || !strings.HasSuffix(src(c, as.Lhs[0]), ".graphicsNext") {
					return true
				}
				switch rhs := strings.ReplaceAll(src(c, as.Rhs[0]), " ", ""); {
				case as.Tok != token.ASSIGN:
					clearForm = ".other"
				case rhs == "[]*placement{}" || rhs == "nil" || rhs == "make([]*placement,0)":
					clearForm = ".fresh"
				case strings.HasSuffix(rhs, ".graphicsNext[:0]"):
					clearForm = ".reslice"
				default:
					clearForm = ".other"
				}
				return true
			})
		}
	}
	fmt.Fprintf(&sb, "\n/-- Window.Clear: what it assigns to the next-frame placement list. -/\ndef clearPlacements : ClearForm := %s\n", clearForm)

	// ---- the kitty upload code, structured (interpreted by Model/KittyTerm.lean)
	fmt.Fprintf(&sb, "\n/-- KittyImage.Resize, the goroutine: every statement that touches k.uploaded or k.buf, in source order. -/\ndef kittyResizeBody : List KStmt := [%s]\n",
		strings.Join(kittyStmts(c, goFuncBody(funcBody(f, "KittyImage", "Resize")), true), ", "))
	fmt.Fprintf(&sb, "\n/-- KittyImage.Draw: the writeTo closure of the placement, statement by statement. -/\ndef kittyWriteBody : List KStmt := [%s]\n",
		strings.Join(kittyStmts(c, closureBody(funcBody(f, "KittyImage", "Draw"), placementField(c, funcBody(f, "KittyImage", "Draw"), "writeTo", "writeFunc")), false), ", "))

	// ---- the placement id of KittyImage.Draw: `pid := uint(col)<<N | uint(row)` with `col, row := win.Origin()`
	pidShift := "none"
	if fd := ex.FindFunc(f, "KittyImage", "Draw"); fd != nil && fd.Body != nil {
		origin := false
		for _, st := range fd.Body.List {
			as, ok := st.(*ast.AssignStmt)
			if !ok || as.Tok != token.DEFINE {
				continue
			}
			t := strings.ReplaceAll(src(c, st), " ", "")
			if t == "col,row:=win.Origin()" {
				origin = true
			}
			if origin && strings.HasPrefix(t, "pid:=uint(col)<<") && strings.HasSuffix(t, "|uint(row)") {
				if n, err := strconv.ParseUint(strings.TrimSuffix(strings.TrimPrefix(t, "pid:=uint(col)<<"), "|uint(row)"), 0, 8); err == nil {
					pidShift = fmt.Sprintf("some %d", n)
				}
			}
		}
	}
	fmt.Fprintf(&sb, "\n/-- KittyImage.Draw: the placement id is `uint(col)<<N | uint(row)` of the window's origin (none: not of that form). -/\ndef kittyPidShift : Option Nat := %s\n", pidShift)

	// ---- the placement literals of KittyImage.Draw / Sixel.Draw: which expression each compared field gets
	// (`col, row := win.Origin()` must precede; anything else ⇒ the text as it is, and draw_placement_fields fails)
	for _, d := range [][3]string{{"KittyImage", "k", "kittyPlacement"}, {"Sixel", "s", "sixelPlacement"}} {
		var fields []string
		originOK := false
		for _, st := range funcBody(f, d[0], "Draw") {
			if strings.ReplaceAll(src(c, st), " ", "") == "col,row:=win.Origin()" {
				originOK = true
			}
			ast.Inspect(st, func(n ast.Node) bool {
				cl, ok := n.(*ast.CompositeLit)
				if !ok || src(c, cl.Type) != "placement" {
					return true
				}
				for _, e := range cl.Elts {
					kv, ok := e.(*ast.KeyValueExpr)
					if !ok {
						fields = append(fields, "(.id, "+ex.LeanStr("positional: "+src(c, e))+")")
						continue
					}
					key := src(c, kv.Key)
					switch key {
					case "id", "col", "row", "w", "h":
						fields = append(fields, fmt.Sprintf("(.%s, %s)", key, ex.LeanStr(strings.Replace(src(c, kv.Value), d[1]+".", "X.", 1))))
					}
				}
				return true
			})
		}
		sort.Strings(fields)
		if !originOK {
			fields = append(fields, "(.col, \"win.Origin() not read into col, row\")")
		}
		fmt.Fprintf(&sb, "\n/-- %s.Draw: the expression each compared field of the placement gets (receiver written X; col, row := win.Origin()), sorted. -/\ndef %s : List (PField × String) := [%s]\n",
			d[0], d[2], strings.Join(fields, ", "))
	}

	// ---- the Draw loops of the block images, structured (interpreted by Model/KittyTerm.lean: drawLoopOps)
	fmt.Fprintf(&sb, "\n/-- the loop of HalfBlockImage.Draw. -/\ndef halfDrawLoop : DrawLoop := %s\n", drawLoop(c, ex.FindFunc(f, "HalfBlockImage", "Draw"), "hb"))
	fmt.Fprintf(&sb, "\n/-- the loop of FullBlockImage.Draw. -/\ndef fullDrawLoop : DrawLoop := %s\n", drawLoop(c, ex.FindFunc(f, "FullBlockImage", "Draw"), "fb"))

	// ---- the gates of KittyImage.Draw / Sixel.Draw, structured (interpreted by Model/ImageDraw.lean)
	for _, d := range [][3]string{{"KittyImage", "k", "kittyGates"}, {"Sixel", "s", "sixelGates"}} {
		fmt.Fprintf(&sb, "\n/-- the leading `if … { return }` statements of %s.Draw, in source order. -/\ndef %s : List Gate := [%s]\n",
			d[0], d[2], strings.Join(structuredGates(c, ex.FindFunc(f, d[0], "Draw"), d[1]), ", "))
	}

	sb.WriteString("\nend VaxisModel.Gen.ImageConsts\n")
	c.Write("ImageConsts.lean", sb.String())
	genFlow(c, f)
}

// ---- statement skeletons (round 2): normalised source text, statement by statement, of the code around the
// arithmetic that is modelled by hand: cellPixelSize, the cell-size computations of the two Resize methods, the
// size gates of the Draw methods, the upload closure of KittyImage.Draw, the upload side of KittyImage.Resize, the
// Draw loops of the block images, and the placement loops of render.  Never fails: anything not found is the
// empty list / "unknown", and the `facts_*` theorems of Props/C20Ext.lean say what the model assumes.

func stmtTexts(c *ex.Ctx, l []ast.Stmt) []string {
	out := make([]string, 0, len(l))
	for _, s := range l {
		out = append(out, src(c, s))
	}
	return out
}

func leanStrList(l []string) string {
	q := make([]string, len(l))
	for i, s := range l {
		q[i] = ex.LeanStr(s)
	}
	return "[" + strings.Join(q, ",\n  ") + "]"
}

// placementField: the name of the local that the `placement{…}` literal in l passes as the given field (so that renaming
// the closure is silent); def when there is no such literal or the value is not an identifier.
func placementField(c *ex.Ctx, l []ast.Stmt, field, def string) string {
	name := def
	for _, st := range l {
		ast.Inspect(st, func(n ast.Node) bool {
			cl, ok := n.(*ast.CompositeLit)
			if !ok || src(c, cl.Type) != "placement" {
				return true
			}
			for _, e := range cl.Elts {
				if kv, ok := e.(*ast.KeyValueExpr); ok && src(c, kv.Key) == field {
					if id, ok := kv.Value.(*ast.Ident); ok {
						name = id.Name
					}
				}
			}
			return true
		})
	}
	return name
}

// goFuncBody returns the statements of the first `go func() { … }()` in l.
func goFuncBody(l []ast.Stmt) []ast.Stmt {
	for _, s := range l {
		if g, ok := s.(*ast.GoStmt); ok {
			if fl, ok := g.Call.Fun.(*ast.FuncLit); ok {
				return fl.Body.List
			}
		}
	}
	return nil
}

// closureBody returns the statements of `name := func(...) { … }` in l.
func closureBody(l []ast.Stmt, name string) []ast.Stmt {
	for _, s := range l {
		as, ok := s.(*ast.AssignStmt)
		if !ok || len(as.Lhs) != 1 || len(as.Rhs) != 1 {
			continue
		}
		if id, ok := as.Lhs[0].(*ast.Ident); ok && id.Name == name {
			if fl, ok := as.Rhs[0].(*ast.FuncLit); ok {
				return fl.Body.List
			}
		}
	}
	return nil
}

// keep returns the statements whose text contains one of the keys.
func keep(texts []string, keys ...string) []string {
	var out []string
	for _, t := range texts {
		for _, k := range keys {
			if strings.Contains(t, k) {
				out = append(out, t)
				break
			}
		}
	}
	return out
}

// cellPixelAxes recognises
//
//	<w>, <h> := A, B
//	if vx.winSize.Cols OP n && vx.winSize.XPixel/vx.winSize.Cols OP' n' { <w> = vx.winSize.XPixel / vx.winSize.Cols }
//	if vx.winSize.Rows OP n && vx.winSize.YPixel/vx.winSize.Rows OP' n' { <h> = vx.winSize.YPixel / vx.winSize.Rows }
//	return <w>, <h>
//
// (the two ifs in either order, any local names) and returns the two axes as Lean terms; "none" otherwise.
func cellPixelAxes(c *ex.Ctx, fd *ast.FuncDecl) (string, string) {
	none := "none"
	if fd == nil || fd.Body == nil || len(fd.Body.List) != 4 {
		return none, none
	}
	l := fd.Body.List
	as, ok := l[0].(*ast.AssignStmt)
	if !ok || as.Tok != token.DEFINE || len(as.Lhs) != 2 || len(as.Rhs) != 2 {
		return none, none
	}
	wN, hN := src(c, as.Lhs[0]), src(c, as.Lhs[1])
	lit := func(e ast.Expr) (uint64, bool) {
		b, ok := e.(*ast.BasicLit)
		if !ok || b.Kind != token.INT {
			return 0, false
		}
		v, err := strconv.ParseUint(b.Value, 0, 32)
		return v, err == nil
	}
	wI, ok1 := lit(as.Rhs[0])
	hI, ok2 := lit(as.Rhs[1])
	if !ok1 || !ok2 || src(c, l[3]) != "return "+wN+", "+hN {
		return none, none
	}
	axis := func(st ast.Stmt, v string, init uint64, cells, pix string) string {
		is, ok := st.(*ast.IfStmt)
		if !ok || is.Init != nil || is.Else != nil || len(is.Body.List) != 1 {
			return none
		}
		quot := "vx.winSize." + pix + "/vx.winSize." + cells
		if strings.ReplaceAll(src(c, is.Body.List[0]), " ", "") != v+"=vx.winSize."+pix+"/vx.winSize."+cells {
			return none
		}
		be, ok := is.Cond.(*ast.BinaryExpr)
		if !ok || be.Op != token.LAND {
			return none
		}
		side := func(e ast.Expr, lhs string) (string, uint64, bool) {
			b, ok := e.(*ast.BinaryExpr)
			if !ok || strings.ReplaceAll(src(c, b.X), " ", "") != lhs {
				return "", 0, false
			}
			op, ok := cmpNames[b.Op]
			n, ok2 := lit(b.Y)
			return op, n, ok && ok2
		}
		c1, n1, ok1 := side(be.X, "vx.winSize."+cells)
		c2, n2, ok2 := side(be.Y, quot)
		if !ok1 || !ok2 {
			return none
		}
		return fmt.Sprintf("some ⟨%d, %s, %d, %s, %d⟩", init, c1, n1, c2, n2)
	}
	wAx := axis(l[1], wN, wI, "Cols", "XPixel")
	hAx := axis(l[2], hN, hI, "Rows", "YPixel")
	if wAx == none && hAx == none { // the two ifs the other way round
		wAx = axis(l[2], wN, wI, "Cols", "XPixel")
		hAx = axis(l[1], hN, hI, "Rows", "YPixel")
	}
	return wAx, hAx
}

// renderShape recognises the statements of render from the label outerLast to `vx.graphicsLast = vx.graphicsNext`.
// Never fails: anything unexpected goes to `extra` (and the theorem render_shape fails).
func renderShape(c *ex.Ctx) string {
	flags := map[string]bool{}
	var extra []string
	b := func(k string) string {
		if flags[k] {
			return "true"
		}
		return "false"
	}
	out := func() string {
		q := make([]string, len(extra))
		for i, e := range extra {
			q[i] = ex.LeanStr(e)
		}
		return fmt.Sprintf("⟨%s, %s, %s, %s, %s, %s, %s, [%s]⟩", b("delOnRefresh"), b("delKeepSame"), b("delRest"),
			b("clearOnRefresh"), b("writeSkipSame"), b("writeRest"), b("saveLast"), strings.Join(q, ", "))
	}
	vf := c.Parse("vaxis.go")
	if vf == nil {
		extra = append(extra, "vaxis.go not parsed")
		return out()
	}
	fd := ex.FindFunc(vf, "Vaxis", "render")
	if fd == nil || fd.Body == nil {
		extra = append(extra, "render not found")
		return out()
	}
	// the loop variables may have any names: the outer one is canonicalised to p1, the one of a nested
	// `for _, X := range vx.graphics…` to p2 (so that renaming them is silent)
	outerVar := ""
	loopBody := func(st ast.Stmt, over string) []ast.Stmt {
		ls, ok := st.(*ast.LabeledStmt)
		if !ok {
			return nil
		}
		rs, ok := ls.Stmt.(*ast.RangeStmt)
		if !ok || src(c, rs.X) != over || rs.Key == nil || src(c, rs.Key) != "_" || rs.Value == nil {
			return nil
		}
		id, ok := rs.Value.(*ast.Ident)
		if !ok || id.Name == "_" {
			return nil
		}
		outerVar = id.Name
		return rs.Body.List
	}
	innerRe := regexp.MustCompile(`^for _, (\w+) := range vx\.graphics(Next|Last) \{`)
	canon := func(t string) string {
		inner := ""
		if m := innerRe.FindStringSubmatch(t); m != nil {
			inner = m[1]
		}
		const tmp1, tmp2 = "\x00P1\x00", "\x00P2\x00"
		if outerVar != "" {
			t = regexp.MustCompile(`\b`+regexp.QuoteMeta(outerVar)+`\b`).ReplaceAllString(t, tmp1)
		}
		if inner != "" {
			t = regexp.MustCompile(`\b`+regexp.QuoteMeta(inner)+`\b`).ReplaceAllString(t, tmp2)
		}
		return strings.ReplaceAll(strings.ReplaceAll(t, tmp1, "p1"), tmp2, "p2")
	}
	on := false
	for _, st := range fd.Body.List {
		ls, isL := st.(*ast.LabeledStmt)
		if isL && (ls.Label.Name == "outerLast" || ls.Label.Name == "outerNew") {
			on = true
		}
		if !on {
			continue
		}
		t := src(c, st)
		switch {
		case isL && ls.Label.Name == "outerLast":
			body := loopBody(st, "vx.graphicsLast")
			if body == nil {
				extra = append(extra, t)
				break
			}
			// expected, in this order (each optional): refresh arm, same-placement loop, delete
			want := []struct{ key, text string }{
				{"delOnRefresh", "if vx.refresh { p1.deleteFn(vx.tw) continue }"},
				{"delKeepSame", "for _, p2 := range vx.graphicsNext { if samePlacement(p1, p2) { continue outerLast } }"},
				{"delRest", "p1.deleteFn(vx.tw)"}}
			k := 0
			for _, bs := range body {
				bt := canon(src(c, bs))
				found := false
				for ; k < len(want); k++ {
					if want[k].text == bt {
						flags[want[k].key] = true
						found = true
						k++
						break
					}
				}
				if !found {
					extra = append(extra, "outerLast: "+bt)
				}
			}
		case isL && ls.Label.Name == "outerNew":
			body := loopBody(st, "vx.graphicsNext")
			if body == nil {
				extra = append(extra, t)
				break
			}
			want := []struct{ key, text string }{
				{"writeSkipSame", "for _, p2 := range vx.graphicsLast { if samePlacement(p1, p2) { continue outerNew } }"},
				{"cup", "_, _ = vx.tw.WriteString(tparm(cup, p1.row+1, p1.col+1))"},
				{"writeRest", "p1.writeTo(vx.tw)"}}
			k := 0
			for _, bs := range body {
				bt := canon(src(c, bs))
				found := false
				for ; k < len(want); k++ {
					if want[k].text == bt {
						flags[want[k].key] = true
						found = true
						k++
						break
					}
				}
				if !found {
					extra = append(extra, "outerNew: "+bt)
				}
			}
			if flags["writeRest"] && !flags["cup"] {
				extra = append(extra, "outerNew: the cursor is not moved to the placement before it is written")
			}
		case t == "if vx.refresh { vx.graphicsLast = []*placement{} }" && !flags["writeRest"] && !flags["writeSkipSame"]:
			flags["clearOnRefresh"] = true
		case t == "vx.graphicsLast = vx.graphicsNext":
			flags["saveLast"] = true
		default:
			extra = append(extra, t)
		}
		if t == "vx.graphicsLast = vx.graphicsNext" {
			break
		}
	}
	if !on {
		extra = append(extra, "label outerLast not found")
	}
	return out()
}

// structuredGates: every top-level `if cond { return }` of a Draw method as a Gate value.  The size test is only
// recognised when `<w>, <h> := win.Size()` (any two local names) is a top-level statement before it and neither
// local nor win is assigned in between; anything else is `.unknown "<cond>"`.  Never fails.
func structuredGates(c *ex.Ctx, fd *ast.FuncDecl, recv string) []string {
	if fd == nil || fd.Body == nil {
		return []string{".unknown \"function not found\""}
	}
	var out []string
	// names of the locals holding `win.Size()` ("" = not (or no longer) known)
	wName, hName := "", ""
	for _, st := range fd.Body.List {
		if as, ok := st.(*ast.AssignStmt); ok {
			for _, l := range as.Lhs {
				if n := src(c, l); n == wName || n == hName || n == "win" {
					wName, hName = "", ""
				}
			}
			if len(as.Lhs) == 2 && len(as.Rhs) == 1 && src(c, as.Rhs[0]) == "win.Size()" {
				a, ok1 := as.Lhs[0].(*ast.Ident)
				b, ok2 := as.Lhs[1].(*ast.Ident)
				if ok1 && ok2 && a.Name != "_" && b.Name != "_" {
					wName, hName = a.Name, b.Name
				}
			}
			continue
		}
		is, ok := st.(*ast.IfStmt)
		if !ok || is.Init != nil || is.Else != nil || len(is.Body.List) != 1 {
			continue
		}
		if r, ok := is.Body.List[0].(*ast.ReturnStmt); !ok || len(r.Results) != 0 {
			continue
		}
		cond := src(c, is.Cond)
		switch {
		case cond == recv+".buf.Len() == 0":
			out = append(out, ".noData")
		case cond == "atomicLoad(&"+recv+".encoding)":
			out = append(out, ".encoding")
		case cond == recv+".w == 0 || "+recv+".h == 0":
			out = append(out, ".zeroSize")
		default:
			g := ".unknown " + ex.LeanStr(cond)
			if be, ok := is.Cond.(*ast.BinaryExpr); ok && wName != "" && (be.Op == token.LOR || be.Op == token.LAND) {
				cw, ok1 := cmpOf(c, be.X, recv+".w", wName)
				ch, ok2 := cmpOf(c, be.Y, recv+".h", hName)
				if ok1 && ok2 {
					conn := ".or"
					if be.Op == token.LAND {
						conn = ".and"
					}
					g = fmt.Sprintf(".size %s %s %s", cw, conn, ch)
				}
			}
			out = append(out, g)
		}
	}
	return out
}

func funcBody(f *ast.File, recv, name string) []ast.Stmt {
	fd := ex.FindFunc(f, recv, name)
	if fd == nil || fd.Body == nil {
		return nil
	}
	return fd.Body.List
}

// renderOrder: the top-level statements of render from the first of the labels outerLast / outerNew to
// `vx.graphicsLast = vx.graphicsNext`, in source order.  Never fails.
func renderOrder(c *ex.Ctx) []string {
	vf := c.Parse("vaxis.go")
	if vf == nil {
		return []string{".other"}
	}
	fd := ex.FindFunc(vf, "Vaxis", "render")
	if fd == nil || fd.Body == nil {
		return []string{".other"}
	}
	var out []string
	on := false
	for _, st := range fd.Body.List {
		ls, isL := st.(*ast.LabeledStmt)
		if isL && (ls.Label.Name == "outerLast" || ls.Label.Name == "outerNew") {
			on = true
		}
		if !on {
			continue
		}
		t := src(c, st)
		over := ""
		if isL {
			if rs, ok := ls.Stmt.(*ast.RangeStmt); ok {
				over = src(c, rs.X)
			}
		}
		switch {
		case isL && ls.Label.Name == "outerLast" && over == "vx.graphicsLast":
			out = append(out, ".deleteLoop")
		case isL && ls.Label.Name == "outerNew" && over == "vx.graphicsNext":
			out = append(out, ".writeLoop")
		case t == "if vx.refresh { vx.graphicsLast = []*placement{} }":
			out = append(out, ".clearLast")
		case t == "vx.graphicsLast = vx.graphicsNext":
			out = append(out, ".saveLast")
		default:
			out = append(out, ".other")
		}
		if t == "vx.graphicsLast = vx.graphicsNext" {
			break
		}
	}
	return out
}

// kittyAct recognises one simple statement of the upload code; ok=false when the statement does not mention
// k.uploaded / k.buf and is no placement command (it is then left out when `filter` is set).
func kittyAct(c *ex.Ctx, st ast.Stmt) (string, bool) {
	t := src(c, st)
	flat := strings.ReplaceAll(t, " ", "")
	switch {
	case flat == "atomicStore(&k.uploaded,false)":
		return ".storeUploaded false", true
	case flat == "atomicStore(&k.uploaded,true)":
		return ".storeUploaded true", true
	case flat == "w.Write(k.buf.Bytes())" || flat == "_,_=w.Write(k.buf.Bytes())":
		return ".sendBuf", true
	case flat == "k.buf.Reset()":
		return ".resetBuf", true
	}
	if fs, ok := st.(*ast.ForStmt); ok && fs.Init == nil && fs.Post == nil && fs.Cond != nil && src(c, fs.Cond) == "buf.Len() > 0" {
		// the chunking loop: reads from the local buffer and appends one transmission command per chunk to k.buf
		appends := false
		for _, b := range fs.Body.List {
			bt := strings.ReplaceAll(src(c, b), " ", "")
			if strings.HasPrefix(bt, "fmt.Fprintf(k.buf,") && strings.Contains(bt, "_Gf=100,i=%d,m=%d;%s") {
				appends = true
			}
		}
		if appends {
			return ".appendChunks", true
		}
	}
	if es, ok := st.(*ast.ExprStmt); ok {
		if call, ok := es.X.(*ast.CallExpr); ok && src(c, call.Fun) == "fmt.Fprintf" && len(call.Args) == 4 &&
			src(c, call.Args[0]) == "w" && strings.Contains(src(c, call.Args[1]), "_Ga=p,i=%d,p=%d") &&
			src(c, call.Args[2]) == "k.id" && src(c, call.Args[3]) == "pid" {
			return ".place", true
		}
	}
	if strings.Contains(t, "k.uploaded") || strings.Contains(t, "k.buf") {
		return ".other " + ex.LeanStr(t), true
	}
	return ".other " + ex.LeanStr(t), false
}

// kittyStmts: the statements of a body of the kitty upload code as KStmt terms.  With filter set, statements that
// neither touch k.uploaded / k.buf nor place are left out (the goroutine of Resize also encodes, logs, posts).
func kittyStmts(c *ex.Ctx, l []ast.Stmt, filter bool) []string {
	var out []string
	for _, st := range l {
		if is, ok := st.(*ast.IfStmt); ok && is.Init == nil && is.Else == nil {
			cond := strings.ReplaceAll(src(c, is.Cond), " ", "")
			kind := ""
			switch cond {
			case "!atomicLoad(&k.uploaded)":
				kind = ".ifNotUploaded"
			case "atomicLoad(&k.uploaded)":
				kind = ".ifUploaded"
			}
			if kind != "" {
				var acts []string
				for _, b := range is.Body.List {
					a, _ := kittyAct(c, b)
					acts = append(acts, a)
				}
				out = append(out, fmt.Sprintf("%s [%s]", kind, strings.Join(acts, ", ")))
				continue
			}
		}
		a, rel := kittyAct(c, st)
		if rel || !filter {
			out = append(out, ".act ("+a+")")
		}
	}
	return out
}

// iexpr: an int expression of a Draw loop as an IExpr term (names: the loop index, <recv>.width, the two locals).
func iexpr(c *ex.Ctx, e ast.Expr, names map[string]string) string {
	switch v := e.(type) {
	case *ast.ParenExpr:
		return iexpr(c, v.X, names)
	case *ast.Ident:
		if n, ok := names[v.Name]; ok {
			return n
		}
	case *ast.SelectorExpr:
		if n, ok := names[src(c, v)]; ok {
			return n
		}
	case *ast.BasicLit:
		if v.Kind == token.INT {
			if n, err := strconv.ParseUint(v.Value, 0, 32); err == nil {
				return fmt.Sprintf("(.lit %d)", n)
			}
		}
	case *ast.BinaryExpr:
		op := map[token.Token]string{token.QUO: ".div", token.SUB: ".sub", token.MUL: ".mul", token.ADD: ".add"}[v.Op]
		if op != "" {
			return fmt.Sprintf("(%s %s %s)", op, iexpr(c, v.X, names), iexpr(c, v.Y, names))
		}
	}
	return "(.unknown " + ex.LeanStr(src(c, e)) + ")"
}

// drawLoop recognises the `for i, cell := range <recv>.cells { … }` of a block image's Draw.  Never fails.
func drawLoop(c *ex.Ctx, fd *ast.FuncDecl, recv string) string {
	unk := func(why string) string {
		return fmt.Sprintf("⟨false, .unknown %s, .unknown %s, .unknown %s, .unknown %s, .unknown %s, [%s]⟩",
			ex.LeanStr(why), ex.LeanStr(why), ex.LeanStr(why), ex.LeanStr(why), ex.LeanStr(why), ex.LeanStr(why))
	}
	if fd == nil || fd.Body == nil {
		return unk("function not found")
	}
	var rs *ast.RangeStmt
	var extra []string
	for _, st := range fd.Body.List {
		if r, ok := st.(*ast.RangeStmt); ok && rs == nil {
			rs = r
			continue
		}
		t := src(c, st)
		// reading the origin for the trace line changes nothing
		if strings.HasSuffix(t, ":= win.Origin()") || strings.HasPrefix(t, "log.") {
			continue
		}
		extra = append(extra, t)
	}
	if rs == nil {
		return unk("no range loop")
	}
	iName, cellName := "", ""
	if id, ok := rs.Key.(*ast.Ident); ok {
		iName = id.Name
	}
	if rs.Value != nil {
		if id, ok := rs.Value.(*ast.Ident); ok {
			cellName = id.Name
		}
	}
	rangeCells := src(c, rs.X) == recv+".cells" && iName != "" && iName != "_" && cellName != "" && cellName != "_" && rs.Tok == token.DEFINE
	names := map[string]string{iName: ".i", recv + ".width": ".width"}
	defs := []string{".unknown \"missing\"", ".unknown \"missing\""}
	localNames := []string{".y", ".x"}
	nDefs := 0
	setCol, setRow, cell := ".unknown \"missing\"", ".unknown \"missing\"", ".unknown \"missing\""
	for _, st := range rs.Body.List {
		if as, ok := st.(*ast.AssignStmt); ok && as.Tok == token.DEFINE && len(as.Lhs) == 1 && len(as.Rhs) == 1 && nDefs < 2 {
			if id, ok := as.Lhs[0].(*ast.Ident); ok {
				defs[nDefs] = iexpr(c, as.Rhs[0], names)
				names[id.Name] = localNames[nDefs]
				nDefs++
				continue
			}
		}
		if es, ok := st.(*ast.ExprStmt); ok {
			if call, ok := es.X.(*ast.CallExpr); ok && src(c, call.Fun) == "win.SetCell" && len(call.Args) == 3 {
				setCol = iexpr(c, call.Args[0], names)
				setRow = iexpr(c, call.Args[1], names)
				ct := strings.ReplaceAll(src(c, call.Args[2]), " ", "")
				switch {
				case ct == cellName:
					cell = ".stored"
				case ct == "Cell{Character:Character{Grapheme:\"\",Width:1,},Style:Style{Background:"+cellName+",},}":
					cell = ".spaceOnStoredBg"
				default:
					cell = ".unknown " + ex.LeanStr(src(c, call.Args[2]))
				}
				continue
			}
		}
		extra = append(extra, src(c, st))
	}
	q := make([]string, len(extra))
	for i, e := range extra {
		q[i] = ex.LeanStr(e)
	}
	rc := "false"
	if rangeCells {
		rc = "true"
	}
	return fmt.Sprintf("⟨%s, %s, %s, %s, %s, %s, [%s]⟩", rc, defs[0], defs[1], setCol, setRow, cell, strings.Join(q, ", "))
}

// genFlow: what is still pinned as TEXT (round 4): the format strings of the kitty graphics commands (data, not
// structure; the harness's regular expression parses exactly these).  Never fails.
func genFlow(c *ex.Ctx, f *ast.File) {
	var sb strings.Builder
	sb.WriteString("namespace VaxisModel.Gen.ImageFlow\n\n")
	var fmts []string
	for _, name := range []string{"Draw", "Resize", "Destroy"} {
		fd := ex.FindFunc(f, "KittyImage", name)
		if fd == nil || fd.Body == nil {
			continue
		}
		ast.Inspect(fd.Body, func(n ast.Node) bool {
			if call, ok := n.(*ast.CallExpr); ok && src(c, call.Fun) == "fmt.Fprintf" && len(call.Args) >= 2 {
				if b, ok := call.Args[1].(*ast.BasicLit); ok && b.Kind == token.STRING && strings.Contains(b.Value, "_G") {
					fmts = append(fmts, name+": "+b.Value)
				}
			}
			return true
		})
	}
	fmt.Fprintf(&sb, "/-- the format strings of the kitty graphics commands written by KittyImage.Draw / Resize / Destroy, in source order -/\ndef kittyFormats : List String := %s\n\n", leanStrList(fmts))
	sb.WriteString("end VaxisModel.Gen.ImageFlow\n")
	c.Write("ImageFlow.lean", sb.String())
}
