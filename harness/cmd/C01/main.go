// Harness for C01: drives a real Vaxis on the fake console through frame histories and records,
// per frame, the application's screen (snapshot of the next buffer) and the bytes written.
package main

import (
	"fmt"
	"strings"

	"git.sr.ht/~rockorager/vaxis"
	"verifharness/fakeconsole"
	"verifharness/gen"
	"verifharness/hx"
)

func main() { hx.Main("C01", run) }

var alphabet = []string{"a", "b", "x", " ", "é", "é", "世", "\U0001F525", "\U0001F469‍\U0001F680", "\U0001F1E9\U0001F1EA", "​", ""}

type session struct {
	r     *hx.Run
	rng   *gen.Rng
	fc    *fakeconsole.Console
	vx    *vaxis.Vaxis
	cells map[vaxis.Cell]int
	w, h  int
	ew    bool
	sixel bool // this history also places sixel-flagged cells
}

func capsMask(rgb, su, ew, sync, uc bool) uint32 {
	var m uint32
	if rgb {
		m |= 1 << 6
	}
	if su {
		m |= 1 << 7
	}
	if ew {
		m |= 1 << 15
	}
	if sync {
		m |= 1 << 1
	}
	if uc {
		m |= 1 << 2
	}
	return m
}

func max(a, b int) int {
	if a > b {
		return a
	}
	return b
}

func b01(b bool) int {
	if b {
		return 1
	}
	return 0
}

func newSession(r *hx.Run, rng *gen.Rng, id string, w, h int, rgb, su, ew, sync, uc bool) (*session, error) {
	fc := fakeconsole.New(w, h, fakeconsole.FromMask(capsMask(rgb, su, ew, sync, uc)))
	vx, err := vaxis.New(vaxis.Options{WithConsole: fc, NoSignals: true})
	if err != nil {
		return nil, err
	}
	fc.Take()
	s := &session{r: r, rng: rng, fc: fc, vx: vx, cells: map[vaxis.Cell]int{}, w: w, h: h, ew: ew}
	r.Case(id)
	r.Emit(fmt.Sprintf("caps %d %d %d %d", b01(vx.CanRGB()), b01(su), b01(ew), b01(sync)), "-")
	r.Emit(fmt.Sprintf("size %d %d", w, h), "-")
	var d []string
	for _, g := range alphabet {
		d = append(d, fmt.Sprintf("%s:%d", hx.Hex(g), vx.RenderedWidth(g)))
	}
	// clusters the single-line text helpers can put into a cell although they are not in the alphabet
	for _, g := range []string{"\n", "\r\n", "\t", "…"} {
		d = append(d, fmt.Sprintf("%s:%d", hx.Hex(g), vx.RenderedWidth(g)))
	}
	r.Emit("dict "+strings.Join(d, " "), "-")
	return s, nil
}

func (s *session) close() { s.vx.Close() }

func (s *session) grid() string {
	buf := s.vx.VerifScreenNext()
	var rows []string
	for _, row := range buf {
		var ids []string
		for _, c := range row {
			id, ok := s.cells[c]
			if !ok {
				id = len(s.cells)
				s.cells[c] = id
				s.r.Emit(fmt.Sprintf("cell %d %s %d %d %d %d %d %d %s %s %d", id, hx.Hex(c.Grapheme), c.Width,
					uint32(c.Foreground), uint32(c.Background), uint32(c.UnderlineColor), c.UnderlineStyle, c.Attribute,
					hx.Hex(c.Hyperlink), hx.Hex(c.HyperlinkParams), b01(vaxis.VerifCellSixel(c))), "-")
			}
			ids = append(ids, fmt.Sprint(id))
		}
		rows = append(rows, strings.Join(ids, ","))
	}
	if len(rows) == 0 {
		return "-"
	}
	return strings.Join(rows, "/")
}

func (s *session) render(refresh bool) {
	g := s.grid()
	if refresh {
		s.vx.Refresh()
		s.r.Emit("refresh "+g, hx.Hex(string(s.fc.Take())))
		s.r.Count("frame-refresh")
	} else {
		s.vx.Render()
		s.r.Emit("render "+g, hx.Hex(string(s.fc.Take())))
		s.r.Count("frame-render")
	}
}

func (s *session) resize(w, h int) {
	if w == s.w && h == s.h {
		return
	}
	s.fc.SetSize(w, h)
	s.vx.Resize()
	s.vx.Render()
	// drain the Redraw/Resize events so the queue never fills
	for len(s.vx.Events()) > 0 {
		<-s.vx.Events()
	}
	s.w, s.h = w, h
	s.r.Emit(fmt.Sprintf("resize %d %d", w, h), hx.Hex(string(s.fc.Take())))
	s.r.Count("frame-resize")
	// the application re-places (or hides) its cursor for the new size
	if s.rng.Bool() {
		s.hideCursor()
	} else {
		s.showCursor(s.rng.Intn(w), s.rng.Intn(h), vaxis.CursorStyle(s.rng.Intn(7)))
	}
}

func (s *session) showCursor(col, row int, style vaxis.CursorStyle) {
	s.vx.ShowCursor(col, row, style)
	s.r.Emit(fmt.Sprintf("showcursor %d %d %d", col, row, int(style)), "-")
}

func (s *session) hideCursor() {
	s.vx.HideCursor()
	s.r.Emit("hidecursor", "-")
}

func randColor(rng *gen.Rng) vaxis.Color {
	switch rng.Intn(7) {
	case 0, 1:
		return 0
	case 2:
		return vaxis.IndexColor(uint8(rng.Intn(8)))
	case 3:
		return vaxis.IndexColor(uint8(8 + rng.Intn(8)))
	case 4:
		return vaxis.IndexColor(uint8(16 + rng.Intn(240)))
	default:
		return vaxis.RGBColor(uint8(rng.Intn(256)), uint8(rng.Intn(256)), uint8(rng.Intn(256)))
	}
}

var links = [][2]string{{"", ""}, {"", ""}, {"http://a", ""}, {"http://a", "id=1"}, {"http://b", "id=2"}, {"", "id=9"}, {"http://c/v;s=4?x=1", "id=3"},
	// F112b: a ';' inside the parameter string (the OSC 8 parameter field ends at the first ';')
	{"http://d", "a;b"}, {"http://d", ";id=5"}, {"http://a", "id=1;"}}

func randStyle(rng *gen.Rng, r *hx.Run) vaxis.Style {
	if rng.Chance(1, 4) {
		r.Count("style-default")
		return vaxis.Style{}
	}
	st := vaxis.Style{Foreground: randColor(rng), Background: randColor(rng)}
	if rng.Chance(1, 2) {
		st.UnderlineStyle = vaxis.UnderlineStyle(rng.Intn(6))
		st.UnderlineColor = randColor(rng)
	}
	switch rng.Intn(4) {
	case 0:
	case 1:
		st.Attribute = vaxis.AttributeMask(1 << uint(1+rng.Intn(7)))
	case 2:
		st.Attribute = vaxis.AttributeMask(rng.Intn(256))
	case 3:
		st.Attribute = vaxis.AttrBold | vaxis.AttrDim&vaxis.AttributeMask(rng.Intn(256))
	}
	l := gen.Pick(rng, links)
	st.Hyperlink, st.HyperlinkParams = l[0], l[1]
	if l[0] != "" {
		r.Count("style-link")
	}
	r.Count("style-custom")
	return st
}

func (s *session) randCell(styles []vaxis.Style) vaxis.Cell {
	g := gen.Pick(s.rng, alphabet)
	c := vaxis.Cell{Character: vaxis.Character{Grapheme: g}, Style: gen.Pick(s.rng, styles)}
	w := s.vx.RenderedWidth(g)
	switch {
	case w > 0 && s.rng.Chance(1, 4):
		c.Width = w // explicit, correct
		s.r.Count("width-explicit")
	case s.ew && w > 0 && s.rng.Chance(1, 6):
		c.Width = 2 + s.rng.Intn(2) // OSC 66 makes the terminal obey
		s.r.Count("width-explicit-forced")
	default:
		s.r.Count("width-auto")
	}
	switch {
	case w == 0:
		s.r.Count("g-zero-width")
	case w == 1:
		s.r.Count("g-narrow")
	default:
		s.r.Count("g-wide")
	}
	return c
}

func (s *session) drawOps(n int, styles []vaxis.Style) {
	win := s.vx.Window()
	for i := 0; i < n; i++ {
		k := s.rng.Intn(12)
		if s.sixel && s.rng.Chance(1, 6) {
			k = 12
		} else if s.rng.Chance(1, 5) {
			k = 13 + s.rng.Intn(4)
		}
		switch k {
		case 13, 14, 15:
			// the other text helpers, through a nested window (offsets may be negative / sizes oversized:
			// the windows clip)
			var sb strings.Builder
			for n := s.rng.Intn(8); n >= 0; n-- {
				sb.WriteString(gen.Pick(s.rng, alphabet))
				if s.rng.Chance(1, 6) {
					sb.WriteString(gen.Pick(s.rng, []string{" ", "\n", "\t"}))
				}
			}
			outer := win.New(s.rng.Range(-1, s.w-1), s.rng.Range(-1, s.h-1), s.rng.Range(-1, s.w+1), s.rng.Range(-1, s.h+1))
			inner := outer.New(s.rng.Range(-1, 2), s.rng.Range(-1, 1), s.rng.Range(-1, s.w), s.rng.Range(-1, s.h))
			seg := vaxis.Segment{Text: sb.String(), Style: gen.Pick(s.rng, styles)}
			switch k {
			case 13:
				inner.Wrap(seg)
				s.r.Count("op-wrap-nested")
			case 14:
				inner.Println(s.rng.Range(-1, s.h), seg)
				s.r.Count("op-println-nested")
			case 15:
				inner.PrintTruncate(s.rng.Range(-1, s.h), seg)
				s.r.Count("op-printtruncate-nested")
			}
		case 16:
			// Window.ShowCursor through a nested window, at an offset inside it (so inside the screen)
			outer := win.New(s.rng.Intn(s.w), s.rng.Intn(s.h), -1, -1)
			ow, oh := outer.Size()
			inner := outer.New(s.rng.Intn(ow), s.rng.Intn(oh), -1, -1)
			iw, ih := inner.Size()
			c, rw, st := s.rng.Intn(iw), s.rng.Intn(ih), vaxis.CursorStyle(s.rng.Intn(7))
			inner.ShowCursor(c, rw, st)
			ox, oy := inner.Origin()
			s.r.Emit(fmt.Sprintf("showcursor %d %d %d", ox+c, oy+rw, int(st)), "-")
			s.r.Count("op-showcursor-nested")
		case 12:
			// what Sixel.Draw does to the cells under an image (w x h block of sixel-flagged cells);
			// later ops / Clear overwrite them = the image is dropped
			x0, y0 := s.rng.Intn(s.w), s.rng.Intn(s.h)
			for y := y0; y < y0+1+s.rng.Intn(2); y++ {
				for x := x0; x < x0+1+s.rng.Intn(3); x++ {
					win.SetCell(x, y, vaxis.VerifSixelCell())
				}
			}
			s.r.Count("op-sixel-block")
		case 0:
			win.Clear()
			s.r.Count("op-clear")
		case 1:
			c := s.randCell(styles)
			if s.vx.RenderedWidth(c.Grapheme) > 1 || c.Width > 1 {
				c.Grapheme, c.Width = "b", 0 // a fill with a wide glyph always ends in the last column
			}
			win.Fill(c)
			s.r.Count("op-fill")
		case 2, 3, 4, 5, 6:
			c := s.randCell(styles)
			col := s.rng.Range(-1, s.w)
			if wd := max(s.vx.RenderedWidth(c.Grapheme), c.Width); wd > 1 && col+wd > s.w && s.rng.Chance(9, 10) {
				col = s.w - wd // mostly keep wide glyphs inside the row
				s.r.Count("wide-moved-inside")
			}
			win.SetCell(col, s.rng.Range(-1, s.h), c)
			s.r.Count("op-setcell")
		case 7:
			win.SetStyle(s.rng.Range(-1, s.w), s.rng.Range(-1, s.h), gen.Pick(s.rng, styles))
			s.r.Count("op-setstyle")
		case 8:
			var sb strings.Builder
			for k := s.rng.Intn(6); k >= 0; k-- {
				sb.WriteString(gen.Pick(s.rng, alphabet))
			}
			child := win.New(s.rng.Intn(s.w), s.rng.Intn(s.h), -1, -1)
			child.Print(vaxis.Segment{Text: sb.String(), Style: gen.Pick(s.rng, styles)})
			s.r.Count("op-print")
		case 9:
			s.showCursor(s.rng.Intn(s.w), s.rng.Intn(s.h), vaxis.CursorStyle(s.rng.Intn(7)))
			s.r.Count("op-showcursor")
		case 10:
			s.hideCursor()
			s.r.Count("op-hidecursor")
		case 11:
			// rewrite an existing cell in place with a narrower / wider glyph or same link
			col, row := s.rng.Intn(s.w), s.rng.Intn(s.h)
			win.SetCell(col, row, s.randCell(styles))
			if col+2 < s.w {
				win.SetCell(col+2, row, s.randCell(styles))
			}
			s.r.Count("op-setcell-pair")
		}
	}
}

func history(r *hx.Run, rng *gen.Rng, id string, maxW, maxH, frames int) error {
	w, h := rng.Range(1, maxW), rng.Range(1, maxH)
	s, err := newSession(r, rng, id, w, h, rng.Bool(), rng.Bool(), rng.Bool(), rng.Bool(), rng.Bool())
	if err != nil {
		return err
	}
	defer s.close()
	s.sixel = rng.Chance(1, 4)
	if s.sixel {
		r.Count("history-with-sixel-cells")
	}
	styles := []vaxis.Style{{}}
	for i := 0; i < 3; i++ {
		styles = append(styles, randStyle(rng, r))
	}
	for f := 0; f < frames; f++ {
		s.drawOps(rng.Intn(6), styles)
		switch rng.Intn(10) {
		case 0:
			s.render(true)
		case 1:
			s.resize(rng.Range(1, maxW), rng.Range(1, maxH))
			s.drawOps(rng.Intn(4), styles)
			s.render(false)
		default:
			s.render(false)
		}
	}
	return nil
}

// scenario runs a fixed list of frames: each frame is a list of (col,row,cell) writes (after an
// optional Clear) followed by a Render.
type write struct {
	col, row int
	c        vaxis.Cell
}

func scenario(r *hx.Run, rng *gen.Rng, id string, w, h int, rgb, su, ew, sync bool, frames [][]write, clearFirst []bool) error {
	s, err := newSession(r, rng, id, w, h, rgb, su, ew, sync, true)
	if err != nil {
		return err
	}
	defer s.close()
	for i, f := range frames {
		win := s.vx.Window()
		if clearFirst[i] {
			win.Clear()
		}
		for _, wr := range f {
			win.SetCell(wr.col, wr.row, wr.c)
		}
		s.render(false)
	}
	return nil
}

// corpusStyles are the styles a corpus scenario can name by index.
var corpusStyles = []vaxis.Style{{}, {Foreground: vaxis.IndexColor(1), Hyperlink: "http://a"},
	{Attribute: vaxis.AttrBold, Background: vaxis.RGBColor(1, 2, 3), Hyperlink: "http://a"}, {Foreground: vaxis.IndexColor(1)},
	{Hyperlink: "http://d", HyperlinkParams: "a;b"}, {Hyperlink: "http://d", HyperlinkParams: "a"}}

// corpus replays one minimised past failure (corpus/C01/*.ops). Lines:
//
//	session <w> <h> <rgb> <su> <ew> <sync> <uc>     (0/1 each; first line)
//	set <col> <row> <grapheme hex|-> <width> <style index>
//	sixel <col> <row>                                (the cell Sixel.Draw puts under an image)
//	clear | render | refresh
//
// The scenario lines are echoed into the stream (the driver ignores them) so that a replay file of
// such a case can be re-run.
func corpus(r *hx.Run, rng *gen.Rng, id string, ops []string) error {
	var s *session
	defer func() {
		if s != nil {
			s.close()
		}
	}()
	for _, op := range ops {
		f := strings.Fields(op)
		if len(f) == 0 {
			continue
		}
		if f[0] == "session" && len(f) == 8 && s == nil {
			var v [7]int
			for i := range v {
				fmt.Sscan(f[i+1], &v[i])
			}
			var err error
			s, err = newSession(r, rng, id, v[0], v[1], v[2] == 1, v[3] == 1, v[4] == 1, v[5] == 1, v[6] == 1)
			if err != nil {
				return err
			}
			r.Emit(op, "-")
			continue
		}
		if s == nil {
			continue // lines of a replay file that precede / are not part of the scenario
		}
		switch {
		case f[0] == "set" && len(f) == 6:
			var col, row, w, si int
			fmt.Sscan(f[1], &col)
			fmt.Sscan(f[2], &row)
			fmt.Sscan(f[4], &w)
			fmt.Sscan(f[5], &si)
			g := ""
			if f[3] != "-" {
				b := make([]byte, len(f[3])/2)
				fmt.Sscanf(f[3], "%x", &b)
				g = string(b)
			}
			r.Emit(op, "-")
			s.vx.Window().SetCell(col, row, vaxis.Cell{Character: vaxis.Character{Grapheme: g, Width: w}, Style: corpusStyles[si%len(corpusStyles)]})
		case f[0] == "sixel" && len(f) == 3:
			var col, row int
			fmt.Sscan(f[1], &col)
			fmt.Sscan(f[2], &row)
			r.Emit(op, "-")
			s.vx.Window().SetCell(col, row, vaxis.VerifSixelCell())
		case f[0] == "clear":
			r.Emit(op, "-")
			s.vx.Window().Clear()
		case f[0] == "render":
			s.render(false)
		case f[0] == "refresh":
			s.render(true)
		}
	}
	r.Count("corpus-case")
	return nil
}

func ch(g string) vaxis.Cell { return vaxis.Cell{Character: vaxis.Character{Grapheme: g}} }

func run(r *hx.Run) error {
	rng := gen.New(r.Seed)
	if r.Replay != "" {
		// a replay file of a corpus scenario can be re-run; generated histories are reproduced by
		// re-running with the seed recorded in the replay file
		var ops []string
		if err := hx.ReplayOps(r, func(op []string) (string, bool) { ops = append(ops, strings.Join(op, " ")); return "-", true }); err != nil {
			return err
		}
		return corpus(r, rng, "replay", ops)
	}
	for i, ops := range hx.Corpus("C01") {
		if err := corpus(r, rng, fmt.Sprintf("corpus-%d", i), ops); err != nil {
			return err
		}
	}
	// Image cells over wide glyphs (the situation of frame_displays_images' "stale" state, F113): on a 1x5
	// screen frame 1 shows a wide glyph at column c (and narrow cells elsewhere), frame 2 puts image cells on
	// every subset of the columns — over the glyph's head, its continuation, both, neither — and changes one
	// other cell, frame 3 drops the images (Clear + one cell, or a refresh of the same screen).
	{
		n := 0
		lim := 96
		if r.Thorough {
			lim = 1 << 30
		}
		for c := 0; c < 4; c++ {
			for mask := 1; mask < 32; mask++ {
				for variant := 0; variant < 3; variant++ {
					if n >= lim && rng.Intn(6) != 0 {
						continue
					}
					s, err := newSession(r, rng, fmt.Sprintf("img-%d-%d-%d", c, mask, variant), 5, 1, n%2 == 0, false, n%3 == 0, false, true)
					if err != nil {
						return err
					}
					win := s.vx.Window()
					for col := 0; col < 5; col++ {
						if col != c && col != c+1 {
							win.SetCell(col, 0, ch("a"))
						}
					}
					win.SetCell(c, 0, ch("世"))
					s.render(false)
					for col := 0; col < 5; col++ {
						if mask&(1<<uint(col)) != 0 {
							win.SetCell(col, 0, vaxis.VerifSixelCell())
						}
					}
					if variant == 1 {
						win.SetCell((c+2)%5, 0, ch("b"))
					}
					s.render(false)
					switch variant {
					case 0:
						win.Clear()
						win.SetCell(0, 0, ch("x"))
						s.render(false)
					case 1:
						s.render(true)
					case 2:
						win.SetCell(c, 0, ch("🔥"))
						s.render(false)
					}
					s.close()
					n++
					r.Count("image-over-wide")
				}
			}
		}
	}

	// Bounded-exhaustive two-frame histories on a 1-row screen: frame 1 places two glyphs,
	// frame 2 (after a Clear or not) places two more. 5 graphemes × 3 styles.
	gs := []string{"a", "世", "", " ", "\U0001F525"}
	sts := []vaxis.Style{{}, {Foreground: vaxis.IndexColor(1), Hyperlink: "http://a"}, {Attribute: vaxis.AttrBold, Background: vaxis.RGBColor(1, 2, 3), Hyperlink: "http://a"}}
	n := 0
	cols := 4
	limit := 1500
	if r.Thorough {
		limit = 1 << 30
	}
	for _, g1 := range gs {
		for _, g2 := range gs {
			for c1 := 0; c1 < cols; c1++ {
				for si := range sts {
					for _, clr := range []bool{true, false} {
						for c2 := 0; c2 < cols; c2++ {
							if n >= limit && rng.Intn(8) != 0 {
								continue
							}
							a := ch(g1)
							a.Style = sts[si]
							b := ch(g2)
							b.Style = sts[(si+1)%len(sts)]
							b2 := ch(g2)
							b2.Style = sts[si]
							frames := [][]write{{{c1, 0, a}, {(c1 + 2) % cols, 0, b2}}, {{c2, 0, b}}}
							if err := scenario(r, rng, fmt.Sprintf("ex-%d", n), cols, 1, n%2 == 0, n%3 == 0, false, n%5 == 0, frames, []bool{false, clr}); err != nil {
								return err
							}
							n++
							r.Count("exhaustive-2frame")
						}
					}
				}
			}
		}
	}
	// Random histories
	hist, maxW, maxH, frames := 700, 8, 4, 6
	if r.Thorough {
		hist, maxW, maxH, frames = 30000, 40, 12, 8
	}
	for i := 0; i < hist; i++ {
		mw, mh := maxW, maxH
		if i%3 == 0 {
			mw, mh = 4, 2
		}
		if err := history(r, rng, fmt.Sprintf("h-%d", i), mw, mh, frames); err != nil {
			return err
		}
	}
	r.Note("alphabet", alphabet)
	return nil
}
