// Harness for the op-level C01 stream (driver C01Ops): a real Vaxis on the fake console is driven
// through frame histories, and every drawing call is recorded as an op line, so that the Lean driver
// computes the next-frame buffer itself through Model.App / Model.Window (C11's draw model) and the
// renderer model, and a recorded history can be replayed.
//
// Lines (fields separated by spaces):
//
//	#case <id>
//	caps <rgb> <styledUnderlines> <explicitWidth> <sync> <unicodeCore>
//	size <cols> <rows>
//	g <id> <hex|-> <characterWidth> <containsNL> <trailingLineBreak>     grapheme table (0 "", 1 " ", 2 "…")
//	s <id> <fg> <bg> <ul> <ulstyle> <attr> <linkhex|-> <paramshex|->     style table (0 = Style{})
//	d <kind> <chain|-> <args|-> <ann|->                                   one drawing call
//	   kind: setcell c,r,g,w,st | setstyle c,r,st | fill g,w,st | clear | print | println row |
//	         trunc row | wrap | showcursor c,r,style | hidecursor | mouseshape (shape in hex in the ann field)
//	   chain: root first, '/'-separated: Rc,r,w,h (struct literal or vx.Window()), Nc,r,w,h (New), Dc,r,w,h (literal child)
//	   ann: segments '|'-separated: st;lineseg/lineseg…, lineseg = g.uw.tab,…   (as in the C11 stream)
//	render | refresh            \t <bytes hex> <grid>     grid: rows '/', cells ',' each g.w.st ('-' = no rows)
//	resize <cols> <rows>        \t <bytes hex>
package main

import (
	"encoding/json"
	"fmt"
	"os"
	"strconv"
	"strings"

	"git.sr.ht/~rockorager/vaxis"
	"github.com/rivo/uniseg"
	"verifharness/fakeconsole"
	"verifharness/gen"
	"verifharness/hx"
)

func main() { hx.Main("C01Ops", run) }

var alphabet = []string{"a", "b", "x", " ", "é", "é", "世", "\U0001F525", "\U0001F469‍\U0001F680", "\U0001F1E9\U0001F1EA", "​", ""}

type step struct {
	kind       byte // R N D
	c, r, w, h int
}

type seg struct {
	st   int
	text string
}

type dop struct {
	kind  string
	chain []step
	args  []int
	segs  []seg
	shape string // mouseshape only (recorded, in hex, in the ann field)
}

type session struct {
	r      *hx.Run
	rng    *gen.Rng
	fc     *fakeconsole.Console
	vx     *vaxis.Vaxis
	w, h   int
	uc, ew bool
	gid    map[string]int
	gstr   map[int]string
	sid    map[vaxis.Style]int
	sty    map[int]vaxis.Style
}

func capsMask(rgb, su, ew, sync, uc bool) uint32 {
	var m uint32
	if rgb {
		m |= 1 << 6
	}
	if su {
		m |= 1 << 7
	}
	if ew {
		m |= 1 << 15
	}
	if sync {
		m |= 1 << 1
	}
	if uc {
		m |= 1 << 2
	}
	return m
}

func b01(b bool) int {
	if b {
		return 1
	}
	return 0
}

func hexOr(s string) string {
	if s == "" {
		return "-"
	}
	return hx.Hex(s)
}

func newSession(r *hx.Run, rng *gen.Rng, id string, w, h int, rgb, su, ew, sync, uc bool) (*session, error) {
	fc := fakeconsole.New(w, h, fakeconsole.FromMask(capsMask(rgb, su, ew, sync, uc)))
	vx, err := vaxis.New(vaxis.Options{WithConsole: fc, NoSignals: true})
	if err != nil {
		return nil, err
	}
	// the explicit-width probe cannot succeed on the fake console (notes/C11.md): set the two width
	// capabilities through the C11 hook
	vx.VerifC11SetWidthCaps(uc, ew)
	fc.Take()
	s := &session{r: r, rng: rng, fc: fc, vx: vx, w: w, h: h, uc: uc, ew: ew,
		gid: map[string]int{}, gstr: map[int]string{}, sid: map[vaxis.Style]int{}, sty: map[int]vaxis.Style{}}
	r.Case(id)
	r.Emit(fmt.Sprintf("caps %d %d %d %d %d", b01(vx.CanRGB()), b01(su), b01(vx.CanExplicitWidth()), b01(sync), b01(vx.CanUnicodeCore())), "-")
	r.Emit(fmt.Sprintf("size %d %d", w, h), "-")
	s.defG(0, "")
	s.defG(1, " ")
	s.defG(2, "…")
	s.defS(0, vaxis.Style{})
	return s, nil
}

func (s *session) close() { s.vx.Close() }

func (s *session) defG(id int, g string) {
	s.gid[g] = id
	s.gstr[id] = g
	s.r.Emit(fmt.Sprintf("g %d %s %d %d %d", id, hexOr(g), s.vx.RenderedWidth(g), b01(strings.ContainsRune(g, '\n')),
		b01(uniseg.HasTrailingLineBreakInString(g))), "-")
}

func (s *session) g(g string) int {
	if id, ok := s.gid[g]; ok {
		return id
	}
	id := len(s.gid)
	for {
		if _, used := s.gstr[id]; !used {
			break
		}
		id++
	}
	s.defG(id, g)
	return id
}

func (s *session) defS(id int, st vaxis.Style) {
	s.sid[st] = id
	s.sty[id] = st
	s.r.Emit(fmt.Sprintf("s %d %d %d %d %d %d %s %s", id, uint32(st.Foreground), uint32(st.Background), uint32(st.UnderlineColor),
		st.UnderlineStyle, st.Attribute, hexOr(st.Hyperlink), hexOr(st.HyperlinkParams)), "-")
}

func (s *session) s(st vaxis.Style) int {
	if id, ok := s.sid[st]; ok {
		return id
	}
	id := len(s.sid)
	for {
		if _, used := s.sty[id]; !used {
			break
		}
		id++
	}
	s.defS(id, st)
	return id
}

func rawClusters(t string) []string {
	var out []string
	state := -1
	for t != "" {
		var c string
		c, t, _, state = uniseg.FirstGraphemeClusterInString(t, state)
		out = append(out, c)
	}
	return out
}

// splitsCluster mirrors window.go: does the last grapheme cluster of a continue into b?
func splitsCluster(a, b string) bool {
	var last string
	state := -1
	for len(a) > 0 {
		last, a, _, state = uniseg.FirstGraphemeClusterInString(a, state)
	}
	cluster, _, _, _ := uniseg.FirstGraphemeClusterInString(last+b, -1)
	return len(cluster) > len(last)
}

func clusterWidth(c string) int {
	_, _, w, _ := uniseg.FirstGraphemeClusterInString(c, -1)
	return w
}

// annotate: the clusters of the segments as uniseg returns them (for Wrap: per line segment, the
// line-break state carried across Segments as Wrap does).
func (s *session) annotate(kind string, segs []seg) string {
	if len(segs) == 0 {
		return "-"
	}
	var parts []string
	lstate := -1
	for _, sg := range segs {
		var lsegs [][]string
		if kind == "wrap" {
			rest := sg.text
			for len(rest) > 0 {
				var ls string
				ls, rest, _, lstate = uniseg.FirstLineSegmentInString(rest, lstate)
				// as Wrap does since the F111c repair: a line segment does not end inside a cluster
				for len(rest) > 0 && splitsCluster(ls, rest) {
					var more string
					more, rest, _, lstate = uniseg.FirstLineSegmentInString(rest, lstate)
					ls += more
				}
				lsegs = append(lsegs, rawClusters(ls))
			}
		} else if sg.text != "" {
			lsegs = append(lsegs, rawClusters(sg.text))
		}
		var ls []string
		for _, cl := range lsegs {
			var cs []string
			for _, c := range cl {
				cs = append(cs, fmt.Sprintf("%d.%d.%d", s.g(c), clusterWidth(c), b01(c == "\t")))
			}
			ls = append(ls, strings.Join(cs, ","))
		}
		parts = append(parts, fmt.Sprintf("%d;%s", sg.st, strings.Join(ls, "/")))
	}
	return strings.Join(parts, "|")
}

func ints(xs []int) string {
	if len(xs) == 0 {
		return "-"
	}
	ss := make([]string, len(xs))
	for i, x := range xs {
		ss[i] = strconv.Itoa(x)
	}
	return strings.Join(ss, ",")
}

func chainStr(ch []step) string {
	if len(ch) == 0 {
		return "-"
	}
	ss := make([]string, len(ch))
	for i, s := range ch {
		ss[i] = fmt.Sprintf("%c%d,%d,%d,%d", s.kind, s.c, s.r, s.w, s.h)
	}
	return strings.Join(ss, "/")
}

func buildWindows(vx *vaxis.Vaxis, ch []step) []*vaxis.Window {
	var wins []*vaxis.Window
	for i, s := range ch {
		switch {
		case i == 0:
			w := vaxis.Window{Vx: vx, Column: s.c, Row: s.r, Width: s.w, Height: s.h}
			full := vx.Window()
			if s.c == 0 && s.r == 0 && s.w == full.Width && s.h == full.Height {
				w = full // the constructor's value
			}
			wins = append(wins, &w)
		case s.kind == 'N':
			w := wins[i-1].New(s.c, s.r, s.w, s.h)
			wins = append(wins, &w)
		default:
			w := vaxis.Window{Vx: vx, Parent: wins[i-1], Column: s.c, Row: s.r, Width: s.w, Height: s.h}
			wins = append(wins, &w)
		}
	}
	return wins
}

// do records one drawing call and performs it on the real Vaxis.
func (s *session) do(d dop) {
	ann := s.annotate(d.kind, d.segs)
	if d.kind == "mouseshape" {
		ann = hexOr(d.shape)
	}
	s.r.Emit(fmt.Sprintf("d %s %s %s %s", d.kind, chainStr(d.chain), ints(d.args), ann), "-")
	s.r.Count("op-" + d.kind)
	if d.kind == "hidecursor" {
		s.vx.HideCursor()
		return
	}
	if d.kind == "mouseshape" {
		s.vx.SetMouseShape(vaxis.MouseShape(d.shape))
		return
	}
	wins := buildWindows(s.vx, d.chain)
	win := *wins[len(wins)-1]
	segs := make([]vaxis.Segment, len(d.segs))
	for i, sg := range d.segs {
		segs[i] = vaxis.Segment{Text: sg.text, Style: s.sty[sg.st]}
	}
	a := d.args
	switch d.kind {
	case "setcell":
		win.SetCell(a[0], a[1], vaxis.Cell{Character: vaxis.Character{Grapheme: s.gstr[a[2]], Width: a[3]}, Style: s.sty[a[4]]})
	case "setstyle":
		win.SetStyle(a[0], a[1], s.sty[a[2]])
	case "fill":
		win.Fill(vaxis.Cell{Character: vaxis.Character{Grapheme: s.gstr[a[0]], Width: a[1]}, Style: s.sty[a[2]]})
	case "clear":
		win.Clear()
	case "print":
		win.Print(segs...)
	case "println":
		win.Println(a[0], segs...)
	case "trunc":
		win.PrintTruncate(a[0], segs...)
	case "wrap":
		win.Wrap(segs...)
	case "showcursor":
		win.ShowCursor(a[0], a[1], vaxis.CursorStyle(a[2]))
	}
}

func (s *session) grid() string {
	buf := s.vx.VerifScreenNext()
	var rows []string
	for _, row := range buf {
		var cs []string
		for _, c := range row {
			cs = append(cs, fmt.Sprintf("%d.%d.%d", s.g(c.Grapheme), c.Width, s.s(c.Style)))
		}
		rows = append(rows, strings.Join(cs, ","))
	}
	if len(rows) == 0 {
		return "-"
	}
	return strings.Join(rows, "/")
}

func (s *session) render(refresh bool) {
	g := s.grid()
	if refresh {
		s.vx.Refresh()
		s.r.Emit("refresh", hexOr(string(s.fc.Take()))+" "+g)
		s.r.Count("frame-refresh")
	} else {
		s.vx.Render()
		s.r.Emit("render", hexOr(string(s.fc.Take()))+" "+g)
		s.r.Count("frame-render")
	}
}

func (s *session) resize(w, h int) {
	if w == s.w && h == s.h {
		return
	}
	s.fc.SetSize(w, h)
	s.vx.Resize()
	s.vx.Render()
	for len(s.vx.Events()) > 0 {
		<-s.vx.Events()
	}
	s.w, s.h = w, h
	s.r.Emit(fmt.Sprintf("resize %d %d", w, h), hexOr(string(s.fc.Take())))
	s.r.Count("frame-resize")
}

// ---- generation ----

func randColor(rng *gen.Rng) vaxis.Color {
	switch rng.Intn(7) {
	case 0, 1:
		return 0
	case 2:
		return vaxis.IndexColor(uint8(rng.Intn(8)))
	case 3:
		return vaxis.IndexColor(uint8(8 + rng.Intn(8)))
	case 4:
		return vaxis.IndexColor(uint8(16 + rng.Intn(240)))
	default:
		return vaxis.RGBColor(uint8(rng.Intn(256)), uint8(rng.Intn(256)), uint8(rng.Intn(256)))
	}
}

var links = [][2]string{{"", ""}, {"", ""}, {"http://a", ""}, {"http://a", "id=1"}, {"http://b", "id=2"}, {"", "id=9"},
	{"http://d", "a;b"}, {"http://d", ";id=5"}, {"http://a", "id=1;"}} // F112b: ';' inside the parameter string

func randStyle(rng *gen.Rng) vaxis.Style {
	if rng.Chance(1, 4) {
		return vaxis.Style{}
	}
	st := vaxis.Style{Foreground: randColor(rng), Background: randColor(rng)}
	if rng.Chance(1, 2) {
		st.UnderlineStyle = vaxis.UnderlineStyle(rng.Intn(6))
		st.UnderlineColor = randColor(rng)
	}
	switch rng.Intn(3) {
	case 1:
		st.Attribute = vaxis.AttributeMask(1 << uint(1+rng.Intn(7)))
	case 2:
		st.Attribute = vaxis.AttributeMask(rng.Intn(256)) &^ 1
	}
	l := gen.Pick(rng, links)
	st.Hyperlink, st.HyperlinkParams = l[0], l[1]
	return st
}

// randChain: the screen window (or, rarely, a struct-literal root), then up to two children built
// with New or as literals; offsets and sizes from negative to beyond the parent.
func (s *session) randChain() []step {
	ch := []step{{'R', 0, 0, s.w, s.h}}
	if s.rng.Chance(1, 10) {
		ch[0] = step{'R', s.rng.Range(0, 1), s.rng.Range(0, 1), s.rng.Range(0, s.w), s.rng.Range(0, s.h)}
		s.r.Count("chain-literal-root")
	}
	pw, ph := ch[0].w, ch[0].h
	for d := s.rng.Intn(3); d > 0; d-- {
		k := byte('N')
		if s.rng.Chance(1, 4) {
			k = 'D'
		}
		st := step{k, s.rng.Range(-1, max(pw, 0)), s.rng.Range(-1, max(ph, 0)), s.rng.Range(-1, pw+1), s.rng.Range(-1, ph+1)}
		ch = append(ch, st)
		// size of the new window as New clamps it (only used to pick sensible offsets below)
		pw, ph = st.w, st.h
		if k == 'N' {
			w0, h0 := ch[len(ch)-2].w, ch[len(ch)-2].h
			if len(ch) > 2 {
				// approximate: the parent's own clamped size is not tracked exactly; good enough for generation
			}
			if st.w < 0 || st.w+st.c > w0 {
				pw = w0 - st.c
			}
			if st.h < 0 || st.h+st.r > h0 {
				ph = h0 - st.r
			}
		}
	}
	s.r.Count(fmt.Sprintf("chain-depth-%d", len(ch)-1))
	return ch
}

func max(a, b int) int {
	if a > b {
		return a
	}
	return b
}

func (s *session) randCellArgs(styles []vaxis.Style) (gi, w, st int) {
	g := gen.Pick(s.rng, alphabet)
	rw := s.vx.RenderedWidth(g)
	switch {
	case rw > 0 && s.rng.Chance(1, 4):
		w = rw
		s.r.Count("width-explicit")
	case s.ew && rw > 0 && s.rng.Chance(1, 6):
		w = 2 + s.rng.Intn(2)
		s.r.Count("width-explicit-forced")
	default:
		s.r.Count("width-auto")
	}
	return s.g(g), w, s.s(gen.Pick(s.rng, styles))
}

// randText: a string over the alphabet with some blanks, newlines and tabs. When the helpers do not
// re-measure (unicodeCore and explicitWidth both on) the stored width is uniseg's: the display
// theorem then assumes it equals characterWidth, so such texts only use clusters where it does.
func (s *session) randText(maxLen int) string {
	for try := 0; try < 8; try++ {
		var sb strings.Builder
		for n := s.rng.Intn(maxLen); n >= 0; n-- {
			sb.WriteString(gen.Pick(s.rng, alphabet))
			if s.rng.Chance(1, 6) {
				sb.WriteString(gen.Pick(s.rng, []string{" ", "\n", "\t", "\r\n"}))
			}
		}
		t := sb.String()
		ok := true
		if s.uc && s.ew {
			for _, c := range rawClusters(t) {
				if c != "\t" && clusterWidth(c) != s.vx.RenderedWidth(c) {
					ok = false
				}
			}
		}
		if ok {
			return t
		}
		s.r.Count("text-rejected:uniseg-width!=characterWidth")
	}
	return "ab"
}

func (s *session) drawOps(n int, styles []vaxis.Style) {
	for i := 0; i < n; i++ {
		ch := s.randChain()
		lw, lh := ch[len(ch)-1].w, ch[len(ch)-1].h
		switch k := s.rng.Intn(16); k {
		case 0:
			s.do(dop{kind: "clear", chain: ch})
		case 1:
			g, w, st := s.randCellArgs(styles)
			s.do(dop{kind: "fill", chain: ch, args: []int{g, w, st}})
		case 2, 3, 4, 5:
			g, w, st := s.randCellArgs(styles)
			s.do(dop{kind: "setcell", chain: ch, args: []int{s.rng.Range(-1, max(lw, 1)), s.rng.Range(-1, max(lh, 1)), g, w, st}})
		case 6:
			s.do(dop{kind: "setstyle", chain: ch, args: []int{s.rng.Range(-1, max(lw, 1)), s.rng.Range(-1, max(lh, 1)), s.s(gen.Pick(s.rng, styles))}})
		case 7, 8:
			s.do(dop{kind: "print", chain: ch, segs: s.randSegs(styles)})
		case 9:
			s.do(dop{kind: "println", chain: ch, args: []int{s.rng.Range(-1, max(lh, 1))}, segs: s.randSegs(styles)})
		case 10:
			s.do(dop{kind: "trunc", chain: ch, args: []int{s.rng.Range(-1, max(lh, 1))}, segs: s.randSegs(styles)})
		case 11, 12:
			s.do(dop{kind: "wrap", chain: ch, segs: s.randSegs(styles)})
		case 13, 14:
			s.showCursorInScreen(ch)
		case 15:
			if s.rng.Chance(1, 3) {
				s.do(dop{kind: "mouseshape", shape: gen.Pick(s.rng, []string{"default", "text", "pointer", ""})})
			} else {
				s.do(dop{kind: "hidecursor"})
			}
		}
	}
}

func (s *session) randSegs(styles []vaxis.Style) []seg {
	var out []seg
	for n := 1 + s.rng.Intn(2); n > 0; n-- {
		out = append(out, seg{s.s(gen.Pick(s.rng, styles)), s.randText(7)})
	}
	return out
}

// A visible cursor has to be inside the screen at Render (Window.ShowCursor does not clip; left to
// the application): the offset is chosen so that origin + offset is a screen cell.
func (s *session) showCursorInScreen(ch []step) {
	wins := buildWindows(s.vx, ch)
	ox, oy := wins[len(wins)-1].Origin()
	x, y := s.rng.Intn(s.w), s.rng.Intn(s.h)
	s.do(dop{kind: "showcursor", chain: ch, args: []int{x - ox, y - oy, s.rng.Intn(7)}})
}

func history(r *hx.Run, rng *gen.Rng, id string, maxW, maxH, frames int) error {
	w, h := rng.Range(1, maxW), rng.Range(1, maxH)
	s, err := newSession(r, rng, id, w, h, rng.Bool(), rng.Bool(), rng.Bool(), rng.Bool(), rng.Bool())
	if err != nil {
		return err
	}
	defer s.close()
	styles := []vaxis.Style{{}}
	for i := 0; i < 3; i++ {
		styles = append(styles, randStyle(rng))
	}
	for f := 0; f < frames; f++ {
		s.drawOps(rng.Intn(6), styles)
		switch rng.Intn(10) {
		case 0:
			s.render(true)
		case 1:
			s.resize(rng.Range(1, maxW), rng.Range(1, maxH))
			// the application re-places (or hides) its cursor for the new size
			if rng.Bool() {
				s.do(dop{kind: "hidecursor"})
			} else {
				s.showCursorInScreen([]step{{'R', 0, 0, s.w, s.h}})
			}
			s.drawOps(rng.Intn(4), styles)
			s.render(false)
		default:
			s.render(false)
		}
	}
	return nil
}

// ---- replay / corpus: re-run recorded lines ----

func atoi(x string) int { n, _ := strconv.Atoi(x); return n }

func parseInts(x string) []int {
	if x == "-" || x == "" {
		return nil
	}
	var out []int
	for _, p := range strings.Split(x, ",") {
		out = append(out, atoi(p))
	}
	return out
}

func unhex(x string) string {
	if x == "-" {
		return ""
	}
	b := make([]byte, len(x)/2)
	fmt.Sscanf(x, "%x", &b)
	return string(b)
}

func parseChain(x string) []step {
	if x == "-" {
		return nil
	}
	var ch []step
	for _, p := range strings.Split(x, "/") {
		v := parseInts(p[1:])
		if len(v) != 4 {
			return nil
		}
		ch = append(ch, step{p[0], v[0], v[1], v[2], v[3]})
	}
	return ch
}

// text of a recorded segment: the concatenation of its clusters (they came from segmenting the
// original text, so the concatenation is that text).
func (s *session) parseSegs(ann string) []seg {
	if ann == "-" {
		return nil
	}
	var out []seg
	for _, p := range strings.Split(ann, "|") {
		f := strings.SplitN(p, ";", 2)
		sg := seg{st: atoi(f[0])}
		if len(f) == 2 {
			for _, ls := range strings.Split(f[1], "/") {
				for _, c := range strings.Split(ls, ",") {
					if c == "" {
						continue
					}
					sg.text += s.gstr[atoi(strings.SplitN(c, ".", 2)[0])]
				}
			}
		}
		out = append(out, sg)
	}
	return out
}

func replay(r *hx.Run, rng *gen.Rng, id string, ops []string) error {
	var s *session
	defer func() {
		if s != nil {
			s.close()
		}
	}()
	var caps [5]bool
	for _, op := range ops {
		f := strings.Fields(op)
		if len(f) == 0 {
			continue
		}
		switch {
		case f[0] == "caps" && len(f) == 6:
			for i := range caps {
				caps[i] = f[i+1] == "1"
			}
		case f[0] == "size" && len(f) == 3 && s == nil:
			var err error
			s, err = newSession(r, rng, id, atoi(f[1]), atoi(f[2]), caps[0], caps[1], caps[2], caps[3], caps[4])
			if err != nil {
				return err
			}
		case s == nil:
			continue
		case f[0] == "g" && len(f) == 6:
			if _, ok := s.gstr[atoi(f[1])]; !ok {
				s.defG(atoi(f[1]), unhex(f[2]))
			}
		case f[0] == "s" && len(f) == 9:
			if _, ok := s.sty[atoi(f[1])]; !ok {
				s.defS(atoi(f[1]), vaxis.Style{Foreground: vaxis.Color(atoi(f[2])), Background: vaxis.Color(atoi(f[3])),
					UnderlineColor: vaxis.Color(atoi(f[4])), UnderlineStyle: vaxis.UnderlineStyle(atoi(f[5])),
					Attribute: vaxis.AttributeMask(atoi(f[6])), Hyperlink: unhex(f[7]), HyperlinkParams: unhex(f[8])})
			}
		case f[0] == "d" && len(f) == 5 && f[1] == "mouseshape":
			s.do(dop{kind: "mouseshape", shape: unhex(f[4])})
		case f[0] == "d" && len(f) == 5:
			s.do(dop{kind: f[1], chain: parseChain(f[2]), args: parseInts(f[3]), segs: s.parseSegs(f[4])})
		case f[0] == "render":
			s.render(false)
		case f[0] == "refresh":
			s.render(true)
		case f[0] == "resize" && len(f) == 3:
			s.resize(atoi(f[1]), atoi(f[2]))
		}
	}
	r.Count("replayed-case")
	return nil
}

// readReplay: a replay file is JSON with an "ops" array, or plain text with one op per line
// (anything after a TAB is ignored).
func readReplay(path string) ([]string, error) {
	b, err := os.ReadFile(path)
	if err != nil {
		return nil, err
	}
	var rp struct {
		Ops []string `json:"ops"`
	}
	if json.Unmarshal(b, &rp) == nil {
		return rp.Ops, nil
	}
	var ops []string
	for _, l := range strings.Split(string(b), "\n") {
		ops = append(ops, strings.SplitN(l, "\t", 2)[0])
	}
	return ops, nil
}

func run(r *hx.Run) error {
	rng := gen.New(r.Seed)
	if r.Replay != "" {
		ops, err := readReplay(r.Replay)
		if err != nil {
			return err
		}
		return replay(r, rng, "replay", ops)
	}
	for i, ops := range hx.Corpus("C01Ops") {
		if err := replay(r, rng, fmt.Sprintf("corpus-%d", i), ops); err != nil {
			return err
		}
	}
	hist, maxW, maxH, frames := 500, 8, 4, 6
	if r.Thorough {
		hist, maxW, maxH, frames = 12000, 24, 8, 8
	}
	for i := 0; i < hist; i++ {
		mw, mh := maxW, maxH
		if i%3 == 0 {
			mw, mh = 4, 2
		}
		if err := history(r, rng, fmt.Sprintf("h-%d", i), mw, mh, frames); err != nil {
			return err
		}
	}
	r.Note("alphabet", alphabet)
	return nil
}
