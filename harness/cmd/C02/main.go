// Harness for C02: byte streams through the real ansi.NewParser with a chunking reader.
//
// One line per stream: `run <hex> <chunk sizes> <cluster table>\t<items>` (format: Driver/C02.lean).
// Generators: (a) corpus, (b) bounded-exhaustive strings over one representative per byte class of
// the state machine, from ground and after a prefix that puts the parser into each state,
// (c) grammar-generated long streams (random parameters, sub-parameters, intermediates, payloads,
// terminators, malformed and cancelled sequences, text), (d) raw fuzz including invalid UTF-8,
// (e) text with every split into reads.
package main

import (
	"fmt"
	"io"
	"runtime"
	"strconv"
	"strings"
	"sync"
	"time"
	"unicode/utf8"

	"git.sr.ht/~rockorager/vaxis/ansi"
	"github.com/rivo/uniseg"
	"verifharness/gen"
	"verifharness/hx"
)

// ---- chunking reader -------------------------------------------------------------------------

type chunkReader struct {
	data   []byte
	sizes  []int
	served int // chunks served
	off    int
	ready  chan struct{} // when set: Read waits until it is closed (the parser is registered for panic reports)
	eff    []int         // what each Read really returned (bufio offers at most its free space: a scripted chunk can be cut)
	cut    bool          // a scripted chunk did not fit
}

func (c *chunkReader) Read(p []byte) (int, error) {
	if c.ready != nil {
		<-c.ready
	}
	if c.off >= len(c.data) {
		return 0, io.EOF
	}
	n := len(c.data) - c.off
	if c.served < len(c.sizes) {
		n = c.sizes[c.served]
		c.served++
	}
	if n > len(c.data)-c.off {
		n = len(c.data) - c.off
	}
	if n > len(p) {
		// the chunk is larger than what bufio has room for (4096 bytes less what is still unread): the rest
		// comes with the next Read — the reads the parser really sees are recorded in eff
		n = len(p)
		c.cut = true
	}
	copy(p, c.data[c.off:c.off+n])
	c.off += n
	c.eff = append(c.eff, n)
	return n, nil
}

// ---- canonical items -------------------------------------------------------------------------

func runesHex(rs []rune) string {
	if len(rs) == 0 {
		return "-"
	}
	var sb strings.Builder
	for i, r := range rs {
		if i > 0 {
			sb.WriteByte('.')
		}
		sb.WriteString(strconv.FormatInt(int64(r), 16))
	}
	return sb.String()
}

func token(seq ansi.Sequence) string {
	switch s := seq.(type) {
	case ansi.Print:
		t := "P:" + runesHex([]rune(s.Grapheme))
		if w := uniseg.StringWidth(s.Grapheme); w != s.Width {
			t += fmt.Sprintf(" W!%d!=%d", s.Width, w)
		}
		return t
	case ansi.C0:
		return "C:" + strconv.FormatInt(int64(s), 16)
	case ansi.ESC:
		return "E:" + runesHex(s.Intermediate) + ":" + strconv.FormatInt(int64(s.Final), 16)
	case ansi.SS3:
		return "S:" + strconv.FormatInt(int64(s), 16)
	case ansi.CSI:
		ps := "-"
		if len(s.Parameters) > 0 {
			var sb strings.Builder
			for i, p := range s.Parameters {
				if i > 0 {
					sb.WriteByte(',')
				}
				for j, v := range p {
					if j > 0 {
						sb.WriteByte('.')
					}
					sb.WriteString(strconv.Itoa(v))
				}
			}
			ps = sb.String()
		}
		return "I:" + runesHex(s.Intermediate) + ":" + ps + ":" + strconv.FormatInt(int64(s.Final), 16)
	case ansi.OSC:
		return "O:" + runesHex(s.Payload)
	case ansi.DCS:
		ps := "-"
		if len(s.Parameters) > 0 {
			xs := make([]string, len(s.Parameters))
			for i, v := range s.Parameters {
				xs[i] = strconv.Itoa(v)
			}
			ps = strings.Join(xs, ",")
		}
		return "D:" + strconv.FormatInt(int64(s.Final), 16) + ":" + runesHex(s.Intermediate) + ":" + ps + ":" + runesHex(s.Data)
	case ansi.APC:
		return "A:" + runesHex([]rune(s.Data))
	case ansi.EOF:
		return "Z"
	case error:
		return "X"
	}
	return fmt.Sprintf("?%T", seq)
}

// runOnce feeds the stream to a fresh parser and returns the space-joined items.
func runOnce(data []byte, sizes []int) string {
	res, _ := runOnceEff(data, sizes)
	return res
}

// runOnceEff also returns the reads as the parser saw them when a scripted chunk was cut (nil otherwise).
func runOnceEff(data []byte, sizes []int) (string, []int) {
	cr := &chunkReader{data: data, sizes: sizes}
	res := runOnceR(cr)
	if cr.cut {
		return res, cr.eff
	}
	return res, nil
}

// Round 4: a panic of the parser's goroutine (run, or the timer callback) is handed to the harness by the
// deferred yield points 19 / 39 of the verification build instead of taking the process down: the case ends
// with the item `!` (FAIL panic) and the check can name the input.
var panicChans sync.Map // *ansi.Parser → chan string

func installPanicHook() {
	ansi.VerifSchedHook = func(p *ansi.Parser, point int, pv any) {
		if pv == nil {
			return
		}
		if v, ok := panicChans.Load(p); ok {
			select {
			case v.(chan string) <- fmt.Sprint(pv):
			default:
			}
			return
		}
		panic(pv)
	}
}

func runOnceR(cr *chunkReader) string {
	cr.ready = make(chan struct{})
	p := ansi.NewParser(cr)
	dead := make(chan string, 1)
	panicChans.Store(p, dead)
	defer panicChans.Delete(p)
	close(cr.ready)
	var toks []string
	timeout := time.NewTimer(5 * time.Second)
	defer timeout.Stop()
	for {
		select {
		case seq, ok := <-p.Next():
			if !ok {
				return strings.Join(toks, " ")
			}
			toks = append(toks, token(seq))
			p.Finish(seq)
		case <-dead:
			toks = append(toks, "!")
			return strings.Join(toks, " ")
		case <-timeout.C:
			toks = append(toks, "hang")
			return strings.Join(toks, " ")
		}
	}
}

var timerRetries int64
var retryMu sync.Mutex
var cutCases int64
var cutMu sync.Mutex

// run = runOnce, re-run when an Escape-key item shows up: with an in-memory reader the 10 ms timer
// can only fire when the goroutine was descheduled that long (not the subject of C02; C08 covers
// the timer).  A `C0 0x1B` can come from nowhere else: `anywhere` intercepts the ESC byte.
func run(data []byte, sizes []int) string {
	res, _ := runEff(data, sizes)
	return res
}

// runEff: as run; the second result is the reads as the parser saw them when a scripted chunk was
// larger than bufio's free space (nil otherwise) — the op line then carries these.
func runEff(data []byte, sizes []int) (string, []int) {
	res := ""
	var eff []int
	for try := 0; try < 6; try++ {
		panicked, msg := hx.Guard(func() { res, eff = runOnceEff(data, sizes) })
		if panicked {
			_ = msg
			return "!", nil
		}
		if !strings.Contains(" "+res+" ", " C:1b ") {
			return res, eff
		}
		retryMu.Lock()
		timerRetries++
		retryMu.Unlock()
	}
	return res, eff
}

// ---- the cluster oracle ----------------------------------------------------------------------

// firstRune mirrors Parser.readRune (raw byte for anything that decodes to U+FFFD).
func firstRune(s []byte) (rune, int) {
	r, n := utf8.DecodeRune(s)
	if r == utf8.RuneError && (n == 1 || splitsReplacementChar) {
		return rune(s[0]), 1
	}
	return r, n
}

// Whether this version of readRune also takes the raw-byte path for a well-formed U+FFFD
// (probed once at start-up; only affects which rune sequence the cluster oracle is asked about).
var splitsReplacementChar bool

var oracleBroken int64

// The hypothesis of Props.C02Text / C02Refine on the oracle (`Respects`): a cluster never extends over
// a C0 control (uniseg GB4/GB5 — must stay 0) nor over an invalid byte (the region of finding F102d).
var oracleJoinsC0, oracleJoinsInvalid int64

// clusterLen = number of runes of the first grapheme cluster of the rune sequence starting at
// offset i, found the way Parser.print finds it (growing prefixes); also checks the hypothesis the
// model relies on: each shorter prefix was a single whole cluster and the final cluster is the
// prefix before the last rune.
func clusterLen(s []byte, i int) int {
	r, n := firstRune(s[i:])
	b := string(r)
	j := i + n
	count := 1
	for j < len(s) {
		r2, n2 := utf8.DecodeRune(s[j:])
		nb := b + string(r2)
		g, rest, _, _ := uniseg.FirstGraphemeClusterInString(nb, -1)
		if rest != "" {
			if g != b {
				retryMu.Lock()
				oracleBroken++
				retryMu.Unlock()
			}
			break
		}
		if r2 < 0x20 || (r2 == utf8.RuneError && n2 == 1) {
			retryMu.Lock()
			if r2 < 0x20 {
				oracleJoinsC0++
			} else {
				oracleJoinsInvalid++
			}
			retryMu.Unlock()
		}
		b = nb
		count++
		j += n2
	}
	return count
}

func clusterTable(s []byte) string {
	var sb strings.Builder
	for i := 0; i < len(s); i++ {
		if s[i] < 0x20 {
			continue
		}
		if l := clusterLen(s, i); l != 1 {
			if sb.Len() > 0 {
				sb.WriteByte(',')
			}
			fmt.Fprintf(&sb, "%d:%d", i, l)
		}
	}
	if sb.Len() == 0 {
		return "-"
	}
	return sb.String()
}

// ---- cases -----------------------------------------------------------------------------------

type kase struct {
	data  []byte
	sizes []int // nil = one read
	kind  string
}

func sizesStr(data []byte, sizes []int) string {
	if len(sizes) == 0 {
		if len(data) == 0 {
			return "-"
		}
		return strconv.Itoa(len(data))
	}
	xs := make([]string, len(sizes))
	for i, v := range sizes {
		xs[i] = strconv.Itoa(v)
	}
	return strings.Join(xs, ",")
}

func opLine(k kase) string {
	return "run " + hx.Hex(string(k.data)) + " " + sizesStr(k.data, k.sizes) + " " + clusterTable(k.data)
}

// flush runs a batch on all cores and emits in order.
func flush(r *hx.Run, batch []kase) {
	type res struct{ op, impl string }
	out := make([]res, len(batch))
	var wg sync.WaitGroup
	workers := runtime.NumCPU()
	if workers > 8 {
		workers = 8
	}
	next := 0
	var mu sync.Mutex
	for w := 0; w < workers; w++ {
		wg.Add(1)
		go func() {
			defer wg.Done()
			for {
				mu.Lock()
				i := next
				next += 256
				mu.Unlock()
				if i >= len(batch) {
					return
				}
				for j := i; j < i+256 && j < len(batch); j++ {
					impl, eff := runEff(batch[j].data, batch[j].sizes)
					if eff != nil {
						batch[j].sizes = eff // the reads as bufio really issued them (a chunk did not fit its buffer)
						cutMu.Lock()
						cutCases++
						cutMu.Unlock()
					}
					if m := stdlibCheck(batch[j].data, batch[j].sizes); m != "" {
						impl += " " + m // a clause of the standard-library contract failed on these reads
					}
					out[j] = res{opLine(batch[j]), impl}
				}
			}
		}()
	}
	wg.Wait()
	for i, o := range out {
		r.Emit(o.op, o.impl)
		r.Count(batch[i].kind)
	}
}

type sink struct {
	r     *hx.Run
	batch []kase
	slow  []kase // cases that are expensive for the Lean driver (long streams): spread evenly over the op file,
	n     int    // because ./check hands contiguous blocks of lines to its 16 driver processes
}

func (s *sink) add(k kase) {
	s.batch = append(s.batch, k)
	s.n++
	if s.n%2500 == 0 && len(s.slow) > 0 {
		s.batch = append(s.batch, s.slow[0])
		s.slow = s.slow[1:]
	}
	if len(s.batch) >= 1<<16 {
		s.flush()
	}
}
func (s *sink) addSlow(k kase) { s.slow = append(s.slow, k) }
func (s *sink) flush() {
	flush(s.r, s.batch)
	s.batch = s.batch[:0]
}
func (s *sink) finish() {
	s.batch = append(s.batch, s.slow...)
	s.slow = nil
	s.flush()
}

// one representative per byte class (classes = bytes that no state of the table distinguishes)
var classReps = []string{
	"\x0a",   // C0 (00-06, 08-17, 19, 1C-1F)
	"\x07",   // BEL
	"\x18",   // CAN / SUB
	"\x1b",   // ESC
	"$",      // 20-2F intermediates
	"7",      // 30-39
	":",      // 3A
	";",      // 3B
	"?",      // 3C-3F
	"m",      // finals 40-4E 51-57 59 5A 60-7E
	"O",      // 4F SS3
	"P",      // 50 DCS
	"X",      // 58 / 5E SOS, PM
	"[",      // 5B CSI
	"\\",     // 5C ST
	"]",      // 5D OSC
	"_",      // 5F APC
	"\x7f",   // DEL
	"\u00e9", // ≥ 0x80 (UTF-8)
}

// prefixes that put the parser into every state
var statePrefixes = []string{
	"\x1b", "\x1b$", "\x1b[", "\x1b[1", "\x1b[1$", "\x1b[1?", "\x1bP", "\x1bP1", "\x1bP$", "\x1bPq", "\x1bP:",
	"\x1b]", "\x1bX", "\x1b_", "\x1bO",
	// after a string ended in each way (the ST-suppression flag)
	"\x1b]0\x07", "\x1b]0\x18", "\x1b]0\x1b", "\x1bPq\x18", "\x1b_a\x1a", "\x1bX\x18", "\x1bP:\x18", "\x1b]0\x1b\\",
}

func enumerate(s *sink, prefix string, maxLen int, kind string) {
	var rec func(cur []byte, depth int)
	rec = func(cur []byte, depth int) {
		if depth > 0 {
			d := make([]byte, len(cur))
			copy(d, cur)
			s.add(kase{data: d, kind: kind})
		}
		if depth == maxLen {
			return
		}
		for _, c := range classReps {
			rec(append(cur, c...), depth+1)
		}
	}
	rec([]byte(prefix), 0)
}

// every split of data into reads (2^(n-1) of them), n ≤ 11
func allSplits(s *sink, data []byte, kind string) {
	n := len(data)
	if n == 0 {
		return
	}
	for mask := 0; mask < 1<<(n-1); mask++ {
		var sizes []int
		last := 0
		for i := 1; i < n; i++ {
			if mask&(1<<(i-1)) != 0 {
				sizes = append(sizes, i-last)
				last = i
			}
		}
		sizes = append(sizes, n-last)
		s.add(kase{data: data, sizes: sizes, kind: kind})
	}
}

func randomSplit(rng *gen.Rng, n int) []int {
	if n == 0 {
		return nil
	}
	var sizes []int
	mode := rng.Intn(4)
	for left := n; left > 0; {
		var k int
		switch mode {
		case 0:
			k = 1
		case 1:
			k = rng.Range(1, 3)
		case 2:
			k = rng.Range(1, 16)
		default:
			k = rng.Range(1, 1024)
		}
		if k > left {
			k = left
		}
		sizes = append(sizes, k)
		left -= k
	}
	return sizes
}

var textAlphabet = []string{
	"a", "Z", " ", "~", "\u00e9", "e\u0301", "\u4e16", "\U0001F525", "\U0001F469\u200d\U0001F680", "\U0001F1E9\U0001F1EA",
	"\u200b", "\u00ad", "\ufffd", "\u0600", "\u0301", "\u200d", "\U0001F1E9", "\u0e33", "\t", "\r\n", "\n", "-",
	"\uac01", "\u1100\u1161", "\xff", "\x80", "\xc3", "\xe2\x82", "\xf0\x9f",
	"\xed\xa0\x80", "\xc0\xaf", "\xf4\x90\x80\x80", "\u0080", "\u009b", "\u00ff",
}

// short streams mixing text and sequences; each is run with every split into reads
var mixedStreams = []string{
	"a\x1b[1;2mb", "\xc3\xa9\x1b[38:5:1m", "\x1b[?25h\xe4\xb8\x96", "\x1b]\xc3\xa9\x07z", "\x1b]0;\xe4\xb8\x96\x1b\\",
	"\x1bP1$r\xc3\xa9\x1b\\", "\x1b_\xf0\x9f\x94\xa5\x1b\\", "\x1bO\xc3\xa9a", "\x1b(B\xff\x1b7", "\xff\x1b[A\x80",
	"e\xcc\x81\x1b[m", "\x1b[\xc3\xa9m", "\x1b\xc3\xa9[A", "\x1b]x\xff\xfe\x07", "\x1bPq\xed\xa0\x80\x1b\\",
	"\xd8\x80\xff\x1b[m", "\xd8\x80\x1b[m", "\xd8\x80\x0ax", "a\x0d\x0ab", "\x1b[1\x0a;2m",
	"\x1b[1\x18;2m", "\x1b]x\x1bA\x1b\\", "\x1b]\x1b\\a", "\x1b]x\x1b\x0a\\", "\x1bXabc\x1b\\d",
	"\x1b^\xc3\xa9\x9c\x1b\\", "\x1b[:::m", "\x1b[;:;m", "\x1b[1:2:3;4m", "\x1b[<0;1;1M",
	"\x1bP+q\x1b\\", "\x1bP0+r\x1b\\", "\x1b[>1;2c\xc2\x9b", "\xc2\x9b1m", "\xf0\x9f\x91\xa9\xe2\x80\x8d\x1b",
	"\xf0\x9f\x1b[m", "\xe2\x82\x1b]", "\x1b\x7f\x1b\\", "\x1bO\x7fP", "\x1b[0 q\xc3",
}

// parameters beyond the range of a Go int
var overflowStreams = []string{
	"\x1b[9223372036854775808m", "\x1b[18446744073709551616m", "\x1b[123456789012345678901234567890m",
	"\x1b[1;9223372036854775808:18446744073709551617;3m", "\x1b[?99999999999999999999999999999999999999h",
	"\x1b[38:2:340282366920938463463374607431768211456:1m",
	"\x1bP9223372036854775808q\x1b\\", "\x1bP1;9223372036854775807;9223372036854775808$rdata\x1b\\",
	"\x1bP123456789012345678901234567890+qabc\x1b\\", "\x1bP9223372036854775807qx\x1b\\",
	"\x1bP;18446744073709551616;|x\x1b\\",
}

func genNumber(rng *gen.Rng) string {
	switch rng.Intn(12) {
	case 0:
		return ""
	case 1:
		return "0"
	case 2:
		return strconv.Itoa(rng.Range(0, 9))
	case 3:
		return "00" + strconv.Itoa(rng.Range(0, 99))
	case 4:
		return strconv.FormatUint(rng.U64()>>1, 10) // < 2^63
	case 5:
		return "9223372036854775807"
	case 6:
		if rng.Chance(1, 4) {
			return "9223372036854775808" // overflows int
		}
		return strconv.Itoa(rng.Range(0, 65535))
	default:
		return strconv.Itoa(rng.Range(0, 999))
	}
}

func genText(rng *gen.Rng, n int) string {
	var sb strings.Builder
	for i := 0; i < n; i++ {
		sb.WriteString(gen.Pick(rng, textAlphabet))
	}
	return sb.String()
}

func genPayload(rng *gen.Rng) string {
	var sb strings.Builder
	n := rng.Intn(12)
	for i := 0; i < n; i++ {
		switch rng.Intn(8) {
		case 0:
			sb.WriteString(gen.Pick(rng, textAlphabet))
		case 1:
			sb.WriteByte(byte(rng.Range(0, 0x17))) // C0 inside a string
		case 2:
			sb.WriteByte(0x7f)
		default:
			sb.WriteByte(byte(rng.Range(0x20, 0x7e)))
		}
	}
	return sb.String()
}

func genTerminator(rng *gen.Rng, bel bool) string {
	switch rng.Intn(8) {
	case 0:
		return "\x18"
	case 1:
		return "\x1a"
	case 2:
		if bel {
			return "\x07"
		}
		return "\x1b\\"
	case 3:
		return "\x1b" // ESC then whatever follows
	case 4:
		return "\x1b\x1b\\"
	default:
		if bel && rng.Bool() {
			return "\x07"
		}
		return "\x1b\\"
	}
}

func genParams(rng *gen.Rng, colon bool) string {
	var sb strings.Builder
	n := rng.Intn(5)
	for i := 0; i < n; i++ {
		if i > 0 {
			sb.WriteByte(';')
		}
		sb.WriteString(genNumber(rng))
		if colon {
			for k := rng.Intn(4); k > 0 && rng.Chance(1, 3); k-- {
				sb.WriteByte(':')
				sb.WriteString(genNumber(rng))
			}
		}
	}
	if rng.Chance(1, 10) {
		sb.WriteByte(';')
	}
	return sb.String()
}

func genInter(rng *gen.Rng) string {
	var sb strings.Builder
	for k := rng.Intn(3); k > 0 && rng.Chance(1, 2); k-- {
		sb.WriteByte(byte(rng.Range(0x20, 0x2f)))
	}
	return sb.String()
}

func genFinal(rng *gen.Rng) string { return string(rune(rng.Range(0x40, 0x7e))) }

func genElement(rng *gen.Rng) (string, string) {
	switch rng.Intn(15) {
	case 0, 1:
		return genText(rng, rng.Range(1, 6)), "text"
	case 2:
		return string(rune(rng.Range(0, 0x1f))), "c0"
	case 3, 4, 5: // CSI
		priv := ""
		if rng.Chance(1, 4) {
			priv = string(rune(rng.Range(0x3c, 0x3f)))
		}
		return "\x1b[" + priv + genParams(rng, true) + genInter(rng) + genFinal(rng), "csi"
	case 6: // ESC
		fin := rng.Range(0x30, 0x7f)
		return "\x1b" + genInter(rng) + string(rune(fin)), "esc"
	case 7: // OSC
		return "\x1b]" + genPayload(rng) + genTerminator(rng, true), "osc"
	case 8: // DCS
		priv := ""
		if rng.Chance(1, 4) {
			priv = string(rune(rng.Range(0x3c, 0x3f)))
		}
		return "\x1bP" + priv + genParams(rng, rng.Chance(1, 8)) + genInter(rng) + genFinal(rng) + genPayload(rng) + genTerminator(rng, false), "dcs"
	case 9: // APC / SOS / PM
		return "\x1b" + gen.Pick(rng, []string{"_", "_", "X", "^"}) + genPayload(rng) + genTerminator(rng, false), "apc-sos-pm"
	case 10: // SS3
		return "\x1bO" + string(rune(rng.Range(0x20, 0x7e))), "ss3"
	case 11: // malformed CSI / DCS
		bad := gen.Pick(rng, []string{"1$2", "1?2", "$1", "1;é", "é", "$é", "1\x1b", "1\x18", "?1?", "1 2", "\x7f1\x0a2"})
		return "\x1b" + gen.Pick(rng, []string{"[", "P"}) + bad + genFinal(rng) + genTerminator(rng, false), "malformed"
	case 13: // a control string interrupted by another sequence; the flag must not survive it
		intro := gen.Pick(rng, []string{"\x1b]", "\x1bPq", "\x1b_", "\x1bX", "\x1b^", "\x1bP:"})
		next, _ := genElement(rng)
		for !strings.HasPrefix(next, "\x1b") || strings.HasPrefix(next, "\x1b\\") {
			next = "\x1b" + gen.Pick(rng, []string{"A", "7", "[m", "OQ", "(B"})
		}
		return intro + genPayload(rng) + next, "interrupted-string"
	case 12: // Alt+key style
		return "\x1b" + gen.Pick(rng, []string{"\x7f", "a", "\\", "é", "\x0a", "\x1b"}), "alt"
	default: // raw bytes
		n := rng.Range(1, 4)
		b := make([]byte, n)
		for i := range b {
			b[i] = byte(rng.Intn(256))
		}
		return string(b), "raw"
	}
}

var interesting = []byte{0x00, 0x07, 0x18, 0x1a, 0x1b, 0x1b, 0x1b, 0x20, 0x2f, 0x30, 0x39, 0x3a, 0x3b, 0x3c, 0x3f, 0x40, 0x4f, 0x50, 0x58,
	0x5b, 0x5b, 0x5c, 0x5d, 0x5e, 0x5f, 0x60, 0x7e, 0x7f, 0x80, 0x9b, 0x9c, 0xc3, 0xa9, 0xe2, 0x82, 0xac, 0xf0, 0x9f, 0x94, 0xa5, 0xff, 0xef, 0xbf, 0xbd}

func main() {
	installPanicHook()
	hx.Main("C02", runC02)
}

func parseOp(op []string) (kase, bool) {
	if len(op) != 4 || op[0] != "run" {
		return kase{}, false
	}
	var data []byte
	if op[1] != "-" {
		if len(op[1])%2 != 0 {
			return kase{}, false
		}
		for i := 0; i < len(op[1]); i += 2 {
			v, err := strconv.ParseUint(op[1][i:i+2], 16, 8)
			if err != nil {
				return kase{}, false
			}
			data = append(data, byte(v))
		}
	}
	var sizes []int
	if op[2] != "-" {
		for _, x := range strings.Split(op[2], ",") {
			v, err := strconv.Atoi(x)
			if err != nil || v <= 0 {
				return kase{}, false
			}
			sizes = append(sizes, v)
		}
	}
	return kase{data: data, sizes: sizes, kind: "corpus"}, true
}

func runC02(r *hx.Run) error {
	if r.Replay != "" {
		return hx.ReplayOps(r, func(op []string) (string, bool) {
			k, ok := parseOp(op)
			if !ok {
				return "", false
			}
			impl := run(k.data, k.sizes)
			if m := stdlibCheck(k.data, k.sizes); m != "" {
				impl += " " + m
			}
			return impl, true
		})
	}
	splitsReplacementChar = runOnce([]byte("\xef\xbf\xbd"), nil) != "P:fffd Z"
	rng := gen.New(r.Seed)
	s := &sink{r: r}
	// (a) corpus
	for _, c := range hx.Corpus("C02") {
		for _, l := range c {
			if k, ok := parseOp(strings.Fields(l)); ok {
				s.add(k)
			}
		}
	}
	// (b) bounded-exhaustive over class representatives
	gl, pl := 4, 3
	if r.Thorough {
		gl, pl = 5, 4
	}
	// (b3) round 4: streams longer than bufio's buffer (4096 bytes) delivered in chunks that do not fit it: the
	// reads the parser sees are cut by bufio itself (the op line carries the reads as they really were issued).
	// An element — a two-rune cluster, a ZWJ sequence, a flag, a multi-byte rune, an invalid byte, a CSI, an OSC, a
	// DCS — is placed so that it straddles byte 4096 (and 8192) at every offset; the filler is one long OSC
	// payload (one item) or plain letters.
	boundaryElems := []string{"e\u0301x", "\U0001F469\u200d\U0001F680y", "\U0001F1E9\U0001F1EAz", "\u20ac\u20ac", "\xff\xfeq", "\u0600\xffq",
		"\x1b[1;22;333m", "\x1b]0;ti\x07", "\x1bP1$rabc\x1b\\", "\x1b\\", "\x1bOA", "\xe2\x82"}
	bufSize := 4096
	for ei, e := range boundaryElems {
		for k := 0; k <= len(e); k++ {
			if !r.Thorough && k != 1+ei%2 {
				continue // quick tier: one offset per element (the Lean model is quadratic in the buffer length: 0.2 s per case)
			}
			for _, nbuf := range []int{1, 2} {
				if nbuf == 2 && !r.Thorough {
					continue
				}
				// filler so that e starts at nbuf*4096 - k
				want := nbuf*bufSize - k
				var sb strings.Builder
				if (ei+k)%3 == 0 {
					for sb.Len() < want {
						sb.WriteByte(byte('a' + sb.Len()%26))
					}
				} else {
					// OSC fillers of at most 3000 bytes each, then letters
					for want-sb.Len() > 3010 {
						sb.WriteString("\x1b]")
						for j := 0; j < 2990; j++ {
							sb.WriteByte(byte('a' + j%26))
						}
						sb.WriteString("\x07")
					}
					for sb.Len() < want {
						sb.WriteByte('b')
					}
				}
				d := sb.String()[:want] + e + "tail\x1b[2J"
				s.addSlow(kase{data: []byte(d), kind: "buffer-boundary"})                                  // one Read of everything: cut at 4096
				s.addSlow(kase{data: []byte(d), sizes: []int{5000, 5000}, kind: "buffer-boundary"})        // chunks larger than the buffer
				s.addSlow(kase{data: []byte(d), sizes: []int{want - 2, 3, 4000}, kind: "buffer-boundary"}) // a short read just in front of the element
			}
		}
	}
	enumerate(s, "", gl, "exhaustive-ground")
	for _, p := range statePrefixes {
		enumerate(s, p, pl, "exhaustive-prefix")
	}
	r.Note("class_representatives", len(classReps))
	r.Note("exhaustive_len_ground", gl)
	r.Note("exhaustive_len_after_prefix", pl)
	// every byte value right after each prefix (all 256, not just representatives)
	for _, p := range append([]string{""}, statePrefixes...) {
		for b := 0; b < 256; b++ {
			s.add(kase{data: append([]byte(p), byte(b), 'x', '\x1b', '\\', 'y'), kind: "all-bytes-after-prefix"})
		}
	}
	// (b') control strings interrupted by another ESC-introduced sequence (not ended by ST/BEL/CAN/SUB),
	// then, possibly much later, a free-standing ESC \ (Alt+\): it must be delivered
	for _, intro := range []string{"\x1b]x", "\x1b]", "\x1bPqx", "\x1bP1$rx", "\x1bP:x", "\x1b_x", "\x1bXx", "\x1b^x"} {
		for _, breaker := range []string{"\x1bA", "\x1b7", "\x1b[1m", "\x1b[A", "\x1bOP", "\x1b(B", "\x1b\x7f", "\x1b\x0a7", "\x1b\x1bA",
			"\x1b]y\x07", "\x1bPq\x18", "\x1b_y\x1b\\", "\x1bXy\x1a", "\x1b\xc3\xa9"} {
			for _, gap := range []string{"", "z", "\x0a", "zz\x1b[2J", "\xe4\xb8\x96"} {
				for _, tail := range []string{"\x1b\\", "\x1b\\w", "\x1b\\\x1b\\"} {
					s.add(kase{data: []byte(intro + breaker + gap + tail), kind: "interrupted-string"})
				}
			}
		}
	}
	// (b'') round 3, the region of the repaired F102c: C0 controls (one or several, also NUL and US) executed
	// between the ESC and the `\` of the ST that ends a control string — with and without payload, after a
	// BEL-terminated string (no suppression left), with CAN / SUB / a second ESC in between, every split
	for _, intro := range []string{"\x1b]x", "\x1b]", "\x1bPqx", "\x1bP1$r", "\x1b_x", "\x1bXx", "\x1b^", "\x1b]x\x07", ""} {
		for _, mid := range []string{"\x0a", "\x00", "\x1f", "\x0d\x0a", "\x07", "\x0a\x1b", "\x0a\x18", "\x1a\x0a", "\x0a\x7f", "\x0a "} {
			for _, tail := range []string{"\\", "\\w", "[1m", "\\\x1b\\"} {
				d := intro + "\x1b" + mid + tail
				if len(d) <= 9 {
					allSplits(s, []byte(d), "st-with-c0")
				} else {
					s.add(kase{data: []byte(d), kind: "st-with-c0"})
					s.add(kase{data: []byte(d), sizes: randomSplit(rng, len(d)), kind: "st-with-c0"})
				}
			}
		}
	}
	// (e0) round 3, the region of the repaired F102d: an invalid byte (every kind: FF, C0/C1 lead, stray
	// continuation, truncated 3- and 4-byte sequence, surrogate, overlong, > U+10FFFF) right after a character
	// that uniseg joins to what follows (Prepend characters, ZWJ after an emoji, a regional indicator, Hangul L,
	// a virama), and before one that joins to what precedes (combining mark, ZWJ, variation selector) — every split
	for _, joiner := range []string{"\u0600", "\u0605", "\u06dd", "\u070f", "\U000110bd", "\U0001f469\u200d", "\U0001f1e9", "\u1100", "\u0915\u094d", "a"} {
		for _, bad := range []string{"\xff", "\xc0\x80", "\x80", "\xe2\x82", "\xf0\x9f\x91", "\xed\xa0\x80", "\xf4\x90\x80\x80", "\xc3"} {
			for _, after := range []string{"", "b", "\u0301", "\u200d\U0001f469", "\ufe0f", "\x1b[m"} {
				d := joiner + bad + after
				if len(d) <= 10 {
					allSplits(s, []byte(d), "invalid-after-joiner")
				} else {
					s.add(kase{data: []byte(d), kind: "invalid-after-joiner"})
					s.add(kase{data: []byte(d), sizes: randomSplit(rng, len(d)), kind: "invalid-after-joiner"})
					s.add(kase{data: []byte(d), sizes: []int{len(joiner)}, kind: "invalid-after-joiner"})
				}
			}
		}
	}
	// (e) text with every split
	nText := 300
	if r.Thorough {
		nText = 3000
	}
	for i := 0; i < nText; i++ {
		t := genText(rng, rng.Range(1, 4))
		if rng.Chance(1, 3) {
			t = gen.Pick(rng, []string{"\x1b[1m", "\x1b]é\x07", "\x1bO", "\x0a"}) + t
		}
		if len(t) > 10 {
			t = t[:10]
		}
		allSplits(s, []byte(t), "text-all-splits")
	}
	// (e') short mixed streams — text (multi-byte, invalid bytes) around and inside escape sequences and
	// control strings — with EVERY split into reads at every byte offset (chunk_independent for all
	// byte streams: inside a UTF-8 sequence, inside a parameter, between ESC and the introducer, …)
	for _, m := range mixedStreams {
		allSplits(s, []byte(m), "mixed-all-splits")
	}
	nMixed := 60
	if r.Thorough {
		nMixed = 1500
	}
	for i := 0; i < nMixed; i++ {
		var sb strings.Builder
		for sb.Len() < 6 {
			if rng.Chance(1, 3) {
				sb.WriteString(genText(rng, 1))
			} else {
				e, _ := genElement(rng)
				sb.WriteString(e)
			}
		}
		t := sb.String()
		if len(t) > 11 {
			t = t[:11]
		}
		allSplits(s, []byte(t), "mixed-all-splits")
	}
	// (e'') parameters that overflow a Go int (CSI: wraps mod 2^64; DCS: Atoi error, nil parameters) —
	// judged by the oracle with the rendering proved in Props.C02Refine.codec_*_holds
	for _, m := range overflowStreams {
		s.add(kase{data: []byte(m), kind: "param-overflow"})
		for k := 0; k < 3; k++ {
			s.add(kase{data: []byte(m), sizes: randomSplit(rng, len(m)), kind: "param-overflow"})
		}
	}
	for i := 0; i < 100; i++ {
		var sb strings.Builder
		sb.WriteString(gen.Pick(rng, []string{"\x1b[", "\x1b[?", "\x1bP", "\x1bP>"}))
		for k := rng.Range(1, 4); k > 0; k-- {
			for d := rng.Range(17, 32); d > 0; d-- {
				sb.WriteByte(byte('0' + rng.Intn(10)))
			}
			if k > 1 {
				sb.WriteString(gen.Pick(rng, []string{";", ";", ":", ";;"}))
			}
		}
		sb.WriteString(gen.Pick(rng, []string{"m", "$p", "q", " q"}))
		sb.WriteString("data\x1b\\")
		d := sb.String()
		s.add(kase{data: []byte(d), sizes: randomSplit(rng, len(d)), kind: "param-overflow"})
	}
	// (c) grammar-generated long streams, random splits
	nLong := 2500
	if r.Thorough {
		nLong = 40000
	}
	for i := 0; i < nLong; i++ {
		var sb strings.Builder
		for k := rng.Range(1, 40); k > 0; k-- {
			e, kind := genElement(rng)
			r.Count("element-" + kind)
			sb.WriteString(e)
		}
		data := []byte(sb.String())
		s.add(kase{data: data, sizes: randomSplit(rng, len(data)), kind: "grammar-long"})
		if rng.Chance(1, 3) {
			s.add(kase{data: data, kind: "grammar-long"})
		}
	}
	// (d) raw fuzz
	nFuzz := 4000
	if r.Thorough {
		nFuzz = 100000
	}
	for i := 0; i < nFuzz; i++ {
		n := rng.Range(1, 64)
		b := make([]byte, n)
		for j := range b {
			if rng.Chance(3, 4) {
				b[j] = gen.Pick(rng, interesting)
			} else {
				b[j] = byte(rng.Intn(256))
			}
		}
		s.add(kase{data: b, sizes: randomSplit(rng, n), kind: "raw-fuzz"})
	}
	s.finish()
	r.Add("timer-artefact-retries", int(timerRetries))
	r.Add("cluster-oracle-hypothesis-broken", int(oracleBroken))
	r.Add("oracle-joins-c0", int(oracleJoinsC0))
	r.Add("oracle-joins-invalid-byte", int(oracleJoinsInvalid))
	// Model/ParserStdlib.lean : StdlibContract against the real unicode/utf8 and bufio.Reader (stdlibcontract.go)
	r.Add("reads-cut-by-bufio", int(cutCases))
	r.Add("stdlib-contract-checked", int(stdlibChecked))
	r.Add("stdlib-contract-broken", int(stdlibBroken))
	return nil
}
