// Run-time check of the standard-library contract of C02 against the REAL unicode/utf8 and
// bufio.Reader, on the reads of every case the harness runs.
//
// The clauses are the fields of `StdlibContract` in /verif/lean/VaxisModel/Model/ParserStdlib.lean,
// re-implemented here one by one (same names) WITHOUT calling the library: `cDecodeRune`
// (dec_empty, dec_ascii, dec_valid, dec_invalid), `cFullRune` (full_iff), and a contract reader
// `cBufio` (fill_stop / fill_step, read_eof, read_rune, unread, byte_cons, buffered_len).  For every
// case the same chunked stream is read through a real `bufio.NewReader` (as ansi.NewParser does) and
// through `cBufio`, with the call pattern of the reading side (ReadRune; on an invalid byte
// UnreadRune + ReadByte as `readRune` does; every third rune UnreadRune + ReadRune as `print`'s
// look-ahead does; a second UnreadRune, which must be refused; Buffered after every call), and every
// result — rune, size, error or not, bytes buffered, bytes pulled from the underlying reader — is
// compared call by call; every `utf8.DecodeRune` / `utf8.FullRune` evaluation the contract reader
// makes is compared with the real function on the same bytes.
//
// Counters: `stdlib-contract-checked` = results compared, `stdlib-contract-broken` = differences
// (must be 0).  A difference appends ` STDLIB!<clause>` to the case's impl string; the Lean driver
// turns that into the verdict `FAIL[stdlib-contract]`.
package main

import (
	"bufio"
	"sync"
	"sync/atomic"
	"unicode/utf8"
)

var stdlibChecked, stdlibBroken int64

// ---- ParserUtf8.IsScalar / encodeRune ---------------------------------------------------------

func cIsScalar(r int) bool { return r < 0xD800 || (0xE000 <= r && r < 0x110000) }

func cEncode(r int) []byte {
	switch {
	case r < 0x80:
		return []byte{byte(r)}
	case r < 0x800:
		return []byte{byte(0xC0 + r/64), byte(0x80 + r%64)}
	case r < 0x10000:
		return []byte{byte(0xE0 + r/4096), byte(0x80 + r/64%64), byte(0x80 + r%64)}
	default:
		return []byte{byte(0xF0 + r/262144), byte(0x80 + r/4096%64), byte(0x80 + r/64%64), byte(0x80 + r%64)}
	}
}

func hasPrefix(p, q []byte) bool { // q <+: p
	if len(q) > len(p) {
		return false
	}
	for i := range q {
		if p[i] != q[i] {
			return false
		}
	}
	return true
}

const cRuneError = 0xFFFD

// cDecodeRune: the four dec_* clauses.  "The encoding of a scalar value begins p" is decided by
// trying, for each length 2..4, the one value whose encoding could have these bytes (its payload
// bits) and accepting it only if it IS a scalar and its encoding IS that prefix — the clause itself.
func cDecodeRune(p []byte) (r int, size int, clause string) {
	if len(p) == 0 {
		return cRuneError, 0, "dec_empty"
	}
	if p[0] < 0x80 {
		return int(p[0]), 1, "dec_ascii"
	}
	for n := 2; n <= 4 && n <= len(p); n++ {
		var cand int
		switch n {
		case 2:
			cand = int(p[0]&0x1F)<<6 | int(p[1]&0x3F)
		case 3:
			cand = int(p[0]&0x0F)<<12 | int(p[1]&0x3F)<<6 | int(p[2]&0x3F)
		case 4:
			cand = int(p[0]&0x07)<<18 | int(p[1]&0x3F)<<12 | int(p[2]&0x3F)<<6 | int(p[3]&0x3F)
		}
		if cIsScalar(cand) && hasPrefix(p, cEncode(cand)) {
			return cand, len(cEncode(cand)), "dec_valid"
		}
	}
	return cRuneError, 1, "dec_invalid"
}

// full_iff: FullRune(p) is false exactly for the empty slice and for a proper prefix of the encoding
// of a scalar value.  The set of all proper prefixes is built once by encoding every scalar value.
var properPrefixes map[uint32]struct{}
var properOnce sync.Once

func prefixKey(p []byte) uint32 {
	k := uint32(len(p)) << 24
	for i, b := range p {
		k |= uint32(b) << (8 * uint(i))
	}
	return k
}

func buildProperPrefixes() {
	properPrefixes = make(map[uint32]struct{}, 1<<15)
	for r := 0; r < 0x110000; r++ {
		if !cIsScalar(r) {
			continue
		}
		e := cEncode(r)
		for n := 1; n < len(e); n++ {
			properPrefixes[prefixKey(e[:n])] = struct{}{}
		}
	}
}

func cFullRune(p []byte) bool {
	if len(p) == 0 {
		return false
	}
	if len(p) > 3 {
		return true // no encoding is longer than 4 bytes: not a proper prefix
	}
	properOnce.Do(buildProperPrefixes)
	_, proper := properPrefixes[prefixKey(p)]
	return !proper
}

// ---- the contract reader ----------------------------------------------------------------------

type cBufio struct {
	src     *chunkReader
	buf     []byte // buffered, unread
	err     bool   // a Read returned an error that has not been reported yet
	last    []byte // the filled buffer before the last ReadRune consumed its rune
	hasLast bool   // UnreadRune allowed
	chk     *caseCheck
	scratch [bufioSize]byte
}

const bufioSize = 4096 // bufio.NewReader

// one Read of the underlying reader into the free space of the buffer (an empty read is retried, as bufio does)
func (c *cBufio) read() {
	for i := 0; i < 100; i++ {
		p := c.scratch[:bufioSize-len(c.buf)]
		n, err := c.src.Read(p)
		c.buf = append(c.buf, p[:n]...)
		if err != nil {
			c.err = true
			return
		}
		if n > 0 {
			return
		}
	}
	c.err = true
}

func (c *cBufio) fullRune() bool {
	f := cFullRune(c.buf)
	c.chk.cmp("full_iff", f == utf8.FullRune(c.buf))
	return f
}

// fill_stop / fill_step
func (c *cBufio) fill() {
	for len(c.buf) < 4 && !c.fullRune() && !c.err {
		c.read()
	}
}

// read_eof / read_rune
func (c *cBufio) readRune() (int, int, bool) {
	c.fill()
	c.hasLast = false
	if len(c.buf) == 0 {
		c.err = false // reported
		return 0, 0, true
	}
	r, size, clause := cDecodeRune(c.buf)
	rr, rs := utf8.DecodeRune(c.buf)
	c.chk.cmp(clause, int(rr) == r && rs == size)
	c.last = append(c.last[:0], c.buf...)
	c.hasLast = true
	c.buf = c.buf[size:]
	return r, size, false
}

// unread
func (c *cBufio) unreadRune() bool {
	if !c.hasLast {
		return false
	}
	c.buf = append(c.buf[:0], c.last...)
	c.hasLast = false
	return true
}

// byte_cons (only called with something buffered)
func (c *cBufio) readByte() byte {
	b := c.buf[0]
	c.buf = c.buf[1:]
	c.hasLast = false
	return b
}

// ---- per case ---------------------------------------------------------------------------------

type caseCheck struct {
	checked int64
	broken  string // first broken clause
	nbroken int64
}

func (k *caseCheck) cmp(clause string, ok bool) {
	k.checked++
	if !ok {
		k.nbroken++
		if k.broken == "" {
			k.broken = clause
		}
	}
}

var bufioPool = sync.Pool{New: func() any { return bufio.NewReader(nil) }}
var cBufioPool = sync.Pool{New: func() any { return &cBufio{} }}

// stdlibCheck replays the reads of one case; returns "" or "STDLIB!<clause>".
func stdlibCheck(data []byte, sizes []int) string {
	k := &caseCheck{}
	realSrc := &chunkReader{data: data, sizes: sizes}
	real := bufioPool.Get().(*bufio.Reader)
	real.Reset(realSrc)
	defer bufioPool.Put(real)
	c := cBufioPool.Get().(*cBufio)
	defer cBufioPool.Put(c)
	c.src, c.chk, c.buf, c.err, c.hasLast = &chunkReader{data: data, sizes: sizes}, k, c.buf[:0], false, false

	// state compared after every call: bytes buffered, bytes pulled from the underlying reader
	state := func(fillClause string) {
		k.cmp("buffered_len", real.Buffered() == len(c.buf))
		k.cmp(fillClause, realSrc.off == c.src.off && realSrc.served == c.src.served)
	}
	{
		r, n, clause := cDecodeRune(nil)
		rr, rn := utf8.DecodeRune(nil)
		k.cmp(clause, int(rr) == r && rn == n)
		k.cmp("full_iff", utf8.FullRune(nil) == cFullRune(nil))
	}
	for step := 0; step < 1<<20; step++ {
		r1, s1, e1 := real.ReadRune()
		r2, s2, e2 := c.readRune()
		if e2 {
			k.cmp("read_eof", e1 != nil && r1 == 0 && s1 == 0)
			state("fill_step")
			k.cmp("unread", real.UnreadRune() != nil && !c.unreadRune()) // not allowed after a failed ReadRune
			break
		}
		k.cmp("read_rune", e1 == nil && int(r1) == r2 && s1 == s2)
		state("fill_step")
		if e1 != nil {
			break
		}
		switch {
		case r2 == cRuneError && s2 == 1:
			// readRune's fallback: UnreadRune, ReadByte
			k.cmp("unread", real.UnreadRune() == nil && c.unreadRune())
			state("fill_stop")
			b1, be := real.ReadByte()
			b2 := c.readByte()
			k.cmp("byte_cons", be == nil && b1 == b2)
			state("fill_stop")
			k.cmp("unread", real.UnreadRune() != nil && !c.unreadRune()) // not allowed after ReadByte
		case step%3 == 1:
			// print's look-ahead: UnreadRune, later the rune is read again
			k.cmp("unread", real.UnreadRune() == nil && c.unreadRune())
			state("fill_stop")
			k.cmp("unread", real.UnreadRune() != nil && !c.unreadRune()) // not twice
			r1, s1, e1 = real.ReadRune()
			r3, s3, e3 := c.readRune()
			k.cmp("read_rune", e1 == nil && !e3 && int(r1) == r3 && s1 == s3 && r3 == r2 && s3 == s2)
			state("fill_stop")
		}
	}
	atomic.AddInt64(&stdlibChecked, k.checked)
	if k.broken != "" {
		atomic.AddInt64(&stdlibBroken, k.nbroken)
		return "STDLIB!" + k.broken
	}
	return ""
}
