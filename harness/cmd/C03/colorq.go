package main

// Colour queries: the real QueryColor / QueryForeground / QueryBackground against a console that
// answers the OSC 4 / 10 / 11 query with a chosen payload (well-formed in every XParseColor digit
// count, signed / spaced / over-long numbers, malformed, wrong index), optionally after an
// unsolicited reply has arrived with nobody asking ("stale").
//
//	cquery <color|fg|bg> <idx> stale=<payload cps|-> reply=<payload cps>   ⇥   col=<uint32> <alive|wedged> <state>
//
// The model's prediction is a run of the LTS (the replies as input, colorRecv/fgRecv/bgRecv) followed by
// the model of the Sscanf parse (Model/InputQuery.lean).
import (
	"fmt"
	"strconv"
	"strings"
	"time"

	vaxis "git.sr.ht/~rockorager/vaxis"
	"verifharness/cmd/C03/inp"
	"verifharness/fakeconsole"
	"verifharness/gen"
)

type cqOp struct {
	kind  string // color | fg | bg
	idx   int
	stale string // payload of an unsolicited reply delivered before the query ("" = none)
	reply string // payload the terminal answers the query with
}

func (q cqOp) enc() string {
	st := "-"
	if q.stale != "" {
		st = inp.Cps([]rune(q.stale))
	}
	return fmt.Sprintf("cquery %s %d stale=%s reply=%s", q.kind, q.idx, st, inp.Cps([]rune(q.reply)))
}

func (h *H) cqCase(id string, mask uint32, ops []cqOp) {
	r := h.r
	f, err := inp.NewFixture(mask, 0, true)
	if err != nil {
		r.Case(id)
		r.Emit(fmt.Sprintf("init mask=%d new-failed", mask), "error")
		return
	}
	f.Fc.InjectString(sentinel)
	f.WaitEvent(sentinelEv, 3*time.Second)
	f.TakeEvents()
	r.Case(id)
	r.Emit(fmt.Sprintf("init mask=%d %s", mask, inp.CanonState(f.Vx.VerifC03Snapshot())), "-")
	for _, q := range ops {
		q := q
		if q.stale != "" {
			f.Fc.InjectString("\x1b]" + q.stale + "\x1b\\" + sentinel)
			f.WaitEvent(sentinelEv, time.Second)
			f.TakeEvents()
		}
		needle := map[string]string{"color": fmt.Sprintf("\x1b]4;%d;?", q.idx), "fg": "\x1b]10;?", "bg": "\x1b]11;?"}[q.kind]
		f.Fc.Respond = func(c *fakeconsole.Console, written []byte) []byte {
			if strings.Contains(string(written), needle) {
				return []byte("\x1b]" + q.reply + "\x1b\\")
			}
			return nil
		}
		res := guardStr(2*time.Second, func() string {
			var c vaxis.Color
			switch q.kind {
			case "color":
				c = f.Vx.QueryColor(vaxis.IndexColor(uint8(q.idx)))
			case "fg":
				c = f.Vx.QueryForeground()
			default:
				c = f.Vx.QueryBackground()
			}
			return fmt.Sprintf("col=%d", uint32(c))
		})
		f.Fc.Respond = nil
		f.Fc.InjectString(sentinel)
		alive := f.WaitEvent(sentinelEv, time.Second)
		f.TakeEvents()
		out := "alive"
		if !alive {
			out = "wedged"
			f.Drain()
		}
		r.Emit(q.enc(), fmt.Sprintf("%s %s %s", res, out, inp.CanonState(f.Vx.VerifC03Snapshot())))
		r.Count("cquery-" + q.kind)
		if q.stale != "" {
			r.Count("cquery-after-unsolicited")
		}
		if res == "hang" {
			r.Count("cquery-hang")
			go f.Close(2 * time.Second)
			return
		}
	}
	f.Drain()
	if !f.Close(5 * time.Second) {
		r.Count("close-hang")
	}
}

func hexDigits(rng *gen.Rng, n int, upper bool) string {
	ds := "0123456789abcdef"
	if upper {
		ds = "0123456789ABCDEF"
	}
	var sb strings.Builder
	for i := 0; i < n; i++ {
		sb.WriteByte(ds[rng.Intn(16)])
	}
	return sb.String()
}

// colourSpec: the part after "rgb:" and what class it is.
func (h *H) colourSpec(rng *gen.Rng) (string, string) {
	switch rng.Intn(12) {
	case 0, 1, 2: // 8 bits per channel
		return hexDigits(rng, 2, rng.Bool()) + "/" + hexDigits(rng, 2, false) + "/" + hexDigits(rng, 2, rng.Bool()), "rgb-2digit"
	case 3, 4: // 16 bits per channel, the 8-bit value repeated (xterm, foot)
		a, b, c := hexDigits(rng, 2, false), hexDigits(rng, 2, false), hexDigits(rng, 2, false)
		return a + a + "/" + b + b + "/" + c + c, "rgb-4digit-repeated"
	case 5: // 16 bits per channel, arbitrary
		return hexDigits(rng, 4, false) + "/" + hexDigits(rng, 4, false) + "/" + hexDigits(rng, 4, false), "rgb-4digit-any"
	case 6:
		// every channel with its own digit count (1-4) and case: all of them XParseColor forms
		return hexDigits(rng, rng.Range(1, 4), rng.Bool()) + "/" + hexDigits(rng, rng.Range(1, 4), rng.Bool()) + "/" + hexDigits(rng, rng.Range(1, 4), rng.Bool()), "rgb-mixed-digits"
	case 7: // what Sscanf also accepts: blanks, signs, long numbers
		parts := []string{}
		for i := 0; i < 3; i++ {
			p := hexDigits(rng, rng.Range(1, 6), rng.Bool())
			switch rng.Intn(5) {
			case 0:
				p = " " + p
			case 1:
				p = "-" + p
			case 2:
				p = "+" + p
			case 3:
				p = hexDigits(rng, rng.Range(14, 18), false)
			}
			parts = append(parts, p)
		}
		return strings.Join(parts, "/"), "rgb-signs-blanks-long"
	case 8: // trailing text
		return hexDigits(rng, 2, false) + "/" + hexDigits(rng, 2, false) + "/" + hexDigits(rng, 2, false) + []string{"/ff", " x", "zz", ";1"}[rng.Intn(4)], "rgb-trailing"
	default: // malformed
		return []string{"", "ff", "ff/ff", "ff/ff/", "gg/00/00", "ff;ff;ff", "f_f/00/00", "/00/00", "ff//00", "0x1f/00/00", "ff/ff/zz", " ff/ff/ff",
			"f\u00e9/00/00", "fff\u00e9/00/00", "00/00/12345", "00/00/00/00", "00/00/01234", "0000f/1/1"}[rng.Intn(18)], "rgb-malformed"
	}
}

func (h *H) genCq(i int) {
	rng := h.rng.Fork(uint64(i) + 9000000)
	mask := h.mask(rng)
	if rng.Chance(5, 6) {
		mask |= 1<<8 | 1<<9 | 1<<10
	}
	var ops []cqOp
	for j := rng.Range(1, 6); j > 0; j-- {
		kind := []string{"color", "fg", "bg"}[rng.Intn(3)]
		idx := rng.Intn(256)
		pfx := map[string]string{"color": fmt.Sprintf("4;%d;", idx), "fg": "10;", "bg": "11;"}[kind]
		spec, class := h.colourSpec(rng)
		reply := pfx + "rgb:" + spec
		switch rng.Intn(14) {
		case 0: // another index / another prefix
			reply = map[string]string{"color": fmt.Sprintf("4;%d;", (idx+1+rng.Intn(200))%256), "fg": "10", "bg": "110;"}[kind] + "rgb:" + spec
			class = "reply-other-prefix"
		case 1:
			reply = pfx + []string{"rgbi:1.0/0.5/0.0", "#ff8000", "RGB:ff/80/00", "rgb;ff/80/00", "?"}[rng.Intn(5)]
			class = "reply-other-format"
		}
		h.r.Count("cq:" + class)
		op := cqOp{kind: kind, idx: idx, reply: reply}
		if rng.Chance(1, 6) {
			sspec, _ := h.colourSpec(rng)
			sidx := idx
			if rng.Bool() {
				sidx = rng.Intn(256)
			}
			op.stale = map[string]string{"color": fmt.Sprintf("4;%d;", sidx), "fg": "10;", "bg": "11;"}[kind] + "rgb:" + sspec
		}
		ops = append(ops, op)
	}
	h.cqCase(fmt.Sprintf("c%d", i), mask, ops)
}

func parseCqOp(f []string) (cqOp, bool) {
	// cquery <kind> <idx> stale=<cps|-> reply=<cps>
	if len(f) < 5 || !strings.HasPrefix(f[3], "stale=") || !strings.HasPrefix(f[4], "reply=") {
		return cqOp{}, false
	}
	idx, _ := strconv.Atoi(f[2])
	op := cqOp{kind: f[1], idx: idx, reply: string(inp.ParseCps(f[4][6:]))}
	if f[3] != "stale=-" {
		op.stale = string(inp.ParseCps(f[3][6:]))
	}
	return op, true
}
