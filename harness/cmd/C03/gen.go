package main

import (
	"fmt"
	"strings"

	"git.sr.ht/~rockorager/vaxis/ansi"
	"verifharness/cmd/C03/inp"
	"verifharness/gen"
)

// ---------- byte-level grammar of reports ----------

var safeRunes = []rune{'a', 'b', 'z', 'A', 'Q', '0', '9', ' ', '~', '!', '/', ':', ';', '<', '[', ']', '\\', '_',
	'é', 'ß', 'Ж', '世', '界', '€', '😀', 'ñ'}

var c0Keys = []byte{0x00, 0x01, 0x03, 0x08, 0x09, 0x0a, 0x0d, 0x11, 0x17, 0x19, 0x1c, 0x1f}

var csiKeys = []string{"\x1b[A", "\x1b[B", "\x1b[C", "\x1b[D", "\x1b[H", "\x1b[F", "\x1b[Z", "\x1b[1;5A", "\x1b[1;2D", "\x1b[2~",
	"\x1b[3~", "\x1b[5~", "\x1b[6;5~", "\x1b[15~", "\x1b[17;2~", "\x1b[24~", "\x1b[1;3P", "\x1b[E",
	// kitty keyboard protocol
	"\x1b[97u", "\x1b[97;5u", "\x1b[97:65;2u", "\x1b[97:65:97;2:1u", "\x1b[57399;1:3u", "\x1b[27;5;13~", "\x1b[97;;97u",
	"\x1b[13;2u", "\x1b[9;5u", "\x1b[127;3u", "\x1b[57441;2:2u", "\x1b[1;1:3A", "\x1b[32;2u", "\x1b[228;;228u",
	// unsolicited cursor-position-shaped reports are legacy F3 keys
	"\x1b[1;2R", "\x1b[R"}

var ss3Keys = []string{"\x1bOA", "\x1bOB", "\x1bOC", "\x1bOD", "\x1bOH", "\x1bOF", "\x1bOP", "\x1bOQ", "\x1bOR", "\x1bOS"}

var altKeys = []string{"\x1ba", "\x1bz", "\x1b1", "\x1bq", "\x1b\x7f", "\x1bw"}

// a key report: bytes that parse to exactly one key-type sequence
func (h *H) keyBytes(rng *gen.Rng) string {
	switch rng.Intn(10) {
	case 0, 1, 2:
		return string(gen.Pick(rng, safeRunes))
	case 3:
		return string([]byte{gen.Pick(rng, c0Keys)})
	case 4, 5, 6:
		return gen.Pick(rng, csiKeys)
	case 7:
		return gen.Pick(rng, ss3Keys)
	case 8:
		return gen.Pick(rng, altKeys)
	default:
		// random kitty key
		return fmt.Sprintf("\x1b[%d;%du", rng.Range(32, 70000), rng.Range(1, 64))
	}
}

func keyReport(b string) (report, bool) {
	seqs := inp.RefParse([]byte(b))
	if len(seqs) != 1 {
		return report{}, false
	}
	switch seqs[0].(type) {
	case ansi.Print, ansi.C0, ansi.ESC, ansi.SS3, ansi.CSI:
	default:
		return report{}, false
	}
	enc := inp.EncSeq(seqs[0])
	i := strings.LastIndex(enc, " k ")
	if i < 0 {
		return report{}, false
	}
	return report{enc: "key " + enc[i+3:], bytes: b}, true
}

type replyShape struct {
	name  string
	bytes string
	// ann: the internal notifications the reply must produce by the protocol ("-" none, "?" unspecified)
	ann string
}

func (h *H) replyShapes(rng *gen.Rng, mask uint32) []replyShape {
	n := func(lo, hi int) int { return rng.Range(lo, hi) }
	hx4 := func() string { return fmt.Sprintf("%04x", rng.Intn(65536)) }
	bit := func(i uint) bool { return mask>>i&1 == 1 }
	unless := func(known bool, ev string) string {
		if known {
			return "-"
		}
		return ev
	}
	mode := gen.Pick(rng, []int{2026, 2027, 2031, 2048, 1004, 7})
	val := n(0, 4)
	decrpmAnn := "-"
	if cap, ok := map[int]string{2026: "synchronizedUpdates", 2027: "unicodeCoreCap", 2031: "notifyColorChange"}[mode]; ok {
		switch val {
		case 1, 2:
			decrpmAnn = cap
		case 3:
			// permanently set: the mode is in force. For 2027 that is an advertisement (Spec/Startup.decrpmKnown);
			// for the two modes Vaxis would have to switch on itself it is not pinned down by the property
			decrpmAnn = "?"
			if mode == 2027 {
				decrpmAnn = cap
			}
		case 4:
			// permanently reset: the terminal knows the number but the mode can never be set — nothing to announce
			decrpmAnn = "-"
		}
	}
	geomP := n(0, 3)
	geomAnn := "-"
	if geomP == 0 {
		geomAnn = "capabilitySixel"
	}
	return []replyShape{
		{"da1", "\x1b[?62;4;22c", "capabilitySixel,primaryDeviceAttribute"},
		{"da1", "\x1b[?62;22c", "primaryDeviceAttribute"},
		{"da1", "\x1b[?1;2;4c", "capabilitySixel,primaryDeviceAttribute"},
		{"decrpm", fmt.Sprintf("\x1b[?%d;%d$y", mode, val), decrpmAnn},
		{"size8", fmt.Sprintf("\x1b[8;%d;%dt", n(1, 300), n(1, 500)), unless(bit(13), "textAreaChar")},
		{"size4", fmt.Sprintf("\x1b[4;%d;%dt", n(1, 3000), n(1, 5000)), unless(bit(12), "textAreaPix")},
		{"inband", fmt.Sprintf("\x1b[48;%d;%d;%d;%dt", n(1, 300), n(1, 500), n(0, 3000), n(0, 5000)), unless(bit(14), "inBandResizeEvents")},
		{"osc4", fmt.Sprintf("\x1b]4;%d;rgb:%s/%s/%s\x1b\\", n(0, 255), hx4(), hx4(), hx4()), "capabilityOsc4"},
		{"osc10", fmt.Sprintf("\x1b]10;rgb:%s/%s/%s\x1b\\", hx4(), hx4(), hx4()), "capabilityOsc10"},
		{"osc11", fmt.Sprintf("\x1b]11;rgb:%s/%s/%s\x07", hx4(), hx4(), hx4()), "capabilityOsc11"},
		{"osc52", "\x1b]52;c;" + gen.Pick(rng, []string{"aGVsbG8=", "", "5LiW55WM", "Zm9v", "YQ==", "!!!", "aGk"}) + "\x1b\\", "-"},
		{"osc176", "\x1b]176;" + gen.Pick(rng, []string{"app", "", "foot", "a;b"}) + "\x1b\\", "?"},
		{"xtgettcap", "\x1bP1+r524742=38\x1b\\", "truecolor"},
		{"xtgettcap", "\x1bP1+r536D756C78=5C455B343A25703125646D\x1b\\", "styledUnderlines"},
		// failure replies echo the name: they must not be read as an advertisement
		{"xtgettcap", "\x1bP0+r524742\x1b\\", "-"},
		{"xtgettcap", "\x1bP0+r536D756C78\x1b\\", "-"},
		{"xtgettcap", "\x1bP0+r524742=38\x1b\\", "-"},
		{"xtgettcap", "\x1bP1+r544E=787465726D\x1b\\", "-"},
		{"decrpss", fmt.Sprintf("\x1bP1$r%d q\x1b\\", n(0, 9)), "-"},
		{"xtversion", "\x1bP>|" + gen.Pick(rng, []string{"foot(1.17.2)", "kitty", "x", "WezTerm 2021"}) + "\x1b\\", "terminalID"},
		{"da3", "\x1bP!|7E565445\x1b\\", "styledUnderlines"},
		{"da3", "\x1bP!|00000000\x1b\\", "-"},
		{"kittykbd", fmt.Sprintf("\x1b[?%du", n(0, 31)), "kittyKeyboard"},
		{"kittygfx", "\x1b_Gi=1;OK\x1b\\", "kittyGraphics"},
		{"apc", "\x1b_X\x1b\\", "-"},
		{"sixelgeom", fmt.Sprintf("\x1b[?2;%d;800;600S", geomP), geomAnn},
		{"sixelgeom", "\x1b[?1;0;256S", "-"},
		{"theme", fmt.Sprintf("\x1b[?997;%dn", n(1, 2)), "-"},
		{"dsr", "\x1b[?996;1n", "-"},
	}
}

// specName: what the grammar-level spec needs to know about a reply.
func replyEnc(rs replyShape) string {
	switch rs.name {
	case "inband":
		return "reply inband " + rs.ann
	case "theme":
		// mode is the second parameter
		i := strings.Index(rs.bytes, ";")
		return "reply theme " + strings.TrimSuffix(rs.bytes[i+1:], "n")
	}
	return "reply " + rs.name + " " + rs.ann
}

func (h *H) mouseReport(rng *gen.Rng) report {
	b := rng.Intn(256)
	if rng.Chance(1, 10) {
		b = rng.Intn(100000)
	}
	x, y := rng.Range(1, 400), rng.Range(1, 200)
	if rng.Chance(1, 20) {
		x = rng.Intn(3)
	}
	if rng.Chance(1, 20) {
		y = rng.Intn(70000)
	}
	fin := "M"
	if rng.Bool() {
		fin = "m"
	}
	return report{enc: fmt.Sprintf("mouse %d %d %d %s", b, x, y, fin), bytes: fmt.Sprintf("\x1b[<%d;%d;%d%s", b, x, y, fin)}
}

// well-formed report stream
func (h *H) wfStream(rng *gen.Rng, n int, mask uint32) ([]report, string) {
	var reps []report
	var sb strings.Builder
	add := func(r report) {
		reps = append(reps, r)
		sb.WriteString(r.bytes)
	}
	inPaste := false
	for i := 0; i < n; i++ {
		k := rng.Intn(100)
		switch {
		case inPaste:
			// paste content: text keys; end with probability
			if rng.Chance(1, 4) {
				add(report{enc: "paste end", bytes: "\x1b[201~"})
				inPaste = false
				continue
			}
			var b string
			if rng.Chance(4, 5) {
				b = string(gen.Pick(rng, safeRunes))
			} else {
				b = string([]byte{gen.Pick(rng, c0Keys)})
			}
			if r, ok := keyReport(b); ok {
				add(r)
			}
		case k < 40:
			if r, ok := keyReport(h.keyBytes(rng)); ok {
				add(r)
			}
		case k < 55:
			add(h.mouseReport(rng))
		case k < 60:
			add(report{enc: "focus in", bytes: "\x1b[I"})
		case k < 65:
			add(report{enc: "focus out", bytes: "\x1b[O"})
		case k < 72:
			add(report{enc: "paste start", bytes: "\x1b[200~"})
			inPaste = true
		default:
			shapes := h.replyShapes(rng, mask)
			rs := gen.Pick(rng, shapes)
			reps0 := 1
			if rng.Chance(1, 3) {
				reps0 = rng.Range(2, 4) // repeated
				h.r.Count("reply-repeated")
			}
			if rng.Chance(1, 5) && len(rs.bytes) > 2 {
				// truncated, then CAN (a Ctrl+X key press ends whatever was pending)
				cut := rng.Range(1, len(rs.bytes)-1)
				add(report{enc: "trunc " + rs.name, bytes: rs.bytes[:cut]})
				if r, ok := keyReport("\x18"); ok {
					add(r)
				}
				h.r.Count("reply-truncated")
				continue
			}
			for j := 0; j < reps0; j++ {
				add(report{enc: replyEnc(rs), bytes: rs.bytes})
			}
			h.r.Count("reply:" + rs.name)
		}
	}
	if inPaste && rng.Bool() {
		add(report{enc: "paste end", bytes: "\x1b[201~"})
	}
	return reps, sb.String()
}

// garbage stream: anything
func (h *H) garbage(rng *gen.Rng, n int, mask uint32) string {
	var sb strings.Builder
	frag := []string{"\x1b[M", "\x1b[m", "\x1b[M !!", "\x1b[0;1;1M", "\x1b[<0;1M", "\x1b[<0;1;2;3M", "\x1b[<$0;1;2M", "\x1b[>0;1;2M", "\x1b[<;;M",
		"\x1b[<35;1;1m", "\x1b[1;1R", "\x1b[5R", "\x1b[?c", "\x1b[c", "\x1b[?;4c", "\x1b[t", "\x1b[8t", "\x1b[8;1t", "\x1b[8;;t", "\x1b[48;1;2t",
		"\x1b[48;1;2;3;4;5t", "\x1b[?y", "\x1b[y", "\x1b[2026y", "\x1b[?2026$y", "\x1b[~", "\x1b[200~", "\x1b[201~", "\x1b[200;1~", "\x1b[?200~",
		"\x1b[?S", "\x1b[?2S", "\x1b[?2;0S", "\x1b[?n", "\x1b[?997n", "\x1b[?997;1;2n", "\x1b[?u", "\x1b[u", "\x1b[I", "\x1b[O",
		"\x1b]4\x07", "\x1b]\x07", "\x1b]10\x07", "\x1b]11", "\x1b]52;c\x07", "\x1b]52;c;?;x\x07", "\x1b]176\x07", "\x1b]176;a;b\x07", "\x1b]104\x07", "\x1b]41;x\x07",
		"\x1bP\x1b\\", "\x1bP+r\x1b\\", "\x1bP1+r\x1b\\", "\x1bP$r\x1b\\", "\x1bP1$r q\x1b\\", "\x1bP1$r7 q\x1b\\", "\x1bP|\x1b\\", "\x1bP>|\x1b\\", "\x1bP1;2;3+r=\x1b\\",
		"\x1b_\x1b\\", "\x1b_G\x1b\\", "\x1b^x\x1b\\", "\x1bX\x1b\\", "\x1b[99999999999999999999;1;1t", "\x1b[<99999999999999999999;1;1M", "\x1b[<0;9223372036854775808;1M",
		"\x1b[1:2:3;4:5t", "\x1b[:::M", "\x1b\x1b", "\x1b[\x1b[", "\x18", "\x1a", "\x7f", "\x9b1m", "\xff\xfe", "\xc3", "é", "\U0001F1E6\U0001F1E7"}
	for i := 0; i < n; i++ {
		switch rng.Intn(6) {
		case 0:
			m := rng.Range(1, 6)
			for j := 0; j < m; j++ {
				sb.WriteByte(byte(rng.Intn(256)))
			}
		case 1, 2:
			sb.WriteString(gen.Pick(rng, frag))
		case 3:
			rs := gen.Pick(rng, h.replyShapes(rng, mask))
			b := rs.bytes
			if rng.Bool() {
				b = b[:rng.Range(0, len(b))]
			}
			sb.WriteString(b)
		case 4:
			sb.WriteString(h.keyBytes(rng))
		default:
			// random CSI
			sb.WriteString("\x1b[")
			if rng.Chance(1, 3) {
				sb.WriteByte("<=>?"[rng.Intn(4)])
			}
			m := rng.Intn(6)
			for j := 0; j < m; j++ {
				if j > 0 {
					sb.WriteByte(";:"[rng.Intn(2)*rng.Intn(2)])
				}
				if rng.Chance(4, 5) {
					fmt.Fprintf(&sb, "%d", gen.Pick(rng, []int{0, 1, 2, 4, 8, 48, 200, 201, 997, 2026, 2027, 2031, 5, 62, rng.Intn(3000)}))
				}
			}
			if rng.Chance(1, 4) {
				sb.WriteByte(" !\"#$%&'()*+,-./"[rng.Intn(16)])
			}
			sb.WriteByte("cIORSnyu~Mmtabcdxyz@ABCDEFGHJKPQTZ`q"[rng.Intn(36)])
		}
	}
	return sb.String()
}

func (h *H) mask(rng *gen.Rng) uint32 {
	switch rng.Intn(4) {
	case 0:
		return 0
	case 1:
		return 1<<19 - 1
	default:
		return uint32(rng.U64()) & (1<<19 - 1)
	}
}

func (h *H) genStream(i int) {
	rng := h.rng.Fork(uint64(i) + 1000000)
	mask := h.mask(rng)
	queue := 0
	if rng.Chance(1, 3) {
		queue = rng.Range(1, 4)
	}
	if rng.Chance(3, 5) {
		reps, data := h.wfStream(rng, rng.Range(1, 40), mask)
		if len(data) > 3000 {
			return
		}
		h.streamCase(fmt.Sprintf("s%d", i), mask, queue, reps, true, data)
		h.r.Count("stream-wf")
	} else {
		data := h.garbage(rng, rng.Range(1, 30), mask)
		if len(data) > 3000 {
			data = data[:3000]
		}
		h.streamCase(fmt.Sprintf("g%d", i), mask, queue, nil, false, data)
		h.r.Count("stream-garbage")
	}
}

// ---------- direct cases ----------

func (h *H) randParams(rng *gen.Rng, wf bool) [][]int {
	n := rng.Intn(7)
	var ps [][]int
	for i := 0; i < n; i++ {
		m := 1
		if rng.Chance(1, 6) {
			m = rng.Range(2, 3)
		}
		if !wf && rng.Chance(1, 4) {
			m = 0
		}
		p := make([]int, 0, m)
		for j := 0; j < m; j++ {
			p = append(p, gen.Pick(rng, []int{0, 1, 2, 3, 4, 5, 8, 48, 200, 201, 997, 2026, 2027, 2031, 62, 22, -1, rng.Intn(100000), -9223372036854775808, 9223372036854775807}))
		}
		ps = append(ps, p)
	}
	return ps
}

func (h *H) randSeq(rng *gen.Rng, wf bool) ansi.Sequence {
	finals := []rune("cIORSnyu~MmtAZq")
	switch rng.Intn(12) {
	case 0:
		return ansi.Print{Grapheme: string(gen.Pick(rng, safeRunes)), Width: 1}
	case 1:
		return ansi.C0(rune(rng.Intn(32)))
	case 2:
		return ansi.ESC{Final: rune(rng.Range(0x30, 0x7e))}
	case 3:
		return ansi.SS3(rune(rng.Range(0x40, 0x7e)))
	case 4, 5, 6, 7:
		var im []rune
		switch rng.Intn(6) {
		case 0:
			im = []rune{'?'}
		case 1:
			im = []rune{'<'}
		case 2:
			im = []rune{gen.Pick(rng, []rune("?<>=$ !"))}
		case 3:
			im = []rune{gen.Pick(rng, []rune("?<>=")), gen.Pick(rng, []rune("$ !?<"))}
		}
		return ansi.CSI{Intermediate: im, Parameters: h.randParams(rng, wf), Final: gen.Pick(rng, finals)}
	case 8:
		// a reply shape as parsed
		rs := gen.Pick(rng, h.replyShapes(rng, 0))
		seqs := inp.RefParse([]byte(rs.bytes))
		if len(seqs) > 0 {
			return seqs[0]
		}
		return ansi.C0(0)
	case 9:
		var im []rune
		if rng.Chance(4, 5) {
			im = []rune{gen.Pick(rng, []rune("+$!>?"))}
		}
		var ps []int
		for i := rng.Intn(3); i > 0; i-- {
			ps = append(ps, rng.Intn(3))
		}
		data := gen.Pick(rng, []string{"", "524742=38", "536D756C78", "536D756C78=1=2", "2 q", " q", "7 q", "q", "7E565445", "foot", "=", "0 q", "6 q", "/ q"})
		return ansi.DCS{Final: gen.Pick(rng, []rune("r|q")), Intermediate: im, Parameters: ps, Data: []rune(data)}
	case 10:
		return ansi.APC{Data: gen.Pick(rng, []string{"", "G", "Gi=1;OK", "X", "g"})}
	default:
		pl := gen.Pick(rng, []string{"", "4", "4;1;rgb:ffff/0000/0000", "10;rgb:1/2/3", "11;rgb:1/2/3", "104", "110", "41", "1", "52", "52;c;aGVsbG8=", "52;c;!!", "52;c;", "52;c",
			"52;c;YQ==;x", "176", "176;app", "176;a;b", "1760;x", "5", "ü4", "10", "11", "52;;5LiW55WM"})
		return ansi.OSC{Payload: []rune(pl)}
	}
}

func (h *H) genDirect(i int) {
	rng := h.rng.Fork(uint64(i))
	mask := h.mask(rng)
	wf := rng.Chance(2, 3)
	n := rng.Range(1, 12)
	var ops []dop
	for j := 0; j < n; j++ {
		switch rng.Intn(12) {
		case 0:
			ops = append(ops, dop{kind: "setreq", arg: fmt.Sprint(rng.Intn(2))})
		case 1:
			ops = append(ops, dop{kind: "drain"})
		default:
			ops = append(ops, dop{kind: "seq", seq: h.randSeq(rng, wf)})
		}
	}
	probe := "std"
	if rng.Chance(1, 8) {
		// the explicit-width probe is not answered, or answered with a column that is neither 1 nor 2
		probe = []string{"silent", "col7"}[rng.Intn(2)]
	}
	h.directCaseProbe(fmt.Sprintf("d%d", i), mask, probe, ops)
	if wf {
		h.r.Count("direct-wf")
	} else {
		h.r.Count("direct-nonwf")
	}
}

// fixed cases: the shapes named in the property text and in DESIGN §6.4 (F09–F12)
func (h *H) fixed() {
	all := uint32(1<<19 - 1)
	csi := func(im string, fin rune, ps ...[]int) ansi.Sequence {
		return ansi.CSI{Intermediate: []rune(im), Parameters: ps, Final: fin}
	}
	p := func(v ...int) []int { return v }
	// F09: CSI M / CSI m without '<'
	h.directCase("fixed-F09-a", 0, []dop{{kind: "seq", seq: csi("", 'M')}})
	h.directCase("fixed-F09-b", 0, []dop{{kind: "seq", seq: csi("", 'm', p(0), p(1), p(1))}})
	h.directCase("fixed-F09-c", 0, []dop{{kind: "seq", seq: csi("<$", 'M', p(0), p(1), p(1))}})
	h.streamCase("fixed-F09-s", 0, 0, nil, false, "\x1b[M !!")
	h.streamCase("fixed-F09-t", 0, 0, nil, false, "\x1b[0;1;1M")
	// F10: unsolicited size reports once the capability is known
	h.directCase("fixed-F10-d", all, []dop{{kind: "seq", seq: csi("", 't', p(8), p(24), p(80))}, {kind: "seq", seq: csi("", 't', p(8), p(24), p(80))}, {kind: "seq", seq: csi("", 't', p(8), p(25), p(81))}})
	h.streamCase("fixed-F10-s", all, 0, []report{{enc: "reply size8 -"}, {enc: "reply size8 -"}, {enc: "reply size8 -"}}, true, "\x1b[8;24;80t\x1b[8;24;80t\x1b[8;24;80t")
	// F11: unsolicited OSC 4/10/11 replies once the capability is known
	for _, o := range []string{"4;1;rgb:ffff/0000/0000", "10;rgb:1/2/3", "11;rgb:1/2/3"} {
		osc := ansi.OSC{Payload: []rune(o)}
		h.directCase("fixed-F11-d"+o[:2], all, []dop{{kind: "seq", seq: osc}, {kind: "seq", seq: osc}, {kind: "drain"}, {kind: "seq", seq: osc}})
		nm := "osc" + strings.TrimSuffix(o[:2], ";")
		ann := "capabilityOsc" + strings.TrimSuffix(o[:2], ";")
		h.streamCase("fixed-F11-s"+o[:2], all, 0, []report{{enc: "reply " + nm + " " + ann}, {enc: "reply " + nm + " " + ann}, {enc: "reply " + nm + " " + ann}}, true, strings.Repeat("\x1b]"+o+"\x1b\\", 3))
	}
	// F12 (direct approximation): request flag set, requester gone — the answer is parked in the
	// buffered channel, a second one is dropped, the next drain finds the first
	h.directCase("fixed-F12-d", 0, []dop{{kind: "stub", arg: "0"}, {kind: "setreq", arg: "1"}, {kind: "seq", seq: csi("", 'R', p(3), p(7))}, {kind: "seq", seq: csi("", 'R', p(3), p(7))},
		{kind: "setreq", arg: "1"}, {kind: "seq", seq: csi("", 'R', p(4), p(8))}, {kind: "drain"},
		{kind: "setreq", arg: "1"}, {kind: "seq", seq: csi("", 'R', p(3))}, {kind: "setreq", arg: "1"}, {kind: "seq", seq: csi("", 'R', p(5), p(9))}, {kind: "drain"}})
	// a timed-out cursor query must leave no request behind: Shift+F3 (CSI 1;2 R) typed afterwards is a
	// key press, a late answer too, and the next answered query returns the fresh position
	h.queryCase("fixed-cpr-timeout", 0, []qop{{kind: "cursor", a: []int{3, 7}, mode: "silent"}, {kind: "key", a: []int{1, 2}},
		{kind: "cursor", a: []int{5, 9}, mode: "reply"}, {kind: "key", a: []int{3, 7}}, {kind: "cursor", a: []int{6, 1}, mode: "silent"},
		{kind: "key", a: []int{6, 1}}, {kind: "key", a: []int{1, 2}}, {kind: "cursor", a: []int{8, 8}, mode: "reply"}})
	// paste marks
	if k, ok := keyReport("a"); ok {
		h.streamCase("fixed-paste", 0, 0, []report{{enc: "paste start"}, k, k, {enc: "paste end"}, k}, true, "\x1b[200~aa\x1b[201~a")
	}
	h.r.Count("fixed")
}
