// Package inp: encoding of parsed sequences, events and state snapshots for the C03/C10 line
// protocol, plus the "direct" executor that calls the real handleSequence under recover with
// block detection. Shared by harness/cmd/C03 and harness/cmd/C10.
package inp

import (
	"bytes"
	"encoding/base64"
	"fmt"
	"github.com/containerd/console"
	"strconv"
	"strings"
	"sync"
	"time"

	"git.sr.ht/~rockorager/vaxis"
	"git.sr.ht/~rockorager/vaxis/ansi"
	"verifharness/fakeconsole"
)

// ---------- encoding ----------

func Cps(rs []rune) string {
	if len(rs) == 0 {
		return "-"
	}
	var sb strings.Builder
	for i, r := range rs {
		if i > 0 {
			sb.WriteByte(',')
		}
		sb.WriteString(strconv.Itoa(int(r)))
	}
	return sb.String()
}

func ParseCps(s string) []rune {
	if s == "-" || s == "" {
		return nil
	}
	var out []rune
	for _, f := range strings.Split(s, ",") {
		n, _ := strconv.Atoi(f)
		out = append(out, rune(n))
	}
	return out
}

func csiParams(ps [][]int) string {
	if len(ps) == 0 {
		return "-"
	}
	var parts []string
	for _, p := range ps {
		if len(p) == 0 {
			parts = append(parts, "e")
			continue
		}
		var sub []string
		for _, v := range p {
			sub = append(sub, strconv.Itoa(v))
		}
		parts = append(parts, strings.Join(sub, ":"))
	}
	return strings.Join(parts, ";")
}

func parseCsiParams(s string) [][]int {
	if s == "-" {
		return nil
	}
	var out [][]int
	for _, p := range strings.Split(s, ";") {
		if p == "e" {
			out = append(out, []int{})
			continue
		}
		var sub []int
		for _, v := range strings.Split(p, ":") {
			n, _ := strconv.Atoi(v)
			sub = append(sub, n)
		}
		out = append(out, sub)
	}
	return out
}

func ints(xs []int) string {
	if len(xs) == 0 {
		return "-"
	}
	var q []string
	for _, x := range xs {
		q = append(q, strconv.Itoa(x))
	}
	return strings.Join(q, ",")
}

func parseInts(s string) []int {
	if s == "-" {
		return nil
	}
	var out []int
	for _, f := range strings.Split(s, ",") {
		n, _ := strconv.Atoi(f)
		out = append(out, n)
	}
	return out
}

// B64 is the oracle for base64.StdEncoding.DecodeString on the third ';'-field of an OSC payload.
func B64(payload []rune) string {
	vals := strings.Split(string(payload), ";")
	if len(vals) < 3 {
		return "n"
	}
	b, err := base64.StdEncoding.DecodeString(vals[2])
	if err != nil {
		return "n"
	}
	// string(b) is delivered as a Go string: compare as bytes
	rs := make([]rune, len(b))
	for i, c := range b {
		rs[i] = rune(c)
	}
	if len(rs) == 0 {
		return "="
	}
	return "=" + Cps(rs)
}

// KeyTok is the opaque key token (everything of decodeKey's result but the event type).
func KeyTok(k vaxis.Key) string {
	t := "-"
	if k.Text != "" {
		var q []string
		for _, r := range k.Text {
			q = append(q, strconv.Itoa(int(r)))
		}
		t = strings.Join(q, "_")
	}
	return fmt.Sprintf("%d.%d.%d.%d.%s", k.Keycode, int(k.Modifiers), k.ShiftedCode, k.BaseLayoutCode, t)
}

// EncSeq renders a parsed sequence (with the decodeKey oracle and, for OSC, the base64 oracle).
func EncSeq(seq ansi.Sequence) string {
	var body string
	switch s := seq.(type) {
	case ansi.Print:
		body = fmt.Sprintf("print %s %d", Cps([]rune(s.Grapheme)), s.Width)
	case ansi.C0:
		body = fmt.Sprintf("c0 %d", rune(s))
	case ansi.ESC:
		body = fmt.Sprintf("esc %s %d", Cps(s.Intermediate), s.Final)
	case ansi.SS3:
		body = fmt.Sprintf("ss3 %d", rune(s))
	case ansi.CSI:
		body = fmt.Sprintf("csi %s %s %d", Cps(s.Intermediate), csiParams(s.Parameters), s.Final)
	case ansi.DCS:
		body = fmt.Sprintf("dcs %d %s %s %s", s.Final, Cps(s.Intermediate), ints(s.Parameters), Cps(s.Data))
	case ansi.APC:
		body = fmt.Sprintf("apc %s", Cps([]rune(s.Data)))
	case ansi.OSC:
		return fmt.Sprintf("osc %s %s", Cps(s.Payload), B64(s.Payload))
	default:
		return "other"
	}
	switch seq.(type) {
	case ansi.Print, ansi.C0, ansi.ESC, ansi.SS3, ansi.CSI:
		k := vaxis.VerifC03DecodeKey(seq)
		body += fmt.Sprintf(" k %s %d", KeyTok(k), int(k.EventType))
	}
	return body
}

// DecSeq parses the fields of EncSeq back (for replay).
func DecSeq(f []string) (ansi.Sequence, bool) {
	if len(f) == 0 {
		return nil, false
	}
	switch f[0] {
	case "print":
		if len(f) < 3 {
			return nil, false
		}
		w, _ := strconv.Atoi(f[2])
		return ansi.Print{Grapheme: string(ParseCps(f[1])), Width: w}, true
	case "c0":
		n, _ := strconv.Atoi(f[1])
		return ansi.C0(rune(n)), true
	case "esc":
		n, _ := strconv.Atoi(f[2])
		return ansi.ESC{Intermediate: ParseCps(f[1]), Final: rune(n)}, true
	case "ss3":
		n, _ := strconv.Atoi(f[1])
		return ansi.SS3(rune(n)), true
	case "csi":
		if len(f) < 4 {
			return nil, false
		}
		n, _ := strconv.Atoi(f[3])
		return ansi.CSI{Intermediate: ParseCps(f[1]), Parameters: parseCsiParams(f[2]), Final: rune(n)}, true
	case "dcs":
		if len(f) < 5 {
			return nil, false
		}
		n, _ := strconv.Atoi(f[1])
		return ansi.DCS{Final: rune(n), Intermediate: ParseCps(f[2]), Parameters: parseInts(f[3]), Data: ParseCps(f[4])}, true
	case "apc":
		return ansi.APC{Data: string(ParseCps(f[1]))}, true
	case "osc":
		return ansi.OSC{Payload: ParseCps(f[1])}, true
	case "other":
		return fmt.Errorf("other"), true
	}
	return nil, false
}

// CanonEvent renders one event read from Events().
func CanonEvent(ev vaxis.Event) string {
	switch e := ev.(type) {
	case vaxis.Key:
		return fmt.Sprintf("K/%s/%d", KeyTok(e), int(e.EventType))
	case vaxis.Mouse:
		return fmt.Sprintf("M/%d/%d/%d/%d/%d", int(e.Button), e.Row, e.Col, int(e.EventType), int(e.Modifiers))
	case vaxis.FocusIn:
		return "FI"
	case vaxis.FocusOut:
		return "FO"
	case vaxis.PasteStartEvent:
		return "PS"
	case vaxis.PasteEndEvent:
		return "PE"
	case vaxis.ColorThemeUpdate:
		return fmt.Sprintf("CT/%d", int(e.Mode))
	case vaxis.Redraw:
		return "RD"
	case vaxis.Resize:
		return fmt.Sprintf("RS/%d/%d/%d/%d", e.Cols, e.Rows, e.XPixel, e.YPixel)
	case vaxis.QuitEvent:
		return "QT"
	case vaxis.SyncFunc:
		return "SF"
	}
	t := fmt.Sprintf("%T", ev)
	if strings.HasPrefix(t, "vaxis.") {
		name := strings.TrimPrefix(t, "vaxis.")
		switch name {
		case "appID":
			return "A/" + Cps([]rune(fmt.Sprintf("%s", ev)))
		case "terminalID":
			return "T/" + Cps([]rune(fmt.Sprintf("%s", ev)))
		}
		return "i/" + name
	}
	return "?" + t
}

func bit(b bool) string {
	if b {
		return "1"
	}
	return "0"
}

// CanonState renders a snapshot.
func CanonState(s vaxis.VerifC03State) string {
	var caps strings.Builder
	for _, b := range s.Caps {
		caps.WriteString(bit(b))
	}
	return fmt.Sprintf("caps=%s p=%s q=%s z=%s ns=%d,%d,%d,%d ucs=%d ch=%d%d%d%d%d",
		caps.String(), bit(s.PastePending), bit(s.ReqCursorPos), bit(s.ResizeFlag),
		s.NextSize.Cols, s.NextSize.Rows, s.NextSize.XPixel, s.NextSize.YPixel, s.UserCursorStyle,
		s.ChanLen[0], s.ChanLen[1], s.ChanLen[2], s.ChanLen[3], s.ChanLen[4])
}

// ---------- fixture: a real Vaxis on a fake console ----------

type Fixture struct {
	Vx   *vaxis.Vaxis
	Fc   *fakeconsole.Console
	mu   sync.Mutex
	evs  []string
	raw  []vaxis.Event
	stop chan struct{}
	done chan struct{}
	// stub receivers for the two unbuffered reply channels
	stubOn  bool
	stubMu  sync.Mutex
	stubGot []string
	stubQ   chan struct{}
	stubD   chan struct{}
}

// probeConsole changes the terminal's answer to the explicit-width probe of start-up (the first
// cursor-position report): "silent" = no answer, "col7" = the cursor is reported in column 7 (a
// terminal that printed the payload of the OSC it does not know).  Everything else passes through.
type probeConsole struct {
	*fakeconsole.Console
	mode string
	done bool
}

func (p *probeConsole) Read(b []byte) (int, error) {
	for {
		n, err := p.Console.Read(b)
		if p.done || n == 0 || err != nil {
			return n, err
		}
		s := string(b[:n])
		i := strings.Index(s, "\x1b[1;1R")
		if i < 0 {
			i = strings.Index(s, "\x1b[1;2R")
		}
		if i < 0 {
			return n, err
		}
		p.done = true
		if p.mode == "silent" {
			s = s[:i] + s[i+6:]
		} else {
			s = s[:i] + "\x1b[1;7R" + s[i+6:]
		}
		n = copy(b, s)
		if n > 0 {
			return n, nil
		}
	}
}

// NewFixture starts a Vaxis on a fake console advertising `mask`; queue = EventQueueSize (0 = default).
// A collector goroutine drains Events() continuously.
func NewFixture(mask uint32, queue int, collect bool) (*Fixture, error) {
	return NewFixtureProbe(mask, queue, collect, "")
}

// NewFixtureProbe: as NewFixture, with the probe's answer altered ("" / "std" = the scripted answer).
func NewFixtureProbe(mask uint32, queue int, collect bool, probe string) (*Fixture, error) {
	fc := fakeconsole.New(80, 24, fakeconsole.FromMask(mask))
	var con console.Console = fc
	if probe == "silent" || probe == "col7" {
		con = &probeConsole{Console: fc, mode: probe}
	}
	vx, err := vaxis.New(vaxis.Options{WithConsole: con, NoSignals: true, EventQueueSize: queue})
	if err != nil {
		return nil, err
	}
	f := &Fixture{Vx: vx, Fc: fc, stop: make(chan struct{}), done: make(chan struct{})}
	if collect {
		go f.collect()
	} else {
		close(f.done)
		close(f.stop)
	}
	return f, nil
}

func (f *Fixture) collect() {
	defer close(f.done)
	q := f.Vx.Events()
	for {
		select {
		case ev := <-q:
			f.mu.Lock()
			f.evs = append(f.evs, CanonEvent(ev))
			f.raw = append(f.raw, ev)
			f.mu.Unlock()
		case <-f.stop:
			return
		}
	}
}

// StopCollect stops draining the event queue (the queue then fills up).
func (f *Fixture) StopCollect() {
	select {
	case <-f.stop:
	default:
		close(f.stop)
		<-f.done
	}
}

// TakeEvents returns and clears the events collected so far.
func (f *Fixture) TakeEvents() []string {
	f.mu.Lock()
	defer f.mu.Unlock()
	out := f.evs
	f.evs = nil
	f.raw = nil
	return out
}

func (f *Fixture) NumEvents() int {
	f.mu.Lock()
	defer f.mu.Unlock()
	return len(f.evs)
}

// HasEvent reports whether an event whose canonical form starts with c was collected.
func (f *Fixture) HasEvent(c string) bool {
	f.mu.Lock()
	defer f.mu.Unlock()
	for _, e := range f.evs {
		if strings.HasPrefix(e, c) {
			return true
		}
	}
	return false
}

// WaitEvent waits until the canonical event has been collected.
func (f *Fixture) WaitEvent(c string, d time.Duration) bool {
	deadline := time.Now().Add(d)
	for i := 0; ; i++ {
		if f.HasEvent(c) {
			return true
		}
		if time.Now().After(deadline) {
			return false
		}
		if i < 200 {
			time.Sleep(20 * time.Microsecond)
		} else {
			time.Sleep(500 * time.Microsecond)
		}
	}
}

// StubOn starts receivers on chCursorPos and chClipboard (the two unbuffered reply channels),
// playing a requester that is always waiting.
func (f *Fixture) StubOn() {
	if f.stubOn {
		return
	}
	f.stubOn = true
	f.stubQ = make(chan struct{})
	f.stubD = make(chan struct{})
	cp, _, _, _, _, cb := f.Vx.VerifC03Chans()
	go func() {
		defer close(f.stubD)
		for {
			select {
			case p := <-cp:
				f.stubMu.Lock()
				f.stubGot = append(f.stubGot, fmt.Sprintf("cp:%d:%d", p[0], p[1]))
				f.stubMu.Unlock()
			case s := <-cb:
				rs := make([]rune, len(s))
				for i := 0; i < len(s); i++ {
					rs[i] = rune(s[i])
				}
				f.stubMu.Lock()
				f.stubGot = append(f.stubGot, "cb:"+Cps(rs))
				f.stubMu.Unlock()
			case <-f.stubQ:
				return
			}
		}
	}()
}

func (f *Fixture) StubOff() {
	if !f.stubOn {
		return
	}
	close(f.stubQ)
	<-f.stubD
	f.stubOn = false
}

// TakeStubSettled: the handler has returned, so every rendezvous send has been received by the
// stub, but it may not have recorded it yet: stop the stub (it records before it can observe the
// stop request), take, restart.
func (f *Fixture) TakeStubSettled() []string {
	was := f.stubOn
	if was {
		f.StubOff()
		// chCursorPos is buffered since the F12 repair: the answer may still be in the channel
		// when the stub is stopped; the always-waiting requester it plays would have taken it
		cp, _, _, _, _, _ := f.Vx.VerifC03Chans()
		select {
		case p := <-cp:
			f.stubMu.Lock()
			f.stubGot = append(f.stubGot, fmt.Sprintf("cp:%d:%d", p[0], p[1]))
			f.stubMu.Unlock()
		default:
		}
	}
	out := f.TakeStub()
	if was {
		f.StubOn()
	}
	return out
}

func (f *Fixture) TakeStub() []string {
	f.stubMu.Lock()
	defer f.stubMu.Unlock()
	out := f.stubGot
	f.stubGot = nil
	return out
}

var chanNames = []string{"chSizeDone", "chColor", "chFg", "chBg"}

// tryTake receives one value from the i-th capacity-1 channel without blocking.
func (f *Fixture) tryTake(i int) (string, bool) {
	_, sd, col, fg, bg, _ := f.Vx.VerifC03Chans()
	switch i {
	case 0:
		select {
		case <-sd:
			return "sd", true
		default:
		}
	case 1:
		select {
		case s := <-col:
			return "col:" + Cps([]rune(s)), true
		default:
		}
	case 2:
		select {
		case s := <-fg:
			return "fg:" + Cps([]rune(s)), true
		default:
		}
	case 3:
		select {
		case s := <-bg:
			return "bg:" + Cps([]rune(s)), true
		default:
		}
	}
	return "", false
}

// Drain empties the capacity-1 reply channels and reports what they held.
func (f *Fixture) Drain() []string {
	var out []string
	if !f.stubOn {
		cp, _, _, _, _, _ := f.Vx.VerifC03Chans()
		select {
		case p := <-cp:
			out = append(out, fmt.Sprintf("cp:%d:%d", p[0], p[1]))
		default:
		}
	}
	for i := 0; i < 4; i++ {
		if v, ok := f.tryTake(i); ok {
			out = append(out, v)
		}
	}
	return out
}

// Quiesce injects a sentinel (CAN + U+E000) and reads the queue until the sentinel's key event
// has come out, so that nothing from start-up is still in flight (fixtures without a collector).
func (f *Fixture) Quiesce(d time.Duration) bool {
	f.Fc.InjectString("\x18\uE000")
	q := f.Vx.Events()
	t := time.After(d)
	for {
		select {
		case ev := <-q:
			if strings.HasPrefix(CanonEvent(ev), "K/57344.") {
				return true
			}
		case <-t:
			return false
		}
	}
}

// DrainQueue reads everything currently in the event queue (fixtures without a collector).
func (f *Fixture) DrainQueue() []string {
	var out []string
	q := f.Vx.Events()
	for {
		select {
		case ev := <-q:
			out = append(out, CanonEvent(ev))
		default:
			return out
		}
	}
}

// Direct calls the real handleSequence on a helper goroutine, with panic recovery and block
// detection: if the call has not returned after `patience` and one of the capacity-1 channels is
// full, that channel is emptied; if the call then returns, it was blocked on that channel.
// Result: outcome ("ok" | "panic" | "blk:<chan>" | "hang"), events posted, values seen by the stubs.
func (f *Fixture) Direct(seq ansi.Sequence, patience time.Duration) (outcome string, evs, snd []string, panicMsg string) {
	done := make(chan string, 1)
	go func() {
		defer func() {
			if e := recover(); e != nil {
				panicMsg = fmt.Sprint(e)
				done <- "panic"
			}
		}()
		f.Vx.VerifC03HandleSequence(seq)
		done <- "ok"
	}()
	outcome = ""
	select {
	case outcome = <-done:
	case <-time.After(patience):
		// blocked somewhere?
		for i := 0; i < 4 && outcome == ""; i++ {
			v, ok := f.tryTake(i)
			if !ok {
				continue
			}
			select {
			case o := <-done:
				if o == "ok" {
					outcome = "blk:" + chanNames[i]
					snd = append(snd, "released:"+v)
				} else {
					outcome = o
				}
			case <-time.After(4 * patience):
				// not the culprit: nothing we can put back safely if someone else filled it; try
				_, sd, col, fg, bg, _ := f.Vx.VerifC03Chans()
				switch i {
				case 0:
					select {
					case sd <- true:
					default:
					}
				case 1:
					select {
					case col <- string(ParseCps(strings.TrimPrefix(v, "col:"))):
					default:
					}
				case 2:
					select {
					case fg <- string(ParseCps(strings.TrimPrefix(v, "fg:"))):
					default:
					}
				case 3:
					select {
					case bg <- string(ParseCps(strings.TrimPrefix(v, "bg:"))):
					default:
					}
				}
			}
		}
		if outcome == "" && !f.stubOn {
			// blocked on the unbuffered chCursorPos with no requester waiting?
			cp, _, _, _, _, _ := f.Vx.VerifC03Chans()
			select {
			case p := <-cp:
				select {
				case o := <-done:
					if o == "ok" {
						outcome = "blk:chCursorPos"
						snd = append(snd, fmt.Sprintf("released:cp:%d:%d", p[0], p[1]))
					} else {
						outcome = o
					}
				case <-time.After(4 * patience):
				}
			default:
			}
		}
		if outcome == "" {
			select {
			case outcome = <-done:
			case <-time.After(20 * patience):
				outcome = "hang"
			}
		}
	}
	evs = f.DrainQueue()
	// the stub goroutine appends after its receive completes; give it a moment if something is expected
	snd = append(snd, f.TakeStubSettled()...)
	return
}

// Close closes the Vaxis with a watchdog; returns false if Close did not return in time.
func (f *Fixture) Close(d time.Duration) bool {
	ok := make(chan struct{})
	go func() {
		defer func() { recover() }()
		f.Vx.Close()
		close(ok)
	}()
	select {
	case <-ok:
	case <-time.After(d):
		f.StubOff()
		f.StopCollect()
		return false
	}
	f.StubOff()
	f.StopCollect()
	return true
}

// RefParse runs a fresh real ansi.Parser over the bytes and returns the parsed sequences (copied).
func RefParse(data []byte) []ansi.Sequence {
	p := ansi.NewParser(bytes.NewReader(data))
	var out []ansi.Sequence
	for seq := range p.Next() {
		switch s := seq.(type) {
		case ansi.EOF:
			continue
		case ansi.CSI:
			c := ansi.CSI{Final: s.Final}
			if s.Intermediate != nil {
				c.Intermediate = append([]rune(nil), s.Intermediate...)
			}
			for _, pp := range s.Parameters {
				c.Parameters = append(c.Parameters, append([]int{}, pp...))
			}
			out = append(out, c)
		case ansi.ESC:
			out = append(out, ansi.ESC{Final: s.Final, Intermediate: append([]rune(nil), s.Intermediate...)})
		case ansi.DCS:
			out = append(out, ansi.DCS{Final: s.Final, Intermediate: append([]rune(nil), s.Intermediate...),
				Parameters: append([]int(nil), s.Parameters...), Data: append([]rune(nil), s.Data...)})
		case ansi.OSC:
			out = append(out, ansi.OSC{Payload: append([]rune(nil), s.Payload...)})
		default:
			out = append(out, seq)
		}
	}
	p.WaitClose()
	return out
}

// Join renders a list for the protocol ("-" when empty).
func Join(xs []string) string {
	if len(xs) == 0 {
		return "-"
	}
	return strings.Join(xs, "|")
}
