package main

// C03 harness: every terminal report becomes the right event; the input loop survives any input.
//
// Two kinds of cases on a real Vaxis over the fake console:
//
//  d… "direct":  handleSequence is called through VerifC03HandleSequence, one parsed sequence per
//      op line, under recover and with block detection; result = outcome, events posted, values
//      received by the requester stubs, state snapshot.  Includes sequences the parser cannot
//      produce (empty parameter lists) to pin down the panic behaviour of the checked accesses.
//  s… "stream":  bytes are injected into the fake console; the real parser goroutine and the real
//      input goroutine process them; a sentinel (CAN + U+E000) is appended and must come out of
//      Events() (liveness).  The sequences the model is given are those a second, fresh real
//      ansi.Parser yields on the same bytes.  Every sequence is first run through the direct hook
//      on a scratch Vaxis: a panic there is reported as `panic` without killing the process (the
//      input goroutine re-panics after Close).
import (
	"encoding/hex"
	"encoding/json"
	"fmt"
	"os"
	"strconv"
	"strings"
	"time"

	"git.sr.ht/~rockorager/vaxis/ansi"
	"verifharness/cmd/C03/inp"
	"verifharness/gen"
	"verifharness/hx"
)

func main() {
	os.Setenv("VAXIS_FORCE_XTWINOPS", "1")
	for _, e := range []string{"COLORTERM", "VAXIS_FORCE_LEGACY_SGR", "VAXIS_FORCE_WCWIDTH", "VAXIS_FORCE_UNICODE", "VAXIS_FORCE_NOZWJ", "VAXIS_DISABLE_NOZWJ", "VAXIS_GRAPHICS", "VAXIS_LOG_LEVEL"} {
		os.Unsetenv(e)
	}
	hx.Main("C03", run)
}

const patience = 30 * time.Millisecond

var sentinel = "\x18"

// the sentinel key (event type 0, or 4 when the stream ended inside a paste)
const sentinelEv = "K/57344.0.0.0.57344/"

type H struct {
	r   *hx.Run
	rng *gen.Rng
	// forced schedules of the race cases that could / could not be forced (yield point reached in time)
	raceForced, raceUnforced int
}

func run(r *hx.Run) error {
	h := &H{r: r, rng: gen.New(r.Seed)}
	if r.Replay != "" {
		return h.replay()
	}
	for _, ops := range hx.Corpus("C03") {
		h.runOps(ops)
		r.Count("corpus")
	}
	h.fixed()
	nd, ns := 700, 1200
	if r.Thorough {
		nd, ns = 6000, 15000
	}
	for i := 0; i < nd; i++ {
		h.genDirect(i)
	}
	for i := 0; i < ns; i++ {
		h.genStream(i)
	}
	nq := 70
	if r.Thorough {
		nq = 400
	}
	for i := 0; i < nq; i++ {
		h.genQuery(i)
	}
	nr := 20
	if r.Thorough {
		nr = 120
	}
	for i := 0; i < nr; i++ {
		h.genRace(i)
	}
	if h.raceForced == 0 && h.raceUnforced > 0 {
		// not one schedule could be forced: the yield point is gone (or the machine is unusable)
		r.Case("race-yield")
		r.Emit("raceyield never-reached", "never-reached")
	}
	ncq := 80
	if r.Thorough {
		ncq = 1500
	}
	for i := 0; i < ncq; i++ {
		h.genCq(i)
	}
	nsu := 12
	if r.Thorough {
		nsu = 100
	}
	for i := 0; i < nsu; i++ {
		h.genSuspend(i)
	}
	return nil
}

// ---------- direct cases ----------

type dop struct {
	kind string // seq | setreq | drain | stub
	seq  ansi.Sequence
	arg  string
}

func (h *H) directCase(id string, mask uint32, ops []dop) { h.directCaseProbe(id, mask, "std", ops) }

// directCaseProbe: probe = how the terminal answers the explicit-width probe of start-up (std | silent | col7).
func (h *H) directCaseProbe(id string, mask uint32, probe string, ops []dop) {
	r := h.r
	f, err := inp.NewFixtureProbe(mask, 0, false, probe)
	if err != nil {
		r.Case(id)
		r.Emit(fmt.Sprintf("init mask=%d new-failed", mask), "error")
		return
	}
	if !f.Quiesce(3 * time.Second) {
		r.Case(id)
		r.Emit(fmt.Sprintf("init mask=%d start-up-wedged", mask), "error")
		return
	}
	f.StubOn()
	r.Case(id)
	if probe == "std" {
		r.Emit(fmt.Sprintf("init mask=%d %s", mask, inp.CanonState(f.Vx.VerifC03Snapshot())), "-")
	} else {
		r.Emit(fmt.Sprintf("init mask=%d probe=%s %s", mask, probe, inp.CanonState(f.Vx.VerifC03Snapshot())), "-")
		r.Count("probe-" + probe)
	}
	for _, op := range ops {
		switch op.kind {
		case "seq":
			out, evs, snd, msg := f.Direct(op.seq, patience)
			if out == "panic" {
				r.Count("panic:" + trunc(msg))
			} else if out != "ok" {
				r.Count(out)
			}
			r.Emit("seq "+inp.EncSeq(op.seq), fmt.Sprintf("%s ev=%s snd=%s %s", out, inp.Join(evs), inp.Join(snd), inp.CanonState(f.Vx.VerifC03Snapshot())))
			if out == "hang" {
				// the goroutine is stuck for good; abandon the fixture
				r.Count("abandoned-fixture")
				return
			}
			if out == "panic" {
				// a panic may have left vx.mu locked (the `t` arm indexes under the lock): abandon
				go f.Close(2 * time.Second)
				return
			}
		case "setreq":
			f.Vx.VerifC03SetReqCursorPos(op.arg == "1")
			r.Emit("setreq "+op.arg, inp.CanonState(f.Vx.VerifC03Snapshot()))
		case "drain":
			d := f.Drain()
			r.Emit("drain", fmt.Sprintf("%s %s", inp.Join(d), inp.CanonState(f.Vx.VerifC03Snapshot())))
		case "stub":
			if op.arg == "1" {
				f.StubOn()
			} else {
				f.StubOff()
			}
			r.Emit("stub "+op.arg, "-")
		}
	}
	f.StubOn() // so that nothing stays blocked at Close
	f.Drain()
	if !f.Close(5 * time.Second) {
		r.Count("close-hang")
	}
}

func trunc(s string) string {
	if len(s) > 60 {
		return s[:60]
	}
	return s
}

// ---------- stream cases ----------

type report struct {
	enc   string // spec-level description for the oracle
	bytes string
}

func (h *H) streamCase(id string, mask uint32, queue int, reports []report, wf bool, data string) {
	r := h.r
	all := data + sentinel
	seqs := inp.RefParse([]byte(all))
	// pre-screen on a scratch Vaxis through the direct hook
	pre, err := inp.NewFixture(mask, 0, false)
	if err != nil {
		r.Case(id)
		r.Emit(fmt.Sprintf("init mask=%d new-failed", mask), "error")
		return
	}
	pre.Quiesce(3 * time.Second)
	pre.StubOn()
	init0 := inp.CanonState(pre.Vx.VerifC03Snapshot())
	preOutcome := ""
	for _, s := range seqs {
		out, _, _, msg := pre.Direct(s, patience)
		if out == "panic" {
			preOutcome = "panic"
			r.Count("panic:" + trunc(msg))
			break
		}
		if out == "hang" {
			preOutcome = "hang"
			break
		}
	}
	if preOutcome == "" {
		pre.Drain()
		pre.Close(5 * time.Second)
	} else {
		go pre.Close(2 * time.Second)
	}

	r.Case(id)
	emitBody := func(init string) {
		r.Emit(fmt.Sprintf("init mask=%d queue=%d %s", mask, queue, init), "-")
		wfs := "0"
		if wf {
			wfs = "1"
		}
		r.Emit(fmt.Sprintf("stream wf=%s queue=%d bytes=%s", wfs, queue, hex.EncodeToString([]byte(data))), "-")
		for _, rp := range reports {
			r.Emit("report "+rp.enc, "-")
		}
		for _, s := range seqs {
			r.Emit("sseq "+inp.EncSeq(s), "-")
		}
	}
	if preOutcome != "" {
		emitBody(init0)
		r.Emit("end", preOutcome+" ev=- "+init0)
		r.Count("stream-" + preOutcome)
		return
	}
	f, err := inp.NewFixture(mask, queue, true)
	if err != nil {
		emitBody(init0)
		r.Emit("end", "error")
		return
	}
	// flush start-up leftovers with a first sentinel
	f.Fc.InjectString(sentinel)
	if !f.WaitEvent(sentinelEv, 3*time.Second) {
		emitBody(init0)
		r.Emit("end", "wedged-at-start ev=- "+init0)
		f.Close(2 * time.Second)
		return
	}
	f.TakeEvents()
	f.StubOn()
	emitBody(inp.CanonState(f.Vx.VerifC03Snapshot()))
	f.Fc.InjectString(all)
	outcome := "alive"
	if !f.WaitEvent(sentinelEv, 1000*time.Millisecond) {
		outcome = "wedged"
		// which channel? empty them one at a time and see whether the sentinel arrives
		for i := 0; i < 4; i++ {
			d := f.Drain()
			if len(d) == 0 {
				break
			}
			if f.WaitEvent(sentinelEv, 300*time.Millisecond) {
				outcome = "wedged:" + strings.SplitN(d[0], ":", 2)[0]
				break
			}
		}
		r.Count("stream-" + outcome)
	}
	evs := f.TakeEvents()
	// drop the sentinel's two events (C0 CAN, Print U+E000) from the tail when alive
	st := inp.CanonState(f.Vx.VerifC03Snapshot())
	r.Emit("end", fmt.Sprintf("%s ev=%s snd=%s %s", outcome, inp.Join(evs), inp.Join(f.TakeStubSettled()), st))
	f.Drain()
	if !f.Close(5 * time.Second) {
		r.Count("close-hang")
	}
}

// ---------- replay / corpus ----------

func (h *H) replay() error {
	b, err := os.ReadFile(h.r.Replay)
	if err != nil {
		return err
	}
	var rp struct {
		Ops []string `json:"ops"`
	}
	var ops []string
	if json.Unmarshal(b, &rp) == nil && len(rp.Ops) > 0 {
		for _, o := range rp.Ops {
			ops = append(ops, strings.SplitN(o, "\t", 2)[0])
		}
	} else {
		for _, l := range strings.Split(string(b), "\n") {
			l = strings.SplitN(l, "\t", 2)[0]
			if l != "" {
				ops = append(ops, l)
			}
		}
	}
	h.runOps(ops)
	return nil
}

// runOps re-runs one case given its op lines (as emitted).
func (h *H) runOps(ops []string) {
	var mask uint32
	probe := "std"
	var dops []dop
	stream := false
	var data string
	queue := 0
	wf := false
	var reports []report
	var qops []qop
	var rops []raceOp
	var cops []cqOp
	id := "replay"
	for _, op := range ops {
		f := strings.Fields(op)
		if len(f) == 0 {
			continue
		}
		switch f[0] {
		case "#case":
			if len(f) > 1 {
				id = f[1]
			}
		case "init":
			for _, x := range f[1:] {
				if strings.HasPrefix(x, "mask=") {
					m, _ := strconv.ParseUint(x[5:], 10, 32)
					mask = uint32(m)
				}
				if strings.HasPrefix(x, "probe=") {
					probe = x[6:]
				}
			}
		case "stream":
			stream = true
			for _, x := range f[1:] {
				switch {
				case strings.HasPrefix(x, "bytes="):
					b, _ := hex.DecodeString(x[6:])
					data = string(b)
				case strings.HasPrefix(x, "queue="):
					queue, _ = strconv.Atoi(x[6:])
				case x == "wf=1":
					wf = true
				}
			}
		case "report":
			reports = append(reports, report{enc: strings.TrimPrefix(op, "report ")})
		case "seq":
			if s, ok := inp.DecSeq(f[1:]); ok {
				dops = append(dops, dop{kind: "seq", seq: s})
			}
		case "setreq", "stub":
			if len(f) > 1 {
				dops = append(dops, dop{kind: f[0], arg: f[1]})
			}
		case "drain":
			dops = append(dops, dop{kind: "drain"})
		case "query":
			if q, ok := parseQop(f); ok {
				qops = append(qops, q)
			}
		case "race":
			if q, ok := parseRaceOp(f); ok {
				rops = append(rops, q)
			}
		case "cquery":
			if q, ok := parseCqOp(f); ok {
				cops = append(cops, q)
			}
		case "suspend":
			var m, q, a, b int
			for _, x := range f[1:] {
				switch {
				case strings.HasPrefix(x, "mask="):
					m, _ = strconv.Atoi(x[5:])
				case strings.HasPrefix(x, "q="):
					q, _ = strconv.Atoi(x[2:])
				case strings.HasPrefix(x, "n1="):
					a, _ = strconv.Atoi(x[3:])
				case strings.HasPrefix(x, "n2="):
					b, _ = strconv.Atoi(x[3:])
				}
			}
			h.suspendCase(id, uint32(m), q, a, b)
			return
		}
	}
	if len(qops) > 0 {
		h.queryCase(id, mask, qops)
		return
	}
	if len(rops) > 0 {
		h.raceCase(id, mask, rops)
		return
	}
	if len(cops) > 0 {
		h.cqCase(id, mask, cops)
		return
	}
	if stream {
		h.streamCase(id, mask, queue, reports, wf, data)
	} else {
		h.directCaseProbe(id, mask, probe, dops)
	}
}
