package main

// Solicited replies: the real requester APIs (CursorPosition, reportWinsize, ClipboardPop) against a
// console that answers (or stays silent); the model's prediction is a run of the InputLoop LTS
// (requester call, the reply as input, the hand-off).
import (
	"context"
	"encoding/base64"
	"fmt"
	"strconv"
	"strings"
	"time"

	"git.sr.ht/~rockorager/vaxis/ansi"
	"verifharness/cmd/C03/inp"
	"verifharness/fakeconsole"
)

type qop struct {
	kind string // cursor | size | clip | key (a `CSI r;c R` key report typed with no query outstanding)
	a    []int
	text string
	mode string // reply | silent
}

func (q qop) enc() string {
	switch q.kind {
	case "key":
		return "query key " + inp.EncSeq(keySeq(q))
	case "cursor":
		return fmt.Sprintf("query cursor %d %d %s", q.a[0], q.a[1], q.mode)
	case "size":
		return fmt.Sprintf("query size %d %d %d %d %s", q.a[0], q.a[1], q.a[2], q.a[3], q.mode)
	default:
		pl := "52;c;" + base64.StdEncoding.EncodeToString([]byte(q.text))
		return fmt.Sprintf("query clip %s %s", q.mode, inp.EncSeq(ansi.OSC{Payload: []rune(pl)}))
	}
}

// keySeq: the sequence of a `CSI r;c R` report (F3 with modifiers shares the final byte of CPR).
func keySeq(q qop) ansi.Sequence {
	return ansi.CSI{Parameters: [][]int{{q.a[0]}, {q.a[1]}}, Final: 'R'}
}

func guardStr(d time.Duration, f func() string) string {
	done := make(chan string, 1)
	go func() {
		defer func() {
			if e := recover(); e != nil {
				done <- "panic"
			}
		}()
		done <- f()
	}()
	select {
	case s := <-done:
		return s
	case <-time.After(d):
		return "hang"
	}
}

func (h *H) queryCase(id string, mask uint32, ops []qop) {
	r := h.r
	f, err := inp.NewFixture(mask, 0, true)
	if err != nil {
		r.Case(id)
		r.Emit(fmt.Sprintf("init mask=%d new-failed", mask), "error")
		return
	}
	f.Fc.InjectString(sentinel)
	f.WaitEvent(sentinelEv, 3*time.Second)
	f.TakeEvents()
	r.Case(id)
	r.Emit(fmt.Sprintf("init mask=%d %s", mask, inp.CanonState(f.Vx.VerifC03Snapshot())), "-")
	for _, q := range ops {
		q := q
		f.Fc.Respond = func(c *fakeconsole.Console, written []byte) []byte {
			if q.mode != "reply" {
				return nil
			}
			w := string(written)
			switch {
			case q.kind == "cursor" && strings.Contains(w, "\x1b[6n"):
				return []byte(fmt.Sprintf("\x1b[%d;%dR", q.a[0], q.a[1]))
			case q.kind == "size" && strings.Contains(w, "\x1b[18t"):
				return []byte(fmt.Sprintf("\x1b[4;%d;%dt\x1b[8;%d;%dt", q.a[2], q.a[3], q.a[0], q.a[1]))
			case q.kind == "clip" && strings.Contains(w, "\x1b]52;c;?"):
				return []byte("\x1b]52;c;" + base64.StdEncoding.EncodeToString([]byte(q.text)) + "\x1b\\")
			}
			return nil
		}
		var res string
		if q.kind == "key" {
			// no query is outstanding (every earlier one has returned): the report is user input
			// and must come out as exactly one key event
			f.TakeEvents()
			f.Fc.InjectString(fmt.Sprintf("\x1b[%d;%dR", q.a[0], q.a[1]) + sentinel)
			alive := f.WaitEvent(sentinelEv, time.Second)
			evs := f.TakeEvents()
			if alive && len(evs) >= 2 {
				evs = evs[:len(evs)-2] // the sentinel's CAN and U+E000 keys
			}
			res = "ev=" + inp.Join(evs)
			if !alive {
				res += " wedged"
				f.Drain()
			}
			r.Emit(q.enc(), res+" "+inp.CanonState(f.Vx.VerifC03Snapshot()))
			r.Count("query-key")
			continue
		}
		switch q.kind {
		case "cursor":
			res = guardStr(2*time.Second, func() string {
				row, col := f.Vx.CursorPosition()
				return fmt.Sprintf("%d,%d", row, col)
			})
		case "size":
			res = guardStr(2*time.Second, func() string {
				ws, err := f.Vx.VerifC03ReportWinsize()
				if err != nil {
					return "err"
				}
				return fmt.Sprintf("%d,%d,%d,%d", ws.Cols, ws.Rows, ws.XPixel, ws.YPixel)
			})
		case "clip":
			if q.mode == "early" {
				res = h.clipEarly(f, q.text)
				break
			}
			res = guardStr(2*time.Second, func() string {
				ctx, cancel := context.WithTimeout(context.Background(), 60*time.Millisecond)
				defer cancel()
				s, err := f.Vx.ClipboardPop(ctx)
				if err != nil {
					return "err"
				}
				rs := make([]rune, len(s))
				for i := 0; i < len(s); i++ {
					rs[i] = rune(s[i])
				}
				return "=" + inp.Cps(rs)
			})
		}
		// the loop must still be alive afterwards
		f.Fc.InjectString(sentinel)
		alive := f.WaitEvent(sentinelEv, time.Second)
		f.TakeEvents()
		st := inp.CanonState(f.Vx.VerifC03Snapshot())
		if !alive {
			res += " wedged"
			f.Drain()
		}
		r.Emit(q.enc(), res+" "+st)
		r.Count("query-" + q.kind + "-" + q.mode)
	}
	f.Fc.Respond = nil
	f.Drain()
	if !f.Close(5 * time.Second) {
		r.Count("close-hang")
	}
}

// clipEarly forces the schedule "the clipboard reply is parsed before ClipboardPop has reached its
// select" (seeded change C03-m7): the reply is put on the wire first, the requester is called once the
// parser has taken the bytes (plus a pause well inside the 10 ms the hand-off waits for a requester).
// An attempt in which more than 6 ms passed before the call is not a valid instance of the schedule
// and is repeated (up to 5 times); time values only bound the attempt, the verdict is taken from a
// valid attempt: the reply must reach the requester.
func (h *H) clipEarly(f *inp.Fixture, text string) string {
	reply := "\x1b]52;c;" + base64.StdEncoding.EncodeToString([]byte(text)) + "\x1b\\"
	pop := func() string {
		return guardStr(2*time.Second, func() string {
			ctx, cancel := context.WithTimeout(context.Background(), 60*time.Millisecond)
			defer cancel()
			s, err := f.Vx.ClipboardPop(ctx)
			if err != nil {
				return "err"
			}
			rs := make([]rune, len(s))
			for i := 0; i < len(s); i++ {
				rs[i] = rune(s[i])
			}
			return "=" + inp.Cps(rs)
		})
	}
	for attempt := 0; attempt < 5; attempt++ {
		t0 := time.Now()
		f.Fc.InjectString(reply)
		for k := 0; k < 2000 && f.Fc.Pending() > 0; k++ {
			time.Sleep(50 * time.Microsecond)
		}
		time.Sleep(1500 * time.Microsecond)
		if time.Since(t0) > 6*time.Millisecond {
			// not an instance of the schedule (the hand-off's window may be over): let the reply expire, retry
			h.r.Count("clip-early-retry")
			time.Sleep(15 * time.Millisecond)
			continue
		}
		h.r.Count("clip-early-forced")
		return pop()
	}
	return "not-forced"
}

func (h *H) genQuery(i int) {
	rng := h.rng.Fork(uint64(i) + 5000000)
	// size queries need both size capabilities and no in-band resize
	mask := h.mask(rng)
	sizeOK := rng.Bool()
	if sizeOK {
		mask = (mask | 1<<12 | 1<<13) &^ (1 << 14)
	}
	var ops []qop
	for j := rng.Range(1, 5); j > 0; j-- {
		mode := "reply"
		if rng.Chance(1, 4) {
			mode = "silent"
		}
		switch rng.Intn(3) {
		case 0:
			ops = append(ops, qop{kind: "cursor", a: []int{rng.Range(0, 300), rng.Range(0, 500)}, mode: mode})
			// a Shift+F3-style key report (or a late answer) after the query has returned
			if rng.Chance(2, 3) {
				ops = append(ops, qop{kind: "key", a: []int{rng.Range(1, 3), rng.Range(1, 9)}})
			}
		case 1:
			if sizeOK {
				ops = append(ops, qop{kind: "size", a: []int{rng.Range(1, 300), rng.Range(1, 500), rng.Range(0, 3000), rng.Range(0, 5000)}, mode: mode})
			}
		default:
			txt := []string{"hello", "", "世界", "a", "x y\n"}[rng.Intn(5)]
			if rng.Chance(1, 3) {
				mode = "early"
			}
			ops = append(ops, qop{kind: "clip", text: txt, mode: mode})
		}
	}
	if len(ops) > 0 {
		h.queryCase(fmt.Sprintf("q%d", i), mask, ops)
	}
}

func parseQop(f []string) (qop, bool) {
	atoi := func(s string) int { n, _ := strconv.Atoi(s); return n }
	if len(f) < 2 {
		return qop{}, false
	}
	switch f[1] {
	case "key":
		// query key csi - r;c 82 k tok et
		if len(f) >= 5 {
			ps := strings.Split(f[4], ";")
			if len(ps) == 2 {
				return qop{kind: "key", a: []int{atoi(ps[0]), atoi(ps[1])}}, true
			}
		}
	case "cursor":
		if len(f) >= 5 {
			return qop{kind: "cursor", a: []int{atoi(f[2]), atoi(f[3])}, mode: f[4]}, true
		}
	case "size":
		if len(f) >= 7 {
			return qop{kind: "size", a: []int{atoi(f[2]), atoi(f[3]), atoi(f[4]), atoi(f[5])}, mode: f[6]}, true
		}
	case "clip":
		if len(f) >= 5 {
			// query clip <mode> osc <payload cps> <b64>
			pl := string(inp.ParseCps(f[4]))
			parts := strings.Split(pl, ";")
			txt := ""
			if len(parts) == 3 {
				b, _ := base64.StdEncoding.DecodeString(parts[2])
				txt = string(b)
			}
			return qop{kind: "clip", text: txt, mode: f[2]}, true
		}
	}
	return qop{}, false
}
