package main

// The cursor-position hand-off raced against CursorPosition's 50 ms time-out, replayed end to end
// on the real code through the yield point verifC03 ("cpr.flag-taken": handleSequence has found
// the request flag raised and withdrawn it, and has not yet handed the answer over).
//
//	race order=reply-first   r c r2 c2   the goroutine is not held: the answer arrives in time
//	race order=timeout-first r c r2 c2   F12: held until CursorPosition has timed out, then released;
//	                                     a second query (answer r2;c2) follows
//	race order=recall        r c r2 c2   held until the first call has timed out AND a second call has
//	                                     raised the flag again; then released (F103: with a separate
//	                                     load and store the release withdrew the second request, whose
//	                                     answer then came out as a key press)
//
// result: res1=<row,col> res2=<row,col> ev=<events> <alive|wedged> <state>
import (
	"fmt"
	"strconv"
	"strings"
	"sync"
	"time"

	vaxis "git.sr.ht/~rockorager/vaxis"
	"git.sr.ht/~rockorager/vaxis/ansi"
	"verifharness/cmd/C03/inp"
	"verifharness/fakeconsole"
)

type raceOp struct {
	order        string
	r, c, r2, c2 int
}

func (q raceOp) enc() string {
	// the key token of the second report, should it come out as a key press
	k := inp.EncSeq(ansi.CSI{Parameters: [][]int{{q.r2}, {q.c2}}, Final: 'R'})
	return fmt.Sprintf("race order=%s %d %d %d %d %s", q.order, q.r, q.c, q.r2, q.c2, k)
}

// the CAN half of the sentinel as a canonical event
var canEv = inp.CanonEvent(vaxis.VerifC03DecodeKey(ansi.C0(0x18)))

var (
	yieldMu   sync.Mutex
	yieldHold = map[*vaxis.Vaxis]*holder{}
	yieldOnce sync.Once
)

type holder struct {
	armed   bool
	at      chan struct{}
	release chan struct{}
}

func installYield() {
	yieldOnce.Do(func() {
		vaxis.VerifC03Yield = func(vx *vaxis.Vaxis, point string) {
			if !strings.HasPrefix(point, "cpr.") {
				return
			}
			yieldMu.Lock()
			h := yieldHold[vx]
			hold := h != nil && h.armed
			if hold {
				h.armed = false
			}
			yieldMu.Unlock()
			if hold {
				h.at <- struct{}{}
				<-h.release
			}
		}
	})
}

func (h *H) raceCase(id string, mask uint32, ops []raceOp) {
	r := h.r
	installYield()
	f, err := inp.NewFixture(mask, 0, true)
	if err != nil {
		r.Case(id)
		r.Emit(fmt.Sprintf("init mask=%d new-failed", mask), "error")
		return
	}
	f.Fc.InjectString(sentinel)
	f.WaitEvent(sentinelEv, 3*time.Second)
	f.TakeEvents()
	r.Case(id)
	r.Emit(fmt.Sprintf("init mask=%d %s", mask, inp.CanonState(f.Vx.VerifC03Snapshot())), "-")
	hd := &holder{at: make(chan struct{}, 1), release: make(chan struct{}, 1)}
	yieldMu.Lock()
	yieldHold[f.Vx] = hd
	yieldMu.Unlock()
	defer func() {
		yieldMu.Lock()
		delete(yieldHold, f.Vx)
		yieldMu.Unlock()
	}()
	for _, q := range ops {
		q := q
		var nq int
		var qmu sync.Mutex
		f.Fc.Respond = func(c *fakeconsole.Console, written []byte) []byte {
			if !strings.Contains(string(written), "\x1b[6n") {
				return nil
			}
			qmu.Lock()
			nq++
			n := nq
			qmu.Unlock()
			if n == 1 {
				return []byte(fmt.Sprintf("\x1b[%d;%dR", q.r, q.c))
			}
			return []byte(fmt.Sprintf("\x1b[%d;%dR", q.r2, q.c2))
		}
		call := func() string {
			return guardStr(2*time.Second, func() string {
				row, col := f.Vx.CursorPosition()
				return fmt.Sprintf("%d,%d", row, col)
			})
		}
		f.TakeEvents()
		var res1, res2 string
		var early []string
		switch q.order {
		case "reply-first":
			res1 = call()
			res2 = call()
		case "timeout-first":
			yieldMu.Lock()
			hd.armed = true
			yieldMu.Unlock()
			res1 = call() // the goroutine is held at the yield point: the 50 ms timer fires
			select {
			case <-hd.at:
			case <-time.After(time.Second):
				res1 += "(not-held)"
			}
			hd.release <- struct{}{}
			// the hand-off must not block: a sentinel comes through
			f.Fc.InjectString(sentinel)
			if !f.WaitEvent(sentinelEv, time.Second) {
				res1 += "(blocked-after-release)"
			}
			early = append(early, f.TakeEvents()...) // so that the final wait sees its own sentinel only
			res2 = call()
		case "recall":
			yieldMu.Lock()
			hd.armed = true
			yieldMu.Unlock()
			res1 = call()
			select {
			case <-hd.at:
			case <-time.After(time.Second):
				res1 += "(not-held)"
			}
			done := make(chan string, 1)
			go func() { done <- call() }()
			// wait until the second call has raised the flag and written its query
			deadline := time.Now().Add(time.Second)
			for {
				qmu.Lock()
				n := nq
				qmu.Unlock()
				if n >= 2 || time.Now().After(deadline) {
					break
				}
				time.Sleep(50 * time.Microsecond)
			}
			hd.release <- struct{}{}
			res2 = <-done
		}
		f.Fc.InjectString(sentinel)
		alive := f.WaitEvent(sentinelEv, time.Second)
		evs := append(early, f.TakeEvents()...)
		// drop the sentinels' events
		var kept []string
		for _, e := range evs {
			if strings.HasPrefix(e, sentinelEv) || strings.HasPrefix(e, canEv) {
				continue
			}
			kept = append(kept, e)
		}
		out := "alive"
		if !alive {
			out = "wedged"
			f.Drain()
		}
		r.Emit(q.enc(), fmt.Sprintf("res1=%s res2=%s ev=%s %s %s", res1, res2, inp.Join(kept), out, inp.CanonState(f.Vx.VerifC03Snapshot())))
		r.Count("race-" + q.order)
		if q.order != "reply-first" {
			if strings.Contains(res1, "not-held") {
				h.raceUnforced++
			} else {
				h.raceForced++
			}
		}
		if strings.Contains(res1, "not-held") {
			// the machine was too slow to force the schedule within the watchdog: not judged, the case ends here
			r.Count("race-unforced")
			break
		}
	}
	f.Fc.Respond = nil
	f.Drain()
	if !f.Close(5 * time.Second) {
		r.Count("close-hang")
	}
}

func (h *H) genRace(i int) {
	rng := h.rng.Fork(uint64(i) + 7000000)
	mask := h.mask(rng)
	var ops []raceOp
	for j := rng.Range(1, 2); j > 0; j-- {
		order := []string{"reply-first", "timeout-first", "recall"}[rng.Intn(3)]
		ops = append(ops, raceOp{order: order, r: rng.Range(1, 200), c: rng.Range(1, 300), r2: rng.Range(1, 200), c2: rng.Range(1, 300)})
	}
	h.raceCase(fmt.Sprintf("r%d", i), mask, ops)
}

func parseRaceOp(f []string) (raceOp, bool) {
	// race order=<o> r c r2 c2 csi …
	if len(f) < 6 || !strings.HasPrefix(f[1], "order=") {
		return raceOp{}, false
	}
	atoi := func(s string) int { n, _ := strconv.Atoi(s); return n }
	return raceOp{order: f[1][6:], r: atoi(f[2]), c: atoi(f[3]), r2: atoi(f[4]), c2: atoi(f[5])}, true
}
