package main

// "suspend" cases (round 4, seeded change C03-m6): the input goroutine is blocked delivering an
// event into a full queue while more decoded sequences wait in the parser's channel; the application
// calls Suspend() and Resume() in that state and only then drains its queue.  The goroutine of the
// previous generation must finish with ITS parser and leave; input typed after Resume must come out
// exactly once and in order (it would not if the old goroutine went on reading from the new parser).
//
//	op:   suspend mask=<capabilities> q=<queue> n1=<keys before> n2=<keys after>
//	impl: forced keys=<key codes of all key events, in order of delivery> | not-forced | hang:<where> | no-sentinel keys=…
//
// Keys are private-use code points: U+E100+i before Suspend, U+E200+j after Resume.  Waiting times
// are failure time-outs only; a schedule that could not be set up is reported as `not-forced` and
// not judged.

import (
	"fmt"
	"strconv"
	"strings"
	"sync"
	"time"

	"verifharness/cmd/C03/inp"
)

func keyCodes(evs []string) []string {
	var out []string
	for _, e := range evs {
		if !strings.HasPrefix(e, "K/") {
			continue
		}
		rest := strings.TrimPrefix(e, "K/")
		if i := strings.IndexByte(rest, '.'); i > 0 {
			out = append(out, rest[:i])
		}
	}
	return out
}

func within(d time.Duration, fn func()) bool {
	done := make(chan struct{})
	go func() { fn(); close(done) }()
	select {
	case <-done:
		return true
	case <-time.After(d):
		return false
	}
}

func (h *H) genSuspend(i int) {
	rng := h.rng.Fork(uint64(i) + 7000000)
	queue := rng.Range(1, 3)
	n1 := queue + 3 + rng.Intn(4)
	n2 := 40 + rng.Intn(40)
	h.suspendCase(fmt.Sprintf("u%d", i), h.mask(rng), queue, n1, n2)
}

func (h *H) suspendCase(id string, mask uint32, queue, n1, n2 int) {
	r := h.r
	op := fmt.Sprintf("suspend mask=%d q=%d n1=%d n2=%d", mask, queue, n1, n2)
	r.Case(id)
	f, err := inp.NewFixture(mask, queue, true)
	if err != nil {
		r.Emit(op, "not-forced")
		return
	}
	f.Fc.InjectString(sentinel)
	if !f.WaitEvent(sentinelEv, 3*time.Second) {
		r.Emit(op, "not-forced")
		f.Close(2 * time.Second)
		return
	}
	f.TakeEvents()
	f.StopCollect() // from now on nobody receives: the queue fills up
	var sb strings.Builder
	for k := 0; k < n1; k++ {
		sb.WriteRune(rune(0xE100 + k))
	}
	f.Fc.InjectString(sb.String())
	q := f.Vx.Events()
	full := false
	for t := 0; t < 200; t++ {
		if len(q) == cap(q) {
			full = true
			break
		}
		time.Sleep(5 * time.Millisecond)
	}
	if !full {
		r.Emit(op, "not-forced")
		r.Count("suspend-not-forced")
		go f.Close(2 * time.Second)
		return
	}
	time.Sleep(20 * time.Millisecond) // let the goroutine reach its blocked post and the parser fill its channel
	if !within(3*time.Second, func() { _ = f.Vx.Suspend() }) {
		r.Emit(op, "hang:suspend")
		r.Count("suspend-hang")
		return
	}
	if !within(3*time.Second, func() { _ = f.Vx.Resume() }) {
		r.Emit(op, "hang:resume")
		r.Count("suspend-hang")
		return
	}
	// only now the application drains its queue
	var mu sync.Mutex
	var evs []string
	stop := make(chan struct{})
	done := make(chan struct{})
	go func() {
		defer close(done)
		for {
			select {
			case ev := <-q:
				mu.Lock()
				evs = append(evs, inp.CanonEvent(ev))
				mu.Unlock()
			case <-stop:
				return
			}
		}
	}()
	count := func() int { mu.Lock(); defer mu.Unlock(); return len(evs) }
	has := func(c string) bool {
		mu.Lock()
		defer mu.Unlock()
		for _, e := range evs {
			if strings.HasPrefix(e, c) {
				return true
			}
		}
		return false
	}
	for t := 0; t < 60 && count() < queue; t++ {
		time.Sleep(5 * time.Millisecond)
	}
	sb.Reset()
	for k := 0; k < n2; k++ {
		sb.WriteRune(rune(0xE200 + k))
	}
	f.Fc.InjectString(sb.String() + sentinel)
	got := false
	for t := 0; t < 400; t++ {
		if has(sentinelEv) {
			got = true
			break
		}
		time.Sleep(5 * time.Millisecond)
	}
	close(stop)
	<-done
	mu.Lock()
	codes := keyCodes(evs)
	mu.Unlock()
	// the sentinel's own two key events are not part of the answer
	var keep []string
	for _, c := range codes {
		if n, _ := strconv.Atoi(c); n < 0xE100 || n >= 0xE300 {
			continue
		}
		keep = append(keep, c)
	}
	res := "forced"
	if !got {
		res = "no-sentinel"
		r.Count("suspend-no-sentinel")
	}
	r.Count("suspend-forced")
	r.Emit(op, fmt.Sprintf("%s keys=%s", res, strings.Join(append([]string{}, keep...), ",")))
	go func() {
		for {
			select {
			case <-q:
			case <-time.After(200 * time.Millisecond):
				return
			}
		}
	}()
	if !f.Close(5 * time.Second) {
		r.Count("close-hang")
	}
}
