// Harness for C04: real Vaxis sessions on the fake console for capability subsets; records the
// bytes of start-up, Suspend, Resume and Close (also Close triggered by a kill signal) so that the
// Lean driver can compare them with the lifecycle model and run them through the mode terminal.
package main

import (
	"bufio"
	"bytes"
	"fmt"
	"os"
	"os/exec"
	"strings"
	"sync"
	"syscall"
	"time"

	"git.sr.ht/~rockorager/vaxis/ansi"
	"github.com/containerd/console"

	"git.sr.ht/~rockorager/vaxis"
	"verifharness/fakeconsole"
	"verifharness/gen"
	"verifharness/hx"
)

func main() {
	if len(os.Args) >= 4 && os.Args[1] == "-panicchild" {
		early := len(os.Args) >= 5 && os.Args[4] == "early"
		panicChild(os.Args[2], os.Args[3], early)
		return
	}
	if len(os.Args) >= 4 && os.Args[1] == "-sigstartchild" {
		sigStartChild(os.Args[2], os.Args[3])
		return
	}
	if len(os.Args) >= 4 && os.Args[1] == "-sigchild" {
		sigChild(os.Args[2], os.Args[3])
		return
	}
	hx.Main("C04", run)
}

// panicChild runs in a child process: a session whose input goroutine panics (an injected CSI t
// report whose parameters are empty lists makes handleSequence index out of range). The recover
// arm calls Close and re-panics, which kills this process; every write is mirrored to stdout as a
// hex line so the parent can judge what reached the terminal.
func panicChild(maskStr, dm string, early bool) {
	var mask uint32
	fmt.Sscanf(maskStr, "%d", &mask)
	caps := fakeconsole.FromMask(mask)
	fc := fakeconsole.New(12, 5, caps)
	out := bufio.NewWriter(os.Stdout)
	var mu sync.Mutex
	fc.Mirror = func(p []byte) {
		mu.Lock()
		fmt.Fprintf(out, "W %s\n", hx.Hex(string(p)))
		out.Flush()
		mu.Unlock()
	}
	vx, err := vaxis.New(vaxis.Options{WithConsole: fc, NoSignals: true, DisableMouse: dm == "1"})
	if err != nil {
		os.Exit(3)
	}
	if !startupSawReplies(vx, caps) {
		os.Exit(5) // start-up disturbed (see session): the parent starts another child
	}
	c, kf, ucs, app := vx.VerifCaps()
	env := []byte{b01(c["kittyKeyboard"]), b01(c["sixels"]), b01(c["unicodeCore"]), b01(c["explicitWidth"]), b01(c["colorThemeUpdates"]),
		b01(c["inBandResize"]), b01(c["osc176"]), b01(c["synchronizedUpdate"]), b01(c["disableMouse"])}
	mu.Lock()
	fmt.Fprintf(out, "E env %s %d %d %s %s\n", env, kf, ucs, hx.Hex(app), origVals(caps))
	out.Flush()
	mu.Unlock()
	if !early { // round 4: `early` = the panic comes right after start-up, before the application has drawn anything
		vx.SetAppID("panicapp")
		vx.Window().SetCell(1, 1, vaxis.Cell{Character: vaxis.Character{Grapheme: "x"}, Style: vaxis.Style{Attribute: vaxis.AttrBold, Hyperlink: "http://x"}})
		vx.ShowCursor(2, 2, vaxis.CursorBeam)
		vx.SetMouseShape(vaxis.MouseShapeClickable)
		vx.Render()
	}
	mu.Lock()
	fmt.Fprintf(out, "P\n") // everything after this line is written by the panic path
	out.Flush()
	mu.Unlock()
	vx.VerifInjectSequence(ansi.CSI{Final: 't', Parameters: [][]int{{}, {}, {}}})
	time.Sleep(10 * time.Second) // failure timeout only: the re-panic ends the process long before this
	os.Exit(4)                   // the input goroutine did not die: no panic happened
}

// sigChild (round 3): a Vaxis WITH its signal handlers (Options.NoSignals unset: setupSignals runs) in a
// process of its own; the parent sends a real SIGTERM.  The library must have installed its handler for
// every capability set — the process then survives the signal, the input goroutine's kill arm runs Close
// and the terminal is restored; a process that dies by the signal leaves the terminal as it was.
func sigChild(maskStr, dm string) {
	var mask uint32
	fmt.Sscanf(maskStr, "%d", &mask)
	caps := fakeconsole.FromMask(mask)
	fc := fakeconsole.New(12, 5, caps)
	out := bufio.NewWriter(os.Stdout)
	var mu sync.Mutex
	fc.Mirror = func(p []byte) {
		mu.Lock()
		fmt.Fprintf(out, "W %s\n", hx.Hex(string(p)))
		out.Flush()
		mu.Unlock()
	}
	vx, err := vaxis.New(vaxis.Options{WithConsole: fc, DisableMouse: dm == "1"})
	if err != nil {
		os.Exit(3)
	}
	if !startupSawReplies(vx, caps) {
		os.Exit(5)
	}
	c, kf, ucs, app := vx.VerifCaps()
	env := []byte{b01(c["kittyKeyboard"]), b01(c["sixels"]), b01(c["unicodeCore"]), b01(c["explicitWidth"]), b01(c["colorThemeUpdates"]),
		b01(c["inBandResize"]), b01(c["osc176"]), b01(c["synchronizedUpdate"]), b01(c["disableMouse"])}
	mu.Lock()
	fmt.Fprintf(out, "E env %s %d %d %s %s\n", env, kf, ucs, hx.Hex(app), origVals(caps))
	out.Flush()
	mu.Unlock()
	vx.Window().SetCell(1, 1, vaxis.Cell{Character: vaxis.Character{Grapheme: "x"}, Style: vaxis.Style{Attribute: vaxis.AttrBold}})
	vx.ShowCursor(2, 2, vaxis.CursorBeam)
	vx.Render()
	mu.Lock()
	fmt.Fprintf(out, "P\n") // everything after this line is written by the signal path
	out.Flush()
	mu.Unlock()
	select {
	case <-vx.VerifC03QuitChan(): // Close has run to its end on the input goroutine
		os.Exit(0)
	case <-time.After(10 * time.Second): // failure time-out: the signal was not served
		os.Exit(4)
	}
}

// sigStartChild (round 4): a Vaxis WITH its signal handlers on a terminal that never answers DA1: New has sent its
// queries and waits (up to 3 s) for the replies — raw mode is set, sendQueries has set mode 2048 blindly — and
// setupSignals, the LAST step of New, has not run yet.  The parent sends SIGTERM in that window.
func sigStartChild(maskStr, dm string) {
	var mask uint32
	fmt.Sscanf(maskStr, "%d", &mask)
	caps := fakeconsole.FromMask(mask)
	caps.NoDA1 = true
	fc := fakeconsole.New(12, 5, caps)
	out := bufio.NewWriter(os.Stdout)
	var mu sync.Mutex
	fc.Mirror = func(p []byte) {
		mu.Lock()
		fmt.Fprintf(out, "W %s\n", hx.Hex(string(p)))
		out.Flush()
		mu.Unlock()
	}
	go func() { time.Sleep(10 * time.Second); os.Exit(7) }() // failure time-out: never outlive the parent's patience
	_, err := vaxis.New(vaxis.Options{WithConsole: fc, DisableMouse: dm == "1"})
	if err != nil {
		os.Exit(3)
	}
	// New came back (after its 3 s deadline) without having been interrupted: the signal did not arrive in the
	// window.  No Close here: this terminal never answers DA1, Suspend's wake-up query would wait for ever.
	os.Exit(6)
}

// sigStartSession: see sigStartChild.  `killed`: the process died by the signal (no handler yet); what it had
// written is judged by the mode terminal.
func sigStartSession(r *hx.Run, id string, mask uint32, dm bool) error {
	cmd := exec.Command(os.Args[0], "-sigstartchild", fmt.Sprint(mask), map[bool]string{true: "1", false: "0"}[dm])
	pipe, err := cmd.StdoutPipe()
	if err != nil {
		return err
	}
	if err := cmd.Start(); err != nil {
		return err
	}
	// failure time-out only: a child that neither dies nor exits is killed so that the run goes on
	watchdog := time.AfterFunc(15*time.Second, func() { cmd.Process.Kill() })
	defer watchdog.Stop()
	sc := bufio.NewScanner(pipe)
	sc.Buffer(make([]byte, 1<<20), 1<<20)
	var written []string
	sent := false
	for sc.Scan() {
		l := sc.Text()
		if strings.HasPrefix(l, "W ") {
			h := l[2:]
			if h == "-" {
				h = ""
			}
			written = append(written, h)
			// the DA1 query is the last query sendQueries writes: New then waits for the replies
			if !sent && strings.Contains(h, hx.Hex("\x1b[=c\x1b[c")) {
				sent = true
				cmd.Process.Signal(syscall.SIGTERM)
			}
		}
	}
	err = cmd.Wait()
	killed := false
	if ee, ok := err.(*exec.ExitError); ok {
		if ws, ok := ee.Sys().(syscall.WaitStatus); ok && ws.Signaled() && ws.Signal() == syscall.SIGTERM {
			killed = true
		}
	}
	caps := fakeconsole.FromMask(mask)
	env := []byte{b01(caps.KittyKeyboard), b01(caps.Sixel), b01(caps.UnicodeCore), b01(caps.ExplicitWidth), b01(caps.ColorTheme),
		b01(caps.InBandResize), b01(caps.Osc176), b01(caps.Sync), b01(dm)}
	app := ""
	if caps.Osc176 {
		app = "fakeapp"
	}
	ucs := caps.CursorStyle
	if ucs < 0 {
		ucs = 0
	}
	r.Case(id)
	r.Emit(fmt.Sprintf("env %s 1 %d %s %s", env, ucs, hx.Hex(app), origVals(caps)), "-")
	if !killed || !sent {
		r.Emit("closeby sigstartup", "notkilled")
		r.Count("sigstartup-not-in-window")
		return nil
	}
	r.Emit("closeby sigstartup", strings.Join(written, ""))
	r.Count("sigstartup-killed")
	return nil
}

// sigProcSession: see sigChild.
func sigProcSession(r *hx.Run, id string, mask uint32, dm bool, sig syscall.Signal) error {
	var before, after []string
	env := ""
	code, killed := 0, false
	for try := 0; try < 6; try++ {
		before, after, env, killed = nil, nil, "", false
		cmd := exec.Command(os.Args[0], "-sigchild", fmt.Sprint(mask), map[bool]string{true: "1", false: "0"}[dm])
		pipe, err := cmd.StdoutPipe()
		if err != nil {
			return err
		}
		if err := cmd.Start(); err != nil {
			return err
		}
		sc := bufio.NewScanner(pipe)
		sc.Buffer(make([]byte, 1<<20), 1<<20)
		seenP := false
		for sc.Scan() {
			l := sc.Text()
			switch {
			case strings.HasPrefix(l, "E "):
				env = l[2:]
			case l == "P":
				seenP = true
				cmd.Process.Signal(sig) // the real thing, through os/signal
			case strings.HasPrefix(l, "W "):
				h := l[2:]
				if h == "-" {
					h = ""
				}
				if seenP {
					after = append(after, h)
				} else {
					before = append(before, h)
				}
			}
		}
		err = cmd.Wait()
		code = 0
		if ee, ok := err.(*exec.ExitError); ok {
			code = ee.ExitCode()
			if ws, ok := ee.Sys().(syscall.WaitStatus); ok && ws.Signaled() {
				killed = true
			}
		}
		if code != 5 {
			break
		}
		r.Count("startup-disturbed-retry")
	}
	if code == 5 || env == "" {
		r.Count("startup-disturbed-giveup")
		r.Case(id)
		r.Emit("incomplete startup", "-")
		return nil
	}
	r.Case(id)
	r.Emit(env, "-")
	j := func(l []string) string {
		s := strings.Join(l, "")
		if s == "" {
			return "-"
		}
		return s
	}
	r.Emit("bytes0", j(before))
	switch {
	case killed:
		r.Emit("closeby signal 1 1 2 2 6", "killed")
		r.Count("sigproc-killed")
	case code == 4:
		r.Emit("closeby signal 1 1 2 2 6", "hang")
		r.Count("sigproc-hang")
	default:
		r.Emit("closeby signal 1 1 2 2 6", j(after))
		r.Count("sigproc-sessions")
	}
	return nil
}

// capability bits of fakeconsole.CapNames that matter for start-up / shutdown
var bits = []int{4 /*kittyKeyboard*/, 0 /*sixel*/, 2 /*unicodeCore*/, 15 /*explicitWidth*/, 3 /*colorTheme*/, 14 /*inBandResize*/, 11 /*osc176*/, 1 /*sync*/}

// origVals: the ORIGINAL values of the terminal (what the fake terminal is configured to report), independent
// of anything Vaxis stores: the cursor style of its DECRPSS reply (no reply: the terminal default, 0) and the
// application id of its OSC 176 reply (no OSC 176: none).
func origVals(caps fakeconsole.Caps) string {
	ucs := caps.CursorStyle
	if ucs < 0 {
		ucs = 0
	}
	app := "-"
	if caps.Osc176 {
		app = hx.Hex("fakeapp")
	}
	return fmt.Sprintf("%d %s", ucs, app)
}

var appIDs = []string{"myapp", "other.app", "fakeapp", "é-term", "a;b", ""}
var shapes = []vaxis.MouseShape{vaxis.MouseShapeClickable, vaxis.MouseShapeDefault, vaxis.MouseShapeTextInput, vaxis.MouseShape("crosshair")}

// startupSawReplies: what Vaxis stored during start-up is what the fake terminal is configured to
// answer (cursor style of the DECRPSS reply, application id of the OSC 176 reply, and the capability
// flags that decide what start-up enables).
func startupSawReplies(vx *vaxis.Vaxis, caps fakeconsole.Caps) bool {
	c, _, ucs, app := vx.VerifCaps()
	want := caps.CursorStyle
	if want < 0 {
		want = 0
	}
	if ucs != want {
		return false
	}
	if caps.Osc176 != c["osc176"] || (caps.Osc176 && app != "fakeapp") {
		return false
	}
	return caps.KittyKeyboard == c["kittyKeyboard"] && caps.Sixel == c["sixels"] && caps.UnicodeCore == c["unicodeCore"] &&
		caps.ExplicitWidth == c["explicitWidth"] && caps.ColorTheme == c["colorThemeUpdates"] && caps.InBandResize == c["inBandResize"] &&
		caps.Sync == c["synchronizedUpdate"]
}

func b01(b bool) byte {
	if b {
		return '1'
	}
	return '0'
}

func drain(vx *vaxis.Vaxis) {
	for len(vx.Events()) > 0 {
		<-vx.Events()
	}
}

// within runs f with a watchdog; a panic inside f is a result ("panic"), not a crash of the harness.
var lastPanic string

func within(d time.Duration, f func()) bool {
	done := make(chan string, 1)
	go func() {
		defer func() {
			if e := recover(); e != nil {
				done <- fmt.Sprint(e)
				return
			}
			done <- ""
		}()
		f()
	}()
	select {
	case p := <-done:
		lastPanic = p
		return true
	case <-time.After(d):
		lastPanic = ""
		hangs++
		return false
	}
}

// hangs counts the calls that did not return within their failure time-out in this run.  Once a few
// have been seen (a regression that makes an exit path hang), the sessions that aim at the same
// region again (input pending at the signal / at Close with a full queue) are generated without that
// ingredient: every hang costs a whole time-out and the first ones are the failing inputs.
var hangs int

const maxHangs = 5

// gateConsole is the fake console with a yield point in Reset(): Suspend calls console.Reset() as its very
// last statement, i.e. when the restore sequence is complete and (inside Close) the console has not been
// closed yet.  A forced schedule holds the goroutine there.
type gateConsole struct {
	*fakeconsole.Console
	mu      sync.Mutex
	armed   bool
	reached chan struct{}
	release chan struct{}
}

func (g *gateConsole) Reset() error {
	g.mu.Lock()
	armed := g.armed
	g.armed = false
	g.mu.Unlock()
	if armed {
		close(g.reached)
		<-g.release
	}
	return g.Console.Reset()
}

// noSizeConsole: a console whose size cannot be read (the ioctl fails on the fake descriptor, Size() returns
// an error): `New` gets an error from reportWinsize AFTER it has entered the alternate screen and enabled the
// modes, and returns (nil, err) — the caller has no handle to call Close on.
type noSizeConsole struct{ *fakeconsole.Console }

func (n *noSizeConsole) Size() (console.WinSize, error) { return console.WinSize{}, fmt.Errorf("no size") }

// failedStartupSession (round 4): New fails half-way.  Everything written up to the return of New is judged by
// the mode terminal: a failed New must leave the terminal as it found it.
func failedStartupSession(r *hx.Run, id string, sub uint32, disableMouse bool) error {
	var mask uint32
	for i, bit := range bits {
		if sub>>uint(i)&1 == 1 {
			mask |= 1 << uint(bit)
		}
	}
	mask &^= 1 << 14 // without in-band resize: reportWinsize then asks the console
	caps := fakeconsole.FromMask(mask)
	fc := fakeconsole.New(12, 5, caps)
	var vx *vaxis.Vaxis
	var err error
	ok := within(6*time.Second, func() { vx, err = vaxis.New(vaxis.Options{WithConsole: &noSizeConsole{fc}, NoSignals: true, DisableMouse: disableMouse}) })
	r.Case(id)
	env := []byte{b01(caps.KittyKeyboard), b01(caps.Sixel), b01(caps.UnicodeCore), b01(caps.ExplicitWidth), b01(caps.ColorTheme),
		'0', b01(caps.Osc176), b01(caps.Sync), b01(disableMouse)}
	app := ""
	if caps.Osc176 {
		app = "fakeapp"
	}
	ucs := caps.CursorStyle
	if ucs < 0 {
		ucs = 0
	}
	r.Emit(fmt.Sprintf("env %s 1 %d %s %s", env, ucs, hx.Hex(app), origVals(caps)), "-")
	switch {
	case !ok:
		r.Emit("startupfail", "hang")
	case err == nil:
		if vx != nil {
			within(6*time.Second, func() { vx.Close() })
		}
		r.Emit("startupfail", "noerror")
	default:
		r.Emit("startupfail", hx.Hex(string(fc.Take())))
	}
	r.Count("failed-startup-sessions")
	return nil
}

func session(r *hx.Run, rng *gen.Rng, id string, sub uint32, disableMouse bool, shape int, cursorStyle int) error {
	var mask uint32
	for i, bit := range bits {
		if sub>>uint(i)&1 == 1 {
			mask |= 1 << uint(bit)
		}
	}
	// a few always-on extras that do not gate anything at shutdown but exercise the reply paths
	mask |= uint32(rng.Intn(2)) << 6 // rgb
	mask |= uint32(rng.Intn(2)) << 7 // styled underlines
	caps := fakeconsole.FromMask(mask)
	caps.CursorStyle = cursorStyle
	fc := fakeconsole.New(12, 5, caps)
	fc.XPix, fc.YPix = 120, 100
	// kitty keyboard flags: the default (0 = leave it to Vaxis) or any mask of the five protocol bits
	mask5 := 0
	if rng.Chance(2, 3) {
		mask5 = 1 + rng.Intn(31)
	}
	// Start-up must have seen the terminal's answers: Vaxis stores the cursor style and the application id
	// from replies handled on the input goroutine (no event, nothing New waits for), and the parser's
	// 10 ms lone-ESC timer can split a reply (ESC P …, ESC ] …) when the parser goroutine is not scheduled
	// for that long on a loaded machine — the reply is then lost as if the terminal had not answered, and
	// "prior value" would mean something else than what the fake terminal is configured with.  Such a
	// start-up is not a session of this property: it is detected by a definite test (stored values =
	// configured values), the Vaxis is closed and start-up is repeated; a session that cannot be started
	// cleanly is reported as `incomplete` (never judged).
	var vx *vaxis.Vaxis
	var err error
	var gc *gateConsole
	for try := 0; ; try++ {
		gc = &gateConsole{Console: fc, reached: make(chan struct{}), release: make(chan struct{})}
		vx, err = vaxis.New(vaxis.Options{WithConsole: gc, NoSignals: true, DisableMouse: disableMouse, CSIuBitMask: vaxis.CSIuBitMask(mask5)})
		if err != nil {
			return err
		}
		if startupSawReplies(vx, caps) {
			break
		}
		r.Count("startup-disturbed-retry")
		within(6*time.Second, func() { vx.Close() })
		if try >= 8 {
			r.Count("startup-disturbed-giveup")
			r.Case(id)
			r.Emit("incomplete startup", "-")
			return nil
		}
		fc = fakeconsole.New(12, 5, caps)
		fc.XPix, fc.YPix = 120, 100
	}
	r.Case(id)
	c, kf, ucs, app := vx.VerifCaps()
	env := []byte{b01(c["kittyKeyboard"]), b01(c["sixels"]), b01(c["unicodeCore"]), b01(c["explicitWidth"]), b01(c["colorThemeUpdates"]),
		b01(c["inBandResize"]), b01(c["osc176"]), b01(c["synchronizedUpdate"]), b01(c["disableMouse"])}
	r.Emit(fmt.Sprintf("env %s %d %d %s %s", env, kf, ucs, hx.Hex(app), origVals(caps)), "-")
	r.Count(fmt.Sprintf("kittyflags-%d", kf))
	r.Emit("startup", hx.Hex(string(fc.Take())))
	r.Count(fmt.Sprintf("shape-%d", shape))
	cnv, clv := false, false
	crow, ccol, cstyle := 0, 0, 2 // New sets cursorNext.style = CursorBlock
	frames := func(n int) {
		for i := 0; i < n; i++ {
			win := vx.Window()
			win.SetCell(rng.Intn(12), rng.Intn(5), vaxis.Cell{Character: vaxis.Character{Grapheme: "x"},
				Style: vaxis.Style{Foreground: vaxis.IndexColor(uint8(rng.Intn(256))), Attribute: vaxis.AttrBold, Hyperlink: "http://x"}})
			switch rng.Intn(4) {
			case 0:
				ccol, crow, cstyle = rng.Intn(12), rng.Intn(5), rng.Intn(7)
				if rng.Chance(1, 3) {
					cstyle = ucs // the application happens to use the user's own style (cursorLast.style == userCursorStyle)
					r.Count("cursor-style-equals-user-style")
				}
				vx.ShowCursor(ccol, crow, vaxis.CursorStyle(cstyle))
				cnv = true
			case 1:
				vx.HideCursor()
				cnv = false
			case 2:
				vx.SetMouseShape(gen.Pick(rng, shapes))
				r.Count("setmouseshape")
			}
			if disableMouse && i == n-1 && rng.Chance(1, 2) {
				// round 4 (seeded C04-m8): the pointer shape is changed although mouse reporting is disabled
				// (render() writes OSC 22 regardless): shutdown must still reset it to `text`
				vx.SetMouseShape(vaxis.MouseShapeClickable)
				r.Count("setmouseshape-with-mouse-disabled-in-last-frame")
			}
			if rng.Chance(1, 3) {
				// the application changes the terminal's application id (written directly)
				if b := fc.Take(); len(b) > 0 {
					r.Emit("bytes", hx.Hex(string(b)))
				}
				idv := gen.Pick(rng, appIDs)
				vx.SetAppID(idv)
				r.Emit("setappid "+hx.Hex(idv), hx.Hex(string(fc.Take())))
				r.Count("setappid")
			}
			if rng.Chance(1, 4) {
				vx.SetTitle("title " + fmt.Sprint(rng.Intn(100)))
				r.Count("settitle")
			}
			// round 3: the other direct writes an application makes between frames
			switch rng.Intn(8) {
			case 0:
				vx.Notify("", "body "+fmt.Sprint(rng.Intn(100))) // OSC 9
				r.Count("notify-osc9")
			case 1:
				vx.Notify("title", "body; with ; semicolons") // OSC 777
				r.Count("notify-osc777")
			case 2:
				vx.ClipboardPush(gen.Pick(rng, []string{"", "clip", "\x1b]0;x\x07", "äöü"})) // OSC 52
				r.Count("clipboardpush")
			case 3:
				vx.Bell()
				r.Count("bell")
			}
			vx.Render()
			clv = cnv
			drain(vx)
		}
		r.Emit("bytes", hx.Hex(string(fc.Take())))
	}
	bi := func(b bool) int {
		if b {
			return 1
		}
		return 0
	}
	closed := false
	// a cursor request made after the last Render and never rendered (shutdown arrives first)
	pending := func() {
		if rng.Chance(1, 2) {
			ccol, crow, cstyle = rng.Intn(12), rng.Intn(5), rng.Intn(7)
			vx.ShowCursor(ccol, crow, vaxis.CursorStyle(cstyle))
			cnv = true
			r.Count("pending-showcursor-at-shutdown")
		}
	}
	doClose := func() {
		ok := within(6*time.Second, func() { vx.Close() })
		if !ok {
			r.Emit(fmt.Sprintf("close %d %d %d %d %d %d", bi(cnv), bi(clv), bi(closed), crow, ccol, cstyle), "hang")
			r.Count("close-hang")
			return
		}
		if lastPanic != "" {
			r.Emit(fmt.Sprintf("close %d %d %d %d %d %d", bi(cnv), bi(clv), bi(closed), crow, ccol, cstyle), "panic")
			r.Count("close-panic")
			closed = true
			return
		}
		r.Emit(fmt.Sprintf("close %d %d %d %d %d %d", bi(cnv), bi(clv), bi(closed), crow, ccol, cstyle), hx.Hex(string(fc.Take())))
		closed = true
		cnv = false
	}
	switch shape {
	case 0:
		if rng.Chance(1, 2) {
			idv := gen.Pick(rng, appIDs)
			vx.SetAppID(idv)
			r.Emit("setappid "+hx.Hex(idv), hx.Hex(string(fc.Take())))
			r.Count("setappid")
		}
		doClose()
	case 1:
		frames(1 + rng.Intn(3))
		for k := rng.Intn(3); k >= 0; k-- {
			pending()
			if !within(6*time.Second, func() { vx.Suspend() }) {
				r.Emit(fmt.Sprintf("suspend %d %d %d %d %d", bi(cnv), bi(clv), crow, ccol, cstyle), "hang")
				return nil
			}
			if lastPanic != "" {
				r.Emit(fmt.Sprintf("suspend %d %d %d %d %d", bi(cnv), bi(clv), crow, ccol, cstyle), "panic")
				return nil
			}
			r.Emit(fmt.Sprintf("suspend %d %d %d %d %d", bi(cnv), bi(clv), crow, ccol, cstyle), hx.Hex(string(fc.Take())))
			cnv = false // exitAltScreen hides the requested cursor
			if err := vx.Resume(); err != nil {
				return err
			}
			r.Emit("resume", hx.Hex(string(fc.Take())))
			frames(rng.Intn(3))
		}
		pending()
		// round 3 (F53 repaired): Close while the event queue is full, nobody receives and input is
		// pending — the input goroutine is blocked in a post, the parser's channel is full
		if rng.Chance(1, 3) && hangs < maxHangs {
			for i := 0; i < 1100 && len(vx.Events()) < cap(vx.Events()); i++ {
				vx.PostEvent(vaxis.Redraw{})
			}
			fc.InjectString(strings.Repeat("k", 4+rng.Intn(8)))
			time.Sleep(time.Millisecond)
			r.Count("close-with-full-queue-and-input-pending")
		}
		doClose()
		doClose() // a second Close is harmless
	case 3:
		// the application exits while suspended: Suspend, then Close without Resume
		frames(1)
		if !within(6*time.Second, func() { vx.Suspend() }) {
			r.Emit(fmt.Sprintf("suspend %d %d %d %d %d", bi(cnv), bi(clv), crow, ccol, cstyle), "hang")
			return nil
		}
		r.Emit(fmt.Sprintf("suspend %d %d %d %d %d", bi(cnv), bi(clv), crow, ccol, cstyle), hx.Hex(string(fc.Take())))
		cnv = false
		if rng.Chance(1, 2) {
			// Suspend while suspended: returns at once, writes nothing
			if !within(6*time.Second, func() { vx.Suspend() }) {
				r.Emit(fmt.Sprintf("suspend %d %d %d %d %d", bi(cnv), bi(clv), crow, ccol, cstyle), "hang")
				return nil
			}
			if lastPanic != "" {
				r.Emit(fmt.Sprintf("suspend %d %d %d %d %d", bi(cnv), bi(clv), crow, ccol, cstyle), "panic")
				return nil
			}
			r.Emit(fmt.Sprintf("suspend %d %d %d %d %d", bi(cnv), bi(clv), crow, ccol, cstyle), hx.Hex(string(fc.Take())))
			r.Count("suspend-while-suspended")
		}
		ok := within(6*time.Second, func() { vx.Close() })
		if !ok {
			r.Emit("closesuspended", "hang")
			r.Count("close-while-suspended-hang")
			return nil
		}
		if lastPanic != "" {
			r.Emit("closesuspended", "panic")
			r.Count("close-panic")
			return nil
		}
		r.Emit("closesuspended", hx.Hex(string(fc.Take())))
	case 5:
		// round 4 — kill signal while suspended: nobody is at a select, the signal stays queued; Resume starts a
		// new input goroutine (openTty, before Resume has re-entered the alternate screen), which takes the
		// kill arm at once: its Close overlaps the rest of Resume and is serialised behind it by suspendMu.
		// Expected on the wire: exactly what Resume writes, then exactly what Close writes; restored.
		frames(1 + rng.Intn(2))
		pending()
		if !within(6*time.Second, func() { vx.Suspend() }) {
			r.Emit(fmt.Sprintf("suspend %d %d %d %d %d", bi(cnv), bi(clv), crow, ccol, cstyle), "hang")
			return nil
		}
		r.Emit(fmt.Sprintf("suspend %d %d %d %d %d", bi(cnv), bi(clv), crow, ccol, cstyle), hx.Hex(string(fc.Take())))
		cnv = false
		vx.VerifSignalKill()
		r.Count("signal-while-suspended")
		var wmu sync.Mutex
		var writes []string
		fc.Mirror = func(p []byte) { wmu.Lock(); writes = append(writes, string(p)); wmu.Unlock() }
		if err := vx.Resume(); err != nil {
			return err
		}
		deadline := time.Now().Add(6 * time.Second)
		for fc.CloseCalls == 0 && time.Now().Before(deadline) {
			time.Sleep(200 * time.Microsecond)
		}
		if fc.CloseCalls == 0 {
			hangs++
			r.Emit("resume", hx.Hex(string(fc.Take())))
			r.Emit(fmt.Sprintf("closeby signal %d %d %d %d %d", bi(cnv), bi(clv), crow, ccol, cstyle), "hang")
			return nil
		}
		fc.Take()
		wmu.Lock()
		cut := len(writes)
		for i, w := range writes {
			if w == "\x1b[c" { // the DA1 query Suspend writes directly: the first write of the Close
				cut = i
				break
			}
		}
		r.Emit("resume", hx.Hex(strings.Join(writes[:cut], "")))
		r.Emit(fmt.Sprintf("closeby signal %d %d %d %d %d", bi(cnv), bi(clv), crow, ccol, cstyle), hx.Hex(strings.Join(writes[cut:], "")))
		wmu.Unlock()
	case 6:
		// round 4 — kill signal right after start-up, before the application has drawn anything
		vx.VerifSignalKill()
		r.Count("signal-before-first-frame")
		deadline := time.Now().Add(6 * time.Second)
		for fc.CloseCalls == 0 && time.Now().Before(deadline) {
			time.Sleep(200 * time.Microsecond)
		}
		if fc.CloseCalls == 0 {
			hangs++
			r.Emit(fmt.Sprintf("closeby signal %d %d %d %d %d", bi(cnv), bi(clv), crow, ccol, cstyle), "hang")
			return nil
		}
		r.Emit(fmt.Sprintf("closeby signal %d %d %d %d %d", bi(cnv), bi(clv), crow, ccol, cstyle), hx.Hex(string(fc.Take())))
	case 7:
		// round 4 — kill signal MID-FRAME (forced schedule): the input goroutine's Close is held at the end of
		// Suspend (console.Reset(): the restore sequence is complete, the console not yet closed) while the main
		// goroutine — which cannot know — asks for the cursor and renders one more frame; then Close goes on.
		// The mode terminal judges everything that reached the console up to console.Close().
		frames(1)
		ccol, crow, cstyle = 1, 1, (ucs+3)%7 // a style that is not the user's
		vx.ShowCursor(ccol, crow, vaxis.CursorStyle(cstyle))
		cnv = true
		vx.Render()
		clv = true
		r.Emit("bytes", hx.Hex(string(fc.Take())))
		gc.mu.Lock()
		gc.armed = true
		gc.mu.Unlock()
		vx.VerifSignalKill()
		select {
		case <-gc.reached:
		case <-time.After(6 * time.Second):
			hangs++
			r.Emit("closeby signalframe", "hang")
			return nil
		}
		vx.ShowCursor(ccol+1, crow, vaxis.CursorStyle(cstyle))
		vx.Window().SetCell(2, 2, vaxis.Cell{Character: vaxis.Character{Grapheme: "y"}})
		vx.Render()
		close(gc.release)
		deadline := time.Now().Add(6 * time.Second)
		for fc.CloseCalls == 0 && time.Now().Before(deadline) {
			time.Sleep(200 * time.Microsecond)
		}
		r.Count("signal-mid-frame-forced")
		r.Emit("closeby signalframe", hx.Hex(string(fc.Take())))
	case 4:
		// handled by panicSession (child process)
	case 2:
		frames(1 + rng.Intn(3))
		// round 3 (F13 repaired): input pending when the signal arrives — Close then runs on the input
		// goroutine while the parser's channel is full; the terminal must be restored all the same
		if rng.Chance(1, 2) && hangs < maxHangs {
			fc.InjectString(strings.Repeat("k", 2+rng.Intn(8)))
			r.Count("signal-with-input-pending")
		}
		// Close triggered by a termination signal: runs on the input goroutine
		vx.VerifSignalKill()
		deadline := time.Now().Add(6 * time.Second)
		for fc.CloseCalls == 0 && time.Now().Before(deadline) {
			time.Sleep(200 * time.Microsecond)
		}
		time.Sleep(2 * time.Millisecond)
		if fc.CloseCalls == 0 {
			hangs++
			r.Emit(fmt.Sprintf("closeby signal %d %d %d %d %d", bi(cnv), bi(clv), crow, ccol, cstyle), "hang")
			r.Count("signal-close-hang")
			return nil
		}
		r.Emit(fmt.Sprintf("closeby signal %d %d %d %d %d", bi(cnv), bi(clv), crow, ccol, cstyle), hx.Hex(string(fc.Take())))
	}
	return nil
}

// panicSession: the library's own input goroutine panics (child process, see panicChild).
func panicSession(r *hx.Run, id string, mask uint32, dm bool, early bool) error {
	cur := "1 1 2 2 6"
	variant := "late"
	if early {
		cur = "0 0 0 0 2" // nothing requested, nothing rendered; New sets cursorNext.style = CursorBlock
		variant = "early"
		r.Count("panic-before-first-frame")
	}
	var stdout bytes.Buffer
	code := 0
	for try := 0; try < 6; try++ {
		cmd := exec.Command(os.Args[0], "-panicchild", fmt.Sprint(mask), map[bool]string{true: "1", false: "0"}[dm], variant)
		stdout.Reset()
		cmd.Stdout = &stdout
		err := cmd.Run()
		code = 0
		if ee, ok := err.(*exec.ExitError); ok {
			code = ee.ExitCode()
		}
		if code != 5 {
			break
		}
		r.Count("startup-disturbed-retry")
	}
	if code == 5 {
		r.Count("startup-disturbed-giveup")
		r.Case(id)
		r.Emit("incomplete startup", "-")
		return nil
	}
	var env string
	var before, after []string
	seenP := false
	for _, l := range strings.Split(stdout.String(), "\n") {
		switch {
		case strings.HasPrefix(l, "E "):
			env = l[2:]
		case l == "P":
			seenP = true
		case strings.HasPrefix(l, "W "):
			h := l[2:]
			if h == "-" {
				h = ""
			}
			if seenP {
				after = append(after, h)
			} else {
				before = append(before, h)
			}
		}
	}
	if env == "" {
		return fmt.Errorf("panic child produced no env line (exit %d)", code)
	}
	r.Case(id)
	r.Emit(env, "-")
	j := func(l []string) string {
		s := strings.Join(l, "")
		if s == "" {
			return "-"
		}
		return s
	}
	r.Emit("bytes0", j(before)) // start-up + SetAppID + a frame, in one piece: only fed to the mode terminal
	if code == 4 || !seenP {
		r.Emit("closeby panic "+cur, "nopanic")
		r.Count("panic-not-provoked")
		return nil
	}
	r.Emit("closeby panic "+cur, j(after))
	r.Count("panic-sessions")
	return nil
}

func run(r *hx.Run) error {
	rng := gen.New(r.Seed)
	if r.Replay != "" {
		return fmt.Errorf("replay of C04 cases: re-run with the seed recorded in the replay file")
	}
	n := 0
	subs := 1 << uint(len(bits))
	for sub := 0; sub < subs; sub++ {
		for dm := 0; dm < 2; dm++ {
			if !r.Thorough && (sub+dm)%4 != int(r.Seed%4) && sub != 0 && sub != subs-1 {
				continue // quick tier: a quarter of the 512 configurations (rotating with the seed), plus the extremes
			}
			for _, shape := range []int{0, 1, 2, 3, 5, 6, 7} {
				if shape == 3 && n%16 != 3 {
					continue // Close while suspended: a few configurations are enough (it costs a watchdog timeout when it hangs)
				}
				if shape >= 5 && (n/4)%8 != shape-5 {
					continue // round 4 exit points (signal while suspended / before the first frame / mid-frame): every eighth configuration each
				}
				if err := session(r, rng, fmt.Sprintf("s-%d-%d-%d", sub, dm, shape), uint32(sub), dm == 1, shape, []int{-1, 0, 3, 6}[n%4]); err != nil {
					return err
				}
				n++
			}
		}
	}
	// input-goroutine panic: a handful of configurations (each costs a process)
	panics := []uint32{0, 1<<4 | 1<<1, 1<<0 | 1<<2 | 1<<3 | 1<<14 | 1<<11, 1<<4 | 1<<0 | 1<<2 | 1<<15 | 1<<3 | 1<<14 | 1<<11 | 1<<1}
	for i, m := range panics {
		if err := panicSession(r, fmt.Sprintf("panic-%d", i), m, i%2 == 1, false); err != nil {
			return err
		}
		if i%2 == 1 { // round 4: the same panic right after start-up (two capability sets)
			if err := panicSession(r, fmt.Sprintf("panic-early-%d", i), m, i%2 == 1, true); err != nil {
				return err
			}
		}
	}
	// a real SIGTERM delivered through os/signal to a Vaxis with its handlers installed (a process each):
	// with and without in-band resize (setupSignals branches on it), with and without the mouse
	for i, m := range []uint32{0, 1 << 14, 1<<14 | 1<<4 | 1<<1 | 1<<11, 1<<0 | 1<<2 | 1<<3 | 1<<15} {
		// round 4: one of the signals setupSignals registers each (SIGTERM, SIGINT, SIGQUIT, SIGABRT; the list is
		// pinned by Props.C04Exit.facts_kill_signals); SIGHUP is not registered (the terminal is gone then)
		sig := []syscall.Signal{syscall.SIGTERM, syscall.SIGINT, syscall.SIGQUIT, syscall.SIGABRT}[i%4]
		r.Count("sigproc-signal-" + sig.String())
		if err := sigProcSession(r, fmt.Sprintf("sigproc-%d", i), m, i%2 == 1, sig); err != nil {
			return err
		}
	}
	// round 4: a real SIGTERM during New, before setupSignals has run (with and without in-band resize)
	for i, m := range []uint32{1 << 14, 0} {
		if err := sigStartSession(r, fmt.Sprintf("sigstart-%d", i), m, false); err != nil {
			return err
		}
	}
	// round 4: New fails half-way (the window size cannot be read): a few capability sets
	for i, sub := range []uint32{0, 0xff, 0x55, 0xaa, 0x41, 0x9e} {
		if err := failedStartupSession(r, fmt.Sprintf("startfail-%d", i), sub, i%2 == 1); err != nil {
			return err
		}
	}
	r.Note("sessions", n)
	if r.Thorough {
		r.Note("exhaustive", true)
	}
	return nil
}
