// Package emuh: shared implementation side of the emulator checks (C05, C06): op-line <-> ansi.Sequence,
// snapshot rendering (format documented in lean/VaxisModel/Model/EmuIO.lean), guarded feeding.
package emuh

import (
	"encoding/base64"
	"fmt"
	"strconv"
	"strings"
	"sync"
	"time"

	"git.sr.ht/~rockorager/vaxis"
	"git.sr.ht/~rockorager/vaxis/ansi"
	"git.sr.ht/~rockorager/vaxis/widgets/term"
	"verifharness/hx"
)

func b01(b bool) string {
	if b {
		return "1"
	}
	return "0"
}

func Style(s vaxis.Style) string {
	if s == (vaxis.Style{}) {
		return "-"
	}
	return fmt.Sprintf("%d.%d.%d.%d.%d.%s.%s", uint32(s.Foreground), uint32(s.Background), uint32(s.UnderlineColor),
		uint8(s.UnderlineStyle), uint8(s.Attribute), hx.Hex(s.Hyperlink), hx.Hex(s.HyperlinkParams))
}

func cell(c term.VerifCell) string {
	if c.Grapheme == "" && c.Width == 0 && !c.Wrapped && c.Style == (vaxis.Style{}) {
		return "_"
	}
	return hx.Hex(c.Grapheme) + ":" + strconv.Itoa(c.Width) + ":" + b01(c.Wrapped) + ":" + Style(c.Style)
}

func grid(g [][]term.VerifCell) string {
	if len(g) == 0 {
		return "-"
	}
	var sb strings.Builder
	for i, r := range g {
		if i > 0 {
			sb.WriteByte('/')
		}
		if len(r) == 0 {
			sb.WriteByte('e')
			continue
		}
		first := true
		for j := 0; j < len(r); {
			k := j + 1
			for k < len(r) && r[k] == r[j] {
				k++
			}
			if !first {
				sb.WriteByte(',')
			}
			first = false
			if k-j > 1 {
				sb.WriteString(strconv.Itoa(k - j))
				sb.WriteByte('*')
			}
			sb.WriteString(cell(r[j]))
			j = k
		}
	}
	return sb.String()
}

func cs(s term.VerifSaved) string {
	return fmt.Sprintf("%d.%d.%s.%d%d%d%d", s.Selected, s.SavedSet, b01(s.SingleShift),
		s.Designations[0], s.Designations[1], s.Designations[2], s.Designations[3])
}

func saved(s term.VerifSaved) string {
	return fmt.Sprintf("%d;%d;%s;%s;%d;%s;%s", s.Row, s.Col, b01(s.Decawm), b01(s.Decom), s.CursorStyle, cs(s), Style(s.Style))
}

var (
	defaultTabs []int
	tabsOnce    sync.Once
)

// Job is one case for RunCases.
type Job struct {
	ID          string
	W, H        int
	Prefix, Ops []string
}

// Result of one case.
type Result struct {
	Lines    [][2]string
	Outcome  string
	PanicMsg string
}

// RunCases executes the jobs on `workers` goroutines and returns the results in job order
// (deterministic output).
func RunCases(jobs []Job, workers int) []Result {
	// make sure the default tab stops are captured before going parallel
	t := &Term{inline: true}
	t.New(1, 1)
	t.Close()
	res := make([]Result, len(jobs))
	var wg sync.WaitGroup
	ch := make(chan int, len(jobs))
	for i := range jobs {
		ch <- i
	}
	close(ch)
	for k := 0; k < workers; k++ {
		wg.Add(1)
		go func() {
			defer wg.Done()
			for i := range ch {
				j := jobs[i]
				l, o, p := RunCase(j.W, j.H, j.Prefix, j.Ops, 0)
				res[i] = Result{l, o, p}
			}
		}()
	}
	wg.Wait()
	return res
}

func isDefaultTabs(t []int) bool {
	if defaultTabs == nil || len(t) != len(defaultTabs) {
		return false
	}
	for i := range t {
		if t[i] != defaultTabs[i] {
			return false
		}
	}
	return true
}

// Snapshot renders the state in the protocol's text form. Tab stops equal to those of a fresh
// terminal are abbreviated `D`, except in the snapshot of a fresh terminal itself (SnapshotFull).
func Snapshot(s term.VerifState) string { return snapshot(s, false) }

func SnapshotFull(s term.VerifState) string { return snapshot(s, true) }

func snapshot(s term.VerifState, fullTabs bool) string {
	var md strings.Builder
	for _, b := range s.Modes {
		md.WriteString(b01(b))
	}
	act := "p"
	if s.AltActive {
		act = "a"
	}
	tabs := "-"
	if !fullTabs && isDefaultTabs(s.TabStops) {
		tabs = "D"
	} else if len(s.TabStops) > 0 {
		p := make([]string, len(s.TabStops))
		for i, t := range s.TabStops {
			p[i] = strconv.Itoa(t)
		}
		tabs = strings.Join(p, ",")
	}
	return fmt.Sprintf("dim=%d,%d,%d,%d cur=%d,%d,%s mar=%d,%d,%d,%d md=%s act=%s pen=%s sh=%d chs=%s sp=%s sa=%s tabs=%s P=%s A=%s",
		s.Rows, s.Cols, s.PrimaryRows, s.AltRows, s.CursorRow, s.CursorCol, b01(s.LastCol),
		s.Top, s.Bottom, s.Left, s.Right, md.String(), act, Style(s.Pen), s.CursorStyle, cs(s.Charsets),
		saved(s.SavedPrim), saved(s.SavedAlt), tabs, grid(s.Primary), grid(s.Alt))
}

func unhex(s string) (string, bool) {
	if s == "-" {
		return "", true
	}
	if len(s)%2 != 0 {
		return "", false
	}
	b := make([]byte, len(s)/2)
	for i := range b {
		v, err := strconv.ParseUint(s[2*i:2*i+2], 16, 8)
		if err != nil {
			return "", false
		}
		b[i] = byte(v)
	}
	return string(b), true
}

func Params(p [][]int) string {
	if len(p) == 0 {
		return "-"
	}
	var sb strings.Builder
	for i, q := range p {
		if i > 0 {
			sb.WriteByte(';')
		}
		for j, v := range q {
			if j > 0 {
				sb.WriteByte(':')
			}
			sb.WriteString(strconv.Itoa(v))
		}
	}
	return sb.String()
}

func parseParams(s string) ([][]int, bool) {
	if s == "-" {
		return nil, true
	}
	var out [][]int
	for _, part := range strings.Split(s, ";") {
		var q []int
		for _, sub := range strings.Split(part, ":") {
			v, err := strconv.Atoi(sub)
			if err != nil {
				return nil, false
			}
			q = append(q, v)
		}
		out = append(out, q)
	}
	return out, true
}

// B64ok: would osc 52 reach the clipboard push for this payload?
func B64ok(payload string) bool {
	i := strings.Index(payload, ";")
	if i < 0 {
		return false
	}
	val := payload[i+1:]
	if j := strings.Index(val, ";"); j >= 0 {
		val = val[j+1:]
	} else {
		val = ""
	}
	_, err := base64.StdEncoding.DecodeString(val)
	return err == nil
}

// OpLine renders a parsed sequence as an op line.
func OpLine(seq ansi.Sequence) string {
	switch s := seq.(type) {
	case ansi.Print:
		return "print " + hx.Hex(s.Grapheme) + " " + strconv.Itoa(s.Width)
	case ansi.C0:
		return "c0 " + strconv.Itoa(int(s))
	case ansi.ESC:
		return "esc " + hx.Hex(string(append(append([]rune{}, s.Intermediate...), s.Final)))
	case ansi.CSI:
		return "csi " + hx.Hex(string(append(append([]rune{}, s.Intermediate...), s.Final))) + " " + Params(s.Parameters)
	case ansi.OSC:
		p := string(s.Payload)
		return "osc " + hx.Hex(p) + " " + b01(B64ok(p))
	case ansi.APC:
		return "apc"
	case ansi.DCS:
		d := "-"
		if len(s.Data) > 0 {
			d = hx.Hex(string(s.Data))
		}
		ni, np := len(s.Intermediate), len(s.Parameters)
		if ni > 8 {
			ni = 8
		}
		if np > 8 {
			np = 8
		}
		return "dcs " + hx.Hex(string(s.Final)) + " " + strconv.Itoa(ni) + " " + strconv.Itoa(np) + " " + d
	default:
		return "dcs"
	}
}

// ParseOp turns an op line (fields) back into a sequence. ok=false for non-sequence ops.
func ParseOp(f []string) (ansi.Sequence, bool) {
	switch {
	case len(f) == 3 && f[0] == "print":
		g, ok := unhex(f[1])
		w, err := strconv.Atoi(f[2])
		return ansi.Print{Grapheme: g, Width: w}, ok && err == nil
	case len(f) == 2 && f[0] == "c0":
		n, err := strconv.Atoi(f[1])
		return ansi.C0(rune(n)), err == nil
	case len(f) == 2 && f[0] == "esc":
		l, ok := unhex(f[1])
		r := []rune(l)
		if !ok || len(r) == 0 {
			return nil, false
		}
		e := ansi.ESC{Final: r[len(r)-1]}
		if len(r) > 1 {
			e.Intermediate = r[:len(r)-1]
		}
		return e, true
	case len(f) == 3 && f[0] == "csi":
		l, ok := unhex(f[1])
		r := []rune(l)
		p, ok2 := parseParams(f[2])
		if !ok || !ok2 || len(r) == 0 {
			return nil, false
		}
		c := ansi.CSI{Final: r[len(r)-1], Parameters: p}
		if len(r) > 1 {
			c.Intermediate = r[:len(r)-1]
		}
		return c, true
	case len(f) == 3 && f[0] == "osc":
		p, ok := unhex(f[1])
		return ansi.OSC{Payload: []rune(p)}, ok
	case len(f) == 1 && f[0] == "apc":
		return ansi.APC{Data: "x"}, true
	case len(f) == 1 && f[0] == "dcs":
		return ansi.SS3('x'), true // no arm in update(): nothing happens
	case len(f) == 5 && f[0] == "dcs":
		// dcs <final hex> <#intermediates> <#parameters> <data hex>: the REAL DCS branch of update()
		fin, ok := unhex(f[1])
		ni, e1 := strconv.Atoi(f[2])
		np, e2 := strconv.Atoi(f[3])
		data, ok2 := unhex(f[4])
		if f[4] == "-" {
			data, ok2 = "", true
		}
		r := []rune(fin)
		if !ok || !ok2 || e1 != nil || e2 != nil || len(r) != 1 || ni < 0 || np < 0 || ni > 8 || np > 8 {
			return nil, false
		}
		d := ansi.DCS{Final: r[0], Data: []rune(data)}
		for i := 0; i < ni; i++ {
			d.Intermediate = append(d.Intermediate, '$')
		}
		for i := 0; i < np; i++ {
			d.Parameters = append(d.Parameters, i)
		}
		return d, true
	}
	return nil, false
}

// Term is one emulator under test.
type Term struct {
	VT   *term.Model
	Dead bool
	// Timeout for one operation (watchdog).
	Timeout time.Duration
	// PanicMsg of the last panic.
	PanicMsg string
	// inline: no per-operation watchdog goroutine (the caller watches the whole case).
	inline bool
}

// guarded runs f with recovery and a watchdog. Result "", "panic" or "hang".
func (t *Term) guarded(f func()) string {
	if t.inline {
		if p, msg := hx.Guard(f); p {
			t.PanicMsg = msg
			return "panic"
		}
		return ""
	}
	done := make(chan string, 1)
	go func() {
		p, msg := hx.Guard(f)
		if p {
			t.PanicMsg = msg
			done <- "panic"
			return
		}
		done <- ""
	}()
	to := t.Timeout
	if to == 0 {
		to = 3 * time.Second
	}
	select {
	case r := <-done:
		return r
	case <-time.After(to):
		return "hang"
	}
}

// New starts a fresh emulator; returns the impl column.
func (t *Term) New(w, h int) string {
	if t.VT != nil && !t.Dead {
		t.VT.VerifClose()
	}
	t.VT, t.Dead = nil, false
	r := t.guarded(func() { t.VT = term.VerifNew(w, h) })
	if r != "" {
		t.Dead = true
		return r
	}
	st := t.VT.VerifSnapshot()
	tabsOnce.Do(func() { defaultTabs = append([]int{}, st.TabStops...) })
	return "ev=0 " + SnapshotFull(st)
}

// Feed applies one sequence.
func (t *Term) Feed(seq ansi.Sequence) string {
	if t.VT == nil || t.Dead {
		return "dead"
	}
	n := 0
	g0 := 0
	dcs, isDcs := seq.(ansi.DCS)
	if isDcs {
		g0 = t.VT.VerifGraphicsLen()
	}
	r := t.guarded(func() { n = len(t.VT.VerifFeed(seq)) })
	if r != "" {
		t.Dead = true // state is undefined (hang: the goroutine still owns it)
		if r == "panic" {
			t.VT.VerifClose()
		}
		return r
	}
	res := "ev=" + strconv.Itoa(n) + " " + Snapshot(t.VT.VerifSnapshot())
	if isDcs {
		// what the size guard says and whether the external decoder produced an image
		res += " tl=" + b01(term.VerifSixelTooLarge(dcs.Data)) + " gfx=" + strconv.Itoa(t.VT.VerifGraphicsLen()-g0)
	}
	return res
}

func (t *Term) Resize(w, h int) string {
	if t.VT == nil || t.Dead {
		return "dead"
	}
	r := t.guarded(func() { t.VT.VerifResize(w, h) })
	if r != "" {
		t.Dead = true
		if r == "panic" {
			t.VT.VerifClose()
		}
		return r
	}
	return "ev=0 " + Snapshot(t.VT.VerifSnapshot())
}

func (t *Term) Close() {
	if t.VT != nil && !t.Dead {
		t.VT.VerifClose()
	}
	t.VT = nil
}

// RunCase executes `new w h`, the silent prefix and then ops on a fresh emulator inside ONE watched
// goroutine and returns the lines (op, impl) to emit. A case that makes no progress for `timeout`
// is cut off with the result `hang` for the operation that did not return.
func RunCase(w, h int, prefix, ops []string, timeout time.Duration) (lines [][2]string, outcome string, panicMsg string) {
	if timeout == 0 {
		timeout = 3 * time.Second
	}
	var mu sync.Mutex
	var out [][2]string
	cur := fmt.Sprintf("new %d %d", w, h)
	progress := make(chan struct{}, 1)
	done := make(chan struct{})
	t := &Term{inline: true}
	emit := func(op, res string) {
		mu.Lock()
		out = append(out, [2]string{op, res})
		mu.Unlock()
		select {
		case progress <- struct{}{}:
		default:
		}
	}
	setCur := func(op string) {
		mu.Lock()
		cur = op
		mu.Unlock()
	}
	go func() {
		defer close(done)
		res := t.New(w, h)
		if t.Dead {
			emit(cur, res)
			return
		}
		if len(prefix) == 0 {
			emit(cur, res)
		} else {
			for _, op := range prefix {
				setCur(op)
				res, _ = t.Apply(op)
				if t.Dead {
					emit(op, res)
					return
				}
			}
			emit("adopt", res)
		}
		for _, op := range ops {
			setCur(op)
			res, ok := t.Apply(op)
			if !ok {
				emit(op, "bad-op")
				return
			}
			emit(op, res)
			if t.Dead {
				return
			}
		}
		t.Close()
	}()
	timer := time.NewTimer(timeout)
	defer timer.Stop()
	for {
		select {
		case <-done:
			mu.Lock()
			defer mu.Unlock()
			oc := ""
			if t.Dead && len(out) > 0 {
				oc = out[len(out)-1][1]
			}
			return out, oc, t.PanicMsg
		case <-progress:
			if !timer.Stop() {
				select {
				case <-timer.C:
				default:
				}
			}
			timer.Reset(timeout)
		case <-timer.C:
			mu.Lock()
			defer mu.Unlock()
			res := append([][2]string{}, out...)
			res = append(res, [2]string{cur, "hang"})
			return res, "hang", ""
		}
	}
}

// Apply runs one op line; ok=false if the op is not understood.
func (t *Term) Apply(op string) (string, bool) {
	f := strings.Fields(op)
	if len(f) >= 2 && f[0] == "rp" {
		// round 5: `rp <op>` feeds <op> and reports the bytes the emulator wrote to its pty for it (`rp=<hex>`), not the state
		seq, ok := ParseOp(f[1:])
		if !ok {
			return "", false
		}
		if t.VT == nil || t.Dead {
			return "dead", true
		}
		t.VT.VerifTakeReplies()
		if r := t.Feed(seq); r == "panic" || r == "hang" || r == "dead" {
			return r, true
		}
		return "rp=" + hx.Hex(t.VT.VerifTakeReplies()), true
	}
	if len(f) == 3 && (f[0] == "new" || f[0] == "resize") {
		w, e1 := strconv.Atoi(f[1])
		h, e2 := strconv.Atoi(f[2])
		if e1 != nil || e2 != nil {
			return "", false
		}
		if f[0] == "new" {
			return t.New(w, h), true
		}
		return t.Resize(w, h), true
	}
	seq, ok := ParseOp(f)
	if !ok {
		return "", false
	}
	return t.Feed(seq), true
}
