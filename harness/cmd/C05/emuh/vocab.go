package emuh

// The C06 vocabulary: op alphabet and setup prefixes for the bounded-exhaustive sequences (shared by
// the C06 harness and the slice replayed by the C05 harness for the model correspondence).

import (
	"fmt"
	"strings"

	"github.com/rivo/uniseg"
	"verifharness/hx"
)

func Pr(s string) string { return fmt.Sprintf("print %s %d", hx.Hex(s), uniseg.StringWidth(s)) }
func Csi(final string, params string) string {
	if params == "" {
		params = "-"
	}
	return "csi " + hx.Hex(final) + " " + params
}

// alphabet returns the op alphabet for a w x h screen; reduced = the state-changing core.
func Alphabet(w, h int, reduced bool) []string {
	var a []string
	add := func(s ...string) { a = append(a, s...) }
	add(Pr("a"), Pr("世"), "c0 13", "c0 10", "esc "+hx.Hex("D"), "esc "+hx.Hex("E"), "esc "+hx.Hex("M"),
		"esc "+hx.Hex("7"), "esc "+hx.Hex("8"), Csi("?h", "1049"), Csi("?l", "1049"))
	add(Csi("H", ""), Csi("H", "1;1"), Csi("H", "2;2"), Csi("H", "0;0"), Csi("H", fmt.Sprintf("%d;%d", h, w)),
		Csi("H", fmt.Sprintf("%d;%d", h+1, w+1)), Csi("f", "2"))
	pset := func(size int) []string {
		return []string{"", "0", "1", "2", fmt.Sprint(size - 1), fmt.Sprint(size), fmt.Sprint(size + 1)}
	}
	small := func(size int) []string { return []string{"", "1", "2", fmt.Sprint(size), fmt.Sprint(size + 1)} }
	if reduced {
		pset = func(size int) []string { return []string{"", fmt.Sprint(size)} }
		small = func(size int) []string { return []string{"2"} }
	}
	for _, p := range small(w) {
		add(Csi("G", p))
	}
	for _, p := range small(h) {
		add(Csi("d", p))
	}
	for _, f := range []string{"A", "B", "E", "F"} {
		for _, p := range small(h) {
			add(Csi(f, p))
		}
	}
	for _, f := range []string{"C", "D"} {
		for _, p := range small(w) {
			add(Csi(f, p))
		}
	}
	for _, p := range []string{"", "0", "1", "2"} {
		add(Csi("K", p), Csi("J", p))
	}
	for _, f := range []string{"X", "@", "P"} {
		for _, p := range pset(w) {
			add(Csi(f, p))
		}
	}
	for _, f := range []string{"L", "M", "S", "T"} {
		for _, p := range pset(h) {
			add(Csi(f, p))
		}
	}
	add(Csi("r", ""), Csi("r", "1;2"), Csi("r", "2;3"), Csi("r", "2;2"), Csi("r", fmt.Sprintf("1;%d", h+1)),
		Csi("r", fmt.Sprintf("2;%d", h+3)), Csi("r", "0;0"), Csi("r", "2"))
	add(Csi("m", "41"), Csi("m", "0"))
	if !reduced {
		// round 3: parameters beyond the second (ignored by a VT), RIS, OSC 8 open / close
		add(Csi("H", "2;2;7"), Csi("r", "1;2;9"), "esc "+hx.Hex("c"),
			"osc "+hx.Hex("8;;http://a")+" 0", "osc "+hx.Hex("8;;")+" 0")
	}
	// de-duplicate (tiny sizes make some parameters coincide)
	seen := map[string]bool{}
	var out []string
	for _, s := range a {
		if !seen[s] {
			seen[s] = true
			out = append(out, s)
		}
	}
	return out
}

// prefixes: setup sequences executed silently.
func Prefixes(w, h int) [][]string {
	letters := "abcdefghijklmnopqrstuvwxyz"
	var fill []string
	for i := 0; i < w*h; i++ {
		fill = append(fill, Pr(string(letters[i%26])))
	}
	var fillRow1 []string
	for i := 0; i < w; i++ {
		fillRow1 = append(fillRow1, Pr(string(letters[i%26])))
	}
	var wide []string
	for i := 0; i+1 < w; i += 2 {
		wide = append(wide, Pr("世"))
	}
	p := [][]string{
		{},
		append(append([]string{}, fill...), Csi("H", "2;2"), Csi("m", "44")),
		append(append([]string{}, fill...), Csi("r", fmt.Sprintf("2;%d", maxInt(3, h))), Csi("H", "2;1"), Csi("m", "42")),
		append(append([]string{}, wide...), Csi("H", "1;2"), Csi("m", "43")),
		append([]string{Csi("m", "45")}, fillRow1...), // ends in the pending-wrap state
	}
	if h >= 3 {
		p = append(p, append(append([]string{}, fill...), Csi("r", fmt.Sprintf("1;%d", h-1)), Csi("H", fmt.Sprintf("%d;2", h)), Csi("m", "46")))
	}
	return p
}

func maxInt(a, b int) int {
	if a > b {
		return a
	}
	return b
}

// FixParams writes empty parameters (";3") as 0.
func FixParams(op string) string {
	f := strings.Fields(op)
	if len(f) == 3 && f[0] == "csi" && f[2] != "-" {
		parts := strings.Split(f[2], ";")
		for i, p := range parts {
			if p == "" {
				parts[i] = "0"
			}
		}
		f[2] = strings.Join(parts, ";")
		return strings.Join(f, " ")
	}
	return op
}
