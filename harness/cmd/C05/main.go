package main

// C05 harness: the embedded terminal emulator (widgets/term) driven without PTY through the
// verif hooks. Cases are `#case id`, `new W H`, then ops; after every op the full state snapshot.
// Streams: corpus, grammar-generated control sequences with boundary parameters, raw byte fuzz
// through the real ansi parser.

import (
	"bytes"
	"fmt"
	"strings"
	"time"

	"git.sr.ht/~rockorager/vaxis/ansi"
	"github.com/rivo/uniseg"
	"verifharness/cmd/C05/emuh"
	"verifharness/gen"
	"verifharness/hx"
)

func main() { hx.Main("C05", run) }

var graphemes = []string{
	"a", "b", "Z", " ", "~", "q", "x", "`", "_", "é", "é", "世", "界", "🔥", "👩‍🚀", "🇩🇪", "​", "́", "­", "�", "\x7f",
}

var csiFinals = []string{"@", "A", "B", "C", "D", "E", "F", "G", "H", "I", "J", "K", "L", "M", "P", "S", "T", "X", "Z", "`", "a", "b", "c", ">c", "d", "e", "f", "g", "h", "?h", "l", "?l", "m", "n", "$p", "?$p", "r", "s", "u", " q", "y", "?J", "!p"}
var escLabels = []string{"7", "8", "D", "E", "H", "M", "N", "O", "=", ">", "c", "(0", ")0", "*0", "+0", "(B", ")B", "*B", "+B", "#8", "Z", "\\", "(A"}
var oscPayloads = []string{"0;title", "2;x", "1;icon", "8;id=1;http://x", "8;;", "8;nourl", "9;msg", "11;?", "52;c;aGk=", "52;c;!!", "52;nosecond", "777;notify;t;b", "777;notify;only", "777;x;y", "nosemi", ""}
var decModes = []int{1, 2, 3, 4, 5, 6, 7, 8, 25, 1000, 1002, 1003, 1006, 1007, 1049, 2004, 12, 0, 9999}
var ansiModes = []int{2, 4, 12, 20, 0, 7}

type genr struct {
	jobs    []emuh.Job
	hypViol int
	// sixelGuardOK: the size guard in front of the sixel decoder works (probed once with a payload
	// on which the unguarded decoder panics recoverably). When it does not, payloads that would make
	// the decoder allocate without bound (and kill this process) are not generated: the corpus case
	// F105i reports the violation with a concrete input.
	sixelGuardOK bool
	r            *hx.Run
	rng          *gen.Rng
	hangs        int
	panics       int
}

func (g *genr) param(w, h int, final string) int {
	r := g.rng
	huge := []int{65535, 65536, 1<<31 - 1, 1 << 31, 1<<63 - 1, -1, -(1 << 62), -9223372036854775808}
	switch k := r.Intn(100); {
	case k < 12:
		return 0
	case k < 30:
		return 1
	case k < 40:
		return 2
	case k < 70:
		return gen.Pick(r, []int{h - 1, h, h + 1, w - 1, w, w + 1, 2 * w, h / 2, w / 2, 3, 8, 9})
	case k < 90:
		return r.Intn(2*(w+h) + 2)
	default:
		v := gen.Pick(r, huge)
		if (final == "E" || final == "F") && (g.hangs >= 2 || !r.Chance(1, 8)) {
			// cnl/cpl iterate ps times: keep the volume of long loops low
			return r.Intn(40)
		}
		return v
	}
}

func (g *genr) sgrParams() string {
	r := g.rng
	n := r.Range(0, 4)
	var parts []string
	for i := 0; i < n; i++ {
		switch r.Intn(12) {
		case 0:
			parts = append(parts, fmt.Sprint(r.Intn(10)))
		case 1:
			parts = append(parts, fmt.Sprint(21+r.Intn(9)))
		case 2:
			parts = append(parts, fmt.Sprint(30+r.Intn(20)))
		case 3:
			parts = append(parts, fmt.Sprint(90+r.Intn(20)))
		case 4:
			parts = append(parts, fmt.Sprintf("%d;5;%d", gen.Pick(r, []int{38, 48, 58}), r.Intn(300)))
		case 5:
			parts = append(parts, fmt.Sprintf("%d;2;%d;%d;%d", gen.Pick(r, []int{38, 48, 58}), r.Intn(300), r.Intn(256), r.Intn(256)))
		case 6:
			parts = append(parts, fmt.Sprintf("%d:5:%d", gen.Pick(r, []int{38, 48, 58}), r.Intn(256)))
		case 7:
			parts = append(parts, fmt.Sprintf("%d:2:%d:%d:%d", gen.Pick(r, []int{38, 48, 58}), r.Intn(256), r.Intn(256), r.Intn(256)))
		case 8:
			parts = append(parts, fmt.Sprintf("%d:2:0:%d:%d:%d", gen.Pick(r, []int{38, 48, 58}), r.Intn(256), r.Intn(256), r.Intn(256)))
		case 9:
			parts = append(parts, fmt.Sprintf("4:%d", r.Intn(7)))
		case 10:
			// malformed / truncated
			parts = append(parts, gen.Pick(r, []string{"38", "38;5", "38;2;1", "48;9;1", "38:5", "38:2:1:2", "58;2;1;2", "38:7:1", "4:1:2", "-1", "9223372036854775807"}))
		default:
			parts = append(parts, fmt.Sprint(r.Intn(120)))
		}
	}
	if len(parts) == 0 {
		return "-"
	}
	return strings.Join(parts, ";")
}

func (g *genr) csiOp(w, h int) string {
	r := g.rng
	final := gen.Pick(r, csiFinals)
	label := hx.Hex(final)
	switch final {
	case "m":
		return "csi " + label + " " + g.sgrParams()
	case "h", "l":
		return fmt.Sprintf("csi %s %d", label, gen.Pick(r, ansiModes))
	case "n":
		// DSR: only 5 (status) and 6 (cursor position) are answered
		return "csi " + label + " " + gen.Pick(r, []string{"5", "6", "6", "-", "0", "7", "5;6", "6:1", "65536"})
	case "?h", "?l", "?$p":
		if r.Chance(1, 5) {
			return fmt.Sprintf("csi %s %d;%d", label, gen.Pick(r, decModes), gen.Pick(r, decModes))
		}
		return fmt.Sprintf("csi %s %d", label, gen.Pick(r, decModes))
	}
	n := 1
	switch k := r.Intn(10); {
	case k < 2:
		n = 0
	case k < 6:
		n = 1
	case k < 9:
		n = 2
	default:
		n = r.Range(3, 6)
	}
	if final == "H" || final == "f" || final == "r" {
		n = gen.Pick(r, []int{0, 1, 2, 2, 2, 2, 3})
	}
	var parts []string
	for i := 0; i < n; i++ {
		p := fmt.Sprint(g.param(w, h, final))
		if r.Chance(1, 25) {
			p += ":" + fmt.Sprint(r.Intn(5))
		}
		parts = append(parts, p)
	}
	if n == 0 {
		return "csi " + label + " -"
	}
	return "csi " + label + " " + strings.Join(parts, ";")
}

func printOp(s string) string { return fmt.Sprintf("print %s %d", hx.Hex(s), uniseg.StringWidth(s)) }

func (g *genr) op(w, h int) string {
	r := g.rng
	switch k := r.Intn(100); {
	case k < 30:
		return printOp(gen.Pick(r, graphemes))
	case k < 40:
		return fmt.Sprintf("c0 %d", gen.Pick(r, []int{7, 8, 9, 10, 11, 12, 13, 14, 15, 0, 27, 9, 10, 13}))
	case k < 50:
		return "esc " + hx.Hex(gen.Pick(r, escLabels))
	case k < 92:
		return g.csiOp(w, h)
	case k < 95:
		p := gen.Pick(r, oscPayloads)
		if r.Chance(1, 2) {
			p = g.oscPayload()
		}
		g.r.Count("osc:" + oscClass(p))
		b := "0"
		if emuh.B64ok(p) {
			b = "1"
		}
		return "osc " + hx.Hex(p) + " " + b
	case k < 96:
		return gen.Pick(r, []string{"apc", "dcs"})
	case k < 98:
		return g.dcsOp()
	default:
		return fmt.Sprintf("resize %d %d", g.size(true), g.size(false))
	}
}

// oscPayload: a selector (known, unknown, empty) and 0..6 further fields split by ';' (empty fields,
// stray separators, non-ASCII, control bytes, long values).
func (g *genr) oscPayload() string {
	r := g.rng
	sel := gen.Pick(r, []string{"0", "2", "8", "9", "11", "52", "777", "1", "4", "10", "104", "7", "", "00", "8 ", "-1", "5 2", "777 "})
	fields := []string{"", "x", "?", "notify", "aGk=", "aGk", "!!", "====", "id=1", "id=1:k=v", "http://x", "c", "p", "é", "世界", "\x00", "\x7f", " ", "title with spaces", strings.Repeat("A", 300), "QUJD", "QUJD\n"}
	n := r.Intn(7) // round 4: up to 6 further fields (5 and more separators were thin: 1-7 cases per selector)
	p := sel
	for i := 0; i < n; i++ {
		p += ";" + gen.Pick(r, fields)
	}
	if r.Chance(1, 10) {
		p += ";"
	}
	return p
}

func oscClass(p string) string {
	i := strings.Index(p, ";")
	if i < 0 {
		return "no-semicolon"
	}
	switch sel := p[:i]; sel {
	case "0", "2", "8", "9", "11", "52", "777":
		return sel + "/" + fmt.Sprint(strings.Count(p, ";")) + "sep"
	default:
		return "other-selector"
	}
}

var sixelFrags = []string{"#", "0", "1", ";", "2", "100", "!", "~", "?", "-", "$", "\"", "@", "A", "255", "#0;2;0;0;0", "#1;2;100;100;100", "!255~", "\"1;1;10;10",
	"!4096~", "!4095~", "!4097~", "!2000~", "! 4096~", "\"1;1;4096;4096", "\"1;1;4097;1", "\"1;1;1;4097", "\"1;1;99999;99999", "4096", "4097", "!999~", "+", "_", "!1_0~", "#1~", "~~~~",
	"\"1;1;10;104294967296", "!4294967296~", "99999999999999999999", "é", "\x00", "\x7f", " "}

// dcsOp: a DCS that reaches the real ansi.DCS branch of update(): final q (sixel) or another one,
// with/without intermediates and parameters, data from sixel fragments around the size limit.
func (g *genr) dcsOp() string {
	r := g.rng
	fin := "q"
	if r.Chance(1, 6) {
		fin = gen.Pick(r, []string{"p", "r", "|", "{"})
	}
	ni, np := 0, 0
	if r.Chance(1, 8) {
		ni = 1
	}
	if r.Chance(1, 8) {
		np = r.Range(1, 2)
	}
	var d string
	switch r.Intn(10) {
	case 0:
		d = ""
	case 1:
		// many sixel lines: the line limit
		d = strings.Repeat("~-", r.Range(600, 700))
	case 2:
		// a long line of plain sixels: the width limit
		d = strings.Repeat("~", r.Range(4000, 4200))
	case 3:
		// a small valid image
		d = "\"1;1;4;6#0;2;0;0;0#1;2;100;0;0#1~~~~$#0????-#1!4~"
	default:
		n := r.Range(1, 12)
		for i := 0; i < n; i++ {
			d += gen.Pick(r, sixelFrags)
		}
	}
	if !g.sixelGuardOK && fin == "q" && ni == 0 && np == 0 {
		g.r.Count("dcs:payload-withheld-guard-ineffective")
		d = "\"1;1;4;6#0;2;0;0;0#0~~~~"
	}
	op := "dcs " + hx.Hex(fin) + " " + fmt.Sprint(ni) + " " + fmt.Sprint(np) + " " + hx.Hex(d)
	return op
}

func (g *genr) size(width bool) int {
	r := g.rng
	switch k := r.Intn(10); {
	case k < 5:
		return r.Range(1, 4)
	case k < 9:
		if width {
			return r.Range(1, 20)
		}
		return r.Range(1, 8)
	default:
		if width {
			return r.Range(20, 80)
		}
		return r.Range(8, 24)
	}
}

// queue a case; the ops are generated up front (sizes tracked through resizes).
func (g *genr) runCase(id string, w, h int, next func(i int, w, h int) (string, bool)) {
	var ops []string
	w0, h0 := w, h
	for i := 0; ; i++ {
		op, ok := next(i, w, h)
		if !ok {
			break
		}
		ops = append(ops, op)
		f := strings.Fields(op)
		if len(f) == 3 && f[0] == "resize" {
			fmt.Sscanf(f[1]+" "+f[2], "%d %d", &w, &h)
		}
	}
	g.jobs = append(g.jobs, emuh.Job{ID: id, W: w0, H: h0, Ops: ops})
	if len(g.jobs) >= 3000 {
		g.flush()
	}
}

func (g *genr) flush() {
	for i, res := range emuh.RunCases(g.jobs, 12) {
		if j := g.jobs[i]; len(j.Prefix) > 0 {
			// round 5: a case whose prefix ran silently carries it in its id, so that the replay of a failure is the
			// whole history (size, prefix, ops) and not only `adopt` + the last op
			g.r.Case(j.ID + " after: " + fmt.Sprintf("new %d %d", j.W, j.H) + " | " + strings.Join(j.Prefix, " | "))
		} else {
			g.r.Case(j.ID)
		}
		for _, l := range res.Lines {
			g.r.Emit(l[0], l[1])
			if f := strings.Fields(l[0]); len(f) > 0 {
				g.r.Count("op:" + f[0])
				// round 4: the arms that only answer the child / are empty / post an event (translated bodies since round 4)
				switch {
				case f[0] == "csi" && len(f) >= 2:
					switch f[1] {
					case "63":
						g.r.Count("arm:csi-DA1")
					case "3e63":
						g.r.Count("arm:csi-DA2")
					case "6e":
						if len(f) >= 3 && (strings.HasPrefix(f[2], "5") || strings.HasPrefix(f[2], "6")) && !strings.HasPrefix(f[2], "65") {
							g.r.Count("arm:csi-DSR-answered")
						} else {
							g.r.Count("arm:csi-DSR-ignored")
						}
					case "2470":
						g.r.Count("arm:csi-$p-empty")
					case "3f2470":
						g.r.Count("arm:csi-DECRQM")
					}
					if len(f) >= 3 && strings.Contains(f[2], ":") && f[1] != "6d" {
						g.r.Count("csi:non-SGR-with-subparameters")
					}
				case f[0] == "esc" && len(f) >= 2 && f[1] == "2338":
					g.r.Count("arm:esc-#8-empty")
				case f[0] == "c0" && len(f) >= 2 && f[1] == "7":
					g.r.Count("arm:c0-BEL")
				}
				if f[0] == "dcs" && len(f) == 5 {
					switch {
					case f[1] != "71":
						g.r.Count("dcs:other-final")
					case f[2] != "0" || f[3] != "0":
						g.r.Count("dcs:q-with-intermediates-or-parameters")
					case strings.Contains(l[1], " tl=1 "):
						g.r.Count("dcs:sixel-refused-too-large")
					case strings.HasSuffix(l[1], " gfx=1"):
						g.r.Count("dcs:sixel-decoded")
					case strings.HasSuffix(l[1], " gfx=0"):
						g.r.Count("dcs:sixel-decoder-error")
					default:
						// the hypothesis on the decoder (tame on payloads that pass the guard) is violated
						g.hypViol++
						g.r.Count("dcs:DECODER-CRASH-WITHIN-LIMIT")
					}
				}
			}
		}
		switch res.Outcome {
		case "":
		case "hang":
			g.hangs++
			g.r.Count("outcome:hang")
		default:
			g.panics++
			g.r.Count("outcome:" + res.Outcome)
			g.r.Count("panic-msg:" + firstLine(res.PanicMsg))
		}
	}
	g.jobs = g.jobs[:0]
}

func firstLine(s string) string {
	if i := strings.IndexByte(s, '\n'); i >= 0 {
		s = s[:i]
	}
	// drop the numbers: one counter per kind of message
	var sb strings.Builder
	prevDigit := false
	for _, c := range s {
		if c >= '0' && c <= '9' {
			if !prevDigit {
				sb.WriteByte('N')
			}
			prevDigit = true
			continue
		}
		prevDigit = false
		sb.WriteRune(c)
	}
	s = sb.String()
	if len(s) > 70 {
		s = s[:70]
	}
	return s
}

func run(r *hx.Run) error {
	g := &genr{r: r, rng: gen.New(r.Seed)}
	if r.Replay != "" {
		t := &emuh.Term{}
		defer t.Close()
		last := ""
		return hx.ReplayOps(r, func(op []string) (string, bool) {
			if len(op) > 0 && strings.HasPrefix(op[0], "#case") {
				// `#case <id> after: new W H | op | op`: run the silent prefix again
				if _, hist, ok := strings.Cut(strings.Join(op, " "), " after: "); ok {
					for _, p := range strings.Split(hist, " | ") {
						last, _ = t.Apply(strings.TrimSpace(p))
					}
				}
				return "-", true
			}
			if len(op) == 1 && op[0] == "adopt" {
				return last, true
			}
			return t.Apply(strings.Join(op, " "))
		})
	}
	{
		_, oc, _ := emuh.RunCase(4, 3, nil, []string{"dcs 71 0 0 " + hx.Hex("\"1;1;4294967296;4294967296")}, 0)
		g.sixelGuardOK = oc == ""
		r.Note("sixel_guard_effective", g.sixelGuardOK)
	}
	// 1. corpus
	for ci, ops := range hx.Corpus("C05") {
		if len(ops) == 0 {
			continue
		}
		var w, h int
		if n, _ := fmt.Sscanf(ops[0], "new %d %d", &w, &h); n != 2 {
			continue
		}
		rest := ops[1:]
		g.runCase(fmt.Sprintf("corpus-%d", ci), w, h, func(i, _, _ int) (string, bool) {
			if i >= len(rest) {
				return "", false
			}
			return rest[i], true
		})
		r.Count("case:corpus")
	}
	g.flush()
	// 2. grammar-generated sequences
	cases := 8000
	maxOps := 30
	if r.Thorough {
		cases = 80000
		maxOps = 40
	}
	for c := 0; c < cases; c++ {
		w, h := g.size(true), g.size(false)
		n := g.rng.Range(1, maxOps)
		g.runCase(fmt.Sprintf("gen-%d", c), w, h, func(i, w, h int) (string, bool) {
			if i >= n {
				return "", false
			}
			return g.op(w, h), true
		})
		r.Count("case:generated")
	}
	// 2b. round 3: styled screens, then resizes (the reflow re-prints every old cell in its own style: F112c)
	styled := 600
	if r.Thorough {
		styled = 6000
	}
	for c := 0; c < styled; c++ {
		rg := g.rng
		w, h := rg.Range(1, 12), rg.Range(1, 6)
		w0, h0 := w, h
		var ops []string
		lines := rg.Range(1, 4)
		for l := 0; l < lines; l++ {
			ops = append(ops, emuh.Csi("m", gen.Pick(rg, []string{"41", "44;1", "38;5;9", "48;2;1;2;3", "7", "4:3", "0", "32;45"})))
			for k := rg.Range(0, w+2); k > 0; k-- {
				ops = append(ops, emuh.Pr(gen.Pick(rg, []string{"a", "b", "x", " ", "世", "é"})))
			}
			if rg.Chance(2, 3) {
				ops = append(ops, "c0 13", "c0 10")
			}
		}
		if rg.Chance(1, 4) {
			ops = append(ops, "esc "+hx.Hex("7"))
		}
		onAlt := rg.Chance(1, 3)
		if onAlt {
			ops = append(ops, emuh.Csi("?h", "1049"))
			r.Count("resize:on-alternate-screen")
		}
		if rg.Chance(1, 2) {
			ops = append(ops, emuh.Csi("m", ""))
			r.Count("resize:pen-default")
		} else {
			ops = append(ops, emuh.Csi("m", gen.Pick(rg, []string{"42", "1;4", "38;2;9;9;9"})))
			r.Count("resize:pen-styled")
		}
		for n := rg.Range(1, 2); n > 0; n-- {
			nw, nh := rg.Range(1, 14), rg.Range(1, 7)
			ops = append(ops, fmt.Sprintf("resize %d %d", nw, nh))
			if nw < w || nh < h {
				r.Count("resize:shrinks")
			} else {
				r.Count("resize:grows-or-same")
			}
			w, h = nw, nh
			ops = append(ops, emuh.Pr("z"))
			if rg.Chance(1, 3) {
				ops = append(ops, "esc "+hx.Hex("8"), emuh.Pr("y"))
			}
		}
		if onAlt && rg.Chance(1, 2) {
			ops = append(ops, emuh.Csi("?l", "1049"))
		}
		idx := 0
		g.runCase(fmt.Sprintf("styled-resize-%d", c), w0, h0, func(i, _, _ int) (string, bool) {
			if idx >= len(ops) {
				return "", false
			}
			idx++
			return ops[idx-1], true
		})
		r.Count("case:styled-resize")
	}
	// 2b. a slice of the C06 bounded-exhaustive sequences (model correspondence on the core vocabulary;
	// the C06 driver itself is the oracle only)
	g.flush()
	{
		n := 0
		for _, wh := range [][2]int{{2, 2}, {3, 2}, {3, 3}, {4, 3}} {
			w, h := wh[0], wh[1]
			full := emuh.Alphabet(w, h, false)
			for _, pre := range emuh.Prefixes(w, h) {
				for _, a := range full {
					g.jobs = append(g.jobs, emuh.Job{ID: fmt.Sprintf("voc1-%d", n), W: w, H: h, Prefix: pre, Ops: []string{emuh.FixParams(a)}})
					n++
					r.Count("case:c06-vocabulary-1")
				}
				pairs := 300
				if r.Thorough {
					pairs = 4000
				}
				for i := 0; i < pairs; i++ {
					ops := []string{emuh.FixParams(gen.Pick(g.rng, full)), emuh.FixParams(gen.Pick(g.rng, full))}
					g.jobs = append(g.jobs, emuh.Job{ID: fmt.Sprintf("voc2-%d", n), W: w, H: h, Prefix: pre, Ops: ops})
					n++
					r.Count("case:c06-vocabulary-2")
				}
				g.flush()
			}
		}
	}
	// 3. raw bytes through the real parser
	fuzz := 2000
	if r.Thorough {
		fuzz = 20000
	}
	for c := 0; c < fuzz; c++ {
		data := g.rawBytes()
		var seqs []string
		p := ansi.NewParser(bytes.NewReader(data))
		timeout := time.After(5 * time.Second)
	read:
		for {
			select {
			case seq, ok := <-p.Next():
				if !ok {
					break read
				}
				if _, eof := seq.(ansi.EOF); eof {
					break read
				}
				// hypotheses of the safety theorem about what the parser delivers (Props/C05Payload.lean
				// `parameters_needed`), checked on the real parser's output
				switch sq := seq.(type) {
				case ansi.Print:
					if sq.Width < 0 {
						g.hypViol++
						r.Count("hyp-VIOLATED:print-width-negative")
					} else {
						r.Count("hyp-ok:print-width>=0")
					}
				case ansi.CSI:
					for _, pp := range sq.Parameters {
						if len(pp) == 0 {
							g.hypViol++
							r.Count("hyp-VIOLATED:csi-parameter-without-value")
						} else {
							r.Count("hyp-ok:csi-parameter-has-value")
						}
					}
				}
				if d, isDcs := seq.(ansi.DCS); isDcs && d.Final == 'q' {
					// sixel payloads go to the external decoder (go-sixel) behind the size guard
					r.Count("fuzz:sixel")
					if !g.sixelGuardOK {
						r.Count("fuzz:sixel-withheld-guard-ineffective")
						continue
					}
				}
				seqs = append(seqs, emuh.OpLine(seq))
			case <-timeout:
				r.Count("fuzz:parser-timeout")
				break read
			}
		}
		w, h := g.size(true), g.size(false)
		g.runCase(fmt.Sprintf("fuzz-%d %s", c, hx.Hex(string(data))), w, h, func(i, _, _ int) (string, bool) {
			if i >= len(seqs) {
				return "", false
			}
			return seqs[i], true
		})
		r.Count("case:rawfuzz")
	}
	g.flush()
	// 5. round 5: what the emulator ANSWERS — `rp <op>` lines carry the bytes written to the pty (DA1, DA2, DSR 5/6 incl. the
	// pending-wrap column, DECRQM for every mode of decrqm() and unknown ones); the driver computes the same bytes from the
	// translated bodies (Model/EmuReply.lean replyOf on Gen/TermBodies.lean)
	{
		rg := g.rng.Fork(0x5e91)
		nrep := 300
		if r.Thorough {
			nrep = 3000
		}
		known := []string{"1", "2", "3", "4", "5", "6", "7", "8", "25", "1000", "1002", "1003", "1006", "1007", "1049", "2004"}
		asked := append([]string{"2027", "0", "9", "12", "2026", "65535", "65536", "1;2", "-", "7:1", "-3"}, known...)
		for c := 0; c < nrep; c++ {
			w, h := rg.Range(1, 12), rg.Range(1, 6)
			var ops []string
			for k := rg.Intn(4); k > 0; k-- {
				if rg.Bool() {
					ops = append(ops, emuh.Csi("?h", gen.Pick(rg, known)))
				} else {
					ops = append(ops, emuh.Csi("?l", gen.Pick(rg, known)))
				}
			}
			for k := rg.Intn(w + 2); k > 0; k-- {
				ops = append(ops, emuh.Pr("x"))
			}
			if rg.Chance(1, 3) {
				ops = append(ops, emuh.Csi("H", fmt.Sprintf("%d;%d", rg.Range(0, h+1), rg.Range(0, w+1))))
			}
			for k := 1 + rg.Intn(4); k > 0; k-- {
				switch rg.Intn(6) {
				case 0:
					ops = append(ops, "rp "+emuh.Csi("c", gen.Pick(rg, []string{"-", "0", "1"})))
					r.Count("reply:DA1")
				case 1:
					ops = append(ops, "rp "+emuh.Csi(">c", gen.Pick(rg, []string{"-", "0"})))
					r.Count("reply:DA2")
				case 2:
					ops = append(ops, "rp "+emuh.Csi("n", gen.Pick(rg, []string{"5", "6", "6", "6", "-", "0", "7", "5;6", "6:1"})))
					r.Count("reply:DSR")
				default:
					ops = append(ops, "rp "+emuh.Csi("?$p", gen.Pick(rg, asked)))
					r.Count("reply:DECRQM")
				}
				if rg.Chance(1, 4) {
					ops = append(ops, emuh.Pr("y"))
				}
			}
			g.jobs = append(g.jobs, emuh.Job{ID: fmt.Sprintf("reply-%d", c), W: w, H: h, Ops: ops})
			r.Count("case:replies")
		}
		g.flush()
	}
	r.Note("hypothesis_violations", g.hypViol)
	r.Note("hangs", g.hangs)
	r.Note("panics", g.panics)
	return nil
}

func (g *genr) rawBytes() []byte {
	r := g.rng
	n := r.Range(1, 60)
	var b []byte
	frag := []string{"\x1b[", "\x1b]", "\x1b", ";", ":", "?", "0", "1", "9", "99999999999999999999", "H", "r", "m", "h", "l", "J", "K", "@", "P", "L", "M", "X", "\a", "\x1b\\", "\r", "\n", "\t", "\b", "世", "é", "a", " ", "\x1bP", "\x1b_", "\x9b", "\x90", "\x18", "$", " ", "!", "4", "1049", "52;c;aGk="}
	for len(b) < n {
		if r.Chance(2, 3) {
			b = append(b, gen.Pick(r, frag)...)
		} else {
			b = append(b, byte(r.Intn(256)))
		}
	}
	return b
}
