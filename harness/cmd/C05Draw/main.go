package main

// C05Draw harness: (*term.Model).Draw into a host window of a real Vaxis on a fake console.
//
// Case := `#case id`, `new W0 H0`, emulator ops (exactly the op lines of the C05 stream, applied
// through emuh), then one line
//
//	draw SW SH X Y W H FOCUSED KIND [X2 Y2 W2 H2]
//
// KIND n: win = vx.Window().New(X,Y,W,H); KIND r: win = Window{Parent: &root, Column: X, Row: Y,
// Width: W, Height: H} (a directly instantiated window, not clamped to the parent); with four more
// numbers the window handed to Draw is win.New(X2,Y2,W2,H2).
// The whole root window is filled with a marker cell first. The impl column of the draw line is
//
//	panic                                         (Draw panicked), or
//	ok|<emulator snapshot after Draw>|cells=C,R,ghex,w,STYLE;…|cur=col,row,visible
//
// cells = every host cell of screenNext that differs from the marker (row-major; `-` if none).
import (
	"fmt"
	"strconv"
	"strings"

	"git.sr.ht/~rockorager/vaxis"
	"github.com/rivo/uniseg"
	"verifharness/cmd/C05/emuh"
	"verifharness/fakeconsole"
	"verifharness/gen"
	"verifharness/hx"
)

func main() { hx.Main("C05Draw", run) }

var marker = vaxis.Cell{Character: vaxis.Character{Grapheme: "<M>", Width: 1}}

type geom struct {
	sw, sh     int
	x, y, w, h int
	kind       string
	nested     bool
	x2, y2     int
	w2, h2     int
}

func (g geom) line(focused bool) string {
	f := "0"
	if focused {
		f = "1"
	}
	s := fmt.Sprintf("draw %d %d %d %d %d %d %s %s", g.sw, g.sh, g.x, g.y, g.w, g.h, f, g.kind)
	if g.nested {
		s += fmt.Sprintf(" %d %d %d %d", g.x2, g.y2, g.w2, g.h2)
	}
	return s
}

// window builds the window handed to Draw (vx may be nil when only the size is wanted).
func (g geom) window(vx *vaxis.Vaxis, root vaxis.Window) vaxis.Window {
	var win vaxis.Window
	if g.kind == "r" {
		win = vaxis.Window{Vx: vx, Parent: &root, Column: g.x, Row: g.y, Width: g.w, Height: g.h}
	} else {
		win = root.New(g.x, g.y, g.w, g.h)
	}
	if g.nested {
		win = win.New(g.x2, g.y2, g.w2, g.h2)
	}
	return win
}

func (g geom) size() (int, int) {
	return g.window(nil, vaxis.Window{Width: g.sw, Height: g.sh}).Size()
}

func parseDraw(f []string) (g geom, focused bool, ok bool) {
	if len(f) != 9 && len(f) != 13 {
		return g, false, false
	}
	n := make([]int, len(f))
	for i, s := range f {
		if i == 0 || i == 7 || i == 8 {
			continue
		}
		v, err := strconv.Atoi(s)
		if err != nil {
			return g, false, false
		}
		n[i] = v
	}
	if f[0] != "draw" || (f[7] != "0" && f[7] != "1") || (f[8] != "n" && f[8] != "r") {
		return g, false, false
	}
	g = geom{sw: n[1], sh: n[2], x: n[3], y: n[4], w: n[5], h: n[6], kind: f[8]}
	if len(f) == 13 {
		g.nested = true
		g.x2, g.y2, g.w2, g.h2 = n[9], n[10], n[11], n[12]
	}
	if g.sw < 1 || g.sh < 1 || g.sw > 500 || g.sh > 500 {
		return g, false, false
	}
	return g, f[7] == "1", true
}

type stats struct {
	r *hx.Run
}

// doDraw runs Draw on the real code and renders the impl column.
func doDraw(t *emuh.Term, g geom, focused bool, r *hx.Run) string {
	if t.VT == nil || t.Dead {
		return "dead"
	}
	fc := fakeconsole.New(g.sw, g.sh, fakeconsole.FromMask(0))
	vx, err := vaxis.New(vaxis.Options{WithConsole: fc, NoSignals: true})
	if err != nil {
		return "error-new"
	}
	defer vx.Close()
	root := vx.Window()
	if rw, rh := root.Size(); rw != g.sw || rh != g.sh {
		return fmt.Sprintf("error-size %dx%d", rw, rh)
	}
	root.Fill(marker)
	win := g.window(vx, root)
	if focused {
		t.VT.Focus()
	} else {
		t.VT.Blur()
	}
	ew, eh := 0, 0
	if st := t.VT.VerifSnapshot(); true {
		ew, eh = st.Cols, st.Rows
	}
	ww, wh := win.Size()
	if ew != ww || eh != wh {
		r.Count("draw:resizes")
	} else {
		r.Count("draw:same-size")
	}
	panicked, msg := hx.Guard(func() { t.VT.Draw(win) })
	if panicked {
		t.Dead = true
		t.VT.VerifClose()
		r.Count("panic-msg:" + firstLine(msg))
		return "panic"
	}
	snap := emuh.Snapshot(t.VT.VerifSnapshot())
	var cells []string
	ox, _ := win.Origin()
	for row, line := range vx.VerifScreenNext() {
		for col, c := range line {
			if c == marker {
				continue
			}
			cells = append(cells, fmt.Sprintf("%d,%d,%s,%d,%s", col, row, hx.Hex(c.Grapheme), c.Width, emuh.Style(c.Style)))
		}
	}
	cs := "-"
	if len(cells) > 0 {
		cs = strings.Join(cells, ";")
	}
	switch {
	case len(cells) == 0:
		r.Count("cells:none-visible")
	case len(cells) < ww*wh:
		r.Count("cells:partly-visible-or-wide")
	default:
		r.Count("cells:all")
	}
	cc, cr, vis := vx.VerifC17Cursor()
	v := "0"
	if vis {
		v = "1"
		switch {
		case cc < 0 || cr < 0 || cc >= g.sw || cr >= g.sh:
			r.Count("cursor:shown-off-screen")
		case cc == ox+ww-1:
			r.Count("cursor:shown-last-column")
		default:
			r.Count("cursor:shown")
		}
	} else {
		r.Count("cursor:hidden")
	}
	return fmt.Sprintf("ok|%s|cells=%s|cur=%d,%d,%s", snap, cs, cc, cr, v)
}

func firstLine(s string) string {
	if i := strings.IndexByte(s, '\n'); i >= 0 {
		s = s[:i]
	}
	var sb strings.Builder
	prevDigit := false
	for _, c := range s {
		if c >= '0' && c <= '9' {
			if !prevDigit {
				sb.WriteByte('N')
			}
			prevDigit = true
			continue
		}
		prevDigit = false
		sb.WriteRune(c)
	}
	s = sb.String()
	if len(s) > 70 {
		s = s[:70]
	}
	return s
}

// apply runs one op line of a case; ok=false if not understood.
func apply(t *emuh.Term, op string, r *hx.Run) (string, bool) {
	f := strings.Fields(op)
	if len(f) > 0 && f[0] == "draw" {
		g, focused, ok := parseDraw(f)
		if !ok {
			return "", false
		}
		return doDraw(t, g, focused, r), true
	}
	return t.Apply(op)
}

func runCase(r *hx.Run, id string, ops []string) {
	r.Case(id)
	t := &emuh.Term{}
	defer t.Close()
	for _, op := range ops {
		res, ok := apply(t, op, r)
		if !ok {
			r.Emit(op, "bad-op")
			return
		}
		r.Emit(op, res)
		if f := strings.Fields(op); len(f) > 0 {
			r.Count("op:" + f[0])
		}
		if t.Dead {
			r.Count("outcome:" + res)
			return
		}
	}
}

var graphemes = []string{"a", "b", "Z", "x", "~", " ", "é", "世", "界", "🔥", "👩‍🚀", "é"}

func printOp(s string) string { return fmt.Sprintf("print %s %d", hx.Hex(s), uniseg.StringWidth(s)) }

func genOps(r *gen.Rng, w, h int) []string {
	var ops []string
	n := r.Range(0, 8)
	for i := 0; i < n; i++ {
		switch k := r.Intn(14); {
		case k < 4:
			ops = append(ops, printOp(gen.Pick(r, graphemes)))
		case k == 4:
			ops = append(ops, fmt.Sprintf("csi 48 %d;%d", r.Range(1, h+1), r.Range(1, w+1)))
		case k == 5:
			ops = append(ops, fmt.Sprintf("csi 4b %d", r.Intn(3)))
		case k == 6:
			ops = append(ops, "csi 6d "+gen.Pick(r, []string{"1", "7", "31", "42", "0", "38;5;200", "48;2;1;2;3", "4", "4:3", "58:5:9", "-"}))
		case k == 7:
			// into the pending-wrap state: last column, print one cell
			ops = append(ops, fmt.Sprintf("csi 48 %d;%d", r.Range(1, h), w), printOp(gen.Pick(r, []string{"a", "q", "é"})))
		case k == 8:
			if r.Chance(2, 3) {
				ops = append(ops, "csi 3f6c 25")
			} else {
				ops = append(ops, "csi 3f68 25")
			}
		case k == 9:
			ops = append(ops, fmt.Sprintf("c0 %d", gen.Pick(r, []int{13, 10, 8, 9})))
		case k == 10:
			// fill a row (ends in the pending-wrap state)
			ops = append(ops, fmt.Sprintf("csi 48 %d;1", r.Range(1, h)))
			for c := 0; c < w && c < 12; c++ {
				ops = append(ops, printOp(string(rune('a'+(c+i)%26))))
			}
		case k == 11:
			// a wide glyph at the last column / across the margin
			ops = append(ops, fmt.Sprintf("csi 48 %d;%d", r.Range(1, h), max1(w-r.Intn(2))), printOp(gen.Pick(r, []string{"世", "🔥"})))
		case k == 12:
			ops = append(ops, gen.Pick(r, []string{"csi 3f68 1049", "csi 3f6c 1049", "csi 3f6c 7", "csi 68 4", "esc 63"}))
		default:
			ops = append(ops, gen.Pick(r, []string{"csi 4a 2", "csi 40 2", "csi 50 1", "csi 4c 1", "csi 72 1;2", "esc 4d", "esc 37", "esc 38"}))
		}
	}
	return ops
}

func max1(n int) int {
	if n < 1 {
		return 1
	}
	return n
}

func genGeom(r *gen.Rng) geom {
	for {
		var g geom
		if r.Chance(1, 6) {
			g.sw, g.sh = r.Range(1, 30), r.Range(1, 12)
		} else {
			g.sw, g.sh = r.Range(1, 10), r.Range(1, 6)
		}
		g.kind = "n"
		if r.Chance(1, 3) {
			g.kind = "r"
		}
		dim := func(n int) int {
			switch k := r.Intn(10); {
			case k == 0:
				return -1
			case k == 1 && r.Chance(1, 3):
				return 0
			case k < 7:
				return r.Range(1, n)
			default:
				return r.Range(1, n+3)
			}
		}
		off := func(n int) int {
			switch k := r.Intn(10); {
			case k < 3:
				return 0
			case k < 8:
				return r.Range(0, n-1)
			case k == 8:
				return r.Range(-3, -1)
			default:
				return r.Range(n-1, n+2)
			}
		}
		g.x, g.y, g.w, g.h = off(g.sw), off(g.sh), dim(g.sw), dim(g.sh)
		if g.kind == "r" && (g.w < 1 || g.h < 1) {
			continue
		}
		if r.Chance(1, 4) {
			g.nested = true
			pw, ph := geom{sw: g.sw, sh: g.sh, x: g.x, y: g.y, w: g.w, h: g.h, kind: g.kind}.size()
			if pw < 1 || ph < 1 {
				continue
			}
			g.x2, g.y2, g.w2, g.h2 = off(pw), off(ph), dim(pw), dim(ph)
		}
		// windows without area (they arise at a parent's edge) are kept now and then: Draw must
		// draw nothing and leave the terminal alone (F105h)
		if w, h := g.size(); (w >= 1 && h >= 1) || r.Chance(1, 4) {
			return g
		}
	}
}

func run(r *hx.Run) error {
	if r.Replay != "" {
		t := &emuh.Term{}
		defer t.Close()
		return hx.ReplayOps(r, func(op []string) (string, bool) {
			if len(op) > 0 && strings.HasPrefix(op[0], "#case") {
				return "-", true
			}
			return apply(t, strings.Join(op, " "), r)
		})
	}
	for ci, ops := range hx.Corpus("C05Draw") {
		runCase(r, fmt.Sprintf("corpus-%d", ci), ops)
		r.Count("case:corpus")
	}
	rng := gen.New(r.Seed)
	cases := 1500
	if r.Thorough {
		cases = 20000
	}
	for c := 0; c < cases; c++ {
		g := genGeom(rng)
		ww, wh := g.size()
		w0, h0 := ww, wh
		if rng.Chance(2, 5) || w0 < 1 || h0 < 1 {
			w0, h0 = rng.Range(1, 10), rng.Range(1, 6)
		}
		ops := []string{fmt.Sprintf("new %d %d", w0, h0)}
		ops = append(ops, genOps(rng, w0, h0)...)
		ops = append(ops, g.line(rng.Bool()))
		runCase(r, fmt.Sprintf("gen-%d", c), ops)
		r.Count("case:generated")
		r.Count("window:" + g.kind)
		if g.nested {
			r.Count("window:nested")
		}
		ox, oy := g.window(nil, vaxis.Window{Width: g.sw, Height: g.sh}).Origin()
		if ox < 0 || oy < 0 || ox+ww > g.sw || oy+wh > g.sh {
			r.Count("window:partly-off-screen")
		} else {
			r.Count("window:on-screen")
		}
	}
	return nil
}
