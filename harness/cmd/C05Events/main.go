package main

// C05Events: "events never stall" on the REAL PTY goroutine. Each op
//
//	loop <hex of the bytes the child writes> <W> <H>
//
// runs term.VerifRunLoop: StartWithSize (the real select loop) on a real PTY with the child
// `cat file`, and reports `closed ev=<n>` (EventClosed arrived; n = events other than
// Redraw/Closed handed to the handler) or `stall` (no EventClosed within the timeout: the
// goroutine is blocked in postEvent).
//
// The alphabet is kept small so that the Lean driver can count the event-raising sequences
// exactly: BEL, `ESC ] <sel> ; text BEL`, `ESC ] <sel> ; text ESC \`, printable ASCII, CR, LF.

import (
	"encoding/hex"
	"fmt"
	"strconv"
	"strings"
	"sync"
	"time"

	"git.sr.ht/~rockorager/vaxis"
	"git.sr.ht/~rockorager/vaxis/widgets/term"
	"verifharness/gen"
	"verifharness/hx"
)

const (
	timeout  = 4 * time.Second
	parallel = 8
)

func main() { hx.Main("C05Events", runC05Events) }

type job struct {
	out  string
	w, h int
}

func (j job) op() string { return fmt.Sprintf("loop %s %d %d", hx.Hex(j.out), j.w, j.h) }

// runOne runs the real loop once.
func runOne(j job) string {
	var res string
	panicked, _ := hx.Guard(func() {
		var evs []vaxis.Event
		var closed bool
		var err error
		for try := 0; try < 3; try++ {
			evs, closed, err = term.VerifRunLoop(j.out, j.w, j.h, timeout)
			if err == nil {
				break
			}
			time.Sleep(50 * time.Millisecond) // pty/fork exhaustion: try again
		}
		if err != nil {
			res = "err"
			return
		}
		if !closed {
			res = "stall"
			return
		}
		n := 0
		for _, ev := range evs {
			switch ev.(type) {
			case vaxis.Redraw, term.EventClosed:
			default:
				n++
			}
		}
		res = fmt.Sprintf("closed ev=%d", n)
	})
	if panicked {
		return "panic"
	}
	return res
}

func parseOp(op []string) (job, bool) {
	if len(op) != 4 || op[0] != "loop" {
		return job{}, false
	}
	var out string
	if op[1] != "-" {
		b, err := hex.DecodeString(op[1])
		if err != nil {
			return job{}, false
		}
		out = string(b)
	}
	w, err1 := strconv.Atoi(op[2])
	h, err2 := strconv.Atoi(op[3])
	if err1 != nil || err2 != nil || w < 1 || h < 1 || w > 500 || h > 500 {
		return job{}, false
	}
	return job{out, w, h}, true
}

// runAll runs the jobs `parallel` at a time and returns the results in job order.
func runAll(jobs []job) []string {
	res := make([]string, len(jobs))
	sem := make(chan struct{}, parallel)
	var wg sync.WaitGroup
	for i := range jobs {
		wg.Add(1)
		sem <- struct{}{}
		go func(i int) {
			defer wg.Done()
			defer func() { <-sem }()
			res[i] = runOne(jobs[i])
		}(i)
	}
	wg.Wait()
	return res
}

const textChars = "abcdefghijklmnopqrstuvwxyzABCDEFGHIJKLMNOPQRSTUVWXYZ0123456789 .,:-_/"

func text(rng *gen.Rng, lo, hi int) string {
	n := rng.Range(lo, hi)
	var sb strings.Builder
	for i := 0; i < n; i++ {
		sb.WriteByte(textChars[rng.Intn(len(textChars))])
	}
	return sb.String()
}

// raiser returns one event-raising sequence and its class.
func raiser(rng *gen.Rng) (string, string) {
	switch rng.Intn(10) {
	case 0, 1, 2, 3, 4:
		return "\a", "bel"
	case 5:
		return "\x1b]0;" + text(rng, 0, 8) + "\a", "title0-bel"
	case 6:
		return "\x1b]2;" + text(rng, 0, 8) + "\x1b\\", "title2-st"
	case 7:
		return "\x1b]9;" + text(rng, 0, 8) + "\x1b\\", "notify9-st"
	case 8:
		return "\x1b]9;" + text(rng, 0, 8) + "\a", "notify9-bel"
	default:
		return "\x1b]777;notify;" + text(rng, 0, 5) + ";" + text(rng, 0, 5) + "\a", "notify777"
	}
}

// filler returns a sequence that raises no event.
func filler(rng *gen.Rng) (string, string) {
	switch rng.Intn(8) {
	case 0:
		return "\r\n", "crlf"
	case 1:
		return "\n", "lf"
	case 2:
		return "\x1b]1;" + text(rng, 0, 6) + "\a", "osc1-silent"
	case 3:
		return "\x1b]777;other;" + text(rng, 0, 4) + "\a", "osc777-silent"
	case 4:
		return "\x1b]0\a", "osc-no-semicolon"
	default:
		return text(rng, 1, 6), "text"
	}
}

func genJob(rng *gen.Rng, r *hx.Run, i int) job {
	// number of event-raising sequences: 0..40, biased to the interesting small counts and
	// to bursts longer than the channel
	var k int
	switch rng.Intn(6) {
	case 0:
		k = rng.Range(0, 2)
	case 1:
		k = rng.Range(3, 5)
	case 2, 3:
		k = rng.Range(6, 20)
	default:
		k = rng.Range(21, 40)
	}
	if r.Thorough && rng.Chance(1, 25) {
		k = rng.Range(41, 300)
	}
	// burstiness: probability (in %) that a filler separates two raisers
	sep := []int{0, 0, 10, 50, 90}[rng.Intn(5)]
	var sb strings.Builder
	if rng.Chance(1, 3) {
		s, _ := filler(rng)
		sb.WriteString(s)
	}
	for n := 0; n < k; n++ {
		s, cls := raiser(rng)
		sb.WriteString(s)
		r.Count("seq:" + cls)
		for rng.Intn(100) < sep {
			f, fc := filler(rng)
			sb.WriteString(f)
			r.Count("fill:" + fc)
			if rng.Bool() {
				break
			}
		}
	}
	if rng.Chance(1, 3) {
		s, _ := filler(rng)
		sb.WriteString(s)
	}
	switch {
	case k == 0:
		r.Count("events:0")
	case k <= 2:
		r.Count("events:1-2")
	case k <= 5:
		r.Count("events:3-5")
	case k <= 20:
		r.Count("events:6-20")
	case k <= 40:
		r.Count("events:21-40")
	default:
		r.Count("events:41+")
	}
	r.Count(fmt.Sprintf("separation:%d%%", sep))
	return job{sb.String(), rng.Range(1, 40), rng.Range(1, 12)}
}

func runC05Events(r *hx.Run) error {
	if r.Replay != "" {
		return hx.ReplayOps(r, func(op []string) (string, bool) {
			j, ok := parseOp(op)
			if !ok {
				return "", false
			}
			return runOne(j), true
		})
	}
	var jobs []job
	var ops []string
	// corpus first
	for _, c := range hx.Corpus("C05Events") {
		for _, line := range c {
			j, ok := parseOp(strings.Fields(line))
			if !ok {
				return fmt.Errorf("corpus: bad op %q", line)
			}
			jobs = append(jobs, j)
			ops = append(ops, line)
			r.Count("corpus")
		}
	}
	// fixed bursts of bells: 0..12 and a long one
	for n := 0; n <= 12; n++ {
		j := job{strings.Repeat("\a", n), 10, 3}
		jobs, ops = append(jobs, j), append(ops, j.op())
		r.Count("fixed-bells")
	}
	rng := gen.New(r.Seed)
	n := 130
	if r.Thorough {
		n = 1480
	}
	for i := 0; i < n; i++ {
		j := genJob(rng, r, i)
		jobs, ops = append(jobs, j), append(ops, j.op())
	}
	res := runAll(jobs)
	for i := range jobs {
		r.Emit(ops[i], res[i])
		switch {
		case res[i] == "stall":
			r.Count("impl:stall")
		case strings.HasPrefix(res[i], "closed"):
			r.Count("impl:closed")
		default:
			r.Count("impl:" + res[i])
		}
	}
	r.Note("timeout_ms", int(timeout/time.Millisecond))
	r.Note("parallel", parallel)
	return nil
}
