package main

// C06 harness: the embedded terminal emulator driven with the core VT vocabulary only. The Lean
// driver runs the reference terminal (Spec.Term) on the same ops and judges the implementation's
// snapshot after every op.
// Streams: corpus; bounded-exhaustive short sequences after setup prefixes on tiny screens
// (the prefix is executed silently and its state handed over with an `adopt` line); random long
// sequences on screens up to 20x8.

import (
	"fmt"
	"strings"

	"verifharness/cmd/C05/emuh"
	"verifharness/gen"
	"verifharness/hx"
)

func main() { hx.Main("C06", run) }

type runner struct {
	r    *hx.Run
	jobs []emuh.Job
}

// seqCase queues a case: prefix silently, adopt, then ops.
func (x *runner) seqCase(id string, w, h int, prefix, ops []string) {
	x.jobs = append(x.jobs, emuh.Job{ID: id, W: w, H: h, Prefix: prefix, Ops: ops})
	if len(x.jobs) >= 4000 {
		x.flush()
	}
}

func (x *runner) flush() {
	for i, res := range emuh.RunCases(x.jobs, 12) {
		if j := x.jobs[i]; len(j.Prefix) > 0 {
			// round 5: the silent prefix travels in the case id, so the replay of a failure is the whole history
			x.r.Case(j.ID + " after: " + fmt.Sprintf("new %d %d", j.W, j.H) + " | " + strings.Join(j.Prefix, " | "))
		} else {
			x.r.Case(j.ID)
		}
		for _, l := range res.Lines {
			x.r.Emit(l[0], l[1])
		}
		if res.Outcome != "" {
			x.r.Count("outcome:" + res.Outcome)
		}
	}
	x.jobs = x.jobs[:0]
}

var sgrVocab = []string{"0", "1", "2", "3", "4", "5", "7", "8", "9", "22", "23", "24", "25", "27", "28", "29",
	"31", "32", "39", "41", "44", "49", "91", "104", "38;5;100", "48;5;17", "38;2;1;2;3", "48;2;200;100;50",
	"38:5:9", "48:2:9:8:7", "4:3", "4:0", "58:5:3", "59", "1;31;42", "",
	// outside the judged vocabulary (terminal specific): the driver re-synchronises
	"6", "21", "38;5;300"}

func randomOp(r *gen.Rng, w, h int) string {
	par := func(size int) string {
		switch k := r.Intn(10); {
		case k < 2:
			return ""
		case k < 3:
			return "0"
		case k < 6:
			return fmt.Sprint(r.Range(1, 3))
		case k < 9:
			return fmt.Sprint(gen.Pick(r, []int{size - 1, size, size + 1, size / 2}))
		default:
			return fmt.Sprint(gen.Pick(r, []int{65535, 70000, 2147483647, 9999}))
		}
	}
	// round 2: one-parameter functions with further parameters (only the first is read)
	extra := func(p string) string {
		if !r.Chance(1, 5) {
			return p
		}
		if p == "" {
			p = "0"
		}
		for n := r.Range(1, 3); n > 0; n-- {
			p += ";" + fmt.Sprint(gen.Pick(r, []int{0, 1, 2, 7, 65535}))
		}
		return p
	}
	extra2 := func(p string) string {
		if !r.Chance(1, 5) {
			return p
		}
		for n := r.Range(1, 3); n > 0; n-- {
			p += ";" + fmt.Sprint(gen.Pick(r, []int{0, 1, 2, 7, 65535}))
		}
		return p
	}
	// round 4: now and then a non-SGR function whose parameter string contains a colon (a VT / xterm ignores the sequence: F106f)
	if r.Chance(1, 150) {
		f := gen.Pick(r, []string{"A", "B", "C", "D", "E", "F", "G", "d", "H", "f", "r", "K", "J", "X", "@", "P", "L", "M", "S", "T"})
		return emuh.Csi(f, gen.Pick(r, []string{"1:5", "2:1", "2:1;2", "1;2:7", "2;1;1:1", "0:0"}))
	}
	switch k := r.Intn(100); {
	case k < 38:
		return emuh.Pr(gen.Pick(r, []string{"a", "b", "c", "x", "y", "z", " ", "é", "世", "界", "🔥", "a", "b"}))
	case k < 44:
		return "c0 13"
	case k < 50:
		return fmt.Sprintf("c0 %d", gen.Pick(r, []int{10, 10, 11, 12}))
	case k < 55:
		// round 3: RIS now and then
		return "esc " + hx.Hex(gen.Pick(r, []string{"D", "E", "M", "7", "8", "D", "E", "M", "7", "8", "D", "E", "M", "7", "8", "c"}))
	case k < 56:
		// round 3: OSC 8 hyperlinks (open with / without parameters, close)
		return "osc " + hx.Hex(gen.Pick(r, []string{"8;;http://a", "8;id=1;http://b", "8;;", "8;id=2;", "8;;x;y"})) + " 0"
	case k < 58:
		return emuh.Csi(gen.Pick(r, []string{"?h", "?l"}), "1049")
	case k < 64:
		// round 3: every fifth two-parameter CUP/HVP carries further parameters (ignored by a VT / xterm)
		return emuh.Csi(gen.Pick(r, []string{"H", "f"}), gen.Pick(r, []string{"", par(h), extra2(par(h) + ";" + par(w)), extra2(";" + par(w))}))
	case k < 68:
		return emuh.Csi(gen.Pick(r, []string{"G", "`"}), extra(par(w)))
	case k < 70:
		return emuh.Csi("d", extra(par(h)))
	case k < 76:
		return emuh.Csi(gen.Pick(r, []string{"A", "B", "E", "F"}), extra(par(h)))
	case k < 80:
		return emuh.Csi(gen.Pick(r, []string{"C", "D"}), extra(par(w)))
	case k < 84:
		return emuh.Csi(gen.Pick(r, []string{"K", "J"}), extra(gen.Pick(r, []string{"", "0", "1", "2"})))
	case k < 89:
		return emuh.Csi(gen.Pick(r, []string{"X", "@", "P"}), extra(par(w)))
	case k < 94:
		return emuh.Csi(gen.Pick(r, []string{"L", "M", "S", "T"}), extra(par(h)))
	case k < 96:
		return emuh.Csi("r", gen.Pick(r, []string{"", extra2(par(h) + ";" + par(h)), extra2(fmt.Sprintf("%d;%d", r.Range(1, h), r.Range(1, h+2))), par(h)}))
	default:
		return emuh.Csi("m", gen.Pick(r, sgrVocab))
	}
}

func fixParams(op string) string {
	// emuh.Csi() helper turns "" into "-"; parameters like ";3" (empty first) are written as 0
	f := strings.Fields(op)
	if len(f) == 3 && f[0] == "csi" && f[2] != "-" {
		parts := strings.Split(f[2], ";")
		for i, p := range parts {
			if p == "" {
				parts[i] = "0"
			}
		}
		f[2] = strings.Join(parts, ";")
		return strings.Join(f, " ")
	}
	return op
}

func run(r *hx.Run) error {
	x := &runner{r: r}
	rng := gen.New(r.Seed)
	if r.Replay != "" {
		t := &emuh.Term{}
		defer t.Close()
		last := ""
		return hx.ReplayOps(r, func(op []string) (string, bool) {
			if len(op) > 0 && strings.HasPrefix(op[0], "#case") {
				// `#case <id> after: new W H | op | op`: run the silent prefix again
				if _, hist, ok := strings.Cut(strings.Join(op, " "), " after: "); ok {
					for _, p := range strings.Split(hist, " | ") {
						last, _ = t.Apply(strings.TrimSpace(p))
					}
				}
				return "-", true
			}
			if len(op) == 1 && op[0] == "adopt" {
				return last, true
			}
			return t.Apply(strings.Join(op, " "))
		})
	}
	for ci, ops := range hx.Corpus("C06") {
		var w, h int
		if n, _ := fmt.Sscanf(ops[0], "new %d %d", &w, &h); n != 2 {
			continue
		}
		x.seqCase(fmt.Sprintf("corpus-%d", ci), w, h, nil, ops[1:])
		r.Count("case:corpus")
	}
	screens := [][2]int{{2, 2}, {3, 2}, {3, 3}, {4, 3}}
	n := 0
	for _, wh := range screens {
		w, h := wh[0], wh[1]
		full := emuh.Alphabet(w, h, false)
		red := emuh.Alphabet(w, h, true)
		for pi, pre := range emuh.Prefixes(w, h) {
			// length 1: full alphabet
			for _, a := range full {
				x.seqCase(fmt.Sprintf("x1-%d", n), w, h, pre, []string{fixParams(a)})
				n++
				r.Count("case:exhaustive-1")
			}
			// length 2
			first, second := red, full
			if r.Thorough {
				first = full
			}
			for _, a := range first {
				for _, b := range second {
					x.seqCase(fmt.Sprintf("x2-%d", n), w, h, pre, []string{fixParams(a), fixParams(b)})
					n++
					r.Count("case:exhaustive-2")
				}
			}
			// length 3 (and 4 in the thorough tier): reduced alphabet, sampled
			samples := 400
			if r.Thorough {
				samples = 3000
			}
			for i := 0; i < samples; i++ {
				k := 3
				if r.Thorough && i%2 == 1 {
					k = 4
				}
				var ops []string
				for j := 0; j < k; j++ {
					if j == k-1 {
						ops = append(ops, fixParams(gen.Pick(rng, full)))
					} else {
						ops = append(ops, fixParams(gen.Pick(rng, red)))
					}
				}
				x.seqCase(fmt.Sprintf("x%d-%d", k, n), w, h, pre, ops)
				n++
				r.Count(fmt.Sprintf("case:sampled-%d", k))
			}
			_ = pi
		}
	}
	r.Note("exhaustive", false)
	r.Note("bounded-exhaustive", "length 1 over the full alphabet, length 2 over reduced×full (quick) / full×full (thorough), after 5-6 setup prefixes on 2x2, 3x2, 3x3, 4x3")
	// random long sequences
	cases := 2500
	if r.Thorough {
		cases = 12000
	}
	for c := 0; c < cases; c++ {
		w, h := rng.Range(2, 20), rng.Range(2, 8)
		if rng.Chance(1, 3) {
			w, h = rng.Range(2, 5), rng.Range(2, 4)
		}
		k := rng.Range(5, 40)
		var ops []string
		for j := 0; j < k; j++ {
			ops = append(ops, fixParams(randomOp(rng, w, h)))
		}
		x.seqCase(fmt.Sprintf("rnd-%d", c), w, h, nil, ops)
		r.Count("case:random")
	}
	x.flush()
	return nil
}
