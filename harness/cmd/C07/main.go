package main

import (
	"fmt"

	"git.sr.ht/~rockorager/vaxis"
	"verifharness/gen"
	"verifharness/hx"
)

// C07 colour fallback: Color.asIndex on boundary-rich colours (quick) or all 2^24 (thorough).
func main() { hx.Main("C07", runC07) }

func runC07(r *hx.Run) error {
	rng := gen.New(r.Seed)
	emit := func(c vaxis.Color) {
		res := vaxis.VerifAsIndex(c)
		r.Emit(fmt.Sprintf("asindex %d", uint32(c)), fmt.Sprintf("%d", uint32(res)))
	}
	if r.Replay != "" {
		return hx.ReplayOps(r, func(op []string) (string, bool) {
			if len(op) == 2 && op[0] == "asindex" {
				var c uint32
				fmt.Sscanf(op[1], "%d", &c)
				return fmt.Sprintf("%d", uint32(vaxis.VerifAsIndex(vaxis.Color(c)))), true
			}
			return "", false
		})
	}
	// non-RGB colours: default and every index, plus odd flag combinations
	emit(0)
	r.Count("default")
	for i := 0; i < 256; i++ {
		emit(vaxis.IndexColor(uint8(i)))
		r.Count("indexed")
	}
	// the palette's own colours and their neighbours
	levels := []int{0, 95, 135, 175, 215, 255}
	for _, a := range levels {
		for _, b := range levels {
			for _, c := range levels {
				emit(vaxis.RGBColor(uint8(a), uint8(b), uint8(c)))
				r.Count("rgb-cube-exact")
			}
		}
	}
	for k := 0; k < 24; k++ {
		v := uint8(8 + 10*k)
		emit(vaxis.RGBColor(v, v, v))
		r.Count("rgb-grey-exact")
	}
	if r.Thorough {
		// all 2^24 direct colours, 256 per line (blue channel packed)
		const hexd = "0123456789abcdef"
		buf := make([]byte, 512)
		for rr := 0; rr < 256; rr++ {
			for gg := 0; gg < 256; gg++ {
				for bb := 0; bb < 256; bb++ {
					i := uint8(uint32(vaxis.VerifAsIndex(vaxis.RGBColor(uint8(rr), uint8(gg), uint8(bb)))))
					buf[2*bb], buf[2*bb+1] = hexd[i>>4], hexd[i&15]
				}
				r.Emit(fmt.Sprintf("asrange %d %d", rr, gg), string(buf))
			}
		}
		r.Add("rgb-all", 1<<24)
		r.Note("exhaustive", true)
		return nil
	}
	bnd := []int{0, 1, 2, 8, 9, 0x12, 0x2f, 0x30, 0x5e, 0x5f, 0x60, 0x72, 0x73, 0x86, 0x87, 0x88, 0x9b, 0xaf, 0xd7, 0xee, 0xef, 0xfe, 0xff}
	for _, a := range bnd {
		for _, b := range bnd {
			for _, c := range bnd {
				emit(vaxis.RGBColor(uint8(a), uint8(b), uint8(c)))
				r.Count("rgb-boundary")
			}
		}
	}
	for i := 0; i < 40000; i++ {
		emit(vaxis.HexColor(uint32(rng.U64() & 0xFFFFFF)))
		r.Count("rgb-random")
	}
	// HexColor with stray high bits (both flags set etc.)
	for i := 0; i < 200; i++ {
		emit(vaxis.Color(uint32(rng.U64())))
		r.Count("raw-uint32")
	}
	return nil
}
