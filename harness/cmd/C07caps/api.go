package main

// API writers: what the application-facing calls that write an escape sequence put on the wire,
// for random capability sets.  One line per call:
//
//	api <19 advertised bits> <name> a=<hex> b=<hex>   ⇥   <hex of the bytes written by the call>
//
// names: clipboard-push (a = text), clipboard-pop, notify (a = title, b = body), title (a), appid (a), bell,
// cursorpos, qcolor (a = decimal index), qfg, qbg.  The colour queries must write nothing unless the
// terminal advertised the report.
import (
	"context"
	"fmt"
	"image"
	"strconv"
	"strings"
	"time"

	"git.sr.ht/~rockorager/vaxis"
	"verifharness/fakeconsole"
	"verifharness/gen"
	"verifharness/hx"
)

var apiTexts = []string{"", "a", "hello world", "x;y", "50%", "%s%d", "tab\there", "~!@#$^&*()_+{}|:<>?", "0123456789012345678901234567890123456789", "a=b", "\\", "]0;x"}

func apiCase(r *hx.Run, rng *gen.Rng) error {
	adv := uint32(rng.U64()) & (1<<19 - 1)
	if rng.Chance(1, 3) {
		adv |= 1<<8 | 1<<9 | 1<<10
	}
	fc := fakeconsole.New(10, 4, fakeconsole.FromMask(adv))
	fc.XPix, fc.YPix = 100, 80
	vx, err := vaxis.New(vaxis.Options{WithConsole: fc, NoSignals: true})
	if err != nil {
		return err
	}
	defer func() {
		fc.Respond = nil
		done := make(chan struct{})
		go func() { defer func() { recover() }(); vx.Close(); close(done) }()
		select {
		case <-done:
		case <-time.After(3 * time.Second):
			r.Count("api-close-hang")
		}
	}()
	stop := make(chan struct{})
	defer close(stop)
	go func() {
		for {
			select {
			case <-vx.Events():
			case <-stop:
				return
			}
		}
	}()
	for i := rng.Range(3, 10); i > 0; i-- {
		name := gen.Pick(rng, []string{"clipboard-push", "clipboard-pop", "notify", "title", "appid", "bell", "cursorpos", "qcolor", "qfg", "qbg", "newimage"})
		a, b := "", ""
		fc.Take()
		finished := make(chan struct{})
		go func() {
			defer close(finished)
			defer func() { recover() }()
			switch name {
			case "clipboard-push":
				a = gen.Pick(rng, apiTexts)
				vx.ClipboardPush(a)
			case "clipboard-pop":
				ctx, cancel := context.WithCancel(context.Background())
				cancel()
				_, _ = vx.ClipboardPop(ctx)
			case "notify":
				a, b = gen.Pick(rng, apiTexts), gen.Pick(rng, apiTexts)
				vx.Notify(a, b)
			case "title":
				a = gen.Pick(rng, apiTexts)
				vx.SetTitle(a)
			case "appid":
				a = gen.Pick(rng, apiTexts)
				vx.SetAppID(a)
			case "bell":
				vx.Bell()
			case "newimage":
				im, err := vx.NewImage(image.NewRGBA(image.Rect(0, 0, 2, 2)))
				switch {
				case err != nil:
					a = "none"
				default:
					a = strings.TrimPrefix(fmt.Sprintf("%T", im), "*vaxis.")
				}
			case "cursorpos":
				vx.CursorPosition()
			case "qcolor":
				idx := rng.Intn(256)
				a = strconv.Itoa(idx)
				fc.Respond = func(c *fakeconsole.Console, written []byte) []byte {
					if strings.Contains(string(written), "\x1b]4;") {
						return []byte(fmt.Sprintf("\x1b]4;%d;rgb:12/34/56\x1b\\", idx))
					}
					return nil
				}
				vx.QueryColor(vaxis.IndexColor(uint8(idx)))
				fc.Respond = nil
			case "qfg", "qbg":
				n := map[string]string{"qfg": "10", "qbg": "11"}[name]
				fc.Respond = func(c *fakeconsole.Console, written []byte) []byte {
					if strings.Contains(string(written), "\x1b]"+n+";?") {
						return []byte("\x1b]" + n + ";rgb:12/34/56\x1b\\")
					}
					return nil
				}
				if name == "qfg" {
					vx.QueryForeground()
				} else {
					vx.QueryBackground()
				}
				fc.Respond = nil
			}
		}()
		hung := false
		select {
		case <-finished:
		case <-time.After(2 * time.Second):
			hung = true
		}
		if hung {
			// the call never returned (e.g. a colour query waiting for an answer the input loop does not forward)
			r.Emit(fmt.Sprintf("api %019b %s a=%s b=%s", adv, name, hx.Hex(a), hx.Hex(b)), "hang:"+hx.Hex(string(fc.Take())))
			r.Count("api-hang")
			return nil
		}
		out := fc.Take()
		r.Emit(fmt.Sprintf("api %019b %s a=%s b=%s", adv, name, hx.Hex(a), hx.Hex(b)), hx.Hex(string(out)))
		r.Count("api-" + name)
	}
	return nil
}
