package main

// Image objects at run time (round 4): for every subset of the graphics advertisements (DA1 attribute 4,
// XTSMGRAPHICS reply, kitty graphics reply) crossed with how the pixel size is known and with random
// other capabilities, a real `vx.NewImage` of a small in-memory picture is resized, drawn into a
// window, rendered over several real frames, and destroyed.  One line per scenario (the op line
// determines the scenario completely, so a replay re-runs it):
//
//	img <19 advertised bits> sc=<cols>x<rows> px=<xpix>x<ypix> im=<kind>:<w>x<h>:<seed> rs=<w>x<h> win=<x>,<y>,<w>,<h> mv=<n>
//	  ⇥ cls=<type> cell=<w>x<h> w1=<w>x<h> w3=<w>x<h> new=<hex> resize=<hex> f1=<hex> f2=<hex> f3=<hex> f4=<hex> destroy=<hex> f5=<hex>
//
// new = what NewImage wrote; resize = what Resize wrote (after its goroutine has finished); f1 = first
// frame with the image drawn; f2 = the same frame again; f3 = the image moved by mv columns (mv = 0:
// vx.Refresh() instead); f4 = a frame without the image; destroy = what Destroy wrote; f5 = one more frame.
// cell = CellSize() after Resize, w1 / w3 = the sizes of the windows drawn into.  Times in here are
// failure time-outs only: a time-out yields `timeout:<phase>`, which the driver does not judge.
import (
	"fmt"
	"image"
	"image/color"
	"runtime"
	"strconv"
	"strings"
	"time"

	"git.sr.ht/~rockorager/vaxis"
	"verifharness/fakeconsole"
	"verifharness/gen"
	"verifharness/hx"
)

type imgCase struct {
	adv                uint32
	cols, rows         int
	xpix, ypix         int
	kind, iw, ih       int
	seed               uint64
	rw, rh             int
	wx, wy, ww, wh, mv int
}

func (c imgCase) op() string {
	return fmt.Sprintf("img %019b sc=%dx%d px=%dx%d im=%d:%dx%d:%d rs=%dx%d win=%d,%d,%d,%d mv=%d",
		c.adv, c.cols, c.rows, c.xpix, c.ypix, c.kind, c.iw, c.ih, c.seed, c.rw, c.rh, c.wx, c.wy, c.ww, c.wh, c.mv)
}

func parseImgOp(f []string) (imgCase, bool) {
	var c imgCase
	if len(f) != 8 || f[0] != "img" {
		return c, false
	}
	a, err := strconv.ParseUint(f[1], 2, 32)
	if err != nil {
		return c, false
	}
	c.adv = uint32(a)
	n := 0
	n1, _ := fmt.Sscanf(f[2], "sc=%dx%d", &c.cols, &c.rows)
	n2, _ := fmt.Sscanf(f[3], "px=%dx%d", &c.xpix, &c.ypix)
	n3, _ := fmt.Sscanf(f[4], "im=%d:%dx%d:%d", &c.kind, &c.iw, &c.ih, &c.seed)
	n4, _ := fmt.Sscanf(f[5], "rs=%dx%d", &c.rw, &c.rh)
	n5, _ := fmt.Sscanf(f[6], "win=%d,%d,%d,%d", &c.wx, &c.wy, &c.ww, &c.wh)
	n6, _ := fmt.Sscanf(f[7], "mv=%d", &c.mv)
	n = n1 + n2 + n3 + n4 + n5 + n6
	if n != 2+2+4+2+4+1 || c.cols < 1 || c.rows < 1 || c.cols > 500 || c.rows > 500 || c.iw < 1 || c.ih < 1 || c.iw > 2000 || c.ih > 2000 {
		return c, false
	}
	return c, true
}

// picture builds the in-memory image of a case (deterministic in kind, size and seed).
func picture(c imgCase) image.Image {
	rng := gen.New(c.seed*2654435761 + 17)
	r := image.Rect(0, 0, c.iw, c.ih)
	switch c.kind {
	case 1: // noise: incompressible, so that the kitty transmission needs several chunks when large
		im := image.NewRGBA(r)
		for i := range im.Pix {
			im.Pix[i] = byte(rng.Intn(256))
			if i%4 == 3 {
				im.Pix[i] = 255
			}
		}
		return im
	case 2: // non-premultiplied with transparent and half-transparent pixels
		im := image.NewNRGBA(r)
		for y := 0; y < c.ih; y++ {
			for x := 0; x < c.iw; x++ {
				a := []uint8{0, 30, 128, 255}[rng.Intn(4)]
				im.SetNRGBA(x, y, color.NRGBA{uint8(rng.Intn(256)), uint8(rng.Intn(256)), uint8(rng.Intn(256)), a})
			}
		}
		return im
	case 3: // paletted (the sixel fast path)
		pal := color.Palette{color.RGBA{0, 0, 0, 255}, color.RGBA{255, 0, 0, 255}, color.RGBA{0, 255, 0, 255}, color.RGBA{0, 0, 255, 255}, color.RGBA{255, 255, 255, 255}}
		im := image.NewPaletted(r, pal)
		for i := range im.Pix {
			im.Pix[i] = uint8(rng.Intn(len(pal)))
		}
		return im
	default: // two flat halves
		im := image.NewRGBA(r)
		a := color.RGBA{uint8(rng.Intn(256)), uint8(rng.Intn(256)), uint8(rng.Intn(256)), 255}
		b := color.RGBA{uint8(rng.Intn(256)), uint8(rng.Intn(256)), uint8(rng.Intn(256)), 255}
		for y := 0; y < c.ih; y++ {
			for x := 0; x < c.iw; x++ {
				if 2*y < c.ih {
					im.SetRGBA(x, y, a)
				} else {
					im.SetRGBA(x, y, b)
				}
			}
		}
		return im
	}
}

// lexCount: distribution counters only (the judging lexer is the Lean driver's).
func lexCount(r *hx.Run, b []byte) {
	s := string(b)
	for i := 0; i+1 < len(s); i++ {
		if s[i] != 0x1b {
			continue
		}
		rest := s[i:]
		switch {
		case strings.HasPrefix(rest, "\x1b_G"):
			end := strings.Index(rest, "\x1b\\")
			ctl := rest
			if end >= 0 {
				ctl = rest[:end]
			}
			if k := strings.IndexByte(ctl, ';'); k >= 0 {
				ctl = ctl[:k]
			}
			switch {
			case strings.Contains(ctl, "a=p"):
				r.Count("img-apc-place")
			case strings.Contains(ctl, "a=d"):
				r.Count("img-apc-delete")
			case strings.Contains(ctl, "m=1"):
				r.Count("img-apc-transmit-more")
			case strings.Contains(ctl, "m=0"):
				r.Count("img-apc-transmit-last")
			default:
				r.Count("img-apc-other")
			}
		case strings.HasPrefix(rest, "\x1bP"):
			r.Count("img-dcs")
		}
	}
}

func imgRun(r *hx.Run, c imgCase) (string, error) {
	fc := fakeconsole.New(c.cols, c.rows, fakeconsole.FromMask(c.adv))
	fc.XPix, fc.YPix = c.xpix, c.ypix
	vx, err := vaxis.New(vaxis.Options{WithConsole: fc, NoSignals: true})
	if err != nil {
		return "", err
	}
	defer func() {
		fc.Respond = nil
		done := make(chan struct{})
		go func() { defer func() { recover() }(); vx.Close(); close(done) }()
		select {
		case <-done:
		case <-time.After(3 * time.Second):
			r.Count("img-close-hang")
		}
	}()
	stop := make(chan struct{})
	defer close(stop)
	go func() { // keep the event queue moving (Redraw of the encoders, start-up leftovers)
		for {
			select {
			case <-vx.Events():
			case <-stop:
				return
			}
		}
	}()
	var out strings.Builder
	timeout := ""
	phase := func(name string, f func()) bool {
		if timeout != "" {
			return false
		}
		finished := make(chan struct{})
		panicked := false
		go func() {
			defer close(finished)
			defer func() {
				if e := recover(); e != nil {
					panicked = true
				}
			}()
			f()
		}()
		select {
		case <-finished:
		case <-time.After(5 * time.Second):
			timeout = name
			return false
		}
		b := fc.Take()
		lexCount(r, b)
		if panicked {
			fmt.Fprintf(&out, " %s=panic:%s", name, hx.Hex(string(b)))
			r.Count("img-panic-" + name)
			return true
		}
		fmt.Fprintf(&out, " %s=%s", name, hx.Hex(string(b)))
		return true
	}
	fc.Take()
	var im vaxis.Image
	cls := "none"
	var head strings.Builder
	phase("new", func() {
		var err error
		im, err = vx.NewImage(picture(c))
		if err == nil && im != nil {
			cls = strings.TrimPrefix(fmt.Sprintf("%T", im), "*vaxis.")
		} else {
			im = nil
		}
	})
	r.Count("img-class-" + cls)
	if im == nil {
		return "cls=" + cls + " cell=0x0 w1=0x0 w3=0x0" + out.String(), nil
	}
	cw, ch := 0, 0
	phase("resize", func() {
		im.Resize(c.rw, c.rh)
		switch k := im.(type) {
		case *vaxis.KittyImage, *vaxis.Sixel:
			// Resize sets the object's `encoding` flag before it starts the encoder goroutine; the goroutine posts
			// Redraw (drained below) and clears the flag when it returns: wait for the flag (synchronisation only;
			// the time-out of the phase is the failure bound, no verdict depends on it)
			for {
				busy := false
				if ki, ok := k.(*vaxis.KittyImage); ok {
					busy, _ = ki.VerifC20State()
				} else {
					w, h := k.CellSize()
					busy = w == 0 && h == 0
				}
				if !busy {
					break
				}
				runtime.Gosched()
				time.Sleep(20 * time.Microsecond)
			}
		}
		cw, ch = im.CellSize()
	})
	root := vx.Window()
	w1 := root.New(c.wx, c.wy, c.ww, c.wh)
	w3 := w1
	if c.mv > 0 {
		w3 = root.New(c.wx+c.mv, c.wy, c.ww, c.wh)
	}
	phase("f1", func() { root.Clear(); im.Draw(w1); vx.Render() })
	phase("f2", func() { root.Clear(); im.Draw(w1); vx.Render() })
	phase("f3", func() {
		root.Clear()
		im.Draw(w3)
		if c.mv > 0 {
			vx.Render()
		} else {
			vx.Refresh()
		}
	})
	phase("f4", func() { root.Clear(); vx.Render() })
	phase("destroy", func() { im.Destroy() })
	phase("f5", func() { root.Clear(); vx.Render() })
	a, b := w1.Size()
	d, e := w3.Size()
	fmt.Fprintf(&head, "cls=%s cell=%dx%d w1=%dx%d w3=%dx%d", cls, cw, ch, a, b, d, e)
	if timeout != "" {
		r.Count("img-timeout-" + timeout)
		return head.String() + out.String() + " timeout:" + timeout, nil
	}
	return head.String() + out.String(), nil
}

func imgEmit(r *hx.Run, c imgCase) error {
	res, err := imgRun(r, c)
	if err != nil {
		return err
	}
	r.Emit(c.op(), res)
	r.Count("img")
	return nil
}

// imgCases: the graphics advertisements are enumerated completely (2^3), crossed with the three ways the
// pixel size can be (in-band report with pixels / in-band report without pixels / no report: only the
// first lets NewImage use a pixel protocol), each with `per` random settings of the other capabilities.
func imgCases(r *hx.Run, rng *gen.Rng, per int) error {
	for g := 0; g < 8; g++ {
		for pixMode := 0; pixMode < 3; pixMode++ {
			for i := 0; i < per; i++ {
				k := rng.Fork(uint64(g*1000 + pixMode*100 + i))
				adv := uint32(k.U64()) & (1<<19 - 1)
				adv &^= 1<<0 | 1<<5 | 1<<17 | 1<<14
				if g&1 != 0 {
					adv |= 1 << 0
				}
				if g&2 != 0 {
					adv |= 1 << 17
				}
				if g&4 != 0 {
					adv |= 1 << 5
				}
				c := imgCase{adv: adv, cols: gen.Pick(k, []int{10, 16, 20}), rows: gen.Pick(k, []int{4, 6, 8})}
				switch pixMode {
				case 0:
					c.adv |= 1 << 14
					c.xpix, c.ypix = c.cols*k.Range(2, 9), c.rows*k.Range(2, 17)
				case 1:
					c.adv |= 1 << 14
				default:
					c.xpix, c.ypix = c.cols*8, c.rows*16 // known to the console only: vaxis never learns it
				}
				c.kind = k.Intn(4)
				c.iw, c.ih = k.Range(1, 24), k.Range(1, 24)
				if c.kind == 1 && k.Chance(1, 3) {
					c.iw, c.ih = k.Range(40, 64), k.Range(40, 64) // several transmission chunks
				}
				// keep the aspect ratio moderate so that no side is scaled to zero pixels
				if c.iw > 4*c.ih {
					c.iw = 4 * c.ih
				}
				if c.ih > 4*c.iw {
					c.ih = 4 * c.iw
				}
				c.seed = k.U64() % 1000000
				c.rw, c.rh = k.Range(1, c.cols), k.Range(1, c.rows)
				// a picture scaled down to zero pixels on one side cannot be encoded at all (C20's ground): keep the
				// scenarios to pictures that survive the resize under both cell geometries in play
				for try := 0; ; try++ {
					cpw, cph := 1, 1
					if c.xpix/c.cols > 0 {
						cpw = c.xpix / c.cols
					}
					if c.ypix/c.rows > 0 {
						cph = c.ypix / c.rows
					}
					a1, b1 := vaxis.VerifResizeDims(c.iw, c.ih, c.rw, c.rh, cpw, cph)
					a2, b2 := vaxis.VerifResizeDims(c.iw, c.ih, c.rw, c.rh, 1, 2)
					if a1 > 0 && b1 > 0 && a2 > 0 && b2 > 0 {
						break
					}
					if try > 12 {
						break
					}
					if try > 8 {
						c.iw, c.ih, c.rw, c.rh = 2, 2, c.cols, c.rows
						r.Count("img-resize-fallback")
						continue
					}
					c.rw, c.rh = k.Range(1, c.cols), k.Range(1, c.rows)
				}
				c.wx, c.wy = k.Range(0, c.cols/2), k.Range(0, c.rows/2)
				c.ww, c.wh = k.Range(1, c.cols), k.Range(1, c.rows)
				if k.Chance(1, 2) {
					c.ww, c.wh = c.cols, c.rows // clipped to the screen: usually large enough
				}
				if k.Chance(2, 3) {
					c.mv = k.Range(1, 3)
				}
				switch i {
				case 0: // a large incompressible picture shown on the whole screen: several transmission chunks
					c.kind, c.iw, c.ih = 1, k.Range(48, 64), k.Range(48, 64)
					if pixMode == 0 {
						c.cols, c.rows = 20, 8
						c.xpix, c.ypix = c.cols*8, c.rows*16 // large enough to show it unscaled
					}
					c.rw, c.rh, c.wx, c.wy, c.ww, c.wh, c.mv = c.cols, c.rows, 0, 0, c.cols, c.rows, 0
				case 1: // a single pixel in the corner, then moved
					c.iw, c.ih, c.rw, c.rh, c.wx, c.wy, c.ww, c.wh, c.mv = 1, 1, 1, 1, 0, 0, 2, 2, 1
				}
				r.Count(fmt.Sprintf("img-graphics-%03b-pix%d", g, pixMode))
				if err := imgEmit(r, c); err != nil {
					return err
				}
			}
		}
	}
	r.Note("img-graphics-subsets-exhaustive", true)
	return nil
}
