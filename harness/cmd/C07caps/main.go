// Harness for C07 (capability detection and width method): real vaxis.New on the fake console for
// every advertised capability subset; Can* accessors and detected flags; RenderedWidth under each
// method against the three candidate measurements computed with uniseg / runewidth directly.
package main

import (
	"fmt"
	"os"
	"strings"
	"time"

	"verifharness/cmd/C03/inp"

	"git.sr.ht/~rockorager/vaxis"
	"github.com/mattn/go-runewidth"
	"github.com/rivo/uniseg"
	"verifharness/fakeconsole"
	"verifharness/gen"
	"verifharness/hx"
)

func main() { hx.Main("C07caps", run) }

var order = []string{"sixels", "synchronizedUpdate", "unicodeCore", "colorThemeUpdates", "kittyKeyboard", "kittyGraphics", "rgb",
	"styledUnderlines", "osc4", "osc10", "osc11", "osc176", "reportSizePixels", "reportSizeChars", "inBandResize", "explicitWidth", "noZWJ"}

func bits(m map[string]bool) string {
	var sb strings.Builder
	for _, k := range order {
		if m[k] {
			sb.WriteByte('1')
		} else {
			sb.WriteByte('0')
		}
	}
	return sb.String()
}

func b01(b bool) byte {
	if b {
		return '1'
	}
	return '0'
}

func wcw(s string) int {
	t := 0
	for _, r := range s {
		if (r >= 0xFE00 && r <= 0xFE0F) || (r >= 0xE0100 && r <= 0xE01EF) {
			continue
		}
		t += runewidth.RuneWidth(r)
	}
	return t
}

var graphemes = []string{"a", " ", "é", "é", "世", "\U0001F525", "\U0001F469‍\U0001F680", "\U0001F1E9\U0001F1EA", "​", "", "❤️", "\U0001F44D\U0001F3FD", "ab世", "\t"}

func one(r *hx.Run, adv uint32, initCol int, version string) error {
	caps := fakeconsole.FromMask(adv)
	fc := fakeconsole.New(10, 4, caps)
	fc.InitCol = initCol
	fc.VersionString = version
	fc.NegativeTcap = (adv>>3^uint32(initCol))%3 == 0 // some terminals answer unknown capabilities explicitly
	if fc.NegativeTcap {
		r.Count("negative-tcap-replies")
	}
	fc.XPix, fc.YPix = 100, 80
	vx, err := vaxis.New(vaxis.Options{WithConsole: fc, NoSignals: true})
	if err != nil {
		return err
	}
	defer vx.Close()
	c, _, _, _ := vx.VerifCaps()
	can := string([]byte{b01(vx.CanSixel()), b01(vx.CanRGB()), b01(vx.CanKittyGraphics()), b01(vx.CanReportColor()),
		b01(vx.CanReportForegroundColor()), b01(vx.CanReportBackgroundColor()), b01(vx.CanSetAppID())})
	kitty := 0
	if strings.HasPrefix(version, "kitty") {
		kitty = 1
	}
	r.Emit(fmt.Sprintf("caps %019b %d %d", adv, initCol, kitty), bits(c)+" "+can)
	r.Count("caps")
	for _, g := range graphemes {
		nz := uniseg.StringWidth(strings.ReplaceAll(g, "‍", ""))
		r.Emit(fmt.Sprintf("width %c %c %c %s %d %d %d", b01(c["unicodeCore"]), b01(c["explicitWidth"]), b01(c["noZWJ"]), hx.Hex(g),
			wcw(g), nz, uniseg.StringWidth(g)), fmt.Sprint(vx.RenderedWidth(g)))
		r.Count("width")
	}
	return nil
}

// ---- start-up replay: arbitrary reply streams through the real vaxis.New ----

// vocabulary: every reply shape Vaxis solicits at start-up (positive, negative, loose, malformed,
// truncated + CAN), unsolicited reports, and user input typed during start-up
var vocab = []string{
	"\x1b[?2026;2$y", "\x1b[?2026;1$y", "\x1b[?2026;0$y", "\x1b[?2026;4$y", "\x1b[?2026;3$y", "\x1b[?2027;3$y", "\x1b[?2027;1$y", "\x1b[?2027;0$y",
	"\x1b[?2031;2$y", "\x1b[?2031;0$y", "\x1b[?2031;3$y", "\x1b[2026;1y", "\x1b[?2026$y", "\x1b[?9999;1$y",
	"\x1b[?0u", "\x1b[?31u", "\x1b[97u", "\x1b[?u",
	"\x1b_Gi=1;OK\x1b\\", "\x1b_Gi=1;ENOTSUP\x1b\\", "\x1b_Xfoo\x1b\\", "\x1b_\x1b\\",
	"\x1b[?2;0;800;600S", "\x1b[?2;3;0S", "\x1b[?2;0S", "\x1b[?1;0;256S", "\x1b[2;0;1S",
	"\x1b[4;600;800t", "\x1b[8;24;80t", "\x1b[48;24;80;600;800t", "\x1b[48;24;80t", "\x1b[8;24t", "\x1b[4;600;800t", "\x1b[8;24;80t", "\x1b[9;1;1t",
	"\x1bP1+r524742=38\x1b\\", "\x1bP0+r524742\x1b\\", "\x1bP1+r536D756C78=5C455B343A25703125646D\x1b\\", "\x1bP0+r536D756C78\x1b\\",
	"\x1bP1+r536d756c78\x1b\\", "\x1bP+r524742\x1b\\", "\x1bP1+r524742\x1b\\", "\x1bP1+r=\x1b\\", "\x1bP2+r524742=1\x1b\\",
	"\x1bP!|7E565445\x1b\\", "\x1bP!|00000000\x1b\\", "\x1bP!|\x1b\\",
	"\x1bP>|kitty 0.31\x1b\\", "\x1bP>|tmux 3.4\x1b\\", "\x1bP>|tmux 3.4a\x1b\\", "\x1bP>|foot(1.2)\x1b\\", "\x1bP>|kit\x1b\\", "\x1bP>|kitty\x1b\\", "\x1bP>|\x1b\\",
	"\x1b]4;1;rgb:ffff/0000/0000\x1b\\", "\x1b]10;rgb:1/2/3\x1b\\", "\x1b]11;rgb:0/0/0\x07", "\x1b]11;?\x1b\\", "\x1b]4\x1b\\", "\x1b]104\x1b\\", "\x1b]110\x1b\\",
	"\x1b]52;c;aGk=\x1b\\", "\x1b]52;c\x1b\\", "\x1b]1;x\x1b\\", "\x1b]\x1b\\",
	"\x1bP1$r2 q\x1b\\", "\x1bP1$r q\x1b\\", "\x1b[?997;1n", "\x1b[?997n",
	"a", "\x1b[A", "\x1b[1;5B", "\x1b[<0;3;4M", "\x1b[<35;1;1m", "\x1b[I", "\x1b[O", "\x1b[200~xy\x1b[201~", "\x1bOP", "\t", "é",
	"\x1b[?2026;2$\x18", "\x1bP1+r5247\x18", "\x1b]11;rgb\x18", "\x1b[?62;4\x18",
}

var vocab176 = []string{"\x1b]176;app\x1b\\", "\x1b]176;a;b\x1b\\", "\x1b]176\x1b\\", "\x1b]176;\x1b\\", "\x1b]1760;x\x1b\\"}

var cprs = []string{"\x1b[1;2R", "\x1b[1;1R", "\x1b[7;2R", "\x1b[1;3R", "\x1b[2R", "\x1b[1;2;3R", "\x1b[?1;2R", ""}

var da1s = []string{"\x1b[?62;4;22c", "\x1b[?62;22c", "\x1b[?4c", "\x1b[?c", "\x1b[?1;2;4;4c", "\x1b[?64;1;2;6;9;15;18;21;22c", "\x1b[?62:4;4:1c"}

func pickStream(rng *gen.Rng, n int, small bool) string {
	var sb strings.Builder
	for i := 0; i < n; i++ {
		switch {
		case !small && rng.Chance(1, 10):
			sb.WriteString(gen.Pick(rng, vocab176))
		case rng.Chance(1, 25):
			sb.WriteString(gen.Pick(rng, cprs)) // a stray cursor report / Shift+F3
		case rng.Chance(1, 40):
			sb.WriteString(gen.Pick(rng, da1s)) // an early (unsolicited) DA1
		default:
			v := gen.Pick(rng, vocab)
			sb.WriteString(v)
			if rng.Chance(1, 8) {
				sb.WriteString(v) // repeated
			}
		}
	}
	return sb.String()
}

func startCase(r *hx.Run, rng *gen.Rng) error {
	dk, ct := rng.Chance(1, 6), rng.Chance(1, 6)
	q := 0
	if rng.Chance(1, 10) {
		q = rng.Range(1, 6)
	}
	s1 := pickStream(rng, rng.Range(0, 6), q != 0)
	cpr := cprs[0]
	switch {
	case rng.Chance(1, 20):
		cpr = "" // never answered: the probe times out
	case rng.Chance(1, 2):
		cpr = gen.Pick(rng, cprs[:7])
	}
	s2 := pickStream(rng, rng.Range(0, 16), q != 0)
	da1 := gen.Pick(rng, da1s)
	s3 := pickStream(rng, rng.Range(0, 3), q != 0)
	return startRun(r, dk, ct, q, s1+cpr, s2+da1+s3)
}

func startRun(r *hx.Run, dk, ct bool, q int, chunk1, chunk2 string) error {
	fc := fakeconsole.New(10, 4, fakeconsole.Caps{CursorStyle: -1})
	sent1, sent2 := false, false
	fc.Respond = func(c *fakeconsole.Console, written []byte) []byte {
		w := string(written)
		var out string
		if !sent1 && strings.Contains(w, "\x1b[6n") {
			sent1 = true
			out += chunk1
		}
		if strings.Contains(w, "\x1b[c") {
			if !sent2 {
				sent2 = true
				out += chunk2
			} else {
				out += "\x1b[?62c" // Close/Suspend wake the reader with a DA1 query
			}
		}
		return []byte(out)
	}
	if ct {
		os.Setenv("COLORTERM", "truecolor")
		defer os.Unsetenv("COLORTERM")
	}
	vx, err := vaxis.New(vaxis.Options{WithConsole: fc, NoSignals: true, DisableKittyKeyboard: dk, EventQueueSize: q})
	if err != nil {
		return err
	}
	stop := make(chan struct{})
	go func() { // keep the queue moving so that Close never waits on a blocked input goroutine
		for {
			select {
			case <-vx.Events():
			case <-stop:
				return
			}
		}
	}()
	snap := vx.VerifC03Snapshot()
	var bits strings.Builder
	for _, b := range snap.Caps {
		bits.WriteByte(b01(b))
	}
	can := string([]byte{b01(vx.CanRGB()), b01(vx.CanKittyGraphics()), b01(vx.CanSixel()), b01(vx.CanReportColor()),
		b01(vx.CanReportForegroundColor()), b01(vx.CanReportBackgroundColor()), b01(vx.CanDisplayGraphics()), b01(vx.CanSetAppID()),
		b01(vx.CanUnicodeCore()), b01(vx.CanExplicitWidth())})
	tid := inp.Cps([]rune(vx.TerminalID()))
	done := make(chan struct{})
	go func() { defer func() { recover() }(); vx.Close(); close(done) }()
	select {
	case <-done:
	case <-time.After(3 * time.Second):
		r.Count("start-close-hang")
	}
	close(stop)
	// the second chunk is sent when the DA1 query is written, i.e. after CursorPosition has returned:
	// `tmo` marks the point where an unanswered probe has timed out
	var encs []string
	for _, sq := range inp.RefParse([]byte(chunk1)) {
		encs = append(encs, inp.EncSeq(sq))
	}
	encs = append(encs, "tmo")
	for _, sq := range inp.RefParse([]byte(chunk2)) {
		encs = append(encs, inp.EncSeq(sq))
	}
	r.Emit(fmt.Sprintf("start dk=%c ct=%c q=%d @ %s", b01(dk), b01(ct), q, strings.Join(encs, " | ")), bits.String()+" "+can+" tid="+tid)
	r.Count("start")
	if q != 0 {
		r.Count("start-small-queue")
	}
	return nil
}

func run(r *hx.Run) error {
	for _, k := range []string{"COLORTERM", "VAXIS_FORCE_LEGACY_SGR", "VAXIS_FORCE_WCWIDTH", "VAXIS_FORCE_UNICODE", "VAXIS_FORCE_NOZWJ", "VAXIS_DISABLE_NOZWJ", "VAXIS_FORCE_XTWINOPS", "VAXIS_GRAPHICS", "ASCIINEMA_REC"} {
		os.Unsetenv(k)
	}
	rng := gen.New(r.Seed)
	if r.Replay != "" {
		return hx.ReplayOps(r, func(op []string) (string, bool) {
			if c, ok := parseImgOp(op); ok { // an image scenario is determined by its op line: run it again
				if res, err := imgRun(r, c); err == nil {
					return res, true
				}
			}
			return "", false
		})
	}
	if v := os.Getenv("C07CAPS_IMG_ONLY"); v != "" { // developer aid: only the image scenarios, v per combination
		per := 6
		fmt.Sscanf(v, "%d", &per)
		return imgCases(r, gen.New(r.Seed^0x1396a7), per)
	}
	// the cursor-in-column-2 scenario of the fixed explicit-width probe defect, for every subset of a few bits
	for adv := uint32(0); adv < 1<<19; adv += 1 << 15 {
		for _, ic := range []int{1, 2, 3} {
			if err := one(r, adv, ic, ""); err != nil {
				return err
			}
		}
	}
	// start-up replay (reply streams through the real New, compared with the start-up LTS and judged by specCaps)
	ns := 700
	if r.Thorough {
		ns = 12000
	}
	srng := rng.Fork(77)
	// fixed: everything advertised once, in the order a real terminal answers; the same with the probe unanswered
	full := "\x1b[?2026;2$y\x1b[?2027;2$y\x1b[?2031;2$y\x1b[48;4;10;80;100t\x1bP>|kitty 0.31\x1b\\\x1b[?0u\x1b_Gi=1;OK\x1b\\\x1b[?2;0;800;600S\x1b[4;80;100t\x1b[8;4;10t"
	rest := "\x1bP1+r524742=38\x1b\\\x1b]4;1;rgb:ffff/0000/0000\x1b\\\x1b]10;rgb:1/2/3\x1b\\\x1b]11;rgb:0/0/0\x1b\\\x1b]176;app\x1b\\\x1bP1+r536D756C78=5C45\x1b\\\x1bP!|7E565445\x1b\\\x1b[?62;4;22c"
	for _, c := range []string{"\x1b[1;2R", "\x1b[1;1R", ""} {
		if err := startRun(r, false, false, 0, full+c, rest); err != nil {
			return err
		}
	}
	if err := startRun(r, true, true, 0, "\x1b[1;2R", "\x1b[?0u\x1b[?62c\x1b[?2026;2$y"); err != nil {
		return err
	}
	for i := 0; i < ns; i++ {
		if err := startCase(r, srng.Fork(uint64(i))); err != nil {
			return err
		}
	}
	na := 120
	if r.Thorough {
		na = 1500
	}
	arng := rng.Fork(99)
	for i := 0; i < na; i++ {
		if err := apiCase(r, arng.Fork(uint64(i))); err != nil {
			return err
		}
	}
	// image objects at run time: all 2^3 graphics advertisements x 3 pixel-size situations x random other capabilities
	ni := 12
	if r.Thorough {
		ni = 200
	}
	if err := imgCases(r, gen.New(r.Seed^0x1396a7), ni); err != nil {
		return err
	}
	n := 3000
	if r.Thorough {
		// every subset of the 16 advertised capabilities; the three alternative advertisement
		// channels (VTE tertiary DA, XTSMGRAPHICS, XTVERSION) vary pseudo-randomly on top
		for adv := uint32(0); adv < 1<<16; adv++ {
			v := ""
			if adv%7 == 0 {
				v = "kitty 0.31"
			}
			if err := one(r, adv|uint32(rng.Intn(8))<<16, int(adv%3)+1, v); err != nil {
				return err
			}
		}
		r.Note("exhaustive", true)
		return nil
	}
	for i := 0; i < n; i++ {
		v := ""
		if rng.Chance(1, 6) {
			v = "kitty 0.31"
		}
		if err := one(r, uint32(rng.U64())&(1<<19-1), rng.Range(1, 3), v); err != nil {
			return err
		}
	}
	return nil
}
