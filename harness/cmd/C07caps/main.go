// Harness for C07 (capability detection and width method): real vaxis.New on the fake console for
// every advertised capability subset; Can* accessors and detected flags; RenderedWidth under each
// method against the three candidate measurements computed with uniseg / runewidth directly.
package main

import (
	"fmt"
	"os"
	"strings"

	"git.sr.ht/~rockorager/vaxis"
	"github.com/mattn/go-runewidth"
	"github.com/rivo/uniseg"
	"verifharness/fakeconsole"
	"verifharness/gen"
	"verifharness/hx"
)

func main() { hx.Main("C07caps", run) }

var order = []string{"sixels", "synchronizedUpdate", "unicodeCore", "colorThemeUpdates", "kittyKeyboard", "kittyGraphics", "rgb",
	"styledUnderlines", "osc4", "osc10", "osc11", "osc176", "reportSizePixels", "reportSizeChars", "inBandResize", "explicitWidth", "noZWJ"}

func bits(m map[string]bool) string {
	var sb strings.Builder
	for _, k := range order {
		if m[k] {
			sb.WriteByte('1')
		} else {
			sb.WriteByte('0')
		}
	}
	return sb.String()
}

func b01(b bool) byte {
	if b {
		return '1'
	}
	return '0'
}

func wcw(s string) int {
	t := 0
	for _, r := range s {
		if (r >= 0xFE00 && r <= 0xFE0F) || (r >= 0xE0100 && r <= 0xE01EF) {
			continue
		}
		t += runewidth.RuneWidth(r)
	}
	return t
}

var graphemes = []string{"a", " ", "é", "é", "世", "\U0001F525", "\U0001F469‍\U0001F680", "\U0001F1E9\U0001F1EA", "​", "", "❤️", "\U0001F44D\U0001F3FD", "ab世", "\t"}

func one(r *hx.Run, adv uint32, initCol int, version string) error {
	caps := fakeconsole.FromMask(adv)
	fc := fakeconsole.New(10, 4, caps)
	fc.InitCol = initCol
	fc.VersionString = version
	fc.NegativeTcap = (adv>>3^uint32(initCol))%3 == 0 // some terminals answer unknown capabilities explicitly
	if fc.NegativeTcap {
		r.Count("negative-tcap-replies")
	}
	fc.XPix, fc.YPix = 100, 80
	vx, err := vaxis.New(vaxis.Options{WithConsole: fc, NoSignals: true})
	if err != nil {
		return err
	}
	defer vx.Close()
	c, _, _, _ := vx.VerifCaps()
	can := string([]byte{b01(vx.CanSixel()), b01(vx.CanRGB()), b01(vx.CanKittyGraphics()), b01(vx.CanReportColor()),
		b01(vx.CanReportForegroundColor()), b01(vx.CanReportBackgroundColor()), b01(vx.CanSetAppID())})
	kitty := 0
	if strings.HasPrefix(version, "kitty") {
		kitty = 1
	}
	r.Emit(fmt.Sprintf("caps %019b %d %d", adv, initCol, kitty), bits(c)+" "+can)
	r.Count("caps")
	for _, g := range graphemes {
		nz := uniseg.StringWidth(strings.ReplaceAll(g, "‍", ""))
		r.Emit(fmt.Sprintf("width %c %c %c %s %d %d %d", b01(c["unicodeCore"]), b01(c["explicitWidth"]), b01(c["noZWJ"]), hx.Hex(g),
			wcw(g), nz, uniseg.StringWidth(g)), fmt.Sprint(vx.RenderedWidth(g)))
		r.Count("width")
	}
	return nil
}

func run(r *hx.Run) error {
	for _, k := range []string{"COLORTERM", "VAXIS_FORCE_LEGACY_SGR", "VAXIS_FORCE_WCWIDTH", "VAXIS_FORCE_UNICODE", "VAXIS_FORCE_NOZWJ", "VAXIS_DISABLE_NOZWJ", "VAXIS_FORCE_XTWINOPS", "VAXIS_GRAPHICS", "ASCIINEMA_REC"} {
		os.Unsetenv(k)
	}
	rng := gen.New(r.Seed)
	if r.Replay != "" {
		return hx.ReplayOps(r, func(op []string) (string, bool) { return "", false })
	}
	// the cursor-in-column-2 scenario of the fixed explicit-width probe defect, for every subset of a few bits
	for adv := uint32(0); adv < 1<<19; adv += 1 << 15 {
		for _, ic := range []int{1, 2, 3} {
			if err := one(r, adv, ic, ""); err != nil {
				return err
			}
		}
	}
	n := 3000
	if r.Thorough {
		// every subset of the 16 advertised capabilities; the three alternative advertisement
		// channels (VTE tertiary DA, XTSMGRAPHICS, XTVERSION) vary pseudo-randomly on top
		for adv := uint32(0); adv < 1<<16; adv++ {
			v := ""
			if adv%7 == 0 {
				v = "kitty 0.31"
			}
			if err := one(r, adv|uint32(rng.Intn(8))<<16, int(adv%3)+1, v); err != nil {
				return err
			}
		}
		r.Note("exhaustive", true)
		return nil
	}
	for i := 0; i < n; i++ {
		v := ""
		if rng.Chance(1, 6) {
			v = "kitty 0.31"
		}
		if err := one(r, uint32(rng.U64())&(1<<19-1), rng.Range(1, 3), v); err != nil {
			return err
		}
	}
	return nil
}
