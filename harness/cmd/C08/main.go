// Harness for C08: life cycle of ansi.Parser — end of input / read error at every offset, Close(),
// consumers that retain sequences (deep copies compared with the retained originals), and the
// Escape timer with gaps well clear of its 10 ms delay on both sides.
//
// One line per case: `life <consumer> <script> <cluster table>\t<items> | <flags>`
//
//	consumer: i = Finish at once, r = retain everything (never Finish), k<N> = Finish N items late,
//	          s<N> = Finish at once but sleep N ms before every receive
//	script:   comma separated: d<hex> = a Read returns these bytes, p = silence: after a lone ESC the reader waits for
//	          the Escape report of the timer callback (yield point; was a 40 ms sleep) before the next read returns,
//	          c = Close() is called (from inside Read, i.e. while the parser is blocked in it),
//	          last element E (io.EOF) or R (another error)
//	flags:    closed (channel closed after the last item), wc (WaitClose returned),
//	          immut-ok / immut-BAD:<n> (retained originals equal / differ from their deep copies)
package main

import (
	"errors"
	"fmt"
	"io"
	"os"
	"os/exec"
	"reflect"
	"runtime"
	"strconv"
	"strings"
	"sync"
	"time"
	"unicode/utf8"

	"git.sr.ht/~rockorager/vaxis/ansi"
	"github.com/rivo/uniseg"
	"verifharness/gen"
	"verifharness/hx"
)

type ev struct {
	kind byte // 'd', 'p', 'c'
	data []byte
}

type script struct {
	evs []ev
	end byte // 'E' or 'R'
}

func (s script) String() string {
	var xs []string
	for _, e := range s.evs {
		switch e.kind {
		case 'd':
			xs = append(xs, "d"+hx.Hex(string(e.data)))
		default:
			xs = append(xs, string(e.kind))
		}
	}
	xs = append(xs, string(s.end))
	return strings.Join(xs, ",")
}

func (s script) bytes() []byte {
	var b []byte
	for _, e := range s.evs {
		b = append(b, e.data...)
	}
	return b
}

func (s script) has(kind byte) bool {
	for _, e := range s.evs {
		if e.kind == kind {
			return true
		}
	}
	return false
}

func parseScript(str string) (script, bool) {
	var s script
	parts := strings.Split(str, ",")
	for i, p := range parts {
		if i == len(parts)-1 {
			if p != "E" && p != "R" && p != "X" {
				return s, false
			}
			s.end = p[0]
			break
		}
		switch {
		case p == "p" || p == "c" || p == "w" || p == "g":
			s.evs = append(s.evs, ev{kind: p[0]})
		case strings.HasPrefix(p, "d") && len(p) > 1 && len(p)%2 == 1:
			var data []byte
			for j := 1; j < len(p); j += 2 {
				v, err := strconv.ParseUint(p[j:j+2], 16, 8)
				if err != nil {
					return s, false
				}
				data = append(data, byte(v))
			}
			s.evs = append(s.evs, ev{kind: 'd', data: data})
		default:
			return s, false
		}
	}
	return s, s.end != 0
}

var errBroken = errors.New("verif: reader failed")

type scriptReader struct {
	s       script
	i       int
	p       *ansi.Parser
	ready   chan struct{} // closed when p is set
	closed  int
	lastEsc bool     // the last byte handed to the parser was ESC
	cb      *cbCount // Escape reports of this parser's timer callbacks (yield point 33 of the verification build)
	late    bool     // a report took longer than lateAfter (failure time-out; the case is re-run before it counts)
}

// the disambiguation delay is 10 ms: a report that is later than this on every one of four tries is a failure
const lateAfter = 60 * time.Millisecond

// Round 4: a pause after a lone ESC is no longer a sleep of 40 ms (elapsed time deciding whether the 10 ms
// timer has fired — under a load of 40 its callback was sometimes later than that) but a wait for the
// callback itself: the reader returns from the pause when the callback of this parser has emitted its
// report (yield point 33, still holding the mutex: nothing that follows can overtake it).  The second is a
// failure time-out only: a report that never comes shows as a missing `C:1b` item.  A pause that does not
// follow an ESC has nothing to wait for (no timer is pending).
type cbCount struct {
	mu       sync.Mutex
	reported int
	ch       chan struct{}
	dead     chan string // run() panicked (deferred yield point 19): the case ends with the item `!`
}

var cbCounts sync.Map // *ansi.Parser → *cbCount

func installSchedHook() {
	ansi.VerifSchedHook = func(p *ansi.Parser, point int, pv any) {
		if pv != nil && point == 19 {
			// run() panicked (nil exit function, index out of range in an action, …): the case ends here with `!`
			if v, ok := cbCounts.Load(p); ok {
				select {
				case v.(*cbCount).dead <- fmt.Sprint(pv):
				default:
				}
				return
			}
		}
		if pv != nil {
			panic(pv) // point 39 recovered a panic of the callback for us: not wanted here, let it take the process down as without the hook
		}
		if point != 33 {
			return
		}
		if v, ok := cbCounts.Load(p); ok {
			c := v.(*cbCount)
			c.mu.Lock()
			c.reported++
			c.mu.Unlock()
			select {
			case c.ch <- struct{}{}:
			default:
			}
		}
	}
}

func (r *scriptReader) pause() {
	if !r.lastEsc || r.cb == nil {
		return
	}
	r.cb.mu.Lock()
	want := r.cb.reported + 1
	r.cb.mu.Unlock()
	t0 := time.Now()
	deadline := time.After(time.Second)
	for {
		r.cb.mu.Lock()
		n := r.cb.reported
		r.cb.mu.Unlock()
		if n >= want {
			if time.Since(t0) > lateAfter {
				r.late = true
			}
			return
		}
		select {
		case <-r.cb.ch:
		case <-deadline:
			return
		}
	}
}

func (r *scriptReader) Read(b []byte) (int, error) {
	<-r.ready
	for r.i < len(r.s.evs) {
		e := r.s.evs[r.i]
		r.i++
		switch e.kind {
		case 'p':
			r.pause()
			r.lastEsc = false
		case 'c':
			if r.closed == 0 { // Close() blocks on a second call (channel of capacity 1)
				r.p.Close()
			}
			r.closed++
		case 'w':
			waitStarted()
		case 'g':
			releaseHeld()
		case 'd':
			n := copy(b, e.data)
			if n > 0 {
				r.lastEsc = e.data[n-1] == 0x1b
			}
			return n, nil
		}
	}
	if r.s.end == 'R' {
		return 0, errBroken
	}
	return 0, io.EOF
}

// ---- holding the timer callback (child process only) ------------------------------------------

var (
	hookStarted = make(chan struct{}, 64)
	hookRelease = make(chan struct{})
	hookDone    = make(chan struct{}, 64)
	nHeld       int
)

func installHook() {
	ansi.VerifEscTimerHook = func(phase int) {
		if phase == 0 {
			hookStarted <- struct{}{}
			<-hookRelease
		} else {
			hookDone <- struct{}{}
		}
	}
}

func waitStarted() {
	select {
	case <-hookStarted:
		nHeld++
	case <-time.After(2 * time.Second):
	}
}

func releaseHeld() {
	for ; nHeld > 0; nHeld-- {
		select {
		case hookRelease <- struct{}{}:
		case <-time.After(2 * time.Second):
			continue
		}
		select {
		case <-hookDone:
		case <-time.After(2 * time.Second):
		}
	}
}

// ---- canonical items (same as C02) ---------------------------------------------------------

func runesHex(rs []rune) string {
	if len(rs) == 0 {
		return "-"
	}
	var sb strings.Builder
	for i, r := range rs {
		if i > 0 {
			sb.WriteByte('.')
		}
		sb.WriteString(strconv.FormatInt(int64(r), 16))
	}
	return sb.String()
}

func token(seq ansi.Sequence) string {
	switch s := seq.(type) {
	case ansi.Print:
		t := "P:" + runesHex([]rune(s.Grapheme))
		if w := uniseg.StringWidth(s.Grapheme); w != s.Width {
			t += fmt.Sprintf(" W!%d!=%d", s.Width, w)
		}
		return t
	case ansi.C0:
		return "C:" + strconv.FormatInt(int64(s), 16)
	case ansi.ESC:
		return "E:" + runesHex(s.Intermediate) + ":" + strconv.FormatInt(int64(s.Final), 16)
	case ansi.SS3:
		return "S:" + strconv.FormatInt(int64(s), 16)
	case ansi.CSI:
		ps := "-"
		if len(s.Parameters) > 0 {
			var sb strings.Builder
			for i, p := range s.Parameters {
				if i > 0 {
					sb.WriteByte(',')
				}
				for j, v := range p {
					if j > 0 {
						sb.WriteByte('.')
					}
					sb.WriteString(strconv.Itoa(v))
				}
			}
			ps = sb.String()
		}
		return "I:" + runesHex(s.Intermediate) + ":" + ps + ":" + strconv.FormatInt(int64(s.Final), 16)
	case ansi.OSC:
		return "O:" + runesHex(s.Payload)
	case ansi.DCS:
		ps := "-"
		if len(s.Parameters) > 0 {
			xs := make([]string, len(s.Parameters))
			for i, v := range s.Parameters {
				xs[i] = strconv.Itoa(v)
			}
			ps = strings.Join(xs, ",")
		}
		return "D:" + strconv.FormatInt(int64(s.Final), 16) + ":" + runesHex(s.Intermediate) + ":" + ps + ":" + runesHex(s.Data)
	case ansi.APC:
		return "A:" + runesHex([]rune(s.Data))
	case ansi.EOF:
		return "Z"
	case error:
		return "X"
	}
	return fmt.Sprintf("?%T", seq)
}

// ---- deep copies -----------------------------------------------------------------------------

func cpRunes(r []rune) []rune {
	if r == nil {
		return nil
	}
	return append([]rune{}, r...)
}

func deepCopy(seq ansi.Sequence) ansi.Sequence {
	switch s := seq.(type) {
	case ansi.ESC:
		return ansi.ESC{Intermediate: cpRunes(s.Intermediate), Final: s.Final}
	case ansi.CSI:
		c := ansi.CSI{Intermediate: cpRunes(s.Intermediate), Final: s.Final}
		if s.Parameters != nil {
			c.Parameters = make([][]int, len(s.Parameters))
			for i, p := range s.Parameters {
				c.Parameters[i] = append([]int{}, p...)
			}
		}
		return c
	case ansi.OSC:
		return ansi.OSC{Payload: cpRunes(s.Payload)}
	case ansi.DCS:
		d := ansi.DCS{Final: s.Final, Intermediate: cpRunes(s.Intermediate), Data: cpRunes(s.Data)}
		if s.Parameters != nil {
			d.Parameters = append([]int{}, s.Parameters...)
		}
		return d
	}
	return seq // Print, C0, SS3, APC, EOF, error: no shared storage
}

func same(a, b ansi.Sequence) bool {
	if _, ok := a.(error); ok {
		return true
	}
	return reflect.DeepEqual(a, b)
}

// ---- one case --------------------------------------------------------------------------------

type held struct {
	orig, copy ansi.Sequence
}

// runOnce runs the script; consumer = "i", "r" or "k<N>".
func runOnce(s script, consumer string) string {
	rd := &scriptReader{s: s, ready: make(chan struct{}), cb: &cbCount{ch: make(chan struct{}, 1), dead: make(chan string, 1)}}
	p := ansi.NewParser(rd)
	rd.p = p
	cbCounts.Store(p, rd.cb)
	defer cbCounts.Delete(p)
	close(rd.ready)
	lag := -1                // -1: finish at once; 0: never; n>0: finish n items late
	slow := time.Duration(0) // s<N>: sleep N ms before every receive (the parser and its timer callback block in emit)
	switch {
	case consumer == "r":
		lag = 0
	case strings.HasPrefix(consumer, "k"):
		lag, _ = strconv.Atoi(consumer[1:])
	case strings.HasPrefix(consumer, "s"):
		ms, _ := strconv.Atoi(consumer[1:])
		slow = time.Duration(ms) * time.Millisecond
	}
	var toks []string
	var retained []held
	finished := 0
	bad := 0
	deadline := time.NewTimer(10 * time.Second)
	defer deadline.Stop()
	closed := false
loop:
	for {
		if slow > 0 {
			time.Sleep(slow)
		}
		select {
		case seq, ok := <-p.Next():
			if !ok {
				closed = true
				break loop
			}
			toks = append(toks, token(seq))
			if lag < 0 {
				p.Finish(seq)
				continue
			}
			retained = append(retained, held{seq, deepCopy(seq)})
			for lag > 0 && len(retained)-finished > lag {
				h := retained[finished]
				if !same(h.orig, h.copy) {
					bad++
				}
				p.Finish(h.orig)
				finished++
			}
		case <-rd.cb.dead:
			toks = append(toks, "!")
			break loop
		case <-deadline.C:
			toks = append(toks, "hang")
			break loop
		}
	}
	for _, h := range retained[finished:] {
		if !same(h.orig, h.copy) {
			bad++
		}
	}
	if s.end == 'X' {
		releaseHeld()
	}
	flags := []string{}
	if closed {
		flags = append(flags, "closed")
		done := make(chan struct{})
		go func() { p.WaitClose(); close(done) }()
		select {
		case <-done:
			flags = append(flags, "wc")
		case <-time.After(2 * time.Second):
			flags = append(flags, "wc-hang")
		}
	}
	if rd.late {
		flags = append(flags, "timer-late")
	}
	if bad == 0 {
		flags = append(flags, "immut-ok")
	} else {
		flags = append(flags, fmt.Sprintf("immut-BAD:%d", bad))
	}
	return strings.Join(toks, " ") + " | " + strings.Join(flags, " ")
}

var retries, lateRetries int64
var mu sync.Mutex

// wantEsc = number of Escape-key reports the script calls for: ESC as the last byte before a pause.
func wantEsc(s script) int {
	n := 0
	lastEsc := false
	for _, e := range s.evs {
		switch e.kind {
		case 'd':
			if len(e.data) > 0 {
				lastEsc = e.data[len(e.data)-1] == 0x1b
			}
		case 'p':
			if lastEsc {
				n++
			}
			lastEsc = false
		}
	}
	return n
}

// run: as runOnce, but a case whose number of Escape reports is *higher* than scripted is re-run
// (the scheduler held the parser goroutine for 10 ms between two reads that the script issues back to
// back; prompt arrival cannot be guaranteed from user space, only retried).  Fewer is retried three times.
func run(s script, consumer string) string {
	if s.has('w') {
		return runChild(s, consumer)
	}
	res := ""
	for try := 0; try < 6; try++ {
		panicked, _ := hx.Guard(func() { res = runOnce(s, consumer) })
		if panicked {
			return "! | -"
		}
		// (round 4: fewer reports than scripted are re-run too — under a load of 40 the callback goroutine of a
		// lone ESC can be held up for more than the 30 ms that separate the timer from the next read; a parser
		// that really loses the report loses it on every try)
		if strings.Contains(res, " timer-late") && try < 3 {
			mu.Lock()
			lateRetries++
			mu.Unlock()
			continue // failure time-out of a pause: only counts when it recurs on four tries
		}
		if n := strings.Count(" "+res+" ", " C:1b "); s.has('c') || n == wantEsc(s) || (n < wantEsc(s) && try >= 3) {
			return res
		}
		mu.Lock()
		retries++
		mu.Unlock()
	}
	return res
}

// runChild runs one hook script in a child process: a panic in the timer goroutine (send on the
// closed channel) cannot be recovered and would take the whole harness down.
var childMu sync.Mutex

func runChild(s script, consumer string) string {
	childMu.Lock()
	defer childMu.Unlock()
	exe, err := os.Executable()
	if err != nil {
		return "! | no-exe"
	}
	cmd := exec.Command(exe)
	cmd.Env = append(os.Environ(), "VERIF_C08_CHILD="+consumer+" "+s.String())
	out, err := cmd.Output()
	if err != nil {
		msg := ""
		if ee, ok := err.(*exec.ExitError); ok {
			if strings.Contains(string(ee.Stderr), "send on closed channel") {
				msg = "send-on-closed-channel"
			} else if i := strings.Index(string(ee.Stderr), "panic:"); i >= 0 {
				msg = strings.Fields(string(ee.Stderr[i:]) + " ?")[1]
			}
		}
		return "! | " + msg
	}
	return strings.TrimSpace(string(out))
}

func childMain(arg string) {
	f := strings.Fields(arg)
	if len(f) != 2 {
		os.Exit(3)
	}
	s, ok := parseScript(f[1])
	if !ok {
		os.Exit(3)
	}
	installHook()
	installSchedHook()
	fmt.Println(runOnce(s, f[0]))
	time.Sleep(20 * time.Millisecond) // let a released callback crash us, if it is going to
}

// ---- cluster oracle (as in C02) ----------------------------------------------------------------

var splitsReplacementChar bool

func firstRune(s []byte) (rune, int) {
	r, n := utf8.DecodeRune(s)
	if r == utf8.RuneError && (n == 1 || splitsReplacementChar) {
		return rune(s[0]), 1
	}
	return r, n
}

func clusterLen(s []byte, i int) int {
	r, n := firstRune(s[i:])
	b := string(r)
	j := i + n
	count := 1
	for j < len(s) {
		r2, n2 := utf8.DecodeRune(s[j:])
		nb := b + string(r2)
		_, rest, _, _ := uniseg.FirstGraphemeClusterInString(nb, -1)
		if rest != "" {
			break
		}
		b = nb
		count++
		j += n2
	}
	return count
}

func clusterTable(s []byte) string {
	var sb strings.Builder
	for i := 0; i < len(s); i++ {
		if s[i] < 0x20 {
			continue
		}
		if l := clusterLen(s, i); l != 1 {
			if sb.Len() > 0 {
				sb.WriteByte(',')
			}
			fmt.Fprintf(&sb, "%d:%d", i, l)
		}
	}
	if sb.Len() == 0 {
		return "-"
	}
	return sb.String()
}

// ---- generators --------------------------------------------------------------------------------

type kase struct {
	s        script
	consumer string
	kind     string
}

func split(rng *gen.Rng, data []byte, mode int) []ev {
	var evs []ev
	for off := 0; off < len(data); {
		k := len(data) - off
		switch mode {
		case 1:
			k = 1
		case 2:
			k = rng.Range(1, 7)
		}
		if k > len(data)-off {
			k = len(data) - off
		}
		evs = append(evs, ev{kind: 'd', data: data[off : off+k]})
		off += k
	}
	return evs
}

var corpusStreams = []string{
	"", "a", "hello", "\x1b", "\x1b[", "\x1b[1", "\x1b[1;", "\x1b[1;2m", "\x1b[?1$p", "\x1b[38:2:1:2:3mX", "\x1b(B", "\x1b$", "\x1bO", "\x1bOA",
	"\x1b]0;title\x07", "\x1b]0;title\x1b\\", "\x1b]8;;http://x\x1b", "\x1bP1$r0m\x1b\\", "\x1bP", "\x1bP1", "\x1bP$", "\x1bPq##\x18", "\x1bP:1\x1b\\",
	"\x1b_Gi=1;OK\x1b\\", "\x1bXsos\x1b\\", "\x1b^pm\x1b\\x", "\x1b\x7f", "\x1b\\", "a\x1bb", "\x0a\x0d\x09", "\x18\x1a",
	"é", "é", "世界", "\U0001F525", "\U0001F469\u200d\U0001F680", "\U0001F1E9\U0001F1EA", "\xff", "\xe2\x82", "\xf0\x9f\x94", "a\xc3", "\ufffd",
	"\x1b[1;2;3;4;5;6;7;8;9;10m\x1b[ q\x1b[?2026$p\x1b[>1u", "\x1b[1 q\x1b[2 q\x1b(0\x1b)B\x1b#8", "x\x1b[<0;10;20M\x1b[<0;10;20m", "\x1b[I\x1b[O\x1b[200~paste\x1b[201~",
}

func genStream(rng *gen.Rng) []byte {
	var sb strings.Builder
	for k := rng.Range(1, 12); k > 0; k-- {
		switch rng.Intn(9) {
		case 0:
			sb.WriteString(gen.Pick(rng, []string{"a", "zz", "é", "é", "世", "\U0001F525", "\U0001F469\u200d\U0001F680", "\xff", " "}))
		case 1:
			sb.WriteByte(byte(rng.Range(0, 0x1f)))
		case 2, 3, 4:
			sb.WriteString("\x1b[")
			if rng.Chance(1, 3) {
				sb.WriteByte(byte(rng.Range(0x3c, 0x3f)))
			}
			for n := rng.Intn(4); n > 0; n-- {
				sb.WriteString(strconv.Itoa(rng.Range(0, 300)))
				if rng.Chance(1, 4) {
					sb.WriteString(":" + strconv.Itoa(rng.Range(0, 255)))
				}
				if n > 1 {
					sb.WriteByte(';')
				}
			}
			for n := rng.Intn(3); n > 0; n-- {
				sb.WriteByte(byte(rng.Range(0x20, 0x2f)))
			}
			sb.WriteByte(byte(rng.Range(0x40, 0x7e)))
		case 5:
			sb.WriteString("\x1b")
			for n := rng.Range(0, 2); n > 0; n-- {
				sb.WriteByte(byte(rng.Range(0x20, 0x2f)))
			}
			sb.WriteByte(byte(rng.Range(0x30, 0x7e)))
		case 6:
			sb.WriteString("\x1b]" + strconv.Itoa(rng.Range(0, 133)) + ";payload" + gen.Pick(rng, []string{"\x07", "\x1b\\", "\x18"}))
		case 7:
			sb.WriteString("\x1bP" + strconv.Itoa(rng.Range(0, 9)) + gen.Pick(rng, []string{"$", "+", ""}) + "rdata" + gen.Pick(rng, []string{"\x1b\\", "\x18", "\x1b"}))
		default:
			sb.WriteString("\x1b_apc\x1b\\")
		}
	}
	return []byte(sb.String())
}

func main() {
	if arg := os.Getenv("VERIF_C08_CHILD"); arg != "" {
		childMain(arg)
		return
	}
	installSchedHook()
	hx.Main("C08", runC08)
}

func emit(r *hx.Run, batch []kase, parallel int) {
	type res struct{ op, impl string }
	out := make([]res, len(batch))
	var wg sync.WaitGroup
	sem := make(chan struct{}, parallel)
	for i := range batch {
		wg.Add(1)
		sem <- struct{}{}
		go func(i int) {
			defer wg.Done()
			defer func() { <-sem }()
			k := batch[i]
			out[i] = res{"life " + k.consumer + " " + k.s.String() + " " + clusterTable(k.s.bytes()), run(k.s, k.consumer)}
		}(i)
	}
	wg.Wait()
	for i, o := range out {
		r.Emit(o.op, o.impl)
		r.Count(batch[i].kind)
		r.Count("consumer-" + batch[i].consumer[:1])
	}
}

func runC08(r *hx.Run) error {
	splitsReplacementChar = !strings.HasPrefix(runOnce(script{evs: []ev{{kind: 'd', data: []byte("\xef\xbf\xbd")}}, end: 'E'}, "i"), "P:fffd Z")
	parseOp := func(op []string) (kase, bool) {
		if len(op) != 4 || op[0] != "life" {
			return kase{}, false
		}
		s, ok := parseScript(op[2])
		return kase{s: s, consumer: op[1], kind: "corpus"}, ok
	}
	if r.Replay != "" {
		return hx.ReplayOps(r, func(op []string) (string, bool) {
			if len(op) > 0 && op[0] == "sched" {
				return "-", true // an op of the stream C08Sched
			}
			k, ok := parseOp(op)
			if !ok {
				return "", false
			}
			return run(k.s, k.consumer), true
		})
	}
	rng := gen.New(r.Seed)
	consumers := []string{"i", "r", "k1", "k3"}
	var fast, timed []kase
	for _, c := range hx.Corpus("C08") {
		for _, l := range c {
			if k, ok := parseOp(strings.Fields(l)); ok {
				if k.s.has('p') {
					timed = append(timed, k)
				} else {
					fast = append(fast, k)
				}
			}
		}
	}
	// (A) end of input / read error at every offset of the corpus streams, three chunkings
	streams := make([][]byte, 0, 256)
	for _, s := range corpusStreams {
		streams = append(streams, []byte(s))
	}
	nGen := 60
	if r.Thorough {
		nGen = 1500
	}
	for i := 0; i < nGen; i++ {
		streams = append(streams, genStream(rng))
	}
	for si, st := range streams {
		for k := 0; k <= len(st); k++ {
			if si >= len(corpusStreams) && k != len(st) && !rng.Chance(1, 6) {
				continue // generated streams: a sample of the offsets
			}
			end := byte('E')
			if (k+si)%2 == 1 {
				end = 'R'
			}
			fast = append(fast, kase{s: script{evs: split(rng, st[:k], (k+si)%3), end: end}, consumer: consumers[(k+si)%len(consumers)], kind: "end-at-every-offset"})
		}
	}
	// (B) Close() while blocked in a read, at every chunk boundary
	for si, st := range streams {
		if si >= len(corpusStreams) && !r.Thorough && si%4 != 0 {
			continue
		}
		evs := split(rng, st, 2)
		for pos := 0; pos <= len(evs); pos++ {
			if len(evs) > 6 && !rng.Chance(1, 3) {
				continue
			}
			w := make([]ev, 0, len(evs)+1)
			w = append(w, evs[:pos]...)
			w = append(w, ev{kind: 'c'})
			w = append(w, evs[pos:]...)
			fast = append(fast, kase{s: script{evs: w, end: 'E'}, consumer: consumers[(pos+si)%len(consumers)], kind: "close"})
		}
	}
	// (D) retention: long streams, every consumer
	nLong := 150
	if r.Thorough {
		nLong = 3000
	}
	for i := 0; i < nLong; i++ {
		var st []byte
		for k := rng.Range(2, 6); k > 0; k-- {
			st = append(st, genStream(rng)...)
		}
		for _, c := range []string{"r", "k1", "k2", "k5"} {
			fast = append(fast, kase{s: script{evs: split(rng, st, rng.Intn(3)), end: 'E'}, consumer: c, kind: "retention"})
		}
	}
	emit(r, fast, runtime.NumCPU())
	// (C) Escape timing: gaps of 40 ms (lone ESC) and of nothing (prompt), well clear of 10 ms
	d := func(s string) ev { return ev{kind: 'd', data: []byte(s)} }
	p := ev{kind: 'p'}
	shapes := [][]ev{
		{d("\x1b"), p}, {d("\x1b"), p, d("a")}, {d("\x1b"), p, d("[A")}, {d("a\x1b"), p, d("b")}, {d("\x1b"), p, d("\x1b"), p},
		{d("\x1b"), p, d("\x1b[A")}, {d("\x1b\x1b"), p, d("x")}, {d("\x1b[1\x1b"), p, d("m")}, {d("\x1bP1$r\x1b"), p, d("\\")},
		{d("\x1b]0;t\x1b"), p, d("\x1b\\")}, {d("\x1b]0;t\x1b"), p, d("x")}, {d("\x1b_a\x1b"), p, d("\x1b\\z")}, {d("\x1bXs\x1b"), p, d("\x1b\\")},
		{d("\x1b]\x1b"), p, d("\x1b\\")}, {d("\x1bO"), p, d("A")}, {d("\x1b["), p, d("A")}, {d("a"), p, d("\x1b[A")}, {d("\xe2\x82"), p, d("\xac\x1b"), p},
		// prompt: the bytes after ESC are already there or arrive with the next read, no pause
		{d("\x1b[A")}, {d("\x1b"), d("[A")}, {d("\x1b"), d("a")}, {d("\x1b"), d("\x7f")}, {d("\x1b"), d("\x1b"), d("[A")}, {d("a\x1b"), d("Ob")},
		{d("\x1b]0;t\x1b"), d("\\")}, {d("\x1b"), d("\\")}, {d("\x1b"), d("O"), d("P")},
		// round 3 (F102c repaired): a C0 control executed in the escape state — the read that returns it stops the
		// timer, so the pause that follows is not an Escape key; the ST of a string stays suppressed across it
		{d("\x1b]0;t\x1b\n"), p, d("\\")}, {d("\x1b]0;t\x1b"), p, d("\n\\")}, {d("\x1b\n"), p, d("\\")}, {d("\x1b"), d("\n"), p, d("[A")},
		{d("\x1bP1$r\x1b\x00"), p, d("\\x")}, {d("\x1b_a\x1b\r"), p, d("\x1b"), p}, {d("\x1bXs\x1b"), d("\x1f"), p, d("\\"), p},
	}
	reps := 2
	if r.Thorough {
		reps = 12
	}
	for rep := 0; rep < reps; rep++ {
		for i, sh := range shapes {
			end := byte('E')
			if (i+rep)%3 == 0 {
				end = 'R'
			}
			timed = append(timed, kase{s: script{evs: sh, end: end}, consumer: consumers[(i+rep)%len(consumers)], kind: "esc-timing"})
		}
	}
	// round 3: a slow consumer (25 ms before every receive; the channel holds 2 items): the main goroutine
	// blocks in emit inside anywhere, and the timer callback of a lone ESC blocks in emit(C0 0x1B) HOLDING the
	// mutex while the next read returns (Props.C08FineChan.fchan_blocked_callback_holds_mutex) — same items
	slowShapes := append([][]ev{
		{d("ab\x1b"), p, d("[A")}, {d("ab\x1b"), p, d("c\x1b"), p}, {d("abc\x1b]0;t\x1b"), p, d("\x1b\\z")}, {d("ab\x1b"), p},
		{d("ab\x1b[A")}, {d("ab\x1b]0;t\x1b"), d("\\cd")}, {d("abc\x1bP1$rxy\x18de")},
	}, shapes...)
	for i, sh := range slowShapes {
		end := byte('E')
		if i%3 == 0 {
			end = 'R'
		}
		timed = append(timed, kase{s: script{evs: sh, end: end}, consumer: "s25", kind: "esc-timing-slow-consumer"})
	}
	nRand := 60
	if r.Thorough {
		nRand = 1500
	}
	for i := 0; i < nRand; i++ {
		var evs []ev
		for k := rng.Range(1, 4); k > 0; k-- {
			st := genStream(rng)
			if rng.Chance(2, 3) {
				st = append(st, 0x1b)
			}
			evs = append(evs, split(rng, st, rng.Intn(3))...)
			if rng.Chance(2, 3) {
				evs = append(evs, p)
			}
		}
		timed = append(timed, kase{s: script{evs: evs, end: 'E'}, consumer: consumers[i%len(consumers)], kind: "esc-timing-random"})
	}
	emit(r, timed, 24)
	// (E) the timer callback delayed (held by the yield hook) past later reads / past the end of the loop
	w, g := ev{kind: 'w'}, ev{kind: 'g'}
	var hooked []kase
	for i, sh := range []struct {
		evs []ev
		end byte
	}{
		{[]ev{d("\x1b"), w, g, d("[A")}, 'E'},        // released before the next bytes: a lone ESC
		{[]ev{d("\x1b"), w, d("[A"), g}, 'E'},        // released after the sequence has been parsed
		{[]ev{d("\x1b"), w, d("["), g, d("A")}, 'E'}, // released in the middle of the sequence
		{[]ev{d("\x1b"), w, d("a"), g, d("b")}, 'E'},
		{[]ev{d("\x1b"), w}, 'X'}, // released after the channel was closed
		{[]ev{d("x\x1b"), w, d("[1;2m")}, 'X'},
		{[]ev{d("\x1b]0;t\x1b"), w, d("\\"), g, d("z")}, 'E'},
		{[]ev{d("\x1b"), w, d("\x1b"), w, d("[A"), g}, 'E'}, // two callbacks in flight
		{[]ev{d("\x1b"), w, ev{kind: 'c'}, d("q"), g}, 'E'},
		// followers that `anywhere` handles itself (CAN, SUB, another ESC) must outdate the callback too
		{[]ev{d("\x1b"), w, d("\x18"), g, d("a")}, 'E'},
		{[]ev{d("\x1b"), w, d("\x1a"), g}, 'E'},
		{[]ev{d("\x1b"), w, d("\x18")}, 'X'},
		{[]ev{d("\x1b"), w, d("\x1b"), g, d("[A")}, 'E'},
		{[]ev{d("\x1b"), w, d("\x1b[A"), g, d("b")}, 'E'},
		{[]ev{d("\x1b]0;t\x1b"), w, d("\x18"), g, d("\x1b\\")}, 'E'},
		{[]ev{d("\x1bP1$r\x1b"), w, d("\x1a\x1b\\"), g}, 'E'},
		{[]ev{d("x\x1b"), w, d("\x1b"), w, d("\x18"), g, d("y")}, 'E'},
		// round 3: a C0 executed in the escape state outdates the callback as well (the read returned)
		{[]ev{d("\x1b"), w, d("\n"), g, d("[A")}, 'E'},
		{[]ev{d("\x1b]0;t\x1b"), w, d("\n"), g, d("\\z")}, 'E'},
		{[]ev{d("\x1bP1$r\x1b"), w, d("\x00\\"), g}, 'E'},
	} {
		hooked = append(hooked, kase{s: script{evs: sh.evs, end: sh.end}, consumer: consumers[i%len(consumers)], kind: "timer-callback-delayed"})
	}
	emit(r, hooked, 1)
	r.Add("prompt-retries", int(retries))
	r.Add("late-report-retries", int(lateRetries))
	return nil
}
