// Harness for the forced-schedule stream of C08 (round 4): schedules enumerated by the Lean model
// (every interleaving of the statements of Parser.run with those of the Escape-timer callbacks, for
// scripted inputs, with and without Close()) are replayed on the REAL parser label by label.  Every
// goroutine of the parser is parked at a yield point of the verification build (verifSched(p, n) in
// ansi/parser.go: in front of each statement of run and of the callback; the scripted reader's Read
// is the yield point of the blocked read) and exactly one goroutine is released per label, until it
// parks again.  No elapsed time enters a result: the only clocks are failure time-outs (`hang`) and
// the wait for the parser's own 10 ms timer to start its callback when the schedule says `X`.
//
// One line per schedule: `sched <labels>\t<obs> ... end/<closed|open>/<items>` (see Driver/C08Sched.lean).
package main

import (
	"bufio"
	"fmt"
	"io"
	"os"
	"os/exec"
	"path/filepath"
	"strconv"
	"strings"
	"sync"
	"time"

	"git.sr.ht/~rockorager/vaxis/ansi"
	"verifharness/hx"
)

const failAfter = 5 * time.Second // failure time-out only

// ---- canonical items (as in harness/cmd/C08) -------------------------------------------------

func runesHex(rs []rune) string {
	if len(rs) == 0 {
		return "-"
	}
	var sb strings.Builder
	for i, r := range rs {
		if i > 0 {
			sb.WriteByte('.')
		}
		sb.WriteString(strconv.FormatInt(int64(r), 16))
	}
	return sb.String()
}

func token(seq ansi.Sequence) string {
	switch s := seq.(type) {
	case ansi.Print:
		return "P:" + runesHex([]rune(s.Grapheme))
	case ansi.C0:
		return "C:" + strconv.FormatInt(int64(s), 16)
	case ansi.ESC:
		return "E:" + runesHex(s.Intermediate) + ":" + strconv.FormatInt(int64(s.Final), 16)
	case ansi.SS3:
		return "S:" + strconv.FormatInt(int64(s), 16)
	case ansi.CSI:
		ps := "-"
		if len(s.Parameters) > 0 {
			var sb strings.Builder
			for i, p := range s.Parameters {
				if i > 0 {
					sb.WriteByte(',')
				}
				for j, v := range p {
					if j > 0 {
						sb.WriteByte('.')
					}
					sb.WriteString(strconv.Itoa(v))
				}
			}
			ps = sb.String()
		}
		return "I:" + runesHex(s.Intermediate) + ":" + ps + ":" + strconv.FormatInt(int64(s.Final), 16)
	case ansi.OSC:
		return "O:" + runesHex(s.Payload)
	case ansi.DCS:
		ps := "-"
		if len(s.Parameters) > 0 {
			xs := make([]string, len(s.Parameters))
			for i, v := range s.Parameters {
				xs[i] = strconv.Itoa(v)
			}
			ps = strings.Join(xs, ",")
		}
		return "D:" + strconv.FormatInt(int64(s.Final), 16) + ":" + runesHex(s.Intermediate) + ":" + ps + ":" + runesHex(s.Data)
	case ansi.APC:
		return "A:" + runesHex([]rune(s.Data))
	case ansi.EOF:
		return "Z"
	case error:
		return "X"
	}
	return fmt.Sprintf("?%T", seq)
}

// ---- the scheduler ---------------------------------------------------------------------------

type arrival struct {
	point    int
	panicked any
	wake     chan struct{} // closed to release the goroutine
	buf      []byte        // point 15: the reader's buffer
	ret      chan readRes  // point 15: what Read returns
}

type readRes struct {
	b   byte
	eof bool
}

// ctl is the scheduler's view of one parser.
type ctl struct {
	arr  chan arrival
	late chan arrival  // callbacks that start / return after the schedule is over
	free chan struct{} // closed: every yield point returns at once (the schedule is over)
}

var (
	regMu sync.Mutex
	ctls  = map[*ansi.Parser]*ctl{}
)

func hook(p *ansi.Parser, point int, pv any) {
	regMu.Lock()
	c := ctls[p]
	regMu.Unlock()
	if c == nil {
		if pv != nil {
			panic(pv)
		}
		return
	}
	a := arrival{point: point, panicked: pv, wake: make(chan struct{})}
	over := func() {
		// the schedule is over: callbacks still report that they started / returned (or panicked), run that it panicked
		if point == 30 || point == 39 || (point == 19 && pv != nil) {
			select {
			case c.late <- a:
			default:
			}
		}
	}
	select {
	case <-c.free:
		over()
		return
	default:
	}
	select {
	case c.arr <- a:
	case <-c.free:
		over()
		return
	}
	if point == 29 || point == 39 || point == 19 {
		return // the goroutine is about to return
	}
	select {
	case <-a.wake:
	case <-c.free:
	}
}

type schedReader struct{ c *ctl }

func (r *schedReader) Read(b []byte) (int, error) {
	a := arrival{point: 15, wake: make(chan struct{}), ret: make(chan readRes, 1)}
	select {
	case r.c.arr <- a:
	case <-r.c.free:
		return 0, io.EOF
	}
	select {
	case res := <-a.ret:
		if res.eof {
			return 0, io.EOF
		}
		b[0] = res.b
		return 1, nil
	case <-r.c.free:
		return 0, io.EOF
	}
}

type cbState struct {
	wake chan struct{}
	pt   int
}

// runSchedule replays one schedule; returns the labels actually executed (an unplanned expiry of the
// parser's timer is inserted as `X` right after the step that armed it) and the observations.
func runSchedule(labels []string) (actual []string, obs string, unplanned int) {
	c := &ctl{arr: make(chan arrival, 16), late: make(chan arrival, 64), free: make(chan struct{})}
	rd := &schedReader{c: c}
	regMu.Lock()
	p := ansi.NewParser(rd)
	ctls[p] = c
	regMu.Unlock()
	// (p stays registered: a callback that is still running when the schedule is over must find its ctl)

	var (
		mainWake  chan struct{} // main parked at a verifSched point
		mainPt    = -1
		readRet   chan readRes // main parked in Read
		cbs       []*cbState
		items     []string // items of the current label
		out       = p.Next()
		closed    = false
		obsToks   []string
		armAt     = -1 // index in `actual` after which an unplanned X is inserted
		lastByte  = -1
		hang      = false
		panicMsg  = ""
		extraCbs  = 0
		moved     = "" // "main", "cb<k>": who the scheduler waits for
		movedDone = false
		mainDead  = false // run() panicked (reported by the deferred yield point 19): the channel will never be closed
	)
	take := func(seq ansi.Sequence, ok bool) {
		if !ok {
			closed = true
			out = nil
			return
		}
		items = append(items, token(seq))
		p.Finish(seq)
	}
	// place: record an arrival
	place := func(a arrival, waitingX bool) {
		switch {
		case a.point == 19:
			// deferred at the top of run(): after a normal return (point 29 came first) nothing to do; after a panic
			// run() is gone without EOF and without closing the channel
			if a.panicked != nil {
				panicMsg = strings.ReplaceAll(fmt.Sprint(a.panicked), " ", "-")
				mainDead = true
				mainPt = 29
				mainWake = nil
				readRet = nil
				if moved == "main" {
					movedDone = true
				}
			}
		case a.point == 30:
			cbs = append(cbs, &cbState{wake: a.wake, pt: 30})
			if waitingX {
				movedDone = true
			} else {
				extraCbs++
			}
		case a.point == 15:
			readRet = a.ret
			mainWake = nil
			mainPt = 15
			if moved == "main" {
				movedDone = true
			}
		case a.point >= 31 && a.point <= 39:
			k := -1
			fmt.Sscanf(moved, "cb%d", &k)
			if k >= 0 && k < len(cbs) {
				cbs[k].pt = a.point
				cbs[k].wake = a.wake
				if a.panicked != nil {
					panicMsg = strings.ReplaceAll(fmt.Sprint(a.panicked), " ", "-")
				}
				movedDone = true
			}
		default: // 10-14, 20-25, 29: the main goroutine
			mainPt = a.point
			mainWake = a.wake
			readRet = nil
			if moved == "main" {
				movedDone = true
			}
		}
	}
	// wait until the released goroutine (or, for X, a new callback) has parked again
	wait := func(waitingX bool) {
		movedDone = false
		deadline := time.NewTimer(failAfter)
		defer deadline.Stop()
		for !movedDone {
			select {
			case a := <-c.arr:
				place(a, waitingX)
			case seq, ok := <-out:
				take(seq, ok)
			case <-deadline.C:
				hang = true
				return
			}
		}
		// everything the step emitted is in the channel by now
		for out != nil {
			select {
			case seq, ok := <-out:
				take(seq, ok)
				continue
			default:
			}
			break
		}
	}
	snap := func(pt int) string {
		s := ansi.VerifSchedSnapshot(p)
		it := "-"
		if len(items) > 0 {
			it = strings.Join(items, "+")
		}
		ign := 0
		if s.IgnoreST {
			ign = 1
		}
		lk := 0
		if s.Locked {
			lk = 1
		}
		t := fmt.Sprintf("%d/%d/%s/%d/%d/%s", pt, s.EscGen, s.State, ign, lk, it)
		if panicMsg != "" {
			t += "/panic:" + panicMsg
			panicMsg = ""
		}
		items = nil
		return t
	}
	// the main goroutine arrives in front of the select
	moved = "main"
	wait(false)

	for _, l := range labels {
		if hang {
			actual = append(actual, l)
			obsToks = append(obsToks, "skip")
			continue
		}
		// a timer that expired although the schedule had the read return first (the machine stalled
		// for 10 ms between two labels): the callback is parked in front of Lock and stays there;
		// the schedule that was really executed has an X right after the arming step
		for extraCbs > 0 {
			extraCbs--
			unplanned++
			at := armAt
			if at < 0 || at > len(actual) {
				at = len(actual)
			}
			actual = append(actual[:at], append([]string{"X"}, actual[at:]...)...)
			obsToks = append(obsToks[:at], append([]string{"?"}, obsToks[at:]...)...)
		}
		ok := false
		pt := 0
		switch {
		case l == "K":
			p.Close()
			ok = true
		case l == "M":
			if mainWake != nil && mainPt != 29 {
				from := mainPt
				w := mainWake
				mainWake = nil
				moved = "main"
				close(w)
				wait(false)
				pt = mainPt
				ok = true
				if from == 13 && lastByte == 0x1b {
					armAt = len(actual) + 1
				}
			}
		case strings.HasPrefix(l, "R"):
			if readRet != nil {
				res := readRes{eof: true}
				lastByte = -1
				if l != "Re" {
					v, err := strconv.ParseUint(l[1:], 16, 8)
					if err == nil {
						res = readRes{b: byte(v)}
						lastByte = int(v)
					}
				}
				r := readRet
				readRet = nil
				moved = "main"
				r <- res
				wait(false)
				pt = mainPt
				ok = true
			}
		case l == "X":
			if extraCbs > 0 {
				extraCbs--
			} else {
				moved = ""
				wait(true)
			}
			if !hang {
				pt = 30
				ok = true
			}
		case strings.HasPrefix(l, "C"):
			k, err := strconv.Atoi(l[1:])
			if err == nil && k < len(cbs) && cbs[k].pt != 39 && cbs[k].wake != nil {
				w := cbs[k].wake
				cbs[k].wake = nil
				moved = "cb" + strconv.Itoa(k)
				close(w)
				wait(false)
				pt = cbs[k].pt
				ok = true
			}
		}
		actual = append(actual, l)
		switch {
		case hang:
			obsToks = append(obsToks, "hang")
		case !ok:
			obsToks = append(obsToks, "skip")
		default:
			obsToks = append(obsToks, snap(pt))
		}
	}
	// the schedule is over: let everything run to its end and collect what is still emitted
	close(c.free)
	items = nil
	deadline := time.NewTimer(failAfter)
	defer deadline.Stop()
	started, finished := len(cbs), 0
	for _, cb := range cbs {
		if cb.pt == 39 {
			finished++
		}
	}
	if !hang {
		late := func(a arrival) {
			switch a.point {
			case 30:
				started++
			case 39:
				finished++
				if a.panicked != nil {
					items = append(items, "panic:"+strings.ReplaceAll(fmt.Sprint(a.panicked), " ", "-"))
				}
			case 19:
				if a.panicked != nil {
					items = append(items, "panic:"+strings.ReplaceAll(fmt.Sprint(a.panicked), " ", "-"))
					mainDead = true
				}
			}
		}
	drain:
		for (out != nil && !mainDead) || finished < started {
			select {
			case seq, ok := <-out:
				take(seq, ok)
			case a := <-c.arr:
				late(a)
			case a := <-c.late:
				late(a)
			case <-deadline.C:
				items = append(items, "hang")
				break drain
			}
		}
	}
	// observations of an inserted X: the callback parked in front of Lock, nothing else changed
	for i, t := range obsToks {
		if t == "?" {
			prev := "0/ground/0/0"
			if i > 0 {
				f := strings.Split(obsToks[i-1], "/")
				if len(f) >= 6 {
					prev = f[1] + "/" + f[2] + "/" + f[3] + "/" + f[4]
				}
			}
			obsToks[i] = "30/" + prev + "/-"
		}
	}
	end := "open"
	if closed {
		end = "closed"
	}
	tr := "-"
	if len(items) > 0 {
		tr = strings.Join(items, "+")
	}
	return actual, strings.Join(obsToks, " ") + " end/" + end + "/" + tr, unplanned
}

// run: a schedule during which the parser's timer expired unplanned is tried again (twice); what is
// reported is always the schedule that was really executed.
func run(labels []string) (string, string, int) {
	var actual []string
	var obs string
	var un int
	for try := 0; try < 3; try++ {
		actual, obs, un = runSchedule(labels)
		if un == 0 {
			break
		}
	}
	return strings.Join(actual, ","), obs, un
}

// ---- the schedules: asked from the model ------------------------------------------------------

func verifDir() string {
	if d := os.Getenv("VERIF_DIR"); d != "" {
		return d
	}
	return "/verif"
}

var enumFull bool

func modelSchedules(tier string, seed uint64) ([]string, error) {
	exe := filepath.Join(verifDir(), "lean", ".lake", "build", "bin", "vxdrv_C08Sched")
	cmd := exec.Command(exe)
	cmd.Stdin = strings.NewReader(fmt.Sprintf("!enum %s %d\n", tier, seed))
	outp, err := cmd.Output()
	if err != nil {
		return nil, err
	}
	var res []string
	sc := bufio.NewScanner(strings.NewReader(string(outp)))
	sc.Buffer(make([]byte, 1<<20), 1<<26)
	done := false
	for sc.Scan() {
		t := sc.Text()
		if t == "END" {
			done = true
			break
		}
		if strings.HasPrefix(t, "S ") {
			res = append(res, t[2:])
		}
		if t == "FULL" {
			enumFull = true // every interleaving of every scripted input is in the list (no stride)
		}
	}
	if !done {
		return nil, fmt.Errorf("enumeration incomplete")
	}
	return res, nil
}

func main() {
	ansi.VerifSchedHook = hook
	hx.Main("C08Sched", runAll)
}

func runAll(r *hx.Run) error {
	if r.Replay != "" {
		return hx.ReplayOps(r, func(op []string) (string, bool) {
			if len(op) > 0 && op[0] == "life" {
				return "-", true // an op of the other stream of C08
			}
			if len(op) != 2 || op[0] != "sched" {
				return "", false
			}
			_, obs, _ := run(strings.Split(op[1], ","))
			return obs, true
		})
	}
	var scheds []string
	for _, c := range hx.Corpus("C08Sched") {
		for _, l := range c {
			if f := strings.Fields(l); len(f) >= 2 && f[0] == "sched" {
				scheds = append(scheds, f[1])
				r.Count("corpus")
			}
		}
	}
	nCorpus := len(scheds)
	tier := "quick"
	if r.Thorough {
		tier = "thorough"
	}
	ms, err := modelSchedules(tier, r.Seed)
	if err != nil {
		// the model's driver did not build (or is not there): the corpus schedules still run
		r.Note("model-enumeration", "unavailable: "+err.Error())
	} else {
		r.Note("model-enumeration", len(ms))
		r.Note("all-interleavings-of-the-scripted-inputs", enumFull)
		scheds = append(scheds, ms...)
	}
	type res struct {
		op, obs string
		un      int
	}
	out := make([]res, len(scheds))
	var wg sync.WaitGroup
	sem := make(chan struct{}, 48)
	for i := range scheds {
		wg.Add(1)
		sem <- struct{}{}
		go func(i int) {
			defer wg.Done()
			defer func() { <-sem }()
			a, o, un := run(strings.Split(scheds[i], ","))
			out[i] = res{"sched " + a, o, un}
		}(i)
	}
	wg.Wait()
	for i, o := range out {
		r.Emit(o.op, o.obs)
		if i >= nCorpus {
			r.Count("model-schedule")
		}
		if o.un > 0 {
			r.Count("timer-expired-unplanned")
		}
		f := strings.Split(scheds[i], ",")
		nx, nc, nk := 0, 0, 0
		for _, l := range f {
			switch {
			case l == "X":
				nx++
			case l == "K":
				nk++
			case strings.HasPrefix(l, "C"):
				nc++
			}
		}
		r.Count(fmt.Sprintf("callbacks-started-%d", nx))
		if nk > 0 {
			r.Count("with-close")
		}
		if strings.Contains(o.obs, "+C:1b") || strings.Contains(o.obs, "/C:1b") {
			r.Count("escape-reported")
		}
		r.Add("labels", len(f))
		r.Add("callback-statements", nc)
	}
	return nil
}
