// Manual probe for F29 (not part of ./check): ESC, a gap swept around the 10 ms timer delay, then "[A".
// Prints the distinct outcomes and how often each occurred.
package main

import (
	"fmt"
	"io"
	"os"
	"sort"
	"strings"
	"time"

	"git.sr.ht/~rockorager/vaxis/ansi"
)

type rd struct {
	step int
	gap  time.Duration
	hold bool
}

func (r *rd) Read(b []byte) (int, error) {
	r.step++
	switch r.step {
	case 1:
		return copy(b, "\x1b"), nil
	case 2:
		time.Sleep(r.gap)
		return copy(b, "[A"), nil
	}
	if r.hold {
		time.Sleep(30 * time.Millisecond) // keep the channel open while a late callback runs
	}
	return 0, io.EOF
}

func main() {
	counts := map[string]int{}
	n := 3000
	if len(os.Args) >= 2 {
		n = 300
	}
	for i := 0; i < n; i++ {
		gap := 9500*time.Microsecond + time.Duration(i%1000)*time.Microsecond
		p := ansi.NewParser(&rd{gap: gap, hold: len(os.Args) < 2})
		var toks []string
		for seq := range p.Next() {
			toks = append(toks, fmt.Sprint(seq))
		}
		counts[strings.Join(toks, " | ")]++
	}
	var ks []string
	for k := range counts {
		ks = append(ks, k)
	}
	sort.Strings(ks)
	for _, k := range ks {
		fmt.Printf("%5d  %s\n", counts[k], k)
	}
}
