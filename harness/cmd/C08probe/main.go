// Manual probe for F29 (not part of ./check): ESC, a gap swept around the 10 ms timer delay, then "[A".
// Prints the distinct outcomes and how often each occurred.
package main

import (
	"fmt"
	"io"
	"sort"
	"strings"
	"time"

	"git.sr.ht/~rockorager/vaxis/ansi"
)

type rd struct {
	step int
	gap  time.Duration
}

func (r *rd) Read(b []byte) (int, error) {
	r.step++
	switch r.step {
	case 1:
		return copy(b, "\x1b"), nil
	case 2:
		time.Sleep(r.gap)
		return copy(b, "[A"), nil
	}
	return 0, io.EOF
}

func main() {
	counts := map[string]int{}
	for i := 0; i < 3000; i++ {
		gap := 9500*time.Microsecond + time.Duration(i%1000)*time.Microsecond
		p := ansi.NewParser(&rd{gap: gap})
		var toks []string
		for seq := range p.Next() {
			toks = append(toks, fmt.Sprint(seq))
		}
		counts[strings.Join(toks, " | ")]++
	}
	var ks []string
	for k := range counts {
		ks = append(ks, k)
	}
	sort.Strings(ks)
	for _, k := range ks {
		fmt.Printf("%5d  %s\n", counts[k], k)
	}
}
