package main

// C09 harness: runs the real ansi parser + decodeKey / Key.Matches / Key.MatchString / Key.String on
// generated chords and encodings; the Lean driver vxdrv_C09 runs the model on the same cases and
// evaluates the Spec oracle on the implementation's answers.

import (
	"fmt"
	"sort"
	"strconv"
	"strings"
	"time"
	"unicode"

	"git.sr.ht/~rockorager/vaxis"
	"git.sr.ht/~rockorager/vaxis/ansi"
	"verifharness/fakeconsole"
	"verifharness/gen"
	"verifharness/hx"
)

func main() { hx.Main("C09", run) }

// ---- encoders (test generators; validated against Spec.kittySeq / Spec.xtermLegacy by the driver) --

func num(v int) string {
	if v == 0 {
		return ""
	}
	return strconv.Itoa(v)
}

type chord struct {
	mods, event         int
	shifted, base       int
	text                []int
}

// kittyBytes renders CSI number[:shifted[:base]][;mods+1[:event+1][;text]] final for form bits
// 1 shifted, 2 base, 4 mods, 8 event, 16 text.
func kittyBytes(number int, final byte, c chord, form int) string {
	var sb strings.Builder
	sb.WriteString("\x1b[")
	sb.WriteString(strconv.Itoa(number))
	if form&2 != 0 {
		sb.WriteString(":")
		if form&1 != 0 {
			sb.WriteString(num(c.shifted))
		}
		sb.WriteString(":" + num(c.base))
	} else if form&1 != 0 {
		sb.WriteString(":" + num(c.shifted))
	}
	if form&(4|8|16) != 0 {
		sb.WriteString(";")
		if form&8 != 0 {
			sb.WriteString(fmt.Sprintf("%d:%d", c.mods+1, c.event+1))
		} else if form&4 != 0 {
			sb.WriteString(strconv.Itoa(c.mods + 1))
		}
		if form&16 != 0 {
			sb.WriteString(";")
			var t []string
			for _, v := range c.text {
				t = append(t, strconv.Itoa(v))
			}
			sb.WriteString(strings.Join(t, ":"))
		}
	}
	sb.WriteByte(final)
	return sb.String()
}

func intsTok(v []int) string {
	if len(v) == 0 {
		return "-"
	}
	var p []string
	for _, x := range v {
		p = append(p, strconv.Itoa(x))
	}
	return strings.Join(p, ".")
}

// ---- the run ---------------------------------------------------------------------------------

type H struct {
	r   *hx.Run
	rng *gen.Rng
	// a real Vaxis on a fake console, for the end-to-end stream
	fc  *fakeconsole.Console
	vx  *vaxis.Vaxis
	e2n int
	// sample of decoded keys for the matching streams
	keys []vaxis.Key
}

func decode(seq ansi.Sequence) (k vaxis.Key, res string) {
	p, _ := hx.Guard(func() { k = vaxis.VerifC09DecodeKey(seq) })
	if p {
		return k, "panic"
	}
	return k, keyTok(k)
}

// emitDec parses `in`, expects exactly one sequence, decodes it and emits a `dec` line.
func (h *H) emitDec(in string, spec string, class string, keep bool) {
	seqs := parse(in)
	if len(seqs) != 1 {
		h.r.Count("skipped:" + class + ":not-one-sequence")
		return
	}
	h.emitDecSeq(seqs[0], spec, class, keep)
	h.e2n++
	if h.vx != nil && (h.r.Thorough && h.e2n%4 == 0 || !h.r.Thorough && h.e2n%3 == 0) {
		h.emitE2E(in, seqs[0], spec, class)
	}
}

const sentinel = "\x1b[57500;1:1u" // a private-use key code outside every generated number range

// e2eKey injects the bytes followed by the sentinel key into the fake console of a real Vaxis and
// returns the Key events read from Events() before the sentinel ("none" if there are none, "hang" if
// the sentinel does not arrive).
func (h *H) e2eKey(in string) string {
	h.fc.InjectString(in + sentinel)
	var keys []string
	deadline := time.After(2 * time.Second)
	for {
		select {
		case ev := <-h.vx.Events():
			if k, ok := ev.(vaxis.Key); ok {
				if k.Keycode == 57500 {
					switch len(keys) {
					case 0:
						return "none"
					case 1:
						return keys[0]
					}
					return "several:" + strings.Join(keys, ",")
				}
				keys = append(keys, keyTok(k))
			}
		case <-deadline:
			return "hang"
		}
	}
}

func (h *H) emitE2E(in string, seq ansi.Sequence, spec string, class string) {
	st, ok := seqTok(seq)
	if !ok {
		return
	}
	res := h.e2eKey(in)
	u := uniSet{}
	u.addSeq(seq)
	if k, ok := untokKey(res); ok {
		u.addKey(k)
	}
	k, _ := decode(seq)
	u.addKey(k)
	h.r.Emit(fmt.Sprintf("e2e %s %s %s", u.tok(), st, spec), res)
	h.r.Count("e2e:" + class)
	if res == "none" {
		h.r.Count("e2e-not-a-key-event:" + class)
	}
}

func (h *H) emitDecSeq(seq ansi.Sequence, spec string, class string, keep bool) {
	st, ok := seqTok(seq)
	if !ok {
		h.r.Count("skipped:" + class + ":not-a-key-sequence")
		return
	}
	k, res := decode(seq)
	u := uniSet{}
	u.addSeq(seq)
	u.addKey(k)
	h.r.Emit(fmt.Sprintf("dec %s %s %s", u.tok(), st, spec), res)
	h.r.Count("dec:" + class)
	if c, ok := seq.(ansi.CSI); ok {
		h.countParams(c)
	}
	if keep && res != "panic" {
		h.keys = append(h.keys, k)
	}
}

// matchesVariadic: Matches takes its modifiers as a variadic list and ORs them; the model takes one mask. Every way of
// passing the mask m must give the same answer: as one argument, not at all (m == 0), split into two halves, bit by bit.
func matchesVariadic(k vaxis.Key, b rune, m int) (bool, bool) {
	got := k.Matches(b, vaxis.ModifierMask(m))
	same := true
	if m == 0 && k.Matches(b) != got {
		same = false
	}
	if k.Matches(b, vaxis.ModifierMask(m&0x0F), vaxis.ModifierMask(m&^0x0F)) != got {
		same = false
	}
	var bits []vaxis.ModifierMask
	for i := 0; i < 12; i++ {
		if m&(1<<i) != 0 {
			bits = append(bits, vaxis.ModifierMask(1<<i))
		}
	}
	if k.Matches(b, bits...) != got {
		same = false
	}
	return got, same
}

func (h *H) emitMat(k vaxis.Key, b rune, m int, class string) {
	var got bool
	same := true
	p, _ := hx.Guard(func() { got, same = matchesVariadic(k, b, m) })
	res := "0"
	if got {
		res = "1"
	}
	if !same {
		res = "variadic-call-differs"
		h.r.Count("mat:variadic-call-differs")
	}
	if p {
		res = "panic"
	}
	u := uniSet{}
	u.addKey(k)
	u.add(b)
	h.r.Emit(fmt.Sprintf("mat %s %s %d %d", u.tok(), keyTok(k), b, m), res)
	h.r.Count("mat:" + class)
}

func (h *H) emitSelf(k vaxis.Key, class string) {
	res := selfRes(k)
	u := uniSet{}
	u.addKey(k)
	var str string
	hx.Guard(func() { str = k.String() })
	u.addStr(str)
	h.r.Emit(fmt.Sprintf("self %s %s %s", u.tok(), foldTok(str), keyTok(k)), res)
	h.r.Count("self:" + class)
}

func selfRes(k vaxis.Key) string {
	var str string
	var got bool
	p, _ := hx.Guard(func() { str = k.String(); got = k.MatchString(str) })
	if p {
		return "panic"
	}
	return runesTok(str) + "|" + b01(got)
}

func (h *H) emitMstr(k vaxis.Key, s string, class string) {
	var got bool
	p, _ := hx.Guard(func() { got = k.MatchString(s) })
	res := "0"
	if got {
		res = "1"
	}
	if p {
		res = "panic"
	}
	u := uniSet{}
	u.addKey(k)
	u.addStr(s)
	h.r.Emit(fmt.Sprintf("mstr %s %s %s %s", u.tok(), foldTok(s), keyTok(k), runesTok(s)), res)
	h.r.Count("mstr:" + class)
}

func (h *H) emitStr(k vaxis.Key, class string) string {
	var got string
	p, _ := hx.Guard(func() { got = k.String() })
	res := runesTok(got)
	if p {
		res = "panic"
	}
	u := uniSet{}
	u.addKey(k)
	h.r.Emit(fmt.Sprintf("str %s %s", u.tok(), keyTok(k)), res)
	h.r.Count("str:" + class)
	return got
}

var otherScripts = []string{"ф", "Ф", "é", "É", "ß", "ǅ", "İ", "ı", "K", "ſ", "世", "🔥", "é", "👩‍🚀", "🇩🇪", "Σ", "ς", " ", "­", "\u0085", "�", "٣"}

var csiFinals = []byte{'u', '~', 'A', 'B', 'C', 'D', 'E', 'F', 'H', 'P', 'Q', 'R', 'S', 'Z'}

func (h *H) decodeStreams() {
	r, rng := h.r, h.rng
	// (a) printable bytes and other scripts
	for c := 0x20; c <= 0x7F; c++ {
		h.emitDec(string(rune(c)), "p", "print-ascii", true)
	}
	for _, s := range otherScripts {
		h.emitDec(s, "p", "print-other", true)
	}
	for b := 0x80; b <= 0xFF; b++ {
		h.emitDec(string([]byte{byte(b)}), "p", "print-rawbyte", b%16 == 0)
	}
	nrand := 300
	if r.Thorough {
		nrand = 20000
	}
	for i := 0; i < nrand; i++ {
		var c rune
		switch rng.Intn(3) {
		case 0:
			c = rune(rng.Range(0xA0, 0x24FF))
		case 1:
			c = rune(rng.Range(0x2500, 0xFFFF))
		default:
			c = rune(rng.Range(0x10000, 0x10FFFF))
		}
		if c >= 0xD800 && c <= 0xDFFF {
			continue
		}
		h.emitDec(string(c), "p", "print-random", i%10 == 0)
	}
	// (b) C0: directly (every value) and through the parser
	for b := 0; b < 32; b++ {
		h.emitDecSeq(ansi.C0(rune(b)), "c", "c0-direct", true)
		if b != 0x1B {
			h.emitDec(string(rune(b)), "c", "c0-parsed", false)
		}
	}
	for _, b := range []rune{-1, 32, 64, 127, 200} {
		h.emitDecSeq(ansi.C0(b), "-", "c0-out-of-range", false)
	}
	// (c) ESC-prefixed
	for c := 0x20; c <= 0x7F; c++ {
		h.emitDec("\x1b"+string(rune(c)), "e", "esc-prefixed", true)
	}
	for _, c := range []rune{0, 1, 0x80, 'ф', 0x10FFFF, -5} {
		h.emitDecSeq(ansi.ESC{Final: c}, "e", "esc-direct", false)
	}
	// (d) SS3
	for c := 0x20; c <= 0x7E; c++ {
		h.emitDec("\x1bO"+string(rune(c)), "s", "ss3", c >= 'A' && c <= 'S')
	}
	// (e) CSI reports: number grid × finals × forms × masks
	var numbers []int
	for n := 0; n <= 40; n++ {
		numbers = append(numbers, n)
	}
	for n := 57340; n <= 57460; n++ {
		numbers = append(numbers, n)
	}
	for n := 32; n <= 127; n++ {
		numbers = append(numbers, n)
	}
	numbers = append(numbers, 160, 223, 233, 1092, 1060, 0x4E16, 0x1F525, 0x10FFFF, 0xD800, 0x110000, 1<<31 - 1)
	forms := []int{0, 4, 12, 5, 7, 6, 13, 15, 20, 28, 21, 31, 16, 17, 24}
	masks := func(number int) []int {
		if r.Thorough {
			all := make([]int, 256)
			for i := range all {
				all[i] = i
			}
			return all
		}
		ms := []int{0, 1, 2, 4, 5, 8, 16, 32, 64, 128, 65, 193, 255}
		for i := 0; i < 3; i++ {
			ms = append(ms, rng.Intn(256))
		}
		return ms
	}
	mkChord := func(number, m int) chord {
		c := chord{mods: m, event: rng.Intn(3)}
		up := int(unicode.ToUpper(rune(number)))
		switch rng.Intn(4) {
		case 0:
			c.shifted = up
		case 1:
			c.shifted = rng.Range(33, 126)
		case 2:
			c.shifted = int(gen.Pick(rng, []rune{'Ф', ':', 'É', 0x1F525}))
		}
		if rng.Bool() {
			c.base = rng.Range(97, 122)
		}
		switch rng.Intn(4) {
		case 0:
			c.text = []int{number}
		case 1:
			c.text = []int{up}
		case 2:
			c.text = []int{rng.Range(32, 126), rng.Range(0xA0, 0x2FF)}
		}
		return c
	}
	for _, n := range numbers {
		for _, fin := range csiFinals {
			if fin != 'u' && fin != '~' && n > 1 {
				continue
			}
			ascii := n >= 32 && n <= 127 && fin == 'u'
			fs := forms
			if !ascii && !r.Thorough {
				fs = []int{0, 4, 12, 31}
			}
			for _, m := range masks(n) {
				for fi, form := range fs {
					if !r.Thorough && !ascii && fi > 0 && m > 5 && rng.Intn(3) != 0 {
						continue
					}
					if !r.Thorough && ascii && rng.Intn(4) != 0 {
						continue
					}
					c := mkChord(n, m)
					if len(c.text) == 0 {
						form &^= 16
					}
					in := kittyBytes(n, fin, c, form)
					spec := fmt.Sprintf("k:%d:%d:?:%d:%d:%d:%d:%s:%d", n, fin, c.mods, c.event, c.shifted, c.base, intsTok(c.text), form)
					cls := "csi-special"
					if ascii {
						cls = "csi-u-ascii"
					} else if n >= 128 && n < 57340 || n > 57460 {
						cls = "csi-u-other"
					}
					h.emitDec(in, spec, cls, rng.Intn(40) == 0 || (m == 0 && form == 0))
				}
			}
		}
	}
	// (f) parameterless CSI letters, CSI Z, modifyOtherKeys
	for c := 0x40; c <= 0x7E; c++ {
		if c == 'M' || c == 'm' {
			continue
		}
		spec := fmt.Sprintf("n:%d:?", c)
		if c == 'Z' {
			spec = "z"
		}
		h.emitDec("\x1b["+string(rune(c)), spec, "csi-noparam", true)
	}
	for _, code := range []int{9, 13, 27, 32, 48, 59, 65, 97, 105, 109, 127, 233} {
		for _, m := range masks(code) {
			h.emitDec(fmt.Sprintf("\x1b[27;%d;%d~", m+1, code), fmt.Sprintf("m:%d:%d", m, code), "csi-modifyOtherKeys", m < 8)
		}
	}
	// (g) raw CSI fuzz: odd shapes, huge parameters (rune truncation), many fields
	nf := 2000
	if r.Thorough {
		nf = 60000
	}
	for i := 0; i < nf; i++ {
		var sb strings.Builder
		sb.WriteString("\x1b[")
		np := rng.Intn(5)
		for p := 0; p < np; p++ {
			if p > 0 {
				sb.WriteByte(';')
			}
			ns := rng.Intn(4)
			for s := 0; s < ns; s++ {
				if s > 0 {
					sb.WriteByte(':')
				}
				switch rng.Intn(6) {
				case 0:
				case 1:
					sb.WriteString(strconv.Itoa(rng.Intn(3)))
				case 2:
					sb.WriteString(strconv.Itoa(rng.Range(0, 130)))
				case 3:
					sb.WriteString(strconv.Itoa(rng.Range(57340, 57460)))
				case 4:
					sb.WriteString(strconv.FormatUint(rng.U64()%(1<<34), 10))
				default:
					sb.WriteString(strconv.Itoa(gen.Pick(rng, []int{27, 9, 13, 127, 1, 2147483648, 4294967296 + 97, 0xD800, 0x110000, 1114113})))
				}
			}
		}
		sb.WriteByte(gen.Pick(rng, csiFinals))
		h.emitDec(sb.String(), "-", "csi-fuzz", i%50 == 0)
	}
	// huge decimal parameters: the real parser accumulates them in a Go int, which wraps silently at
	// 2^63 / 2^64 ("18446744073709551713" arrives as 97); rune(p) then truncates to 32 bits.
	// (Not generated: a modifier / event parameter of exactly -2^63, where Go's `pm[0]-1` itself wraps.)
	for _, in := range []string{"\x1b[4294967393u", "\x1b[2147483648u", "\x1b[2147483647u", "\x1b[4294967295u", "\x1b[4294967296u", "\x1b[9223372036854775807u",
		"\x1b[18446744073709551713u", "\x1b[18446744073709551615u", "\x1b[99999999999999999999999u", "\x1b[97:4294967361:8589934689;4294967298u",
		"\x1b[97;18446744073709551618u", "\x1b[97;9223372036854775807:9223372036854775807u", "\x1b[97;1;4294967393:18446744073709551713u",
		"\x1b[27;5;4294967393~", "\x1b[4294967297Z", "\x1b[4294967298~", "\x1b[97;1;2147483648:4294967295u"} {
		h.emitDec(in, "-", "csi-huge", false)
	}
	// math.MinInt64 as modifier / event parameter (the digits 9223372036854775808 wrap to it in the parser):
	// Go's `pm[0]-1` and `EventType(ps)-1` wrap to MaxInt64 (Props/C09Int64.lean)
	for _, in := range []string{"\x1b[97;9223372036854775808u", "\x1b[97;1:9223372036854775808u", "\x1b[1;9223372036854775808A",
		"\x1b[97;9223372036854775808:9223372036854775808u", "\x1b[3;9223372036854775808~", "\x1b[97;27670116110564327424u"} {
		h.emitDec(in, "-", "csi-minint64", false)
	}
	h.emitDecSeq(ansi.CSI{Final: 'u', Parameters: [][]int{{97}, {-9223372036854775808}}}, "-", "csi-minint64", false)
	h.emitDecSeq(ansi.CSI{Final: 'u', Parameters: [][]int{{97}, {2, -9223372036854775808}}}, "-", "csi-minint64", false)
	for _, ps := range [][][]int{{{-5}, {-3, -2}, {-1}}, {{-4294967199}}, {{97}, {-9223372036854775807}}, {{-2147483649, -1, -2147483648}},
		{{97, 65}, {2, -7}, {-4294967231, 65}, {5}, {6}}, {{27}, {0}, {-4294967199}}} {
		h.emitDecSeq(ansi.CSI{Final: 'u', Parameters: ps}, "-", "csi-negative-handmade", false)
		h.emitDecSeq(ansi.CSI{Final: '~', Parameters: ps}, "-", "csi-negative-handmade", false)
	}
	// hand-made sequences the parser never produces (empty sub-parameter lists)
	h.emitDecSeq(ansi.CSI{Final: 'u', Parameters: [][]int{{}, {}, {}}}, "-", "csi-handmade", false)
	h.emitDecSeq(ansi.CSI{Final: '~', Parameters: [][]int{{27}, {5}, {}}}, "-", "csi-handmade", false)
	h.emitDecSeq(ansi.CSI{Final: 'u', Parameters: [][]int{{97, 65, 98, 99}, {0, 0, 7}, {65}, {1}}}, "-", "csi-handmade", false)
	h.emitDecSeq(ansi.Print{Grapheme: ""}, "-", "print-handmade", false)
}

// countParams records which magnitudes of CSI parameters the dec stream exercised (Props/C09Uni
// decode_csi_total is over all of Z; the correspondence covers these regions).
func (h *H) countParams(c ansi.CSI) {
	seen := map[string]bool{}
	for i, pm := range c.Parameters {
		pos := "other"
		switch i {
		case 0:
			pos = "codes"
		case 1:
			pos = "mods"
		case 2:
			pos = "text"
		}
		for _, v := range pm {
			switch {
			case v < 0:
				seen["dec-csi-param<0:"+pos] = true
			case v >= 1<<32:
				seen["dec-csi-param>=2^32:"+pos] = true
			case v >= 1<<31:
				seen["dec-csi-param>=2^31:"+pos] = true
			}
		}
		if len(pm) == 0 {
			seen["dec-csi-empty-sub-parameter-list"] = true
		}
	}
	if len(c.Parameters) > 3 {
		seen["dec-csi-more-than-3-parameters"] = true
	}
	for k := range seen {
		h.r.Count(k)
	}
}

func allKeyNames() []string {
	// names accepted by MatchString are not exported; String() of each named key gives them
	return nil
}

func (h *H) matchStreams() {
	r, rng := h.r, h.rng
	// synthetic keys in addition to the decoded sample
	synth := []vaxis.Key{
		{Keycode: 'j'}, {Keycode: 'j', Text: "j"}, {Keycode: 'j', ShiftedCode: 'J', Modifiers: vaxis.ModShift, Text: "J"},
		{Keycode: ';', ShiftedCode: ':', Modifiers: vaxis.ModShift, Text: ":"},
		{Keycode: 'ф', BaseLayoutCode: 'a', Text: "ф"}, {Keycode: 'ф', ShiftedCode: 'Ф', BaseLayoutCode: 'a', Modifiers: vaxis.ModCtrl | vaxis.ModShift},
		{Keycode: vaxis.KeyTab, Modifiers: vaxis.ModShift}, {Keycode: vaxis.KeyTab},
		{Keycode: 'p', Modifiers: vaxis.ModCapsLock, Text: "P"}, {Keycode: ' ', Modifiers: vaxis.ModShift, Text: " "},
		{Keycode: vaxis.KeyF01, Modifiers: vaxis.ModHyper | vaxis.ModMeta}, {Keycode: 'a', Modifiers: 511}, {Keycode: 'a', Modifiers: 256},
		{Keycode: '1', Modifiers: vaxis.ModShift, Text: "!"}, {Keycode: '1', ShiftedCode: '!', Modifiers: vaxis.ModShift | vaxis.ModAlt},
		{Keycode: 'ß', Modifiers: vaxis.ModShift, Text: "SS"}, {Keycode: -3, Text: "�"}, {Keycode: 0xD800, Text: "�"},
	}
	keys := append([]vaxis.Key{}, synth...)
	nk := 60
	if r.Thorough {
		nk = 500
	}
	if len(h.keys) <= nk {
		keys = append(keys, h.keys...)
	} else {
		for i := 0; i < nk; i++ {
			keys = append(keys, h.keys[rng.Intn(len(h.keys))])
		}
	}
	r.Add("match-chord-sample", len(keys))
	for _, k := range keys {
		rel := map[rune]bool{}
		rel[k.Keycode], rel[k.ShiftedCode], rel[k.BaseLayoutCode] = true, true, true
		for _, t := range k.Text {
			rel[t] = true
			break
		}
		for _, x := range []rune{k.Keycode, k.ShiftedCode} {
			rel[unicode.ToUpper(x)], rel[unicode.ToLower(x)] = true, true
		}
		rel[gen.Pick(rng, []rune{'a', ':', vaxis.KeyTab, vaxis.KeyUp, ' ', 'Z', '1', 0xFFFD})] = true
		var rs []int
		for x := range rel {
			rs = append(rs, int(x))
		}
		sort.Ints(rs)
		for _, b := range rs {
			for m := 0; m < 256; m++ {
				h.emitMat(k, rune(b), m, "related-binding-x-256-masks")
			}
			h.emitMat(k, rune(b), 256+int(k.Modifiers), "mask-beyond-8-bits")
		}
	}
	r.Note("match-masks-exhaustive", true)

	// String() and MatchString
	mods := []string{"shift", "alt", "ctrl", "super", "hyper", "meta", "caps", "num", "Shift", "CTRL", "Alt", "ſhift", "control", ""}
	tails := []string{"a", "A", "+", "", "Up", "up", "UP", "F1", "f12", "F63", "Page_Down", "page_up", "Print", "space", "Space", "Enter", "Escape", "Tab", "BackSpace",
		"Caps_Lock", "ф", "Ф", "世", "ab", "фы", "K", "ISO_Level3_Shift", "iso_level3_ſhift", "Cmd", "Media_Play_Pause", "x+y", ":", ";", "1", "!"}
	for _, k := range keys {
		s := h.emitStr(k, "sample")
		h.emitSelf(k, "chord-sample")
		h.emitMstr(k, strings.ToLower(s), "own-String-lowercased")
		h.emitMstr(k, strings.ToUpper(s), "own-String-uppercased")
		if i := strings.LastIndex(s, "+"); i > 0 && i < len(s)-1 {
			parts := strings.Split(s[:i], "+")
			for a, b := 0, len(parts)-1; a < b; a, b = a+1, b-1 {
				parts[a], parts[b] = parts[b], parts[a]
			}
			h.emitMstr(k, strings.Join(parts, "+")+s[i:], "own-String-mods-reversed")
			h.emitMstr(k, "caps+num+"+s, "own-String-with-locks")
		}
		for i := 0; i < 6; i++ {
			var sb strings.Builder
			for j := rng.Intn(3); j > 0; j-- {
				sb.WriteString(gen.Pick(rng, mods) + "+")
			}
			sb.WriteString(gen.Pick(rng, tails))
			h.emitMstr(k, sb.String(), "random-binding-string")
		}
	}
	// every named special key and every constant: String(), self match under all 64 printable modifier sets
	for kc := vaxis.KeyUp; kc <= vaxis.KeyKeyPadBegin; kc++ {
		for m := 0; m < 256; m++ {
			if !r.Thorough && m >= 64 && m%37 != 0 {
				continue
			}
			k := vaxis.Key{Keycode: kc, Modifiers: vaxis.ModifierMask(m)}
			h.emitStr(k, "every-special-key-x-masks")
			h.emitSelf(k, "every-special-key-x-masks")
			// every event type other than a release is bindable: repeat (kitty event 2), paste and motion (stamped by
			// handleSequence), an unknown value; the event type rotates with key and mask, masks < 64 all covered
			if m < 64 || r.Thorough {
				k.EventType = []vaxis.EventType{vaxis.EventRepeat, vaxis.EventPaste, vaxis.EventMotion, 7}[(int(kc)+m)%4]
				h.emitSelf(k, "every-special-key-x-masks-x-event-types")
			}
		}
	}
	for _, kc := range []rune{vaxis.KeyEnter, vaxis.KeyTab, vaxis.KeyEsc, vaxis.KeySpace, vaxis.KeyBackspace, 'a', 'z', 'A', '+', '-', '1', 'ф', '世', 0x08} {
		for m := 0; m < 256; m++ {
			k := vaxis.Key{Keycode: kc, Modifiers: vaxis.ModifierMask(m)}
			if m&int(vaxis.ModCapsLock) != 0 {
				k.Text = string(unicode.ToUpper(kc))
			}
			h.emitStr(k, "aliases-and-chars-x-masks")
			h.emitSelf(k, "aliases-and-chars-x-masks")
			for _, ev := range []vaxis.EventType{vaxis.EventRepeat, vaxis.EventPaste, vaxis.EventMotion, vaxis.EventRelease, 7} {
				if ev != vaxis.EventRepeat && ev != vaxis.EventPaste && m%5 != 0 {
					continue
				}
				k.EventType = ev
				h.emitSelf(k, "aliases-and-chars-x-masks-x-event-types")
			}
		}
	}
	for _, k := range []vaxis.Key{{Keycode: -1}, {Keycode: 0}, {Keycode: 1, Modifiers: 3}, {Keycode: 0x1A}, {Keycode: 0x1C}, {Keycode: 0x1F, Modifiers: 255},
		{Keycode: 'a', Modifiers: vaxis.ModCtrl, EventType: vaxis.EventRelease}, {Keycode: 0x10FFFF}, {Keycode: 0x110000}, {Keycode: 0xDC00}, {Keycode: vaxis.KeyKeyPadBegin + 1}} {
		h.emitStr(k, "odd-keycodes")
	}
}

// cross-protocol: the same chord through the xterm legacy encoding and through kitty reports
func (h *H) crossStreams() {
	r, rng := h.r, h.rng
	type fk struct {
		key          rune
		number       int
		final        byte
		legacy       func(m int) string
	}
	csiL := func(f byte) func(int) string {
		return func(m int) string {
			if m == 0 {
				return "\x1b[" + string(f)
			}
			return fmt.Sprintf("\x1b[1;%d%c", m+1, f)
		}
	}
	tilde := func(n int) func(int) string {
		return func(m int) string {
			if m == 0 {
				return fmt.Sprintf("\x1b[%d~", n)
			}
			return fmt.Sprintf("\x1b[%d;%d~", n, m+1)
		}
	}
	ss3L := func(f byte) func(int) string {
		return func(m int) string {
			if m == 0 {
				return "\x1bO" + string(f)
			}
			return fmt.Sprintf("\x1b[1;%d%c", m+1, f)
		}
	}
	fks := []fk{
		{vaxis.KeyUp, 1, 'A', csiL('A')}, {vaxis.KeyDown, 1, 'B', csiL('B')}, {vaxis.KeyRight, 1, 'C', csiL('C')}, {vaxis.KeyLeft, 1, 'D', csiL('D')},
		{vaxis.KeyEnd, 1, 'F', csiL('F')}, {vaxis.KeyHome, 1, 'H', csiL('H')},
		{vaxis.KeyUp, 1, 'A', ss3L('A')}, {vaxis.KeyHome, 1, 'H', ss3L('H')},
		{vaxis.KeyF01, 1, 'P', ss3L('P')}, {vaxis.KeyF02, 1, 'Q', ss3L('Q')}, {vaxis.KeyF04, 1, 'S', ss3L('S')}, {vaxis.KeyF03, 13, '~', ss3L('R')},
		{vaxis.KeyInsert, 2, '~', tilde(2)}, {vaxis.KeyDelete, 3, '~', tilde(3)}, {vaxis.KeyPgUp, 5, '~', tilde(5)}, {vaxis.KeyPgDown, 6, '~', tilde(6)},
		{vaxis.KeyF05, 15, '~', tilde(15)}, {vaxis.KeyF12, 24, '~', tilde(24)},
		// the Begin key: CSI E / CSI 1;m E, SS3 E in application cursor key mode (F513), kitty CSI 1;m E and CSI 57427;m ~
		{vaxis.KeyKeyPadBegin, 1, 'E', csiL('E')}, {vaxis.KeyKeyPadBegin, 57427, '~', csiL('E')}, {vaxis.KeyKeyPadBegin, 57427, '~', ss3L('E')},
	}
	bindsFor := func(key rune, sh rune, m int) ([][2]int, string) {
		var b [][2]int
		rs := []rune{key, sh, unicode.ToUpper(key), 'x'}
		ms := []int{0, 1, 2, 3, 4, 5, 6, 7, 8, 64, 65, 128, m, m | 64, m ^ 1}
		var p []string
		for _, rr := range rs {
			if rr == 0 {
				continue
			}
			for _, mm := range ms {
				b = append(b, [2]int{int(rr), mm})
				p = append(p, fmt.Sprintf("%d:%d", rr, mm))
			}
		}
		return b, strings.Join(p, ",")
	}
	emit := func(key rune, number int, final byte, m int, sh rune, form int, legacy string, class string) {
		c := chord{mods: m, shifted: int(sh)}
		kb := kittyBytes(number, final, c, form)
		sl, sk := parse(legacy), parse(kb)
		if len(sl) != 1 || len(sk) != 1 {
			r.Count("skipped:xp:not-one-sequence")
			return
		}
		tl, ok1 := seqTok(sl[0])
		tk, ok2 := seqTok(sk[0])
		if !ok1 || !ok2 {
			r.Count("skipped:xp:not-a-key-sequence")
			return
		}
		kl, _ := decode(sl[0])
		kk, _ := decode(sk[0])
		binds, bt := bindsFor(key, sh, m)
		bits := func(k vaxis.Key) string {
			var sb strings.Builder
			for _, b := range binds {
				if k.Matches(rune(b[0]), vaxis.ModifierMask(b[1])) {
					sb.WriteByte('1')
				} else {
					sb.WriteByte('0')
				}
			}
			return sb.String()
		}
		u := uniSet{}
		u.addSeq(sl[0])
		u.addSeq(sk[0])
		u.addKey(kl)
		u.addKey(kk)
		for _, b := range binds {
			u.add(rune(b[0]))
		}
		impl := fmt.Sprintf("%s|%s|%s|%s", runesTok(kl.String()), runesTok(kk.String()), bits(kl), bits(kk))
		r.Emit(fmt.Sprintf("xp %s F=- %d %d %d %d %d %d %s %s %s", u.tok(), number, final, key, m, sh, form, bt, tl, tk), impl)
		r.Count("xp:" + class)
	}
	for _, f := range fks {
		for m := 0; m < 8; m++ {
			form := 4
			if m == 0 && rng.Bool() {
				form = 0
			}
			emit(f.key, f.number, f.final, m, 0, form, f.legacy(m), "function-keys")
		}
	}
	// character keys
	for c := rune(0x20); c < 0x7F; c++ {
		if unicode.IsUpper(c) {
			continue // the key is named by its un-shifted character
		}
		for m := 0; m < 8; m++ {
			sh := rune(0)
			if m&1 != 0 {
				if !unicode.IsLower(c) {
					continue // legacy reports only the shifted character of a non-letter key, not the chord
				}
				sh = unicode.ToUpper(c)
			}
			var legacy string
			switch {
			case m&4 != 0:
				if m != 4 {
					continue
				}
				switch {
				case c >= 'a' && c <= 'z':
					legacy = string(c - 0x60)
				case c == '@' || (c >= '[' && c <= '_'):
					legacy = string(c - 0x40)
				default:
					continue
				}
				if legacy == "\x08" || legacy == "\x09" || legacy == "\x0d" || legacy == "\x1b" {
					continue
				}
			default:
				ch := c
				if sh != 0 {
					ch = sh
				}
				legacy = string(ch)
				if m&2 != 0 {
					if strings.ContainsRune("OP[]X^_\\", ch) {
						continue
					}
					legacy = "\x1b" + legacy
				}
			}
			forms := []int{4, 5}
			if m&1 == 0 {
				forms = []int{4}
			}
			if m == 0 {
				forms = []int{0, 4}
			}
			for _, form := range forms {
				if m&1 != 0 && form&1 == 0 {
					continue // without the shifted code the kitty report does not say which character Shift produces
				}
				emit(c, int(c), 'u', m, sh, form, legacy, "character-keys")
			}
		}
	}
	for _, x := range []struct {
		key    rune
		legacy string
		m      int
	}{{vaxis.KeyTab, "\t", 0}, {vaxis.KeyTab, "\x1b[Z", 1}, {vaxis.KeyEnter, "\r", 0}, {vaxis.KeyBackspace, "\x7f", 0}, {vaxis.KeyBackspace, "\x1b\x7f", 2}} {
		emit(x.key, int(x.key), 'u', x.m, 0, 4, x.legacy, "tab-enter-backspace")
	}
	sl := parse("\x1b")
	_ = sl
}

func run(r *hx.Run) error {
	h := &H{r: r, rng: gen.New(r.Seed)}
	if r.Replay != "" {
		return hx.ReplayOps(r, h.replay)
	}
	for _, ops := range hx.Corpus("C09") {
		for _, op := range ops {
			if f := strings.Fields(op); len(f) == 4 && f[0] == "self" {
				// the unicode table is rebuilt from the key's current String()
				if k, ok := untokKey(f[3]); ok {
					h.emitSelf(k, "corpus")
					continue
				}
			}
			res, ok := h.replay(strings.Fields(op))
			if !ok {
				res = "bad-op"
			}
			r.Emit(op, res)
			r.Count("corpus")
		}
	}
	// end to end: a real Vaxis reading from a fake console (Events() is the observation point)
	fc := fakeconsole.New(80, 24, fakeconsole.FromMask(0))
	if vx, err := vaxis.New(vaxis.Options{WithConsole: fc, NoSignals: true}); err == nil {
		h.fc, h.vx = fc, vx
		defer vx.Close()
		if r := h.e2eKey(""); r != "none" {
			return fmt.Errorf("end-to-end stream: unexpected start-up result %s", r)
		}
	} else {
		return fmt.Errorf("vaxis.New on the fake console: %v", err)
	}
	h.decodeStreams()
	h.crossStreams()
	h.uniStreams()
	h.matchStreams()
	return nil
}
