package main

import (
	"fmt"
	"strconv"
	"strings"

	"git.sr.ht/~rockorager/vaxis"
)

// replay re-runs one op (its tokens) on the real code and returns the implementation result.
func (h *H) replay(op []string) (string, bool) {
	if len(op) == 0 {
		return "", false
	}
	switch op[0] {
	case "dec":
		if len(op) != 4 {
			return "", false
		}
		seq, ok := untokSeq(op[2])
		if !ok {
			return "", false
		}
		_, res := decode(seq)
		return res, true
	case "e2e":
		// end-to-end cases need the bytes; the replay re-decodes the parsed sequence directly
		if len(op) != 4 {
			return "", false
		}
		seq, ok := untokSeq(op[2])
		if !ok {
			return "", false
		}
		_, res := decode(seq)
		return res, true
	case "mat":
		if len(op) != 5 {
			return "", false
		}
		k, ok := untokKey(op[2])
		b, e1 := strconv.Atoi(op[3])
		m, e2 := strconv.Atoi(op[4])
		if !ok || e1 != nil || e2 != nil {
			return "", false
		}
		got, same := matchesVariadic(k, rune(b), m)
		if !same {
			return "variadic-call-differs", true
		}
		return b01(got), true
	case "self":
		if len(op) != 4 {
			return "", false
		}
		k, ok := untokKey(op[3])
		if !ok {
			return "", false
		}
		return selfRes(k), true
	case "mstr":
		if len(op) != 5 {
			return "", false
		}
		k, ok := untokKey(op[3])
		s, ok2 := untokRunes(op[4])
		if !ok || !ok2 {
			return "", false
		}
		return b01(k.MatchString(s)), true
	case "str":
		if len(op) != 3 {
			return "", false
		}
		k, ok := untokKey(op[2])
		if !ok {
			return "", false
		}
		return runesTok(k.String()), true
	case "hypk":
		return "agree", true // recomputed from Go's tables by the generator
	case "hypl":
		return "holds", true // recomputed from Go's tables by the generator
	case "hypa":
		return "agree", true // recomputed from Go's tables by the hypa generator; nothing in the op to re-run
	case "hyp":
		if len(op) != 6 {
			return "", false
		}
		c, e1 := strconv.Atoi(op[3])
		C, e2 := strconv.Atoi(op[4])
		if e1 != nil || e2 != nil {
			return "", false
		}
		wt := op[5] == "1"
		switch op[1] {
		case "plain":
			return violatedNames(hypPlain(rune(c), wt)), true
		case "shift":
			return violatedNames(hypShift(rune(c), rune(C), wt)), true
		case "alt":
			return violatedNames(hypAlt(rune(c))), true
		case "altshift":
			return violatedNames(hypAltShift(rune(c), rune(C))), true
		}
		return "", false
	case "xpu":
		if len(op) != 14 {
			return "", false
		}
		return h.replay(append([]string{"xp"}, op[3:]...))
	case "xpg":
		// xpg kind class U F num fin key mods sh form rest binds sl sk: as xpu, the `rest` field dropped
		if len(op) != 15 {
			return "", false
		}
		f := append([]string{"xp"}, op[3:11]...)
		return h.replay(append(f, op[12:]...))
	case "xp":
		if len(op) != 12 {
			return "", false
		}
		sl, ok1 := untokSeq(op[10])
		sk, ok2 := untokSeq(op[11])
		if !ok1 || !ok2 {
			return "", false
		}
		kl, _ := decode(sl)
		kk, _ := decode(sk)
		var bl, bk strings.Builder
		if op[9] != "-" {
			for _, e := range strings.Split(op[9], ",") {
				var r, m int
				if _, err := fmt.Sscanf(e, "%d:%d", &r, &m); err != nil {
					return "", false
				}
				bl.WriteString(b01(kl.Matches(rune(r), vaxis.ModifierMask(m))))
				bk.WriteString(b01(kk.Matches(rune(r), vaxis.ModifierMask(m))))
			}
		}
		return fmt.Sprintf("%s|%s|%s|%s", runesTok(kl.String()), runesTok(kk.String()), bl.String(), bk.String()), true
	}
	return "", false
}
