package main

import (
	"fmt"
	"strconv"
	"strings"

	"git.sr.ht/~rockorager/vaxis"
	"git.sr.ht/~rockorager/vaxis/ansi"
)

func untokRunes(s string) (string, bool) {
	if s == "-" || s == "" {
		return "", true
	}
	var sb strings.Builder
	for _, p := range strings.Split(s, ".") {
		v, err := strconv.Atoi(p)
		if err != nil {
			return "", false
		}
		sb.WriteRune(rune(v))
	}
	return sb.String(), true
}

func untokKey(s string) (vaxis.Key, bool) {
	p := strings.Split(s, "/")
	if len(p) != 6 {
		return vaxis.Key{}, false
	}
	var v [5]int
	for i := 0; i < 5; i++ {
		x, err := strconv.Atoi(p[i])
		if err != nil {
			return vaxis.Key{}, false
		}
		v[i] = x
	}
	t, ok := untokRunes(p[5])
	return vaxis.Key{Keycode: rune(v[0]), ShiftedCode: rune(v[1]), BaseLayoutCode: rune(v[2]), Modifiers: vaxis.ModifierMask(v[3]), EventType: vaxis.EventType(v[4]), Text: t}, ok
}

func untokSeq(s string) (ansi.Sequence, bool) {
	p := strings.SplitN(s, ":", 3)
	if len(p) < 2 {
		return nil, false
	}
	switch p[0] {
	case "P":
		g, ok := untokRunes(p[1])
		return ansi.Print{Grapheme: g}, ok
	case "C0", "E", "S3":
		v, err := strconv.Atoi(p[1])
		if err != nil {
			return nil, false
		}
		switch p[0] {
		case "C0":
			return ansi.C0(rune(v)), true
		case "E":
			return ansi.ESC{Final: rune(v)}, true
		}
		return ansi.SS3(rune(v)), true
	case "CSI":
		if len(p) != 3 {
			return nil, false
		}
		f, err := strconv.Atoi(p[1])
		if err != nil {
			return nil, false
		}
		c := ansi.CSI{Final: rune(f)}
		if p[2] == "-" {
			return c, true
		}
		for _, pm := range strings.Split(p[2], "/") {
			var sub []int
			if pm != "-" {
				for _, x := range strings.Split(pm, ".") {
					v, err := strconv.Atoi(x)
					if err != nil {
						return nil, false
					}
					sub = append(sub, v)
				}
			}
			c.Parameters = append(c.Parameters, sub)
		}
		return c, true
	}
	return nil, false
}


// replay re-runs one op (its tokens) on the real code and returns the implementation result.
func (h *H) replay(op []string) (string, bool) {
	if len(op) == 0 {
		return "", false
	}
	switch op[0] {
	case "dec":
		if len(op) != 4 {
			return "", false
		}
		seq, ok := untokSeq(op[2])
		if !ok {
			return "", false
		}
		_, res := decode(seq)
		return res, true
	case "mat":
		if len(op) != 5 {
			return "", false
		}
		k, ok := untokKey(op[2])
		b, e1 := strconv.Atoi(op[3])
		m, e2 := strconv.Atoi(op[4])
		if !ok || e1 != nil || e2 != nil {
			return "", false
		}
		return b01(k.Matches(rune(b), vaxis.ModifierMask(m))), true
	case "self":
		if len(op) != 4 {
			return "", false
		}
		k, ok := untokKey(op[3])
		if !ok {
			return "", false
		}
		return selfRes(k), true
	case "mstr":
		if len(op) != 5 {
			return "", false
		}
		k, ok := untokKey(op[3])
		s, ok2 := untokRunes(op[4])
		if !ok || !ok2 {
			return "", false
		}
		return b01(k.MatchString(s)), true
	case "str":
		if len(op) != 3 {
			return "", false
		}
		k, ok := untokKey(op[2])
		if !ok {
			return "", false
		}
		return runesTok(k.String()), true
	case "xp":
		if len(op) != 12 {
			return "", false
		}
		sl, ok1 := untokSeq(op[10])
		sk, ok2 := untokSeq(op[11])
		if !ok1 || !ok2 {
			return "", false
		}
		kl, _ := decode(sl)
		kk, _ := decode(sk)
		var bl, bk strings.Builder
		if op[9] != "-" {
			for _, e := range strings.Split(op[9], ",") {
				var r, m int
				if _, err := fmt.Sscanf(e, "%d:%d", &r, &m); err != nil {
					return "", false
				}
				bl.WriteString(b01(kl.Matches(rune(r), vaxis.ModifierMask(m))))
				bk.WriteString(b01(kk.Matches(rune(r), vaxis.ModifierMask(m))))
			}
		}
		return fmt.Sprintf("%s|%s|%s|%s", runesTok(kl.String()), runesTok(kk.String()), bl.String(), bk.String()), true
	}
	return "", false
}
