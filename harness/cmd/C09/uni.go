package main

// Round 2 (c09-thm): run-time checks of the hypotheses of Props/C09Uni.lean on Go's real `unicode`
// tables, and the cross-protocol comparison for character keys of other scripts.
//
//   hypa U F                     AsciiAgree (hypothesis of self_match): ToLower / simple folding on the 128 ASCII runes
//   hyp kind U c C withText      the hypotheses of cross_protocol_char_<kind> on Go's values
//   xpu kind class U F number final key mods sh form binds seqL seqK
//                                the chord on the real code under both encodings (same format as `xp`)

import (
	"fmt"
	"sort"
	"strconv"
	"strings"
	"unicode"

	"git.sr.ht/~rockorager/vaxis"
	"git.sr.ht/~rockorager/vaxis/ansi"
	"verifharness/gen"
)

// lower-case runes by their upper case: lowerOf[c] = every r with IsLower(r) && ToUpper(r) == c.
var lowerOf = func() map[rune][]rune {
	m := map[rune][]rune{}
	for r := rune(0); r <= unicode.MaxRune; r++ {
		if unicode.IsLower(r) {
			u := unicode.ToUpper(r)
			m[u] = append(m[u], r)
		}
	}
	return m
}()

func validRune(r rune) bool {
	return r >= 0 && r <= unicode.MaxRune && !(r >= 0xD800 && r <= 0xDFFF)
}

// the kitty functional-key numbers with final 'u' (Spec.functional): not character keys
func functionalU(c rune) bool {
	return c == 27 || c == 13 || c == 9 || c == 127 || (c >= 57358 && c <= 57363) || (c >= 57376 && c <= 57426) || (c >= 57428 && c <= 57454)
}

type hypItem struct {
	name string
	ok   bool
}

func violatedNames(h []hypItem) string {
	var v []string
	for _, e := range h {
		if !e.ok {
			v = append(v, e.name)
		}
	}
	if len(v) == 0 {
		return "ok"
	}
	return "viol:" + strings.Join(v, ",")
}

// noOtherLowerMapsTo: no lower-case rune with an upper case of its own has c as that upper case
// (lowerOf[c] lists every lower-case r with ToUpper(r) == c; r == c is a rune that is its own upper case).
func noOtherLowerMapsTo(c rune) bool {
	for _, r := range lowerOf[c] {
		if r != c {
			return false
		}
	}
	return true
}

func hypPlain(c rune, withText bool) []hypItem {
	h := []hypItem{{"validRune", validRune(c)}, {"notDEL", c != 127}, {"notUpper", !unicode.IsUpper(c)}, {"notFunctional", !functionalU(c)}}
	if !withText {
		h = append(h, hypItem{"notFFFD", c != 0xFFFD}, hypItem{"noLowerMapsTo", noOtherLowerMapsTo(c)})
	}
	return h
}

func hypShift(c, C rune, withText bool) []hypItem {
	h := []hypItem{{"validRune", validRune(c) && validRune(C)}, {"upperC", unicode.IsUpper(C)}, {"toLowerC", unicode.ToLower(C) == c},
		{"notDEL", c != 127}, {"notFunctional", !functionalU(c)}}
	if !withText {
		h = append(h, hypItem{"isPrint", unicode.IsPrint(c)}, hypItem{"isPrintC", unicode.IsPrint(C)})
	}
	return h
}

func hypAlt(c rune) []hypItem {
	return []hypItem{{"validRune", validRune(c)}, {"notUpper", !unicode.IsUpper(c)}, {"notFunctional", !functionalU(c)}}
}

func hypAltShift(c, C rune) []hypItem {
	return []hypItem{{"validRune", validRune(c) && validRune(C)}, {"upperC", unicode.IsUpper(C)}, {"toLowerC", unicode.ToLower(C) == c},
		{"notFunctional", !functionalU(c)}}
}

func (h *H) emitHyp(kind string, c, C rune, withText bool) string {
	var items []hypItem
	switch kind {
	case "plain":
		items = hypPlain(c, withText)
	case "shift":
		items = hypShift(c, C, withText)
	case "alt":
		items = hypAlt(c)
	default:
		items = hypAltShift(c, C)
	}
	res := violatedNames(items)
	u := uniSet{}
	u.add(c, C)
	u.add(lowerOf[c]...)
	h.r.Emit(fmt.Sprintf("hyp %s %s %d %d %s", kind, u.tok(), c, C, b01(withText)), res)
	if res == "ok" {
		h.r.Count("hyp_ok:" + kind)
	} else {
		for _, e := range items {
			if !e.ok {
				h.r.Count("hyp_violated:" + kind + ":" + e.name)
			}
		}
	}
	return res
}

// hypAscii: the hypothesis `AsciiAgree` of self_match on Go's tables.
func (h *H) hypAscii() {
	u := uniSet{}
	var pairs []string
	res := "agree"
	for a := rune(0); a < 128; a++ {
		u.add(a)
		want := a
		if a >= 'A' && a <= 'Z' {
			want = a + 32
		}
		if unicode.ToLower(a) != want {
			res = "differ"
			h.r.Count("hyp_violated:AsciiAgree:lower")
		}
		for x := unicode.SimpleFold(a); x != a; x = unicode.SimpleFold(x) {
			pairs = append(pairs, fmt.Sprintf("%d:%d", a, x))
			if x < 128 {
				casePair := (a >= 'A' && a <= 'Z' && x == a+32) || (x >= 'A' && x <= 'Z' && a == x+32)
				if !casePair {
					res = "differ"
					h.r.Count("hyp_violated:AsciiAgree:fold")
				}
			}
		}
		if a >= 'A' && a <= 'Z' {
			found := false
			for x := unicode.SimpleFold(a); x != a; x = unicode.SimpleFold(x) {
				if x == a+32 {
					found = true
				}
			}
			if !found {
				res = "differ"
				h.r.Count("hyp_violated:AsciiAgree:fold")
			}
		}
	}
	// every ASCII rune is listed (the driver's defaults are not used for the check)
	var rows []string
	for a := rune(0); a < 128; a++ {
		rows = append(rows, fmt.Sprintf("%d:0:%d:%d", a, unicode.ToUpper(a), unicode.ToLower(a)))
	}
	h.r.Emit(fmt.Sprintf("hypa U=%s F=%s", strings.Join(rows, ";"), strings.Join(pairs, ";")), res)
	if res == "agree" {
		h.r.Count("hyp_ok:AsciiAgree")
	}
}

// emitXpu runs one chord of a character key under the legacy and a kitty encoding on the real code.
func (h *H) emitXpu(kind, class string, c, C rune, m int, form int) {
	h.emitXpg(kind, class, c, C, m, form, nil)
}

// emitXpg: as emitXpu, with further code points `rest` of a grapheme cluster typed on the key (legacy: the
// cluster's bytes; kitty: the cluster as associated text). rest == nil is the single-code-point xpu op.
func (h *H) emitXpg(kind, class string, c, C rune, m int, form int, rest []rune) {
	r := h.r
	ch := chord{mods: m}
	produced := c
	if m&1 != 0 {
		ch.shifted = int(C)
		produced = C
	}
	if form&16 != 0 {
		ch.text = []int{int(produced)}
		for _, x := range rest {
			ch.text = append(ch.text, int(x))
		}
	}
	kb := kittyBytes(int(c), 'u', ch, form)
	sk := parse(kb)
	var sl []ansi.Sequence
	if m&2 != 0 {
		// the real parser produces no sequence for ESC + a non-ASCII rune: decode the ESC value directly
		if produced < 0x80 {
			sl = parse("\x1b" + string(produced))
		} else {
			sl = []ansi.Sequence{ansi.ESC{Final: produced}}
			r.Count("xpu-legacy-alt-not-parseable(direct ESC value)")
		}
	} else {
		sl = parse(string(produced) + string(rest))
	}
	if len(sl) != 1 || len(sk) != 1 {
		r.Count("skipped:xpu:not-one-sequence")
		return
	}
	if p, ok := sl[0].(ansi.Print); ok && p.Grapheme != string(produced)+string(rest) {
		r.Count("skipped:xpu:parser-changed-the-grapheme")
		return
	}
	tl, ok1 := seqTok(sl[0])
	tk, ok2 := seqTok(sk[0])
	if !ok1 || !ok2 {
		r.Count("skipped:xpu:not-a-key-sequence")
		return
	}
	kl, _ := decode(sl[0])
	kk, _ := decode(sk[0])
	rs := map[rune]bool{c: true, unicode.ToUpper(c): true, unicode.ToLower(c): true}
	if C != 0 {
		rs[C] = true
	}
	for _, x := range lowerOf[c] {
		rs[x] = true
	}
	var rl []int
	for x := range rs {
		rl = append(rl, int(x))
	}
	sort.Ints(rl)
	var binds [][2]int
	var p []string
	for _, x := range rl {
		for mm := 0; mm < 8; mm++ {
			binds = append(binds, [2]int{x, mm})
			p = append(p, fmt.Sprintf("%d:%d", x, mm))
		}
	}
	bits := func(k vaxis.Key) string {
		var sb strings.Builder
		for _, b := range binds {
			if k.Matches(rune(b[0]), vaxis.ModifierMask(b[1])) {
				sb.WriteByte('1')
			} else {
				sb.WriteByte('0')
			}
		}
		return sb.String()
	}
	u := uniSet{}
	u.addSeq(sl[0])
	u.addSeq(sk[0])
	u.addKey(kl)
	u.addKey(kk)
	for _, b := range binds {
		u.add(rune(b[0]))
	}
	impl := fmt.Sprintf("%s|%s|%s|%s", runesTok(kl.String()), runesTok(kk.String()), bits(kl), bits(kk))
	sh := 0
	if m&1 != 0 {
		sh = int(C)
	}
	if len(rest) > 0 {
		var rt []string
		for _, x := range rest {
			rt = append(rt, strconv.Itoa(int(x)))
			u.add(x)
		}
		r.Emit(fmt.Sprintf("xpg %s %s %s F=- %d %d %d %d %d %d %s %s %s %s", kind, class, u.tok(), c, 'u', c, m, sh, form, strings.Join(rt, "."), strings.Join(p, ","), tl, tk), impl)
		r.Count("xpg:" + kind)
		return
	}
	r.Emit(fmt.Sprintf("xpu %s %s %s F=- %d %d %d %d %d %d %s %s %s", kind, class, u.tok(), c, 'u', c, m, sh, form, strings.Join(p, ","), tl, tk), impl)
	r.Count("xpu:" + kind + ":" + class)
}

// uniPoints: the code points of other scripts the dec / xp / self streams use, a fixed list of
// awkward ones, samples of the two classes violating `noLowerMapsTo`, and a random sample.
func (h *H) uniPoints() []rune {
	// gen.New(seed) and gen.New(seed+1) are the same splitmix64 sequence shifted by one draw: derive a
	// stream of our own that is far apart for neighbouring seeds
	rng := gen.New(h.r.Seed*0x1000003 + 0x5151)
	seen := map[rune]bool{}
	var out []rune
	add := func(rs ...rune) {
		for _, x := range rs {
			if !seen[x] && validRune(x) {
				seen[x] = true
				out = append(out, x)
			}
		}
	}
	add(0xDF, 0x1C5, 0x130, 0x131, 0x17F, 0x212A, 0x1E9E, 0xB5, 0x1C6, 0x1C4, 0x3C2, 0x3C3, 0x3A3, 0xE9, 0xC9, 0x416, 0x436, 0x444, 0x424,
		0x4E16, 0x1F525, 0x1F88, 0x1F80, 0x149, 0x138, 0xAA, 0xA0, 0xAD, 0x85, 0xFFFD, 0x10FFFF, 0x663, 0x2C65, 0x23A, 0x1E921, 0x1E943, 0x10428, 0x10400)
	for _, s := range otherScripts {
		for _, x := range s {
			add(x)
		}
	}
	add(160, 223, 233, 1092, 1060)
	for _, a := range []rune{'a', 'z', 'k', 's', 'i', '1', ';', '~', ' '} {
		add(a)
	}
	// the two classes violating noLowerMapsTo on Go's tables
	var noUpper, title []rune
	for c, ls := range lowerOf {
		if unicode.IsUpper(c) {
			continue
		}
		self := false
		for _, l := range ls {
			if l == c {
				self = true
			}
		}
		if self {
			noUpper = append(noUpper, c)
		} else {
			title = append(title, c)
		}
	}
	sort.Slice(noUpper, func(i, j int) bool { return noUpper[i] < noUpper[j] })
	sort.Slice(title, func(i, j int) bool { return title[i] < title[j] })
	h.r.Add("unicode:lower-case-runes-without-upper-case", len(noUpper))
	h.r.Add("unicode:non-upper-runes-that-are-ToUpper-of-a-lower-case-rune", len(title))
	add(title...)
	n := 25
	nr := 60
	if h.r.Thorough {
		n = len(noUpper)
		nr = 3000
	}
	for i := 0; i < n && len(noUpper) > 0; i++ {
		if h.r.Thorough {
			add(noUpper[i])
		} else {
			add(noUpper[rng.Intn(len(noUpper))])
		}
	}
	for i := 0; i < nr; i++ {
		var c rune
		switch rng.Intn(4) {
		case 0:
			c = rune(rng.Range(0xA0, 0x24FF))
		case 1:
			c = rune(rng.Range(0x2500, 0xFFFF))
		case 2:
			c = rune(rng.Range(0x10000, 0x10FFFF))
		default:
			c = rune(rng.Range(0x370, 0x58F)) // Greek, Cyrillic, Armenian: cased scripts
		}
		add(c)
	}
	return out
}

func classOf(res string) string {
	if res == "ok" {
		return "hyp-ok"
	}
	return res
}

// hypUpperHasLower: the law `UpperHasLower` (Spec/KeyEvent.lean) on Go's tables over ALL of Unicode: every lower-case
// rune with an upper case of its own, with that upper case's rows (uniSet.add closes under ToUpper / ToLower).
func (h *H) hypUpperHasLower() {
	u := uniSet{}
	res := "holds"
	n, title := 0, 0
	for r := rune(0); r <= unicode.MaxRune; r++ {
		if !unicode.IsLower(r) || unicode.ToUpper(r) == r {
			continue
		}
		u.add(r)
		n++
		U := unicode.ToUpper(r)
		if unicode.ToLower(U) == U {
			res = "fails"
			h.r.Count("hyp_violated:UpperHasLower")
		}
		if !unicode.IsUpper(U) {
			title++
		}
	}
	h.r.Emit("hypl "+u.tok(), res)
	h.r.Add("hypl:lower-case-runes-with-an-upper-case", n)
	h.r.Add("hypl:of-which-upper-case-is-not-IsUpper(title-case)", title)
	if res == "holds" {
		h.r.Count("hyp_ok:UpperHasLower")
	}
}

// hypAgreeOnKeys: the hypothesis AgreeOnKeys of cross_protocol_any_uni on Go's tables: the 128 ASCII runes, every key code
// from KeyUp to KeyKeyPadBegin (+40) and a few values far above the Unicode range. Go's own verdict: above MaxRune every
// predicate is false and the case maps are the identity; on ASCII the driver compares the rows with Spec.asciiUni.
func (h *H) hypAgreeOnKeys() {
	u := uniSet{}
	res := "agree"
	probe := func(r rune) {
		u[r] = true
		if r > unicode.MaxRune && (unicode.IsUpper(r) || unicode.IsLower(r) || unicode.IsLetter(r) || unicode.IsGraphic(r) ||
			unicode.IsPrint(r) || unicode.ToUpper(r) != r || unicode.ToLower(r) != r) {
			res = "differ"
		}
	}
	for r := rune(0); r < 128; r++ {
		probe(r)
	}
	for r := vaxis.KeyUp; r <= vaxis.KeyKeyPadBegin+40; r++ {
		probe(r)
	}
	for _, r := range []rune{unicode.MaxRune + 1, 0x200000, 0x7FFFFFFF} {
		probe(r)
	}
	h.r.Emit("hypk "+u.tok(), res)
	h.r.Count("hypk:AgreeOnKeys:" + res)
}

func (h *H) uniStreams() {
	h.hypAscii()
	h.hypUpperHasLower()
	h.hypAgreeOnKeys()
	for _, x := range h.uniPoints() {
		c, C := x, rune(0)
		if unicode.IsUpper(x) {
			C = x
			c = unicode.ToLower(x)
		} else if up := unicode.ToUpper(x); up != x {
			C = up
		}
		if c == C {
			C = 0 // an upper-case letter without a lower case is not Shift + anything
		}
		// a character key in both protocols: not an upper-case letter, not a functional-key number, and
		// not the upper-case (title-case) form of another rune — such a character is what Shift produces
		// on that rune's key; unicode.IsUpper is false for title-case letters, so the legacy decoder
		// cannot tell, and no keyboard has it as a base key (the hyp ops still count the violation)
		shiftedForm := false
		for _, l := range lowerOf[c] {
			if l != c {
				shiftedForm = true
			}
		}
		expressible := !unicode.IsUpper(c) && !functionalU(c) && c >= 0x20 && c != 0x7F && !shiftedForm
		// plain and Alt
		for _, wt := range []bool{false, true} {
			res := h.emitHyp("plain", c, 0, wt)
			if !expressible {
				h.r.Count("xpu-skipped:not-a-character-key-in-both-protocols")
				if shiftedForm && !unicode.IsUpper(c) && !functionalU(c) && c >= 0x20 && c != 0x7F {
					// the title-case letters: not kitty key codes (ToLower(c) != c). Run on the real code under both
					// "encodings" anyway (the driver checks the claim and compares with the model; not judged)
					forms := []int{0, 4}
					if wt {
						forms = []int{20}
					}
					for _, f := range forms {
						h.emitXpu("plain", "outside:not-a-kitty-key-code", c, 0, 0, f)
					}
				}
				continue
			}
			forms := []int{0, 4, 12}
			if wt {
				forms = []int{20, 28}
			}
			for _, f := range forms {
				h.emitXpu("plain", classOf(res), c, 0, 0, f)
			}
		}
		resA := h.emitHyp("alt", c, 0, false)
		if expressible {
			for _, f := range []int{4, 12} {
				h.emitXpu("alt", classOf(resA), c, 0, 2, f)
			}
		}
		if C == 0 {
			continue
		}
		// Shift and Alt+Shift: the legacy protocol expresses them when the produced character is an
		// upper-case letter whose lower case is the key
		shiftExpr := expressible && unicode.IsUpper(C) && unicode.ToLower(C) == c
		for _, wt := range []bool{false, true} {
			res := h.emitHyp("shift", c, C, wt)
			if !shiftExpr {
				h.r.Count("xpu-skipped:legacy-cannot-express-the-shifted-chord")
				continue
			}
			forms := []int{5, 13}
			if wt {
				forms = []int{21, 29}
			}
			for _, f := range forms {
				h.emitXpu("shift", classOf(res), c, C, 1, f)
			}
		}
		resAS := h.emitHyp("altshift", c, C, false)
		if shiftExpr {
			for _, f := range []int{5, 13} {
				h.emitXpu("altshift", classOf(resAS), c, C, 3, f)
			}
		}
	}
	h.graphemeStreams()
}

// graphemeStreams: multi-code-point grapheme clusters typed on a key (compose / dead keys / IME) under both
// encodings — legacy: the cluster's bytes (one ansi.Print), kitty: the cluster as associated text
// (Props/C09Uni cross_protocol_grapheme_plain / _shift: the two reports decode to the same event).
func (h *H) graphemeStreams() {
	rests := [][]rune{{0x301}, {0x308, 0x323}, {0x200d, 0x1f469}, {0xfe0f}, {0x94d, 0x937}, {0x1f3fd}}
	bases := []rune{'e', 'a', 'o', 'é', 'ф', 'ß', 'क', 0x1f468, 0x263a, 0x1f44d, 'i', 'k'}
	if h.r.Thorough {
		for _, x := range h.uniPoints() {
			if !unicode.IsUpper(x) && unicode.IsPrint(x) && x >= 0x80 {
				bases = append(bases, x)
			}
		}
	}
	for _, c := range bases {
		if unicode.IsUpper(c) || functionalU(c) || c < 0x20 || c == 0x7f {
			continue
		}
		for _, rest := range rests {
			for _, f := range []int{20, 28} {
				h.emitXpg("plain", "cluster", c, 0, 0, f, rest)
			}
			C := unicode.ToUpper(c)
			if C != c && unicode.IsUpper(C) && unicode.ToLower(C) == c {
				for _, f := range []int{21, 29} {
					h.emitXpg("shift", "cluster", c, C, 1, f, rest)
				}
			}
		}
	}
}
