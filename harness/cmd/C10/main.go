package main

// C10 harness: concurrent use is race-free and deadlock-free; shutdown completes.
//
// Every case is one seeded many-goroutine schedule on a real Vaxis over the fake console:
//
//	post      posters (PostEvent / PostEventBlocking / SyncFunc / Resize) + terminal input + a consumer;
//	          the trace (what each poster completed, what the consumer received, in order) is handed to the
//	          Lean driver, which checks that it is a run of the queue LTS (per-poster FIFO, no duplicate,
//	          blocking posts never dropped); then Close within a bound and the goroutine set is compared.
//	suspend   Suspend/Resume cycles under load (posters, input incl. lone ESC around the 10 ms timer).
//	fullclose Close while the queue is full and input is pending (F53, repaired in round 3).
//	sigclose  Close from the input goroutine's kill-signal arm with sequences pending (F13, repaired in round 3).
//	dblclose  two concurrent Close calls (F33).
//	race      the same schedules in a child process built with -race (supporting evidence only).
import (
	"bytes"
	"context"
	"fmt"
	"os"
	"os/exec"
	"path/filepath"
	"runtime"
	"sort"
	"strconv"
	"strings"
	"sync"
	"sync/atomic"
	"time"

	"git.sr.ht/~rockorager/vaxis"
	"git.sr.ht/~rockorager/vaxis/ansi"
	"verifharness/fakeconsole"
	"verifharness/gen"
	"verifharness/hx"
)

type tagged struct {
	g, i int
	kind byte // 'n' PostEvent, 'b' PostEventBlocking
}

// bound is a FAILURE time-out only: every wait below ends on a definite event (a call returned, a
// channel was closed, the goroutines are gone) and the bound is reached only when that event does
// not happen; it is generous so that a slow or loaded machine does not turn into a verdict.
const bound = 10 * time.Second

// hangBound was the short bound for the two schedules that used to hang (F53, F13: stuck states of
// the LTS).  Both are repaired (round 3): they are expected to complete, so they get the same
// generous failure time-out as everything else.
const hangBound = bound

// goneBound: how long to wait for the library's goroutines to be gone after a call has returned
// (the wait ends as soon as they are gone).
const goneBound = 5 * time.Second

func main() {
	if len(os.Args) > 1 && os.Args[1] == "-racechild" {
		raceChild()
		return
	}
	hx.Main("C10", run)
}

type H struct {
	r   *hx.Run
	rng *gen.Rng
}

func run(r *hx.Run) error {
	h := &H{r: r, rng: gen.New(r.Seed)}
	if r.Replay != "" {
		return hx.ReplayOps(r, func(op []string) (string, bool) { return h.replayOp(op) })
	}
	for _, ops := range hx.Corpus("C10") {
		for _, op := range ops {
			f := strings.Fields(op)
			if res, ok := h.replayOp(f); ok {
				r.Case("corpus")
				r.Emit(op, res)
			}
		}
	}
	// sessions of the sequential main goroutine (Suspend / Resume / Close), with the reply to the
	// shutdown DA1 query arriving at every point relative to the close signal (gate 0: at once,
	// 1: consumed before the write returns — slow tty, 2: late)
	for _, ops := range []string{"C", "SC", "SRC", "SRS", "SRSRC", "SRSRSRC"} {
		for gate := 0; gate < 3; gate++ {
			op := fmt.Sprintf("cycles seed=%d ops=%s gate=%d keys=%d q=0", h.rng.Intn(1<<30), ops, gate, (gate+len(ops))%4)
			r.Case("cyc-" + ops + fmt.Sprint(gate))
			res, _ := h.replayOp(strings.Fields(op))
			r.Emit(op, res)
		}
	}
	// the same without a consumer and with a queue that is full from the start: the input goroutine
	// blocks in its first post; Suspend/Close must return all the same, a Resume finds the previous
	// input goroutine alive, Close ends all of them (F13/F53 repaired)
	for i, ops := range []string{"C", "SC", "SRC", "SRSC", "SRSRC"} {
		for gate := 0; gate < 3; gate++ {
			op := fmt.Sprintf("cycles seed=%d ops=%s gate=%d keys=%d q=1 nocons=1", h.rng.Intn(1<<30), ops, gate, 3+(gate+i)%3)
			r.Case("cycn-" + ops + fmt.Sprint(gate))
			res, _ := h.replayOp(strings.Fields(op))
			r.Emit(op, res)
		}
	}
	// schedules forced through the yield points (verifC10) and compared label by label with the LTS
	for i, op := range []string{"forced kind=dbl q=0 keys=0", "forced kind=mid q=0 keys=2", "forced kind=sig q=0 keys=3", "forced kind=sig q=0 keys=5",
		"forced kind=full q=2 keys=6", "forced kind=full q=1 keys=4", "forced kind=dbl q=0 keys=3", "forced kind=mid q=4 keys=1"} {
		r.Case(fmt.Sprintf("forced%d", i))
		res, _ := h.replayOp(strings.Fields(op))
		r.Emit(op, res)
	}
	n := 60
	if r.Thorough {
		n = 400
	}
	for i := 0; i < n; i++ {
		rng := h.rng.Fork(uint64(i))
		r.Case(fmt.Sprintf("c%d", i))
		switch {
		case i%10 == 7:
			op := fmt.Sprintf("fullclose seed=%d q=%d keys=%d", rng.Intn(1<<30), rng.Range(1, 8), rng.Range(6, 40))
			res, _ := h.replayOp(strings.Fields(op))
			r.Emit(op, res)
		case i%10 == 8:
			op := fmt.Sprintf("sigclose seed=%d keys=%d", rng.Intn(1<<30), rng.Range(4, 30))
			res, _ := h.replayOp(strings.Fields(op))
			r.Emit(op, res)
		case i%10 == 9 && i%20 == 19:
			op := fmt.Sprintf("sigsuspend seed=%d delay=%d", rng.Intn(1<<30), rng.Range(0, 200))
			res, _ := h.replayOp(strings.Fields(op))
			r.Emit(op, res)
		case i%10 == 9:
			op := fmt.Sprintf("dblclose seed=%d n=%d", rng.Intn(1<<30), rng.Range(2, 3))
			res, _ := h.replayOp(strings.Fields(op))
			r.Emit(op, res)
		case i%10 == 6:
			k := rng.Range(0, 4)
			ops := strings.Repeat("SR", k) + gen.Pick(rng, []string{"C", "S", "SC", "SRC"})
			op := fmt.Sprintf("cycles seed=%d ops=%s gate=%d keys=%d q=%d", rng.Intn(1<<30), ops, rng.Intn(3), rng.Range(0, 6), gen.Pick(rng, []int{0, 0, 16}))
			res, _ := h.replayOp(strings.Fields(op))
			r.Emit(op, res)
		case i%10 >= 4:
			op := fmt.Sprintf("suspend seed=%d posters=%d m=%d cycles=%d q=%d", rng.Intn(1<<30), rng.Range(1, 5), rng.Range(5, 60), rng.Range(1, 4), gen.Pick(rng, []int{0, 0, 2, 16}))
			res, _ := h.replayOp(strings.Fields(op))
			r.Emit(op, res)
		default:
			op := fmt.Sprintf("post seed=%d posters=%d m=%d q=%d keys=%d", rng.Intn(1<<30), rng.Range(1, 8), rng.Range(1, 200), gen.Pick(rng, []int{0, 1, 2, 3, 8, 64}), rng.Range(0, 60))
			res, _ := h.replayOp(strings.Fields(op))
			r.Emit(op, res)
		}
	}
	// "queries with replies arriving early, late or never" x "no lost events": a cursor-position query that is
	// given up (the terminal never answers), answered in time, or not issued at all, followed by keys
	// whose legacy encoding has the shape of the report (F3 = CSI R, Ctrl+F3 = CSI 1;5R, ...): every
	// key the terminal sent must be delivered exactly as it is without any query
	nl := 6
	if r.Thorough {
		nl = 24
	}
	for i := 0; i < nl; i++ {
		rng := h.rng.Fork(uint64(9000 + i))
		op := fmt.Sprintf("lostkey seed=%d variant=%d", rng.Intn(1<<30), []int{1, 3, 2, 1, 0, 3}[i%6])
		r.Case(fmt.Sprintf("lostkey%d", i))
		res, _ := h.replayOp(strings.Fields(op))
		r.Emit(op, res)
	}
	// a kill signal that arrives while the input goroutine is blocked posting to a full queue nobody
	// receives from: it is served when the application receives again (decision: see notes/C10.md)
	for i := 0; i < 2; i++ {
		op := fmt.Sprintf("sigblocked seed=%d keys=%d", h.rng.Fork(uint64(9100+i)).Intn(1<<30), 1+2*i)
		r.Case(fmt.Sprintf("sigblocked%d", i))
		res, _ := h.replayOp(strings.Fields(op))
		r.Emit(op, res)
	}
	// the API contract of Resume violated (witness, not judged): Resume after Close leaves a parser and an
	// input goroutine that no Close will ever stop; a second Resume without a Suspend in between starts a
	// second parser on the same console
	contracts := []string{"CRC"}
	if r.Thorough {
		contracts = []string{"CRC", "RC", "SRRC"} // a double Resume may make the next Suspend/Close wait for the failure time-out
	}
	for i, ops := range contracts {
		op := fmt.Sprintf("contract seed=%d ops=%s gate=0 keys=%d q=0", h.rng.Fork(uint64(9200+i)).Intn(1<<30), ops, i)
		r.Case("contract-" + ops)
		res, _ := h.replayOp(strings.Fields(op))
		r.Emit(op, res)
	}
	// race-detector run of the same schedule kinds in a child process
	for _, grp := range []string{"use", "dblclose", "sigsuspend", "sizes", "sigrender"} {
		r.Case("race-" + grp)
		r.Emit("race "+grp, h.raceRun(grp))
	}
	return nil
}

func kvs(f []string) map[string]int {
	m := map[string]int{}
	for _, x := range f {
		if i := strings.IndexByte(x, '='); i > 0 {
			n, _ := strconv.Atoi(x[i+1:])
			m[x[:i]] = n
		}
	}
	return m
}

func (h *H) replayOp(f []string) (string, bool) {
	if len(f) == 0 {
		return "", false
	}
	m := kvs(f[1:])
	count := func(s string) {
		if h != nil && h.r != nil {
			h.r.Count(s)
		}
	}
	switch f[0] {
	case "post":
		res := postCase(uint64(m["seed"]), m["posters"], m["m"], m["q"], m["keys"])
		count("post")
		return res, true
	case "suspend":
		res := suspendCase(uint64(m["seed"]), m["posters"], m["m"], m["cycles"], m["q"])
		count("suspend")
		return res, true
	case "fullclose":
		res := fullCloseCase(uint64(m["seed"]), m["q"], m["keys"])
		count("fullclose:" + strings.Fields(res)[0])
		return res, true
	case "sigclose":
		res := sigCloseCase(uint64(m["seed"]), m["keys"])
		count("sigclose:" + strings.Fields(res)[0])
		return res, true
	case "cycles":
		ops := ""
		for _, x := range f[1:] {
			if strings.HasPrefix(x, "ops=") {
				ops = x[4:]
			}
		}
		res := cyclesCase(uint64(m["seed"]), ops, m["gate"], m["keys"], m["q"], m["nocons"] == 1)
		if m["nocons"] == 1 {
			count(fmt.Sprintf("cycles:nocons:gate%d:%s", m["gate"], ops))
		} else {
			count(fmt.Sprintf("cycles:gate%d:%s", m["gate"], ops))
		}
		return res, true
	case "forced":
		kind := ""
		for _, x := range f[1:] {
			if strings.HasPrefix(x, "kind=") {
				kind = x[5:]
			}
		}
		res := forcedCase(kind, m["q"], m["keys"])
		count("forced:" + kind + ":" + strings.Fields(res)[0])
		return res, true
	case "sigblocked":
		res := sigBlockedCase(uint64(m["seed"]), m["keys"])
		count("sigblocked:" + strings.Fields(res)[0])
		return res, true
	case "contract":
		ops := ""
		for _, x := range f[1:] {
			if strings.HasPrefix(x, "ops=") {
				ops = x[4:]
			}
		}
		res := cyclesCase(uint64(m["seed"]), ops, m["gate"], m["keys"], m["q"], false)
		count("contract:" + ops)
		return res, true
	case "lostkey":
		res := lostKeyCase(uint64(m["seed"]), m["variant"])
		count(fmt.Sprintf("lostkey:variant%d", m["variant"]))
		return res, true
	case "sigsuspend":
		res := sigSuspendCase(uint64(m["seed"]), m["delay"])
		count("sigsuspend:" + strings.Fields(res)[0])
		return res, true
	case "dblclose":
		res := dblCloseCase(uint64(m["seed"]), m["n"])
		count("dblclose:" + strings.Fields(res)[0])
		return res, true
	case "race":
		grp := "use"
		if len(f) > 1 {
			grp = f[1]
		}
		return h.raceRun(grp), true
	}
	return "", false
}

// ---------- goroutine accounting ----------

// goroutines counts the goroutines started by the library (vaxis, ansi): stacks with library
// frames and no harness frame (posters blocked inside a library call are harness goroutines and are
// reported separately). Before New and after a completed Close this must be 0.
func goroutines() int {
	n := 0
	for _, g := range strings.Split(stackDump(), "\n\n") {
		if strings.Contains(g, "rockorager/vaxis") && !strings.Contains(g, "harness/cmd/C10") {
			n++
		}
	}
	return n
}

// waitGoroutines waits until the library goroutine count is back to `want`; returns the excess.
func waitGoroutines(want int, d time.Duration) int {
	deadline := time.Now().Add(d)
	for {
		n := goroutines()
		if n <= want {
			return 0
		}
		if time.Now().After(deadline) {
			return n - want
		}
		time.Sleep(2 * time.Millisecond)
	}
}

func stackDump() string {
	buf := make([]byte, 1<<20)
	n := runtime.Stack(buf, true)
	return string(buf[:n])
}

// leakedFuncs lists the top functions of goroutines that belong to vaxis, for the stats.
func leakedFuncs() string {
	var fs []string
	for _, g := range strings.Split(stackDump(), "\n\n") {
		if strings.Contains(g, "rockorager/vaxis") && !strings.Contains(g, "harness/cmd/C10") {
			lines := strings.Split(g, "\n")
			if len(lines) > 1 {
				fs = append(fs, strings.TrimSpace(lines[1]))
			}
		}
	}
	sort.Strings(fs)
	return strings.Join(fs, ";")
}

func withBound(f func()) (ok bool, panicMsg string) { return within(bound, f) }

func within(d time.Duration, f func()) (ok bool, panicMsg string) {
	done := make(chan string, 1)
	go func() {
		defer func() {
			if e := recover(); e != nil {
				done <- fmt.Sprint(e)
			}
		}()
		f()
		done <- ""
	}()
	select {
	case m := <-done:
		return true, m
	case <-time.After(d):
		return false, ""
	}
}

func newVx(q int, mask uint32) (*vaxis.Vaxis, *fakeconsole.Console, error) {
	fc := fakeconsole.New(80, 24, fakeconsole.FromMask(mask))
	vx, err := vaxis.New(vaxis.Options{WithConsole: fc, NoSignals: true, EventQueueSize: q})
	return vx, fc, err
}

// ---------- post: FIFO per poster, blocking never dropped ----------

func postCase(seed uint64, posters, m, q, keys int) string {
	rng := gen.New(seed)
	base := goroutines()
	vx, fc, err := newVx(q, uint32(rng.U64())&(1<<19-1)&^(1<<14))
	if err != nil {
		return "error new"
	}
	// consumer
	var recv []string
	var keysSeen int64
	stop := make(chan struct{})
	cdone := make(chan struct{})
	slow := rng.Chance(1, 3)
	nEv := 0
	var mainMu sync.Mutex
	drawing := int32(1)
	go func() {
		defer close(cdone)
		for {
			select {
			case ev := <-vx.Events():
				switch e := ev.(type) {
				case tagged:
					recv = append(recv, fmt.Sprintf("%d.%d", e.g, e.i))
				case vaxis.Key:
					atomic.AddInt64(&keysSeen, 1)
				case vaxis.SyncFunc:
					e()
				}
				// the main goroutine also draws and renders
				if nEv++; nEv%16 == 0 && atomic.LoadInt32(&drawing) == 1 {
					// (drawing and Close belong to the same application goroutine: serialised by mainMu)
					mainMu.Lock()
					if atomic.LoadInt32(&drawing) == 1 {
						w := vx.Window()
						w.Print(vaxis.Segment{Text: fmt.Sprint(nEv)})
						vx.Render()
					}
					mainMu.Unlock()
				}
				if slow {
					runtime.Gosched()
				}
			case <-stop:
				return
			}
		}
	}()
	// posters
	var wg sync.WaitGroup
	plans := make([]string, posters)
	completed := make([][]string, posters)
	var syncCalls int64
	for g := 0; g < posters; g++ {
		prng := rng.Fork(uint64(g))
		kinds := make([]byte, m)
		for i := range kinds {
			kinds[i] = "nnbbbsr"[prng.Intn(7)]
		}
		plans[g] = string(kinds)
		wg.Add(1)
		go func(g int, kinds []byte) {
			defer wg.Done()
			for i, k := range kinds {
				switch k {
				case 'n':
					vx.PostEvent(tagged{g, i, 'n'})
				case 'b':
					vx.PostEventBlocking(tagged{g, i, 'b'})
				case 's':
					vx.SyncFunc(func() { atomic.AddInt64(&syncCalls, 1) })
				case 'r':
					vx.Resize()
				}
				completed[g] = append(completed[g], fmt.Sprintf("%d%c", i, k))
				if i%7 == 3 {
					runtime.Gosched()
				}
			}
		}(g, kinds)
	}
	// terminal queries issued concurrently (replies solicited, unsolicited and repeated): the
	// requesters and the input goroutine meet on the hand-off channels
	qdone := make(chan struct{})
	nq := rng.Fork(777).Intn(4)
	go func() {
		defer close(qdone)
		for i := 0; i < nq; i++ {
			vx.CursorPosition()
			ctx, cancel := context.WithTimeout(context.Background(), 2*time.Millisecond)
			vx.ClipboardPop(ctx)
			cancel()
			fc.InjectString("\x1b[8;24;80t\x1b[8;24;80t\x1b]10;rgb:0000/0000/0000\x07\x1b]10;rgb:0000/0000/0000\x07\x1b]4;1;rgb:0000/0000/0000\x07\x1b[7;7R")
		}
	}()
	// terminal input concurrently
	wg.Add(1)
	go func() {
		defer wg.Done()
		for i := 0; i < keys; i++ {
			fc.InjectString("x")
			if i%5 == 0 {
				runtime.Gosched()
			}
		}
	}()
	postersDone, _ := withBound(wg.Wait)
	queriesDone, _ := withBound(func() { <-qdone })
	// let the consumer drain: wait until the queue is empty and input consumed
	deadline := time.Now().Add(bound)
	for time.Now().Before(deadline) {
		// len(Events()) does not take vx.mu (a stuck Render may hold it for ever)
		if len(vx.Events()) == 0 && fc.Pending() == 0 && (atomic.LoadInt64(&keysSeen) >= int64(keys) || q != 0) {
			time.Sleep(2 * time.Millisecond)
			if len(vx.Events()) == 0 {
				break
			}
		}
		time.Sleep(200 * time.Microsecond)
	}
	atomic.StoreInt32(&drawing, 0)
	renderOK := false
	for dl := time.Now().Add(bound); time.Now().Before(dl); time.Sleep(time.Millisecond) {
		if mainMu.TryLock() {
			renderOK = true
			break
		}
	}
	closeOK, pmsg := withBound(vx.Close)
	if renderOK {
		mainMu.Unlock()
	} else {
		pmsg = "Render did not return"
	}
	if closeOK && pmsg == "" {
		// Close is idempotent: a second (sequential) call returns at once
		closeOK, pmsg = withBound(vx.Close)
	}
	close(stop)
	select {
	case <-cdone:
	case <-time.After(bound):
	}
	leak := waitGoroutines(base, goneBound)
	var sb strings.Builder
	fmt.Fprintf(&sb, "posters=%v queries=%v close=%v panic=%q leak=%d plans=%s recv=%s", postersDone, queriesDone, closeOK, pmsg, leak, strings.Join(plans, ","), joinOr(recv))
	if leak > 0 {
		fmt.Fprintf(&sb, " leaked=%s", strings.ReplaceAll(leakedFuncs(), " ", "_"))
	}
	return sb.String()
}

// ---------- lostkey: keys shaped like a cursor-position report around a query that is given up ----------

// lostKeyCase runs the same terminal input twice: on a Vaxis that never issued a cursor-position
// query (the control), and on one whose query was given up `variant` = 1: once, 3: twice (the
// terminal does not answer DSR; CursorPosition returns -1,-1 after its own deadline), 2: answered in
// time, 0: no query.  The input is `a`, a key whose legacy encoding is `CSI [1;m] R` (F3 with
// modifiers — the shape of the report), `b`.  Result: the key events delivered in both runs.  No
// elapsed time decides anything: both runs wait for the event of `b` (failure time-out only).
func lostKeyCase(seed uint64, variant int) string {
	rng := gen.New(seed)
	ks := gen.Pick(rng, []string{"\x1b[R", "\x1b[1;5R", "\x1b[1;2R", "\x1b[1;3R", "\x1b[1;6R"})
	mask := uint32(rng.U64()) & (1<<19 - 1) &^ (1 << 14) &^ 1 // no kitty keyboard: legacy key encodings
	one := func(variant int) (string, string) {
		vx, fc, err := newVx(0, mask)
		if err != nil {
			return "error-new", "-"
		}
		var mu sync.Mutex
		var names []string
		sawB := make(chan struct{})
		stop := make(chan struct{})
		cdone := make(chan struct{})
		go func() {
			defer close(cdone)
			for {
				select {
				case ev := <-vx.Events():
					if k, ok := ev.(vaxis.Key); ok {
						mu.Lock()
						names = append(names, k.String())
						mu.Unlock()
						if k.Text == "b" || k.Keycode == 'b' {
							select {
							case <-sawB:
							default:
								close(sawB)
							}
						}
					}
				case <-stop:
					return
				}
			}
		}()
		pos := "-"
		query := func() {
			r, c := vx.CursorPosition()
			pos = fmt.Sprintf("%d,%d", r, c)
		}
		switch variant {
		case 1, 3:
			fc.Silent = true
			query()
			if variant == 3 {
				query()
			}
			fc.Silent = false
		case 2:
			query()
		}
		fc.InjectString("a" + ks + "b")
		select {
		case <-sawB:
		case <-time.After(bound):
		}
		withBound(vx.Close)
		close(stop)
		<-cdone
		mu.Lock()
		defer mu.Unlock()
		return joinOr(names), pos
	}
	ctl, _ := one(0)
	got, pos := one(variant)
	if variant == 2 && pos == "-1,-1" {
		// the reply did not make it within CursorPosition's own 50 ms deadline (loaded machine): the late reply is
		// then indistinguishable from a key — not the schedule this variant is about, not judged
		return "incomplete"
	}
	return fmt.Sprintf("ctl=%s got=%s pos=%s seq=%s", ctl, got, pos, hx.Hex(ks))
}

func joinOr(xs []string) string {
	if len(xs) == 0 {
		return "-"
	}
	return strings.Join(xs, ",")
}

// ---------- suspend/resume cycles under load ----------

func suspendCase(seed uint64, posters, m, cycles, q int) string {
	rng := gen.New(seed)
	base := goroutines()
	vx, fc, err := newVx(q, 0)
	if err != nil {
		return "error new"
	}
	stop := make(chan struct{})
	cdone := make(chan struct{})
	var recvN int64
	go func() {
		defer close(cdone)
		for {
			select {
			case <-vx.Events():
				atomic.AddInt64(&recvN, 1)
			case <-stop:
				return
			}
		}
	}()
	var wg sync.WaitGroup
	for g := 0; g < posters; g++ {
		wg.Add(1)
		go func(g int) {
			defer wg.Done()
			for i := 0; i < m; i++ {
				if i%2 == 0 {
					vx.PostEvent(tagged{g, i, 'n'})
				} else {
					vx.PostEventBlocking(tagged{g, i, 'b'})
				}
				if i%5 == 0 {
					time.Sleep(50 * time.Microsecond)
				}
			}
		}(g)
	}
	// input, including lone ESC around the 10 ms timer
	idone := make(chan struct{})
	istop := make(chan struct{})
	irng := rng.Fork(99)
	go func() {
		defer close(idone)
		for {
			select {
			case <-istop:
				return
			default:
			}
			switch irng.Intn(4) {
			case 0:
				fc.InjectString("\x1b")
				time.Sleep(time.Duration(irng.Range(5, 15)) * time.Millisecond)
			case 1:
				fc.InjectString("\x1b[A")
			default:
				fc.InjectString("k")
			}
			time.Sleep(time.Duration(irng.Range(0, 300)) * time.Microsecond)
		}
	}()
	res := "ok"
	for c := 0; c < cycles && res == "ok"; c++ {
		time.Sleep(time.Duration(rng.Range(0, 3000)) * time.Microsecond)
		ok, pm := withBound(func() { vx.Suspend() })
		if !ok {
			res = "suspend-hang"
			break
		}
		if pm != "" {
			res = "suspend-panic"
			break
		}
		time.Sleep(time.Duration(rng.Range(0, 1000)) * time.Microsecond)
		ok, pm = withBound(func() { vx.Resume() })
		if !ok {
			res = "resume-hang"
		} else if pm != "" {
			res = "resume-panic"
		}
	}
	close(istop)
	<-idone
	pd, _ := withBound(wg.Wait)
	closeOK, pmsg := withBound(vx.Close)
	close(stop)
	select {
	case <-cdone:
	case <-time.After(bound):
	}
	leak := waitGoroutines(base, goneBound)
	out := fmt.Sprintf("%s posters=%v close=%v panic=%q leak=%d", res, pd, closeOK, pmsg, leak)
	if leak > 0 {
		out += " leaked=" + strings.ReplaceAll(leakedFuncs(), " ", "_")
	}
	return out
}

// ---------- sessions: Suspend / Resume / Close by a sequential main goroutine ----------

// tty wraps the fake console so that it behaves like a terminal device where it matters for
// shutdown: Close does not wake a reader blocked in Read (that is why Suspend has its DA1 dance),
// and the reply to the shutdown DA1 query can be made to arrive early (consumed before the write
// returns), at once, or late.
type tty struct {
	*fakeconsole.Console
	gate   int32 // 0 at once, 1 consumed before Write returns, 2 late
	armed  int32 // gates apply to DA1 queries written after start-up
	closes int32
}

func (t *tty) Close() error { atomic.AddInt32(&t.closes, 1); return nil }

func (t *tty) Write(p []byte) (int, error) {
	if !bytes.Contains(p, []byte("\x1b[c")) {
		return t.Console.Write(p)
	}
	if c, _ := curCtl.Load().(*ctl); c != nil {
		defer c.at("suspend.da1", true) // the DA1 query of Suspend has been written
	}
	if atomic.LoadInt32(&t.armed) == 0 {
		return t.Console.Write(p)
	}
	switch atomic.LoadInt32(&t.gate) {
	case 1:
		n, err := t.Console.Write(p) // the reply is queued and the reader woken
		deadline := time.Now().Add(300 * time.Millisecond)
		for time.Now().Before(deadline) {
			d := stackDump()
			if countIn(d, "ansi.(*Parser).run", "") == 0 {
				break // the parser has exited
			}
			if t.Console.Pending() == 0 && countIn(d, "ansi.(*Parser).run", "sync.(*Cond).Wait") > 0 {
				break // the reply has been consumed and the reader blocks again
			}
			time.Sleep(200 * time.Microsecond)
		}
		return n, err
	case 2:
		t.Console.Silent = true
		n, err := t.Console.Write(p)
		t.Console.Silent = false
		go func() {
			time.Sleep(2 * time.Millisecond)
			t.Console.InjectString("\x1b[?62;22c")
		}()
		return n, err
	}
	return t.Console.Write(p)
}

// countIn counts the goroutines of a stack dump whose stack mentions a (and b, if not empty).
func countIn(dump, a, b string) int {
	n := 0
	for _, g := range strings.Split(dump, "\n\n") {
		if strings.Contains(g, a) && (b == "" || strings.Contains(g, b)) {
			n++
		}
	}
	return n
}

// libAlive waits (up to d) for the parser goroutine and the input goroutine to be gone.
func libAlive(baseP, baseI int, d time.Duration) bool {
	deadline := time.Now().Add(d)
	for {
		dump := stackDump()
		if countIn(dump, "ansi.(*Parser).run", "") <= baseP && countIn(dump, "(*Vaxis).openTty.func1", "") <= baseI {
			return false
		}
		if time.Now().After(deadline) {
			return true
		}
		time.Sleep(time.Millisecond)
	}
}

// With nocons the application never receives: with a small queue the input goroutine blocks in its
// first post, the parser's channel fills up, and a Resume finds the previous input goroutine still
// alive (round 3: F13/F53 repaired — Suspend and Close return all the same, Close ends everything).
// waitBlockedPosting waits until some input goroutine (openTty.func1) is inside PostEventBlocking.
func waitBlockedPosting(d time.Duration) bool {
	deadline := time.Now().Add(d)
	for {
		if countIn(stackDump(), "(*Vaxis).openTty.func1", "(*Vaxis).PostEventBlocking") > 0 {
			return true
		}
		if time.Now().After(deadline) {
			return false
		}
		time.Sleep(500 * time.Microsecond)
	}
}

func cyclesCase(seed uint64, ops string, gate, keys, q int, nocons bool) string {
	dump := stackDump()
	baseP, baseI := countIn(dump, "ansi.(*Parser).run", ""), countIn(dump, "(*Vaxis).openTty.func1", "")
	t := &tty{Console: fakeconsole.New(80, 24, fakeconsole.FromMask(0)), gate: int32(gate)}
	vx, err := vaxis.New(vaxis.Options{WithConsole: t, NoSignals: true, EventQueueSize: q})
	if err != nil {
		return "error-new"
	}
	atomic.StoreInt32(&t.armed, 1)
	stop := make(chan struct{})
	cdone := make(chan struct{})
	if nocons {
		close(cdone)
	} else {
		go func() {
			defer close(cdone)
			for {
				select {
				case <-vx.Events():
				case <-stop:
					return
				}
			}
		}()
	}
	t.InjectString(strings.Repeat("k", keys))
	if nocons {
		// definite event, not elapsed time: the input goroutine is inside PostEventBlocking (the queue
		// is full and nobody receives, so it stays there); the bound is a failure time-out only
		if !waitBlockedPosting(bound) {
			t.Console.Close()
			libAlive(baseP, baseI, goneBound)
			return "incomplete"
		}
	}
	var obs []string
	for _, op := range ops {
		var ok bool
		var pm string
		switch op {
		case 'S':
			ok, pm = withBound(func() { vx.Suspend() })
		case 'R':
			ok, pm = withBound(func() { vx.Resume() })
		case 'C':
			ok, pm = withBound(vx.Close)
		}
		if op == 'R' {
			if !ok || pm != "" {
				obs = append(obs, "R:fail")
				break
			}
			obs = append(obs, "R")
			continue
		}
		o := string(op) + ":"
		switch {
		case pm != "":
			o += "panic"
		case ok:
			o += "ret"
		default:
			o += "hang"
		}
		if ok && pm == "" {
			// (without a consumer the input goroutine is blocked in a post by construction when Suspend
			// returns: "alive" is the expected answer there and cannot become "done" by waiting)
			d := goneBound
			if nocons && op == 'S' {
				d = 300 * time.Millisecond
			}
			if libAlive(baseP, baseI, d) {
				o += ",alive"
			} else {
				o += ",done"
			}
		} else {
			o += ",alive"
		}
		obs = append(obs, o)
		if !ok || pm != "" {
			break
		}
	}
	// release whatever is left (a real Close on the fake console wakes its readers)
	t.Console.Close()
	close(stop)
	select {
	case <-cdone:
	case <-time.After(bound):
	}
	libAlive(baseP, baseI, 500*time.Millisecond)
	return strings.Join(obs, " ")
}

// ---------- forced schedules through the yield points ----------

// ctl records the order in which goroutines pass the yield points of one Vaxis and can hold a
// goroutine at a point.
type ctl struct {
	mu      sync.Mutex
	trace   []string
	hold    map[string]chan struct{} // "role:point" -> released by closing
	reached map[string]chan struct{}
	roles   map[string]string // goroutine id -> role
}

var ctls sync.Map // *vaxis.Vaxis -> *ctl

// curCtl is the controller of the forced case that is running (cases run one after the other);
// yield points that do not know their Vaxis (the parser's, the console's) go to it, and only for
// goroutines it already knows.
var curCtl atomic.Value // *ctl (nil pointer when none)

func init() {
	vaxis.VerifC10Yield = func(vx *vaxis.Vaxis, point string) {
		if c, ok := ctls.Load(vx); ok {
			c.(*ctl).at(point, false)
		}
	}
	ansi.VerifC10Yield = func(p *ansi.Parser, point string) {
		if c, _ := curCtl.Load().(*ctl); c != nil {
			c.at(point, true)
		}
	}
	// round 4: the parser's own steps in the tail of run (C08's statement yield points 20: the loop has been
	// left, 25: EOF has been emitted, 29: the channel is closed and the closed token sent) are recorded as
	// items of the forced traces, so that they are labels of the replay and not hidden steps.  A panic of the
	// parser goroutine or of the timer callback (reported to an installed hook at points 19 / 39) is passed on.
	ansi.VerifSchedHook = func(p *ansi.Parser, point int, panicked any) {
		if panicked != nil {
			panic(panicked)
		}
		var item string
		switch point {
		case 20:
			item = "P:parser.tail"
		case 25:
			item = "P:parser.eof"
		case 29:
			item = "P:parser.closed"
		default:
			return
		}
		if c, _ := curCtl.Load().(*ctl); c != nil {
			c.mu.Lock()
			c.trace = append(c.trace, item)
			c.mu.Unlock()
		}
	}
}

func goid() (string, string) {
	buf := make([]byte, 4096)
	n := runtime.Stack(buf, false)
	st := string(buf[:n])
	f := strings.Fields(st)
	if len(f) > 1 {
		return f[1], st
	}
	return "?", st
}

func newCtl() *ctl {
	return &ctl{hold: map[string]chan struct{}{}, reached: map[string]chan struct{}{}, roles: map[string]string{}}
}

// as registers the calling goroutine under a role name.
func (c *ctl) as(role string) {
	id, _ := goid()
	c.mu.Lock()
	c.roles[id] = role
	c.mu.Unlock()
}

func (c *ctl) env(what string) {
	c.mu.Lock()
	c.trace = append(c.trace, "E:"+what)
	c.mu.Unlock()
}

// holdAt arranges for the goroutine of that role to stop at the point; returns (reached, release).
func (c *ctl) holdAt(key string) (chan struct{}, func()) {
	c.mu.Lock()
	h, r := make(chan struct{}), make(chan struct{})
	c.hold[key], c.reached[key] = h, r
	c.mu.Unlock()
	return r, func() { close(h) }
}

func (c *ctl) at(point string, knownOnly bool) {
	id, st := goid()
	c.mu.Lock()
	role, ok := c.roles[id]
	if !ok && knownOnly {
		c.mu.Unlock()
		return
	}
	if !ok {
		role = "X"
		if strings.Contains(st, "openTty.func1") {
			role = "I"
		}
		c.roles[id] = role
	}
	key := role + ":" + point
	c.trace = append(c.trace, key)
	h := c.hold[key]
	var r chan struct{}
	if h != nil {
		delete(c.hold, key)
		r = c.reached[key]
	}
	c.mu.Unlock()
	if h != nil {
		close(r)
		<-h
	}
}

func (c *ctl) snapshot() string {
	c.mu.Lock()
	defer c.mu.Unlock()
	var out []string
	for _, t := range c.trace {
		if !strings.HasPrefix(t, "X:") { // the application's own posts are not part of the shutdown LTS
			out = append(out, t)
		}
	}
	return joinOr(out)
}

// quitAsStruct adapts chQuit (chan bool, closed by Close) to a chan struct{}.
func quitAsStruct(vx *vaxis.Vaxis) chan struct{} {
	out := make(chan struct{})
	go func() {
		select {
		case <-vx.VerifC03QuitChan():
			close(out)
		case <-time.After(2 * bound):
		}
	}()
	return out
}

func waitCh(ch chan struct{}, d time.Duration) bool {
	select {
	case <-ch:
		return true
	case <-time.After(d):
		return false
	}
}

// forcedCase drives one schedule of the shutdown LTS on the real code through the yield points:
//
//	dbl   a second Close arrives while the first is between its test-and-set and its quit event (F33's window)
//	mid   Close arrives while the input goroutine has taken a sequence and not yet posted its event
//	sig   the kill signal arrives while the input goroutine is busy and two or more sequences are pending (F13's window)
//	full  Close with a full queue, nobody receiving, and input pending (F53)
//
// Result: out=<ok|hang> and the trace of yield points in the order they were passed.
func forcedCase(kind string, q, keys int) string {
	dump := stackDump()
	baseP, baseI := countIn(dump, "ansi.(*Parser).run", ""), countIn(dump, "(*Vaxis).openTty.func1", "")
	t := &tty{Console: fakeconsole.New(80, 24, fakeconsole.FromMask(0))}
	vx, err := vaxis.New(vaxis.Options{WithConsole: t, NoSignals: true, EventQueueSize: q})
	if err != nil {
		return "error-new"
	}
	stop := make(chan struct{})
	cdone := make(chan struct{})
	consume := func() {
		go func() {
			defer close(cdone)
			for {
				select {
				case <-vx.Events():
				case <-stop:
					return
				}
			}
		}()
	}
	if kind != "full" {
		consume()
	}
	// let start-up traffic settle before the yield points are recorded
	for i := 0; i < 50 && (t.Pending() > 0 || (kind != "full" && len(vx.Events()) > 0)); i++ {
		time.Sleep(200 * time.Microsecond)
	}
	time.Sleep(2 * time.Millisecond)
	if kind == "full" {
		for len(vx.Events()) < cap(vx.Events()) {
			vx.PostEvent(tagged{0, 0, 'n'})
		}
	}
	c := newCtl()
	ctls.Store(vx, c)
	curCtl.Store(c)
	defer ctls.Delete(vx)
	defer curCtl.Store((*ctl)(nil))
	// a panic inside Close (e.g. "close of closed channel" when two overlapping calls both get past the
	// closed check) is an outcome of the schedule, not a crash of the harness
	var panicked atomic.Value
	closer := func(role string, done chan struct{}) {
		go func() {
			defer close(done)
			c.as(role)
			defer func() {
				if e := recover(); e != nil {
					panicked.Store(fmt.Sprint(e))
				}
			}()
			vx.Close()
		}()
	}
	inject := func(n int) {
		for i := 0; i < n; i++ {
			c.env("input")
		}
		t.InjectString(strings.Repeat("k", n))
	}
	settle := func() {
		time.Sleep(3 * time.Millisecond)
		c.env("settle")
	}
	out := "ok"
	aDone, bDone := make(chan struct{}), make(chan struct{})
	switch kind {
	case "dbl":
		inject(keys)
		settle()
		reached, release := c.holdAt("A:close.won")
		closer("A", aDone)
		if !waitCh(reached, bound) {
			out = "hang"
			break
		}
		closer("B", bDone)
		if !waitCh(bDone, hangBound) {
			out = "hang"
		}
		release()
		if !waitCh(aDone, bound) {
			out = "hang"
		}
	case "mid":
		reached, release := c.holdAt("I:input.seq")
		inject(keys)
		if !waitCh(reached, bound) {
			out = "hang"
			break
		}
		settle()
		closer("A", aDone)
		time.Sleep(3 * time.Millisecond)
		release()
		if !waitCh(aDone, bound) {
			out = "hang"
		}
	case "sig":
		reached, release := c.holdAt("I:input.handled")
		inject(1)
		if !waitCh(reached, bound) {
			out = "hang"
			break
		}
		inject(keys)
		settle()
		c.env("signal")
		vx.VerifC10SignalKill()
		release()
		if !waitCh(quitAsStruct(vx), hangBound) {
			out = "hang"
		}
	case "full":
		inject(keys)
		settle()
		closer("A", aDone)
		if !waitCh(aDone, hangBound) {
			out = "hang"
		}
	default:
		out = "unknown-kind"
	}
	if p, _ := panicked.Load().(string); p != "" {
		out = "panic"
	}
	if out == "ok" && libAlive(baseP, baseI, goneBound) {
		out = "leak"
	}
	tr := c.snapshot()
	ctls.Delete(vx)
	// release whatever is stuck: start consuming, wake the readers
	if kind == "full" {
		consume()
	}
	t.Console.Close()
	close(stop)
	waitCh(cdone, bound)
	libAlive(baseP, baseI, 500*time.Millisecond)
	return "out=" + out + " trace=" + tr
}

// ---------- F53: Close with a full queue and pending input ----------

func fullCloseCase(seed uint64, q, keys int) string {
	base := goroutines()
	vx, fc, err := newVx(q, 0)
	if err != nil {
		return "error new"
	}
	// nobody consumes: fill the queue, then send input so that the input goroutine blocks in
	// PostEventBlocking, the channel to it fills up and the parser blocks in emit
	for i := 0; i < q+2; i++ {
		vx.PostEvent(tagged{0, i, 'n'})
	}
	fc.InjectString(strings.Repeat("k", keys))
	time.Sleep(5 * time.Millisecond)
	closeOK, pmsg := within(hangBound, vx.Close)
	res := "close-ok"
	if !closeOK {
		res = "close-hang"
		// release: start consuming so that everything can finish, then account
		go func() {
			for range vx.Events() {
			}
		}()
		select {
		case <-vx.VerifC03QuitChan():
		case <-time.After(bound):
			res = "close-hang-for-good"
		}
	}
	// stop the releaser goroutine: it ranges over a channel that is never closed, so it stays;
	// count it out of the leak figure
	extra := 0
	if !closeOK {
		extra = 1
	}
	leak := waitGoroutines(base+extra, goneBound)
	return fmt.Sprintf("%s panic=%q leak=%d", res, pmsg, leak)
}

// ---------- F13: Close from the input goroutine's signal arm with sequences pending ----------

func sigCloseCase(seed uint64, keys int) string {
	base := goroutines()
	vx, fc, err := newVx(1, 0)
	if err != nil {
		return "error new"
	}
	// queue (capacity 1) is full after New's Resize event: the input goroutine blocks on the first key
	fc.InjectString(strings.Repeat("k", keys))
	time.Sleep(3 * time.Millisecond)
	vx.VerifC10SignalKill()
	// now consume: the goroutine returns to its select with both arms ready
	stop := make(chan struct{})
	cdone := make(chan struct{})
	go func() {
		defer close(cdone)
		for {
			select {
			case <-vx.Events():
			case <-stop:
				return
			}
		}
	}()
	res := "quit-ok"
	select {
	case <-vx.VerifC03QuitChan():
	case <-time.After(hangBound):
		res = "quit-hang"
	}
	close(stop)
	select {
	case <-cdone:
	case <-time.After(bound):
	}
	leak := waitGoroutines(base, goneBound)
	return fmt.Sprintf("%s leak=%d", res, leak)
}

// ---------- kill signal while the input goroutine is blocked in a post nobody receives ----------

// sigBlockedCase: queue of capacity 1, full after New's Resize event, nobody receiving; `keys` keys make
// the input goroutine block inside PostEventBlocking (definite: stack dump).  The kill signal is then
// queued in chSigKill (capacity 1) and CANNOT be served: the goroutine is not in its select (definite:
// a second delivery finds the channel still full).  Then the application receives: the goroutine gets
// back to its select, takes the kill arm, Close completes (chQuit closed) and nothing is left.
func sigBlockedCase(seed uint64, keys int) string {
	base := goroutines()
	vx, fc, err := newVx(1, 0)
	if err != nil {
		return "error new"
	}
	fc.InjectString(strings.Repeat("k", keys))
	if !waitBlockedPosting(bound) {
		withBound(vx.Close)
		return "incomplete"
	}
	queued := vx.VerifC10SignalKill()
	// still blocked in the post, signal still pending?
	blocked := countIn(stackDump(), "(*Vaxis).openTty.func1", "(*Vaxis).PostEventBlocking") > 0
	pending := !vx.VerifC10SignalKill()
	quitBefore := false
	select {
	case <-vx.VerifC03QuitChan():
		quitBefore = true
	default:
	}
	// the application receives again
	stop := make(chan struct{})
	cdone := make(chan struct{})
	go func() {
		defer close(cdone)
		for {
			select {
			case <-vx.Events():
			case <-stop:
				return
			}
		}
	}()
	res := "quit-ok"
	select {
	case <-vx.VerifC03QuitChan():
	case <-time.After(bound):
		res = "quit-hang"
	}
	close(stop)
	select {
	case <-cdone:
	case <-time.After(bound):
	}
	leak := waitGoroutines(base, goneBound)
	b2 := func(b bool) int {
		if b {
			return 1
		}
		return 0
	}
	return fmt.Sprintf("queued=%d blocked=%d pending=%d closed-before-receive=%d after-receive=%s leak=%d", b2(queued), b2(blocked), b2(pending), b2(quitBefore), res, leak)
}

// ---------- kill signal while the main goroutine draws and renders ----------

// sigRenderCase: the main goroutine draws, moves the cursor and renders frame after frame (and takes
// events when there are some); after `at` frames the kill signal is delivered, so the input goroutine
// runs Close -> Suspend (disableModes, exitAltScreen, cursor restore: writes through the same writer and
// cursor records) while the main goroutine is somewhere in its frame.  The main goroutine stops when it
// sees chQuit closed.  Under the race detector this is the schedule "kill signal mid-frame".
func sigRenderCase(seed uint64, at int) string {
	rng := gen.New(seed)
	base := goroutines()
	vx, _, err := newVx(0, uint32(rng.U64())&(1<<19-1)&^(1<<14))
	if err != nil {
		return "error new"
	}
	quit := vx.VerifC03QuitChan()
	mdone := make(chan struct{})
	go func() {
		defer close(mdone)
		for i := 0; i < 4000; i++ {
			select {
			case <-quit:
				return
			case <-vx.Events():
			default:
			}
			w := vx.Window()
			w.Print(vaxis.Segment{Text: fmt.Sprintf("frame %d %s", i, strings.Repeat("x", i%60))})
			vx.ShowCursor(i%20, i%5, vaxis.CursorStyle(i%7))
			vx.Render()
			if i == at {
				vx.VerifC10SignalKill()
			}
		}
	}()
	res := "ok"
	select {
	case <-quit:
	case <-time.After(bound):
		res = "quit-hang"
	}
	select {
	case <-mdone:
	case <-time.After(bound):
		res += ",main-hang"
	}
	leak := waitGoroutines(base, goneBound)
	return fmt.Sprintf("%s leak=%d", res, leak)
}

// ---------- size reports handled by the input goroutine while the main goroutine renders after Resize ----------

// sizeRaceCase: a terminal with in-band resize; the main goroutine calls Resize() + Render() again and again
// (Render then reads the size the input goroutine stored: reportWinsize -> vx.nextSize under vx.mu) while the
// terminal sends size reports of both kinds (CSI 48;…t in band, CSI 8;…t / CSI 4;…t solicited form).  Run under
// the race detector (group `sizes`): every access to nextSize must be under vx.mu (Props.C10Protect.protected_by).
func sizeRaceCase(seed uint64) string {
	rng := gen.New(seed)
	base := goroutines()
	vx, fc, err := newVx(0, uint32(rng.U64())&(1<<19-1)|1<<14)
	if err != nil {
		return "error new"
	}
	stop := make(chan struct{})
	cdone := make(chan struct{})
	go func() {
		defer close(cdone)
		for {
			select {
			case <-vx.Events():
			case <-stop:
				return
			}
		}
	}()
	idone := make(chan struct{})
	go func() {
		defer close(idone)
		for i := 0; i < 60; i++ {
			fc.InjectString(fmt.Sprintf("\x1b[48;%d;%d;100;100t\x1b[8;%d;%dt\x1b[4;100;100t", 20+i%5, 70+i%7, 20+i%5, 70+i%7))
			if i%4 == 0 {
				runtime.Gosched()
			}
		}
	}()
	for i := 0; i < 60; i++ {
		vx.Resize()
		vx.Window().Print(vaxis.Segment{Text: fmt.Sprint(i)})
		vx.Render()
	}
	<-idone
	ok, pmsg := withBound(vx.Close)
	close(stop)
	<-cdone
	leak := waitGoroutines(base, goneBound)
	if !ok || pmsg != "" {
		return fmt.Sprintf("close-hang leak=%d", leak)
	}
	return fmt.Sprintf("ok leak=%d", leak)
}

// ---------- F33: concurrent Close ----------

func dblCloseCase(seed uint64, n int) string {
	base := goroutines()
	vx, _, err := newVx(0, 0)
	if err != nil {
		return "error new"
	}
	stop := make(chan struct{})
	cdone := make(chan struct{})
	go func() {
		defer close(cdone)
		for {
			select {
			case <-vx.Events():
			case <-stop:
				return
			}
		}
	}()
	start := make(chan struct{})
	results := make(chan string, n)
	for i := 0; i < n; i++ {
		go func() {
			<-start
			ok, pm := withBound(vx.Close)
			switch {
			case !ok:
				results <- "hang"
			case pm != "":
				results <- "panic"
			default:
				results <- "ok"
			}
		}()
	}
	close(start)
	res := "ok"
	for i := 0; i < n; i++ {
		r := <-results
		if r != "ok" && res == "ok" {
			res = r
		}
		if r == "panic" {
			res = "panic"
		}
	}
	close(stop)
	select {
	case <-cdone:
	case <-time.After(bound):
	}
	leak := waitGoroutines(base, goneBound)
	return fmt.Sprintf("close-%s leak=%d", res, leak)
}

// ---------- F210: the application's Suspend concurrent with a Close from the kill-signal arm ----------

// sigSuspendCase: the main goroutine calls Suspend while a kill signal makes the input goroutine call
// Close (which calls Suspend too); `delay` (µs) shifts the signal against the call.  Both must return,
// chQuit must be closed, nothing may be left.  (Round 3: `vx.suspended` was a plain field read and
// written by both — data race, two close signals for one parser or console.Close under a running
// Suspend; Suspend and Resume are now serialised by a mutex.)
func sigSuspendCase(seed uint64, delay int) string {
	base := goroutines()
	baseI := countIn(stackDump(), "(*Vaxis).openTty.func1", "")
	vx, fc, err := newVx(0, 0)
	if err != nil {
		return "error new"
	}
	stop := make(chan struct{})
	cdone := make(chan struct{})
	go func() {
		defer close(cdone)
		for {
			select {
			case <-vx.Events():
			case <-stop:
				return
			}
		}
	}()
	fc.InjectString(strings.Repeat("k", int(seed%4)))
	sdone := make(chan string, 1)
	suspend := func() {
		go func() {
			defer func() {
				if e := recover(); e != nil {
					sdone <- fmt.Sprint(e)
					return
				}
				sdone <- ""
			}()
			vx.Suspend()
		}()
	}
	// even delay: the signal first, then (delay/2 µs later) the call; odd: the call first
	if delay%2 == 0 {
		vx.VerifC10SignalKill()
		time.Sleep(time.Duration(delay/2) * time.Microsecond)
		suspend()
	} else {
		suspend()
		time.Sleep(time.Duration(delay/2) * time.Microsecond)
		vx.VerifC10SignalKill()
	}
	res := "ok"
	pmsg := ""
	select {
	case pmsg = <-sdone:
		if pmsg != "" {
			res = "suspend-panic"
		}
	case <-time.After(bound):
		res = "suspend-hang"
	}
	if res == "ok" {
		// Was the signal served?  Definite events only: first the input goroutine must be gone (Suspend
		// has stopped its parser, so it returns on EOF / the closed channel, or after the Close of its
		// signal arm); then the signal is either still in chSigKill (it arrived after the goroutine had
		// left its select: nobody serves it, the session is suspended — not a defect) or was taken, and
		// then Close has run to its end on that goroutine: chQuit is closed.
		deadline := time.Now().Add(bound)
		for countIn(stackDump(), "(*Vaxis).openTty.func1", "") > baseI && time.Now().Before(deadline) {
			time.Sleep(time.Millisecond)
		}
		if countIn(stackDump(), "(*Vaxis).openTty.func1", "") > baseI {
			res = "quit-hang" // the input goroutine is stuck (inside Close, or in its loop)
		} else if !vx.VerifC10SignalKill() {
			res = "ok-unserved"
		} else {
			select {
			case <-vx.VerifC03QuitChan():
			default:
				res = "quit-missing" // the signal was taken but Close did not complete
			}
		}
	}
	if res != "ok" && res != "ok-unserved" {
		fc.Close() // release whatever is stuck
	}
	close(stop)
	select {
	case <-cdone:
	case <-time.After(bound):
	}
	leak := waitGoroutines(base, goneBound)
	return fmt.Sprintf("%s panic=%q leak=%d", res, pmsg, leak)
}

// ---------- race-detector child ----------

func (h *H) raceRun(grp string) string {
	if os.Getenv("VERIF_C10_NORACE") != "" {
		return "race-skipped"
	}
	verif := os.Getenv("VERIF_DIR")
	if verif == "" {
		verif = "/verif"
	}
	hd := filepath.Join(verif, "harness")
	bin := filepath.Join(verif, "bin", "vxh-C10-race")
	args := []string{"build", "-race", "-tags", "verif"}
	if repo := os.Getenv("VERIF_REPO"); repo != "" && repo != "/repo" {
		rp, _ := filepath.EvalSymlinks(repo)
		mod, err := os.ReadFile(filepath.Join(hd, "go.mod"))
		if err == nil {
			alt := filepath.Join(verif, "work", "harness-c10race.mod")
			os.WriteFile(alt, []byte(strings.Replace(string(mod), "=> /repo", "=> "+rp, 1)), 0o644)
			if sum, err := os.ReadFile(filepath.Join(rp, "go.sum")); err == nil {
				os.WriteFile(strings.TrimSuffix(alt, ".mod")+".sum", sum, 0o644)
			}
			args = append(args, "-modfile="+alt)
			bin += "-alt"
		}
	}
	args = append(args, "-o", bin, "./cmd/C10")
	cmd := exec.Command("go", args...)
	cmd.Dir = hd
	cmd.Env = append(os.Environ(), "CGO_ENABLED=1", "GOFLAGS=-mod=mod", "GOPROXY=off", "GOSUMDB=off", "GOTOOLCHAIN=local")
	if out, err := cmd.CombinedOutput(); err != nil {
		h.r.Note("race-build-error", trunc(string(out), 400))
		return "race-unavailable"
	}
	n := 12
	if h.r.Thorough {
		n = 80
	}
	child := exec.Command(bin, "-racechild", fmt.Sprint(h.r.Seed), fmt.Sprint(n), grp)
	child.Env = append(os.Environ(), "GORACE=halt_on_error=0 exitcode=66")
	var stderr bytes.Buffer
	child.Stderr = &stderr
	out, err := child.Output()
	races := strings.Count(stderr.String(), "WARNING: DATA RACE")
	if races > 0 {
		h.r.Note("race-report", trunc(stderr.String(), 3000))
		return fmt.Sprintf("races=%d %s sites=%s", races, firstRaceSite(stderr.String()), raceSiteSet(stderr.String()))
	}
	if err != nil {
		h.r.Note("race-child-error", trunc(err.Error()+" "+stderr.String(), 600))
		return "race-child-failed"
	}
	return "races=0 " + strings.TrimSpace(string(out))
}

// raceSiteSet: for every access of every report (the blocks "Read at", "Write at", "Previous read at",
// "Previous write at") the innermost function of the library on its stack; the sorted set of these.
func raceSiteSet(s string) string {
	set := map[string]bool{}
	want := false
	for _, l := range strings.Split(s, "\n") {
		t := strings.TrimSpace(l)
		switch {
		case strings.HasPrefix(t, "Read at") || strings.HasPrefix(t, "Write at") || strings.HasPrefix(t, "Previous read at") || strings.HasPrefix(t, "Previous write at") ||
			strings.HasPrefix(t, "Atomic") || strings.HasPrefix(t, "Previous atomic"):
			want = true
		case t == "" || strings.HasPrefix(t, "Goroutine "):
			want = false
		case want && strings.Contains(t, "rockorager/vaxis") && strings.HasSuffix(t, ")") && !strings.HasPrefix(t, "/"):
			f := strings.Fields(t)[0]
			if i := strings.Index(f, "vaxis"); i >= 0 {
				f = f[i:]
			}
			set[strings.TrimSuffix(f, "()")] = true
			want = false
		}
	}
	var out []string
	for k := range set {
		out = append(out, k)
	}
	sort.Strings(out)
	return strings.Join(out, ",")
}

func firstRaceSite(s string) string {
	var sites []string
	for _, l := range strings.Split(s, "\n") {
		l = strings.TrimSpace(l)
		if strings.Contains(l, "rockorager/vaxis") && strings.Contains(l, "()") {
			sites = append(sites, strings.Fields(l)[0])
			if len(sites) == 2 {
				break
			}
		}
	}
	return "at=" + strings.Join(sites, "+")
}

func trunc(s string, n int) string {
	if len(s) > n {
		return s[:n]
	}
	return s
}

// raceChild runs the schedules that are expected to be free of defects (post, suspend) under
// the race detector and prints a one-line summary; a data race makes the runtime print a report
// on stderr (counted by the parent).
func raceChild() {
	seed, _ := strconv.ParseUint(os.Args[2], 10, 64)
	n, _ := strconv.Atoi(os.Args[3])
	grp := "use"
	if len(os.Args) > 4 {
		grp = os.Args[4]
	}
	rng := gen.New(seed)
	bad := 0
	for i := 0; i < n; i++ {
		var res string
		if grp == "dblclose" {
			res = dblCloseCase(rng.U64(), rng.Range(2, 3))
			if !strings.HasPrefix(res, "close-ok") {
				bad++
			}
		} else if grp == "sizes" {
			res = sizeRaceCase(rng.U64())
			if !strings.HasPrefix(res, "ok ") {
				bad++
			}
		} else if grp == "sigrender" {
			res = sigRenderCase(rng.U64(), rng.Range(0, 12))
			if !strings.HasPrefix(res, "ok ") {
				bad++
			}
		} else if grp == "sigsuspend" {
			res = sigSuspendCase(rng.U64(), rng.Range(0, 200))
			if !strings.HasPrefix(res, "ok") {
				bad++
			}
		} else if i%3 == 2 {
			res = suspendCase(rng.U64(), rng.Range(1, 4), rng.Range(5, 40), rng.Range(1, 3), 0)
			if !strings.HasPrefix(res, "ok") {
				bad++
			}
		} else {
			res = postCase(rng.U64(), rng.Range(1, 6), rng.Range(1, 120), gen.Pick(rng, []int{0, 2, 8}), rng.Range(0, 40))
			if !strings.Contains(res, "close=true") {
				bad++
			}
		}
	}
	fmt.Printf("schedules=%d bad=%d\n", n, bad)
}
