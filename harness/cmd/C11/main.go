package main

// C11 harness: draws through real vaxis.Window values on a real Vaxis (fake console) and reports
// which next-frame screen cells changed (hook VerifC11NextCells). See lean/VaxisModel/Driver/C11.lean
// for the line format.

import (
	"fmt"
	"hash/fnv"
	"sort"
	"strconv"
	"strings"

	"git.sr.ht/~rockorager/vaxis"
	"github.com/rivo/uniseg"
	"verifharness/fakeconsole"
	"verifharness/gen"
	"verifharness/hx"
)

func main() { hx.Main("C11", run) }

const sentinelG = "▒"

var sentinel = vaxis.Cell{Character: vaxis.Character{Grapheme: sentinelG, Width: 1}, Style: vaxis.Style{Foreground: vaxis.IndexColor(255)}}

func gid(g string) uint32 {
	switch g {
	case "":
		return 0
	case " ":
		return 1
	case "…":
		return 2
	case sentinelG:
		return 9
	}
	h := fnv.New32a()
	h.Write([]byte(g))
	return 16 + h.Sum32()%1000000007
}

func styleTag(s vaxis.Style) int {
	fg := s.Foreground
	s.Foreground = 0
	if s != (vaxis.Style{}) {
		return 999
	}
	ps := fg.Params()
	switch len(ps) {
	case 0:
		return 0
	case 1:
		return int(ps[0])
	}
	return 998
}

func tagStyle(t int) vaxis.Style {
	if t == 0 {
		return vaxis.Style{}
	}
	return vaxis.Style{Foreground: vaxis.IndexColor(uint8(t))}
}

type step struct {
	kind       byte // R N D
	c, r, w, h int
}

type seg struct {
	tag  int
	text string
}

type tcase struct {
	kind   string
	uc, ew bool
	sw, sh int
	chain  []step
	args   []int
	segs   []seg
}

type vxKey struct {
	sw, sh int
	uc, ew bool
}

var vxCache = map[vxKey]*vaxis.Vaxis{}

func getVx(k vxKey) (*vaxis.Vaxis, error) {
	if vx, ok := vxCache[k]; ok {
		return vx, nil
	}
	fc := fakeconsole.New(k.sw, k.sh, fakeconsole.FromMask(0))
	vx, err := vaxis.New(vaxis.Options{WithConsole: fc, NoSignals: true})
	if err != nil {
		return nil, err
	}
	vx.VerifC11SetWidthCaps(k.uc, k.ew)
	if vx.CanUnicodeCore() != k.uc || vx.CanExplicitWidth() != k.ew {
		return nil, fmt.Errorf("capabilities not as requested: uc=%v ew=%v", vx.CanUnicodeCore(), vx.CanExplicitWidth())
	}
	vxCache[k] = vx
	return vx, nil
}

func b01(b bool) string {
	if b {
		return "1"
	}
	return "0"
}

func ints(xs []int) string {
	if len(xs) == 0 {
		return "-"
	}
	ss := make([]string, len(xs))
	for i, x := range xs {
		ss[i] = strconv.Itoa(x)
	}
	return strings.Join(ss, ",")
}

// clusters of s exactly as Characters obtains them (before its TAB expansion).
func rawClusters(s string) []string {
	var out []string
	state := -1
	for s != "" {
		var c string
		c, s, _, state = uniseg.FirstGraphemeClusterInString(s, state)
		out = append(out, c)
	}
	return out
}

// splitsCluster mirrors window.go: does the last grapheme cluster of a continue into b?
func splitsCluster(a, b string) bool {
	var last string
	state := -1
	for len(a) > 0 {
		last, a, _, state = uniseg.FirstGraphemeClusterInString(a, state)
	}
	cluster, _, _, _ := uniseg.FirstGraphemeClusterInString(last+b, -1)
	return len(cluster) > len(last)
}

func clusterWidth(c string) int {
	_, _, w, _ := uniseg.FirstGraphemeClusterInString(c, -1)
	return w
}

type libT struct {
	vx    *vaxis.Vaxis
	seen  map[string]bool
	order []string
}

func (l *libT) add(g string) {
	if !l.seen[g] {
		l.seen[g] = true
		l.order = append(l.order, g)
	}
}

func (l *libT) String() string {
	var ss []string
	for _, g := range l.order {
		nl, tb := 0, 0
		if strings.ContainsRune(g, '\n') {
			nl = 1
		}
		if uniseg.HasTrailingLineBreakInString(g) {
			tb = 1
		}
		ss = append(ss, fmt.Sprintf("%d:%d:%d:%d", gid(g), l.vx.RenderedWidth(g), nl, tb))
	}
	return strings.Join(ss, ",")
}

// annotate computes the cluster annotation of the segments with the real uniseg: for Wrap the line
// segments (state carried across Segments as in Wrap), otherwise one pseudo line segment per Segment.
func annotate(r *hx.Run, tc *tcase, lib *libT) string {
	if len(tc.segs) == 0 {
		return "-"
	}
	var parts []string
	lstate := -1
	for _, sg := range tc.segs {
		var lsegs [][]string
		if tc.kind == "wrap" {
			rest := sg.text
			for len(rest) > 0 {
				var ls string
				ls, rest, _, lstate = uniseg.FirstLineSegmentInString(rest, lstate)
				// as Wrap does since the F111c repair: a line segment does not end inside a cluster
				for len(rest) > 0 && splitsCluster(ls, rest) {
					var more string
					more, rest, _, lstate = uniseg.FirstLineSegmentInString(rest, lstate)
					ls += more
				}
				lsegs = append(lsegs, rawClusters(ls))
			}
		} else if sg.text != "" {
			lsegs = append(lsegs, rawClusters(sg.text))
		}
		var ls []string
		for _, cl := range lsegs {
			var cs []string
			for _, c := range cl {
				lib.add(c)
				// the width Characters stores is the one FirstGraphemeClusterInString returned in context
				cs = append(cs, fmt.Sprintf("%d.%d.%s", gid(c), clusterWidthIn(sg.text, c), b01(c == "\t")))
				if uniseg.StringWidth(c) != clusterWidth(c) {
					r.Count("assume:StringWidth(cluster)!=cluster width")
				}
			}
			ls = append(ls, strings.Join(cs, ","))
		}
		parts = append(parts, fmt.Sprintf("%d;%s", sg.tag, strings.Join(ls, "/")))
	}
	return strings.Join(parts, "|")
}

// clusterWidthIn returns the width uniseg reports for cluster c (widths do not depend on context in
// uniseg v0.4.4; checked against the in-context value by the `chars` op).
func clusterWidthIn(_ string, c string) int { return clusterWidth(c) }

func hexSegs(segs []seg) string {
	if len(segs) == 0 {
		return "-"
	}
	ss := make([]string, len(segs))
	for i, s := range segs {
		ss[i] = hx.Hex(s.text)
	}
	return strings.Join(ss, "|")
}

func chainStr(ch []step) string {
	ss := make([]string, len(ch))
	for i, s := range ch {
		ss[i] = fmt.Sprintf("%c%d,%d,%d,%d", s.kind, s.c, s.r, s.w, s.h)
	}
	return strings.Join(ss, "/")
}

func buildWindows(vx *vaxis.Vaxis, ch []step) []*vaxis.Window {
	var wins []*vaxis.Window
	for i, s := range ch {
		switch {
		case i == 0:
			w := vaxis.Window{Vx: vx, Column: s.c, Row: s.r, Width: s.w, Height: s.h}
			full := vx.Window()
			if s.c == 0 && s.r == 0 && s.w == full.Width && s.h == full.Height {
				w = full // the constructor's value
			}
			wins = append(wins, &w)
		case s.kind == 'N':
			w := wins[i-1].New(s.c, s.r, s.w, s.h)
			wins = append(wins, &w)
		default:
			w := vaxis.Window{Vx: vx, Parent: wins[i-1], Column: s.c, Row: s.r, Width: s.w, Height: s.h}
			wins = append(wins, &w)
		}
	}
	return wins
}

func runCase(r *hx.Run, tc *tcase) error {
	op, impl, err := doCase(r, tc)
	if err != nil {
		return err
	}
	r.Emit(op, impl)
	return nil
}

func doCase(r *hx.Run, tc *tcase) (string, string, error) {
	vx, err := getVx(vxKey{tc.sw, tc.sh, tc.uc, tc.ew})
	if err != nil {
		return "", "", err
	}
	lib := &libT{vx: vx, seen: map[string]bool{}}
	lib.add(" ")
	ann := annotate(r, tc, lib)
	op := fmt.Sprintf("%s %s%s %dx%d %s %s %s %s %s", tc.kind, b01(tc.uc), b01(tc.ew), tc.sw, tc.sh,
		chainStr(tc.chain), ints(tc.args), lib.String(), ann, hexSegs(tc.segs))
	if tc.kind == "wrap" && len(tc.segs) > 0 {
		// 9th field: the clusters of each Segment's text segmented as a whole (what Characters(seg.Text)
		// returns), as id:hex — the driver checks that Wrap's per-line-segment clusters are these
		// ("never splitting a cluster across cells")
		var ws []string
		for _, sg := range tc.segs {
			var cs []string
			for _, c := range rawClusters(sg.text) {
				cs = append(cs, fmt.Sprintf("%d:%s", gid(c), hx.Hex(c)))
			}
			if len(cs) == 0 {
				cs = []string{"-"}
			}
			ws = append(ws, strings.Join(cs, ","))
		}
		op += " " + strings.Join(ws, "|")
		if len(tc.segs) > 1 {
			r.Count("wrap:multi-segment")
		}
	}

	if tc.kind == "chars" {
		text := ""
		if len(tc.segs) > 0 {
			text = tc.segs[0].text
		}
		var cs []string
		for _, c := range vaxis.Characters(text) {
			cs = append(cs, fmt.Sprintf("%d.%d", gid(c.Grapheme), c.Width))
		}
		res := "-"
		if len(cs) > 0 {
			res = strings.Join(cs, ",")
		}
		return op, res, nil
	}

	// all-sentinel start
	vx.Window().Fill(sentinel)
	for _, row := range vx.VerifC11NextCells() {
		for _, c := range row {
			if c != sentinel {
				return "", "", fmt.Errorf("could not prefill the screen")
			}
		}
	}
	segs := make([]vaxis.Segment, len(tc.segs))
	for i, s := range tc.segs {
		segs[i] = vaxis.Segment{Text: s.text, Style: tagStyle(s.tag)}
	}
	ret := "-"
	var wins []*vaxis.Window
	ox, oy := 0, 0
	panicked, msg := hx.Guard(func() {
		wins = buildWindows(vx, tc.chain)
		win := *wins[len(wins)-1]
		a := tc.args
		switch tc.kind {
		case "setcell":
			win.SetCell(a[0], a[1], vaxis.Cell{Character: vaxis.Character{Grapheme: gstr(a[2]), Width: a[3]}, Style: tagStyle(a[4])})
		case "setstyle":
			win.SetStyle(a[0], a[1], tagStyle(a[2]))
		case "fill":
			win.Fill(vaxis.Cell{Character: vaxis.Character{Grapheme: gstr(a[0]), Width: a[1]}, Style: tagStyle(a[2])})
		case "clear":
			win.Clear()
		case "print":
			c, rw := win.Print(segs...)
			ret = fmt.Sprintf("%d,%d", c, rw)
		case "trunc":
			win.PrintTruncate(a[0], segs...)
		case "println":
			win.Println(a[0], segs...)
		case "wrap":
			c, rw := win.Wrap(segs...)
			ret = fmt.Sprintf("%d,%d", c, rw)
		case "cursor":
			vx.HideCursor()
			win.ShowCursor(a[0], a[1], vaxis.CursorStyle(a[2]))
			cc, cr, cs, vis := vx.VerifC11CursorNext()
			ret = fmt.Sprintf("%d,%d,%d,%s", cc, cr, cs, b01(vis))
			vx.HideCursor()
		default:
			panic("bad kind " + tc.kind)
		}
		ox, oy = win.Origin()
	})
	if panicked {
		r.Count("panic: " + msg)
		return op, "panic", nil
	}
	var geoms []string
	for _, w := range wins {
		geoms = append(geoms, fmt.Sprintf("%d,%d,%d,%d", w.Column, w.Row, w.Width, w.Height))
	}
	var cells []string
	for y, row := range vx.VerifC11NextCells() {
		for x, c := range row {
			if c != sentinel {
				cells = append(cells, fmt.Sprintf("%d,%d,%d,%d,%d", x, y, gid(c.Grapheme), c.Width, styleTag(c.Style)))
			}
		}
	}
	cs := "-"
	if len(cells) > 0 {
		cs = strings.Join(cells, " ")
		r.Count("draws-something")
	} else {
		r.Count("draws-nothing")
	}
	return op, fmt.Sprintf("%s;%d,%d;%s;%s", strings.Join(geoms, "/"), ox, oy, ret, cs), nil
}

// graphemes addressable by id in setcell/fill args
var argGraphemes = []string{"x", "世", "y"}

func gstr(id int) string {
	for _, g := range argGraphemes {
		if int(gid(g)) == id {
			return g
		}
	}
	return "x"
}

var alphabet = []string{"a", "b", "é", "é", "世", "🔥", "👩‍🚀", "🇩🇪", "​", " ", "\t", "\n", "\r\n", "-", "­", "❤️", "́", "x", "界", " "}

func randText(rng *gen.Rng, maxLen int) string {
	n := rng.Intn(maxLen + 1)
	var sb strings.Builder
	for i := 0; i < n; i++ {
		sb.WriteString(gen.Pick(rng, alphabet))
	}
	return sb.String()
}

func randSegs(rng *gen.Rng) []seg {
	n := 1 + rng.Intn(3)
	if rng.Chance(1, 10) {
		n = 0
	}
	var out []seg
	for i := 0; i < n; i++ {
		out = append(out, seg{tag: 1 + rng.Intn(200), text: randText(rng, 9)})
	}
	return out
}

func randChain(rng *gen.Rng, sw, sh, maxDepth int) []step {
	var ch []step
	pw, ph := sw, sh
	if rng.Chance(1, 5) {
		s := step{'R', rng.Range(-3, 3), rng.Range(-3, 3), rng.Range(-3, sw+3), rng.Range(-3, sh+3)}
		ch = append(ch, s)
		pw, ph = s.w, s.h
	} else {
		ch = append(ch, step{'R', 0, 0, sw, sh})
	}
	d := rng.Intn(maxDepth + 1)
	for i := 0; i < d; i++ {
		hiw, hih := pw, ph
		if hiw < 0 {
			hiw = 0
		}
		if hih < 0 {
			hih = 0
		}
		s := step{'N', rng.Range(-3, hiw+3), rng.Range(-3, hih+3), rng.Range(-3, hiw+3), rng.Range(-3, hih+3)}
		if rng.Chance(2, 3) {
			// mostly-visible geometry: small offsets, sizes around the parent's
			s = step{'N', rng.Range(-1, 2), rng.Range(-1, 1), rng.Range(hiw-2, hiw+2), rng.Range(hih-1, hih+2)}
			if rng.Chance(1, 6) {
				s.w = -1
			}
		}
		if rng.Chance(1, 4) {
			s.kind = 'D'
		}
		ch = append(ch, s)
		// geometry after clamping is only known to the code; track the request for ranges
		pw, ph = s.w, s.h
		if s.kind == 'N' {
			if s.w < 0 || s.w+s.c > hiw {
				pw = hiw - s.c
			}
			if s.h < 0 || s.h+s.r > hih {
				ph = hih - s.r
			}
		}
	}
	return ch
}

var textKinds = []string{"print", "trunc", "println", "wrap"}

func emitAllOps(r *hx.Run, rng *gen.Rng, base tcase, lastW, lastH int) error {
	// fill covers every in-window coordinate at once; setcell/setstyle probe the boundary classes
	g := int(gid("x"))
	tc := base
	tc.kind, tc.args = "fill", []int{g, 1, 7}
	if err := runCase(r, &tc); err != nil {
		return err
	}
	r.Count("op:fill")
	for _, c := range []int{-1, 0, lastW - 1, lastW} {
		for _, rw := range []int{-1, 0, lastH - 1, lastH} {
			// both primitives at every probe: they have separate code paths
			for _, kind := range []string{"setcell", "setstyle", "cursor"} {
				tc := base
				if kind == "setcell" {
					tc.kind, tc.args = kind, []int{c, rw, int(gid("世")), 2, 8}
				} else if kind == "cursor" {
					tc.kind, tc.args = kind, []int{c, rw, (c + rw + 8) % 7}
				} else {
					tc.kind, tc.args = kind, []int{c, rw, 8}
				}
				if err := runCase(r, &tc); err != nil {
					return err
				}
				r.Count("op:" + tc.kind)
			}
		}
	}
	return nil
}

func run(r *hx.Run) error {
	if r.Replay != "" {
		return hx.ReplayOps(r, func(op []string) (string, bool) { return replayOne(r, op) })
	}
	rng := gen.New(r.Seed)
	for _, ops := range hx.Corpus("C11") {
		for _, op := range ops {
			tc, ok := parseOp(strings.Fields(op))
			if !ok {
				return fmt.Errorf("bad corpus op %q", op)
			}
			if err := runCase(r, tc); err != nil {
				return err
			}
			r.Count("corpus")
		}
	}

	// 1. geometry, bounded-exhaustive. Columns and rows are handled by separate, identical
	// expressions, so the x-geometry is enumerated completely for depth ≤ 2 against a few
	// y-geometries and vice versa.
	type dims struct{ sw, sh int }
	screens := []dims{{3, 2}}
	if r.Thorough {
		screens = []dims{{3, 2}, {6, 4}, {1, 1}}
	}
	for _, sc := range screens {
		for axis := 0; axis < 2; axis++ {
			size := sc.sw
			other := sc.sh
			if axis == 1 {
				size, other = sc.sh, sc.sw
			}
			mk := func(o, s, oo, os int, kind byte) step {
				if axis == 0 {
					return step{kind, o, oo, s, os}
				}
				return step{kind, oo, o, os, s}
			}
			for o1 := -3; o1 <= size+3; o1++ {
				for s1 := -3; s1 <= size+3; s1++ {
					// depth 1
					oo, os := rng.Range(-1, 1), rng.Range(1, other+1)
					base := tcase{uc: true, ew: true, sw: sc.sw, sh: sc.sh,
						chain: []step{{'R', 0, 0, sc.sw, sc.sh}, mk(o1, s1, oo, os, 'N')}}
					// effective size after New's clamp
					e1 := s1
					if s1 < 0 || s1+o1 > size {
						e1 = size - o1
					}
					lw, lh := e1, os
					if axis == 1 {
						lw, lh = os, e1
					}
					if err := emitAllOps(r, rng, base, lw, lh); err != nil {
						return err
					}
					r.Count("geom:depth1-exhaustive")
					hi := e1
					if hi < 0 {
						hi = 0
					}
					for o2 := -3; o2 <= hi+3; o2++ {
						for s2 := -3; s2 <= hi+3; s2++ {
							kind := byte('N')
							if (o2+s2)&3 == 0 {
								kind = 'D'
							}
							b2 := base
							b2.chain = append(append([]step{}, base.chain...), mk(o2, s2, rng.Range(-1, 1), rng.Range(0, other+1), kind))
							tc := b2
							tc.kind, tc.args = "fill", []int{int(gid("x")), 1, 7}
							if err := runCase(r, &tc); err != nil {
								return err
							}
							r.Count("geom:depth2-exhaustive-axis")
						}
					}
				}
			}
		}
	}
	// 1b. thorough: depth 1 exhaustive on both axes at once (offsets and sizes in [-3, screen+3])
	if r.Thorough {
		for _, sc := range []dims{{3, 2}, {6, 4}} {
			for c := -3; c <= sc.sw+3; c++ {
				for rw := -3; rw <= sc.sh+3; rw++ {
					for w := -3; w <= sc.sw+3; w++ {
						for h := -3; h <= sc.sh+3; h++ {
							kind := byte('N')
							if (c+rw+w+h)%5 == 0 {
								kind = 'D'
							}
							tc := tcase{kind: "fill", uc: true, ew: true, sw: sc.sw, sh: sc.sh, args: []int{int(gid("x")), 1, 7},
								chain: []step{{'R', 0, 0, sc.sw, sc.sh}, {kind, c, rw, w, h}}}
							if err := runCase(r, &tc); err != nil {
								return err
							}
							r.Count("geom:depth1-exhaustive-2axes")
						}
					}
				}
			}
		}
	}
	r.Note("exhaustive", false)
	r.Note("geometry", "depth<=2 exhaustive per axis (offset,size in [-3,parent+3]); random depth<=4")

	// 1c. windows that are NOT inside all their ancestors, and roots that are not the full screen:
	// every primitive at every offset of the leaf (and one beyond on each side), every draw op with
	// text that overflows the leaf.
	long := []seg{{tag: 4, text: "abcdefghij世界klmnop\nqrs\ttuv wx yz 0123456789"}}
	for _, fam := range []struct {
		sw, sh int
		chain  []step
	}{
		// child with a negative offset inside a parent that is not at the screen origin
		{6, 4, []step{{'R', 0, 0, 6, 4}, {'N', 3, 2, 2, 2}, {'N', -2, -1, 4, 3}}},
		{6, 4, []step{{'R', 0, 0, 6, 4}, {'N', 2, 1, 2, 2}, {'D', -1, -1, 5, 4}}},
		{6, 4, []step{{'R', 0, 0, 6, 4}, {'D', 2, 1, 3, 2}, {'D', -2, -1, 9, 9}}},
		{5, 3, []step{{'R', 0, 0, 5, 3}, {'N', 1, 1, 3, 1}, {'N', 0, 0, 2, 1}, {'D', -1, -1, 6, 4}}},
		// struct-literal roots: non-zero origin, smaller than the screen
		{6, 4, []step{{'R', 2, 1, 3, 2}}},
		{6, 4, []step{{'R', 1, 1, 4, 2}}},
		{4, 3, []step{{'R', 1, 1, 2, 1}}},
		{6, 4, []step{{'R', 0, 0, 3, 2}}}, // a vx.Window() kept from before the screen grew
		{6, 4, []step{{'R', 2, 1, 3, 2}, {'N', 1, 0, 5, 5}}},
		{6, 4, []step{{'R', 1, 0, 2, 2}, {'D', -1, 0, 6, 4}}},
	} {
		leaf := fam.chain[len(fam.chain)-1]
		for _, caps := range [][2]bool{{true, true}, {false, false}} {
			base := tcase{uc: caps[0], ew: caps[1], sw: fam.sw, sh: fam.sh, chain: fam.chain}
			for c := -1; c <= leaf.w+1; c++ {
				for rw := -1; rw <= leaf.h+1; rw++ {
					for _, kind := range []string{"setcell", "setstyle", "cursor"} {
						tc := base
						if kind == "setcell" {
							tc.kind, tc.args = kind, []int{c, rw, int(gid("y")), 1, 9}
						} else if kind == "cursor" {
							tc.kind, tc.args = kind, []int{c, rw, 2}
						} else {
							tc.kind, tc.args = kind, []int{c, rw, 9}
						}
						if err := runCase(r, &tc); err != nil {
							return err
						}
						r.Count("escape-family:" + kind)
					}
				}
			}
			for _, k := range []string{"fill", "clear", "print", "wrap", "println", "trunc"} {
				rows := []int{0}
				if k == "println" || k == "trunc" {
					rows = []int{-1, 0, leaf.h - 1, leaf.h, leaf.h + 1}
				}
				for _, row := range rows {
					tc := base
					tc.kind = k
					switch k {
					case "fill":
						tc.args = []int{int(gid("x")), 1, 7}
					case "clear":
					case "println", "trunc":
						tc.args = []int{row}
						tc.segs = long
					default:
						tc.segs = long
					}
					if err := runCase(r, &tc); err != nil {
						return err
					}
					r.Count("escape-family:" + k)
				}
			}
		}
	}

	// 2. random trees, every op
	nRand := 1500
	if r.Thorough {
		nRand = 20000
	}
	for i := 0; i < nRand; i++ {
		sw, sh := rng.Range(1, 6), rng.Range(1, 4)
		ch := randChain(rng, sw, sh, 4)
		base := tcase{uc: rng.Bool(), ew: rng.Bool(), sw: sw, sh: sh, chain: ch}
		last := ch[len(ch)-1]
		if err := emitAllOps(r, rng, base, last.w, last.h); err != nil {
			return err
		}
		tc := base
		tc.kind = "clear"
		if err := runCase(r, &tc); err != nil {
			return err
		}
		r.Count("op:clear")
		for _, k := range textKinds {
			tc := base
			tc.kind = k
			tc.segs = randSegs(rng)
			if k == "trunc" || k == "println" {
				tc.args = []int{rng.Range(-1, sh+1)}
			}
			if err := runCase(r, &tc); err != nil {
				return err
			}
			r.Count("op:" + k)
		}
		r.Count(fmt.Sprintf("geom:random-depth%d", len(ch)-1))
	}

	// 3. short strings exhaustively over a small alphabet, window widths 0..4
	small := []string{"a", "世", "\n", "\t", "́", " "}
	maxLen := 3
	if r.Thorough {
		maxLen = 4
	}
	var strs []string
	var rec func(prefix string, n int)
	rec = func(prefix string, n int) {
		strs = append(strs, prefix)
		if n == 0 {
			return
		}
		for _, a := range small {
			rec(prefix+a, n-1)
		}
	}
	rec("", maxLen)
	for _, s := range strs {
		for w := 0; w <= 4; w++ {
			for _, k := range textKinds {
				if !r.Thorough && rng.Intn(3) != 0 {
					continue
				}
				tc := tcase{kind: k, uc: false, ew: false, sw: 5, sh: 3, chain: []step{{'R', 0, 0, 5, 3}, {'N', 1, 0, w, rng.Range(1, 3)}},
					segs: []seg{{tag: 3, text: s}}}
				if k == "trunc" || k == "println" {
					tc.args = []int{rng.Range(0, 2)}
				}
				if err := runCase(r, &tc); err != nil {
					return err
				}
				r.Count("text:short-exhaustive")
			}
		}
	}

	// 4. Characters itself
	for i := 0; i < 300; i++ {
		tc := tcase{kind: "chars", uc: true, ew: true, sw: 3, sh: 2, chain: []step{{'R', 0, 0, 3, 2}}, segs: []seg{{tag: 1, text: randText(rng, 12)}}}
		if err := runCase(r, &tc); err != nil {
			return err
		}
		r.Count("op:chars")
	}
	var keys []string
	for k := range vxCache {
		keys = append(keys, fmt.Sprint(k))
	}
	sort.Strings(keys)
	for _, vx := range vxCache {
		vx.Close()
	}
	return nil
}

func atoi(s string) (int, bool) {
	n, err := strconv.Atoi(s)
	return n, err == nil
}

func parseInts(s string) ([]int, bool) {
	if s == "-" {
		return nil, true
	}
	var out []int
	for _, f := range strings.Split(s, ",") {
		n, ok := atoi(f)
		if !ok {
			return nil, false
		}
		out = append(out, n)
	}
	return out, true
}

func unhex(s string) (string, bool) {
	if s == "-" {
		return "", true
	}
	if len(s)%2 != 0 {
		return "", false
	}
	b := make([]byte, len(s)/2)
	for i := range b {
		n, err := strconv.ParseUint(s[2*i:2*i+2], 16, 8)
		if err != nil {
			return "", false
		}
		b[i] = byte(n)
	}
	return string(b), true
}

// parseOp rebuilds a case from an op line (replay / corpus); lib and ann are recomputed.
func parseOp(f []string) (*tcase, bool) {
	if len(f) < 8 {
		return nil, false
	}
	tc := &tcase{kind: f[0]}
	if len(f[1]) != 2 {
		return nil, false
	}
	tc.uc, tc.ew = f[1][0] == '1', f[1][1] == '1'
	d := strings.Split(f[2], "x")
	if len(d) != 2 {
		return nil, false
	}
	var ok bool
	if tc.sw, ok = atoi(d[0]); !ok {
		return nil, false
	}
	if tc.sh, ok = atoi(d[1]); !ok {
		return nil, false
	}
	for _, s := range strings.Split(f[3], "/") {
		if len(s) < 2 {
			return nil, false
		}
		v, ok := parseInts(s[1:])
		if !ok || len(v) != 4 {
			return nil, false
		}
		tc.chain = append(tc.chain, step{s[0], v[0], v[1], v[2], v[3]})
	}
	if tc.args, ok = parseInts(f[4]); !ok {
		return nil, false
	}
	if f[6] != "-" {
		anns := strings.Split(f[6], "|")
		hexes := strings.Split(f[7], "|")
		if len(anns) != len(hexes) {
			return nil, false
		}
		for i := range anns {
			t, ok := atoi(strings.SplitN(anns[i], ";", 2)[0])
			if !ok {
				return nil, false
			}
			txt, ok := unhex(hexes[i])
			if !ok {
				return nil, false
			}
			tc.segs = append(tc.segs, seg{t, txt})
		}
	}
	return tc, true
}

func replayOne(r *hx.Run, f []string) (string, bool) {
	tc, ok := parseOp(f)
	if !ok {
		return "", false
	}
	_, impl, err := doCase(r, tc)
	if err != nil {
		return "", false
	}
	return impl, true
}
