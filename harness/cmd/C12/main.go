// Harness for C12: a real Vaxis whose console is the real embedded terminal emulator (widgets/term
// Model without PTY, fed through the real ansi parser; its replies are the console's input). Per
// frame: the application's screen, the emulator snapshot, and the cells the emulator draws into a
// second (host) Vaxis.
package main

import (
	"fmt"
	"os"
	"strings"

	"bytes"

	"git.sr.ht/~rockorager/vaxis"
	"github.com/rivo/uniseg"
	"git.sr.ht/~rockorager/vaxis/ansi"
	"git.sr.ht/~rockorager/vaxis/widgets/term"
	"verifharness/cmd/C05/emuh"
	"verifharness/fakeconsole"
	"verifharness/gen"
	"verifharness/hx"
)

func main() { hx.Main("C12", run) }

var alphabet = []string{"a", "b", "x", " ", "é", "é", "世", "\U0001F525", "\U0001F469‍\U0001F680", "\U0001F1E9\U0001F1EA", "​", ""}

type session struct {
	emu   *term.Model
	host  *vaxis.Vaxis
	hfc   *fakeconsole.Console
	r     *hx.Run
	rng   *gen.Rng
	fc    *fakeconsole.Console
	vx    *vaxis.Vaxis
	cells map[vaxis.Cell]int
	w, h  int
	ew    bool
}

var sessions int

func capsMask(rgb, su, ew, sync, uc bool) uint32 {
	var m uint32
	if rgb {
		m |= 1 << 6
	}
	if su {
		m |= 1 << 7
	}
	if ew {
		m |= 1 << 15
	}
	if sync {
		m |= 1 << 1
	}
	if uc {
		m |= 1 << 2
	}
	return m
}

func max(a, b int) int {
	if a > b {
		return a
	}
	return b
}

func b01(b bool) int {
	if b {
		return 1
	}
	return 0
}

// preFeed: bytes the child wrote on the primary screen before the Vaxis application started
var preFeed string

// onPrimary: the next session leaves the alternate screen after start-up
var onPrimary bool

// withhold: the next session's console loses one of the emulator's start-up replies, so that one of
// New()'s timers fires: "cpr" = the cursor-position report (the 50 ms timer of the explicit-width probe),
// "da1" = the DA1 reply (the 3 s context of the collection loop)
var withhold string

func feedEmu(emu *term.Model, str string) {
	parser := ansi.NewParser(strings.NewReader(str))
	for seq := range parser.Next() {
		if _, ok := seq.(ansi.EOF); ok {
			break
		}
		emu.VerifFeed(seq)
		parser.Finish(seq)
	}
	emu.VerifTakeReplies()
}

func newSession(r *hx.Run, rng *gen.Rng, id string, w, h int, rgb, su, ew, sync, uc bool) (*session, error) {
	emu := term.VerifNew(w, h)
	emu.OSC8 = true
	emu.Focus()
	if preFeed != "" {
		feedEmu(emu, preFeed)
	}
	// every 16th session: the emulator is already shown by a host Vaxis that can report its background
	// (OSC 11), so the child's OSC 11 query is answered (reply writers with a host attached)
	attach := sessions%16 == 0
	var host *vaxis.Vaxis
	var hfc *fakeconsole.Console
	if attach {
		hfc = fakeconsole.New(w, h, fakeconsole.FromMask(1<<6|1<<7|1<<10))
		var herr error
		host, herr = vaxis.New(vaxis.Options{WithConsole: hfc, NoSignals: true})
		if herr != nil {
			return nil, herr
		}
		emu.Draw(host.Window())
		// from now on the host terminal answers the background query with this session's colour
		cr, cg, cb := rng.Intn(256), rng.Intn(256), rng.Intn(256)
		hfc.Respond = func(c *fakeconsole.Console, p []byte) []byte {
			if bytes.Contains(p, []byte("\x1b]11;?")) {
				return []byte(fmt.Sprintf("\x1b]11;rgb:%02x%02x/%02x%02x/%02x%02x\x1b\\", cr, cr, cg, cg, cb, cb))
			}
			return nil
		}
		r.Count("session-host-attached")
	}
	fc := fakeconsole.New(w, h, fakeconsole.Caps{})
	// every sequence Vaxis writes during start-up, with the reply the emulator gave to it
	var startup [][2]string
	recording := true
	fc.Respond = func(c *fakeconsole.Console, p []byte) []byte {
		parser := ansi.NewParser(bytes.NewReader(p))
		var all []byte
		for seq := range parser.Next() {
			if _, ok := seq.(ansi.EOF); ok {
				break
			}
			emu.VerifFeed(seq)
			rep := emu.VerifTakeReplies()
			if recording && ((withhold == "cpr" && strings.HasSuffix(rep, "R") && strings.HasPrefix(rep, "\x1b[")) ||
				(withhold == "da1" && strings.HasPrefix(rep, "\x1b[?62"))) {
				rep = "" // lost on the way: the timer fires
				r.Count("reply-withheld-" + withhold)
			}
			if recording {
				op := emuh.OpLine(seq)
				if strings.HasPrefix(op, "dcs") {
					op = "dcs"
				}
				if op != "c0 0" { // padding NULs of the console buffer
					startup = append(startup, [2]string{op, hx.Hex(rep)})
				}
			}
			all = append(all, rep...)
			parser.Finish(seq)
		}
		return all
	}
	// COLORTERM=truecolor (what most hosts export, inherited by the child of widgets/term): Vaxis then
	// uses direct colour without any reply saying so; the emulator implements it
	ct := "0"
	if rgb {
		os.Setenv("COLORTERM", "truecolor")
		ct = "1"
		r.Count("session-colorterm")
	} else {
		os.Unsetenv("COLORTERM")
	}
	vx, err := vaxis.New(vaxis.Options{WithConsole: fc, NoSignals: true})
	os.Unsetenv("COLORTERM")
	if err != nil {
		return nil, err
	}
	fc.Take()
	recording = false
	if !attach {
		hfc = fakeconsole.New(w, h, fakeconsole.FromMask(1<<6|1<<7)) // host: RGB + styled underlines, size from the console
		host, err = vaxis.New(vaxis.Options{WithConsole: hfc, NoSignals: true})
		if err != nil {
			return nil, err
		}
	}
	s := &session{emu: emu, host: host, hfc: hfc, r: r, rng: rng, fc: fc, vx: vx, cells: map[vaxis.Cell]int{}, w: w, h: h, ew: false}
	r.Case(id)
	c, _, _, _ := vx.VerifCaps()
	var det []byte
	for _, k := range []string{"sixels", "synchronizedUpdate", "unicodeCore", "colorThemeUpdates", "kittyKeyboard", "kittyGraphics", "rgb",
		"styledUnderlines", "osc4", "osc10", "osc11", "osc176", "reportSizePixels", "reportSizeChars", "inBandResize", "explicitWidth", "noZWJ"} {
		if c[k] {
			det = append(det, '1')
		} else {
			det = append(det, '0')
		}
	}
	// the reply exchange: query by query (model of the emulator's reply writers vs the real replies),
	// then the capabilities Vaxis derived (model of handleSequence/New on the modelled replies vs real)
	// (the exchange does not depend on the history that follows: every 8th session records it)
	if sessions%8 == 0 && withhold == "" {
		if attach {
			bg := host.QueryBackground().Params()
			if len(bg) == 3 {
				r.Emit(fmt.Sprintf("emuqstart %d %d %d %d %d", w, h, bg[0], bg[1], bg[2]), "-")
			} else {
				r.Emit(fmt.Sprintf("emuqstart %d %d -", w, h), "-")
			}
		} else {
			r.Emit(fmt.Sprintf("emuqstart %d %d", w, h), "-")
		}
		for _, q := range startup {
			r.Emit("emuquery "+q[0], q[1])
		}
		r.Count("reply-exchange-recorded")
	}
	sessions++
	if withhold != "" {
		// a timer fired: emu_dialogue_caps (probe timed out: still exact) / emu_dialogue_caps_within (3 s
		// context expired: nothing understood that the emulator does not implement), on the implementation
		r.Emit("emucapsto "+ct+" "+withhold, string(det))
	} else {
		r.Emit("emucaps "+ct, string(det))
	}
	s.ew = c["explicitWidth"]
	if su {
		// styled underlines: implemented by the emulator (4:n, 58:…, 59) but never advertised (no XTGETTCAP /
		// DA3 reply), so never detected; set as a terminal's Smulx reply would (Props/C12Any, CapsOkU)
		vx.VerifC12SetStyledUnderlines(true)
		c["styledUnderlines"] = true
		r.Count("session-styled-underlines")
	}
	r.Emit(fmt.Sprintf("caps %d %d %d %d", b01(c["rgb"]), b01(c["styledUnderlines"]), b01(c["explicitWidth"]), b01(c["synchronizedUpdate"])), "-")
	r.Emit(fmt.Sprintf("size %d %d", w, h), "-")
	var d []string
	for _, g := range alphabet {
		d = append(d, fmt.Sprintf("%s:%d", hx.Hex(g), vx.RenderedWidth(g)))
	}
	r.Emit("dict "+strings.Join(d, " "), "-")
	// pairs of the alphabet the emulator's parser would merge when written back to back (none at present)
	for _, a := range alphabet {
		for _, b := range alphabet {
			if a == "" || b == "" {
				continue
			}
			if cl, _, _, _ := uniseg.FirstGraphemeClusterInString(a+b, -1); cl != a {
				r.Emit(fmt.Sprintf("merges %s %s %s", hx.Hex(a), hx.Hex(b), hx.Hex(cl)), "-")
				r.Emit(fmt.Sprintf("dict %s:%d", hx.Hex(cl), vx.RenderedWidth(cl)), "-")
				r.Count("merges-declared-alphabet")
			}
		}
	}
	if onPrimary {
		// the application's screen is the PRIMARY one (as if it had left the alternate screen: Vaxis itself
		// always enters it): every resize then reflows what the emulator shows (Props/C12Any, LinkedP)
		feedEmu(emu, "\x1b[?1049l")
		r.Count("session-on-primary-screen")
	}
	// the emulator MODEL (composition stream) continues from the real emulator's state after start-up
	r.Emit("emuadopt", emuh.Snapshot(emu.VerifSnapshot()))
	return s, nil
}

func encCell(g string, w int, st vaxis.Style) string {
	return fmt.Sprintf("%s:%d:%d:%d:%d:%d:%d:%s:%s", hx.Hex(g), w, uint32(st.Foreground), uint32(st.Background), uint32(st.UnderlineColor),
		st.UnderlineStyle, st.Attribute, hx.Hex(st.Hyperlink), hx.Hex(st.HyperlinkParams))
}

func (s *session) emuSnapshot() string {
	st := s.emu.VerifSnapshot()
	grid := st.Primary
	if st.AltActive {
		grid = st.Alt
	}
	vis := 0
	for i, n := range st.ModeNames {
		if n == "dectcem" && st.Modes[i] {
			vis = 1
		}
	}
	var rows []string
	for _, row := range grid {
		var cs []string
		for _, c := range row {
			cs = append(cs, encCell(c.Grapheme, c.Width, c.Style))
		}
		rows = append(rows, strings.Join(cs, ","))
	}
	return fmt.Sprintf("%d;%d;%d;%d|%s", st.CursorRow, st.CursorCol, st.CursorStyle, vis, strings.Join(rows, "/"))
}

func (s *session) hostDraw() string {
	win := s.host.Window()
	win.Clear()
	s.emu.Draw(win)
	var rows []string
	for _, row := range s.host.VerifScreenNext() {
		var cs []string
		for _, c := range row {
			cs = append(cs, encCell(c.Grapheme, c.Width, c.Style))
		}
		rows = append(rows, strings.Join(cs, ","))
	}
	return strings.Join(rows, "/")
}

func (s *session) close() {
	s.hfc.Respond = nil // back to the scripted responder (it takes part in the shutdown hand-shake)
	s.vx.Close()
	s.host.Close()
	s.emu.VerifClose()
}

func (s *session) grid() string {
	buf := s.vx.VerifScreenNext()
	var rows []string
	for _, row := range buf {
		var ids []string
		for _, c := range row {
			id, ok := s.cells[c]
			if !ok {
				id = len(s.cells)
				s.cells[c] = id
				s.r.Emit(fmt.Sprintf("cell %d %s %d %d %d %d %d %d %s %s", id, hx.Hex(c.Grapheme), c.Width,
					uint32(c.Foreground), uint32(c.Background), uint32(c.UnderlineColor), c.UnderlineStyle, c.Attribute,
					hx.Hex(c.Hyperlink), hx.Hex(c.HyperlinkParams)), "-")
			}
			ids = append(ids, fmt.Sprint(id))
		}
		rows = append(rows, strings.Join(ids, ","))
	}
	if len(rows) == 0 {
		return "-"
	}
	return strings.Join(rows, "/")
}

func (s *session) render(refresh bool) {
	g := s.grid()
	if refresh {
		s.vx.Refresh()
		s.r.Count("frame-refresh")
	} else {
		s.vx.Render()
		s.r.Count("frame-render")
	}
	s.fc.Take()
	op := "emurender "
	if refresh {
		op = "emurefresh "
	}
	s.r.Emit(op+g, s.emuSnapshot())
	// full emulator state, compared with renderer model -> wire -> emulator model
	s.r.Emit("emustate", emuh.Snapshot(s.emu.VerifSnapshot()))
	s.r.Emit("emudraw", s.hostDraw())
}

func (s *session) resize(w, h int) {
	// the emulator is resized by its host, then the application is told (SIGWINCH)
	if w == s.w && h == s.h {
		return
	}
	s.fc.SetSize(w, h)
	s.hfc.SetSize(w, h)
	s.host.Resize()
	s.host.Render()
	if s.rng.Bool() {
		s.emu.VerifResize(w, h)
		s.r.Count("resize-direct")
	} else {
		// the way a host application does it: its window changed size and Draw resizes the emulator
		win := s.host.Window()
		win.Clear()
		s.emu.Draw(win)
		s.r.Count("resize-by-draw")
	}
	s.vx.Resize()
	s.vx.Render()
	for len(s.vx.Events()) > 0 {
		<-s.vx.Events()
	}
	for len(s.host.Events()) > 0 {
		<-s.host.Events()
	}
	s.w, s.h = w, h
	s.fc.Take()
	// the emulator MODEL executes resize(w, h) from its state; compared with the real emulator's state
	s.r.Emit(fmt.Sprintf("emuresize %d %d", w, h), emuh.Snapshot(s.emu.VerifSnapshot()))
	s.r.Emit(fmt.Sprintf("size %d %d", w, h), "-")
	s.r.Count("frame-resize")
	if s.rng.Bool() {
		s.hideCursor()
	} else {
		s.showCursor(s.rng.Intn(w), s.rng.Intn(h), vaxis.CursorStyle(s.rng.Intn(7)))
	}
}

func (s *session) showCursor(col, row int, style vaxis.CursorStyle) {
	s.vx.ShowCursor(col, row, style)
	s.r.Emit(fmt.Sprintf("showcursor %d %d %d", col, row, int(style)), "-")
}

func (s *session) hideCursor() {
	s.vx.HideCursor()
	s.r.Emit("hidecursor", "-")
}

func randColor(rng *gen.Rng) vaxis.Color {
	switch rng.Intn(7) {
	case 0, 1:
		return 0
	case 2:
		return vaxis.IndexColor(uint8(rng.Intn(8)))
	case 3:
		return vaxis.IndexColor(uint8(8 + rng.Intn(8)))
	case 4:
		return vaxis.IndexColor(uint8(16 + rng.Intn(240)))
	default:
		return vaxis.RGBColor(uint8(rng.Intn(256)), uint8(rng.Intn(256)), uint8(rng.Intn(256)))
	}
}

var links = [][2]string{{"", ""}, {"", ""}, {"http://a", ""}, {"http://a", "id=1"}, {"http://b", "id=2"}, {"", "id=9"}, {"http://c/v;s=4?x=1", "id=3"}, {"http://e", "id=5;x=1"}, {"http://e", ";"}, {"http://a", "id=1;"}}

func randStyle(rng *gen.Rng, r *hx.Run) vaxis.Style {
	if rng.Chance(1, 4) {
		r.Count("style-default")
		return vaxis.Style{}
	}
	st := vaxis.Style{Foreground: randColor(rng), Background: randColor(rng)}
	if rng.Chance(1, 2) {
		st.UnderlineStyle = vaxis.UnderlineStyle(rng.Intn(6))
		st.UnderlineColor = randColor(rng)
	}
	switch rng.Intn(4) {
	case 0:
	case 1:
		st.Attribute = vaxis.AttributeMask(1 << uint(1+rng.Intn(7)))
	case 2:
		st.Attribute = vaxis.AttributeMask(rng.Intn(256))
	case 3:
		st.Attribute = vaxis.AttrBold | vaxis.AttrDim&vaxis.AttributeMask(rng.Intn(256))
	}
	l := gen.Pick(rng, links)
	st.Hyperlink, st.HyperlinkParams = l[0], l[1]
	if l[0] != "" {
		r.Count("style-link")
	}
	r.Count("style-custom")
	return st
}

func (s *session) randCell(styles []vaxis.Style) vaxis.Cell {
	g := gen.Pick(s.rng, alphabet)
	c := vaxis.Cell{Character: vaxis.Character{Grapheme: g}, Style: gen.Pick(s.rng, styles)}
	w := s.vx.RenderedWidth(g)
	switch {
	case w > 0 && s.rng.Chance(1, 4):
		c.Width = w // explicit, correct
		s.r.Count("width-explicit")
	case s.ew && w > 0 && s.rng.Chance(1, 6):
		c.Width = 2 + s.rng.Intn(2) // OSC 66 makes the terminal obey
		s.r.Count("width-explicit-forced")
	default:
		s.r.Count("width-auto")
	}
	switch {
	case w == 0:
		s.r.Count("g-zero-width")
	case w == 1:
		s.r.Count("g-narrow")
	default:
		s.r.Count("g-wide")
	}
	return c
}

func (s *session) drawOps(n int, styles []vaxis.Style) {
	win := s.vx.Window()
	for i := 0; i < n; i++ {
		switch s.rng.Intn(12) {
		case 0:
			win.Clear()
			s.r.Count("op-clear")
		case 1:
			c := s.randCell(styles)
			if s.vx.RenderedWidth(c.Grapheme) > 1 || c.Width > 1 {
				c.Grapheme, c.Width = "b", 0 // a fill with a wide glyph always ends in the last column
			}
			win.Fill(c)
			s.r.Count("op-fill")
		case 2, 3, 4, 5, 6:
			c := s.randCell(styles)
			col := s.rng.Range(-1, s.w)
			if wd := max(s.vx.RenderedWidth(c.Grapheme), c.Width); wd > 1 && col+wd > s.w && s.rng.Chance(9, 10) {
				col = s.w - wd // mostly keep wide glyphs inside the row
				s.r.Count("wide-moved-inside")
			}
			win.SetCell(col, s.rng.Range(-1, s.h), c)
			s.r.Count("op-setcell")
		case 7:
			win.SetStyle(s.rng.Range(-1, s.w), s.rng.Range(-1, s.h), gen.Pick(s.rng, styles))
			s.r.Count("op-setstyle")
		case 8:
			var sb strings.Builder
			for k := s.rng.Intn(6); k >= 0; k-- {
				sb.WriteString(gen.Pick(s.rng, alphabet))
			}
			child := win.New(s.rng.Intn(s.w), s.rng.Intn(s.h), -1, -1)
			child.Print(vaxis.Segment{Text: sb.String(), Style: gen.Pick(s.rng, styles)})
			s.r.Count("op-print")
		case 9:
			s.showCursor(s.rng.Intn(s.w), s.rng.Intn(s.h), vaxis.CursorStyle(s.rng.Intn(7)))
			s.r.Count("op-showcursor")
		case 10:
			s.hideCursor()
			s.r.Count("op-hidecursor")
		case 11:
			// rewrite an existing cell in place with a narrower / wider glyph or same link
			col, row := s.rng.Intn(s.w), s.rng.Intn(s.h)
			win.SetCell(col, row, s.randCell(styles))
			if col+2 < s.w {
				win.SetCell(col+2, row, s.randCell(styles))
			}
			s.r.Count("op-setcell-pair")
		}
	}
}

func history(r *hx.Run, rng *gen.Rng, id string, maxW, maxH, frames int) error {
	w, h := rng.Range(1, maxW), rng.Range(1, maxH)
	if rng.Chance(1, 3) {
		// what a shell left on the primary screen before the application started (reflowed by every resize)
		var sb strings.Builder
		for k := rng.Intn(12); k >= 0; k-- {
			switch rng.Intn(6) {
			case 0:
				sb.WriteString("\r\n")
			case 1:
				fmt.Fprintf(&sb, "\x1b[%dm", gen.Pick(rng, []int{0, 1, 4, 7, 31, 44, 92, 103}))
			default:
				sb.WriteString(gen.Pick(rng, alphabet))
			}
		}
		preFeed = sb.String()
		r.Count("history-with-primary-content")
	}
	onPrimary = rng.Chance(1, 8)
	s, err := newSession(r, rng, id, w, h, rng.Bool(), rng.Bool(), rng.Bool(), rng.Bool(), rng.Bool())
	preFeed = ""
	onPrimary = false
	if err != nil {
		return err
	}
	defer s.close()
	styles := []vaxis.Style{{}}
	for i := 0; i < 3; i++ {
		styles = append(styles, randStyle(rng, r))
	}
	for f := 0; f < frames; f++ {
		s.drawOps(rng.Intn(6), styles)
		switch rng.Intn(10) {
		case 0:
			s.render(true)
		case 1:
			if _, _, _, vis := s.vx.VerifC11CursorNext(); vis {
				r.Count("resize-with-visible-cursor")
			}
			s.resize(rng.Range(1, maxW), rng.Range(1, maxH))
			if rng.Chance(1, 4) {
				// a second resize before the application has rendered (a segment without frames)
				s.resize(rng.Range(1, maxW), rng.Range(1, maxH))
				r.Count("resize-twice-without-frame")
			}
			s.drawOps(rng.Intn(4), styles)
			s.render(false)
		default:
			s.render(false)
		}
	}
	return nil
}

// scenario runs a fixed list of frames: each frame is a list of (col,row,cell) writes (after an
// optional Clear) followed by a Render.
type write struct {
	col, row int
	c        vaxis.Cell
}

func scenario(r *hx.Run, rng *gen.Rng, id string, w, h int, rgb, su, ew, sync bool, frames [][]write, clearFirst []bool) error {
	s, err := newSession(r, rng, id, w, h, rgb, su, ew, sync, true)
	if err != nil {
		return err
	}
	defer s.close()
	for i, f := range frames {
		win := s.vx.Window()
		if clearFirst[i] {
			win.Clear()
		}
		for _, wr := range f {
			win.SetCell(wr.col, wr.row, wr.c)
		}
		s.render(false)
	}
	return nil
}

func ch(g string) vaxis.Cell { return vaxis.Cell{Character: vaxis.Character{Grapheme: g}} }

func run(r *hx.Run) error {
	rng := gen.New(r.Seed)
	if r.Replay != "" {
		return fmt.Errorf("replay of C01 cases: re-run with the seed recorded in the replay file")
	}
	// Bounded-exhaustive two-frame histories on a 1-row screen: frame 1 places two glyphs,
	// frame 2 (after a Clear or not) places two more. 5 graphemes × 3 styles.
	gs := []string{"a", "世", "", " ", "\U0001F525"}
	sts := []vaxis.Style{{}, {Foreground: vaxis.IndexColor(1), Hyperlink: "http://a"}, {Attribute: vaxis.AttrBold, Background: vaxis.RGBColor(1, 2, 3), Hyperlink: "http://a"},
		{UnderlineStyle: vaxis.UnderlineCurly, UnderlineColor: vaxis.RGBColor(9, 8, 7), Hyperlink: "http://a", HyperlinkParams: "id=1;x"}}
	n := 0
	cols := 4
	limit := 400
	if r.Thorough {
		limit = 1 << 30
	}
	for _, g1 := range gs {
		for _, g2 := range gs {
			for c1 := 0; c1 < cols; c1++ {
				for si := range sts {
					for _, clr := range []bool{true, false} {
						for c2 := 0; c2 < cols; c2++ {
							if n >= limit && rng.Intn(8) != 0 {
								continue
							}
							a := ch(g1)
							a.Style = sts[si]
							b := ch(g2)
							b.Style = sts[(si+1)%len(sts)]
							b2 := ch(g2)
							b2.Style = sts[si]
							frames := [][]write{{{c1, 0, a}, {(c1 + 2) % cols, 0, b2}}, {{c2, 0, b}}}
							if err := scenario(r, rng, fmt.Sprintf("ex-%d", n), cols, 1, n%2 == 0, n%3 == 0, false, n%5 == 0, frames, []bool{false, clr}); err != nil {
								return err
							}
							n++
							r.Count("exhaustive-2frame")
						}
					}
				}
			}
		}
	}
	// F112b (known finding): a ';' in the hyperlink parameters ends the parameter field early
	{
		c := ch("a")
		c.Style = vaxis.Style{Hyperlink: "http://d", HyperlinkParams: "a;b"}
		if err := scenario(r, rng, "lp-semicolon", 2, 1, false, false, false, false, [][]write{{{0, 0, c}}}, []bool{false}); err != nil {
			return err
		}
		r.Count("scenario-lp-semicolon")
	}
	// F112d (known finding): graphemes that are separate clusters on their own but ONE cluster when
	// written next to each other (regional indicators, Hangul jamo L + V, emoji + ZWJ emoji)
	for i, pair := range [][2]string{{"\U0001F1E9", "\U0001F1EA"}, {"\u1100", "\u1161"}, {"\U0001F469", "\u200d\U0001F680"}} {
		s, err := newSession(r, rng, fmt.Sprintf("merge-%d", i), 6, 1, false, false, false, false, true)
		if err != nil {
			return err
		}
		r.Emit(fmt.Sprintf("dict %s:%d %s:%d", hx.Hex(pair[0]), s.vx.RenderedWidth(pair[0]), hx.Hex(pair[1]), s.vx.RenderedWidth(pair[1])), "-")
		// what the emulator's parser does with the two graphemes written back to back (uniseg, the
		// parameter `merges` / `cat` of Model.C12Compose.clusterToks): the composition stream then runs
		// the clustering wire opsOfToksM and is compared with the real emulator also in these cases
		if cl, _, _, _ := uniseg.FirstGraphemeClusterInString(pair[0]+pair[1], -1); cl != pair[0] {
			r.Emit(fmt.Sprintf("merges %s %s %s", hx.Hex(pair[0]), hx.Hex(pair[1]), hx.Hex(cl)), "-")
			r.Emit(fmt.Sprintf("dict %s:%d", hx.Hex(cl), s.vx.RenderedWidth(cl)), "-")
			r.Count("merges-declared")
		}
		win := s.vx.Window()
		w0 := s.vx.RenderedWidth(pair[0])
		if w0 < 1 {
			w0 = 1
		}
		win.SetCell(0, 0, ch(pair[0]))
		win.SetCell(w0, 0, ch(pair[1]))
		win.SetCell(5, 0, ch("z"))
		s.render(false)
		s.close()
		r.Count("scenario-merge")
	}
	// F112c (fixed, aefad78; kept as a regression): a shell left a coloured line on the primary screen; the
	// application (alternate screen) draws, the host resizes the emulator, the application redraws.
	// Further resize scenarios: the reflow of the primary screen ends in the pending-wrap column
	// (resize-wrap), scrolls (resize-scroll), leaves a hyperlinked / bold pen candidate (resize-link).
	for _, sc := range []struct {
		id, pre    string
		w, h, nw, nh int
	}{
		{"resize-pen", "\x1b[44mabcd\r\n\x1b[m", 4, 2, 5, 2},
		{"resize-wrap", "abcdefgh", 4, 3, 4, 2},
		{"resize-scroll", "\x1b[1;31ma\r\nb\r\nc\r\nd\x1b[m", 3, 4, 2, 2},
		{"resize-link", "\x1b]8;id=1;http://x\x1b\\\x1b[4;48;5;9mlink\x1b[m\x1b]8;;\x1b\\\r\nz", 6, 2, 3, 3},
		{"resize-grow", "\x1b[7mab\r\ncd\r\n\x1b[mef", 2, 3, 7, 4},
	} {
		preFeed = sc.pre
		s, err := newSession(r, rng, sc.id, sc.w, sc.h, false, false, false, false, true)
		preFeed = ""
		if err != nil {
			return err
		}
		win := s.vx.Window()
		win.SetCell(0, sc.h-1, ch("y"))
		s.render(false)
		s.resize(sc.nw, sc.nh)
		win = s.vx.Window()
		win.SetCell(0, 0, ch("x"))
		s.render(false)
		win.SetCell(sc.nw-1, sc.nh-1, ch("z"))
		s.render(false)
		s.resize(sc.w, sc.h)
		win = s.vx.Window()
		win.SetCell(0, 0, ch("w"))
		s.render(false)
		s.close()
		r.Count("scenario-" + sc.id)
	}
	// styled underlines (never detected inside the emulator, implemented by it): every underline style with
	// every class of underline colour, with and without direct colour; a diff frame that changes only the
	// underline colour / only the style; back to no underline
	for i, rgb := range []bool{false, true} {
		s, err := newSession(r, rng, fmt.Sprintf("su-%d", i), 6, 2, rgb, true, false, false, true)
		if err != nil {
			return err
		}
		ulc := []vaxis.Color{0, vaxis.IndexColor(3), vaxis.IndexColor(12), vaxis.IndexColor(200), vaxis.RGBColor(10, 200, 30), vaxis.IndexColor(0)}
		win := s.vx.Window()
		for k := 0; k < 6; k++ {
			c := ch("u")
			c.Style = vaxis.Style{UnderlineStyle: vaxis.UnderlineStyle(k), UnderlineColor: ulc[k]}
			win.SetCell(k, 0, c)
			c.Style = vaxis.Style{UnderlineStyle: vaxis.UnderlineStyle(5 - k), UnderlineColor: ulc[(k+2)%6], Attribute: vaxis.AttrBold}
			win.SetCell(k, 1, c)
		}
		s.render(false)
		for k := 0; k < 6; k++ {
			c := ch("u")
			c.Style = vaxis.Style{UnderlineStyle: vaxis.UnderlineStyle(k), UnderlineColor: ulc[(k+1)%6]}
			win.SetCell(k, 0, c)
			c.Style = vaxis.Style{UnderlineStyle: vaxis.UnderlineStyle((6 - k) % 6), UnderlineColor: ulc[(k+2)%6], Attribute: vaxis.AttrBold}
			win.SetCell(k, 1, c)
		}
		s.render(false)
		win.Clear()
		win.SetCell(5, 1, ch("z"))
		s.render(false)
		s.close()
		r.Count("scenario-styled-underlines")
	}
	// the timers of New(): the cursor-position report is lost (the 50 ms timer of the probe fires; the
	// capabilities are still exact), the DA1 reply is lost (the 3 s context expires; the capabilities are a
	// subset: nothing is understood that the emulator does not implement); a frame is rendered afterwards
	for i, wh := range []string{"cpr", "da1"} {
		withhold = wh
		s, err := newSession(r, rng, "timer-"+wh, 5, 2, i == 1, false, false, false, true)
		withhold = ""
		if err != nil {
			return err
		}
		win := s.vx.Window()
		c := ch("t")
		c.Style = vaxis.Style{Foreground: vaxis.RGBColor(200, 10, 30), UnderlineStyle: vaxis.UnderlineCurly, Attribute: vaxis.AttrBold}
		win.SetCell(1, 1, c)
		win.SetCell(3, 0, ch("世"))
		s.render(false)
		s.close()
		r.Count("scenario-timer-" + wh)
	}
	// the application on the PRIMARY screen across resizes: what a shell left there is reflowed by every
	// resize and overwritten by the refresh frame
	for i, sc := range []struct {
		pre          string
		w, h, nw, nh int
	}{
		{"\x1b[44mabcd\r\n\x1b[mefgh", 4, 2, 5, 2},
		{"abcdefghijkl", 4, 3, 3, 2},
		{"\x1b[1;4;31ma\r\n世b\r\nc\r\nd\x1b[m", 3, 4, 7, 2},
	} {
		preFeed = sc.pre
		onPrimary = true
		s, err := newSession(r, rng, fmt.Sprintf("primary-%d", i), sc.w, sc.h, i%2 == 0, i == 2, false, false, true)
		preFeed = ""
		onPrimary = false
		if err != nil {
			return err
		}
		win := s.vx.Window()
		win.SetCell(0, sc.h-1, ch("y"))
		s.render(true)
		s.resize(sc.nw, sc.nh)
		win = s.vx.Window()
		win.SetCell(0, 0, ch("x"))
		s.render(false)
		win.SetCell(sc.nw-1, sc.nh-1, ch("世"))
		s.render(false)
		s.resize(sc.w, sc.h)
		win = s.vx.Window()
		win.SetCell(0, 0, ch("w"))
		s.render(false)
		s.close()
		r.Count("scenario-primary-screen")
	}
	// Random histories
	hist, maxW, maxH, frames := 300, 8, 4, 6
	if r.Thorough {
		hist, maxW, maxH, frames = 6000, 30, 10, 8
	}
	for i := 0; i < hist; i++ {
		mw, mh := maxW, maxH
		if i%3 == 0 {
			mw, mh = 4, 2
		}
		if err := history(r, rng, fmt.Sprintf("h-%d", i), mw, mh, frames); err != nil {
			return err
		}
	}
	r.Note("alphabet", alphabet)
	return nil
}
