package main

// Streams in which the child-selected modes are established by the child's own output: the bytes of a
// script (DECSET/DECRST of 1, 1000, 1002, 1003, 1006, 1007, 1049, 2004 and distractors, DECKPAM, DECKPNM,
// RIS) go through the real ansi parser and Model.update (hooks VerifNew / VerifFeed of the C05 file);
// then a key, paste boundary or mouse event is forwarded with the real Model.Update.

import (
	"fmt"
	"strconv"
	"strings"

	"git.sr.ht/~rockorager/vaxis"
	"git.sr.ht/~rockorager/vaxis/ansi"
	"git.sr.ht/~rockorager/vaxis/widgets/term"
	"verifharness/gen"
	"verifharness/hx"
)

// A script is a list of tokens, one per sequence the child writes (see Driver/C13.lean parseScript?):
//   s1.1006  CSI ? 1 ; 1006 h      r1000  CSI ? 1000 l      pam  ESC =      pnm  ESC >      ris  ESC c
//   c<label hex>:<params>   any other CSI; label = private marker / intermediates + final as the parser reports
//                           them (c68:1000 = CSI 1000 h, ANSI SM; c2170: = CSI ! p, DECSTR)
//   e<label hex>            any other ESC (e37 = DECSC, e38 = DECRC, e2842 = ESC ( B)
//   t<hex>                  text / C0 bytes (no ESC)
//   o<hex>                  an OSC string with that payload
//   z<w>x<h>                the widget is resized
type scriptStep struct {
	bytes  string
	resize bool
	w, h   int
}

func unhex(h string) (string, bool) {
	if len(h)%2 != 0 {
		return "", false
	}
	var sb strings.Builder
	for i := 0; i < len(h); i += 2 {
		v, err := strconv.ParseUint(h[i:i+2], 16, 8)
		if err != nil {
			return "", false
		}
		sb.WriteByte(byte(v))
	}
	return sb.String(), true
}

func scriptSteps(script string) ([]scriptStep, bool) {
	if script == "-" || script == "" {
		return nil, true
	}
	var steps []scriptStep
	add := func(b string) { steps = append(steps, scriptStep{bytes: b}) }
	for _, t := range strings.Split(script, ",") {
		switch {
		case t == "pam":
			add("\x1b=")
		case t == "pnm":
			add("\x1b>")
		case t == "ris":
			add("\x1bc")
		case len(t) > 1 && (t[0] == 's' || t[0] == 'r'):
			var ns []string
			for _, n := range strings.Split(t[1:], ".") {
				if _, err := strconv.Atoi(n); err != nil {
					return nil, false
				}
				ns = append(ns, n)
			}
			fin := "h"
			if t[0] == 'r' {
				fin = "l"
			}
			add("\x1b[?" + strings.Join(ns, ";") + fin)
		case len(t) > 1 && t[0] == 'c':
			p := strings.SplitN(t[1:], ":", 2)
			if len(p) != 2 {
				return nil, false
			}
			lab, ok := unhex(p[0])
			if !ok || lab == "" {
				return nil, false
			}
			var ns []string
			if p[1] != "" && p[1] != "-" {
				for _, n := range strings.Split(p[1], ".") {
					if _, err := strconv.ParseUint(n, 10, 64); err != nil {
						return nil, false
					}
					ns = append(ns, n)
				}
			}
			// private markers (< = > ?) precede the parameters, intermediates (0x20-0x2F) follow them
			pre, post := "", ""
			for i := 0; i < len(lab)-1; i++ {
				if lab[i] >= 0x3C && lab[i] <= 0x3F {
					pre += string(lab[i])
				} else if lab[i] >= 0x20 && lab[i] <= 0x2F {
					post += string(lab[i])
				} else {
					return nil, false
				}
			}
			fin := lab[len(lab)-1]
			if fin < 0x40 || fin > 0x7E {
				return nil, false
			}
			add("\x1b[" + pre + strings.Join(ns, ";") + post + string(fin))
		case len(t) > 1 && t[0] == 'e':
			lab, ok := unhex(t[1:])
			if !ok || lab == "" {
				return nil, false
			}
			add("\x1b" + lab)
		case len(t) > 1 && t[0] == 't':
			b, ok := unhex(t[1:])
			if !ok || strings.ContainsAny(b, "\x1b\x9b\x90\x9d\x9e\x9f\x98") {
				return nil, false
			}
			add(b)
		case len(t) > 1 && t[0] == 'o':
			b, ok := unhex(t[1:])
			if !ok {
				return nil, false
			}
			add("\x1b]" + b + "\x1b\\")
		case len(t) > 1 && t[0] == 'z':
			p := strings.Split(t[1:], "x")
			if len(p) != 2 {
				return nil, false
			}
			w, e1 := strconv.Atoi(p[0])
			hh, e2 := strconv.Atoi(p[1])
			if e1 != nil || e2 != nil || w < 1 || hh < 1 || w > 300 || hh > 300 {
				return nil, false
			}
			steps = append(steps, scriptStep{resize: true, w: w, h: hh})
		default:
			return nil, false
		}
	}
	return steps, true
}

// childTerm makes a terminal and lets the "child" write the script to it. Every token must reach the
// emulator as exactly the sequence it names (checked: one CSI / ESC with that label per c/e/s/r token).
func childTerm(script string) (*term.Model, bool) {
	steps, ok := scriptSteps(script)
	if !ok {
		return nil, false
	}
	vt := term.VerifNew(80, 24)
	for _, st := range steps {
		if st.resize {
			vt.VerifResize(st.w, st.h)
			continue
		}
		for _, seq := range parse(st.bytes) {
			if _, isEOF := seq.(ansi.EOF); isEOF {
				continue
			}
			vt.VerifFeed(seq)
		}
	}
	vt.VerifTakeReplies()
	return vt, true
}

// tokenFaithful reports whether the real parser turns the bytes of a c/e token into exactly one CSI / ESC
// with the token's label and parameters (so that the driver's reading of the token is what the emulator saw).
func tokenFaithful(t string) bool {
	steps, ok := scriptSteps(t)
	if !ok || len(steps) != 1 || steps[0].resize {
		return false
	}
	var seqs []ansi.Sequence
	for _, seq := range parse(steps[0].bytes) {
		if _, isEOF := seq.(ansi.EOF); !isEOF {
			seqs = append(seqs, seq)
		}
	}
	if len(seqs) != 1 {
		return false
	}
	switch t[0] {
	case 'c':
		c, ok := seqs[0].(ansi.CSI)
		if !ok {
			return false
		}
		p := strings.SplitN(t[1:], ":", 2)
		lab, _ := unhex(p[0])
		if string(c.Intermediate)+string(c.Final) != lab {
			return false
		}
		var want []string
		if p[1] != "" && p[1] != "-" {
			want = strings.Split(p[1], ".")
		}
		if len(c.Parameters) != len(want) {
			return false
		}
		for i, pm := range c.Parameters {
			if len(pm) == 0 || strconv.Itoa(pm[0]) != want[i] {
				return false
			}
		}
		return true
	case 'e':
		e, ok := seqs[0].(ansi.ESC)
		lab, _ := unhex(t[1:])
		return ok && string(e.Intermediate)+string(e.Final) == lab
	}
	return true
}

func forward(vt *term.Model, ev vaxis.Event) (out string, panicked bool) {
	panicked, _ = hx.Guard(func() {
		vt.Update(ev)
		out = vt.VerifTakeReplies()
	})
	return
}

func childKeyRes(vt *term.Model, k vaxis.Key) (string, *uniSet) {
	u := uniSet{}
	u.addKey(k)
	u.add(k.Keycode-0x60, k.Keycode-0x40)
	out, p := forward(vt, k)
	if p {
		return "panic", &u
	}
	seqs, st := reparse(out)
	dk := "-"
	if len(seqs) > 0 {
		if _, ok := seqTok(seqs[0]); ok {
			if c, isCSI := seqs[0].(ansi.CSI); !isCSI || len(c.Intermediate) == 0 {
				key, res := decodeGuard(seqs[0])
				dk = res
				u.addKey(key)
				u.addSeq(seqs[0])
			}
		}
	}
	u.addStr(out)
	return fmt.Sprintf("%s|%s|%s", runesTok(out), st, dk), &u
}

func childMouseRes(vt *term.Model, m vaxis.Mouse) string {
	out, p := forward(vt, m)
	if p {
		return "panic"
	}
	// which part handleMouse wrote itself and which part it returned is not observable through
	// Update; report everything as written unless it is a mouse report (returned string)
	ret, written := "", out
	if strings.HasPrefix(out, "\x1b[<") || strings.HasPrefix(out, "\x1b[M") {
		ret, written = out, ""
	}
	seqs, st := reparse(out)
	pm := "-"
	if len(seqs) > 0 {
		if c, ok := seqs[0].(ansi.CSI); ok && (c.Final == 'M' || c.Final == 'm') {
			var got vaxis.Mouse
			var okp bool
			pp, _ := hx.Guard(func() { got, okp = vaxis.VerifC09ParseMouseEvent(c) })
			if pp {
				pm = "panic"
			} else if okp {
				pm = mouseTok(got)
			}
		}
	}
	return fmt.Sprintf("%s|%s|%s|%s", runesTok(ret), runesTok(written), st, pm)
}

func childPasteRes(vt *term.Model, which string) string {
	var ev vaxis.Event = vaxis.PasteStartEvent{}
	if which != "start" {
		ev = vaxis.PasteEndEvent{}
	}
	out, p := forward(vt, ev)
	if p {
		return "panic"
	}
	_, st := reparse(out)
	return runesTok(out) + "|" + st
}

var childKeys = []vaxis.Key{
	{Keycode: vaxis.KeyUp}, {Keycode: vaxis.KeyDown}, {Keycode: vaxis.KeyHome}, {Keycode: vaxis.KeyUp, Modifiers: vaxis.ModShift},
	{Keycode: vaxis.KeyF01}, {Keycode: vaxis.KeyInsert}, {Keycode: 'a', Text: "a"}, {Keycode: vaxis.KeyUp, EventType: vaxis.EventRelease},
	{Keycode: vaxis.KeyKeyPadEnter}, {Keycode: vaxis.KeyKeyPad5, Modifiers: vaxis.ModNumLock, Text: "5"},
	{Keycode: vaxis.KeyKeyPad5}, {Keycode: vaxis.KeyKeyPadLeft}, {Keycode: vaxis.KeyKeyPadBegin},
}

var childMice = []vaxis.Mouse{
	{Button: vaxis.MouseLeftButton, Col: 3, Row: 4, EventType: vaxis.EventPress},
	{Button: vaxis.MouseLeftButton, Col: 3, Row: 4, EventType: vaxis.EventRelease},
	{Button: vaxis.MouseLeftButton, Col: 5, Row: 4, EventType: vaxis.EventMotion},
	{Button: vaxis.MouseNoButton, Col: 6, Row: 4, EventType: vaxis.EventMotion},
	{Button: vaxis.MouseWheelUp, Col: 0, Row: 0, EventType: vaxis.EventPress},
	{Button: vaxis.MouseWheelDown, Col: 94, Row: 222, EventType: vaxis.EventPress},
}

func (h *H) childCase(script string, class string) {
	vt, ok := childTerm(script)
	if !ok {
		return
	}
	defer vt.VerifClose()
	for _, k := range childKeys {
		res, u := childKeyRes(vt, k)
		h.r.Emit(fmt.Sprintf("ckey %s %s %s", u.tok(), script, keyTok(k)), res)
	}
	for _, m := range childMice {
		h.r.Emit(fmt.Sprintf("cmouse %s %s", script, mouseTok(m)), childMouseRes(vt, m))
	}
	for _, w := range []string{"start", "end"} {
		h.r.Emit(fmt.Sprintf("cpaste %s %s", script, w), childPasteRes(vt, w))
	}
	h.r.Add("child-script:"+class, len(childKeys)+len(childMice)+2)
}

func (h *H) childStreams() {
	nums := []int{1, 1000, 1002, 1003, 1006, 1007, 1049, 2004}
	distract := []int{2, 7, 25, 12, 1004, 0}
	// systematic: every mode alone, then reset / RIS / alternate-screen round trip after it
	h.childCase("-", "systematic")
	h.childCase("ris", "systematic")
	for _, t := range []string{"pam", "pnm"} {
		h.childCase(t, "systematic")
		h.childCase(t+",ris", "systematic")
		h.childCase("pam,"+t, "systematic")
	}
	for _, n := range nums {
		s := fmt.Sprintf("s%d", n)
		h.childCase(s, "systematic")
		h.childCase(s+",ris", "systematic")
		h.childCase(s+fmt.Sprintf(",r%d", n), "systematic")
		h.childCase(s+",s1049,r1049", "systematic")
		h.childCase("s1049,"+s+",ris", "systematic")
		h.childCase("ris,"+s, "systematic")
		for _, m := range nums {
			if m != n {
				h.childCase(fmt.Sprintf("s%d.%d", n, m), "systematic-pairs")
				h.childCase(fmt.Sprintf("s%d,s%d,r%d", n, m, n), "systematic-pairs")
				h.childCase(fmt.Sprintf("s%d.%d,ris", n, m), "systematic-pairs")
			}
		}
	}
	h.childCase("s1,s1002.1006,s2004,ris", "systematic")
	h.childCase("s1.1000.1002.1003.1006.1007.1049.2004,pam,ris", "systematic")
	h.childNoise(nums)
	// random scripts
	n := 1200
	if h.r.Thorough {
		n = 12000
	}
	rng := h.rng.Fork(13)
	for i := 0; i < n; i++ {
		var toks []string
		for j := rng.Range(1, 8); j > 0; j-- {
			switch rng.Intn(14) {
			case 12, 13:
				toks = append(toks, gen.Pick(rng, noisePool))
			case 0:
				toks = append(toks, "pam")
			case 1:
				toks = append(toks, "pnm")
			case 2:
				toks = append(toks, "ris")
			default:
				pre := "s"
				if rng.Intn(3) == 0 {
					pre = "r"
				}
				var ns []string
				for c := rng.Range(1, 3); c > 0; c-- {
					if rng.Intn(6) == 0 {
						ns = append(ns, strconv.Itoa(gen.Pick(rng, distract)))
					} else {
						ns = append(ns, strconv.Itoa(gen.Pick(rng, nums)))
					}
				}
				toks = append(toks, pre+strings.Join(ns, "."))
			}
		}
		h.childCase(strings.Join(toks, ","), "random")
	}
	h.r.Note("child-selected modes: every mode number alone, in pairs, after RIS and across 1049", true)
}

func hexOf(b string) string {
	var sb strings.Builder
	for i := 0; i < len(b); i++ {
		fmt.Fprintf(&sb, "%02x", b[i])
	}
	return sb.String()
}

// Output of the child that selects NO input mode (Spec.childOpOf = none): ANSI SM / RM with the numbers of
// the private modes, DECSTR, XTSAVE / XTRESTORE, DECSC / DECRC (both forms), charsets, cursor movement,
// erasing, scrolling, SGR, DA / DSR / DECRQM requests, text with line feeds and wide / combining
// characters, OSC title / hyperlink, window resizes, mode numbers beyond the clamp (2^32 + n).
var noisePool = []string{
	"c68:1000", "c68:1002.1006", "c68:1", "c68:2004", "c68:1049", "c68:4", "c68:20", "c6c:1000", "c6c:1", "c6c:2004", "c6c:1049", "c6c:4",
	"c2170:", "c3f73:1", "c3f72:1", "c3f73:1000.2004", "c3f72:1000.2004", "c73:", "c75:", "e37", "e38",
	"e2830", "e2842", "e2930", "e4e", "e44", "e45", "e4d", "e48", "e2338", "e5c",
	"c48:5.10", "c48:", "c41:3", "c42:200", "c43:7", "c44:1", "c4a:2", "c4a:", "c4b:1", "c4c:2", "c4d:1", "c50:3", "c40:2", "c58:4",
	"c53:2", "c54:1", "c72:2.10", "c72:", "c67:3", "c49:2", "c5a:1", "c62:3", "c64:4", "c47:9", "c60:2", "c61:1", "c65:1", "c45:1", "c46:1",
	"c6d:1.31", "c6d:38.5.200", "c6d:0", "c6d:", "c63:", "c3e63:", "c6e:6", "c6e:5", "c3f2470:1", "c3f2470:2004", "c2071:4", "c2470:4",
	"c3f68:4294968296", "c3f6c:4294968296", "c3f68:4294967297", "c3f68:65535", "c3f6c:66536", "c3f68:47", "c3f68:1047", "c3f68:1048", "c3f6c:1047",
	"c3f68:9", "c3f68:1001", "c3f68:1004", "c3f68:1005", "c3f68:1015", "c3f68:2026", "c3f6c:1005", "c3e68:1", "c3c68:1000", "c3d68:2004",
	"t" + hexOf("hello"), "t" + hexOf("a\r\nb\r\nc"), "t" + hexOf("\n\n\n\n\n\n\n\n\n\n\n\n\n\n\n\n\n\n\n\n\n\n\n\n\n\n"),
	"t" + hexOf("\t\b\a\x0e\x0f\x0b\x0c"), "t" + hexOf("世界e\u0301👨\u200d👩"), "t" + hexOf(strings.Repeat("x", 200)),
	"o" + hexOf("0;title"), "o" + hexOf("8;;http://example.com"), "o" + hexOf("8;;"), "o" + hexOf("777;notify;a;b"), "o" + hexOf("9;hi"),
	"z40x10", "z80x24", "z1x1", "z132x50", "z3x2",
}

// childNoise: the modes must be selected by the mode sequences only, whatever else the child writes.
func (h *H) childNoise(nums []int) {
	for _, t := range noisePool {
		if (t[0] == 'c' || t[0] == 'e') && !tokenFaithful(t) {
			h.r.Count("child-noise-token-not-faithful:" + t)
			continue
		}
		// alone; after everything was enabled; between enabling and RIS; after RIS
		all := "s1.1000.1002.1003.1006.1007.1049.2004,pam"
		h.childCase(t, "noise")
		h.childCase(all+","+t, "noise")
		h.childCase(all+","+t+",ris", "noise")
		h.childCase(all+",ris,"+t, "noise")
	}
	// ANSI SM / RM of every private number: selects nothing, clears nothing
	for _, n := range nums {
		h.childCase(fmt.Sprintf("c68:%d", n), "noise-ansi-sm-rm")
		h.childCase(fmt.Sprintf("s%d,c6c:%d", n, n), "noise-ansi-sm-rm")
		h.childCase(fmt.Sprintf("s%d,c2170:", n), "noise-decstr")
		h.childCase(fmt.Sprintf("s%d,e37,r%d,e38", n, n), "noise-decsc-decrc")
		h.childCase(fmt.Sprintf("e37,s%d,e38", n), "noise-decsc-decrc")
		h.childCase(fmt.Sprintf("s%d,z40x10", n), "noise-resize")
		h.childCase(fmt.Sprintf("s%d,s1049,z40x10,r1049", n), "noise-resize")
	}
	// sessions of a full-screen program: start, work, then a clean exit / a crash followed by `reset`
	start := "s1049,s1,pam,s2004,s1002.1006,c4a:2,c48:,t" + hexOf("~\r\n~\r\n~") + ",c48:24.1,c6d:7,t" + hexOf("-- INSERT --") + ",c6d:0"
	work := "c48:3.5,t" + hexOf("typing") + ",c4b:,c4c:1,c53:1,e37,c48:1.1,e38,o" + hexOf("0;vim") + ",z100x30,c72:1.29"
	h.childCase(start, "session")
	h.childCase(start+","+work, "session")
	h.childCase(start+","+work+",r1002.1006,r2004,pnm,r1,r1049", "session-clean-exit")
	h.childCase(start+","+work+",ris", "session-crash-reset")
	h.childCase(start+","+work+",ris,t"+hexOf("$ ")+",c6d:0", "session-crash-reset")
	h.childCase(start+","+work+",r1049", "session-left-alt-screen-only")
	h.childCase(start+","+work+",c2170:", "session-decstr-only")
	h.childCase(start+","+work+",ris,"+start, "session-restart")
	h.r.Note("child streams with other output between the mode sequences (SM/RM, DECSTR, DECSC/DECRC, text, movement, OSC, resizes, sessions)", true)
}

func (h *H) childReplay(op []string) (string, bool) {
	switch op[0] {
	case "ckey":
		if len(op) != 4 {
			return "", false
		}
		k, ok := untokKey(op[3])
		vt, ok2 := childTerm(op[2])
		if !ok || !ok2 {
			return "", false
		}
		defer vt.VerifClose()
		res, _ := childKeyRes(vt, k)
		return res, true
	case "cmouse":
		if len(op) != 3 {
			return "", false
		}
		p := strings.Split(op[2], ",")
		var v [5]int
		if len(p) != 5 {
			return "", false
		}
		for i := range v {
			x, e := strconv.Atoi(p[i])
			if e != nil {
				return "", false
			}
			v[i] = x
		}
		vt, ok := childTerm(op[1])
		if !ok {
			return "", false
		}
		defer vt.VerifClose()
		return childMouseRes(vt, vaxis.Mouse{Button: vaxis.MouseButton(v[0]), Col: v[1], Row: v[2], EventType: vaxis.EventType(v[3]), Modifiers: vaxis.ModifierMask(v[4])}), true
	case "cpaste":
		if len(op) != 3 {
			return "", false
		}
		vt, ok := childTerm(op[1])
		if !ok {
			return "", false
		}
		defer vt.VerifClose()
		return childPasteRes(vt, op[2]), true
	}
	return "", false
}
