package main

// Streams in which the child-selected modes are established by the child's own output: the bytes of a
// script (DECSET/DECRST of 1, 1000, 1002, 1003, 1006, 1007, 1049, 2004 and distractors, DECKPAM, DECKPNM,
// RIS) go through the real ansi parser and Model.update (hooks VerifNew / VerifFeed of the C05 file);
// then a key, paste boundary or mouse event is forwarded with the real Model.Update.

import (
	"fmt"
	"strconv"
	"strings"

	"git.sr.ht/~rockorager/vaxis"
	"git.sr.ht/~rockorager/vaxis/ansi"
	"git.sr.ht/~rockorager/vaxis/widgets/term"
	"verifharness/gen"
	"verifharness/hx"
)

// scriptBytes renders the script tokens (s1.1006 r1000 pam pnm ris) as the bytes a child writes.
func scriptBytes(script string) (string, bool) {
	if script == "-" || script == "" {
		return "", true
	}
	var sb strings.Builder
	for _, t := range strings.Split(script, ",") {
		switch {
		case t == "pam":
			sb.WriteString("\x1b=")
		case t == "pnm":
			sb.WriteString("\x1b>")
		case t == "ris":
			sb.WriteString("\x1bc")
		case len(t) > 1 && (t[0] == 's' || t[0] == 'r'):
			var ns []string
			for _, n := range strings.Split(t[1:], ".") {
				if _, err := strconv.Atoi(n); err != nil {
					return "", false
				}
				ns = append(ns, n)
			}
			fin := "h"
			if t[0] == 'r' {
				fin = "l"
			}
			sb.WriteString("\x1b[?" + strings.Join(ns, ";") + fin)
		default:
			return "", false
		}
	}
	return sb.String(), true
}

// childTerm makes a terminal and lets the "child" write the script to it.
func childTerm(script string) (*term.Model, bool) {
	b, ok := scriptBytes(script)
	if !ok {
		return nil, false
	}
	vt := term.VerifNew(80, 24)
	for _, seq := range parse(b) {
		if _, isEOF := seq.(ansi.EOF); isEOF {
			continue
		}
		vt.VerifFeed(seq)
	}
	vt.VerifTakeReplies()
	return vt, true
}

func forward(vt *term.Model, ev vaxis.Event) (out string, panicked bool) {
	panicked, _ = hx.Guard(func() {
		vt.Update(ev)
		out = vt.VerifTakeReplies()
	})
	return
}

func childKeyRes(vt *term.Model, k vaxis.Key) (string, *uniSet) {
	u := uniSet{}
	u.addKey(k)
	u.add(k.Keycode-0x60, k.Keycode-0x40)
	out, p := forward(vt, k)
	if p {
		return "panic", &u
	}
	seqs, st := reparse(out)
	dk := "-"
	if len(seqs) > 0 {
		if _, ok := seqTok(seqs[0]); ok {
			if c, isCSI := seqs[0].(ansi.CSI); !isCSI || len(c.Intermediate) == 0 {
				key, res := decodeGuard(seqs[0])
				dk = res
				u.addKey(key)
				u.addSeq(seqs[0])
			}
		}
	}
	u.addStr(out)
	return fmt.Sprintf("%s|%s|%s", runesTok(out), st, dk), &u
}

func childMouseRes(vt *term.Model, m vaxis.Mouse) string {
	out, p := forward(vt, m)
	if p {
		return "panic"
	}
	// which part handleMouse wrote itself and which part it returned is not observable through
	// Update; report everything as written unless it is a mouse report (returned string)
	ret, written := "", out
	if strings.HasPrefix(out, "\x1b[<") || strings.HasPrefix(out, "\x1b[M") {
		ret, written = out, ""
	}
	seqs, st := reparse(out)
	pm := "-"
	if len(seqs) > 0 {
		if c, ok := seqs[0].(ansi.CSI); ok && (c.Final == 'M' || c.Final == 'm') {
			var got vaxis.Mouse
			var okp bool
			pp, _ := hx.Guard(func() { got, okp = vaxis.VerifC09ParseMouseEvent(c) })
			if pp {
				pm = "panic"
			} else if okp {
				pm = mouseTok(got)
			}
		}
	}
	return fmt.Sprintf("%s|%s|%s|%s", runesTok(ret), runesTok(written), st, pm)
}

func childPasteRes(vt *term.Model, which string) string {
	var ev vaxis.Event = vaxis.PasteStartEvent{}
	if which != "start" {
		ev = vaxis.PasteEndEvent{}
	}
	out, p := forward(vt, ev)
	if p {
		return "panic"
	}
	_, st := reparse(out)
	return runesTok(out) + "|" + st
}

var childKeys = []vaxis.Key{
	{Keycode: vaxis.KeyUp}, {Keycode: vaxis.KeyDown}, {Keycode: vaxis.KeyHome}, {Keycode: vaxis.KeyUp, Modifiers: vaxis.ModShift},
	{Keycode: vaxis.KeyF01}, {Keycode: vaxis.KeyInsert}, {Keycode: 'a', Text: "a"},
}

var childMice = []vaxis.Mouse{
	{Button: vaxis.MouseLeftButton, Col: 3, Row: 4, EventType: vaxis.EventPress},
	{Button: vaxis.MouseLeftButton, Col: 3, Row: 4, EventType: vaxis.EventRelease},
	{Button: vaxis.MouseLeftButton, Col: 5, Row: 4, EventType: vaxis.EventMotion},
	{Button: vaxis.MouseNoButton, Col: 6, Row: 4, EventType: vaxis.EventMotion},
	{Button: vaxis.MouseWheelUp, Col: 0, Row: 0, EventType: vaxis.EventPress},
	{Button: vaxis.MouseWheelDown, Col: 94, Row: 222, EventType: vaxis.EventPress},
}

func (h *H) childCase(script string, class string) {
	vt, ok := childTerm(script)
	if !ok {
		return
	}
	defer vt.VerifClose()
	for _, k := range childKeys {
		res, u := childKeyRes(vt, k)
		h.r.Emit(fmt.Sprintf("ckey %s %s %s", u.tok(), script, keyTok(k)), res)
	}
	for _, m := range childMice {
		h.r.Emit(fmt.Sprintf("cmouse %s %s", script, mouseTok(m)), childMouseRes(vt, m))
	}
	for _, w := range []string{"start", "end"} {
		h.r.Emit(fmt.Sprintf("cpaste %s %s", script, w), childPasteRes(vt, w))
	}
	h.r.Add("child-script:"+class, len(childKeys)+len(childMice)+2)
}

func (h *H) childStreams() {
	nums := []int{1, 1000, 1002, 1003, 1006, 1007, 1049, 2004}
	distract := []int{2, 7, 25, 12, 1004, 0}
	// systematic: every mode alone, then reset / RIS / alternate-screen round trip after it
	h.childCase("-", "systematic")
	h.childCase("ris", "systematic")
	for _, t := range []string{"pam", "pnm"} {
		h.childCase(t, "systematic")
		h.childCase(t+",ris", "systematic")
		h.childCase("pam,"+t, "systematic")
	}
	for _, n := range nums {
		s := fmt.Sprintf("s%d", n)
		h.childCase(s, "systematic")
		h.childCase(s+",ris", "systematic")
		h.childCase(s+fmt.Sprintf(",r%d", n), "systematic")
		h.childCase(s+",s1049,r1049", "systematic")
		h.childCase("s1049,"+s+",ris", "systematic")
		h.childCase("ris,"+s, "systematic")
		for _, m := range nums {
			if m != n {
				h.childCase(fmt.Sprintf("s%d.%d", n, m), "systematic-pairs")
				h.childCase(fmt.Sprintf("s%d,s%d,r%d", n, m, n), "systematic-pairs")
				h.childCase(fmt.Sprintf("s%d.%d,ris", n, m), "systematic-pairs")
			}
		}
	}
	h.childCase("s1,s1002.1006,s2004,ris", "systematic")
	h.childCase("s1.1000.1002.1003.1006.1007.1049.2004,pam,ris", "systematic")
	// random scripts
	n := 1200
	if h.r.Thorough {
		n = 12000
	}
	rng := h.rng.Fork(13)
	for i := 0; i < n; i++ {
		var toks []string
		for j := rng.Range(1, 8); j > 0; j-- {
			switch rng.Intn(12) {
			case 0:
				toks = append(toks, "pam")
			case 1:
				toks = append(toks, "pnm")
			case 2:
				toks = append(toks, "ris")
			default:
				pre := "s"
				if rng.Intn(3) == 0 {
					pre = "r"
				}
				var ns []string
				for c := rng.Range(1, 3); c > 0; c-- {
					if rng.Intn(6) == 0 {
						ns = append(ns, strconv.Itoa(gen.Pick(rng, distract)))
					} else {
						ns = append(ns, strconv.Itoa(gen.Pick(rng, nums)))
					}
				}
				toks = append(toks, pre+strings.Join(ns, "."))
			}
		}
		h.childCase(strings.Join(toks, ","), "random")
	}
	h.r.Note("child-selected modes: every mode number alone, in pairs, after RIS and across 1049", true)
}

func (h *H) childReplay(op []string) (string, bool) {
	switch op[0] {
	case "ckey":
		if len(op) != 4 {
			return "", false
		}
		k, ok := untokKey(op[3])
		vt, ok2 := childTerm(op[2])
		if !ok || !ok2 {
			return "", false
		}
		defer vt.VerifClose()
		res, _ := childKeyRes(vt, k)
		return res, true
	case "cmouse":
		if len(op) != 3 {
			return "", false
		}
		p := strings.Split(op[2], ",")
		var v [5]int
		if len(p) != 5 {
			return "", false
		}
		for i := range v {
			x, e := strconv.Atoi(p[i])
			if e != nil {
				return "", false
			}
			v[i] = x
		}
		vt, ok := childTerm(op[1])
		if !ok {
			return "", false
		}
		defer vt.VerifClose()
		return childMouseRes(vt, vaxis.Mouse{Button: vaxis.MouseButton(v[0]), Col: v[1], Row: v[2], EventType: vaxis.EventType(v[3]), Modifiers: vaxis.ModifierMask(v[4])}), true
	case "cpaste":
		if len(op) != 3 {
			return "", false
		}
		vt, ok := childTerm(op[1])
		if !ok {
			return "", false
		}
		defer vt.VerifClose()
		return childPasteRes(vt, op[2]), true
	}
	return "", false
}
