package main

// Shared helpers of the C09 / C13 harnesses (canonical tokens, real-parser wrapper, unicode table).

import (
	"fmt"
	"sort"
	"strconv"
	"strings"
	"time"
	"unicode"

	"git.sr.ht/~rockorager/vaxis"
	"git.sr.ht/~rockorager/vaxis/ansi"
)

// ---- canonical forms -------------------------------------------------------------------------

func runesTok(s string) string {
	if s == "" {
		return "-"
	}
	var p []string
	for _, r := range s {
		p = append(p, strconv.Itoa(int(r)))
	}
	return strings.Join(p, ".")
}

func keyTok(k vaxis.Key) string {
	return fmt.Sprintf("%d/%d/%d/%d/%d/%s", k.Keycode, k.ShiftedCode, k.BaseLayoutCode, int(k.Modifiers), int(k.EventType), runesTok(k.Text))
}

func seqTok(seq ansi.Sequence) (string, bool) {
	switch s := seq.(type) {
	case ansi.Print:
		return "P:" + runesTok(s.Grapheme), true
	case ansi.C0:
		return fmt.Sprintf("C0:%d", rune(s)), true
	case ansi.ESC:
		return fmt.Sprintf("E:%d", s.Final), true
	case ansi.SS3:
		return fmt.Sprintf("S3:%d", rune(s)), true
	case ansi.CSI:
		if len(s.Parameters) == 0 {
			return fmt.Sprintf("CSI:%d:-", s.Final), true
		}
		var ps []string
		for _, pm := range s.Parameters {
			var sub []string
			for _, v := range pm {
				sub = append(sub, strconv.Itoa(v))
			}
			if len(sub) == 0 {
				sub = []string{"-"}
			}
			ps = append(ps, strings.Join(sub, "."))
		}
		return fmt.Sprintf("CSI:%d:%s", s.Final, strings.Join(ps, "/")), true
	}
	return "", false
}

// parse runs the real parser over the bytes and returns the sequences before EOF (copied).
func parse(in string) []ansi.Sequence {
	p := ansi.NewParser(strings.NewReader(in))
	var out []ansi.Sequence
	timeout := time.After(5 * time.Second)
	for {
		select {
		case seq, ok := <-p.Next():
			if !ok {
				return out
			}
			switch s := seq.(type) {
			case ansi.EOF:
				continue
			case ansi.CSI:
				c := ansi.CSI{Final: s.Final, Intermediate: append([]rune(nil), s.Intermediate...)}
				for _, pm := range s.Parameters {
					c.Parameters = append(c.Parameters, append([]int(nil), pm...))
				}
				out = append(out, c)
			default:
				out = append(out, seq)
			}
			p.Finish(seq)
		case <-timeout:
			return append(out, "hang")
		}
	}
}

// ---- unicode table ---------------------------------------------------------------------------

type uniSet map[rune]bool

func (u uniSet) add(rs ...rune) {
	for _, r := range rs {
		if u[r] {
			continue
		}
		u[r] = true
		up, lo := unicode.ToUpper(r), unicode.ToLower(r)
		if !u[up] {
			u.add(up)
		}
		if !u[lo] {
			u.add(lo)
		}
	}
}
func (u uniSet) addStr(s string) {
	for _, r := range s {
		u.add(r)
	}
}
func (u uniSet) addKey(k vaxis.Key) {
	u.add(k.Keycode, k.ShiftedCode, k.BaseLayoutCode)
	u.addStr(k.Text)
}
func (u uniSet) addSeq(seq ansi.Sequence) {
	switch s := seq.(type) {
	case ansi.Print:
		u.addStr(s.Grapheme)
	case ansi.C0:
		u.add(rune(s), rune(s)+0x60, rune(s)+0x40)
	case ansi.ESC:
		u.add(s.Final)
	case ansi.SS3:
		u.add(rune(s))
	case ansi.CSI:
		u.add(s.Final)
		for _, pm := range s.Parameters {
			for _, v := range pm {
				u.add(rune(v))
			}
		}
	}
}

func (u uniSet) tok() string {
	if len(u) == 0 {
		return "U=-"
	}
	rs := make([]int, 0, len(u))
	for r := range u {
		rs = append(rs, int(r))
	}
	sort.Ints(rs)
	var p []string
	for _, ri := range rs {
		r := rune(ri)
		f := 0
		if unicode.IsUpper(r) {
			f |= 1
		}
		if unicode.IsLower(r) {
			f |= 2
		}
		if unicode.IsLetter(r) {
			f |= 4
		}
		if unicode.IsGraphic(r) {
			f |= 8
		}
		if unicode.IsPrint(r) {
			f |= 16
		}
		up, lo := unicode.ToUpper(r), unicode.ToLower(r)
		if f == 0 && up == r && lo == r {
			continue // the driver's defaults
		}
		p = append(p, fmt.Sprintf("%d:%d:%d:%d", r, f, up, lo))
	}
	if len(p) == 0 {
		return "U=-"
	}
	return "U=" + strings.Join(p, ";")
}

// foldTok lists, for every non-ASCII rune of s, the members of its simple-folding orbit.
func foldTok(s string) string {
	var p []string
	seen := map[[2]rune]bool{}
	for _, r := range s {
		if r < 0x80 {
			continue
		}
		for x := unicode.SimpleFold(r); x != r; x = unicode.SimpleFold(x) {
			k := [2]rune{r, x}
			if !seen[k] {
				seen[k] = true
				p = append(p, fmt.Sprintf("%d:%d", r, x))
			}
		}
	}
	if len(p) == 0 {
		return "F=-"
	}
	return "F=" + strings.Join(p, ";")
}


func b01(b bool) string {
	if b {
		return "1"
	}
	return "0"
}

func untokRunes(s string) (string, bool) {
	if s == "-" || s == "" {
		return "", true
	}
	var sb strings.Builder
	for _, p := range strings.Split(s, ".") {
		v, err := strconv.Atoi(p)
		if err != nil {
			return "", false
		}
		sb.WriteRune(rune(v))
	}
	return sb.String(), true
}

func untokKey(s string) (vaxis.Key, bool) {
	p := strings.Split(s, "/")
	if len(p) != 6 {
		return vaxis.Key{}, false
	}
	var v [5]int
	for i := 0; i < 5; i++ {
		x, err := strconv.Atoi(p[i])
		if err != nil {
			return vaxis.Key{}, false
		}
		v[i] = x
	}
	t, ok := untokRunes(p[5])
	return vaxis.Key{Keycode: rune(v[0]), ShiftedCode: rune(v[1]), BaseLayoutCode: rune(v[2]), Modifiers: vaxis.ModifierMask(v[3]), EventType: vaxis.EventType(v[4]), Text: t}, ok
}

func untokSeq(s string) (ansi.Sequence, bool) {
	p := strings.SplitN(s, ":", 3)
	if len(p) < 2 {
		return nil, false
	}
	switch p[0] {
	case "P":
		g, ok := untokRunes(p[1])
		return ansi.Print{Grapheme: g}, ok
	case "C0", "E", "S3":
		v, err := strconv.Atoi(p[1])
		if err != nil {
			return nil, false
		}
		switch p[0] {
		case "C0":
			return ansi.C0(rune(v)), true
		case "E":
			return ansi.ESC{Final: rune(v)}, true
		}
		return ansi.SS3(rune(v)), true
	case "CSI":
		if len(p) != 3 {
			return nil, false
		}
		f, err := strconv.Atoi(p[1])
		if err != nil {
			return nil, false
		}
		c := ansi.CSI{Final: rune(f)}
		if p[2] == "-" {
			return c, true
		}
		for _, pm := range strings.Split(p[2], "/") {
			var sub []int
			if pm != "-" {
				for _, x := range strings.Split(pm, ".") {
					v, err := strconv.Atoi(x)
					if err != nil {
						return nil, false
					}
					sub = append(sub, v)
				}
			}
			c.Parameters = append(c.Parameters, sub)
		}
		return c, true
	}
	return nil, false
}


