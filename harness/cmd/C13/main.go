package main

// C13 harness: keys, paste markers and mouse events are handed to the real widgets/term Model.Update
// (pty = a pipe) and to encodeXterm / handleMouse directly; the bytes written towards the child are
// re-parsed with the real ansi parser and decoded with the real decodeKey / parseMouseEvent.

import (
	"fmt"
	"sort"
	"strconv"
	"strings"
	"unicode"

	"git.sr.ht/~rockorager/vaxis"
	"git.sr.ht/~rockorager/vaxis/ansi"
	"git.sr.ht/~rockorager/vaxis/widgets/term"
	"verifharness/gen"
	"verifharness/hx"
)

func main() { hx.Main("C13", run) }

type H struct {
	r    *hx.Run
	rng  *gen.Rng
	t    *term.VerifC13Term
	host *host
}

func modesOf(n int) term.VerifC13Modes {
	return term.VerifC13Modes{Deckpam: n&1 != 0, Decckm: n&2 != 0, Paste: n&4 != 0, MouseButtons: n&8 != 0, MouseDrag: n&16 != 0,
		MouseMotion: n&32 != 0, MouseSGR: n&64 != 0, AltScroll: n&128 != 0, Smcup: n&256 != 0}
}

// pseqTok is seqTok plus CSI sequences with intermediates.
func pseqTok(seq ansi.Sequence) (string, bool) {
	if c, ok := seq.(ansi.CSI); ok && len(c.Intermediate) > 0 {
		var in []string
		for _, r := range c.Intermediate {
			in = append(in, strconv.Itoa(int(r)))
		}
		t, _ := seqTok(ansi.CSI{Final: c.Final, Parameters: c.Parameters})
		p := strings.SplitN(t, ":", 3)
		return fmt.Sprintf("M:%s:%d:%s", strings.Join(in, "."), c.Final, p[2]), true
	}
	return seqTok(seq)
}

// reparse runs Vaxis's own parser over the bytes the widget wrote. A lone trailing ESC is resolved
// the way the parser's 10 ms escape time-out resolves it (C0 0x1B) — the time-out itself is C08's.
func reparse(out string) ([]ansi.Sequence, string) {
	var seqs []ansi.Sequence
	if out == "\x1b" {
		seqs = []ansi.Sequence{ansi.C0(0x1b)}
	} else {
		seqs = parse(out)
	}
	if len(seqs) == 0 {
		return seqs, "-"
	}
	var toks []string
	for _, s := range seqs {
		t, ok := pseqTok(s)
		if !ok {
			t = fmt.Sprintf("X:%T", s)
			t = strings.ReplaceAll(t, " ", "_")
		}
		toks = append(toks, t)
	}
	return seqs, strings.Join(toks, ",")
}

func (h *H) keyRes(k vaxis.Key, mn int) (string, *uniSet) {
	md := modesOf(mn)
	var direct, viaUpdate string
	u := uniSet{}
	u.addKey(k)
	u.add(k.Keycode-0x60, k.Keycode-0x40)
	p, _ := hx.Guard(func() {
		direct = term.VerifC13EncodeXterm(k, md.Deckpam, md.Decckm)
		viaUpdate = h.t.Update(md, k)
	})
	if p {
		return "panic", &u
	}
	// the observation point is what Update writes; the direct call of the encoder must agree with it
	// except for key releases, which Update does not forward at all
	if direct != viaUpdate && k.EventType != vaxis.EventRelease {
		return "inconsistent:" + hx.Hex(direct) + ":" + hx.Hex(viaUpdate), &u
	}
	direct = viaUpdate
	seqs, st := reparse(direct)
	dk := "-"
	if len(seqs) > 0 {
		if _, ok := seqTok(seqs[0]); ok {
			if c, isCSI := seqs[0].(ansi.CSI); !isCSI || len(c.Intermediate) == 0 {
				key, res := decodeGuard(seqs[0])
				dk = res
				u.addKey(key)
				u.addSeq(seqs[0])
			}
		}
	}
	u.addStr(direct)
	return fmt.Sprintf("%s|%s|%s", runesTok(direct), st, dk), &u
}

func decodeGuard(seq ansi.Sequence) (k vaxis.Key, res string) {
	p, _ := hx.Guard(func() { k = vaxis.VerifC09DecodeKey(seq) })
	if p {
		return k, "panic"
	}
	return k, keyTok(k)
}

func (h *H) emitKey(k vaxis.Key, mn int, class string) {
	res, u := h.keyRes(k, mn)
	h.r.Emit(fmt.Sprintf("key %s %s %d", u.tok(), keyTok(k), mn), res)
	h.r.Count("key:" + class)
}

func mouseTok(m vaxis.Mouse) string {
	return fmt.Sprintf("%d,%d,%d,%d,%d", int(m.Button), m.Col, m.Row, int(m.EventType), int(m.Modifiers))
}

func (h *H) mouseRes(m vaxis.Mouse, mn int) string {
	md := modesOf(mn)
	var ret, written, total string
	p, _ := hx.Guard(func() {
		ret, written = h.t.HandleMouse(md, m)
		total = h.t.Update(md, m)
	})
	if p {
		return "panic"
	}
	if written+ret != total {
		return "inconsistent:" + hx.Hex(written+ret) + ":" + hx.Hex(total)
	}
	seqs, st := reparse(total)
	pm := "-"
	if len(seqs) > 0 {
		if c, ok := seqs[0].(ansi.CSI); ok && (c.Final == 'M' || c.Final == 'm') {
			var got vaxis.Mouse
			var okp bool
			pp, _ := hx.Guard(func() { got, okp = vaxis.VerifC09ParseMouseEvent(c) })
			if pp {
				pm = "panic"
			} else if okp {
				pm = mouseTok(got)
			}
		}
	}
	return fmt.Sprintf("%s|%s|%s|%s", runesTok(ret), runesTok(written), st, pm)
}

func (h *H) emitMouse(m vaxis.Mouse, mn int, class string) {
	h.r.Emit(fmt.Sprintf("mouse %d %s", mn, mouseTok(m)), h.mouseRes(m, mn))
	h.r.Count("mouse:" + class)
}

func (h *H) pasteRes(mn int, which string) string {
	var out string
	p, _ := hx.Guard(func() {
		if which == "start" {
			out = h.t.Update(modesOf(mn), vaxis.PasteStartEvent{})
		} else {
			out = h.t.Update(modesOf(mn), vaxis.PasteEndEvent{})
		}
	})
	if p {
		return "panic"
	}
	_, st := reparse(out)
	return runesTok(out) + "|" + st
}

// ---- key sample --------------------------------------------------------------------------------

func kitty(code int, mods int, shifted int, text string) string {
	var sb strings.Builder
	fmt.Fprintf(&sb, "\x1b[%d", code)
	if shifted != 0 {
		fmt.Fprintf(&sb, ":%d", shifted)
	}
	fmt.Fprintf(&sb, ";%d", mods+1)
	if text != "" {
		var t []string
		for _, r := range text {
			t = append(t, strconv.Itoa(int(r)))
		}
		sb.WriteString(";" + strings.Join(t, ":"))
	}
	sb.WriteString("u")
	return sb.String()
}

// usShift is the character Shift produces on a US layout.
func usShift(c rune) rune {
	const plain = "`1234567890-=[]\\;',./"
	const shift = "~!@#$%^&*()_+{}|:\"<>?"
	if unicode.IsLower(c) {
		return unicode.ToUpper(c)
	}
	if i := strings.IndexRune(plain, c); i >= 0 {
		return rune(shift[i])
	}
	return 0
}

func (h *H) keySample() map[string][]vaxis.Key {
	out := map[string][]vaxis.Key{}
	seen := map[string]bool{}
	add := func(class string, k vaxis.Key) {
		t := keyTok(k)
		if seen[t] {
			return
		}
		seen[t] = true
		out[class] = append(out[class], k)
	}
	fromBytes := func(class, in string) {
		seqs := parse(in)
		if in == "\x1b" {
			seqs = []ansi.Sequence{ansi.C0(0x1b)}
		}
		if len(seqs) != 1 {
			return
		}
		if _, ok := seqTok(seqs[0]); !ok {
			return
		}
		k, res := decodeGuard(seqs[0])
		if res != "panic" {
			add(class, k)
		}
	}
	// every special key constant and the aliases, all 8 xterm modifier sets (+ kitty-only modifiers)
	var specials []rune
	for kc := vaxis.KeyUp; kc <= vaxis.KeyKeyPadBegin; kc++ {
		specials = append(specials, kc)
	}
	specials = append(specials, vaxis.KeyEnter, vaxis.KeyTab, vaxis.KeyEsc, vaxis.KeySpace, vaxis.KeyBackspace)
	for _, kc := range specials {
		for m := 0; m < 8; m++ {
			add("special-key-x-8-mods", vaxis.Key{Keycode: kc, Modifiers: vaxis.ModifierMask(m)})
		}
		for _, m := range []int{8, 16 | 1, 32 | 4, 64, 128 | 2, 255} {
			add("special-key-kitty-mods", vaxis.Key{Keycode: kc, Modifiers: vaxis.ModifierMask(m)})
		}
	}
	// keypad keys (F413): every keypad key code x 8 xterm modifier sets x Num Lock / Caps Lock off / on, bare and
	// with the legend's character as text (what a host with the kitty "associated text" flag delivers), repeats
	kpText := map[rune]string{vaxis.KeyKeyPadDecimal: ".", vaxis.KeyKeyPadDivide: "/", vaxis.KeyKeyPadMultiply: "*",
		vaxis.KeyKeyPadSubtract: "-", vaxis.KeyKeyPadAdd: "+", vaxis.KeyKeyPadEqual: "=", vaxis.KeyKeyPadSeparator: ","}
	for i := rune(0); i < 10; i++ {
		kpText[vaxis.KeyKeyPad0+i] = string('0' + i)
	}
	for kc := vaxis.KeyKeyPad0; kc <= vaxis.KeyKeyPadBegin; kc++ {
		for m := 0; m < 8; m++ {
			for _, lock := range []vaxis.ModifierMask{0, vaxis.ModNumLock, vaxis.ModCapsLock, vaxis.ModNumLock | vaxis.ModCapsLock} {
				add("keypad-keys", vaxis.Key{Keycode: kc, Modifiers: vaxis.ModifierMask(m) | lock})
				if t := kpText[kc]; t != "" {
					add("keypad-keys-with-text", vaxis.Key{Keycode: kc, Modifiers: vaxis.ModifierMask(m) | lock, Text: t})
				}
			}
			add("keypad-keys-repeat", vaxis.Key{Keycode: kc, Modifiers: vaxis.ModifierMask(m), EventType: vaxis.EventRepeat})
		}
	}
	for _, in := range []string{"\x1b[57399u", "\x1b[57404u", "\x1b[57404;129;53u", "\x1b[57414u", "\x1b[57414;5u", "\x1b[57417u", "\x1b[57417;2u",
		"\x1b[57427~", "\x1b[E", "\x1b[1;5E", "\x1b[57425u", "\x1b[57426;3u", "\x1b[57409;129;46u", "\x1b[57413;130u", "\x1b[57415u", "\x1b[57416u", "\x1b[57423;129u"} {
		fromBytes("decoded-keypad-reports", in)
	}
	// function keys as decoded from their legacy and kitty reports
	for _, in := range []string{"\x1bOA", "\x1b[A", "\x1bOH", "\x1b[F", "\x1bOP", "\x1b[1;5A", "\x1b[3;2~", "\x1b[15;3~", "\x1b[Z", "\t", "\r", "\x1b", "\x7f", "\x1b\x7f", "\x08", " "} {
		fromBytes("decoded-legacy-function-keys", in)
	}
	// printable ASCII keys × 8 modifier sets through every encoding that expresses the chord
	for c := rune(0x20); c < 0x7F; c++ {
		if unicode.IsUpper(c) {
			continue
		}
		sh := usShift(c)
		for m := 0; m < 8; m++ {
			ch := c
			if m&1 != 0 {
				if sh == 0 {
					continue
				}
				ch = sh
			}
			// legacy
			switch {
			case m&4 == 0 && m&2 == 0:
				fromBytes("decoded-legacy-chars", string(ch))
			case m&4 == 0:
				fromBytes("decoded-legacy-chars", "\x1b"+string(ch))
			case m == 4 && c >= 'a' && c <= 'z':
				fromBytes("decoded-legacy-chars", string(c-0x60))
			case m == 4 && (c == '@' || (c >= '[' && c <= '_')):
				fromBytes("decoded-legacy-chars", string(c-0x40))
			}
			// kitty: minimal, with shifted code, with text
			fromBytes("decoded-kitty-chars", kitty(int(c), m, 0, ""))
			if m&1 != 0 {
				fromBytes("decoded-kitty-chars", kitty(int(c), m, int(sh), ""))
				if m&6 == 0 {
					fromBytes("decoded-kitty-chars", kitty(int(c), m, int(sh), string(sh)))
				}
			} else if m&6 == 0 {
				fromBytes("decoded-kitty-chars", kitty(int(c), m, 0, string(c)))
			}
		}
	}
	// other scripts
	for _, s := range []string{"ф", "Ф", "é", "É", "世", "🔥", "ß"} {
		fromBytes("decoded-other-scripts", s)
		fromBytes("decoded-other-scripts", "\x1b"+s)
		r := []rune(s)[0]
		for _, m := range []int{0, 1, 2, 4, 5, 6} {
			fromBytes("decoded-other-scripts", kitty(int(unicode.ToLower(r)), m, 0, ""))
			fromBytes("decoded-other-scripts", kitty(int(unicode.ToLower(r)), m, int(unicode.ToUpper(r)), ""))
		}
	}
	fromBytes("decoded-other-scripts", "\x1b[1092::97;5u")
	// text productions: grapheme clusters of several code points, caps lock, AltGr level, compose (the child
	// must receive the text, not the key code)
	for _, s := range []string{"e\u0301", "E\u0301", "👨\u200d👩\u200d👧", "🇩🇪", "☺\ufe0f", "क्ष", "a\u0308\u0323"} {
		fromBytes("text-productions", s)
	}
	for _, k := range []vaxis.Key{
		{Keycode: 'a', Modifiers: vaxis.ModCapsLock, Text: "A"}, {Keycode: 'a', Modifiers: vaxis.ModCapsLock | vaxis.ModShift, ShiftedCode: 'A', Text: "a"},
		{Keycode: 'q', Text: "@"}, {Keycode: 'e', Text: "€"}, {Keycode: 'e', Text: "é"}, {Keycode: '^', Text: "ê"}, {Keycode: 'a', Modifiers: vaxis.ModNumLock, Text: "a"},
		{Keycode: ' ', Text: " "}, {Keycode: vaxis.KeyEnter, Text: "\r"}, {Keycode: vaxis.KeyTab, Text: "\t"}, {Keycode: 'x', Text: "xyz", EventType: vaxis.EventPaste},
		{Keycode: 'e', Text: "e\u0301", EventType: vaxis.EventPaste}, {Keycode: 'e', ShiftedCode: 'E', Modifiers: vaxis.ModShift, Text: "E\u0301", EventType: vaxis.EventPaste},
		{Keycode: 'q', Modifiers: vaxis.ModAlt, Text: "@"}, {Keycode: 'a', Modifiers: vaxis.ModSuper, Text: "a"}, {Keycode: 'a', EventType: vaxis.EventRelease},
	} {
		add("text-productions", k)
	}
	fromBytes("text-productions", kitty('a', 64, 'A', "A"))
	// key releases and repeats as a host with Options.ReportKeyboardEvents receives them (kitty event types
	// 3 and 2): a release must write nothing, a repeat is a press
	for _, et := range []vaxis.EventType{vaxis.EventRelease, vaxis.EventRepeat} {
		cls := "release-events"
		if et == vaxis.EventRepeat {
			cls = "repeat-events"
		}
		for _, kc := range specials {
			for _, m := range []vaxis.ModifierMask{0, vaxis.ModShift, vaxis.ModCtrl, vaxis.ModAlt | vaxis.ModShift} {
				add(cls, vaxis.Key{Keycode: kc, Modifiers: m, EventType: et})
			}
		}
		for c := rune(0x20); c < 0x7F; c += 3 {
			add(cls, vaxis.Key{Keycode: c, EventType: et})
			add(cls, vaxis.Key{Keycode: c, Modifiers: vaxis.ModCtrl, EventType: et})
			add(cls, vaxis.Key{Keycode: c, Modifiers: vaxis.ModAlt, EventType: et})
		}
		for _, c := range []rune{'é', 'ф', '世', '🔥'} {
			add(cls, vaxis.Key{Keycode: c, EventType: et})
		}
		add(cls, vaxis.Key{Keycode: 'a', ShiftedCode: 'A', Modifiers: vaxis.ModShift, EventType: et})
		add(cls, vaxis.Key{Keycode: 'a', Text: "a", EventType: et})
	}
	for _, in := range []string{"\x1b[97;1:3u", "\x1b[13;1:3u", "\x1b[1;1:3A", "\x1b[97;5:3u", "\x1b[97;1:2u", "\x1b[3;2:3~", "\x1b[57399;1:3u"} {
		fromBytes("release-events", in)
	}
	// Ctrl (+Alt, +Shift) on every printable ASCII key and some others: total description of the Ctrl branch
	for c := rune(0x20); c < 0x7F; c++ {
		for _, m := range []vaxis.ModifierMask{vaxis.ModCtrl, vaxis.ModCtrl | vaxis.ModAlt, vaxis.ModCtrl | vaxis.ModShift, vaxis.ModCtrl | vaxis.ModAlt | vaxis.ModShift} {
			add("ctrl-x-every-ascii-key", vaxis.Key{Keycode: c, Modifiers: m})
		}
	}
	for _, c := range []rune{'é', 'ф', 'Ф', 'ß', '世', '🔥', 0x80, 0x9f, 0xa0, 0xff, 0x100, 0xd7ff, 0xe000, 0xfffd, unicode.MaxRune - 1} {
		add("ctrl-x-non-ascii", vaxis.Key{Keycode: c, Modifiers: vaxis.ModCtrl})
		add("ctrl-x-non-ascii", vaxis.Key{Keycode: c, Modifiers: vaxis.ModCtrl | vaxis.ModAlt})
	}
	// cased letters of any script: plain, Alt, Shift and Alt+Shift in every event shape; the hypotheses of
	// shift_letter_roundtrip (CasedPair) are checked on Go's tables for each
	for _, r := range h.casedSample() {
		C := unicode.ToUpper(r)
		ok := true
		if !unicode.IsUpper(C) {
			h.r.Count("hyp_violated:isUpper(toUpper(c))")
			ok = false
		}
		if unicode.ToLower(C) != r {
			h.r.Count("hyp_violated:toLower(toUpper(c))=c")
			ok = false
		}
		if C == r {
			h.r.Count("hyp_violated:toUpper(c)!=c")
			ok = false
		}
		if ok {
			h.r.Count("hyp_ok")
		}
		cl := "cased-letters-hyp-ok"
		if !ok {
			cl = "cased-letters-hyp-violated"
		}
		add(cl, vaxis.Key{Keycode: r})
		add(cl, vaxis.Key{Keycode: r, Text: string(r)})
		add(cl, vaxis.Key{Keycode: r, Modifiers: vaxis.ModAlt})
		for _, m := range []vaxis.ModifierMask{vaxis.ModShift, vaxis.ModShift | vaxis.ModAlt, vaxis.ModShift | vaxis.ModCapsLock} {
			add(cl, vaxis.Key{Keycode: r, Modifiers: m})
			add(cl, vaxis.Key{Keycode: r, Modifiers: m, ShiftedCode: C})
			if m&vaxis.ModAlt == 0 {
				add(cl, vaxis.Key{Keycode: r, Modifiers: m, Text: string(C)})
				add(cl, vaxis.Key{Keycode: r, Modifiers: m, ShiftedCode: C, Text: string(C)})
			}
		}
		// as the host decodes the upper-case letter typed on a legacy terminal
		fromBytes(cl, string(C))
		fromBytes(cl, "\x1b"+string(C))
	}
	// hand-made events (correspondence of encodeXterm on odd inputs)
	for _, k := range []vaxis.Key{
		{Keycode: unicode.MaxRune}, {Keycode: unicode.MaxRune - 1}, {Keycode: unicode.MaxRune, Modifiers: vaxis.ModAlt}, {Keycode: -1}, {Keycode: -1, Modifiers: vaxis.ModCtrl},
		{Keycode: 0xD800}, {Keycode: 0}, {Keycode: 0, Modifiers: vaxis.ModCtrl}, {Keycode: 'a', Modifiers: vaxis.ModShift}, {Keycode: 'a', Modifiers: vaxis.ModShift, ShiftedCode: 'A'},
		{Keycode: 'a', Modifiers: vaxis.ModShift, Text: "xyz"}, {Keycode: 'a', Modifiers: vaxis.ModCtrl, Text: "a"}, {Keycode: vaxis.KeyUp, Text: "up"}, {Keycode: vaxis.KeyF25, Modifiers: vaxis.ModShift},
		{Keycode: vaxis.KeyKeyPad0, Text: "0"}, {Keycode: vaxis.KeyMediaPlay}, {Keycode: 'é', Modifiers: vaxis.ModCtrl}, {Keycode: 'ф', Modifiers: vaxis.ModCtrl | vaxis.ModAlt},
		{Keycode: '1', Modifiers: vaxis.ModCtrl | vaxis.ModAlt}, {Keycode: '9', Modifiers: vaxis.ModCtrl}, {Keycode: '0', Modifiers: vaxis.ModCtrl}, {Keycode: 'A', Modifiers: vaxis.ModCtrl},
		{Keycode: 'a', Modifiers: 256}, {Keycode: 'a', Modifiers: 256 | 4}, {Keycode: 'a', ShiftedCode: -5, Modifiers: vaxis.ModShift},
	} {
		add("hand-made", k)
	}
	return out
}

// casedSample: lower-case letters of many scripts (all of them in the thorough tier) plus the letters whose
// case mappings are not one-to-one.
func (h *H) casedSample() []rune {
	special := []rune{'ß', 'ǆ', 'ǅ', 'ı', 'ſ', 'ς', 'σ', 'µ', 'ÿ', 'ŉ', 'ǰ', 'ΐ', 'ի', 'ᲀ', 'ẛ', 'ι', 'ͅ', 'k', 'å', 'ω', 'ⅰ', 'ⓐ', 'ａ', '𐐨', '𞤢', 'ꭰ', 'ა', 'ᏸ'}
	var all []rune
	for r := rune(0x80); r < unicode.MaxRune; r++ {
		if unicode.IsLower(r) {
			all = append(all, r)
		}
	}
	if h.r.Thorough {
		return append(special, all...)
	}
	rng := h.rng.Fork(99)
	out := append([]rune(nil), special...)
	for i := 0; i < 120; i++ {
		out = append(out, all[rng.Intn(len(all))])
	}
	return out
}

func run(r *hx.Run) error {
	t, err := term.VerifC13New()
	if err != nil {
		return err
	}
	defer t.Close()
	h := &H{r: r, rng: gen.New(r.Seed), t: t}
	if r.Replay != "" {
		return hx.ReplayOps(r, h.replay)
	}
	for _, ops := range hx.Corpus("C13") {
		for _, op := range ops {
			if f := strings.Fields(op); len(f) == 4 && f[0] == "key" {
				// the unicode table is rebuilt
				if k, ok := untokKey(f[2]); ok {
					if mn, err := strconv.Atoi(f[3]); err == nil {
						h.emitKey(k, mn, "corpus")
						continue
					}
				}
			}
			res, ok := h.replay(strings.Fields(op))
			if !ok {
				res = "bad-op"
			}
			r.Emit(op, res)
			r.Count("corpus")
		}
	}
	// hypothesis AgreeOnKeys of key_roundtrip_any_uni / keypad_roundtrip_any_uni on Go's unicode tables: the 128 ASCII
	// runes, every key code from KeyUp to KeyKeyPadBegin and a few values far above the Unicode range; Go's own verdict
	// ("agree": the predicates are false and the case maps the identity above MaxRune) next to the driver's on the rows
	{
		u := uniSet{}
		res := "agree"
		probe := func(r rune) {
			u[r] = true // the row itself (no closure under ToUpper / ToLower needed: the driver reads this row only)
			if r > unicode.MaxRune && (unicode.IsUpper(r) || unicode.IsLower(r) || unicode.IsLetter(r) || unicode.IsGraphic(r) ||
				unicode.IsPrint(r) || unicode.ToUpper(r) != r || unicode.ToLower(r) != r) {
				res = "differ"
			}
		}
		for r := rune(0); r < 128; r++ {
			probe(r)
		}
		for r := vaxis.KeyUp; r <= vaxis.KeyKeyPadBegin+40; r++ {
			probe(r)
		}
		for _, r := range []rune{unicode.MaxRune + 1, 0x200000, 0x7FFFFFFF} {
			probe(r)
		}
		r.Emit("hypk "+u.tok(), res)
		r.Count("hypk:AgreeOnKeys:" + res)
	}
	// keys: every sampled event × the four (deckpam, decckm) combinations
	sample := h.keySample()
	var classes []string
	for c := range sample {
		classes = append(classes, c)
	}
	sort.Strings(classes)
	for _, c := range classes {
		for _, k := range sample[c] {
			for mn := 0; mn < 4; mn++ {
				h.emitKey(k, mn, c)
			}
		}
	}
	r.Note("keys: every Key* constant x 8 xterm modifier sets x 4 key modes", true)
	// paste: all 512 mode combinations
	for mn := 0; mn < 512; mn++ {
		for _, w := range []string{"start", "end"} {
			r.Emit(fmt.Sprintf("paste %d %s", mn, w), h.pasteRes(mn, w))
			r.Count("paste")
		}
	}
	// mouse
	buttons := []int{0, 1, 2, 3, 64, 65, 128, 129, 130, 131}
	odd := []int{4, 66, 67, 200, -1, 35}
	pos := []int{0, 1, 94, 95, 222, 223, 1000}
	events := []int{0, 2, 3}
	var modeSet []int
	for hi := 0; hi < 64; hi++ { // bits 3..8: the four mouse modes, altScroll, smcup
		for _, ckm := range []int{0, 2} {
			modeSet = append(modeSet, hi<<3|ckm)
		}
	}
	for _, b := range buttons {
		for _, ev := range events {
			for ci, col := range pos {
				for ri, row := range pos {
					if !r.Thorough && (ci+2*ri)%5 != 0 {
						continue
					}
					for _, mn := range modeSet {
						h.emitMouse(vaxis.Mouse{Button: vaxis.MouseButton(b), Col: col, Row: row, EventType: vaxis.EventType(ev)}, mn, "constants-x-positions-x-128-modes")
					}
				}
			}
		}
	}
	for _, b := range append(odd, buttons...) {
		for _, ev := range []int{0, 1, 2, 3, 4, 7} {
			for _, mn := range modeSet {
				if !r.Thorough && h.rng.Intn(4) != 0 {
					continue
				}
				m := vaxis.Mouse{Button: vaxis.MouseButton(b), Col: gen.Pick(h.rng, []int{-2, -1, 0, 5, 94, 95, 300}), Row: gen.Pick(h.rng, pos),
					EventType: vaxis.EventType(ev), Modifiers: vaxis.ModifierMask(h.rng.Intn(8))}
				h.emitMouse(m, mn, "odd-buttons-events-modifiers")
			}
		}
	}
	for mn := 0; mn < 512; mn++ { // the remaining mode bits do not matter
		h.emitMouse(vaxis.Mouse{Button: vaxis.MouseButton(gen.Pick(h.rng, buttons)), Col: 3, Row: 4, EventType: vaxis.EventType(gen.Pick(h.rng, events))}, mn, "all-512-modes")
	}
	r.Note("mouse: all MouseButton constants x press/release/motion x 128 mode combinations", true)
	h.childStreams()
	return h.pasteStreams()
}

func (h *H) replay(op []string) (string, bool) {
	if len(op) == 0 {
		return "", false
	}
	switch op[0] {
	case "ckey", "cmouse", "cpaste":
		return h.childReplay(op)
	case "ppaste":
		return h.ppasteReplay(op)
	case "key":
		if len(op) != 4 {
			return "", false
		}
		k, ok := untokKey(op[2])
		mn, err := strconv.Atoi(op[3])
		if !ok || err != nil {
			return "", false
		}
		res, _ := h.keyRes(k, mn)
		return res, true
	case "hypk":
		return "agree", true // recomputed from Go's tables by the generator
	case "mouse":
		if len(op) != 3 {
			return "", false
		}
		mn, err := strconv.Atoi(op[1])
		var v [5]int
		p := strings.Split(op[2], ",")
		if err != nil || len(p) != 5 {
			return "", false
		}
		for i := range v {
			x, e := strconv.Atoi(p[i])
			if e != nil {
				return "", false
			}
			v[i] = x
		}
		return h.mouseRes(vaxis.Mouse{Button: vaxis.MouseButton(v[0]), Col: v[1], Row: v[2], EventType: vaxis.EventType(v[3]), Modifiers: vaxis.ModifierMask(v[4])}, mn), true
	case "paste":
		if len(op) != 3 {
			return "", false
		}
		mn, err := strconv.Atoi(op[1])
		if err != nil {
			return "", false
		}
		return h.pasteRes(mn, op[2]), true
	}
	return "", false
}
