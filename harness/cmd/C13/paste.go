package main

// Whole pastes through a real host: `ESC[200~ payload ESC[201~` is injected into a real Vaxis (fake
// console), the events it posts are read from Events() and forwarded one by one with the real
// Model.Update into the pipe; the code points the child receives are compared with the payload.

import (
	"fmt"
	"strings"
	"time"

	"git.sr.ht/~rockorager/vaxis"
	"git.sr.ht/~rockorager/vaxis/ansi"
	"verifharness/fakeconsole"
	"verifharness/gen"
)

type host struct {
	vx *vaxis.Vaxis
	fc *fakeconsole.Console
}

func newHost() (*host, error) {
	fc := fakeconsole.New(80, 24, fakeconsole.FromMask(0))
	vx, err := vaxis.New(vaxis.Options{WithConsole: fc, NoSignals: true})
	if err != nil {
		return nil, err
	}
	h := &host{vx: vx, fc: fc}
	h.drain(30 * time.Millisecond)
	return h, nil
}

func (h *host) drain(d time.Duration) {
	for {
		select {
		case <-h.vx.Events():
		case <-time.After(d):
			return
		}
	}
}

// paste injects a bracketed paste and returns the paste/key events the host posts for it, up to the
// PasteEnd of the closing marker.
func (h *host) paste(payload string) ([]vaxis.Event, bool) {
	ends := 1 + strings.Count(payload, "\x1b[201~")
	h.fc.InjectString("\x1b[200~" + payload + "\x1b[201~")
	var evs []vaxis.Event
	timeout := time.After(3 * time.Second)
	for ends > 0 {
		select {
		case ev := <-h.vx.Events():
			switch ev.(type) {
			case vaxis.Key, vaxis.PasteStartEvent:
				evs = append(evs, ev)
			case vaxis.PasteEndEvent:
				evs = append(evs, ev)
				ends--
			}
		case <-timeout:
			return evs, false
		}
	}
	return evs, true
}

func eventTok(ev vaxis.Event) string {
	switch e := ev.(type) {
	case vaxis.Key:
		return "K" + keyTok(e)
	case vaxis.PasteStartEvent:
		return "S"
	case vaxis.PasteEndEvent:
		return "E"
	}
	return "?"
}

func untokEvent(s string) (vaxis.Event, bool) {
	switch {
	case s == "S":
		return vaxis.PasteStartEvent{}, true
	case s == "E":
		return vaxis.PasteEndEvent{}, true
	case strings.HasPrefix(s, "K"):
		k, ok := untokKey(s[1:])
		return k, ok
	}
	return nil, false
}

// forwardAll hands the events to the real Model.Update under the given modes and returns what the child gets.
func (h *H) forwardAll(evs []vaxis.Event, mn int) (string, bool) {
	var sb strings.Builder
	md := modesOf(mn)
	for _, ev := range evs {
		var out string
		p := false
		func() {
			defer func() {
				if recover() != nil {
					p = true
				}
			}()
			out = h.t.Update(md, ev)
		}()
		if p {
			return "", true
		}
		sb.WriteString(out)
	}
	return sb.String(), false
}

func (h *H) pasteCase(payload string, modes []int, class string) {
	evs, ok := h.host.paste(payload)
	u := uniSet{}
	u.addStr(payload)
	var toks []string
	for _, ev := range evs {
		toks = append(toks, eventTok(ev))
		if k, isKey := ev.(vaxis.Key); isKey {
			u.addKey(k)
			u.add(k.Keycode-0x60, k.Keycode-0x40)
		}
	}
	var st []string
	for _, s := range parse(payload) {
		if _, isEOF := s.(ansi.EOF); isEOF {
			continue
		}
		t, okTok := seqTok(s)
		if !okTok {
			t = strings.ReplaceAll(fmt.Sprintf("X:%T", s), " ", "_")
		}
		st = append(st, t)
	}
	seqs := "-"
	if len(st) > 0 {
		seqs = strings.Join(st, ",")
	}
	evTok := "-"
	if len(toks) > 0 {
		evTok = strings.Join(toks, ",")
	}
	for _, mn := range modes {
		res := "hang"
		if ok {
			out, p := h.forwardAll(evs, mn)
			if p {
				res = "panic"
			} else {
				res = runesTok(out) + "|" + evTok
			}
		}
		h.r.Emit(fmt.Sprintf("ppaste %s %d %s %s", u.tok(), mn, runesTok(payload), seqs), res)
		h.r.Count("ppaste:" + class)
	}
	if !ok {
		// resynchronise the host after a time-out
		h.host.drain(200 * time.Millisecond)
	}
}

var pastePieces = []string{
	"a", "b", "z", "A", "Z", "Q", " ", "  ", "0", "9", "-", "~", "[", "]", "{", "@", "`", "\t", "\n", "\r", "\r\n", "\x7f",
	"\x00", "\x01", "\x03", "\x1a", "\x1c", "\x1f", "é", "é", "É", "É", "ф", "Ф", "ß", "İ", "ǅ", "世", "界", "🔥", "👍🏽",
	"👨‍👩‍👧", "🇩🇪", "☺️", "क्ष", "각", "ᄀ", "\u200b", "ạ̈", "Ω", "µ", "ſ", "\u00a0", "\ufeff", "\U0010ffff", "�",
	"hello world", "ls -la | grep x\n", "func main() {\n\treturn\n}\n",
}

func (h *H) pasteStreams() error {
	if h.host == nil {
		hh, err := newHost()
		if err != nil {
			return err
		}
		h.host = hh
	}
	defer h.host.vx.Close()
	allModes := func(rng *gen.Rng) []int {
		other := rng.Intn(512) &^ 4
		return []int{0, 4, other, other | 4}
	}
	rng := h.rng.Fork(77)
	fixed := []string{"", "hello", "héllo wörld", "é", "Éx", "é", "É", "👨‍👩‍👧", "🇩🇪🇫🇷", "A", "ABC def", "Ünï Çödé",
		"tab\tnew\nline\r\nend", "\x7f", "a\x7fb", "\x00\x01\x02\x1a\x1c\x1d\x1e\x1f", "\t", "\r", "\n",
		"x\x1b[201~y", "\x1b[201~", "a\x1b[201~\x1b[201~b", "x\x1b[200~y", "\x1b[200~\x1b[201~", "é\x1b[201~é",
		"世界", "☺️", "क्षत्रिय", "한국어 각", "\U0010ffff", "Ω µ ſ ß İ ǅ", strings.Repeat("long text é ", 100)}
	for _, p := range fixed {
		cl := "fixed"
		if strings.Contains(p, "\x1b[20") {
			cl = "fixed-inner-marker"
		}
		h.pasteCase(p, allModes(rng), cl)
	}
	h.pasteCase("a\x08b", []int{0, 4}, "with-BS-not-judged")
	n := 150
	if h.r.Thorough {
		n = 2500
	}
	for i := 0; i < n; i++ {
		var sb strings.Builder
		for j := rng.Range(1, 12); j > 0; j-- {
			sb.WriteString(gen.Pick(rng, pastePieces))
		}
		cl := "random"
		if rng.Intn(8) == 0 {
			// a marker somewhere inside
			s := sb.String()
			cut := 0
			if len(s) > 0 {
				cut = rng.Intn(len(s) + 1)
				for cut < len(s) && s[cut]&0xC0 == 0x80 {
					cut++
				}
			}
			sb.Reset()
			sb.WriteString(s[:cut] + gen.Pick(rng, []string{"\x1b[201~", "\x1b[200~"}) + s[cut:])
			cl = "random-inner-marker"
		}
		h.pasteCase(sb.String(), allModes(rng), cl)
	}
	return nil
}

func (h *H) ppasteReplay(op []string) (string, bool) {
	// ppaste U modes payload seqs
	if len(op) != 5 {
		return "", false
	}
	var mn int
	if _, err := fmt.Sscanf(op[2], "%d", &mn); err != nil {
		return "", false
	}
	payload, ok := untokRunes(op[3])
	if !ok {
		return "", false
	}
	if h.host == nil {
		hh, err := newHost()
		if err != nil {
			return "", false
		}
		h.host = hh
	}
	evs, okp := h.host.paste(payload)
	if !okp {
		return "hang", true
	}
	var toks []string
	for _, ev := range evs {
		toks = append(toks, eventTok(ev))
	}
	out, p := h.forwardAll(evs, mn)
	if p {
		return "panic", true
	}
	evTok := "-"
	if len(toks) > 0 {
		evTok = strings.Join(toks, ",")
	}
	return runesTok(out) + "|" + evTok, true
}
