package main

// C14 harness: vxfw surfaces. Three kinds of op lines (see lean/VaxisModel/Driver/C14.lean):
//
//	ws W H col row                       NewSurface + WriteCell on the real code
//	draw minW,minH,maxW,maxH <tokens>    Draw(ctx) of a real widget tree, dump of the returned Surface
//	render SWxSH <nodes>                 hand-built Surface tree painted by Surface.render (hook
//	                                     vxfw.VerifC14Render) on a real Vaxis with a fake console
//
// The lines of a text widget are what the real scanners yield for the constraint (the scanners and
// Characters are parameters of the model).

import (
	"fmt"
	"hash/fnv"
	"strconv"
	"strings"
	"sync"
	"time"
	"unicode/utf8"

	"git.sr.ht/~rockorager/vaxis"
	"git.sr.ht/~rockorager/vaxis/vxfw"
	"git.sr.ht/~rockorager/vaxis/vxfw/button"
	"git.sr.ht/~rockorager/vaxis/vxfw/center"
	"git.sr.ht/~rockorager/vaxis/vxfw/list"
	"git.sr.ht/~rockorager/vaxis/vxfw/richtext"
	"git.sr.ht/~rockorager/vaxis/vxfw/text"
	"git.sr.ht/~rockorager/vaxis/vxfw/textfield"
	"verifharness/fakeconsole"
	"verifharness/gen"
	"verifharness/hx"
)

func main() { hx.Main("C14", run) }

const sentinelG = "▒"

var sentinel = vaxis.Cell{Character: vaxis.Character{Grapheme: sentinelG, Width: 1}, Style: vaxis.Style{Foreground: vaxis.IndexColor(255)}}

var markerCell = vaxis.Cell{Character: vaxis.Character{Grapheme: "m", Width: 1}, Style: vaxis.Style{Foreground: vaxis.IndexColor(3)}}

var gidCache = map[string]uint32{}

func gid(g string) uint32 {
	switch g {
	case "":
		return 0
	case " ":
		return 1
	case "…":
		return 2
	case sentinelG:
		return 9
	}
	if v, ok := gidCache[g]; ok {
		return v
	}
	h := fnv.New32a()
	h.Write([]byte(g))
	v := 16 + h.Sum32()%1000000007
	if len(gidCache) < 1<<16 {
		gidCache[g] = v
	}
	return v
}

func styleTag(s vaxis.Style) int {
	fg := s.Foreground
	s.Foreground = 0
	if s != (vaxis.Style{}) {
		return 999
	}
	ps := fg.Params()
	switch len(ps) {
	case 0:
		return 0
	case 1:
		return int(ps[0])
	}
	return 998
}

func tagStyle(t int) vaxis.Style {
	if t == 0 {
		return vaxis.Style{}
	}
	return vaxis.Style{Foreground: vaxis.IndexColor(uint8(t))}
}

// tagger memoises styleTag for runs of equal styles (buffers of several 10^4 cells).
type tagger struct {
	have bool
	last vaxis.Style
	tag  int
}

func (t *tagger) of(s vaxis.Style) int {
	if t.have && s == t.last {
		return t.tag
	}
	t.have, t.last, t.tag = true, s, styleTag(s)
	return t.tag
}

// ---------------------------------------------------------------------------------------------
// ws

func doWs(r *hx.Run, W, H, col, row int) (string, string) {
	op := fmt.Sprintf("ws %d %d %d %d", W, H, col, row)
	s := vxfw.NewSurface(uint16(W), uint16(H), nil)
	n := len(s.Buffer)
	panicked, msg := hx.Guard(func() {
		s.WriteCell(uint16(col), uint16(row), markerCell)
	})
	if panicked {
		r.Count("ws-panic: " + normMsg(msg))
		return op, "panic"
	}
	var sb strings.Builder
	sb.WriteString(strconv.Itoa(n))
	sb.WriteByte(';')
	first := true
	for i := range s.Buffer {
		if s.Buffer[i] != (vaxis.Cell{}) {
			if !first {
				sb.WriteByte(',')
			}
			first = false
			sb.WriteString(strconv.Itoa(i))
		}
	}
	if first {
		sb.WriteByte('-')
	}
	return op, sb.String()
}

func normMsg(m string) string {
	var sb strings.Builder
	prevDigit := false
	for _, c := range m {
		if c >= '0' && c <= '9' {
			if !prevDigit {
				sb.WriteByte('N')
			}
			prevDigit = true
			continue
		}
		prevDigit = false
		sb.WriteRune(c)
	}
	s := sb.String()
	if len(s) > 120 {
		s = s[:120]
	}
	return s
}

func dedupe(xs []int) []int {
	seen := map[int]bool{}
	var out []int
	for _, x := range xs {
		if x < 0 || x > 65535 || seen[x] {
			continue
		}
		seen[x] = true
		out = append(out, x)
	}
	return out
}

func genWs(r *hx.Run) {
	sizes := []int{0, 1, 2, 255, 256, 257, 300}
	for _, W := range sizes {
		for _, H := range sizes {
			cols := dedupe([]int{0, 1, W - 1, W, W + 1, 65535})
			rws := []int{0, 1, H - 1, H, H + 1, H / 2, 65535}
			if W == 300 {
				rws = append(rws, 218, 219)
			}
			rows := dedupe(rws)
			for _, c := range cols {
				for _, rw := range rows {
					op, impl := doWs(r, W, H, c, rw)
					r.Emit(op, impl)
					r.Count("kind:ws")
					switch {
					case c < W && rw < H:
						r.Count("ws:inside")
						if rw*W+c > 65535 {
							r.Count("ws:inside,index>65535")
						}
					case c < W && rw == H:
						r.Count("ws:row==H")
					case c >= W && rw >= H:
						r.Count("ws:outside-both")
					case c >= W:
						r.Count("ws:outside-col")
					default:
						r.Count("ws:outside-row")
					}
					if W*H > 65535 {
						r.Count("ws:W*H>65535")
					}
				}
			}
		}
	}
}

// ---------------------------------------------------------------------------------------------
// draw

type seg struct {
	tag  int
	text string
}

type wspec struct {
	kind  byte // C T R F B D
	soft  bool
	st    int
	text  string
	segs  []seg
	child *wspec
	// D (list.Dynamic): the items its Builder offers, DrawCursor, Gap; drawn = indices of the items
	// whose Draw was called, in call order (filled in by the run)
	kids   []*wspec
	cursor bool
	gap    int
	drawn  []int
}

// recW records that Dynamic drew item idx.
type recW struct {
	vxfw.Widget
	owner *wspec
	idx   int
}

func (w *recW) Draw(ctx vxfw.DrawContext) (vxfw.Surface, error) {
	w.owner.drawn = append(w.owner.drawn, w.idx)
	return w.Widget.Draw(ctx)
}

func (w *wspec) build() vxfw.Widget {
	switch w.kind {
	case 'C':
		return &center.Center{Child: w.child.build()}
	case 'T':
		return &text.Text{Content: w.text, Style: tagStyle(w.st), Softwrap: w.soft}
	case 'R':
		var segs []vaxis.Segment
		for _, s := range w.segs {
			segs = append(segs, vaxis.Segment{Text: s.text, Style: tagStyle(s.tag)})
		}
		return &richtext.RichText{Content: segs, Softwrap: w.soft}
	case 'F':
		tf := textfield.New()
		tf.Value = w.text
		tf.Style = tagStyle(w.st)
		return tf
	case 'B':
		b := button.New(w.text, nil)
		b.Style.Default = tagStyle(w.st)
		return b
	case 'D':
		w.drawn = nil
		return &list.Dynamic{
			DrawCursor: w.cursor,
			Gap:        w.gap,
			Builder: func(i uint, cursor uint) vxfw.Widget {
				if i >= uint(len(w.kids)) {
					return nil
				}
				return &recW{Widget: w.kids[i].build(), owner: w, idx: int(i)}
			},
		}
	}
	panic("bad widget kind")
}

func (w *wspec) hasDynamic() bool {
	if w == nil {
		return false
	}
	if w.kind == 'D' {
		return true
	}
	return w.child.hasDynamic()
}

func (w *wspec) shape() string {
	switch w.kind {
	case 'C':
		return "C(" + w.child.shape() + ")"
	case 'T', 'R':
		if w.soft {
			return string(w.kind) + "s"
		}
		return string(w.kind) + "h"
	case 'D':
		if w.cursor {
			return "Dc"
		}
		return "Dn"
	}
	return string(w.kind)
}

// hasAlloc: the tree contains a widget that allocates Max.Width x Max.Height cells.
func (w *wspec) hasAlloc() bool {
	for x := w; x != nil; x = x.child {
		if x.kind == 'C' || x.kind == 'B' || x.kind == 'D' {
			return true
		}
	}
	return false
}

const lineCap = 70000

type lineEnc struct {
	sb    strings.Builder
	n     int
	cells int
}

func (e *lineEnc) startLine() {
	if e.n > 0 {
		e.sb.WriteByte('/')
	}
	e.n++
	e.cells = 0
}

func (e *lineEnc) cell(g string, w int, st int) {
	if e.cells > 0 {
		e.sb.WriteByte(',')
	}
	e.cells++
	e.sb.WriteString(strconv.FormatUint(uint64(gid(g)), 10))
	e.sb.WriteByte('.')
	e.sb.WriteString(strconv.Itoa(w))
	e.sb.WriteByte('.')
	e.sb.WriteString(strconv.Itoa(st))
}

func (e *lineEnc) endLine() {
	if e.cells == 0 {
		e.sb.WriteByte('_')
	}
}

func (e *lineEnc) String() string {
	if e.n == 0 {
		return "~"
	}
	return e.sb.String()
}

func (e *lineEnc) chars(cs []vaxis.Character, st int) {
	e.startLine()
	for _, c := range cs {
		e.cell(c.Grapheme, c.Width, st)
	}
	e.endLine()
}

func (e *lineEnc) cellsLine(cs []vaxis.Cell, tg *tagger) {
	e.startLine()
	for _, c := range cs {
		e.cell(c.Grapheme, c.Width, tg.of(c.Style))
	}
	e.endLine()
}

// scanLines runs the real scanner of the leaf widget for this constraint. capped: more than lineCap
// lines (the list is cut there).
func scanLines(w *wspec, ctx vxfw.DrawContext) (enc string, nLines int, capped bool, panicked bool, msg string) {
	var e lineEnc
	panicked, msg = hx.Guard(func() {
		switch w.kind {
		case 'T', 'B':
			if w.kind == 'B' || w.soft {
				sc := text.NewSoftwrapScanner(w.text, ctx.Max.Width)
				for sc.Scan(ctx) {
					if e.n >= lineCap {
						capped = true
						return
					}
					e.chars(ctx.Characters(sc.Text()), w.st)
				}
				return
			}
			// the lines of a Text that is not soft-wrapped: the widget's own splitter (hook; since /repo
			// 3fa26b1 it splits at the hard line breaks itself, before: bufio.ScanLines)
			for _, line := range text.VerifC14HardLines(w.text) {
				if e.n >= lineCap {
					capped = true
					return
				}
				e.chars(ctx.Characters(line), w.st)
			}
		case 'R':
			cells := []vaxis.Cell{}
			for _, s := range w.segs {
				st := tagStyle(s.tag)
				for _, ch := range ctx.Characters(s.text) {
					cells = append(cells, vaxis.Cell{Character: ch, Style: st})
				}
			}
			var tg tagger
			if w.soft {
				sc := richtext.NewSoftwrapScanner(cells, ctx.Max.Width)
				for sc.Scan() {
					if e.n >= lineCap {
						capped = true
						return
					}
					e.cellsLine(sc.Text(), &tg)
				}
				return
			}
			sc := richtext.NewHardwrapScanner(cells)
			for sc.Scan() {
				if e.n >= lineCap {
					capped = true
					return
				}
				e.cellsLine(sc.Line(), &tg)
			}
		case 'F':
			cs := ctx.Characters(w.text)
			if len(cs) > 0 {
				e.chars(cs, w.st)
			}
		}
	})
	return e.String(), e.n, capped, panicked, msg
}

func hexSegs(segs []seg) string {
	if len(segs) == 0 {
		return "-"
	}
	ss := make([]string, len(segs))
	for i, s := range segs {
		ss[i] = strconv.Itoa(s.tag) + "=" + hx.Hex(s.text)
	}
	return strings.Join(ss, "|")
}

func hs(soft bool) string {
	if soft {
		return "s"
	}
	return "h"
}

type tokRes struct {
	nLines   int
	capped   bool
	panicked bool
	msg      string
	leaves   int
}

// tokens of the widget tree (prefix notation); every leaf's lines are what the real scanner yields
// for the constraint that leaf receives (Center and Button hand Max on, Dynamic hands its items
// Max.Width - colOffset x unbounded). For a Dynamic only the items it drew are listed.
func (w *wspec) tokens(ctx vxfw.DrawContext, res *tokRes) string {
	leaf := func() string {
		lines, n, capped, p, msg := scanLines(w, ctx)
		if res.leaves == 0 {
			res.nLines = n
		}
		res.leaves++
		res.capped = res.capped || capped
		if p && !res.panicked {
			res.panicked, res.msg = true, msg
		}
		return lines
	}
	switch w.kind {
	case 'C':
		return "C " + w.child.tokens(ctx, res)
	case 'T':
		return fmt.Sprintf("T %s %d %s %s", hs(w.soft), w.st, hx.Hex(w.text), leaf())
	case 'R':
		return fmt.Sprintf("R %s %s %s", hs(w.soft), hexSegs(w.segs), leaf())
	case 'F':
		return fmt.Sprintf("F %d %s %s", w.st, hx.Hex(w.text), leaf())
	case 'B':
		return fmt.Sprintf("B %d %s %s", w.st, hx.Hex(w.text), leaf())
	case 'D':
		off := 0
		c := "n"
		if w.cursor {
			off, c = 2, "c"
		}
		chCtx := vxfw.DrawContext{
			Max:        vxfw.Size{Width: ctx.Max.Width - uint16(off), Height: 65535},
			Characters: ctx.Characters,
		}
		parts := []string{fmt.Sprintf("D %s %d %d", c, w.gap, len(w.drawn))}
		for _, i := range w.drawn {
			parts = append(parts, w.kids[i].tokens(chCtx, res))
		}
		return strings.Join(parts, " ")
	}
	panic("bad widget kind")
}

func dumpSizes(sb *strings.Builder, s *vxfw.Surface, depth, col, row, z int) {
	if sb.Len() > 0 {
		sb.WriteByte(';')
	}
	fmt.Fprintf(sb, "%d:%d:%d:%d:%d:%d:%d", depth, col, row, z, s.Size.Width, s.Size.Height, len(s.Buffer))
	for i := range s.Children {
		ch := &s.Children[i]
		dumpSizes(sb, &ch.Surface, depth+1, ch.Origin.Col, ch.Origin.Row, ch.ZIndex)
	}
}

func dumpNode(sb *strings.Builder, s *vxfw.Surface, depth, col, row, z int) {
	if sb.Len() > 0 {
		sb.WriteByte(';')
	}
	fmt.Fprintf(sb, "%d:%d:%d:%d:%d:%d:%d:", depth, col, row, z, s.Size.Width, s.Size.Height, len(s.Buffer))
	var tg tagger
	fill, nEmpty, mixed := 0, 0, false
	var cells strings.Builder
	nCells := 0
	for i := range s.Buffer {
		c := &s.Buffer[i]
		t := tg.of(c.Style)
		if c.Grapheme == "" {
			if nEmpty == 0 {
				fill = t
			} else if t != fill {
				mixed = true
			}
			nEmpty++
			continue
		}
		if nCells > 0 {
			cells.WriteByte(',')
		}
		nCells++
		cells.WriteString(strconv.Itoa(i))
		cells.WriteByte('=')
		cells.WriteString(strconv.FormatUint(uint64(gid(c.Grapheme)), 10))
		cells.WriteByte('.')
		cells.WriteString(strconv.Itoa(c.Width))
		cells.WriteByte('.')
		cells.WriteString(strconv.Itoa(t))
	}
	switch {
	case nEmpty == 0:
		sb.WriteByte('-')
	case mixed:
		sb.WriteByte('x')
	default:
		sb.WriteString(strconv.Itoa(fill))
	}
	sb.WriteByte(':')
	if nCells == 0 {
		sb.WriteByte('-')
	} else {
		sb.WriteString(cells.String())
	}
	for i := range s.Children {
		ch := &s.Children[i]
		dumpNode(sb, &ch.Surface, depth+1, ch.Origin.Col, ch.Origin.Row, ch.ZIndex)
	}
}

type dctx struct{ minW, minH, maxW, maxH int }

// doDraw runs one draw case. ok=false: the case cannot be run (counted).
func doDraw(r *hx.Run, c dctx, w *wspec) (op, impl string, ok bool) {
	ctx := vxfw.DrawContext{
		Min:        vxfw.Size{Width: uint16(c.minW), Height: uint16(c.minH)},
		Max:        vxfw.Size{Width: uint16(c.maxW), Height: uint16(c.maxH)},
		Characters: vaxis.Characters,
	}
	// the real Draw first: which items a Dynamic draws is an outcome of the run
	widget := w.build()
	var s vxfw.Surface
	var err error
	panicked, msg := hx.Guard(func() {
		s, err = widget.Draw(ctx)
	})
	var tr tokRes
	toks := w.tokens(ctx, &tr)
	if tr.panicked {
		r.Count("scanner-panic")
		r.Count("scanner-panic: " + normMsg(tr.msg))
		return "", "", false
	}
	if tr.capped {
		r.Count("scanner-capped")
		if c.maxH >= 65535 || w.hasDynamic() {
			// Draw's row guard never fires: it would consume every line
			r.Count("skipped:capped-unbounded")
			return "", "", false
		}
	}
	nLines := tr.nLines
	switch {
	case w.hasDynamic():
	case nLines == 0:
		r.Count("lines:0")
	case nLines <= c.maxH:
		r.Count("lines:<=maxH")
	case nLines == c.maxH+1:
		r.Count("lines:maxH+1")
	case nLines > 65535:
		r.Count("lines:>65535")
	default:
		r.Count("lines:>maxH+1")
	}
	kind := "draw"
	if w.hasDynamic() {
		kind = "drawz"
	}
	op = fmt.Sprintf("%s %d,%d,%d,%d %s", kind, c.minW, c.minH, c.maxW, c.maxH, toks)
	if panicked {
		if strings.Contains(msg, "must have bounded constraints") || strings.Contains(msg, "cannot have unbounded height or width") {
			r.Count("draw-result:panic:explicit")
			return op, "panic:explicit", true
		}
		r.Count("draw-result:panic:runtime")
		r.Count("draw-panic: " + normMsg(msg))
		return op, "panic:runtime", true
	}
	if err != nil {
		r.Count("draw-error: " + normMsg(err.Error()))
	}
	r.Count("draw-result:surface")
	var sb strings.Builder
	if kind == "drawz" {
		dumpSizes(&sb, &s, 0, 0, 0, 0)
	} else {
		dumpNode(&sb, &s, 0, 0, 0, 0)
	}
	return op, sb.String(), true
}

func lineN(s string, n int) string {
	ss := make([]string, n)
	for i := range ss {
		ss[i] = s
	}
	return strings.Join(ss, "\n")
}

var contents = []string{
	"",
	"hi",
	"hello world foo",
	"a\nb\nc\nd\ne",
	"世界你好",
	"x y z w v u t s r q p",
	strings.Repeat("0123456789", 30),
	"a\n\nb",
	"tab\there",
	"👩‍🚀 ok",
	lineN("l", 70),
	// round 3: lines exactly as wide as a small Max.Width (3, 5) and one column wider, a wide grapheme
	// in the last column, a trailing zero-width grapheme (the F316 shapes); CRLF and a lone CR (text.hardLines)
	"abc\nab世\nabcde\u200b",
	"a\r\nb\rc",
}

var consV = []int{0, 1, 2, 3, 5, 80, 255, 256, 65534, 65535}

var stTags = []int{0, 3, 5, 7, 200}

func wrapC(n int, w *wspec) *wspec {
	for i := 0; i < n; i++ {
		w = &wspec{kind: 'C', child: w}
	}
	return w
}

type shapeT struct {
	kind  byte
	soft  bool
	depth int // number of Centers around
}

var shapes = []shapeT{
	{'T', false, 0}, {'T', true, 0}, {'R', false, 0}, {'R', true, 0}, {'F', false, 0}, {'B', false, 0},
	{'T', true, 1}, {'T', false, 1}, {'R', true, 1}, {'F', false, 1}, {'B', false, 1},
	{'T', true, 2}, {'B', false, 2},
}

// splitSegs cuts content into n segments at rune boundaries, with distinct tags.
func splitSegs(rng *gen.Rng, content string, n int) []seg {
	if n == 0 {
		return nil
	}
	var bounds []int
	for i := range content {
		bounds = append(bounds, i)
	}
	bounds = append(bounds, len(content))
	cuts := []int{0}
	for i := 1; i < n; i++ {
		cuts = append(cuts, bounds[rng.Intn(len(bounds))])
	}
	cuts = append(cuts, len(content))
	// sort the few cuts
	for i := 1; i < len(cuts); i++ {
		for j := i; j > 0 && cuts[j] < cuts[j-1]; j-- {
			cuts[j], cuts[j-1] = cuts[j-1], cuts[j]
		}
	}
	base := rng.Intn(6)
	var out []seg
	for i := 0; i+1 < len(cuts); i++ {
		out = append(out, seg{tag: base + 2*i, text: content[cuts[i]:cuts[i+1]]})
	}
	return out
}

func mkWidget(rng *gen.Rng, sh shapeT, content string) *wspec {
	w := &wspec{kind: sh.kind, soft: sh.soft, st: gen.Pick(rng, stTags), text: content}
	if sh.kind == 'R' {
		n := 1 + rng.Intn(3)
		if content == "" && rng.Bool() {
			n = 0
		}
		w.segs = splitSegs(rng, content, n)
		w.text = ""
	}
	return wrapC(sh.depth, w)
}

func tooBig(w *wspec, maxW, maxH int) bool {
	return w.hasAlloc() && maxW < 65535 && maxH < 65535 && maxW*maxH > 2000000
}

func emitDraw(r *hx.Run, c dctx, w *wspec) {
	if tooBig(w, c.maxW, c.maxH) {
		r.Count("skipped:huge")
		return
	}
	op, impl, ok := doDraw(r, c, w)
	if !ok {
		return
	}
	r.Emit(op, impl)
	r.Count("kind:draw")
	r.Count("draw:" + w.shape())
}

var alphabet = []string{"a", "b", "é", "世", "🔥", "👩‍🚀", " ", " ", "\t", "\n", "\n", "-", "x", "界", "foo", "lorem ", "́"}

func randText(rng *gen.Rng, maxLen int) string {
	n := rng.Intn(maxLen + 1)
	var sb strings.Builder
	for i := 0; i < n; i++ {
		sb.WriteString(gen.Pick(rng, alphabet))
	}
	return sb.String()
}

func randCons(rng *gen.Rng) int {
	if rng.Chance(1, 3) {
		return gen.Pick(rng, consV)
	}
	return rng.Intn(13)
}

func genDraw(r *hx.Run, rng *gen.Rng) {
	rr := 0
	for _, sh := range shapes {
		for _, mw := range consV {
			for _, mh := range consV {
				c := dctx{0, 0, mw, mh}
				if r.Thorough {
					for _, ct := range contents {
						emitDraw(r, c, mkWidget(rng, sh, ct))
					}
					continue
				}
				n := 4
				if rng.Bool() {
					n = 5
				}
				emitDraw(r, c, mkWidget(rng, sh, contents[rr%len(contents)]))
				rr++
				for i := 1; i < n; i++ {
					emitDraw(r, c, mkWidget(rng, sh, gen.Pick(rng, contents)))
				}
			}
		}
	}
	// random contents / constraints / Min
	nRand := 600
	if r.Thorough {
		nRand = 42000
	}
	for i := 0; i < nRand; i++ {
		sh := gen.Pick(rng, shapes)
		var ct string
		if rng.Chance(1, 3) {
			ct = gen.Pick(rng, contents)
		} else {
			ct = randText(rng, 14)
		}
		c := dctx{0, 0, randCons(rng), randCons(rng)}
		if !r.Thorough || rng.Bool() {
			c.minW, c.minH = gen.Pick(rng, []int{1, 2, 3, 5, 80, 65535}), gen.Pick(rng, []int{0, 1, 2, 3, 5, 80})
			r.Count("draw:nonzero-min")
		}
		emitDraw(r, c, mkWidget(rng, sh, ct))
		r.Count("draw:random")
	}
	genDynamic(r, rng.Fork(5))
	if r.Thorough {
		// 65536 lines: the uint16 height counters wrap
		big := lineN("a", 65536)
		for _, soft := range []bool{false, true} {
			for _, mw := range []int{1, 5} {
				for _, mh := range []int{0, 1, 80, 65534, 65535} {
					// a 65535-row surface costs the Lean model (lists) about 80 s: one such case only
					if mh == 65534 && !(soft && mw == 1) {
						continue
					}
					emitDraw(r, dctx{0, 0, mw, mh}, mkWidget(rng, shapeT{'T', soft, 0}, big))
					r.Count("draw:65536-lines")
				}
			}
		}
		emitDraw(r, dctx{0, 0, 5, 80}, mkWidget(rng, shapeT{'T', true, 1}, big))
		emitDraw(r, dctx{0, 0, 2, 255}, mkWidget(rng, shapeT{'T', false, 1}, big))
		r.Count("draw:65536-lines")
		r.Count("draw:65536-lines")
	}
}

// list.Dynamic: items Text (1..6 lines, soft/hard), RichText, TextField, and the widgets that cannot
// live in a list (Button, Center, another Dynamic: they get an unbounded height and panic).
func dynItem(rng *gen.Rng, depth int) *wspec {
	k := rng.Intn(20)
	switch {
	case k < 8:
		return mkWidget(rng, shapeT{'T', rng.Bool(), 0}, gen.Pick(rng, []string{"", "hi", "a\nb", "a\nb\nc\nd\ne", "hello world foo", "世界你好", lineN("l", 7), "x y z w v u t s r q p"}))
	case k < 11:
		return mkWidget(rng, shapeT{'R', rng.Bool(), 0}, gen.Pick(rng, []string{"hi", "a\nb\nc", "hello world foo"}))
	case k < 16:
		return mkWidget(rng, shapeT{'F', false, 0}, gen.Pick(rng, []string{"", "field", "世界"}))
	case k < 17:
		return mkWidget(rng, shapeT{'B', false, 0}, "ok")
	case k < 18:
		return mkWidget(rng, shapeT{'T', true, 1}, "hi")
	case k < 19 && depth < 2:
		return mkDynamic(rng, depth+1)
	}
	return mkWidget(rng, shapeT{'T', true, 0}, randText(rng, 10))
}

func mkDynamic(rng *gen.Rng, depth int) *wspec {
	w := &wspec{kind: 'D', cursor: rng.Chance(2, 5), gap: gen.Pick(rng, []int{0, 0, 0, 1, 2})}
	n := gen.Pick(rng, []int{0, 1, 2, 3, 3, 4, 6, 9})
	for i := 0; i < n; i++ {
		w.kids = append(w.kids, dynItem(rng, depth))
	}
	return w
}

func genDynamic(r *hx.Run, rng *gen.Rng) {
	per := 3
	if r.Thorough {
		per = 20
	}
	emit := func(c dctx, w *wspec) {
		if w.cursor && c.maxH > 2000 && c.maxH < 65535 {
			// the gutter loop writes two cells per row; keep the model's buffer small
			c.maxW = c.maxW % 7
		}
		emitDraw(r, c, w)
		r.Count("draw:dynamic")
		for w.kind == 'C' {
			w = w.child
		}
		if len(w.drawn) < len(w.kids) {
			r.Count("dynamic:drew-a-prefix")
		} else {
			r.Count("dynamic:drew-all")
		}
		r.Count(fmt.Sprintf("dynamic:drawn=%d", len(w.drawn)))
		for _, i := range w.drawn {
			r.Count("dynamic:item:" + w.kids[i].shape())
		}
	}
	for _, mw := range consV {
		for _, mh := range consV {
			for i := 0; i < per; i++ {
				w := mkDynamic(rng, 0)
				if rng.Chance(1, 6) {
					w = wrapC(1, w)
				}
				emit(dctx{0, 0, mw, mh}, w)
			}
		}
	}
	n := 400
	if r.Thorough {
		n = 6000
	}
	for i := 0; i < n; i++ {
		w := mkDynamic(rng, 0)
		emit(dctx{0, 0, rng.Intn(13), rng.Intn(13)}, w)
	}
	// round 3: long lists of items a list can hold (Text / RichText / TextField, 1-2 lines each) under a
	// Max.Height around the sum of their heights, so that 5..9 items are drawn (drawn=7..9 had 1-2 cases)
	n = 60
	if r.Thorough {
		n = 600
	}
	for i := 0; i < n; i++ {
		w := &wspec{kind: 'D', cursor: rng.Chance(2, 5), gap: gen.Pick(rng, []int{0, 0, 1})}
		k := rng.Range(6, 9)
		for j := 0; j < k; j++ {
			switch rng.Intn(3) {
			case 0:
				w.kids = append(w.kids, mkWidget(rng, shapeT{'T', rng.Bool(), 0}, gen.Pick(rng, []string{"hi", "a\nb", "世界"})))
			case 1:
				w.kids = append(w.kids, mkWidget(rng, shapeT{'R', rng.Bool(), 0}, gen.Pick(rng, []string{"hi", "a\nb"})))
			default:
				w.kids = append(w.kids, mkWidget(rng, shapeT{'F', false, 0}, gen.Pick(rng, []string{"", "field"})))
			}
		}
		c := dctx{0, 0, gen.Pick(rng, []int{3, 4, 10, 80}), rng.Range(5, 22)}
		emit(c, w)
		r.Count("dynamic:long-list-family")
		// round 3, op `drawzs`: the same list in a *scrolled* state — after a first Draw, a few calls of
		// the exported API (SetCursor, NextItem, PrevItem, SetPendingScroll) and a second Draw.  No model
		// (the scroll logic is C19's): the driver evaluates the size / buffer-length oracle on the surfaces.
		emitScrolled(r, rng, c, w)
		emitScrolled(r, rng, dctx{0, 0, c.maxW, rng.Range(1, 6)}, w)
	}
}

// emitScrolled: op `drawzs mw,mh c|n` with the sizes of every surface of the second Draw.
func emitScrolled(r *hx.Run, rng *gen.Rng, c dctx, w *wspec) {
	ctx := vxfw.DrawContext{Max: vxfw.Size{Width: uint16(c.maxW), Height: uint16(c.maxH)}, Characters: vaxis.Characters}
	d, ok := w.build().(*list.Dynamic)
	if !ok {
		return
	}
	var s vxfw.Surface
	var acts []string
	panicked, _ := hx.Guard(func() {
		if _, err := d.Draw(ctx); err != nil {
			return
		}
		for k := rng.Range(2, 6); k > 0; k-- {
			switch rng.Intn(4) {
			case 0:
				n := uint(rng.Intn(len(w.kids) + 1))
				d.SetCursor(n)
				acts = append(acts, fmt.Sprintf("cursor%d", n))
			case 1:
				d.NextItem()
				acts = append(acts, "next")
			case 2:
				d.PrevItem()
				acts = append(acts, "prev")
			default:
				n := rng.Range(-6, 12)
				d.SetPendingScroll(n)
				acts = append(acts, fmt.Sprintf("scroll%d", n))
			}
			// a Draw after every call: the scroll state (top item, offset) only moves in Draw, and
			// insertChildren only runs when a later Draw scrolls up above a top item > 0
			s, _ = d.Draw(ctx)
		}
	})
	cur := "n"
	if w.cursor {
		cur = "c"
	}
	op := fmt.Sprintf("drawzs %d,%d %s %d %s", c.maxW, c.maxH, cur, w.gap, strings.Join(acts, ","))
	r.Count("draw:dynamic-scrolled")
	if panicked {
		r.Emit(op, "panic:runtime")
		return
	}
	if d.Offset() != 0 {
		r.Count("dynamic-scrolled:offset!=0")
	}
	if len(s.Children) > 0 && s.Children[0].Origin.Row < 0 {
		r.Count("dynamic-scrolled:first-item-above-the-viewport")
	}
	var sb strings.Builder
	dumpSizes(&sb, &s, 0, 0, 0, 0)
	r.Emit(op, sb.String())
}

// ---------------------------------------------------------------------------------------------
// render

type rnode struct {
	col, row, z, w, h int
	buf               []vaxis.Cell
	kids              []*rnode
}

func (n *rnode) surface() vxfw.Surface {
	s := vxfw.Surface{
		Size:   vxfw.Size{Width: uint16(n.w), Height: uint16(n.h)},
		Buffer: append([]vaxis.Cell(nil), n.buf...),
	}
	for _, k := range n.kids {
		s.Children = append(s.Children, vxfw.SubSurface{
			Origin:  vxfw.RelativePoint{Row: k.row, Col: k.col},
			Surface: k.surface(),
			ZIndex:  k.z,
		})
	}
	return s
}

func (n *rnode) write(sb *strings.Builder, depth int) {
	if sb.Len() > 0 {
		sb.WriteByte(';')
	}
	fmt.Fprintf(sb, "%d:%d:%d:%d:%d:%d:%d:", depth, n.col, n.row, n.z, n.w, n.h, len(n.buf))
	if len(n.buf) == 0 {
		sb.WriteByte('-')
	}
	var tg tagger
	// runs of 4 or more equal cells are written as `g.w.st*N` (large surfaces stay short lines)
	for i := 0; i < len(n.buf); {
		j := i
		for j < len(n.buf) && n.buf[j] == n.buf[i] {
			j++
		}
		c := n.buf[i]
		tok := fmt.Sprintf("%d.%d.%d", gid(c.Grapheme), c.Width, tg.of(c.Style))
		if j-i >= 4 {
			if i > 0 {
				sb.WriteByte(',')
			}
			fmt.Fprintf(sb, "%s*%d", tok, j-i)
		} else {
			for k := i; k < j; k++ {
				if k > 0 {
					sb.WriteByte(',')
				}
				sb.WriteString(tok)
			}
		}
		i = j
	}
	for _, k := range n.kids {
		k.write(sb, depth+1)
	}
}

type vxKey struct{ sw, sh int }

var vxCache = map[vxKey]*vaxis.Vaxis{}

func getVx(k vxKey) (*vaxis.Vaxis, error) {
	if vx, ok := vxCache[k]; ok {
		return vx, nil
	}
	fc := fakeconsole.New(k.sw, k.sh, fakeconsole.FromMask(0))
	vx, err := vaxis.New(vaxis.Options{WithConsole: fc, NoSignals: true})
	if err != nil {
		return nil, err
	}
	vxCache[k] = vx
	return vx, nil
}

// doRender paints root on a sentinel screen through a hook: kind "render" = VerifC14RenderRoot (the
// render call of App.Run), kind "bare" = VerifC14Render (the bare recursive render).
func doRender(r *hx.Run, kind string, sw, sh int, root *rnode) (string, string, error) {
	var sb strings.Builder
	root.write(&sb, 0)
	op := fmt.Sprintf("%s %dx%d %s", kind, sw, sh, sb.String())
	vx, err := getVx(vxKey{sw, sh})
	if err != nil {
		return "", "", err
	}
	vx.Window().Fill(sentinel)
	rows := vx.VerifC11NextCells()
	if len(rows) != sh {
		return "", "", fmt.Errorf("screen has %d rows, want %d", len(rows), sh)
	}
	for _, row := range rows {
		if len(row) != sw {
			return "", "", fmt.Errorf("screen has %d columns, want %d", len(row), sw)
		}
		for _, c := range row {
			if c != sentinel {
				return "", "", fmt.Errorf("could not prefill the screen")
			}
		}
	}
	s := root.surface()
	panicked, msg := hx.Guard(func() {
		if kind == "bare" {
			vxfw.VerifC14Render(s, vx.Window())
		} else {
			vxfw.VerifC14RenderRoot(s, vx.Window())
		}
	})
	if panicked {
		r.Count(kind + "-panic: " + normMsg(msg))
		return op, "panic", nil
	}
	var cells []string
	for y, row := range vx.VerifC11NextCells() {
		for x, c := range row {
			if c != sentinel {
				cells = append(cells, fmt.Sprintf("%d,%d,%d,%d,%d", x, y, gid(c.Grapheme), c.Width, styleTag(c.Style)))
			}
		}
	}
	if len(cells) == 0 {
		r.Count(kind + ":paints-nothing")
		return op, "-", nil
	}
	r.Count(kind + ":paints-something")
	return op, strings.Join(cells, " "), nil
}

// ---------------------------------------------------------------------------------------------
// run: one frame of the real App.Run

// syncEv is delivered to the root widget after the frame: the frame is complete when it arrives.
type syncEv struct{}

// frameW is a root widget whose Draw returns a fixed hand-built surface tree.
type frameW struct {
	root   *rnode
	drawn  chan int
	parked chan struct{}
	resume chan struct{}
	nDraw  int
}

func (w *frameW) Draw(ctx vxfw.DrawContext) (vxfw.Surface, error) {
	s := w.root.surface()
	s.Widget = w
	w.nDraw++
	select {
	case w.drawn <- w.nDraw:
	default:
	}
	return s, nil
}

func (w *frameW) HandleEvent(ev vaxis.Event, ph vxfw.EventPhase) (vxfw.Command, error) {
	if _, ok := ev.(syncEv); ok {
		w.parked <- struct{}{}
		<-w.resume
		return vxfw.QuitCmd{}, nil
	}
	return nil, nil
}

type runRes struct {
	rows     [][]vaxis.Cell
	panicked bool
	hang     bool
	msg      string
	err      error
}

const runTimeout = 20 * time.Second

// runFrameReal starts a real App on a fake console of sw x sh, lets App.Run paint one frame of the
// widget and returns the screen (vaxis' next-frame buffer) as the frame left it. Run draws once
// before its loop (layout for the mouse handler) and once per frame: the second Draw call starts the
// frame; a custom event posted then is handled after the frame is complete.
func runFrameReal(sw, sh int, root *rnode) runRes {
	fc := fakeconsole.New(sw, sh, fakeconsole.FromMask(0))
	app, err := vxfw.NewApp(vaxis.Options{WithConsole: fc, NoSignals: true})
	if err != nil {
		return runRes{err: err}
	}
	vx := vxfw.VerifC14AppVaxis(app)
	w := &frameW{root: root, drawn: make(chan int, 8), parked: make(chan struct{}), resume: make(chan struct{})}
	done := make(chan string, 1)
	go func() {
		defer func() {
			if e := recover(); e != nil {
				done <- fmt.Sprint(e)
			}
		}()
		_ = app.Run(w)
		done <- ""
	}()
	app.PostEvent(vaxis.Redraw{})
	deadline := time.After(runTimeout)
	for {
		select {
		case n := <-w.drawn:
			if n == 2 {
				app.PostEvent(syncEv{})
			}
		case <-w.parked:
			rows := vx.VerifC11NextCells()
			w.resume <- struct{}{}
			select {
			case <-done:
			case <-time.After(runTimeout):
				return runRes{hang: true}
			}
			return runRes{rows: rows}
		case msg := <-done:
			if msg == "" {
				return runRes{err: fmt.Errorf("App.Run returned before the frame was painted")}
			}
			return runRes{panicked: true, msg: msg}
		case <-deadline:
			return runRes{hang: true}
		}
	}
}

var blank = vaxis.Cell{Character: vaxis.Character{Grapheme: " ", Width: 1}}

type runCase struct {
	sw, sh int
	root   *rnode
	counts []string
}

func runOpLine(sw, sh int, root *rnode) string {
	var sb strings.Builder
	root.write(&sb, 0)
	return fmt.Sprintf("run %dx%d %s", sw, sh, sb.String())
}

// canonRun turns the result of one real frame into the impl string (main goroutine only: gid and
// the counters are not synchronised).
func canonRun(r *hx.Run, sw, sh int, res runRes) (string, error) {
	switch {
	case res.err != nil:
		return "", res.err
	case res.hang:
		r.Count("run:hang")
		return "hang", nil
	case res.panicked:
		r.Count("run-panic: " + normMsg(res.msg))
		return "panic", nil
	}
	if len(res.rows) != sh {
		return "", fmt.Errorf("run: screen has %d rows, want %d", len(res.rows), sh)
	}
	var cells []string
	for y, row := range res.rows {
		if len(row) != sw {
			return "", fmt.Errorf("run: screen has %d columns, want %d", len(row), sw)
		}
		for x, c := range row {
			if c != blank {
				cells = append(cells, fmt.Sprintf("%d,%d,%d,%d,%d", x, y, gid(c.Grapheme), c.Width, styleTag(c.Style)))
			}
		}
	}
	if len(cells) == 0 {
		r.Count("run:paints-nothing")
		return "-", nil
	}
	r.Count("run:paints-something")
	return strings.Join(cells, " "), nil
}

// emitRuns runs the cases on a few goroutines (each frame waits for App.Run's 8 ms tick) and emits
// them in order.
func emitRuns(r *hx.Run, cases []runCase) error {
	res := make([]runRes, len(cases))
	var wg sync.WaitGroup
	next := make(chan int, len(cases))
	for i := range cases {
		next <- i
	}
	close(next)
	for k := 0; k < 8; k++ {
		wg.Add(1)
		go func() {
			defer wg.Done()
			for i := range next {
				res[i] = runFrameReal(cases[i].sw, cases[i].sh, cases[i].root)
			}
		}()
	}
	wg.Wait()
	for i, c := range cases {
		impl, err := canonRun(r, c.sw, c.sh, res[i])
		if err != nil {
			return err
		}
		r.Emit(runOpLine(c.sw, c.sh, c.root), impl)
		r.Count("kind:run")
		for _, k := range c.counts {
			r.Count(k)
		}
	}
	return nil
}

func kCell(k int) vaxis.Cell {
	return vaxis.Cell{Character: vaxis.Character{Grapheme: string(rune('a' + k)), Width: 1}, Style: tagStyle(10 + k)}
}

func fullBuf(k, n int) []vaxis.Cell {
	b := make([]vaxis.Cell, n)
	for i := range b {
		b[i] = kCell(k)
	}
	return b
}

var zChoices = []int{-1, 0, 0, 1, 2}

type treeGen struct {
	rng   *gen.Rng
	k     int
	nodes []*rnode
}

func (g *treeGen) node(col, row, z, w, h int) *rnode {
	n := &rnode{col: col, row: row, z: z, w: w, h: h, buf: fullBuf(g.k, w*h)}
	if len(n.buf) > 0 && g.rng.Chance(1, 10) {
		n.buf[g.rng.Intn(len(n.buf))] = vaxis.Cell{}
	}
	g.k++
	g.nodes = append(g.nodes, n)
	return n
}

func (g *treeGen) kids(p *rnode, depth int) {
	if depth >= 3 {
		return
	}
	maxKids := []int{4, 3, 2}[depth]
	n := g.rng.Intn(maxKids + 1)
	if depth == 0 && g.rng.Chance(1, 100) {
		n = g.rng.Range(5, 11)
	}
	for i := 0; i < n && g.k < 40; i++ {
		c := g.node(g.rng.Range(-2, p.w+2), g.rng.Range(-2, p.h+2), gen.Pick(g.rng, zChoices), g.rng.Intn(5), g.rng.Intn(4))
		p.kids = append(p.kids, c)
		g.kids(c, depth+1)
	}
}

func randTree(r *hx.Run, rng *gen.Rng, kind string, sw, sh int, otherSize int) *rnode {
	g := &treeGen{rng: rng}
	w, h := sw, sh
	if rng.Chance(otherSize, 10) {
		w, h = rng.Range(0, sw+2), rng.Range(0, sh+2)
		r.Count(kind + ":root-size!=screen")
	}
	root := g.node(0, 0, 0, w, h)
	g.kids(root, 0)
	if rng.Chance(3, 100) {
		n := gen.Pick(rng, g.nodes)
		k := 0
		for i, x := range g.nodes {
			if x == n {
				k = i
			}
		}
		if len(n.buf) > 0 && rng.Bool() {
			n.buf = n.buf[:rng.Intn(len(n.buf))]
			r.Count(kind + ":malformed-short")
		} else {
			n.buf = append(n.buf, fullBuf(k, rng.Range(1, 3))...)
			r.Count(kind + ":malformed-long")
			if n.w == 0 {
				r.Count(kind + ":malformed-long,width0")
			}
		}
	}
	r.Count(fmt.Sprintf("%s:nodes=%02d", kind, (len(g.nodes)+4)/5*5))
	return root
}

func emitRender(r *hx.Run, sw, sh int, root *rnode) error { return emitHook(r, "render", sw, sh, root) }

func emitHook(r *hx.Run, kind string, sw, sh int, root *rnode) error {
	op, impl, err := doRender(r, kind, sw, sh, root)
	if err != nil {
		return err
	}
	r.Emit(op, impl)
	r.Count("kind:" + kind)
	return nil
}

// rootFamily: a 4x3 screen, every root size 0..5 x 0..4 (smaller, equal, larger than the screen),
// one 2x2 child at offsets around the root's corners, with a 1x1 grandchild poking out of it.
func rootFamily(f func(sw, sh int, root *rnode, key string) error) error {
	for rw := 0; rw <= 5; rw++ {
		for rh := 0; rh <= 4; rh++ {
			for _, c := range []int{-1, 0, 1, 3} {
				for _, rr := range []int{-1, 0, 2} {
					root := &rnode{w: rw, h: rh, buf: fullBuf(0, rw*rh)}
					ch := &rnode{col: c, row: rr, z: 0, w: 2, h: 2, buf: fullBuf(1, 4)}
					ch.kids = []*rnode{{col: 1, row: 1, w: 2, h: 1, buf: fullBuf(2, 2)}}
					root.kids = []*rnode{ch}
					key := "root=screen"
					switch {
					case rw < 4 || rh < 3:
						key = "root<screen"
					case rw > 4 || rh > 3:
						key = "root>screen"
					}
					if err := f(4, 3, root, key); err != nil {
						return err
					}
				}
			}
		}
	}
	return nil
}

func genRender(r *hx.Run, rng *gen.Rng) error {
	// bounded-exhaustive: one 2x2 child at every offset, one 1x1 grandchild
	for c := -3; c <= 5; c++ {
		for rw := -3; rw <= 4; rw++ {
			for gc := -1; gc <= 2; gc++ {
				for gr := -1; gr <= 2; gr++ {
					root := &rnode{w: 4, h: 3, buf: fullBuf(0, 12)}
					ch := &rnode{col: c, row: rw, w: 2, h: 2, buf: fullBuf(1, 4)}
					g := &rnode{col: gc, row: gr, w: 1, h: 1, buf: fullBuf(2, 1)}
					ch.kids = []*rnode{g}
					root.kids = []*rnode{ch}
					if err := emitRender(r, 4, 3, root); err != nil {
						return err
					}
					r.Count("render:family-child-grandchild")
				}
			}
		}
	}
	// two 2x1 children, all offsets, z pairs
	zp := [][2]int{{0, 0}, {1, 0}, {0, 1}, {-1, -1}}
	for c1 := 0; c1 <= 3; c1++ {
		for r1 := 0; r1 <= 1; r1++ {
			for c2 := 0; c2 <= 3; c2++ {
				for r2 := 0; r2 <= 1; r2++ {
					for _, z := range zp {
						root := &rnode{w: 4, h: 3, buf: fullBuf(0, 12)}
						a := &rnode{col: c1, row: r1, z: z[0], w: 2, h: 1, buf: fullBuf(1, 2)}
						b := &rnode{col: c2, row: r2, z: z[1], w: 2, h: 1, buf: fullBuf(2, 2)}
						root.kids = []*rnode{a, b}
						if err := emitRender(r, 4, 3, root); err != nil {
							return err
						}
						r.Count("render:family-two-children")
					}
				}
			}
		}
	}
	// surfaces with more than 65535 cells, shown through a negative child origin so that rows at
	// and past cell index 65536 are visible; every row has its own content (grapheme 'a'+row%26,
	// style 1+row/26), so painting cell i with the content of cell i-65536 is seen.
	rowBuf := func(w, h int) []vaxis.Cell {
		buf := make([]vaxis.Cell, 0, w*h)
		for row := 0; row < h; row++ {
			c := vaxis.Cell{Character: vaxis.Character{Grapheme: string(rune('a' + row%26)), Width: 1}, Style: tagStyle(1 + (row/26)%250)}
			for col := 0; col < w; col++ {
				buf = append(buf, c)
			}
		}
		return buf
	}
	type bigT struct{ w, h int }
	bigs := []bigT{{257, 256}, {70, 1000}, {300, 300}}
	if r.Thorough {
		bigs = append(bigs, bigT{256, 257}, bigT{65535, 2}, bigT{2, 40000}, bigT{1000, 70}, bigT{255, 258})
	}
	for _, b := range bigs {
		first := 65536 / b.w // first row containing a cell of index >= 65536
		rowsOff := dedupe([]int{0, first - 1, first, first + 1, b.h - 2, b.h - 4, (first + b.h) / 2})
		colsOff := dedupe([]int{0, b.w - 3, b.w / 2})
		for _, ro := range rowsOff {
			for _, co := range colsOff {
				if ro < 0 || ro >= b.h || co < 0 || co >= b.w {
					continue
				}
				for _, nest := range []bool{false, true} {
					sw, sh := 6, 4
					root := &rnode{w: sw, h: sh, buf: fullBuf(0, sw*sh)}
					big := &rnode{col: -co, row: -ro, z: 0, w: b.w, h: b.h, buf: rowBuf(b.w, b.h)}
					if nest {
						// the large surface as a grandchild, under a 4x3 child at (1,1), with a small sibling on top
						mid := &rnode{col: 1, row: 1, w: 4, h: 3, buf: fullBuf(1, 12)}
						mid.kids = []*rnode{big, {col: 3, row: 0, z: 1, w: 1, h: 1, buf: fullBuf(2, 1)}}
						root.kids = []*rnode{mid}
					} else {
						root.kids = []*rnode{big}
					}
					if err := emitRender(r, sw, sh, root); err != nil {
						return err
					}
					r.Count("render:big-surface")
					if ro >= first {
						r.Count("render:big-surface,visible-row-past-65535")
					}
				}
			}
		}
	}

	n := 6000
	if r.Thorough {
		n = 60000
	}
	for i := 0; i < n; i++ {
		sw, sh := rng.Range(1, 6), rng.Range(1, 4)
		if err := emitRender(r, sw, sh, randTree(r, rng, "render", sw, sh, 3)); err != nil {
			return err
		}
		r.Count("render:random")
	}
	// root surface smaller / larger than the screen (the root clips its children: F114)
	if err := rootFamily(func(sw, sh int, root *rnode, key string) error {
		r.Count("render:family-root-size," + key)
		return emitRender(r, sw, sh, root)
	}); err != nil {
		return err
	}

	// bare: the recursive render without the root window of App.Run
	rb := rng.Fork(7)
	nb := 300
	if r.Thorough {
		nb = 4000
	}
	for i := 0; i < nb; i++ {
		sw, sh := rb.Range(1, 6), rb.Range(1, 4)
		if err := emitHook(r, "bare", sw, sh, randTree(r, rb, "bare", sw, sh, 6)); err != nil {
			return err
		}
	}

	// run: the same trees as the root surface of a frame of the real App.Run
	var cases []runCase
	if err := rootFamily(func(sw, sh int, root *rnode, key string) error {
		cases = append(cases, runCase{sw, sh, root, []string{"run:family-root-size," + key}})
		return nil
	}); err != nil {
		return err
	}
	rr := rng.Fork(8)
	nr := 500
	if r.Thorough {
		nr = 6000
	}
	for i := 0; i < nr; i++ {
		sw, sh := rr.Range(1, 6), rr.Range(1, 4)
		cases = append(cases, runCase{sw, sh, randTree(r, rr, "run", sw, sh, 6), []string{"run:random"}})
	}
	for _, b := range bigs[:1] {
		first := 65536 / b.w
		big := &rnode{col: 0, row: -first, z: 0, w: b.w, h: b.h, buf: rowBuf(b.w, b.h)}
		cases = append(cases, runCase{6, 4, &rnode{w: 6, h: 4, buf: fullBuf(0, 24), kids: []*rnode{big}}, []string{"run:big-surface"}})
		cases = append(cases, runCase{6, 4, &rnode{w: 3, h: 2, buf: fullBuf(0, 6), kids: []*rnode{big}}, []string{"run:big-surface"}})
	}
	// the surface trees real widgets return for a screen-sized constraint (what App.layout hands to
	// render), as the root surface of a frame
	rw := rng.Fork(9)
	nw := 160
	if r.Thorough {
		nw = 1500
	}
	realContents := []string{"hi", "hello world foo", "a\nb\nc", "世界你好", "x y z w v", "", "ab cd\nef"}
	for i := 0; i < nw+3*len(shapes); i++ {
		sw, sh := rw.Range(1, 10), rw.Range(1, 4)
		var w *wspec
		if i >= nw {
			// round 4: every shape at least three times (the random draw left some shapes with 4 cases)
			w = mkWidget(rw, shapes[(i-nw)%len(shapes)], realContents[(i-nw)%len(realContents)])
		} else if rw.Chance(1, 3) {
			w = mkDynamic(rw, 0)
			for _, k := range w.kids {
				for x := k; x != nil; x = x.child {
					if x.kind == 'T' || x.kind == 'F' || x.kind == 'B' {
						x.text = gen.Pick(rw, realContents)
					}
					if x.kind == 'R' {
						x.segs = []seg{{tag: 3, text: gen.Pick(rw, realContents)}}
					}
				}
			}
		} else {
			w = mkWidget(rw, gen.Pick(rw, shapes), gen.Pick(rw, realContents))
		}
		ctx := vxfw.DrawContext{Max: vxfw.Size{Width: uint16(sw), Height: uint16(sh)}, Characters: vaxis.Characters}
		var sf vxfw.Surface
		if p, _ := hx.Guard(func() { sf, _ = w.build().Draw(ctx) }); p {
			r.Count("run:widget-tree,draw-panicked")
			continue
		}
		cases = append(cases, runCase{sw, sh, surfaceToRnode(&sf, 0, 0, 0), []string{"run:widget-tree", "run:widget-tree:" + w.shape()}})
	}
	return emitRuns(r, cases)
}

// surfaceToRnode copies the surface tree a widget's Draw returned.
func surfaceToRnode(s *vxfw.Surface, col, row, z int) *rnode {
	n := &rnode{col: col, row: row, z: z, w: int(s.Size.Width), h: int(s.Size.Height), buf: append([]vaxis.Cell(nil), s.Buffer...)}
	for i := range s.Children {
		ch := &s.Children[i]
		n.kids = append(n.kids, surfaceToRnode(&ch.Surface, ch.Origin.Col, ch.Origin.Row, ch.ZIndex))
	}
	return n
}

// ---------------------------------------------------------------------------------------------
// replay / corpus

func atoi(s string) (int, bool) {
	n, err := strconv.Atoi(s)
	return n, err == nil
}

func unhex(s string) (string, bool) {
	if s == "-" {
		return "", true
	}
	if len(s)%2 != 0 {
		return "", false
	}
	b := make([]byte, len(s)/2)
	for i := range b {
		n, err := strconv.ParseUint(s[2*i:2*i+2], 16, 8)
		if err != nil {
			return "", false
		}
		b[i] = byte(n)
	}
	return string(b), true
}

// parseWidget parses one widget from the front of f and returns the rest.
func parseWidget(f []string, fuel int) (*wspec, []string, bool) {
	if fuel == 0 || len(f) == 0 {
		return nil, nil, false
	}
	switch f[0] {
	case "C":
		ch, rest, ok := parseWidget(f[1:], fuel-1)
		if !ok {
			return nil, nil, false
		}
		return &wspec{kind: 'C', child: ch}, rest, true
	case "T":
		if len(f) < 5 || (f[1] != "h" && f[1] != "s") {
			return nil, nil, false
		}
		st, ok1 := atoi(f[2])
		txt, ok2 := unhex(f[3])
		if !ok1 || !ok2 || st < 0 || st > 255 {
			return nil, nil, false
		}
		return &wspec{kind: 'T', soft: f[1] == "s", st: st, text: txt}, f[5:], true
	case "R":
		if len(f) < 4 || (f[1] != "h" && f[1] != "s") {
			return nil, nil, false
		}
		w := &wspec{kind: 'R', soft: f[1] == "s"}
		if f[2] != "-" {
			for _, p := range strings.Split(f[2], "|") {
				kv := strings.SplitN(p, "=", 2)
				if len(kv) != 2 {
					return nil, nil, false
				}
				tag, ok1 := atoi(kv[0])
				txt, ok2 := unhex(kv[1])
				if !ok1 || !ok2 || tag < 0 || tag > 255 {
					return nil, nil, false
				}
				w.segs = append(w.segs, seg{tag, txt})
			}
		}
		return w, f[4:], true
	case "F", "B":
		if len(f) < 4 {
			return nil, nil, false
		}
		st, ok1 := atoi(f[1])
		txt, ok2 := unhex(f[2])
		if !ok1 || !ok2 || st < 0 || st > 255 {
			return nil, nil, false
		}
		return &wspec{kind: f[0][0], st: st, text: txt}, f[4:], true
	case "D":
		if len(f) < 4 || (f[1] != "c" && f[1] != "n") {
			return nil, nil, false
		}
		gap, ok1 := atoi(f[2])
		k, ok2 := atoi(f[3])
		if !ok1 || !ok2 || k < 0 || k > 1000 {
			return nil, nil, false
		}
		w := &wspec{kind: 'D', cursor: f[1] == "c", gap: gap}
		rest := f[4:]
		for i := 0; i < k; i++ {
			ch, r2, ok := parseWidget(rest, fuel-1)
			if !ok {
				return nil, nil, false
			}
			w.kids = append(w.kids, ch)
			rest = r2
		}
		return w, rest, true
	}
	return nil, nil, false
}

var gidRev map[uint32]string

func graphemeOf(id uint32) (string, bool) {
	if gidRev == nil {
		gidRev = map[uint32]string{0: ""}
		for _, g := range []string{" ", "…", sentinelG, "m", "▐", "世", "界", "你", "好", "é"} {
			gidRev[gid(g)] = g
		}
		for k := 33; k < 127; k++ {
			gidRev[gid(string(rune(k)))] = string(rune(k))
		}
		for k := 0; k < 400; k++ {
			g := string(rune('a' + k))
			if utf8.ValidString(g) {
				gidRev[gid(g)] = g
			}
		}
	}
	g, ok := gidRev[id]
	return g, ok
}

func parseBuf(s string) ([]vaxis.Cell, bool) {
	if s == "-" {
		return nil, true
	}
	var out []vaxis.Cell
	for _, c := range strings.Split(s, ",") {
		reps := 1
		if k := strings.IndexByte(c, '*'); k >= 0 {
			n, ok := atoi(c[k+1:])
			if !ok || n < 0 {
				return nil, false
			}
			reps, c = n, c[:k]
		}
		p := strings.Split(c, ".")
		if len(p) != 3 {
			return nil, false
		}
		g, ok1 := atoi(p[0])
		w, ok2 := atoi(p[1])
		st, ok3 := atoi(p[2])
		if !ok1 || !ok2 || !ok3 || g < 0 || st < 0 || st > 255 {
			return nil, false
		}
		gs, ok := graphemeOf(uint32(g))
		if !ok {
			return nil, false
		}
		for k := 0; k < reps; k++ {
			out = append(out, vaxis.Cell{Character: vaxis.Character{Grapheme: gs, Width: w}, Style: tagStyle(st)})
		}
	}
	return out, true
}

func parseTree(s string) (*rnode, bool) {
	var stack []*rnode // stack[d] = last node of depth d
	for _, ns := range strings.Split(s, ";") {
		p := strings.Split(ns, ":")
		if len(p) != 8 {
			return nil, false
		}
		var v [7]int
		for i := 0; i < 7; i++ {
			x, ok := atoi(p[i])
			if !ok {
				return nil, false
			}
			v[i] = x
		}
		buf, ok := parseBuf(p[7])
		if !ok || len(buf) != v[6] || v[0] < 0 || v[4] < 0 || v[4] > 65535 || v[5] < 0 || v[5] > 65535 {
			return nil, false
		}
		n := &rnode{col: v[1], row: v[2], z: v[3], w: v[4], h: v[5], buf: buf}
		d := v[0]
		switch {
		case d == 0:
			if len(stack) != 0 {
				return nil, false
			}
			stack = []*rnode{n}
		case d > len(stack) || len(stack) == 0:
			return nil, false
		default:
			stack[d-1].kids = append(stack[d-1].kids, n)
			stack = append(stack[:d], n)
		}
	}
	if len(stack) == 0 {
		return nil, false
	}
	return stack[0], true
}

// runOp re-runs one op line from its fields.
func runOp(r *hx.Run, f []string) (op, impl string, ok bool) {
	if len(f) == 0 {
		return "", "", false
	}
	switch f[0] {
	case "ws":
		if len(f) != 5 {
			return "", "", false
		}
		var v [4]int
		for i := range v {
			x, ok := atoi(f[i+1])
			if !ok || x < 0 || x > 65535 {
				return "", "", false
			}
			v[i] = x
		}
		op, impl = doWs(r, v[0], v[1], v[2], v[3])
		return op, impl, true
	case "draw", "drawz":
		if len(f) < 3 {
			return "", "", false
		}
		cs := strings.Split(f[1], ",")
		if len(cs) != 4 {
			return "", "", false
		}
		var v [4]int
		for i := range v {
			x, ok := atoi(cs[i])
			if !ok || x < 0 || x > 65535 {
				return "", "", false
			}
			v[i] = x
		}
		w, rest, ok := parseWidget(f[2:], 12)
		if !ok || len(rest) != 0 {
			return "", "", false
		}
		return doDraw(r, dctx{v[0], v[1], v[2], v[3]}, w)
	case "render", "bare", "run":
		if len(f) != 3 {
			return "", "", false
		}
		d := strings.Split(f[1], "x")
		if len(d) != 2 {
			return "", "", false
		}
		sw, ok1 := atoi(d[0])
		sh, ok2 := atoi(d[1])
		if !ok1 || !ok2 || sw < 1 || sh < 1 || sw > 500 || sh > 500 {
			return "", "", false
		}
		root, ok := parseTree(f[2])
		if !ok {
			return "", "", false
		}
		if f[0] == "run" {
			impl, err := canonRun(r, sw, sh, runFrameReal(sw, sh, root))
			if err != nil {
				return "", "", false
			}
			return runOpLine(sw, sh, root), impl, true
		}
		op, impl, err := doRender(r, f[0], sw, sh, root)
		if err != nil {
			return "", "", false
		}
		return op, impl, true
	}
	return "", "", false
}

func closeAll() {
	for _, vx := range vxCache {
		vx.Close()
	}
	vxCache = map[vxKey]*vaxis.Vaxis{}
}

func run(r *hx.Run) error {
	defer closeAll()
	if r.Replay != "" {
		return hx.ReplayOps(r, func(op []string) (string, bool) {
			_, impl, ok := runOp(r, op)
			return impl, ok
		})
	}
	for _, ops := range hx.Corpus("C14") {
		for _, line := range ops {
			op, impl, ok := runOp(r, strings.Fields(line))
			if !ok {
				return fmt.Errorf("bad corpus op %q", line)
			}
			r.Emit(op, impl)
			r.Count("corpus")
		}
	}
	rng := gen.New(r.Seed)
	genWs(r)
	genDraw(r, rng.Fork(1))
	if err := genRender(r, rng.Fork(2)); err != nil {
		return err
	}
	r.Note("exhaustive", false)
	r.Note("ws", "all sizes W,H in {0,1,2,255,256,257,300} x boundary classes of col {0,1,W-1,W,W+1,65535} and row {0,1,H-1,H,H+1,H/2,65535,(218,219 for W=300)}; same in both tiers")
	r.Note("drawz", "list.Dynamic (fresh scroll state, DrawCursor on/off, Gap 0..2) with 0..9 items Text/RichText/TextField and the widgets a list cannot hold (Button, Center, Dynamic), also inside a Center, for Max in V x V and random small Max; the items Draw drew are recorded by wrapping the Builder's widgets; sizes and origins compared")
	r.Note("draw", "13 widget shapes (T h/s, R h/s, F, B, Center nestings to depth 3) x Max in V x V, V={0,1,2,3,5,80,255,256,65534,65535}, x fixed contents (quick: 4-5 per constraint, thorough: all 11), plus random contents/constraints/nonzero Min; thorough adds a 65536-line text; lines from the real scanners; Center/Button with Max.W*Max.H > 2e6 (both bounded) skipped")
	r.Note("render", "hand-built Surface trees on screens 1..6 x 1..4 painted through the hook that evaluates App.Run's render call: families (one 2x2 child at every offset with a 1x1 grandchild; two 2x1 children with z pairs; every root size 0..5 x 0..4 on a 4x3 screen with a child around the root's corners) and random trees (depth<=3, <=4 children, offsets [-2,parent+2], z in {-1,0,0,1,2}, ~3% malformed buffers); surfaces with more than 65535 cells")
	r.Note("run", "the root-size family, random trees (60% with a root size different from the screen) and a >65535-cell surface, and the surface trees real widgets (all six, nestings, Dynamic with its cursor surface) return for a screen-sized constraint, as the root surface of one frame of the real App.Run on a fake console")
	r.Note("bare", "random trees through the bare recursive render (hook VerifC14Render)")
	return nil
}
