package main

import (
	"bufio"
	"encoding/json"
	"errors"
	"fmt"
	"os"
	"strconv"
	"strings"

	"git.sr.ht/~rockorager/vaxis"
	"git.sr.ht/~rockorager/vaxis/vxfw"
	"verifharness/fakeconsole"
	"verifharness/gen"
	"verifharness/hx"
)

// C15 (handler level): vxfw focusHandler / mouseHandler / hitTest / handleCommand / Surface.render
// driven directly through the verif hooks, one vxfw.App per case on a fake console.
//
// Token grammar (space separated decimal ints, markers T/S/C are literal):
//
//	TREE   := id w h n (col row z TREE)*n
//	CMD    := 0 | 1 | 2 | 3 | 4 | 5 id | 6 | 7 k | 8 n CMD*n | 9 n CMD*n
//	SCRIPT := m CMD*m
func main() { hx.Main("C15", run) }

// ---------------------------------------------------------------------------------------------
// widgets

type customEv struct{ N int }

// errAnswer is the scripted answer "the handler returns a non-nil error" (script token 10).
type errAnswer struct{}

var errScripted = errors.New("scripted handler error")

func answer(c vxfw.Command) (vxfw.Command, error) {
	if _, is := c.(errAnswer); is {
		return nil, errScripted
	}
	return c, nil
}

type plainW struct {
	id int
	ss *sess
}

func (w *plainW) HandleEvent(ev vaxis.Event, ph vxfw.EventPhase) (vxfw.Command, error) {
	p := "?"
	switch ph {
	case vxfw.CapturePhase:
		p = "c"
	case vxfw.TargetPhase:
		p = "t"
	case vxfw.BubblePhase:
		p = "b"
	}
	return answer(w.ss.call(w.id, ev, p))
}

func (w *plainW) Draw(vxfw.DrawContext) (vxfw.Surface, error) { return vxfw.Surface{}, nil }

type capW struct{ plainW }

func (w *capW) CaptureEvent(ev vaxis.Event) (vxfw.Command, error) {
	return answer(w.ss.call(w.id, ev, "c"))
}

func evCode(ev vaxis.Event) string {
	switch e := ev.(type) {
	case vaxis.Key:
		return "K" + strconv.Itoa(int(e.Keycode))
	case customEv:
		return "U" + strconv.Itoa(e.N)
	case vxfw.Init:
		return "I"
	case vaxis.Mouse:
		return "M" + strconv.Itoa(e.Col) + "." + strconv.Itoa(e.Row)
	case vaxis.FocusIn:
		return "FI"
	case vaxis.FocusOut:
		return "FO"
	case vxfw.MouseEnter:
		return "ME"
	case vxfw.MouseLeave:
		return "ML"
	}
	return "X"
}

// ---------------------------------------------------------------------------------------------
// session (one per case)

type sess struct {
	fc     *fakeconsole.Console
	app    *vxfw.App
	vs     *vxfw.VerifSession
	ws     []vxfw.Widget
	ids    map[vxfw.Widget]int
	script []vxfw.Command
	calls  int
	log    []string
	err    bool // the entry point called by the last op returned an error
	flag   string // distribution counter set by the last op (read and cleared by emit)
}

func (s *sess) call(id int, ev vaxis.Event, ph string) vxfw.Command {
	s.log = append(s.log, strconv.Itoa(id)+":"+evCode(ev)+":"+ph)
	i := s.calls
	s.calls++
	if i < len(s.script) {
		return s.script[i]
	}
	return nil
}

func (s *sess) close() {
	if s != nil && s.app != nil {
		vxfw.VerifAppClose(s.app)
		s.app = nil
	}
}

func (s *sess) wid(w vxfw.Widget) string {
	if w == nil {
		return "nil"
	}
	if id, ok := s.ids[w]; ok {
		return strconv.Itoa(id)
	}
	return "nil"
}

func newSess(root int, caps map[int]bool, n int) (*sess, error) {
	s := &sess{ids: map[vxfw.Widget]int{}}
	s.fc = fakeconsole.New(80, 24, fakeconsole.FromMask(0xFFFFF))
	app, err := vxfw.NewApp(vaxis.Options{WithConsole: s.fc, NoSignals: true})
	if err != nil {
		return nil, err
	}
	s.app = app
	for i := 0; i < n; i++ {
		var w vxfw.Widget
		if caps[i] {
			w = &capW{plainW{id: i, ss: s}}
		} else {
			w = &plainW{id: i, ss: s}
		}
		s.ws = append(s.ws, w)
		s.ids[w] = i
	}
	s.vs = vxfw.VerifNewSession(app, s.ws[root])
	s.fc.Take()
	return s, nil
}

// ---------------------------------------------------------------------------------------------
// token parsing

type badOp struct{}

type cur struct {
	t []string
	i int
}

func (c *cur) tok() string {
	if c.i >= len(c.t) {
		panic(badOp{})
	}
	x := c.t[c.i]
	c.i++
	return x
}

func (c *cur) num() int {
	v, err := strconv.Atoi(c.tok())
	if err != nil {
		panic(badOp{})
	}
	return v
}

func (c *cur) lit(m string) {
	if c.tok() != m {
		panic(badOp{})
	}
}

func (c *cur) end() {
	if c.i != len(c.t) {
		panic(badOp{})
	}
}

func (s *sess) widget(id int) vxfw.Widget {
	if id < 0 || id >= len(s.ws) {
		panic(badOp{})
	}
	return s.ws[id]
}

func (s *sess) parseTree(c *cur, depth int) vxfw.Surface {
	if depth > 64 {
		panic(badOp{})
	}
	id, w, h, n := c.num(), c.num(), c.num(), c.num()
	if w < 0 || w > 65535 || h < 0 || h > 65535 || n < 0 || n > 64 {
		panic(badOp{})
	}
	sf := vxfw.Surface{
		Size:   vxfw.Size{Width: uint16(w), Height: uint16(h)},
		Widget: s.widget(id),
	}
	for k := 0; k < n; k++ {
		col, row, z := c.num(), c.num(), c.num()
		ch := s.parseTree(c, depth+1)
		sf.Children = append(sf.Children, vxfw.SubSurface{
			Origin:  vxfw.RelativePoint{Row: row, Col: col},
			ZIndex:  z,
			Surface: ch,
		})
	}
	return sf
}

func (s *sess) treeString(sf vxfw.Surface) string {
	var b strings.Builder
	var rec func(sf vxfw.Surface)
	rec = func(sf vxfw.Surface) {
		fmt.Fprintf(&b, "%s %d %d %d", s.wid(sf.Widget), sf.Size.Width, sf.Size.Height, len(sf.Children))
		for _, ch := range sf.Children {
			fmt.Fprintf(&b, " %d %d %d ", ch.Origin.Col, ch.Origin.Row, ch.ZIndex)
			rec(ch.Surface)
		}
	}
	rec(sf)
	return b.String()
}

func (s *sess) parseCmd(c *cur, depth int) vxfw.Command {
	if depth > 16 {
		panic(badOp{})
	}
	switch c.num() {
	case 0:
		return nil
	case 1:
		return vxfw.RedrawCmd{}
	case 2:
		return vxfw.RefreshCmd{}
	case 3:
		return vxfw.QuitCmd{}
	case 4:
		return vxfw.ConsumeEventCmd{}
	case 5:
		return vxfw.FocusWidgetCmd(s.widget(c.num()))
	case 6:
		return vxfw.DebugCmd{}
	case 7:
		return vxfw.SetTitleCmd("t" + strconv.Itoa(c.num()))
	case 8:
		n := c.num()
		if n < 0 || n > 64 {
			panic(badOp{})
		}
		out := vxfw.BatchCmd{}
		for i := 0; i < n; i++ {
			out = append(out, s.parseCmd(c, depth+1))
		}
		return out
	case 9:
		n := c.num()
		if n < 0 || n > 64 {
			panic(badOp{})
		}
		out := []vxfw.Command{}
		for i := 0; i < n; i++ {
			out = append(out, s.parseCmd(c, depth+1))
		}
		return out
	case 10:
		// only as a whole script answer: the handler returns (nil, error)
		if depth == 0 {
			return errAnswer{}
		}
	}
	panic(badOp{})
}

func (s *sess) parseScript(c *cur) []vxfw.Command {
	c.lit("S")
	m := c.num()
	if m < 0 || m > 256 {
		panic(badOp{})
	}
	out := make([]vxfw.Command, 0, m)
	for i := 0; i < m; i++ {
		out = append(out, s.parseCmd(c, 0))
	}
	return out
}

// ---------------------------------------------------------------------------------------------
// op interpreter

type interp struct {
	s      *sess
	panics func(msg string)
}

func hitsString(s *sess, hs []vxfw.VerifHit) string {
	if len(hs) == 0 {
		return "-"
	}
	parts := make([]string, 0, len(hs))
	for _, h := range hs {
		parts = append(parts, fmt.Sprintf("%d.%d.%s", h.Col, h.Row, s.wid(h.W)))
	}
	return strings.Join(parts, ",")
}

func titles(out []byte) string {
	const pre = "\x1b]2;t"
	str := string(out)
	var ks []string
	for {
		i := strings.Index(str, pre)
		if i < 0 {
			break
		}
		str = str[i+len(pre):]
		j := 0
		for j < len(str) && str[j] >= '0' && str[j] <= '9' {
			j++
		}
		// terminator: BEL or ST
		if j > 0 && (strings.HasPrefix(str[j:], "\x07") || strings.HasPrefix(str[j:], "\x1b\\")) {
			ks = append(ks, str[:j])
		}
		str = str[j:]
	}
	if len(ks) == 0 {
		return "-"
	}
	return strings.Join(ks, ",")
}

func (s *sess) snapshot() string {
	lg := "-"
	if len(s.log) > 0 {
		lg = strings.Join(s.log, ",")
	}
	path := vxfw.VerifAppPath(s.app)
	p := "-"
	if len(path) > 0 {
		parts := make([]string, 0, len(path))
		for _, w := range path {
			parts = append(parts, s.wid(w))
		}
		p = strings.Join(parts, ",")
	}
	b := func(v bool) byte {
		if v {
			return '1'
		}
		return '0'
	}
	rd, rf, q, cs, dbg := vxfw.VerifAppFlags(s.app)
	x := string([]byte{b(rd), b(rf), b(q), b(cs), b(dbg)})
	m := "0"
	if vxfw.VerifHasMouse(s.vs) {
		m = "1"
	}
	e := ""
	if s.err {
		e = ";e=1"
	}
	return fmt.Sprintf("%s;f=%s;p=%s;x=%s;h=%s;m=%s;t=%s%s", lg, s.wid(vxfw.VerifAppFocused(s.app)), p, x,
		hitsString(s, vxfw.VerifHits(s.vs)), m, titles(s.fc.Take()), e)
}

// exec runs one op (already split into fields). ok=false means the op could not be parsed (or
// needs an `init` that has not happened in this case).
func (it *interp) exec(op []string) (res string, ok bool) {
	if len(op) == 0 {
		return "", false
	}
	if op[0] == "#case" {
		it.s.close()
		it.s = nil
		return "-", true
	}
	var action func() string
	parsed := func() (good bool) {
		defer func() {
			if e := recover(); e != nil {
				if _, is := e.(badOp); is {
					good = false
					return
				}
				panic(e)
			}
		}()
		action = it.parse(op)
		return action != nil
	}()
	if !parsed {
		return "", false
	}
	panicked, msg := hx.Guard(func() { res = action() })
	if panicked {
		if it.panics != nil {
			it.panics(msg)
		}
		if it.s != nil && it.s.fc != nil {
			it.s.fc.Take()
		}
		return "panic", true
	}
	return res, true
}

// parse decodes the op completely (so that a malformed op has no effect) and returns the action.
func (it *interp) parse(op []string) func() string {
	c := &cur{t: op}
	kind := c.tok()
	if kind == "init" {
		root, ncap := c.num(), c.num()
		if ncap < 0 || ncap > 64 {
			panic(badOp{})
		}
		caps := map[int]bool{}
		for i := 0; i < ncap; i++ {
			caps[c.num()] = true
		}
		n := c.num()
		c.end()
		if n < 1 || n > 64 || root < 0 || root >= n {
			panic(badOp{})
		}
		return func() string {
			it.s.close()
			s, err := newSess(root, caps, n)
			if err != nil {
				panic(err)
			}
			it.s = s
			return s.snapshot()
		}
	}
	s := it.s
	if s == nil || s.app == nil {
		panic(badOp{})
	}
	// begin resets the per-op call counter, log and script
	begin := func(script []vxfw.Command) {
		s.script, s.calls, s.log, s.err = script, 0, nil, false
	}
	switch kind {
	case "ev":
		var ev vaxis.Event
		switch c.tok() {
		case "k":
			ev = vaxis.Key{Keycode: rune(c.num())}
		case "u":
			ev = customEv{N: c.num()}
		case "i":
			ev = vxfw.Init{}
		default:
			panic(badOp{})
		}
		sc := s.parseScript(c)
		c.end()
		return func() string {
			begin(sc)
			s.err = vxfw.VerifDispatchKey(s.vs, ev) != nil
			return s.snapshot()
		}
	case "upd":
		c.lit("T")
		sf := s.parseTree(c, 0)
		sc := s.parseScript(c)
		c.end()
		return func() string {
			begin(sc)
			vxfw.VerifUpdatePath(s.vs, sf)
			return s.snapshot()
		}
	case "render":
		c.lit("T")
		sf := s.parseTree(c, 0)
		c.end()
		return func() string {
			vxfw.VerifRender(s.vs, sf)
			return s.treeString(sf)
		}
	case "setframe":
		r := c.num()
		c.lit("T")
		sf := s.parseTree(c, 0)
		c.end()
		return func() string {
			begin(nil)
			if r == 1 {
				vxfw.VerifRender(s.vs, sf)
			}
			vxfw.VerifSetLastFrame(s.vs, sf)
			return s.snapshot()
		}
	case "mouse":
		col, row := c.num(), c.num()
		sc := s.parseScript(c)
		c.end()
		return func() string {
			begin(sc)
			s.err = vxfw.VerifMouse(s.vs, vaxis.Mouse{Col: col, Row: row}) != nil
			return s.snapshot()
		}
	case "mupd":
		c.lit("T")
		sf := s.parseTree(c, 0)
		sc := s.parseScript(c)
		c.end()
		return func() string {
			begin(sc)
			before := vxfw.VerifHits(s.vs)
			s.err = vxfw.VerifMouseUpdate(s.vs, sf) != nil
			// distribution: did this frame take a hovered widget away from under the pointer?
			after := map[vxfw.Widget]bool{}
			for _, h := range vxfw.VerifHits(s.vs) {
				after[h.W] = true
			}
			s.flag = "mupd-nothing-hovered"
			if len(before) > 0 {
				s.flag = "mupd-keeps-hovered"
				for _, h := range before {
					if !after[h.W] {
						s.flag = "mupd-removes-hovered"
					}
				}
			}
			return s.snapshot()
		}
	case "mexit":
		clear := c.num()
		sc := s.parseScript(c)
		c.end()
		return func() string {
			begin(sc)
			s.err = vxfw.VerifMouseExit(s.vs, clear == 1) != nil
			return s.snapshot()
		}
	case "tfin":
		sc := s.parseScript(c)
		c.end()
		return func() string {
			begin(sc)
			s.err = vxfw.VerifTerminalFocusIn(s.vs) != nil
			return s.snapshot()
		}
	case "cmd":
		c.lit("C")
		cmd := s.parseCmd(c, 0)
		sc := s.parseScript(c)
		c.end()
		return func() string {
			begin(sc)
			vxfw.VerifHandleCommand(s.vs, cmd)
			return s.snapshot()
		}
	case "hit":
		col, row := c.num(), c.num()
		if col < 0 || col > 65535 || row < 0 || row > 65535 {
			panic(badOp{})
		}
		c.lit("T")
		sf := s.parseTree(c, 0)
		c.end()
		return func() string {
			return hitsString(s, vxfw.VerifHitTest(sf, uint16(col), uint16(row)))
		}
	}
	panic(badOp{})
}

// ---------------------------------------------------------------------------------------------
// generator

type node struct {
	id, w, h int
	kids     []kid
}

type kid struct {
	col, row, z int
	n           *node
}

func (n *node) write(b *strings.Builder) {
	fmt.Fprintf(b, "%d %d %d %d", n.id, n.w, n.h, len(n.kids))
	for _, k := range n.kids {
		fmt.Fprintf(b, " %d %d %d ", k.col, k.row, k.z)
		k.n.write(b)
	}
}

func (n *node) String() string {
	var b strings.Builder
	n.write(&b)
	return b.String()
}

func (n *node) depth() int {
	d := 0
	for _, k := range n.kids {
		if x := k.n.depth(); x > d {
			d = x
		}
	}
	return d + 1
}

func (n *node) collect(ids *[]int) {
	*ids = append(*ids, n.id)
	for _, k := range n.kids {
		k.n.collect(ids)
	}
}

// overlap: some pair of siblings with non-empty intersecting rectangles; sticks: some child not
// contained in its parent.
func (n *node) shape() (overlap, sticks bool) {
	for i, a := range n.kids {
		if a.col < 0 || a.row < 0 || a.col+a.n.w > n.w || a.row+a.n.h > n.h {
			sticks = true
		}
		for _, b := range n.kids[i+1:] {
			if a.n.w > 0 && a.n.h > 0 && b.n.w > 0 && b.n.h > 0 &&
				a.col < b.col+b.n.w && b.col < a.col+a.n.w && a.row < b.row+b.n.h && b.row < a.row+a.n.h {
				overlap = true
			}
		}
		o, s := a.n.shape()
		overlap = overlap || o
		sticks = sticks || s
	}
	return
}

var zChoices = []int{0, 0, 0, 1, 2, -1}
var fanChoices = []int{0, 1, 1, 2, 2, 3, 3}

type caseGen struct {
	rng      *gen.Rng
	n        int // widgets
	root     int
	clean    bool
	lastTree *node
	lastIDs  []int
	trees    []*node
	frame    *node // last setframe tree
	hasFocus bool  // set by genCmd when a focus command was produced
	hasCons  bool
	errs     bool // scripts of this case may contain error answers (token 10)
	hasErr   bool
}

func (g *caseGen) genTree() *node {
	rng := g.rng
	rootID := g.root
	if g.n > 1 && rng.Chance(1, 8) {
		rootID = (g.root + 1 + rng.Intn(g.n-1)) % g.n
	}
	pool := make([]int, 0, g.n)
	for i := 0; i < g.n; i++ {
		if i != rootID {
			pool = append(pool, i)
		}
	}
	for i := len(pool) - 1; i > 0; i-- {
		j := rng.Intn(i + 1)
		pool[i], pool[j] = pool[j], pool[i]
	}
	k := rng.Intn(len(pool) + 1)
	if k2 := rng.Intn(len(pool) + 1); k2 > k {
		k = k2
	}
	pool = pool[:k]
	maxDepth := rng.Range(1, 4)
	if rng.Chance(1, 2) {
		maxDepth = 4
	}
	rt := &node{id: rootID}
	if rng.Chance(5, 6) {
		rt.w, rt.h = rng.Range(10, 20), rng.Range(10, 20)
	} else {
		rt.w, rt.h = rng.Range(0, 12), rng.Range(0, 12)
	}
	var build func(n *node, depth int)
	build = func(n *node, depth int) {
		if depth >= maxDepth {
			return
		}
		nk := gen.Pick(rng, fanChoices)
		if nk == 0 && depth == 1 && rng.Chance(3, 4) {
			nk = rng.Range(1, 3)
		}
		for i := 0; i < nk && len(pool) > 0; i++ {
			id := pool[len(pool)-1]
			pool = pool[:len(pool)-1]
			ch := &node{id: id, w: rng.Range(0, 12), h: rng.Range(0, 12)}
			n.kids = append(n.kids, kid{
				col: rng.Range(-2, n.w+1),
				row: rng.Range(-2, n.h+1),
				z:   gen.Pick(rng, zChoices),
				n:   ch,
			})
		}
		for _, kd := range n.kids {
			build(kd.n, depth+1)
		}
	}
	build(rt, 1)
	return rt
}

// useTree records t as the most recent tree.
func (g *caseGen) useTree(t *node) *node {
	g.lastTree = t
	g.lastIDs = g.lastIDs[:0]
	t.collect(&g.lastIDs)
	return t
}

func (g *caseGen) freshTree() *node {
	t := g.genTree()
	g.trees = append(g.trees, t)
	return g.useTree(t)
}

// pickTree: repeat the last tree with probability pLast%, an older one with 15%, else fresh.
func (g *caseGen) pickTree(pLast int) *node {
	p := g.rng.Intn(100)
	switch {
	case g.lastTree != nil && p < pLast:
		return g.lastTree
	case len(g.trees) > 0 && p < pLast+15:
		return g.useTree(gen.Pick(g.rng, g.trees))
	}
	return g.freshTree()
}

func (g *caseGen) focusID() int {
	if len(g.lastIDs) > 0 && g.rng.Chance(3, 4) {
		return gen.Pick(g.rng, g.lastIDs)
	}
	return g.rng.Intn(g.n)
}

// genCmd: one script answer. depth = nesting depth of enclosing batches.
func (g *caseGen) genCmd(depth int, noFocus bool) string {
	rng := g.rng
	for {
		p := rng.Intn(100)
		switch {
		case p < 40:
			return "0"
		case p < 50:
			return "1"
		case p < 62:
			g.hasCons = true
			return "4"
		case p < 65:
			return "2"
		case p < 67:
			return "3"
		case p < 69:
			return "6"
		case p < 73:
			return "7 " + strconv.Itoa(rng.Intn(100))
		case p < 85:
			if noFocus {
				return "0"
			}
			g.hasFocus = true
			return "5 " + strconv.Itoa(g.focusID())
		default:
			if depth >= 2 {
				continue
			}
			kind := "8"
			if rng.Bool() {
				kind = "9"
			}
			n := rng.Range(1, 3)
			parts := []string{kind, strconv.Itoa(n)}
			for i := 0; i < n; i++ {
				parts = append(parts, g.genCmd(depth+1, noFocus))
			}
			return strings.Join(parts, " ")
		}
	}
}

func (g *caseGen) genScript() string {
	m := g.rng.Range(0, 6)
	parts := []string{"S", strconv.Itoa(m)}
	for i := 0; i < m; i++ {
		if g.errs && g.rng.Chance(1, 8) {
			// this handler call returns an error
			parts = append(parts, "10")
			g.hasErr = true
			continue
		}
		parts = append(parts, g.genCmd(0, g.clean))
	}
	return strings.Join(parts, " ")
}

func (g *caseGen) genPoint() (int, int) {
	rng := g.rng
	w, h := 12, 12
	if g.frame != nil {
		w, h = g.frame.w, g.frame.h
	}
	if rng.Chance(1, 6) || w == 0 || h == 0 {
		return rng.Range(-3, w+3), rng.Range(-3, h+3)
	}
	return rng.Intn(w), rng.Intn(h)
}

func genCase(r *hx.Run, rng *gen.Rng, emit func(op string), errored func() bool) {
	g := &caseGen{rng: rng}
	g.errs = rng.Chance(1, 5) // cases in which handlers may return errors
	if g.errs {
		r.Count("case-with-error-answers")
	}
	g.n = rng.Range(1, 12)
	g.root = rng.Intn(g.n)
	g.clean = rng.Chance(1, 4)
	if g.clean {
		r.Count("case-clean-scripts")
	}
	capP := rng.Intn(4) // 0, 1/4, 1/2, 3/4
	var caps []string
	for i := 0; i < g.n; i++ {
		if rng.Intn(4) < capP {
			caps = append(caps, strconv.Itoa(i))
		}
	}
	initOp := fmt.Sprintf("init %d %d", g.root, len(caps))
	if len(caps) > 0 {
		initOp += " " + strings.Join(caps, " ")
	}
	initOp += " " + strconv.Itoa(g.n)
	emit(initOp)
	r.Count("op-init")

	countTree := func(t *node) {
		r.Count("tree-depth-" + strconv.Itoa(t.depth()))
		o, s := t.shape()
		if o {
			r.Count("tree-sibling-overlap")
		}
		if s {
			r.Count("tree-child-sticks-out")
		}
		if t.id != g.root {
			r.Count("tree-root-is-other-widget")
		}
	}
	script := func() string {
		g.hasFocus, g.hasCons, g.hasErr = false, false, false
		s := g.genScript()
		if g.hasErr {
			r.Count("script-has-error")
		}
		if g.hasFocus {
			r.Count("script-has-focus")
		}
		if g.hasCons {
			r.Count("script-has-consume")
		}
		return s
	}
	setframe := func() {
		t := g.pickTree(60)
		countTree(t)
		rr := 1
		if rng.Chance(1, 5) {
			rr = 0
		}
		g.frame = t
		emit(fmt.Sprintf("setframe %d T %s", rr, t))
		r.Count("op-setframe")
	}
	upd := func(t *node) {
		countTree(t)
		emit(fmt.Sprintf("upd T %s %s", t, script()))
		r.Count("op-upd")
	}

	nops := rng.Range(5, 40)
	if rng.Chance(7, 10) {
		setframe()
		nops--
	}
	for k := 0; k < nops; k++ {
		if errored() {
			// the entry point returned an error: App.Run would have returned it; the case ends
			r.Count("case-ended-by-returned-error")
			return
		}
		p := rng.Intn(100)
		followUpd := false
		switch {
		case p < 35:
			var head string
			q := rng.Intn(10)
			switch {
			case q < 7:
				head = "ev k " + strconv.Itoa(rng.Intn(128))
			case q < 9:
				head = "ev u " + strconv.Itoa(rng.Intn(10))
			default:
				head = "ev i"
			}
			sc := script()
			emit(head + " " + sc)
			r.Count("op-ev")
			followUpd = g.hasFocus
		case p < 45:
			upd(g.pickTree(50))
		case p < 53:
			setframe()
		case p < 73:
			col, row := g.genPoint()
			emit(fmt.Sprintf("mouse %d %d %s", col, row, script()))
			r.Count("op-mouse")
		case p < 77:
			t := g.pickTree(60)
			countTree(t)
			emit(fmt.Sprintf("mupd T %s %s", t, script()))
			r.Count("op-mupd")
		case p < 80:
			cl := 1
			if rng.Chance(1, 3) {
				cl = 0
			}
			emit(fmt.Sprintf("mexit %d %s", cl, script()))
			r.Count("op-mexit")
		case p < 83:
			// terminal FocusIn arm of Run: mouseHandler.mouseEnter(root)
			emit("tfin " + script())
			r.Count("op-tfin")
		case p < 91:
			g.hasFocus = false
			var cmd string
			if rng.Chance(1, 2) {
				// a direct focus change is the most interesting command
				g.hasFocus = true
				cmd = "5 " + strconv.Itoa(g.focusID())
			} else {
				cmd = g.genCmd(0, false)
			}
			cmdFocus := g.hasFocus
			if cmdFocus {
				r.Count("cmd-has-focus")
			}
			sc := script()
			emit(fmt.Sprintf("cmd C %s %s", cmd, sc))
			r.Count("op-cmd")
			followUpd = cmdFocus || g.hasFocus
		case p < 95:
			t := g.pickTree(30)
			countTree(t)
			emit("render T " + t.String())
			r.Count("op-render")
		default:
			t := g.pickTree(50)
			countTree(t)
			col, row := rng.Range(0, t.w+1), rng.Range(0, t.h+1)
			if rng.Chance(1, 12) {
				col, row = 65535-rng.Intn(3), 65535-rng.Intn(3)
			}
			emit(fmt.Sprintf("hit %d %d T %s", col, row, t))
			r.Count("op-hit")
		}
		if followUpd && rng.Chance(3, 5) {
			t := g.lastTree
			if t == nil {
				t = g.freshTree()
			}
			upd(t)
			r.Count("upd-after-focus")
		}
	}
}

// replayOpsFor reads a replay file (JSON {"driver":…, "ops":[…]} as written by ./check, or plain
// text with one op per line, text after a TAB ignored) and returns its ops if they belong to this
// stream: comment lines are dropped; a file recorded for the other C15 stream (driver field, or
// the shape of its init op: C15Run's init carries the first layout `T TREE`) yields no ops.
func replayOpsFor(path, me string) ([]string, error) {
	b, err := os.ReadFile(path)
	if err != nil {
		return nil, err
	}
	var rp struct {
		Driver string   `json:"driver"`
		Ops    []string `json:"ops"`
	}
	if err := json.Unmarshal(b, &rp); err != nil {
		sc := bufio.NewScanner(strings.NewReader(string(b)))
		sc.Buffer(make([]byte, 1<<20), 1<<24)
		for sc.Scan() {
			rp.Ops = append(rp.Ops, strings.SplitN(sc.Text(), "\t", 2)[0])
		}
	}
	if rp.Driver != "" && rp.Driver != me {
		return nil, nil
	}
	var ops []string
	for _, op := range rp.Ops {
		f := strings.Fields(op)
		if len(f) == 0 || (strings.HasPrefix(f[0], "#") && f[0] != "#case") {
			continue
		}
		if f[0] == "init" {
			hasTree := false
			for _, t := range f {
				if t == "T" {
					hasTree = true
				}
			}
			if hasTree != (me == "C15Run") {
				return nil, nil
			}
		}
		ops = append(ops, op)
	}
	return ops, nil
}

func run(r *hx.Run) error {
	it := &interp{panics: func(msg string) {
		if len(msg) > 60 {
			msg = msg[:60]
		}
		r.Count("panic: " + msg)
	}}
	defer func() { it.s.close() }()

	if r.Replay != "" {
		ops, err := replayOpsFor(r.Replay, "C15")
		if err != nil {
			return err
		}
		if len(ops) == 0 {
			r.Case("replay-of-the-other-stream")
		}
		for _, op := range ops {
			res, ok := it.exec(strings.Fields(op))
			if !ok {
				res = "bad-op"
			}
			if strings.HasPrefix(op, "#case") {
				res = "-"
			}
			r.Emit(op, res)
		}
		return nil
	}

	emit := func(op string) {
		res, ok := it.exec(strings.Fields(op))
		if !ok {
			res = "bad-op"
			r.Count("bad-op")
		}
		if res == "panic" {
			r.Count("result-panic")
		}
		if it.s != nil && it.s.flag != "" {
			r.Count(it.s.flag)
			it.s.flag = ""
		}
		r.Emit(op, res)
	}
	startCase := func(id string) {
		it.exec([]string{"#case", id})
		r.Case(id)
	}

	for i, ops := range hx.Corpus("C15") {
		startCase(fmt.Sprintf("corpus%d", i))
		for _, op := range ops {
			emit(op)
		}
		r.Count("corpus-case")
	}

	rng := gen.New(r.Seed)
	ncases := 1500
	if r.Thorough {
		ncases = 20000
	}
	for i := 0; i < ncases; i++ {
		startCase(strconv.Itoa(i))
		genCase(r, rng.Fork(uint64(i)), emit, func() bool { return it.s != nil && it.s.err })
	}
	return nil
}
