package main

import (
	"bufio"
	"encoding/json"
	"errors"
	"fmt"
	"os"
	"strconv"
	"strings"
	"sync"
	"time"

	"git.sr.ht/~rockorager/vaxis"
	"git.sr.ht/~rockorager/vaxis/vxfw"
	"verifharness/fakeconsole"
	"verifharness/gen"
	"verifharness/hx"
)

// C15Run (end to end): the real App.Run runs in a goroutine on a fake console; events are posted
// with App.PostEvent. Token grammar as in C15:
//
//	TREE   := id w h n (col row z TREE)*n
//	CMD    := 0 | 1 | 2 | 3 | 4 | 5 id | 6 | 7 k | 8 n CMD*n | 9 n CMD*n
//	SCRIPT := m CMD*m
//
// Synchronisation is free of timing assumptions. Every posted event E is followed by a sentinel
// syncEv; the target-phase handler call for a sentinel PARKS Run's goroutine until the harness
// resumes it. While Run is parked the harness reads the state, emits the result of the previous
// op, arms the next op (script, frame trees), puts E and the next sentinel into the queue, and
// only then resumes Run. A frame (Run's 8 ms idle branch) can therefore only happen when the
// harness has resumed Run without posting anything, which it does exactly when the redraw flag is
// pending; the first Draw of the frame posts the sentinel itself, so that it is processed
// immediately after the frame step.
func main() { hx.Main("C15Run", run) }

const waitTimeout = 5 * time.Second

// ---------------------------------------------------------------------------------------------
// widgets

type customEv struct{ N int }

type syncEv struct{ N int }

// errAnswer is the scripted answer "the handler returns a non-nil error" (script token 10).
type errAnswer struct{}

var errScripted = errors.New("scripted handler error")

func answer(c vxfw.Command) (vxfw.Command, error) {
	if _, is := c.(errAnswer); is {
		return nil, errScripted
	}
	return c, nil
}

type plainW struct {
	id int
	c  *rcase
}

func (w *plainW) HandleEvent(ev vaxis.Event, ph vxfw.EventPhase) (vxfw.Command, error) {
	p := "?"
	switch ph {
	case vxfw.CapturePhase:
		p = "c"
	case vxfw.TargetPhase:
		p = "t"
	case vxfw.BubblePhase:
		p = "b"
	}
	return answer(w.c.call(w.id, ev, p, ph == vxfw.TargetPhase))
}

func (w *plainW) Draw(vxfw.DrawContext) (vxfw.Surface, error) { return w.c.draw(), nil }

type capW struct{ plainW }

func (w *capW) CaptureEvent(ev vaxis.Event) (vxfw.Command, error) {
	return answer(w.c.call(w.id, ev, "c", false))
}

func evCode(ev vaxis.Event) string {
	switch e := ev.(type) {
	case vaxis.Key:
		return "K" + strconv.Itoa(int(e.Keycode))
	case customEv:
		return "U" + strconv.Itoa(e.N)
	case vxfw.Init:
		return "I"
	case vaxis.Mouse:
		return "M" + strconv.Itoa(e.Col) + "." + strconv.Itoa(e.Row)
	case vaxis.FocusIn:
		return "FI"
	case vaxis.FocusOut:
		return "FO"
	case vxfw.MouseEnter:
		return "ME"
	case vxfw.MouseLeave:
		return "ML"
	}
	return "X"
}

// ---------------------------------------------------------------------------------------------
// one case = one App.Run

// All fields below `resume` are touched by Run's goroutine (inside handler / Draw calls) and by
// the harness goroutine only while Run is parked or has returned; the channels order the accesses.
type rcase struct {
	app    *vxfw.App
	ws     []vxfw.Widget
	ids    map[vxfw.Widget]int
	root   int
	parkCh chan struct{}
	resume chan struct{}
	done   chan string

	script    []vxfw.Command
	calls     int
	log       []string
	finishing bool
	started   bool
	over      bool // Run has returned (or the case was abandoned)
	runErr    bool // Run returned an error (written before `done` is sent)

	initTree func() vxfw.Surface
	armed    bool // the next Draw is the first Draw of a frame
	second   bool // a frame is in progress: the next Draw is its second one
	t1, t2   func() vxfw.Surface
	fscript  []vxfw.Command
	lastTok  string // tokens of the last well-formed TREE given to Draw (fallback frame)
}

func (c *rcase) call(id int, ev vaxis.Event, ph string, target bool) vxfw.Command {
	if _, ok := ev.(syncEv); ok {
		if target && !c.finishing {
			select {
			case c.parkCh <- struct{}{}:
			default:
			}
			<-c.resume
		}
		if c.finishing {
			return vxfw.QuitCmd{}
		}
		return nil
	}
	if c.finishing {
		return vxfw.QuitCmd{}
	}
	c.log = append(c.log, strconv.Itoa(id)+":"+evCode(ev)+":"+ph)
	i := c.calls
	c.calls++
	if i < len(c.script) {
		return c.script[i]
	}
	return nil
}

func (c *rcase) draw() vxfw.Surface {
	if c.finishing {
		return vxfw.Surface{}
	}
	switch {
	case !c.started:
		// Run's initial layout
		c.started = true
		c.log = append(c.log, "D")
		c.app.PostEvent(syncEv{})
		return c.initTree()
	case c.armed:
		c.armed, c.second = false, true
		c.script, c.calls = c.fscript, 0
		c.log = append(c.log, "D")
		c.app.PostEvent(syncEv{})
		return c.t1()
	case c.second:
		c.log = append(c.log, "D")
		return c.t2()
	}
	// a Draw the harness did not expect
	c.log = append(c.log, "D?")
	if c.t2 != nil {
		return c.t2()
	}
	return c.initTree()
}

// wait blocks until Run parks in a sentinel, returns, panics, or 5 s pass.
func (c *rcase) wait() string {
	tm := time.NewTimer(waitTimeout)
	defer tm.Stop()
	select {
	case <-c.parkCh:
		return "park"
	case r := <-c.done:
		c.over = true
		return r
	case <-tm.C:
		c.over = true
		return "hang"
	}
}

func (c *rcase) wid(w vxfw.Widget) string {
	if w == nil {
		return "nil"
	}
	if id, ok := c.ids[w]; ok {
		return strconv.Itoa(id)
	}
	return "nil"
}

func (c *rcase) snapshot(returned bool) string {
	lg := "-"
	if len(c.log) > 0 {
		lg = strings.Join(c.log, ",")
	}
	path := vxfw.VerifAppPath(c.app)
	p := "-"
	if len(path) > 0 {
		parts := make([]string, 0, len(path))
		for _, w := range path {
			parts = append(parts, c.wid(w))
		}
		p = strings.Join(parts, ",")
	}
	b := func(v bool) byte {
		if v {
			return '1'
		}
		return '0'
	}
	rd, rf, q, cs, dbg := vxfw.VerifAppFlags(c.app)
	x := string([]byte{b(rd), b(rf), b(q), b(cs), b(dbg)})
	qq := "0"
	if returned {
		qq = "1"
	}
	e := ""
	if returned && c.runErr {
		e = ";e=1"
	}
	return fmt.Sprintf("%s;f=%s;p=%s;x=%s;q=%s%s", lg, c.wid(vxfw.VerifAppFocused(c.app)), p, x, qq, e)
}

// result turns the outcome of wait into the impl result of the op just executed. If Run is
// parked with the quit flag set it will return as soon as it is resumed (Run checks shouldQuit
// after every event, also after the sentinel): resume it and wait, so that q is deterministic.
func (c *rcase) result(st string) string {
	switch st {
	case "park":
		_, _, quit, _, _ := vxfw.VerifAppFlags(c.app)
		if !quit {
			return c.snapshot(false)
		}
		c.resume <- struct{}{}
		switch st2 := c.wait(); st2 {
		case "done":
			return c.snapshot(true)
		case "park":
			// cannot happen: nothing was posted
			c.over = true
			return "hang"
		default:
			return st2
		}
	case "done":
		return c.snapshot(true)
	}
	return st // panic | hang
}

// finish ends Run (if it is still going): every further handler call answers QuitCmd.
func (c *rcase) finish() {
	if c == nil || c.app == nil {
		return
	}
	alreadyOver := c.over
	c.finishing = true
	close(c.resume)
	if !alreadyOver {
		c.wait()
	}
	c.over = true
}

func (c *rcase) widget(id int) vxfw.Widget {
	if id < 0 || id >= len(c.ws) {
		panic(badOp{})
	}
	return c.ws[id]
}

// ---------------------------------------------------------------------------------------------
// token parsing

type badOp struct{}

type cur struct {
	t []string
	i int
}

func (c *cur) tok() string {
	if c.i >= len(c.t) {
		panic(badOp{})
	}
	x := c.t[c.i]
	c.i++
	return x
}

func (c *cur) num() int {
	v, err := strconv.Atoi(c.tok())
	if err != nil {
		panic(badOp{})
	}
	return v
}

func (c *cur) lit(m string) {
	if c.tok() != m {
		panic(badOp{})
	}
}

func (c *cur) end() {
	if c.i != len(c.t) {
		panic(badOp{})
	}
}

type node struct {
	id, w, h int
	kids     []kid
}

type kid struct {
	col, row, z int
	n           *node
}

func parseNode(c *cur, nw int, depth int) *node {
	if depth > 64 {
		panic(badOp{})
	}
	n := &node{id: c.num(), w: c.num(), h: c.num()}
	k := c.num()
	if n.id < 0 || n.id >= nw || n.w < 0 || n.w > 65535 || n.h < 0 || n.h > 65535 || k < 0 || k > 64 {
		panic(badOp{})
	}
	for i := 0; i < k; i++ {
		kd := kid{col: c.num(), row: c.num(), z: c.num()}
		kd.n = parseNode(c, nw, depth+1)
		n.kids = append(n.kids, kd)
	}
	return n
}

// surface builds a fresh vxfw.Surface (render sorts Children in place, so never share).
func (rc *rcase) surface(n *node) vxfw.Surface {
	sf := vxfw.Surface{
		Size:   vxfw.Size{Width: uint16(n.w), Height: uint16(n.h)},
		Widget: rc.ws[n.id],
	}
	for _, k := range n.kids {
		sf.Children = append(sf.Children, vxfw.SubSurface{
			Origin:  vxfw.RelativePoint{Row: k.row, Col: k.col},
			ZIndex:  k.z,
			Surface: rc.surface(k.n),
		})
	}
	return sf
}

func (rc *rcase) parseTree(c *cur) (func() vxfw.Surface, string) {
	c.lit("T")
	start := c.i
	n := parseNode(c, len(rc.ws), 0)
	return func() vxfw.Surface { return rc.surface(n) }, strings.Join(c.t[start:c.i], " ")
}

func (rc *rcase) parseCmd(c *cur, depth int) vxfw.Command {
	if depth > 16 {
		panic(badOp{})
	}
	switch c.num() {
	case 0:
		return nil
	case 1:
		return vxfw.RedrawCmd{}
	case 2:
		return vxfw.RefreshCmd{}
	case 3:
		return vxfw.QuitCmd{}
	case 4:
		return vxfw.ConsumeEventCmd{}
	case 5:
		return vxfw.FocusWidgetCmd(rc.widget(c.num()))
	case 6:
		return vxfw.DebugCmd{}
	case 7:
		return vxfw.SetTitleCmd("t" + strconv.Itoa(c.num()))
	case 8:
		n := c.num()
		if n < 0 || n > 64 {
			panic(badOp{})
		}
		out := vxfw.BatchCmd{}
		for i := 0; i < n; i++ {
			out = append(out, rc.parseCmd(c, depth+1))
		}
		return out
	case 9:
		n := c.num()
		if n < 0 || n > 64 {
			panic(badOp{})
		}
		out := []vxfw.Command{}
		for i := 0; i < n; i++ {
			out = append(out, rc.parseCmd(c, depth+1))
		}
		return out
	case 10:
		// only as a whole script answer: the handler returns (nil, error)
		if depth == 0 {
			return errAnswer{}
		}
	}
	panic(badOp{})
}

func (rc *rcase) parseScript(c *cur) []vxfw.Command {
	c.lit("S")
	m := c.num()
	if m < 0 || m > 256 {
		panic(badOp{})
	}
	out := make([]vxfw.Command, 0, m)
	for i := 0; i < m; i++ {
		out = append(out, rc.parseCmd(c, 0))
	}
	return out
}

func tryParse(f func()) (ok bool) {
	defer func() {
		if e := recover(); e != nil {
			if _, is := e.(badOp); is {
				ok = false
				return
			}
			panic(e)
		}
	}()
	f()
	return true
}

// ---------------------------------------------------------------------------------------------
// case runner

// source supplies the ops of one case. Frames are not inputs: nextFrame is asked for the
// parameters of a frame only when the implementation is about to run one.
type source interface {
	initOp() string
	nextEvent() (op string, ok bool)                // may first report skipped `frame` lines through skipped()
	nextFrame(consecutive int) (op string, ok bool) // ok=false: the runner uses the fallback frame
	skipped() []string                              // `frame` ops of a replay file for which no frame happened
}

type line struct{ op, res string }

type caseOut struct {
	lines  []line
	counts map[string]int
}

func (o *caseOut) count(k string) { o.counts[k]++ }

func (o *caseOut) emit(op, res string) {
	o.lines = append(o.lines, line{op, res})
	switch res {
	case "panic", "hang", "bad-op", "noframe":
		o.count("result-" + res)
	}
}

// startCase executes the init op: widgets, app, Run goroutine. Returns nil on a malformed op.
func startCase(op []string) *rcase {
	rc := &rcase{ids: map[vxfw.Widget]int{}}
	ok := tryParse(func() {
		c := &cur{t: op}
		c.lit("init")
		root, ncap := c.num(), c.num()
		if ncap < 0 || ncap > 64 {
			panic(badOp{})
		}
		caps := map[int]bool{}
		for i := 0; i < ncap; i++ {
			caps[c.num()] = true
		}
		n := c.num()
		if n < 1 || n > 64 || root < 0 || root >= n {
			panic(badOp{})
		}
		rc.root = root
		for i := 0; i < n; i++ {
			var w vxfw.Widget
			if caps[i] {
				w = &capW{plainW{id: i, c: rc}}
			} else {
				w = &plainW{id: i, c: rc}
			}
			rc.ws = append(rc.ws, w)
			rc.ids[w] = i
		}
		rc.initTree, rc.lastTok = rc.parseTree(c)
		rc.script = rc.parseScript(c)
		c.end()
	})
	if !ok {
		return nil
	}
	// Capability mask 0: with in-band resize etc. enabled, vaxis's reader goroutine posts extra
	// events (Redraw) at an arbitrary moment after New; with mask 0 the queue holds exactly the
	// initial Resize event when New returns.
	fc := fakeconsole.New(80, 24, fakeconsole.FromMask(0))
	app, err := vxfw.NewApp(vaxis.Options{WithConsole: fc, NoSignals: true})
	if err != nil {
		panic(err)
	}
	rc.app = app
	rc.parkCh = make(chan struct{}, 4)
	rc.resume = make(chan struct{})
	rc.done = make(chan string, 1)
	go func() {
		defer func() {
			if e := recover(); e != nil {
				rc.done <- "panic"
			}
		}()
		rc.runErr = app.Run(rc.ws[rc.root]) != nil
		rc.done <- "done"
	}()
	return rc
}

// post arms script for event ev, queues ev and its sentinel, and resumes Run.
func (rc *rcase) post(ev vaxis.Event, script []vxfw.Command) {
	rc.script, rc.calls, rc.log = script, 0, nil
	rc.armed, rc.second = false, false
	rc.app.PostEvent(ev)
	rc.app.PostEvent(syncEv{})
	rc.resume <- struct{}{}
}

// parseEvent decodes an event op.
func (rc *rcase) parseEvent(op []string) (ev vaxis.Event, script []vxfw.Command, ok bool) {
	ok = tryParse(func() {
		c := &cur{t: op}
		kind := c.tok()
		withScript := true
		switch kind {
		case "key":
			ev = vaxis.Key{Keycode: rune(c.num())}
		case "custom":
			ev = customEv{N: c.num()}
		case "mouse":
			col, row := c.num(), c.num()
			ev = vaxis.Mouse{Col: col, Row: row}
		case "focusin":
			ev = vaxis.FocusIn{}
		case "focusout":
			ev = vaxis.FocusOut{}
		case "resize":
			ev, withScript = vaxis.Resize{}, false
		case "redrawev":
			ev, withScript = vaxis.Redraw{}, false
		default:
			panic(badOp{})
		}
		if withScript {
			script = rc.parseScript(c)
		}
		c.end()
	})
	return
}

func (rc *rcase) parseFrame(op []string) (ok bool) {
	var t1, t2 func() vxfw.Surface
	var tok string
	var sc []vxfw.Command
	ok = tryParse(func() {
		c := &cur{t: op}
		c.lit("frame")
		t1, tok = rc.parseTree(c)
		t2, _ = rc.parseTree(c)
		sc = rc.parseScript(c)
		c.end()
	})
	if ok {
		rc.t1, rc.t2, rc.fscript, rc.lastTok = t1, t2, sc, tok
	}
	return
}

func runCase(src source, out *caseOut) {
	initOp := src.initOp()
	if initOp == "" {
		return
	}
	rc := startCase(strings.Fields(initOp))
	if rc == nil {
		out.emit(initOp, "bad-op")
		// everything else in this case needs the app
		for {
			op, ok := src.nextEvent()
			for _, s := range src.skipped() {
				out.emit(s, "bad-op")
			}
			if !ok {
				return
			}
			out.emit(op, "bad-op")
		}
	}
	defer rc.finish()
	out.count("op-init")
	res := rc.result(rc.wait())
	out.emit(initOp, res)

	for !rc.over {
		// Run is parked in a sentinel here.
		// 1. frames: run while the redraw flag is pending
		consecutive := 0
		for !rc.over {
			redraw, _, _, _, _ := vxfw.VerifAppFlags(rc.app)
			if !redraw {
				break
			}
			fop, have := src.nextFrame(consecutive)
			if have && !rc.parseFrame(strings.Fields(fop)) {
				out.emit(fop, "bad-op")
				have = false
			}
			if !have {
				// fallback: the last tree again, all handlers answer nil
				fop = fmt.Sprintf("frame T %s T %s S 0", rc.lastTok, rc.lastTok)
				if !rc.parseFrame(strings.Fields(fop)) {
					panic("fallback frame does not parse: " + fop)
				}
				out.count("frame-fallback")
			}
			consecutive++
			rc.log = nil
			rc.armed, rc.second = true, false
			rc.resume <- struct{}{}
			out.emit(fop, rc.result(rc.wait()))
			out.count("op-frame")
			if n := strings.Count(out.lines[len(out.lines)-1].res, "D"); n >= 2 {
				out.count("frame-second-layout")
			}
		}
		if consecutive > 0 {
			out.count(fmt.Sprintf("frames-in-a-row-%d", consecutive))
		}
		if rc.over {
			break
		}
		// 2. next event
		op, ok := src.nextEvent()
		for _, s := range src.skipped() {
			out.emit(s, "noframe")
		}
		if !ok {
			break
		}
		f := strings.Fields(op)
		ev, script, good := rc.parseEvent(f)
		if !good {
			out.emit(op, "bad-op")
			continue
		}
		out.count("op-" + f[0])
		rc.post(ev, script)
		out.emit(op, rc.result(rc.wait()))
	}
	if rc.over {
		_, _, quit, _, _ := vxfw.VerifAppFlags(rc.app)
		if quit {
			out.count("case-ended-by-quit")
		}
	}
}

// ---------------------------------------------------------------------------------------------
// replay / corpus source

type listSource struct {
	ops  []string
	i    int
	skip []string
}

func isFrame(op string) bool { return strings.HasPrefix(op, "frame ") || op == "frame" }

func (s *listSource) initOp() string {
	if s.i < len(s.ops) {
		op := s.ops[s.i]
		s.i++
		return op
	}
	return ""
}

func (s *listSource) nextEvent() (string, bool) {
	for s.i < len(s.ops) && isFrame(s.ops[s.i]) {
		s.skip = append(s.skip, s.ops[s.i])
		s.i++
	}
	if s.i >= len(s.ops) {
		return "", false
	}
	op := s.ops[s.i]
	s.i++
	return op, true
}

func (s *listSource) skipped() []string {
	x := s.skip
	s.skip = nil
	return x
}

func (s *listSource) nextFrame(int) (string, bool) {
	if s.i < len(s.ops) && isFrame(s.ops[s.i]) {
		op := s.ops[s.i]
		s.i++
		return op, true
	}
	return "", false
}

// replayOpsFor reads a replay file (JSON {"driver":…, "ops":[…]} as written by ./check, or plain
// text with one op per line, text after a TAB ignored) and returns its ops if they belong to this
// stream: comment lines are dropped; a file recorded for the other C15 stream (driver field, or
// the shape of its init op: C15Run's init carries the first layout `T TREE`) yields no ops.
func replayOpsFor(path, me string) ([]string, error) {
	b, err := os.ReadFile(path)
	if err != nil {
		return nil, err
	}
	var rp struct {
		Driver string   `json:"driver"`
		Ops    []string `json:"ops"`
	}
	if err := json.Unmarshal(b, &rp); err != nil {
		sc := bufio.NewScanner(strings.NewReader(string(b)))
		sc.Buffer(make([]byte, 1<<20), 1<<24)
		for sc.Scan() {
			rp.Ops = append(rp.Ops, strings.SplitN(sc.Text(), "\t", 2)[0])
		}
	}
	if rp.Driver != "" && rp.Driver != me {
		return nil, nil
	}
	var ops []string
	for _, op := range rp.Ops {
		f := strings.Fields(op)
		if len(f) == 0 || (strings.HasPrefix(f[0], "#") && f[0] != "#case") {
			continue
		}
		if f[0] == "init" {
			hasTree := false
			for _, t := range f {
				if t == "T" {
					hasTree = true
				}
			}
			if hasTree != (me == "C15Run") {
				return nil, nil
			}
		}
		ops = append(ops, op)
	}
	return ops, nil
}

// ---------------------------------------------------------------------------------------------
// generator (tree / script generators as in C15)

func (n *node) write(b *strings.Builder) {
	fmt.Fprintf(b, "%d %d %d %d", n.id, n.w, n.h, len(n.kids))
	for _, k := range n.kids {
		fmt.Fprintf(b, " %d %d %d ", k.col, k.row, k.z)
		k.n.write(b)
	}
}

func (n *node) String() string {
	var b strings.Builder
	n.write(&b)
	return b.String()
}

func (n *node) depth() int {
	d := 0
	for _, k := range n.kids {
		if x := k.n.depth(); x > d {
			d = x
		}
	}
	return d + 1
}

func (n *node) collect(ids *[]int) {
	*ids = append(*ids, n.id)
	for _, k := range n.kids {
		k.n.collect(ids)
	}
}

func (n *node) shape() (overlap, sticks bool) {
	for i, a := range n.kids {
		if a.col < 0 || a.row < 0 || a.col+a.n.w > n.w || a.row+a.n.h > n.h {
			sticks = true
		}
		for _, b := range n.kids[i+1:] {
			if a.n.w > 0 && a.n.h > 0 && b.n.w > 0 && b.n.h > 0 &&
				a.col < b.col+b.n.w && b.col < a.col+a.n.w && a.row < b.row+b.n.h && b.row < a.row+a.n.h {
				overlap = true
			}
		}
		o, s := a.n.shape()
		overlap = overlap || o
		sticks = sticks || s
	}
	return
}

var zChoices = []int{0, 0, 0, 1, 2, -1}
var fanChoices = []int{0, 1, 1, 2, 2, 3, 3}

type caseGen struct {
	rng      *gen.Rng
	n        int
	root     int
	clean    bool
	lastTree *node
	lastIDs  []int
	trees    []*node
	hasFocus bool
	hasCons  bool
	errs     bool // scripts of this case may contain error answers (token 10)
	hasErr   bool
}

func (g *caseGen) genTree() *node {
	rng := g.rng
	rootID := g.root
	if g.n > 1 && rng.Chance(1, 8) {
		rootID = (g.root + 1 + rng.Intn(g.n-1)) % g.n
	}
	pool := make([]int, 0, g.n)
	for i := 0; i < g.n; i++ {
		if i != rootID {
			pool = append(pool, i)
		}
	}
	for i := len(pool) - 1; i > 0; i-- {
		j := rng.Intn(i + 1)
		pool[i], pool[j] = pool[j], pool[i]
	}
	k := rng.Intn(len(pool) + 1)
	if k2 := rng.Intn(len(pool) + 1); k2 > k {
		k = k2
	}
	pool = pool[:k]
	maxDepth := rng.Range(1, 4)
	if rng.Chance(1, 2) {
		maxDepth = 4
	}
	rt := &node{id: rootID}
	if rng.Chance(5, 6) {
		rt.w, rt.h = rng.Range(10, 20), rng.Range(10, 20)
	} else {
		rt.w, rt.h = rng.Range(0, 12), rng.Range(0, 12)
	}
	var build func(n *node, depth int)
	build = func(n *node, depth int) {
		if depth >= maxDepth {
			return
		}
		nk := gen.Pick(rng, fanChoices)
		if nk == 0 && depth == 1 && rng.Chance(3, 4) {
			nk = rng.Range(1, 3)
		}
		for i := 0; i < nk && len(pool) > 0; i++ {
			id := pool[len(pool)-1]
			pool = pool[:len(pool)-1]
			ch := &node{id: id, w: rng.Range(0, 12), h: rng.Range(0, 12)}
			n.kids = append(n.kids, kid{
				col: rng.Range(-2, n.w+1),
				row: rng.Range(-2, n.h+1),
				z:   gen.Pick(rng, zChoices),
				n:   ch,
			})
		}
		for _, kd := range n.kids {
			build(kd.n, depth+1)
		}
	}
	build(rt, 1)
	return rt
}

func (g *caseGen) useTree(t *node) *node {
	g.lastTree = t
	g.lastIDs = g.lastIDs[:0]
	t.collect(&g.lastIDs)
	return t
}

func (g *caseGen) freshTree() *node {
	t := g.genTree()
	g.trees = append(g.trees, t)
	return g.useTree(t)
}

func (g *caseGen) pickTree(pLast int) *node {
	p := g.rng.Intn(100)
	switch {
	case g.lastTree != nil && p < pLast:
		return g.lastTree
	case len(g.trees) > 0 && p < pLast+15:
		return g.useTree(gen.Pick(g.rng, g.trees))
	}
	return g.freshTree()
}

func (g *caseGen) focusID() int {
	if len(g.lastIDs) > 0 && g.rng.Chance(3, 4) {
		return gen.Pick(g.rng, g.lastIDs)
	}
	return g.rng.Intn(g.n)
}

func (g *caseGen) genCmd(depth int, noFocus bool) string {
	rng := g.rng
	for {
		p := rng.Intn(100)
		switch {
		case p < 40:
			return "0"
		case p < 50:
			return "1"
		case p < 62:
			g.hasCons = true
			return "4"
		case p < 65:
			return "2"
		case p < 67:
			return "3"
		case p < 69:
			return "6"
		case p < 73:
			return "7 " + strconv.Itoa(rng.Intn(100))
		case p < 85:
			if noFocus {
				return "0"
			}
			g.hasFocus = true
			return "5 " + strconv.Itoa(g.focusID())
		default:
			if depth >= 2 {
				continue
			}
			kind := "8"
			if rng.Bool() {
				kind = "9"
			}
			n := rng.Range(1, 3)
			parts := []string{kind, strconv.Itoa(n)}
			for i := 0; i < n; i++ {
				parts = append(parts, g.genCmd(depth+1, noFocus))
			}
			return strings.Join(parts, " ")
		}
	}
}

func (g *caseGen) genScript() string {
	m := g.rng.Range(0, 6)
	parts := []string{"S", strconv.Itoa(m)}
	for i := 0; i < m; i++ {
		if g.errs && g.rng.Chance(1, 10) {
			// this handler call returns an error
			parts = append(parts, "10")
			g.hasErr = true
			continue
		}
		parts = append(parts, g.genCmd(0, g.clean))
	}
	return strings.Join(parts, " ")
}

// genSource generates the ops of one case lazily. Event i draws from caseRng.Fork(i) and the
// frames that follow it from a fork of that, so the events do not depend on how many frames the
// implementation ran.
type genSource struct {
	g       *caseGen
	base    *gen.Rng
	frng    *gen.Rng
	nev, i  int
	out     *caseOut
	frameWH [2]int
}

func newGenSource(rng *gen.Rng, out *caseOut) *genSource {
	s := &genSource{base: rng, out: out}
	g := &caseGen{rng: rng.Fork(1 << 20)}
	g.n = g.rng.Range(1, 12)
	g.root = g.rng.Intn(g.n)
	g.clean = g.rng.Chance(1, 4)
	s.g = g
	s.nev = g.rng.Range(5, 25)
	g.errs = g.rng.Chance(1, 5)
	if g.errs {
		out.count("case-with-error-answers")
	}
	return s
}

func (s *genSource) script() string {
	g := s.g
	g.hasFocus, g.hasCons, g.hasErr = false, false, false
	sc := g.genScript()
	if g.hasErr {
		s.out.count("script-has-error")
	}
	if g.hasFocus {
		s.out.count("script-has-focus")
	}
	if g.hasCons {
		s.out.count("script-has-consume")
	}
	return sc
}

func (s *genSource) countTree(t *node) {
	s.out.count("tree-depth-" + strconv.Itoa(t.depth()))
	o, st := t.shape()
	if o {
		s.out.count("tree-sibling-overlap")
	}
	if st {
		s.out.count("tree-child-sticks-out")
	}
	if t.id != s.g.root {
		s.out.count("tree-root-is-other-widget")
	}
}

func (s *genSource) initOp() string {
	g := s.g
	if g.clean {
		s.out.count("case-clean-scripts")
	}
	capP := g.rng.Intn(4)
	var caps []string
	for i := 0; i < g.n; i++ {
		if g.rng.Intn(4) < capP {
			caps = append(caps, strconv.Itoa(i))
		}
	}
	op := fmt.Sprintf("init %d %d", g.root, len(caps))
	if len(caps) > 0 {
		op += " " + strings.Join(caps, " ")
	}
	t := g.freshTree()
	s.countTree(t)
	s.frameWH = [2]int{t.w, t.h}
	op += fmt.Sprintf(" %d T %s %s", g.n, t, s.script())
	s.frng = g.rng.Fork(7)
	return op
}

func (s *genSource) skipped() []string { return nil }

func (s *genSource) nextEvent() (string, bool) {
	if s.i >= s.nev {
		return "", false
	}
	er := s.base.Fork(uint64(s.i))
	s.i++
	g := s.g
	g.rng = er
	var op string
	p := er.Intn(100)
	switch {
	case p < 30:
		op = fmt.Sprintf("key %d %s", er.Intn(128), s.script())
	case p < 40:
		op = fmt.Sprintf("custom %d %s", er.Intn(10), s.script())
	case p < 70:
		w, h := s.frameWH[0], s.frameWH[1]
		var col, row int
		if er.Chance(1, 6) || w == 0 || h == 0 {
			col, row = er.Range(-3, w+3), er.Range(-3, h+3)
		} else {
			col, row = er.Intn(w), er.Intn(h)
		}
		op = fmt.Sprintf("mouse %d %d %s", col, row, s.script())
	case p < 78:
		op = "focusin " + s.script()
	case p < 86:
		op = "focusout " + s.script()
	case p < 93:
		op = "resize"
	default:
		op = "redrawev"
	}
	s.frng = er.Fork(7)
	return op, true
}

func (s *genSource) nextFrame(consecutive int) (string, bool) {
	g := s.g
	g.rng = s.frng
	t1 := g.pickTree(65)
	s.countTree(t1)
	t2 := t1
	if g.rng.Chance(3, 10) {
		t2 = g.pickTree(0)
		s.countTree(t2)
	}
	sc := "S 0"
	if consecutive < 4 {
		sc = s.script()
	}
	// the frame that is kept as mouseHandler.lastFrame is t2 if a second layout happens, else
	// t1; mouse points are aimed at t1's root (the usual case)
	s.frameWH = [2]int{t1.w, t1.h}
	return fmt.Sprintf("frame T %s T %s %s", t1, t2, sc), true
}

// ---------------------------------------------------------------------------------------------

func run(r *hx.Run) error {
	flush := func(id string, out *caseOut) {
		r.Case(id)
		for _, l := range out.lines {
			r.Emit(l.op, l.res)
		}
		for k, v := range out.counts {
			r.Add(k, v)
		}
	}
	runList := func(id string, ops []string) {
		out := &caseOut{counts: map[string]int{}}
		runCase(&listSource{ops: ops}, out)
		flush(id, out)
	}

	if r.Replay != "" {
		ops, err := replayOpsFor(r.Replay, "C15Run")
		if err != nil {
			return err
		}
		if len(ops) == 0 {
			r.Case("replay-of-the-other-stream")
			return nil
		}
		// split at #case lines; ops before the first #case line form a case of their own
		id, cur, seen := "replay", []string(nil), false
		for _, op := range ops {
			f := strings.Fields(op)
			if len(f) > 0 && f[0] == "#case" {
				if seen || len(cur) > 0 {
					runList(id, cur)
				}
				id, cur, seen = strings.TrimSpace(strings.TrimPrefix(op, "#case")), nil, true
				continue
			}
			cur = append(cur, op)
		}
		if seen || len(cur) > 0 {
			runList(id, cur)
		}
		return nil
	}

	for i, ops := range hx.Corpus("C15Run") {
		runList(fmt.Sprintf("corpus%d", i), ops)
		r.Count("corpus-case")
	}

	rng := gen.New(r.Seed)
	ncases := 150
	if r.Thorough {
		ncases = 1500
	}
	outs := make([]*caseOut, ncases)
	rngs := make([]*gen.Rng, ncases)
	for i := range rngs {
		rngs[i] = rng.Fork(uint64(i))
	}
	sem := make(chan struct{}, 16)
	var wg sync.WaitGroup
	for i := 0; i < ncases; i++ {
		wg.Add(1)
		sem <- struct{}{}
		go func(i int) {
			defer wg.Done()
			defer func() { <-sem }()
			out := &caseOut{counts: map[string]int{}}
			runCase(newGenSource(rngs[i], out), out)
			outs[i] = out
		}(i)
	}
	wg.Wait()
	for i, out := range outs {
		flush(strconv.Itoa(i), out)
	}
	return nil
}
