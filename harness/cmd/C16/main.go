package main

// C16 harness: soft-wrap scanners of vxfw/text and vxfw/richtext (exported API only).
//
// One op line per (scanner, text, width range).  The op carries the text as a list of cells over a
// per-case alphabet of grapheme clusters together with the *oracle values* obtained from the real
// uniseg / vaxis.Characters (widths, whitespace and line-terminator flags, the pairwise line-break
// matrix for richtext, the reachable part of uniseg.FirstLineSegment(rest,state) for text), so that
// the Lean model and the implementation use the same Unicode facts (DESIGN §3.1).
//
//   R <wlo> <whi> <alpha> <widths> <flags> <lbmatrix> <cells> <styles>   rich SoftwrapScanner
//   P <wlo> <whi> <alpha> <widths> <flags> <cells> <nstates> <otable>    text SoftwrapScanner
//   H <alpha> <widths> <flags> <cells> <styles>                           richtext HardwrapScanner
//   DR/DP <w> <h> …same as R/P… [<style>]                                 RichText.Draw / Text.Draw (soft wrap), Max = w x h;
//                                                                         DP's 10th field = Text.Style (Fill is compared through the blank cells)
//   DH <w> <h> …same as R…                                                RichText.Draw with Softwrap = false (hard wrap, ellipsis branch)
//   DW/DWR <maxW> <nlines>                                                 Text.Draw / RichText.Draw of "a\n"*(nlines-2)+"b\nc" at Max = maxW x 65535 (F216 witness):
//                                                                         impl = surface size + rows 0..2 only
//
// Surfaces: "S<w>x<h>:" then the rows, ';'-terminated, cells comma-joined: a token (style*4096 + id),
// "_" / "_<style>" for a cell with the empty grapheme, "E<style>" for the "…" of the hard-wrap branch.
//
// impl result: per width, '|'-separated: "L" + lines (each line = comma-joined tokens followed by
// ';'), or "hang" / "panic".  A token is style*4096 + alphabet id.

import (
	"encoding/hex"
	"fmt"
	"os"
	"runtime"
	"sort"
	"strconv"
	"strings"
	"time"
	"unicode"
	"unicode/utf8"

	"git.sr.ht/~rockorager/vaxis"
	"git.sr.ht/~rockorager/vaxis/vxfw"
	"git.sr.ht/~rockorager/vaxis/vxfw/richtext"
	"git.sr.ht/~rockorager/vaxis/vxfw/text"
	"github.com/rivo/uniseg"
	"verifharness/gen"
	"verifharness/hx"
)

func main() { runtime.GOMAXPROCS(1); hx.Main("C16", run) }

var watchdog = 3 * time.Second

// guarded runs f with panic recovery under a watchdog. Result "", "panic" or "hang".
func guarded(f func()) string {
	if os.Getenv("C16_DIRECT") != "" {
		if p, _ := hx.Guard(f); p {
			return "panic"
		}
		return ""
	}
	done := make(chan string, 1)
	go func() {
		p, _ := hx.Guard(f)
		if p {
			done <- "panic"
		} else {
			done <- ""
		}
	}()
	// fast path: the call normally finishes at once (GOMAXPROCS is 1, so yielding runs it)
	for i := 0; i < 4; i++ {
		runtime.Gosched()
		select {
		case r := <-done:
			return r
		default:
		}
	}
	t := time.NewTimer(watchdog)
	defer t.Stop()
	select {
	case r := <-done:
		return r
	case <-t.C:
		hangs++
		return "hang"
	}
}

// hangs counts calls that did not return; each leaves a spinning goroutine behind, so after a few of
// them the generators stop (the hangs found are reported; nothing else can be learnt at that speed).
var hangs = 0

const maxHangs = 3

type alphabet struct {
	ids   map[string]int
	names []string
}

func (a *alphabet) id(s string) int {
	if i, ok := a.ids[s]; ok {
		return i
	}
	if a.ids == nil {
		a.ids = map[string]int{}
	}
	a.ids[s] = len(a.names)
	a.names = append(a.names, s)
	return len(a.names) - 1
}

func clusters(s string) []string {
	var out []string
	st := -1
	var c string
	for len(s) > 0 {
		c, s, _, st = uniseg.FirstGraphemeClusterInString(s, st)
		out = append(out, c)
	}
	return out
}

func allSpace(s string) bool {
	for _, r := range s {
		if !unicode.IsSpace(r) {
			return false
		}
	}
	return true
}

func lastSpace(s string) bool {
	r, _ := utf8.DecodeLastRuneInString(s)
	return unicode.IsSpace(r)
}

func charWidth(s string) int {
	w := 0
	for _, ch := range vaxis.Characters(s) {
		w += ch.Width
	}
	return w
}

func joinInts(xs []int) string {
	if len(xs) == 0 {
		return "-"
	}
	var b strings.Builder
	for i, x := range xs {
		if i > 0 {
			b.WriteByte(',')
		}
		b.WriteString(strconv.Itoa(x))
	}
	return b.String()
}

func alphaFields(a *alphabet, plain bool) (string, string, string) {
	var hexes []string
	var ws, fl []int
	for _, g := range a.names {
		hexes = append(hexes, hx.Hex(g))
		f := 0
		if plain {
			ws = append(ws, charWidth(g))
			if allSpace(g) {
				f |= 1
			}
		} else {
			// rich cells come from vaxis.Characters: the width is that of the Character itself
			ws = append(ws, richWidth(g))
			if lastSpace(g) {
				f |= 1
			}
		}
		if uniseg.HasTrailingLineBreakInString(g) {
			f |= 2
		}
		if uniseg.HasTrailingLineBreakInString(g) {
			f |= 4 // the cell test of HardwrapScanner (a hard line break; Grapheme == "\n" before the F516 fix)
		}
		if g == "\t" {
			f |= 8 // vaxis.Characters expands it to 8 spaces when the line is drawn
		}
		fl = append(fl, f)
	}
	if len(hexes) == 0 {
		return "-", "-", "-"
	}
	return strings.Join(hexes, ","), joinInts(ws), joinInts(fl)
}

func richWidth(g string) int {
	chs := vaxis.Characters(g)
	if len(chs) == 1 && chs[0].Grapheme == g {
		return chs[0].Width
	}
	// only reachable for clusters that Characters would not have produced
	return charWidth(g)
}

func encLines(lines [][]int) string {
	var b strings.Builder
	b.WriteByte('L')
	for _, l := range lines {
		for i, t := range l {
			if i > 0 {
				b.WriteByte(',')
			}
			b.WriteString(strconv.Itoa(t))
		}
		b.WriteByte(';')
	}
	return b.String()
}

var ctxChars = vaxis.Characters

// ---------- plain scanner ----------

type plainCase struct {
	s         string
	cl        []string // global clustering
	a         alphabet
	cells     []int
	offs      []int       // byte offset of each cluster, plus len(s)
	cellAt    map[int]int // byte offset -> cell index
	otable    []string
	nstates   int
	ok        bool // A-concat screening passed
	staleTerm bool // some stale query starts with a line terminator (the F116 shape is reachable in the closure)
	why       string
}

type oKey struct{ pos, st int }

// buildPlain computes the cells and the reachable part of the segmentation oracle. exactOnly (used
// for the single 65536-column word, where the full closure is quadratic) restricts the long-word
// successors to the split points of a line that starts empty.
var exactOnly = false

func buildPlain(s string, whi int) *plainCase {
	pc := &plainCase{s: s, cl: clusters(s), cellAt: map[int]int{}, ok: true}
	off := 0
	for i, c := range pc.cl {
		pc.cells = append(pc.cells, pc.a.id(c))
		pc.offs = append(pc.offs, off)
		pc.cellAt[off] = i
		off += len(c)
		// screening: TrimRightFunc works on runes; a cluster must be all-space or end in a non-space
		if lastSpace(c) && !allSpace(c) {
			pc.ok = false
			pc.why = "cluster-partly-space"
		}
	}
	pc.offs = append(pc.offs, off)
	pc.cellAt[off] = len(pc.cl)
	if strings.ContainsRune(s, '\t') {
		pc.a.id(" ") // Draw shows a tab as 8 spaces: make sure the space has a token
	}
	// closure of the (position, state) pairs any width can reach
	stIds := map[int]int{-1: 0}
	stId := func(st int) int {
		if v, ok := stIds[st]; ok {
			return v
		}
		stIds[st] = len(stIds)
		return len(stIds) - 1
	}
	seen := map[oKey]bool{}
	work := []oKey{{0, -1}}
	// OracleTermW (hypothesis of hard_break_end_to_end): a query is "fresh" when its state is the one
	// uniseg returned for that position (every query reached by succession) or -1 (the initial query
	// and, since the F116 fix, the query after a long-word split). A non-fresh ("stale") query is not
	// reachable any more; should one appear it is counted and only the weak form is required of it.
	fresh := map[oKey]bool{{0, -1}: true}
	segInfo := map[oKey][3]int{}
	succSt := map[oKey]int{} // state returned by the query
	b := []byte(s)
	budget := 40 << 20 // bytes scanned; beyond it the table is partial (a miss shows up as a model hang)
	for len(work) > 0 && pc.ok && budget > 0 {
		k := work[len(work)-1]
		work = work[:len(work)-1]
		if seen[k] || k.pos >= len(b) {
			continue
		}
		seen[k] = true
		seg, rest, br, st2 := uniseg.FirstLineSegment(b[k.pos:], k.st)
		budget -= len(seg) + 16
		end := k.pos + len(seg)
		ci, ok1 := pc.cellAt[k.pos]
		ce, ok2 := pc.cellAt[end]
		// hypotheses of the theorems, checked on the real library
		if !ok1 || !ok2 || len(seg) == 0 || len(seg)+len(rest) != len(b)-k.pos || (len(rest) == 0 && !br) {
			pc.ok = false
			pc.why = "segment-not-on-cluster-boundary"
			break
		}
		segInfo[k] = [3]int{ci, ce, b2i(br)}
		succSt[k] = st2
		fresh[oKey{end, st2}] = true
		brI := 0
		if br {
			brI = 1
		}
		pc.otable = append(pc.otable, fmt.Sprintf("%d.%d.%d.%d.%d", ci, stId(k.st), ce-ci, brI, stId(st2)))
		work = append(work, oKey{end, st2})
		// long-word split: any cluster boundary inside the word part, old state
		j := ce
		for j > ci && allSpace(pc.cl[j-1]) {
			j--
		}
		// word clustering must agree with the global one (A-concat)
		if strings.ContainsRune(s[pc.offs[ci]:pc.offs[j]], '\t') {
			// a tab inside a word is expanded to 8 spaces by Characters: the split would rewrite the text
			pc.ok = false
			pc.why = "tab-inside-word"
			break
		}
		if j-ci < 4096 {
			wcl := clusters(s[pc.offs[ci]:pc.offs[j]])
			if len(wcl) != j-ci {
				pc.ok = false
				pc.why = "word-reclusters"
				break
			}
			for x := range wcl {
				if wcl[x] != pc.cl[ci+x] {
					pc.ok = false
					pc.why = "word-reclusters"
				}
			}
		}
		// push in reverse so that small offsets are explored first (LIFO)
		// (the loop appends a grapheme only while w < width <= whi, so at most the clusters whose
		// cumulative width stays below whi, plus one, can be consumed)
		top, cum := ci, 0
		for top < j && cum < whi {
			cum += charWidth(pc.cl[top])
			top++
		}
		lowest := ci
		if exactOnly {
			lowest = top
		}
		for x := top; x >= lowest; x-- {
			// since the F116 fix the scanner stores state -1 after a split (also when nothing was consumed)
			if !seen[oKey{pc.offs[x], -1}] {
				work = append(work, oKey{pc.offs[x], -1})
				fresh[oKey{pc.offs[x], -1}] = true
			}
		}
	}
	// fresh queries: a terminator only as the last cluster of the segment, and then must-break;
	// stale queries: the same except that the first cluster is exempt
	for k, si := range segInfo {
		ci, ce, br := si[0], si[1], si[2] == 1
		for x := ci; x < ce && pc.ok; x++ {
			if !uniseg.HasTrailingLineBreakInString(pc.cl[x]) {
				continue
			}
			if x == ci && !fresh[k] {
				pc.staleTerm = true
				continue
			}
			if x != ce-1 || !br {
				pc.ok = false
				pc.why = "oracle-term"
			}
		}
	}
	// PosIndep (hypothesis of plain_no_needless_split_end_to_end): position independence of uniseg.
	// inside: the query with state -1 at a split point inside a segment returns the remainder of that
	// segment and the same successor state; boundary: at the end of a segment the query with state -1
	// answers as the one with the carried state.
	for k, si := range segInfo {
		if !pc.ok {
			break
		}
		ci, ce := si[0], si[1]
		for x := ci + 1; x < ce; x++ {
			k2 := oKey{pc.offs[x], -1}
			si2, ok := segInfo[k2]
			if !ok {
				continue // not a split point the scanner can reach at these widths
			}
			if si2[1] != ce || succSt[k2] != succSt[k] {
				pc.ok = false
				pc.why = "pos-indep-inside"
			}
		}
		end := pc.offs[ce]
		if end < len(b) {
			sa, _, ba, ta := uniseg.FirstLineSegment(b[end:], -1)
			sb, _, bb, tb := uniseg.FirstLineSegment(b[end:], succSt[k])
			if len(sa) != len(sb) || ba != bb || ta != tb {
				pc.ok = false
				pc.why = "pos-indep-boundary"
			}
		}
	}
	pc.nstates = len(stIds)
	sort.Strings(pc.otable)
	return pc
}

func b2i(b bool) int {
	if b {
		return 1
	}
	return 0
}

func (pc *plainCase) op(kind string, wlo, whi int) string {
	al, ws, fl := alphaFields(&pc.a, true)
	ot := "-"
	if len(pc.otable) > 0 {
		ot = strings.Join(pc.otable, ",")
	}
	return fmt.Sprintf("%s %d %d %s %s %s %s %d %s", kind, wlo, whi, al, ws, fl, joinInts(pc.cells), pc.nstates, ot)
}

func (pc *plainCase) tokens(line string) []int {
	var out []int
	for _, c := range clusters(line) {
		if i, ok := pc.a.ids[c]; ok {
			out = append(out, i)
		} else {
			out = append(out, 4095) // unknown cluster: the oracle will reject it
		}
	}
	return out
}

func (pc *plainCase) runScan(width int) string {
	var lines [][]int
	limit := len(pc.cl) + 3
	over := false
	res := guarded(func() {
		ctx := vxfw.DrawContext{Max: vxfw.Size{Width: uint16(width), Height: 65535}, Characters: ctxChars}
		sc := text.NewSoftwrapScanner(pc.s, uint16(width))
		for sc.Scan(ctx) {
			lines = append(lines, pc.tokens(sc.Text()))
			if len(lines) > limit {
				over = true // more Scans than graphemes: no progress
				return
			}
		}
	})
	if over {
		return "hang"
	}
	if res != "" {
		return res
	}
	return encLines(lines)
}

// ---------- rich scanner ----------

type richCase struct {
	segs   []vaxis.Segment
	a      alphabet
	cells  []vaxis.Cell
	ids    []int
	styles []int
}

func styleOf(k int) vaxis.Style {
	if k == 0 {
		return vaxis.Style{}
	}
	return vaxis.Style{Foreground: vaxis.IndexColor(uint8(k))}
}

func styleId(st vaxis.Style) int {
	if st == (vaxis.Style{}) {
		return 0
	}
	for k := 1; k < 8; k++ {
		if st == styleOf(k) {
			return k
		}
	}
	return 15
}

func buildRich(parts []string, styles []int) *richCase {
	rc := &richCase{}
	for i, p := range parts {
		rc.segs = append(rc.segs, vaxis.Segment{Text: p, Style: styleOf(styles[i])})
	}
	// as RichText.cells does
	for _, seg := range rc.segs {
		for _, ch := range ctxChars(seg.Text) {
			rc.cells = append(rc.cells, vaxis.Cell{Character: ch, Style: seg.Style})
			rc.ids = append(rc.ids, rc.a.id(ch.Grapheme))
			rc.styles = append(rc.styles, styleId(seg.Style))
		}
	}
	return rc
}

func (rc *richCase) lb() string {
	k := len(rc.a.names)
	b := make([]byte, 0, k*k)
	for i := 0; i < k; i++ {
		for j := 0; j < k; j++ {
			_, rest, _, _ := uniseg.FirstLineSegmentInString(rc.a.names[i]+rc.a.names[j], -1)
			if len(rest) > 0 {
				b = append(b, '1')
			} else {
				b = append(b, '0')
			}
		}
	}
	if len(b) == 0 {
		return "-"
	}
	return string(b)
}

func (rc *richCase) op(kind string, wlo, whi int) string {
	al, ws, fl := alphaFields(&rc.a, false)
	if len(rc.a.names) == 0 {
		al = "-"
	}
	return fmt.Sprintf("%s %d %d %s %s %s %s %s %s", kind, wlo, whi, al, ws, fl, rc.lb(), joinInts(rc.ids), joinInts(rc.styles))
}

func (rc *richCase) tokens(line []vaxis.Cell) []int {
	var out []int
	for _, c := range line {
		i, ok := rc.a.ids[c.Grapheme]
		if !ok {
			i = 4095
		}
		out = append(out, styleId(c.Style)*4096+i)
	}
	return out
}

// aliasWatch is the aliasing oracle of the rich scanners (round 3): the scanner is handed a slice
// with spare capacity behind it (sentinel cells), every slice Text()/Line() returns is kept as it is
// (not copied) together with a copy taken at that moment; after the iteration the caller's cells, the
// spare capacity and every returned line must be what they were.  A scanner that compacts into the
// caller's slice, appends into it, or reuses the token's array between Scans is reported as
// "alias:<what>:" in front of the lines (driver: FAIL aliasing).
type aliasWatch struct {
	backing, before []vaxis.Cell
	raw, snap       [][]vaxis.Cell
}

const aliasSpare = 4

func newAliasWatch(cells []vaxis.Cell) (*aliasWatch, []vaxis.Cell) {
	w := &aliasWatch{}
	w.backing = make([]vaxis.Cell, len(cells)+aliasSpare)
	copy(w.backing, cells)
	for i := len(cells); i < len(w.backing); i++ {
		w.backing[i] = vaxis.Cell{Character: vaxis.Character{Grapheme: "\x00spare", Width: 77}}
	}
	w.before = append([]vaxis.Cell(nil), w.backing...)
	return w, w.backing[:len(cells)] // cap = len + aliasSpare
}

func (w *aliasWatch) got(line []vaxis.Cell) {
	w.raw = append(w.raw, line)
	w.snap = append(w.snap, append([]vaxis.Cell(nil), line...))
}

func sameCells(a, b []vaxis.Cell) bool {
	if len(a) != len(b) {
		return false
	}
	for i := range a {
		if a[i] != b[i] {
			return false
		}
	}
	return true
}

func (w *aliasWatch) verdict() string {
	n := len(w.backing) - aliasSpare
	switch {
	case !sameCells(w.backing[:n], w.before[:n]):
		return "alias:input-cells-changed:"
	case !sameCells(w.backing[n:], w.before[n:]):
		return "alias:written-behind-the-input-slice:"
	}
	for i := range w.raw {
		if !sameCells(w.raw[i], w.snap[i]) {
			return fmt.Sprintf("alias:line-%d-changed-by-a-later-Scan:", i)
		}
	}
	return ""
}


func (rc *richCase) runScan(width int) string {
	var lines [][]int
	limit := len(rc.cells) + 3
	over := false
	watch, cells := newAliasWatch(rc.cells)
	res := guarded(func() {
		sc := richtext.NewSoftwrapScanner(cells, uint16(width))
		for sc.Scan() {
			t := sc.Text()
			watch.got(t)
			lines = append(lines, rc.tokens(t))
			if len(lines) > limit {
				over = true
				return
			}
		}
	})
	if over {
		return "hang"
	}
	if res != "" {
		return res
	}
	return watch.verdict() + encLines(lines)
}

func (rc *richCase) runHard() string {
	var lines [][]int
	limit := len(rc.cells) + 3
	over := false
	watch, cells := newAliasWatch(rc.cells)
	res := guarded(func() {
		sc := richtext.NewHardwrapScanner(cells)
		for sc.Scan() {
			t := sc.Line()
			watch.got(t)
			lines = append(lines, rc.tokens(t))
			if len(lines) > limit {
				over = true
				return
			}
		}
	})
	if over {
		return "hang"
	}
	if res != "" {
		return res
	}
	return watch.verdict() + encLines(lines)
}

// ---------- Draw ----------

// drawnTok: token of a drawn cell ('_' = empty grapheme, with its style when not the default: this
// is how Fill shows; 'E' = the ellipsis written by the hard-wrap branch).
func drawnTok(c vaxis.Cell, ids map[string]int) string {
	st := styleId(c.Style)
	switch c.Grapheme {
	case "":
		if st == 0 {
			return "_"
		}
		return "_" + strconv.Itoa(st)
	case "…":
		return "E" + strconv.Itoa(st)
	}
	i, ok := ids[c.Grapheme]
	if !ok {
		i = 4095
	}
	return strconv.Itoa(st*4096 + i)
}

// encSurface: "S<w>x<h>:" then the first maxRows rows (all when maxRows < 0), ';'-terminated.
func encSurface(s vxfw.Surface, ids map[string]int, maxRows int) string {
	var b strings.Builder
	fmt.Fprintf(&b, "S%dx%d:", s.Size.Width, s.Size.Height)
	w := int(s.Size.Width)
	for r := 0; r < int(s.Size.Height) && (maxRows < 0 || r < maxRows); r++ {
		for c := 0; c < w; c++ {
			if c > 0 {
				b.WriteByte(',')
			}
			b.WriteString(drawnTok(s.Buffer[r*w+c], ids))
		}
		b.WriteByte(';')
	}
	return b.String()
}

func drawCtx(w, h int) vxfw.DrawContext {
	return vxfw.DrawContext{Max: vxfw.Size{Width: uint16(w), Height: uint16(h)}, Characters: ctxChars}
}

func (rc *richCase) runDraw(w, h int) string {
	var out string
	res := guarded(func() {
		rt := richtext.New(rc.segs)
		s, err := rt.Draw(drawCtx(w, h))
		if err != nil {
			out = "error"
			return
		}
		out = encSurface(s, rc.a.ids, -1)
	})
	if res != "" {
		return res
	}
	return out + "#" + rc.runScan(w)
}

// runDrawHard: RichText.Draw with Softwrap = false.
func (rc *richCase) runDrawHard(w, h int) string {
	var out string
	res := guarded(func() {
		rt := richtext.New(rc.segs)
		rt.Softwrap = false
		s, err := rt.Draw(drawCtx(w, h))
		if err != nil {
			out = "error"
			return
		}
		out = encSurface(s, rc.a.ids, -1)
	})
	if res != "" {
		return res
	}
	return out
}

func (pc *plainCase) runDraw(w, h, style int) string {
	var out string
	res := guarded(func() {
		t := text.New(pc.s)
		t.Style = styleOf(style)
		s, err := t.Draw(drawCtx(w, h))
		if err != nil {
			out = "error"
			return
		}
		out = encSurface(s, pc.a.ids, -1)
	})
	if res != "" {
		return res
	}
	return out + "#" + pc.runScan(w)
}

// runDW: the F216 witness. nlines lines "a", …, "a", "b", "c" drawn by Text.Draw at Max = maxW x 65535;
// with `row > Max.Height` as the row guard, row 65535 + 1 wrapped to 0 and lines 65536.. were drawn over
// rows 0.. . Only the surface size and rows 0..2 are reported.
func runDW(maxW, nlines int, rich bool) string {
	if nlines < 2 || nlines > 1<<20 {
		return "bad-op"
	}
	var out string
	res := guarded(func() {
		content := strings.Repeat("a\n", nlines-2) + "b\nc"
		var w vxfw.Widget = text.New(content)
		if rich {
			w = richtext.New([]vaxis.Segment{{Text: content}})
		}
		s, err := w.Draw(drawCtx(maxW, 65535))
		if err != nil {
			out = "error"
			return
		}
		out = encSurface(s, map[string]int{"a": 0, "b": 1, "c": 2}, 3)
	})
	if res != "" {
		return res
	}
	return out
}

// ---------- generators ----------

var exAlphabet = []string{"a", "b", " ", "-", "\n", "世", "é", "⁠", "\t"}

var randAlphabet = []string{"a", "b", "c", "z", " ", " ", " ", "-", "\n", "世", "界", "é", "⁠", "\t", "é", "🔥",
	"👩‍🚀", "​", ".", ",", "!", "。", "」", "(", "/", " ", "­", "1", "2", "%", "$", "\r\n", "\u2028"}

// crlfAlphabet: Windows line endings and the other hard breaks (one grapheme cluster each), for a small
// exhaustive family of its own
var crlfAlphabet = []string{"a", " ", "\r\n", "世", "-", "\u2028", "\r"}

func (st *state) emitText(s string, wlo, whi int, split int, styles []int) {
	r := st.r
	if hangs >= maxHangs {
		r.Count("skipped-after-hangs")
		return
	}
	// plain
	pc := buildPlain(s, whi)
	if !pc.ok {
		r.Count("plain:aconcat-discard:" + pc.why)
	} else {
		var res []string
		for w := wlo; w <= whi; w++ {
			res = append(res, pc.runScan(w))
		}
		r.Emit(pc.op("P", wlo, whi), strings.Join(res, "|"))
		r.Count("plain")
		if pc.staleTerm {
			r.Count("plain:stale-query-starts-with-terminator")
		}
	}
	// rich: the same text cut into styled segments
	var parts []string
	if split > 0 && split < len(s) {
		parts = []string{s[:split], s[split:]}
	} else {
		parts = []string{s}
	}
	rc := buildRich(parts, styles)
	var res []string
	for w := wlo; w <= whi; w++ {
		res = append(res, rc.runScan(w))
	}
	r.Emit(rc.op("R", wlo, whi), strings.Join(res, "|"))
	r.Count("rich")
}

type state struct {
	r *hx.Run
}

func (st *state) emitDraw(s string, w, h int, split int, styles []int) {
	r := st.r
	if hangs >= maxHangs {
		r.Count("skipped-after-hangs")
		return
	}
	pc := buildPlain(s, w)
	if pc.ok {
		tst := (len(s) + w + h) % 4 // Text.Style: 0 (default) or one of three colours
		r.Emit(pc.op("DP", w, h)+" "+strconv.Itoa(tst), pc.runDraw(w, h, tst))
		r.Count("draw-plain")
	}
	var parts []string
	if split > 0 && split < len(s) {
		parts = []string{s[:split], s[split:]}
	} else {
		parts = []string{s}
	}
	rc := buildRich(parts, styles)
	r.Emit(rc.op("DR", w, h), rc.runDraw(w, h))
	r.Count("draw-rich")
}

func (st *state) emitHard(s string) {
	if hangs >= maxHangs {
		return
	}
	rc := buildRich([]string{s}, []int{0})
	al, ws, fl := alphaFields(&rc.a, false)
	if len(rc.a.names) == 0 {
		al = "-"
	}
	st.r.Emit(fmt.Sprintf("H %s %s %s %s %s", al, ws, fl, joinInts(rc.ids), joinInts(rc.styles)), rc.runHard())
	st.r.Count("hard")
}

// emitDrawHard: RichText.Draw with Softwrap = false (op DH).
func (st *state) emitDrawHard(s string, w, h int, split int, styles []int) {
	if hangs >= maxHangs {
		return
	}
	var parts []string
	if split > 0 && split < len(s) {
		parts = []string{s[:split], s[split:]}
	} else {
		parts = []string{s}
	}
	rc := buildRich(parts, styles)
	st.r.Emit(rc.op("DH", w, h), rc.runDrawHard(w, h))
	st.r.Count("draw-hard")
}

// emitDrawTextHard: Text.Draw with Softwrap = false (op DT, round 3): the lines are bufio.Scanner's, the
// ellipsis and the Fill are in Text.Style.  Encoded like the rich ops (one segment in style st).
func (st *state) emitDrawTextHard(s string, w, h int, style int) {
	if hangs >= maxHangs {
		return
	}
	rc := buildRich([]string{s}, []int{style})
	st.r.Emit(rc.op("DT", w, h), rc.runDrawTextHard(s, w, h, style))
	st.r.Count("draw-text-hard")
}

func (rc *richCase) runDrawTextHard(s string, w, h, style int) string {
	var out string
	res := guarded(func() {
		t := &text.Text{Content: s, Style: styleOf(style), Softwrap: false}
		sf, err := t.Draw(drawCtx(w, h))
		if err != nil {
			out = "error"
			return
		}
		out = encSurface(sf, rc.a.ids, -1)
	})
	if res != "" {
		return res
	}
	return out
}

// nLines: how many lines the rich soft-wrap scanner returns at this width (for choosing Max.Height).
func nLines(s string, w int) int {
	rc := buildRich([]string{s}, []int{0})
	return strings.Count(rc.runScan(w), ";")
}

// heights: Max.Height values around the number of lines n: 0, n-1, n, n+1 and unbounded, without repeats.
func heights(n int, extra ...int) []int {
	seen := map[int]bool{}
	var out []int
	for _, h := range append([]int{0, n - 1, n, n + 1, 65535}, extra...) {
		if h >= 0 && !seen[h] {
			seen[h] = true
			out = append(out, h)
		}
	}
	return out
}

func textFromAlpha(al string, cells string) (string, []int, bool) {
	var names []string
	if al != "-" {
		for _, h := range strings.Split(al, ",") {
			b, ok := unhex(h)
			if !ok {
				return "", nil, false
			}
			names = append(names, b)
		}
	}
	var sb strings.Builder
	var offs []int
	if cells != "-" {
		for _, c := range strings.Split(cells, ",") {
			i, err := strconv.Atoi(c)
			if err != nil || i < 0 || i >= len(names) {
				return "", nil, false
			}
			offs = append(offs, sb.Len())
			sb.WriteString(names[i])
		}
	}
	return sb.String(), offs, true
}

func unhex(h string) (string, bool) {
	if h == "-" {
		return "", true
	}
	if len(h)%2 != 0 {
		return "", false
	}
	b := make([]byte, len(h)/2)
	for i := range b {
		v, err := strconv.ParseUint(h[2*i:2*i+2], 16, 8)
		if err != nil {
			return "", false
		}
		b[i] = byte(v)
	}
	return string(b), true
}

// richFromOp rebuilds the styled segments from the cells/styles columns of an op.
func richFromOp(al, cells, styles string) (*richCase, bool) {
	s, offs, ok := textFromAlpha(al, cells)
	if !ok {
		return nil, false
	}
	var sty []int
	if styles != "-" {
		for _, x := range strings.Split(styles, ",") {
			v, err := strconv.Atoi(x)
			if err != nil {
				return nil, false
			}
			sty = append(sty, v)
		}
	}
	if len(sty) != len(offs) {
		return nil, false
	}
	var parts []string
	var ps []int
	start := 0
	for i := 1; i <= len(offs); i++ {
		if i == len(offs) || sty[i] != sty[start] {
			end := len(s)
			if i < len(offs) {
				end = offs[i]
			}
			parts = append(parts, s[offs[start]:end])
			ps = append(ps, sty[start])
			start = i
		}
	}
	return buildRich(parts, ps), true
}

func (st *state) replayOp(op []string) (string, bool) {
	_, res, ok := st.rebuild(op)
	return res, ok
}

// rebuild re-derives a case from the text encoded in an op (alphabet + cells + styles): it returns
// the freshly built op (oracle values recomputed from the real library) and the implementation's result.
func (st *state) rebuild(op []string) (string, string, bool) {
	if len(op) == 0 {
		return "", "", false
	}
	atoi := func(s string) int { v, _ := strconv.Atoi(s); return v }
	switch op[0] {
	case "MB":
		if len(op) != 2 {
			return "", "", false
		}
		txt, ok := unhex(op[1])
		if !ok {
			return "", "", false
		}
		return strings.Join(op, " "), runMB(txt), true
	case "DW", "DWR":
		if len(op) != 3 {
			return "", "", false
		}
		return strings.Join(op, " "), runDW(atoi(op[1]), atoi(op[2]), op[0] == "DWR"), true
	case "P", "DP":
		if len(op) != 9 && !(op[0] == "DP" && len(op) == 10) {
			return "", "", false
		}
		s, _, ok := textFromAlpha(op[3], op[6])
		if !ok {
			return "", "", false
		}
		pc := buildPlain(s, atoi(op[2]))
		if op[0] == "DP" {
			pc = buildPlain(s, atoi(op[1]))
			tst := 0
			if len(op) == 10 {
				tst = atoi(op[9])
			}
			return pc.op("DP", atoi(op[1]), atoi(op[2])) + " " + strconv.Itoa(tst), pc.runDraw(atoi(op[1]), atoi(op[2]), tst), true
		}
		var res []string
		for w := atoi(op[1]); w <= atoi(op[2]); w++ {
			res = append(res, pc.runScan(w))
		}
		return pc.op("P", atoi(op[1]), atoi(op[2])), strings.Join(res, "|"), true
	case "DT":
		// the text is rebuilt from the alphabet and the ids; the style is that of the first cell
		if len(op) != 9 {
			return "", "", false
		}
		names := strings.Split(op[3], ",")
		var sb strings.Builder
		if op[7] != "" && op[7] != "-" {
			for _, f := range strings.Split(op[7], ",") {
				i := atoi(f)
				if i < 0 || i >= len(names) {
					return "", "", false
				}
				b, err := hex.DecodeString(names[i])
				if err != nil {
					return "", "", false
				}
				sb.Write(b)
			}
		}
		style := 0
		if op[8] != "" && op[8] != "-" {
			style = atoi(strings.Split(op[8], ",")[0])
		}
		rc := buildRich([]string{sb.String()}, []int{style})
		return rc.op("DT", atoi(op[1]), atoi(op[2])), rc.runDrawTextHard(sb.String(), atoi(op[1]), atoi(op[2]), style), true
	case "R", "DR", "DH":
		if len(op) != 9 {
			return "", "", false
		}
		rc, ok := richFromOp(op[3], op[7], op[8])
		if !ok {
			return "", "", false
		}
		if op[0] == "DH" {
			return rc.op("DH", atoi(op[1]), atoi(op[2])), rc.runDrawHard(atoi(op[1]), atoi(op[2])), true
		}
		if op[0] == "DR" {
			return rc.op("DR", atoi(op[1]), atoi(op[2])), rc.runDraw(atoi(op[1]), atoi(op[2])), true
		}
		var res []string
		for w := atoi(op[1]); w <= atoi(op[2]); w++ {
			res = append(res, rc.runScan(w))
		}
		return rc.op("R", atoi(op[1]), atoi(op[2])), strings.Join(res, "|"), true
	case "H":
		if len(op) != 6 {
			return "", "", false
		}
		rc, ok := richFromOp(op[1], op[4], op[5])
		if !ok {
			return "", "", false
		}
		return strings.Join(op, " "), rc.runHard(), true
	}
	return "", "", false
}

// runMB: the number of lines of both soft-wrap scanners for s at width 100 (everything fits), and the number of
// mandatory breaks uniseg.FirstLineSegment reports inside s (not counting the end of the text).
func runMB(s string) string {
	out := ""
	g := guarded(func() {
		ctx := drawCtx(100, 100)
		np := 0
		sc := text.NewSoftwrapScanner(s, 100)
		for sc.Scan(ctx) && np < 1000 {
			np++
		}
		cells := []vaxis.Cell{}
		for _, ch := range vaxis.Characters(s) {
			cells = append(cells, vaxis.Cell{Character: ch})
		}
		nr := 0
		rs := richtext.NewSoftwrapScanner(cells, 100)
		for rs.Scan() && nr < 1000 {
			nr++
		}
		must := 0
		rest, state := s, -1
		for len(rest) > 0 {
			var br bool
			_, rest, br, state = uniseg.FirstLineSegmentInString(rest, state)
			if br && len(rest) > 0 {
				must++
			}
		}
		out = fmt.Sprintf("plain=%d;rich=%d;must=%d", np, nr, must)
	})
	if g != "" {
		return g
	}
	return out
}

func run(r *hx.Run) error {
	st := &state{r: r}
	if r.Replay != "" {
		return hx.ReplayOps(r, st.replayOp)
	}
	for _, c := range hx.Corpus("C16") {
		for _, op := range c {
			nop, res, ok := st.rebuild(strings.Fields(op))
			if !ok {
				nop, res = op, "bad-op"
			}
			r.Emit(nop, res)
			r.Count("corpus")
		}
	}
	rng := gen.New(r.Seed)

	// 1. bounded-exhaustive over the alphabet, all widths 0..6 in one op
	maxLen := 5
	sampleLen := []int{6, 7}
	nSample := 20000
	if r.Thorough {
		maxLen = 6
		sampleLen = []int{7, 8, 9}
		nSample = 150000
	}
	maxHardDraw := 3
	if r.Thorough {
		maxHardDraw = 4
	}
	// F216 witness (also in the corpus): more lines than a uint16 row counter can hold
	r.Emit("DW 2 65538", runDW(2, 65538, false))
	r.Emit("DWR 2 65538", runDW(2, 65538, true))
	r.Count("draw-rowwrap")
	// round 4: mandatory breaks other than LF / CR / CRLF (classes BK and NL of UAX #14: U+2028, U+2029, U+0085, VT, FF).
	// uniseg.FirstLineSegment must-breaks behind them, uniseg.HasTrailingLineBreak does not know them; both soft-wrap
	// scanners are run at a width at which everything fits, so the number of lines is the number of hard breaks + 1
	for _, b := range []string{"\n", "\r", "\r\n", "\u2028", "\u2029", "\u0085", "\v", "\f"} {
		for _, x := range []string{"a", "ab c", "世"} {
			for _, y := range []string{"b", "世 d", "c-d", "b" + b + "e"} {
				op := "MB " + hx.Hex(x+b+y)
				r.Emit(op, runMB(x+b+y))
				r.Count("mandatory-break:" + fmt.Sprintf("%q", b))
			}
		}
	}
	var rec func(prefix []int, n int)
	buf := make([]byte, 0, 64)
	mk := func(ix []int) string {
		buf = buf[:0]
		for _, i := range ix {
			buf = append(buf, exAlphabet[i]...)
		}
		return string(buf)
	}
	rec = func(prefix []int, n int) {
		s := mk(prefix)
		split := 0
		if len(prefix) >= 2 {
			split = len(mk(prefix[:len(prefix)/2]))
		}
		st.emitText(s, 0, 6, split, []int{1, 2})
		if len(prefix) <= 4 {
			st.emitHard(s)
		}
		if len(prefix) <= 3 {
			for w := 1; w <= 4; w++ {
				st.emitDraw(s, w, 12, split, []int{1, 2})
				if len(prefix) <= 2 {
					// Max.Height around the number of lines: the clipped regime
					for _, h := range heights(nLines(s, w)) {
						st.emitDraw(s, w, h, split, []int{1, 2})
					}
				}
			}
		}
		if len(prefix) <= maxHardDraw {
			nl := strings.Count(s, "\n") + 1
			if strings.HasSuffix(s, "\n") || s == "" {
				nl--
			}
			for w := 1; w <= 4; w++ {
				for _, h := range heights(nl, 1, 2) {
					st.emitDrawHard(s, w, h, split, []int{1, 2})
				}
				st.emitDrawTextHard(s, w, nl, 1+w%2)
				if len(prefix) <= 2 {
					if h := nl - 1 + 2*(w%2); h >= 0 {
						st.emitDrawTextHard(s, w, h, 0)
					}
				}
			}
		}
		if n == 0 {
			return
		}
		for i := range exAlphabet {
			rec(append(prefix, i), n-1)
		}
	}
	t0 := time.Now()
	rec(nil, maxLen)
	r.Note("t-exhaustive", time.Since(t0).String())
	t0 = time.Now()
	r.Note("exhaustive-upto", maxLen)
	for i := 0; i < nSample; i++ {
		n := gen.Pick(rng, sampleLen)
		ix := make([]int, n)
		for j := range ix {
			ix[j] = rng.Intn(len(exAlphabet))
		}
		s := mk(ix)
		st.emitText(s, 0, 6, len(mk(ix[:rng.Intn(n+1)])), []int{rng.Intn(3), rng.Intn(3)})
		if i%10 == 0 {
			st.emitDraw(s, rng.Range(1, 6), rng.Range(0, 12), 0, []int{1})
			st.emitHard(s)
			st.emitDrawHard(s, rng.Range(1, 6), gen.Pick(rng, []int{0, 1, 2, 3, 12, 65535}), len(mk(ix[:rng.Intn(n+1)])), []int{rng.Intn(3), rng.Intn(3)})
			st.emitDrawTextHard(s, rng.Range(1, 6), gen.Pick(rng, []int{0, 1, 2, 3, 12, 65535}), rng.Intn(3))
		}
	}
	r.Note("t-sample", time.Since(t0).String())
	t0 = time.Now()
	// 2. random texts, wider alphabet, up to 2000 graphemes, widths up to 200
	nRand := 300
	if r.Thorough {
		nRand = 3000
	}
	for i := 0; i < nRand; i++ {
		n := rng.Range(1, 60)
		switch {
		case i%50 == 0:
			n = rng.Range(500, 2000)
		case i%7 == 0:
			n = rng.Range(60, 300)
		}
		var sb strings.Builder
		// word-structured: runs of letters of random length, to exercise the long-word branch
		for k := 0; k < n; {
			if rng.Chance(1, 3) {
				run := rng.Range(1, 40)
				g := gen.Pick(rng, []string{"a", "世", "é", "x⁠", "界。"})
				for j := 0; j < run && k < n; j++ {
					sb.WriteString(g)
					k++
				}
			} else {
				sb.WriteString(gen.Pick(rng, randAlphabet))
				k++
			}
		}
		s := sb.String()
		w := rng.Range(1, 200)
		if rng.Chance(1, 2) {
			w = rng.Range(1, 12)
		}
		split := 0
		if rng.Bool() {
			split = len(strings.Join(clusters(s)[:rng.Intn(len(clusters(s))+1)], ""))
		}
		st.emitText(s, w, w+1, split, []int{rng.Intn(3), rng.Intn(3)})
		if i%5 == 0 {
			st.emitDraw(s, w, rng.Range(0, 40), split, []int{1, 2})
			st.emitHard(s)
			st.emitDrawHard(s, w, rng.Range(0, 40), split, []int{1, 2})
		}
	}
	r.Note("t-random", time.Since(t0).String())
	t0 = time.Now()
	// 2b. the long-word split family (F116 shapes): [prefix] + an unbreakable word wider than small widths,
	// made of wide / opening-punctuation / combining graphemes and letters, followed by a space or hard break
	// and further short words; widths 0..6 in one op, so every word is split at some width and fits at others
	nSplit := 3000
	if r.Thorough {
		nSplit = 30000
	}
	heads := []string{"（", "世", "「", "🔥", "é", "(", "“", "$", "界。", "x⁠"}
	seps := []string{" ", "\n", " \n", "\n ", "  ", "-", "\t", "\r\n", " \r\n"}
	for i := 0; i < nSplit; i++ {
		var sb strings.Builder
		sb.WriteString(gen.Pick(rng, []string{"", "", "x ", "ab ", "\n", "世 "}))
		nw := rng.Range(1, 4)
		for k := 0; k < nw; k++ {
			if rng.Chance(2, 3) {
				sb.WriteString(gen.Pick(rng, heads))
			}
			sb.WriteString(strings.Repeat(gen.Pick(rng, []string{"a", "b", "世", "é"}), rng.Range(1, 5)))
			if k < nw-1 || rng.Bool() {
				sb.WriteString(gen.Pick(rng, seps))
			}
		}
		s := sb.String()
		st.emitText(s, 0, 6, 0, []int{rng.Intn(3)})
		r.Count("split-family")
	}
	r.Note("t-split-family", time.Since(t0).String())
	t0 = time.Now()
	// 2c. hard breaks other than "\n" (CRLF, CR, U+2028): all strings up to length 4 over crlfAlphabet
	var recC func(prefix []int, n int)
	recC = func(prefix []int, n int) {
		if len(prefix) > 0 {
			var sb strings.Builder
			has := false
			for _, i := range prefix {
				sb.WriteString(crlfAlphabet[i])
				has = has || i == 2 || i >= 5
			}
			if has {
				st.emitText(sb.String(), 0, 4, 0, []int{1})
				st.emitHard(sb.String())
				if len(prefix) <= 3 {
					// round 3: the two hard-wrap widgets on the same texts (text.hardLines / HardwrapScanner
					// must break at CR and CRLF as the property oracle does; rows clipped at Max.Height 1)
					for _, w := range []int{1, 3} {
						st.emitDrawHard(sb.String(), w, 6, 0, []int{1, 2})
						st.emitDrawTextHard(sb.String(), w, 6-5*(w%3%2), 1)
					}
				}
				r.Count("crlf-family")
			}
		}
		if n == 0 {
			return
		}
		for i := range crlfAlphabet {
			recC(append(prefix, i), n-1)
		}
	}
	recC(nil, 4)
	r.Note("t-crlf-family", time.Since(t0).String())
	t0 = time.Now()
	// 3. overflow regime (F45): an unbroken word whose width reaches 2^16
	over := []int{65536}
	if r.Thorough {
		over = []int{65535, 65536, 65540}
	}
	for _, n := range over {
		s := strings.Repeat("a", n)
		exactOnly = true
		st.emitText(s, 3000, 3000, 0, []int{0})
		exactOnly = false
		r.Count("overflow-regime")
	}
	r.Note("t-overflow", time.Since(t0).String())
	return nil
}
