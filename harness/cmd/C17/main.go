package main

// C17 harness: vxfw/textfield.TextField and widgets/textinput.Model driven through their exported
// API by sequences of key events, pastes and programmatic edits.  Each case starts with
//   #case <kind>:<n> w=<width per alphabet grapheme> a=<isWord bit per grapheme> s=<start ids>
// followed by one line per operation; the impl column holds the observable state after the
// operation (value as alphabet ids, cursor, callbacks).  Graphemes are ids into `alphabet`.
//
// TextField ops
//   key <meaning> <release 0/1> <8 match bits> <text ids|->     HandleEvent(vaxis.Key)
//   ins <ids> | cur <i> | delr | dell | kill | reset            programmatic API
//   draw <w> <h>                                               Draw
//     impl: v=<ids> col=<cursor column of Draw at width 1000> cb=<callbacks>
// textinput ops
//   upd <meaning> <key string hex> <ctrl><alt><super> <text ids|->   Update(vaxis.Key)
//   rel | pkey <ids> | pend | set <ids>
//   draw <w> <prompt ids|->                                    Draw into a window of width w
//   mask                                                       SetInvisibleChar("*")
//     impl: v=<ids> cur=<CursorPosition()>   /   draw: col=<cursor col>|nocursor row=<cell per column: id, T = truncator, M = mask> | hang | panic

import (
	"fmt"
	"runtime"
	"strconv"
	"strings"
	"time"
	"unicode"

	"git.sr.ht/~rockorager/vaxis"
	"git.sr.ht/~rockorager/vaxis/vxfw"
	"git.sr.ht/~rockorager/vaxis/vxfw/textfield"
	"git.sr.ht/~rockorager/vaxis/widgets/textinput"
	"github.com/rivo/uniseg"
	"verifharness/fakeconsole"
	"verifharness/gen"
	"verifharness/hx"
)

func main() { runtime.GOMAXPROCS(2); hx.Main("C17", run) }

var alphabet = []string{"a", "b", " ", "世", "\u00e9", "👩\u200d🚀", "-", "1", "\u2060", ".", "д", "🇩🇪", "e\u0301"}

const nNarrow = 8 // alphabet[:nNarrow] all have a positive width

var alphaId = map[string]int{}
var alphaW []int
var alphaWord []bool

func init() {
	for i, at := range atoms {
		atomId[at.r] = i
	}
	for i, g := range alphabet {
		alphaId[g] = i
		chs := vaxis.Characters(g)
		if len(chs) != 1 {
			panic("alphabet entry is not one cluster: " + g)
		}
		alphaW = append(alphaW, chs[0].Width)
		rs := []rune(g)
		alphaWord = append(alphaWord, len(rs) == 1 && (unicode.IsLetter(rs[0]) || unicode.IsNumber(rs[0])))
	}
}

// ---------- atoms (kinds tfc / tic): code points whose graphemes can merge ----------

type atomDef struct {
	r     rune
	class byte // grapheme-break class: O other, E Extend, Z ZWJ, R regional indicator, P Extended_Pictographic, L V T Hangul jamo
}

var atoms = []atomDef{
	{'a', 'O'}, {'b', 'O'}, {' ', 'O'}, {0x301, 'E'}, {0x200D, 'Z'}, {0xFE0F, 'E'}, {0x1F1E9, 'R'}, {0x1F1EA, 'R'},
	{0x1F469, 'P'}, {0x1F680, 'P'}, {0x2764, 'P'}, {0x1100, 'L'}, {0x1161, 'V'}, {0x11A8, 'T'}, {0x4E16, 'O'}, {'e', 'O'},
	{'-', 'O'}, {0x1F3FD, 'E'},
	// TextField only (vaxis.Characters turns a tab into 8 blanks before textinput stores it): must stay last
	{'\t', 'C'},
}

const atomTab = 18

var atomId = map[rune]int{}

// atomMode: ids are atom ids, strings are code point sequences, observations show clusters as a+b
var atomMode = false

func atomIds(s string) string {
	var out []string
	for _, r := range s {
		if i, ok := atomId[r]; ok {
			out = append(out, strconv.Itoa(i))
		} else {
			out = append(out, "99")
		}
	}
	return strings.Join(out, "+")
}

func charWidths(chs []vaxis.Character) string {
	if len(chs) == 0 {
		return "-"
	}
	var out []string
	for _, c := range chs {
		out = append(out, strconv.Itoa(c.Width))
	}
	return strings.Join(out, ",")
}

// clusterWidths: for every grapheme cluster of s the widths of the characters it is drawn as, a+b+…
func clusterWidths(s string) string {
	if s == "" {
		return "-"
	}
	var out []string
	st := -1
	var c string
	for len(s) > 0 {
		c, s, _, st = uniseg.FirstGraphemeClusterInString(s, st)
		var ws []string
		for _, ch := range vaxis.Characters(c) {
			ws = append(ws, strconv.Itoa(ch.Width))
		}
		out = append(out, strings.Join(ws, "+"))
	}
	return strings.Join(out, ",")
}

func ids(s string) string {
	if s == "" {
		return "-"
	}
	if atomMode {
		var out []string
		st := -1
		var c string
		for len(s) > 0 {
			c, s, _, st = uniseg.FirstGraphemeClusterInString(s, st)
			out = append(out, atomIds(c))
		}
		return strings.Join(out, ",")
	}
	var out []string
	st := -1
	var c string
	for len(s) > 0 {
		c, s, _, st = uniseg.FirstGraphemeClusterInString(s, st)
		if i, ok := alphaId[c]; ok {
			out = append(out, strconv.Itoa(i))
		} else {
			out = append(out, "99")
		}
	}
	return strings.Join(out, ",")
}

// clustersOf: uniseg's grapheme clusters of s (state threaded through, as the widgets do)
func clustersOf(s string) []string {
	var out []string
	st := -1
	var c string
	for len(s) > 0 {
		c, s, _, st = uniseg.FirstGraphemeClusterInString(s, st)
		out = append(out, c)
	}
	return out
}

// segLaws checks Spec.Editor.Segmentation's three laws on the real uniseg for the text s: the clusters
// concatenate to s; the first i clusters, re-segmented, are i clusters; no prefix of s (cut at any code
// point) has more clusters than s.  "ok" or the law that fails.
func segLaws(s string) string {
	cs := clustersOf(s)
	if strings.Join(cs, "") != s {
		return "concat"
	}
	for i := 0; i <= len(cs); i++ {
		if len(clustersOf(strings.Join(cs[:i], ""))) != i {
			return fmt.Sprintf("prefix%d", i)
		}
	}
	for j := range s {
		if len(clustersOf(s[:j])) > len(cs) {
			return fmt.Sprintf("mono%d", j)
		}
	}
	return "ok"
}

func str(idl []int) string {
	var b strings.Builder
	for _, i := range idl {
		if atomMode {
			b.WriteRune(atoms[i].r)
		} else {
			b.WriteString(alphabet[i])
		}
	}
	return b.String()
}

func idList(idl []int) string {
	if len(idl) == 0 {
		return "-"
	}
	var out []string
	for _, i := range idl {
		out = append(out, strconv.Itoa(i))
	}
	return strings.Join(out, ",")
}

func parseIds(s string) ([]int, bool) {
	if s == "-" {
		return nil, true
	}
	var out []int
	for _, f := range strings.Split(s, ",") {
		v, err := strconv.Atoi(f)
		if err != nil || v < 0 || (!atomMode && v >= len(alphabet)) || (atomMode && v >= len(atoms)) {
			return nil, false
		}
		out = append(out, v)
	}
	return out, true
}

func header(kind string, n int, start []int) string {
	if kind == "tfc" || kind == "tic" {
		var k, a strings.Builder
		for _, at := range atoms {
			k.WriteByte(at.class)
			if unicode.IsLetter(at.r) || unicode.IsNumber(at.r) {
				a.WriteByte('1')
			} else {
				a.WriteByte('0')
			}
		}
		return fmt.Sprintf("%s:%d k=%s a=%s s=%s W=%s", kind, n, k.String(), a.String(), idList(start), clusterWidths(str(start)))
	}
	var w, a []string
	for i := range alphabet {
		w = append(w, strconv.Itoa(alphaW[i]))
		if alphaWord[i] {
			a = append(a, "1")
		} else {
			a = append(a, "0")
		}
	}
	return fmt.Sprintf("%s:%d w=%s a=%s s=%s", kind, n, strings.Join(w, ","), strings.Join(a, ""), idList(start))
}

// ---------- key table ----------

type keyDef struct {
	name    string
	key     vaxis.Key
	meaning string // what an ideal editor does with it in the TextField / in textinput ("" = same)
	tiMean  string
}

var keyTable = []keyDef{
	{"Ctrl+a", vaxis.Key{Keycode: 'a', Modifiers: vaxis.ModCtrl}, "home", ""},
	{"Home", vaxis.Key{Keycode: vaxis.KeyHome}, "home", ""},
	{"Ctrl+e", vaxis.Key{Keycode: 'e', Modifiers: vaxis.ModCtrl}, "end", ""},
	{"End", vaxis.Key{Keycode: vaxis.KeyEnd}, "end", ""},
	{"Ctrl+f", vaxis.Key{Keycode: 'f', Modifiers: vaxis.ModCtrl}, "right", ""},
	{"Right", vaxis.Key{Keycode: vaxis.KeyRight}, "right", ""},
	{"Ctrl+b", vaxis.Key{Keycode: 'b', Modifiers: vaxis.ModCtrl}, "left", ""},
	{"Left", vaxis.Key{Keycode: vaxis.KeyLeft}, "left", ""},
	{"Ctrl+d", vaxis.Key{Keycode: 'd', Modifiers: vaxis.ModCtrl}, "delr", ""},
	{"Delete", vaxis.Key{Keycode: vaxis.KeyDelete}, "delr", ""},
	{"Ctrl+h", vaxis.Key{Keycode: 'h', Modifiers: vaxis.ModCtrl}, "dell", ""},
	{"BackSpace", vaxis.Key{Keycode: vaxis.KeyBackspace}, "dell", ""},
	{"Ctrl+k", vaxis.Key{Keycode: 'k', Modifiers: vaxis.ModCtrl}, "kill", ""},
	{"Enter", vaxis.Key{Keycode: vaxis.KeyEnter}, "submit", "noop"},
	// textinput only
	{"Ctrl+u", vaxis.Key{Keycode: 'u', Modifiers: vaxis.ModCtrl}, "noop", "killstart"},
	{"Ctrl+w", vaxis.Key{Keycode: 'w', Modifiers: vaxis.ModCtrl}, "noop", "delword"},
	{"Alt+f", vaxis.Key{Keycode: 'f', Modifiers: vaxis.ModAlt}, "noop", "wordright"},
	{"Ctrl+Right", vaxis.Key{Keycode: vaxis.KeyRight, Modifiers: vaxis.ModCtrl}, "noop", "wordright"},
	{"Alt+b", vaxis.Key{Keycode: 'b', Modifiers: vaxis.ModAlt}, "noop", "wordleft"},
	{"Ctrl+Left", vaxis.Key{Keycode: vaxis.KeyLeft, Modifiers: vaxis.ModCtrl}, "noop", "wordleft"},
	// neither widget binds kill-word-right
	{"Alt+d", vaxis.Key{Keycode: 'd', Modifiers: vaxis.ModAlt}, "noop", ""},
	// unbound
	{"F5", vaxis.Key{Keycode: vaxis.KeyF05}, "noop", ""},
	{"Ctrl+x", vaxis.Key{Keycode: 'x', Modifiers: vaxis.ModCtrl}, "noop", ""},
	{"Up", vaxis.Key{Keycode: vaxis.KeyUp}, "noop", ""},
}

func keyByName(n string) (keyDef, bool) {
	for _, k := range keyTable {
		if k.name == n {
			return k, true
		}
	}
	return keyDef{}, false
}

func textKey(idl []int) vaxis.Key {
	s := str(idl)
	r := []rune(s)
	k := vaxis.Key{Text: s}
	if len(r) > 0 {
		k.Keycode = r[0]
	}
	return k
}

// ---------- TextField ----------

type tfRun struct {
	tf  *textfield.TextField
	cbs []string
}

func newTF(start []int) *tfRun {
	t := &tfRun{tf: textfield.New()}
	t.tf.OnChange = func(line string) (vxfw.Command, error) {
		t.cbs = append(t.cbs, "C"+ids(line))
		return nil, nil
	}
	t.tf.OnSubmit = func(line string) (vxfw.Command, error) {
		t.cbs = append(t.cbs, "S"+ids(line))
		return nil, nil
	}
	if len(start) > 0 {
		t.tf.InsertStringAtCursor(str(start))
	}
	return t
}

func (t *tfRun) obs() string {
	col := "-"
	ctx := vxfw.DrawContext{Max: vxfw.Size{Width: 1000, Height: 1}, Characters: vaxis.Characters}
	if s, err := t.tf.Draw(ctx); err == nil && s.Cursor != nil {
		col = strconv.Itoa(int(s.Cursor.Col))
	}
	cb := "-"
	if len(t.cbs) > 0 {
		cb = strings.Join(t.cbs, ";")
	}
	t.cbs = nil
	cur, n := t.tf.VerifC17State()
	return fmt.Sprintf("v=%s col=%s cb=%s cur=%d n=%d", ids(t.tf.Value), col, cb, cur, n)
}

func (t *tfRun) widths() string { return clusterWidths(t.tf.Value) }

func matchBits(k vaxis.Key) string {
	b := []bool{
		k.Matches('a', vaxis.ModCtrl) || k.Matches(vaxis.KeyHome),
		k.Matches('e', vaxis.ModCtrl) || k.Matches(vaxis.KeyEnd),
		k.Matches('f', vaxis.ModCtrl) || k.Matches(vaxis.KeyRight),
		k.Matches('b', vaxis.ModCtrl) || k.Matches(vaxis.KeyLeft),
		k.Matches('d', vaxis.ModCtrl) || k.Matches(vaxis.KeyDelete),
		k.Matches('h', vaxis.ModCtrl) || k.Matches(vaxis.KeyBackspace),
		k.Matches('k', vaxis.ModCtrl),
		k.Matches(vaxis.KeyEnter),
	}
	var sb strings.Builder
	for _, x := range b {
		if x {
			sb.WriteByte('1')
		} else {
			sb.WriteByte('0')
		}
	}
	return sb.String()
}

// tfOp performs one op given in its textual form; returns the canonical op text and the result.
func stripW(op []string) []string {
	for len(op) > 0 && strings.HasPrefix(op[len(op)-1], "W=") {
		op = op[:len(op)-1]
	}
	return op
}

func (t *tfRun) do(op []string) (string, string, bool) {
	op = stripW(op)
	res := ""
	canon := strings.Join(op, " ")
	ok := true
	panicked, _ := hx.Guard(func() {
		switch op[0] {
		case "key":
			// key <meaning> <release> <bits> <text> [name]
			if len(op) < 6 {
				ok = false
				return
			}
			var k vaxis.Key
			if op[5] == "text" {
				idl, pok := parseIds(op[4])
				if !pok {
					ok = false
					return
				}
				k = textKey(idl)
			} else {
				kd, kok := keyByName(op[5])
				if !kok {
					ok = false
					return
				}
				k = kd.key
			}
			if op[2] == "1" {
				k.EventType = vaxis.EventRelease
			}
			op[3] = matchBits(k)
			canon = strings.Join(op, " ")
			t.tf.HandleEvent(k, vxfw.TargetPhase)
		case "ins":
			idl, pok := parseIds(op[1])
			if !pok {
				ok = false
				return
			}
			t.tf.InsertStringAtCursor(str(idl))
		case "cur":
			v, _ := strconv.Atoi(op[1])
			t.tf.CursorTo(uint(v))
		case "delr":
			t.tf.DeleteCharRightOfCursor()
		case "dell":
			t.tf.DeleteCharLeftOfCursor()
		case "kill":
			t.tf.DeleteCursorToEndOfLine()
		case "reset":
			t.tf.Reset()
		case "nocb":
			// the application installs no callbacks: the other branches of HandleEvent / checkChanged
			t.tf.OnChange = nil
			t.tf.OnSubmit = nil
		case "seg":
			// the three segmentation laws asked of uniseg, on one text: the widget is not touched
			idl, pok := parseIds(op[1])
			if !pok {
				ok = false
				return
			}
			res = "seg=" + ids(str(idl)) + " laws=" + segLaws(str(idl))
		case "draw":
			w, _ := strconv.Atoi(op[1])
			h, _ := strconv.Atoi(op[2])
			ctx := vxfw.DrawContext{Max: vxfw.Size{Width: uint16(w), Height: uint16(h)}, Characters: vaxis.Characters}
			s, err := t.tf.Draw(ctx)
			switch {
			case err != nil:
				res = "error"
			case s.Cursor == nil:
				res = "nocursor"
			default:
				res = fmt.Sprintf("col=%d", s.Cursor.Col)
			}
		default:
			ok = false
		}
	})
	if !ok {
		return canon, "", false
	}
	if panicked {
		return canon, "panic", true
	}
	if res == "" {
		res = t.obs()
	}
	return canon, res, true
}

// ---------- textinput ----------

type tiRun struct {
	m  *textinput.Model
	vx *vaxis.Vaxis
	fc *fakeconsole.Console
}

func newTI(start []int) *tiRun {
	t := &tiRun{m: textinput.New()}
	if len(start) > 0 {
		t.m.SetContent(str(start))
	}
	return t
}

func (t *tiRun) close() {
	if t.vx != nil {
		t.vx.Close()
		t.vx = nil
	}
}

func (t *tiRun) obs() string {
	if atomMode {
		// the content as the widget holds it: one entry per vaxis.Character
		var out []string
		for _, c := range t.m.Characters() {
			out = append(out, atomIds(c.Grapheme))
		}
		v := "-"
		if len(out) > 0 {
			v = strings.Join(out, ",")
		}
		return fmt.Sprintf("v=%s cur=%d", v, t.m.CursorPosition())
	}
	return fmt.Sprintf("v=%s cur=%d", ids(t.m.String()), t.m.CursorPosition())
}

func (t *tiRun) widths() string { return charWidths(t.m.Characters()) }

var sharedVx *vaxis.Vaxis

func getVx() *vaxis.Vaxis {
	if sharedVx == nil {
		fc := fakeconsole.New(80, 4, fakeconsole.FromMask(0))
		vx, err := vaxis.New(vaxis.Options{WithConsole: fc, NoSignals: true})
		if err != nil {
			panic(err)
		}
		sharedVx = vx
	}
	return sharedVx
}

var hung = false

func (t *tiRun) do(op []string) (string, string, bool) {
	op = stripW(op)
	canon := strings.Join(op, " ")
	res := ""
	ok := true
	body := func() {
		switch op[0] {
		case "upd":
			// upd <meaning> <keystr hex> <mods> <text> <name|text>
			if len(op) < 6 {
				ok = false
				return
			}
			var k vaxis.Key
			if op[5] == "text" || op[5] == "ctext" {
				idl, pok := parseIds(op[4])
				if !pok {
					ok = false
					return
				}
				k = textKey(idl)
				if op[5] == "ctext" {
					k.Modifiers = vaxis.ModCtrl
				}
			} else {
				kd, kok := keyByName(op[5])
				if !kok {
					ok = false
					return
				}
				k = kd.key
			}
			op[2] = hx.Hex(k.String())
			m := ""
			for _, bit := range []vaxis.ModifierMask{vaxis.ModCtrl, vaxis.ModAlt, vaxis.ModSuper} {
				if k.Modifiers&bit != 0 {
					m += "1"
				} else {
					m += "0"
				}
			}
			op[3] = m
			canon = strings.Join(op, " ")
			t.m.Update(k)
		case "rel":
			t.m.Update(vaxis.Key{Keycode: 'a', Text: "a", EventType: vaxis.EventRelease})
		case "pkey":
			idl, pok := parseIds(op[1])
			if !pok {
				ok = false
				return
			}
			t.m.Update(vaxis.Key{Text: str(idl), EventType: vaxis.EventPaste})
		case "pend":
			t.m.Update(vaxis.PasteEndEvent{})
		case "set":
			idl, pok := parseIds(op[1])
			if !pok {
				ok = false
				return
			}
			t.m.SetContent(str(idl))
		case "draw":
			w, _ := strconv.Atoi(op[1])
			idl, pok := parseIds(op[2])
			if !pok {
				ok = false
				return
			}
			t.m.SetPrompt(str(idl))
			vx := getVx()
			vx.HideCursor()
			win := vx.Window().New(0, 0, w, 1)
			t.m.Draw(win)
			c, _, vis := vx.VerifC17Cursor()
			if vis {
				res = fmt.Sprintf("col=%d", c)
			} else {
				res = "nocursor"
			}
			// the cells of the window's row after Draw
			var cells []string
			for _, cell := range vx.VerifC17Row(0, w) {
				switch g := cell.Character.Grapheme; {
				case g == "…":
					cells = append(cells, "T")
				case g == "*":
					cells = append(cells, "M")
				case atomMode:
					cells = append(cells, atomIds(g))
				default:
					if i, ok := alphaId[g]; ok {
						cells = append(cells, strconv.Itoa(i))
					} else {
						cells = append(cells, "?")
					}
				}
			}
			if len(cells) == 0 {
				res += " row=-"
			} else {
				res += " row=" + strings.Join(cells, ",")
			}
		case "mask":
			// password mode (cannot be switched off again)
			t.m.SetInvisibleChar("*")
		default:
			ok = false
		}
	}
	var panicked bool
	if op[0] == "draw" {
		if hung {
			// a previous Draw is still spinning on the shared screen: do not touch it again
			return canon, "skipped-after-hang", true
		}
		done := make(chan bool, 1)
		go func() {
			p, _ := hx.Guard(body)
			done <- p
		}()
		tm := time.NewTimer(2 * time.Second)
		select {
		case panicked = <-done:
			tm.Stop()
		case <-tm.C:
			hung = true
			// the widget is lost to the spinning goroutine; the case ends here
			return canon, "hang", true
		}
	} else {
		panicked, _ = hx.Guard(body)
	}
	if !ok {
		return canon, "", false
	}
	if panicked {
		return canon, "panic", true
	}
	if res == "" {
		res = t.obs()
	}
	return canon, res, true
}

// ---------- generators ----------

type opGen func(rng *gen.Rng) []string

func tfKeyOp(name string, release bool) []string {
	kd, _ := keyByName(name)
	rel := "0"
	mean := kd.meaning
	if release {
		rel = "1"
		mean = "noop"
	}
	return []string{"key", mean, rel, "-", "-", name}
}

func tfTextOp(idl []int) []string {
	return []string{"key", "insert", "0", "-", idList(idl), "text"}
}

func tiKeyOp(name string) []string {
	kd, _ := keyByName(name)
	mean := kd.tiMean
	if mean == "" {
		mean = kd.meaning
	}
	return []string{"upd", mean, "-", "-", "-", name}
}

func tiTextOp(idl []int) []string {
	return []string{"upd", "insert", "-", "-", idList(idl), "text"}
}

type runner interface {
	do(op []string) (string, string, bool)
	widths() string
}

func runCase(r *hx.Run, kind string, n int, start []int, ops [][]string) {
	atomMode = kind == "tfc" || kind == "tic"
	r.Case(header(kind, n, start))
	var rn runner
	var ti *tiRun
	if kind == "tf" || kind == "tfc" {
		rn = newTF(start)
	} else {
		ti = newTI(start)
		rn = ti
	}
	for _, op := range ops {
		cp := append([]string(nil), op...)
		canon, res, ok := rn.do(cp)
		if !ok {
			res = "bad-op"
		}
		if atomMode {
			canon += " W=" + rn.widths()
		}
		r.Emit(canon, res)
		r.Count(kind + ":" + op[0])
		if res == "hang" {
			r.Count(kind + ":hang")
			break
		}
	}
	if ti != nil {
		ti.close()
	}
}

var starts = [][]int{{}, {0, 1}, {0, 3, 2, 1, 4}}

func run(r *hx.Run) error {
	caseNo := 0
	next := func() int { caseNo++; return caseNo }
	if r.Replay != "" {
		// a replay file is one case: the #case line followed by its ops
		var rn runner
		return hx.ReplayOps(r, func(op []string) (string, bool) {
			if len(op) >= 2 && op[0] == "#case" {
				kind := strings.SplitN(op[1], ":", 2)[0]
				atomMode = kind == "tfc" || kind == "tic"
				var start []int
				for _, f := range op[2:] {
					if strings.HasPrefix(f, "s=") {
						start, _ = parseIds(f[2:])
					}
				}
				if kind == "tf" || kind == "tfc" {
					rn = newTF(start)
				} else {
					rn = newTI(start)
				}
				return "-", true
			}
			if rn == nil {
				return "", false
			}
			_, res, ok := rn.do(op)
			return res, ok
		})
	}
	for _, c := range hx.Corpus("C17") {
		// first line: "tf s=<ids>" or "ti s=<ids>"
		f := strings.Fields(c[0])
		atomMode = f[0] == "tfc" || f[0] == "tic"
		var start []int
		if len(f) > 1 && strings.HasPrefix(f[1], "s=") {
			start, _ = parseIds(f[1][2:])
		}
		var ops [][]string
		for _, l := range c[1:] {
			ops = append(ops, strings.Fields(l))
		}
		runCase(r, f[0], next(), start, ops)
		r.Count("corpus")
	}
	rng := gen.New(r.Seed)

	// bounded-exhaustive op sequences over an 11-op alphabet from 3 starting contents
	tfAlpha := [][]string{
		tfTextOp([]int{0}), tfTextOp([]int{3}), tfKeyOp("Ctrl+a", false), tfKeyOp("Ctrl+e", false),
		tfKeyOp("Right", false), tfKeyOp("Ctrl+b", false), tfKeyOp("Delete", false), tfKeyOp("BackSpace", false),
		tfKeyOp("Ctrl+k", false), tfKeyOp("Enter", false), {"ins", "4,1"},
	}
	tiAlpha := [][]string{
		tiTextOp([]int{0}), tiTextOp([]int{2}), tiKeyOp("Home"), tiKeyOp("Ctrl+e"),
		tiKeyOp("Ctrl+f"), tiKeyOp("Left"), tiKeyOp("Ctrl+d"), tiKeyOp("BackSpace"),
		tiKeyOp("Ctrl+w"), tiKeyOp("Alt+b"), tiKeyOp("Ctrl+u"),
	}
	maxLen := 4
	if r.Thorough {
		maxLen = 5
	}
	for _, kind := range []string{"tf", "ti"} {
		alpha := tfAlpha
		if kind == "ti" {
			alpha = tiAlpha
		}
		for _, st := range starts {
			var rec func(seq [][]string)
			rec = func(seq [][]string) {
				if len(seq) == maxLen {
					ops := append([][]string(nil), seq...)
					if kind == "tf" {
						ops = append(ops, []string{"draw", "7", "1"})
					}
					runCase(r, kind, next(), st, ops)
					return
				}
				for _, o := range alpha {
					rec(append(seq, o))
				}
			}
			rec(nil)
		}
	}
	r.Note("exhaustive-seq-len", maxLen)

	// random longer sequences over the full op set
	nRand := 1500
	if r.Thorough {
		nRand = 20000
	}
	randIds := func(max int, narrow bool) []int {
		n := rng.Range(1, max)
		out := make([]int, n)
		for i := range out {
			if narrow {
				out[i] = rng.Intn(nNarrow)
			} else {
				out[i] = rng.Intn(len(alphabet))
			}
		}
		return out
	}
	for i := 0; i < nRand; i++ {
		kind := "tf"
		if i%2 == 1 {
			kind = "ti"
		}
		n := rng.Range(1, 40)
		if i%20 == 0 {
			n = rng.Range(100, 200)
		}
		start := gen.Pick(rng, starts)
		if rng.Chance(1, 3) {
			start = randIds(12, false)
		}
		var ops [][]string
		if kind == "tf" && i%8 == 0 {
			// no callbacks installed (round 4)
			ops = append(ops, []string{"nocb"})
		}
		for j := 0; j < n; j++ {
			if kind == "tf" {
				switch x := rng.Intn(20); {
				case x < 6:
					ops = append(ops, tfTextOp(randIds(2, rng.Chance(4, 5))))
				case x < 14:
					ops = append(ops, tfKeyOp(gen.Pick(rng, keyTable).name, rng.Chance(1, 15)))
				case x == 14:
					ops = append(ops, []string{"ins", idList(randIds(3, false))})
				case x == 15:
					ops = append(ops, []string{"cur", strconv.Itoa(rng.Intn(14))})
				case x == 16:
					ops = append(ops, []string{gen.Pick(rng, []string{"delr", "dell", "kill"})})
				case x == 17:
					if rng.Chance(1, 4) {
						ops = append(ops, []string{"reset"})
					} else {
						ops = append(ops, []string{"dell"})
					}
				default:
					ops = append(ops, []string{"draw", strconv.Itoa(rng.Range(0, 12)), strconv.Itoa(rng.Range(0, 2))})
				}
			} else {
				switch x := rng.Intn(20); {
				case x < 6:
					ops = append(ops, tiTextOp(randIds(2, false)))
				case x < 14:
					ops = append(ops, tiKeyOp(gen.Pick(rng, keyTable).name))
				case x == 14:
					ops = append(ops, []string{"pkey", idList(randIds(3, false))})
				case x == 15:
					ops = append(ops, []string{"pend"})
				case x == 16:
					if rng.Chance(1, 3) {
						ops = append(ops, []string{"set", idList(randIds(10, false))})
					} else {
						ops = append(ops, []string{"rel"})
					}
				case x == 17:
					if rng.Chance(1, 8) {
						ops = append(ops, []string{"mask"})
					} else {
						ops = append(ops, []string{"upd", "noop", "-", "-", idList([]int{gen.Pick(rng, []int{3, 6, 7})}), "ctext"})
					}
				default:
					p := "-"
					if rng.Chance(1, 3) {
						p = idList(randIds(3, true))
					}
					wmaxd := 12
					if rng.Chance(1, 3) {
						wmaxd = 40 // wide enough for the line to fit (cells and cursor column are then judged)
					}
					ops = append(ops, []string{"draw", strconv.Itoa(rng.Range(1, wmaxd)), p})
				}
			}
		}
		runCase(r, kind, next(), start, ops)
	}
	// ---- round 3: the scrolled case of textinput.Draw (kind ti) ----
	// texts of narrow, wide and mixed graphemes longer than the window; every window width 1..12 (thorough: ..16), prompts
	// of width 0, 1, 2 (one wide grapheme) and 2 (two narrow); the cursor walks from the end to the beginning and
	// back with a Draw after every step, so the offset goes through both scroll directions (forward loop, "scroll
	// toward the beginning", reset when the line fits); once more in password mode.  Model and implementation are
	// compared cell by cell and on the cursor column (Props.C17Ext.textinput_cells_scrolled / textinput_cursor_scrolled
	// are statements about that model), incl. the narrow windows of Witness/F517.
	{
		texts := [][]int{{0, 1, 0, 1, 0, 1, 0, 1}, {3, 3, 3, 3, 3, 3}, {0, 3, 1, 3, 0, 3}, {3, 0, 0, 3, 3, 0, 1}, {3, 3, 3, 3}, {0, 1, 0, 1}}
		prompts := []string{"-", "0", "3", "0,1"}
		maxW := 12
		if r.Thorough {
			maxW = 16
			texts = append(texts, []int{5, 0, 5, 3, 11, 0, 3, 3, 0}, []int{0, 1, 7, 6, 0, 1, 7, 6, 0, 1, 7, 6})
		}
		for ti, text := range texts {
			for w := 1; w <= maxW; w++ {
				for pi, p := range prompts {
					var ops [][]string
					if (ti+w+pi)%5 == 0 {
						ops = append(ops, []string{"mask"})
					}
					ws := strconv.Itoa(w)
					ops = append(ops, []string{"draw", ws, p})
					for k := 0; k < len(text); k++ {
						ops = append(ops, tiKeyOp("Left"), []string{"draw", ws, p})
					}
					for k := 0; k < len(text); k++ {
						ops = append(ops, tiKeyOp("Right"), []string{"draw", ws, p})
					}
					// jump: End, then Home, then into the middle, in a window one column wider / narrower
					ops = append(ops, tiKeyOp("Home"), []string{"draw", ws, p}, tiKeyOp("Ctrl+e"), []string{"draw", strconv.Itoa(w + 1), p},
						tiKeyOp("Left"), tiKeyOp("Left"), []string{"draw", ws, p})
					runCase(r, "ti", next(), text, ops)
					r.Count("ti scrolled-draw case")
				}
			}
		}
	}
	// ---- word motions of textinput over mixed separators (kind ti) ----
	// every start of length <= 4 over {letter, space, '.', '-', wide letter, ZWJ emoji} (thorough: + flag, Cyrillic letter,
	// word joiner; a typed tab is 8 spaces to vaxis.Characters, so a tab never is a grapheme of the text),
	// every cursor position, each of Alt+b / Alt+f / Ctrl+w / Ctrl+Right / Ctrl+Left / Alt+d, then a typed
	// letter (shows where the cursor went)
	{
		walpha := []int{0, 2, 9, 6, 3, 5}
		wmax := 4
		if r.Thorough {
			walpha = []int{0, 2, 9, 6, 3, 5, 11, 10, 8}
		}
		wops := []string{"Alt+b", "Alt+f", "Ctrl+w", "Ctrl+Left", "Ctrl+Right", "Alt+d"}
		var rec func(st []int)
		rec = func(st []int) {
			for pos := 0; pos <= len(st); pos++ {
				for wi, w := range wops {
					if wi >= 3 && (len(st)+pos)%3 != wi-3 {
						continue // the aliases and the unbound key on a third of the cases each
					}
					ops := [][]string{tiKeyOp("Home")}
					for i := 0; i < pos; i++ {
						ops = append(ops, tiKeyOp("Right"))
					}
					ops = append(ops, tiKeyOp(w), tiTextOp([]int{1}))
					runCase(r, "ti", next(), st, ops)
					r.Count("gen:wordmotion")
				}
			}
			if len(st) == wmax {
				return
			}
			for _, a := range walpha {
				rec(append(append([]int(nil), st...), a))
			}
		}
		rec(nil)
	}

	// ---- merging graphemes (kinds tfc / tic): atoms = code points ----
	// every start of length <= 4, every cursor position, every insert of the list typed one code point at a
	// time and pasted as one string, then a typed letter, BackSpace, Left, Delete
	{
		inserts := [][]int{{3}, {5}, {4}, {7}, {12}, {13}, {17}, {4, 9}, {12, 13}, {15, 3}, {8, 4, 9}, {6, 7}, {10, 5},
			{11, 12}, {3, 3}, {7, 7}, {0, 3, 1}, {8, 17, 4, 9}}
		type startSet struct {
			base []int
			max  int
		}
		sets := []startSet{{[]int{0, 6, 8}, 4}, {[]int{11, 14, 10}, 2}, {[]int{0, 6, 8, 11, 14}, 2}}
		if r.Thorough {
			sets = []startSet{{[]int{0, 6, 8, 11, 14}, 4}, {[]int{10, 12, 3, 4}, 3}}
		}
		seen := map[string]bool{}
		for _, set := range sets {
			var rec func(st []int)
			rec = func(st []int) {
				key := idList(st)
				if !seen[key] {
					seen[key] = true
					atomMode = true
					n := len(vaxis.Characters(str(st)))
					for _, kind := range []string{"tfc", "tic"} {
						for pos := 0; pos <= n; pos++ {
							for _, ins := range inserts {
								for variant := 0; variant < 2; variant++ {
									var ops [][]string
									if kind == "tfc" {
										ops = append(ops, []string{"cur", strconv.Itoa(pos)})
										if len(ins) == 1 && ins[0] == 12 {
											ins = []int{atomTab} // TextField: a pasted tab instead of the lone Hangul vowel
										} else if len(ins) == 3 && ins[1] == 3 {
											ins = []int{0, atomTab, 1}
										}
										if variant == 0 {
											for _, a := range ins {
												ops = append(ops, tfTextOp([]int{a}))
											}
										} else if (pos+len(ins))%2 == 0 {
											ops = append(ops, []string{"ins", idList(ins)})
										} else {
											ops = append(ops, tfTextOp(ins))
										}
										ops = append(ops, tfTextOp([]int{1}), tfKeyOp("BackSpace", false), tfKeyOp("Left", false),
											tfKeyOp("Delete", false), []string{"draw", "9", "1"})
									} else {
										ops = append(ops, tiKeyOp("Home"))
										for i := 0; i < pos; i++ {
											ops = append(ops, tiKeyOp("Right"))
										}
										if variant == 0 {
											for _, a := range ins {
												ops = append(ops, tiTextOp([]int{a}))
											}
										} else if (pos+len(ins))%2 == 0 {
											ops = append(ops, []string{"pkey", idList(ins[:1])})
											if len(ins) > 1 {
												ops = append(ops, []string{"pkey", idList(ins[1:])})
											}
											ops = append(ops, []string{"pend"})
										} else {
											ops = append(ops, tiTextOp(ins))
										}
										ops = append(ops, tiTextOp([]int{1}), tiKeyOp("BackSpace"), tiKeyOp("Left"),
											tiKeyOp("Delete"), []string{"draw", "30", "-"})
									}
									runCase(r, kind, next(), st, ops)
									r.Count("gen:merge-" + kind)
								}
							}
						}
					}
				}
				if len(st) == set.max {
					return
				}
				for _, a := range set.base {
					rec(append(append([]int(nil), st...), a))
				}
			}
			rec(nil)
		}
		// deletions that bring two parts of a grapheme together (X mid Y with X+Y one grapheme): every way either
		// widget can delete the middle, then probes of the cursor and of the cached count (End/Left/letter, …)
		{
			pairs := [][2][]int{{{6}, {7}}, {{8, 4}, {9}}, {{11}, {12}}, {{0}, {3}}, {{10}, {5}}, {{11, 12}, {13}}, {{8}, {17}}}
			mids := [][]int{{0}, {14}, {0, 1}}
			ctxs := [][2][]int{{nil, nil}, {{1}, nil}, {nil, {1}}, {{6, 7}, {15}}}
			probes := [][]string{{"End", "Left", "#b"}, {"Home", "Right", "#b"}, {"Left", "#b", "End"}, {"Right", "Delete", "#b"},
				{"End", "BackSpace", "Left"}, {"Ctrl+e", "Ctrl+b", "Ctrl+b", "#b"}}
			for _, pr := range pairs {
				for _, mid := range mids {
					for _, cx := range ctxs {
						var start []int
						start = append(start, cx[0]...)
						start = append(start, pr[0]...)
						start = append(start, mid...)
						start = append(start, pr[1]...)
						start = append(start, cx[1]...)
						atomMode = true
						before := len(vaxis.Characters(str(append(append([]int(nil), cx[0]...), pr[0]...))))
						nmid := len(mid)
						for _, kind := range []string{"tfc", "tic"} {
							// the deletions: from behind the middle with BackSpace (x nmid), from before it with Delete, Ctrl+w (tic)
							dels := [][][]string{}
							mk := func(name string) []string {
								if kind == "tfc" {
									return tfKeyOp(name, false)
								}
								return tiKeyOp(name)
							}
							var bs, dl [][]string
							for i := 0; i < nmid; i++ {
								bs = append(bs, mk("BackSpace"))
								dl = append(dl, mk("Delete"))
							}
							dels = append(dels, append([][]string{{"@", strconv.Itoa(before + nmid)}}, bs...))
							dels = append(dels, append([][]string{{"@", strconv.Itoa(before)}}, dl...))
							if kind == "tic" {
								dels = append(dels, [][]string{{"@", strconv.Itoa(before + nmid)}, mk("Ctrl+w")})
							} else {
								var pd [][]string
								for i := 0; i < nmid; i++ {
									pd = append(pd, []string{"dell"})
								}
								dels = append(dels, append([][]string{{"@", strconv.Itoa(before + nmid)}}, pd...))
							}
							for _, del := range dels {
								for _, probe := range probes {
									var ops [][]string
									for _, o := range del {
										if o[0] == "@" {
											pos, _ := strconv.Atoi(o[1])
											if kind == "tfc" {
												ops = append(ops, []string{"cur", o[1]})
											} else {
												ops = append(ops, tiKeyOp("Home"))
												for i := 0; i < pos; i++ {
													ops = append(ops, tiKeyOp("Right"))
												}
											}
											continue
										}
										ops = append(ops, o)
									}
									for _, p := range probe {
										switch {
										case p == "#b" && kind == "tfc":
											ops = append(ops, tfTextOp([]int{1}))
										case p == "#b":
											ops = append(ops, tiTextOp([]int{1}))
										default:
											ops = append(ops, mk(p))
										}
									}
									if kind == "tfc" {
										ops = append(ops, []string{"draw", "9", "1"})
									} else {
										ops = append(ops, []string{"draw", "30", "-"})
									}
									runCase(r, kind, next(), start, ops)
									r.Count("gen:merge-by-deletion")
								}
							}
						}
					}
				}
			}
		}

		// Segmentation laws on the real uniseg (and on the driver's clUax) for every text over the atoms up to
		// length 3 (thorough: 4) and random longer ones; the op does not touch the widget
		{
			atomMode = true
			maxL := 3
			nLong := 3000
			if r.Thorough {
				maxL = 4
				nLong = 40000
			}
			var batch [][]string
			flush := func() {
				if len(batch) > 0 {
					runCase(r, "tfc", next(), nil, batch)
					r.Add("seglaw-texts", len(batch))
					batch = nil
				}
			}
			var rec func(pre []int)
			rec = func(pre []int) {
				if len(pre) > 0 {
					batch = append(batch, []string{"seg", idList(pre)})
					if len(batch) == 64 {
						flush()
					}
				}
				if len(pre) == maxL {
					return
				}
				for a := range atoms {
					rec(append(append([]int(nil), pre...), a))
				}
			}
			rec(nil)
			for i := 0; i < nLong; i++ {
				n := rng.Range(4, 14)
				t := make([]int, n)
				for j := range t {
					t[j] = rng.Intn(len(atoms))
				}
				batch = append(batch, []string{"seg", idList(t)})
				if len(batch) == 64 {
					flush()
				}
			}
			flush()
		}

		// random sequences over all atoms
		nRandC := 600
		if r.Thorough {
			nRandC = 8000
		}
		tabOK := false
		randAtoms := func(max int) []int {
			n := rng.Range(1, max)
			out := make([]int, n)
			for i := range out {
				if tabOK {
					out[i] = rng.Intn(len(atoms))
				} else {
					out[i] = rng.Intn(atomTab)
				}
			}
			return out
		}
		for i := 0; i < nRandC; i++ {
			kind := "tfc"
			if i%2 == 1 {
				kind = "tic"
			}
			atomMode = true
			tabOK = kind == "tfc"
			start := randAtoms(8)
			if rng.Chance(1, 4) {
				start = nil
			}
			n := rng.Range(1, 40)
			var ops [][]string
			if kind == "tfc" && i%8 == 0 {
				ops = append(ops, []string{"nocb"})
			}
			for j := 0; j < n; j++ {
				if kind == "tfc" {
					switch x := rng.Intn(20); {
					case x < 7:
						ops = append(ops, tfTextOp(randAtoms(2)))
					case x < 14:
						ops = append(ops, tfKeyOp(gen.Pick(rng, keyTable).name, rng.Chance(1, 15)))
					case x == 14:
						ops = append(ops, []string{"ins", idList(randAtoms(4))})
					case x == 15:
						ops = append(ops, []string{"cur", strconv.Itoa(rng.Intn(10))})
					case x == 16:
						ops = append(ops, []string{gen.Pick(rng, []string{"delr", "dell", "kill"})})
					case x == 17:
						ops = append(ops, []string{"dell"})
					default:
						ops = append(ops, []string{"draw", strconv.Itoa(rng.Range(0, 12)), strconv.Itoa(rng.Range(0, 2))})
					}
				} else {
					switch x := rng.Intn(20); {
					case x < 7:
						ops = append(ops, tiTextOp(randAtoms(2)))
					case x < 14:
						ops = append(ops, tiKeyOp(gen.Pick(rng, keyTable).name))
					case x == 14:
						ops = append(ops, []string{"pkey", idList(randAtoms(3))})
					case x == 15:
						ops = append(ops, []string{"pend"})
					case x == 16:
						if rng.Chance(1, 3) {
							ops = append(ops, []string{"set", idList(randAtoms(8))})
						} else if rng.Chance(1, 4) {
							ops = append(ops, []string{"mask"})
						} else {
							ops = append(ops, []string{"rel"})
						}
					default:
						ops = append(ops, []string{"draw", strconv.Itoa(rng.Range(1, 30)), "-"})
					}
				}
			}
			runCase(r, kind, next(), start, ops)
			r.Count("gen:merge-random")
		}
	}
	if sharedVx != nil && !hung {
		sharedVx.Close()
	}
	return nil
}
