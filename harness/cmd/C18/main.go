// Harness for C18: the styled-text codecs and every SGR producer / consumer of the library, run on
// generated cases.  One line per case (stateless):
//
//	enc <cells|ss|render> <caps> <cell>*      impl = token list of what the real producer wrote
//	dec <cells|ss|emu> <style> <tok>*         impl = cells the real parser returned (emu: final pen)
//	rt  <cells|ss> <cell>*                    impl = cells after the real encode → parse round trip
//	rtq <cells|ss> <cell>*                    the same with VAXIS_FORCE_LEGACY_SGR applied
//	rtl <cells|ss> <lcell>*                   round trip of cells that carry hyperlinks; lcell = hex(g)/style/hex(url)/hex(params);
//	                                          impl = the cells that came back, same format
//	encbl <cells|ss> <lcell>*                 impl = hex of the exact string the real producer wrote for cells with hyperlinks
//	encb <cells|ss> <caps> <cell>*            impl = hex of the exact string the real producer wrote (byte level)
//	decb <cells|ss> <style> <hex> <table>     impl = cells the real parser returned for that exact string; table =
//	                                          rune length of the first grapheme cluster (uniseg) of the suffix at every rune offset
//	decbl <style> <hex url> <hex params> <hex> <table>   NewStyledString on that exact string with a default style that carries
//	                                          the given hyperlink; impl = the cells with their hyperlinks (lcell format)
//
//	agr <body>                                (round 4) the three real consumers on ESC [ body m a from the zero style;
//	                                          impl = style of ParseStyledString's cell | style of NewStyledString's cell | emulator pen
//	rdf <caps> <table> <cell>*                (round 4) the SGR and text bytes of a real rendered frame of the cells fed to the real
//	                                          ParseStyledString, NewStyledString and (through the real parser) the emulator's sgr(); impl = cells | cells | cells;
//	                                          table = cluster table of that string
//
// cell = hex(grapheme):fg,bg,ul,ulstyle,attr   tok = S<params text> | T<hex(grapheme)>
// caps bit 0 = rgb, bit 1 = styledUnderlines, bit 2 = VAXIS_FORCE_LEGACY_SGR applied.
// Producer output is tokenised by the real ansi parser; consumer input goes through real strings.
package main

import (
	"fmt"
	"os"
	"strconv"
	"strings"
	"unicode/utf8"

	"git.sr.ht/~rockorager/vaxis"
	"git.sr.ht/~rockorager/vaxis/ansi"
	"git.sr.ht/~rockorager/vaxis/widgets/term"
	"github.com/rivo/uniseg"
	"verifharness/fakeconsole"
	"verifharness/gen"
	"verifharness/hx"
)

func main() { hx.Main("C18", run) }

type env struct {
	r       *hx.Run
	colon   [4]string
	legacy  [4]string
	haveLeg bool
	vx      map[int]*vaxis.Vaxis
	fc      map[int]*fakeconsole.Console
	plain   *vaxis.Vaxis // for NewStyledString
	emu     *term.Model
	ndec    int
}

const renderW = 24

func (e *env) session(caps int) (*vaxis.Vaxis, *fakeconsole.Console, error) {
	k := caps & 3
	if vx, ok := e.vx[k]; ok {
		return vx, e.fc[k], nil
	}
	var m uint32 = 1 << 1 // sync
	if k&1 != 0 {
		m |= 1 << 6
	}
	if k&2 != 0 {
		m |= 1 << 7
	}
	fc := fakeconsole.New(renderW, 2, fakeconsole.FromMask(m))
	vx, err := vaxis.New(vaxis.Options{WithConsole: fc, NoSignals: true})
	if err != nil {
		return nil, nil, err
	}
	if vx.CanRGB() != (k&1 != 0) {
		return nil, nil, fmt.Errorf("session caps %d: CanRGB=%v", k, vx.CanRGB())
	}
	vx.Window().Clear()
	vx.Render()
	fc.Take()
	e.vx[k], e.fc[k] = vx, fc
	return vx, fc, nil
}

// setLegacy switches the four SGR format variables between their initial values and the values
// the real applyQuirks gives them under VAXIS_FORCE_LEGACY_SGR.
func (e *env) setLegacy(on bool) error {
	if !on {
		vaxis.VerifC18SetSGRFormats(e.colon)
		return nil
	}
	if !e.haveLeg {
		os.Setenv("VAXIS_FORCE_LEGACY_SGR", "1")
		fc := fakeconsole.New(4, 1, fakeconsole.FromMask(0))
		vx, err := vaxis.New(vaxis.Options{WithConsole: fc, NoSignals: true})
		os.Unsetenv("VAXIS_FORCE_LEGACY_SGR")
		if err != nil {
			return err
		}
		vx.Close()
		e.legacy = vaxis.VerifC18SGRFormats()
		e.haveLeg = true
	}
	vaxis.VerifC18SetSGRFormats(e.legacy)
	return nil
}

// ---- text formats ----------------------------------------------------------------------------

func styleStr(s vaxis.Style) string {
	return fmt.Sprintf("%d,%d,%d,%d,%d", uint32(s.Foreground), uint32(s.Background), uint32(s.UnderlineColor), uint8(s.UnderlineStyle), uint8(s.Attribute))
}

func parseStyle(t string) (vaxis.Style, bool) {
	f := strings.Split(t, ",")
	if len(f) != 5 {
		return vaxis.Style{}, false
	}
	var v [5]uint64
	for i := range f {
		n, err := strconv.ParseUint(f[i], 10, 32)
		if err != nil {
			return vaxis.Style{}, false
		}
		v[i] = n
	}
	return vaxis.Style{Foreground: vaxis.Color(v[0]), Background: vaxis.Color(v[1]), UnderlineColor: vaxis.Color(v[2]),
		UnderlineStyle: vaxis.UnderlineStyle(v[3]), Attribute: vaxis.AttributeMask(v[4])}, true
}

func unhex(h string) (string, bool) {
	if h == "-" {
		return "", true
	}
	if len(h)%2 != 0 {
		return "", false
	}
	b := make([]byte, len(h)/2)
	for i := range b {
		n, err := strconv.ParseUint(h[2*i:2*i+2], 16, 8)
		if err != nil {
			return "", false
		}
		b[i] = byte(n)
	}
	return string(b), true
}

func cellStr(c vaxis.Cell) string { return hx.Hex(c.Grapheme) + ":" + styleStr(c.Style) }

func parseCell(t string) (vaxis.Cell, bool) {
	i := strings.IndexByte(t, ':')
	if i < 0 {
		return vaxis.Cell{}, false
	}
	g, ok1 := unhex(t[:i])
	st, ok2 := parseStyle(t[i+1:])
	return vaxis.Cell{Character: vaxis.Character{Grapheme: g}, Style: st}, ok1 && ok2
}

func cellsStr(cs []vaxis.Cell) string {
	if len(cs) == 0 {
		return "-"
	}
	out := make([]string, len(cs))
	for i, c := range cs {
		out[i] = cellStr(c)
	}
	return strings.Join(out, " ")
}

func paramsText(ps [][]int) string {
	if len(ps) == 0 {
		return "-"
	}
	var sb strings.Builder
	for i, p := range ps {
		if i > 0 {
			sb.WriteByte(';')
		}
		for j, v := range p {
			if j > 0 {
				sb.WriteByte(':')
			}
			sb.WriteString(strconv.Itoa(v))
		}
	}
	return sb.String()
}

// tokenize runs the real ansi parser over s. SGR → "S<params>", Print → "T<hex>"; anything else is
// dropped when lenient (renderer frames contain cursor movement and mode switches) and reported
// as "X…" otherwise.
func tokenize(s string, lenient bool) string {
	p := ansi.NewParser(strings.NewReader(s))
	defer p.Close()
	var out []string
	for seq := range p.Next() {
		switch q := seq.(type) {
		case ansi.Print:
			out = append(out, "T"+hx.Hex(q.Grapheme))
		case ansi.CSI:
			if q.Final == 'm' && len(q.Intermediate) == 0 {
				out = append(out, "S"+paramsText(q.Parameters))
			} else if !lenient {
				out = append(out, "X"+hx.Hex(q.String()))
			}
		case ansi.EOF:
		default:
			if !lenient {
				out = append(out, "X"+hx.Hex(fmt.Sprint(seq)))
			}
		}
		p.Finish(seq)
	}
	if len(out) == 0 {
		return "-"
	}
	return strings.Join(out, " ")
}

// sgrParams: the parameter lists of the SGR sequences in s, via the real parser.
func sgrParams(s string) [][][]int {
	p := ansi.NewParser(strings.NewReader(s))
	defer p.Close()
	var out [][][]int
	for seq := range p.Next() {
		if q, ok := seq.(ansi.CSI); ok && q.Final == 'm' && len(q.Intermediate) == 0 {
			cp := make([][]int, len(q.Parameters))
			for i, pr := range q.Parameters {
				cp[i] = append([]int(nil), pr...)
			}
			out = append(out, cp)
		}
		p.Finish(seq)
	}
	return out
}

func toksString(toks []string) (string, bool) {
	var sb strings.Builder
	for _, t := range toks {
		if len(t) == 0 {
			return "", false
		}
		switch t[0] {
		case 'S':
			sb.WriteString("\x1b[")
			if t[1:] != "-" {
				sb.WriteString(t[1:])
			}
			sb.WriteString("m")
		case 'T':
			g, ok := unhex(t[1:])
			if !ok {
				return "", false
			}
			sb.WriteString(g)
		default:
			return "", false
		}
	}
	return sb.String(), true
}

// ---- the real code ---------------------------------------------------------------------------

// stable runs f until two consecutive runs agree. ansi.Parser arms a 10 ms timer on every ESC and
// resets its state when it fires (finding F29 of property C08: a race with the reader); on a loaded
// machine that rarely tears a sequence apart even when reading from a string. The result of such a
// torn run is not what C18 is about, so it is retried here and counted.
func (e *env) stable(f func() string) string {
	a := f()
	for i := 0; i < 6; i++ {
		b := f()
		if a == b {
			return a
		}
		e.r.Count("parser-timer-flake-retried")
		a = b
	}
	return a
}

func (e *env) doEnc(which string, caps int, cells []vaxis.Cell) (res string) {
	if err := e.setLegacy(caps&4 != 0); err != nil {
		return "error:" + err.Error()
	}
	defer e.setLegacy(false)
	panicked, _ := hx.Guard(func() {
		switch which {
		case "cells":
			res = e.stable(func() string { return tokenize(vaxis.EncodeCells(cells), false) })
		case "ss":
			ss := &vaxis.StyledString{Cells: cells}
			res = e.stable(func() string { return tokenize(ss.Encode(), false) })
		case "render":
			vx, fc, err := e.session(caps)
			if err != nil {
				res = "error:" + err.Error()
				return
			}
			win := vx.Window()
			for i, c := range cells {
				c.Width = 1
				win.SetCell(i, 0, c)
			}
			vx.Render()
			frame := string(fc.Take())
			res = e.stable(func() string { return tokenize(frame, true) })
			win.Clear()
			vx.Render()
			fc.Take()
		default:
			res = "bad-op"
		}
	})
	if panicked {
		return "panic"
	}
	return res
}

func (e *env) doDec(which string, dflt vaxis.Style, toks []string) (res string) {
	s, ok := toksString(toks)
	if !ok {
		return "bad-op"
	}
	panicked, msg := hx.Guard(func() {
		switch which {
		case "cells":
			res = e.stable(func() string { return cellsStr(vaxis.ParseStyledString(s)) })
		case "ss":
			res = cellsStr(e.plain.NewStyledString(s, dflt).Cells)
		case "emu":
			res = e.stable(func() string {
				pen := dflt
				for _, ps := range sgrParams(s) {
					pen = term.VerifC18Sgr(e.emu, pen, ps)
				}
				return styleStr(pen)
			})
		default:
			res = "bad-op"
		}
	})
	if panicked {
		e.r.Count("panic:" + which + ":" + strings.SplitN(msg, "[", 2)[0])
		return "panic"
	}
	return res
}

// doAgr: the three real consumers on the same parameter text, from the zero style.
func (e *env) doAgr(body string) string {
	zero := vaxis.Style{}
	one := func(which string) string {
		r := e.doDec(which, zero, []string{"S" + body, "T61"})
		if which != "emu" && strings.HasPrefix(r, "61:") && !strings.Contains(r, " ") {
			return r[3:]
		}
		return r
	}
	return one("cells") + "|" + one("ss") + "|" + one("emu")
}

// renderSgrText renders one frame of the cells in the session with the given capabilities and returns the SGR sequences and
// the text of what was written (see sgrAndText).
func (e *env) renderSgrText(caps int, cells []vaxis.Cell) (string, error) {
	vx, fc, err := e.session(caps)
	if err != nil {
		return "", err
	}
	win := vx.Window()
	for i, c := range cells {
		c.Width = 1
		win.SetCell(i, 0, c)
	}
	vx.Render()
	s := sgrAndText(string(fc.Take()))
	win.Clear()
	vx.Render()
	fc.Take()
	return s, nil
}

// emuCells: the string through the real ansi parser into the embedded terminal's sgr(): one cell per Print with the pen at that moment.
func (e *env) emuCells(s string) string {
	return e.stable(func() string {
		p := ansi.NewParser(strings.NewReader(s))
		defer p.Close()
		pen := vaxis.Style{}
		var cells []vaxis.Cell
		for seq := range p.Next() {
			switch q := seq.(type) {
			case ansi.Print:
				cells = append(cells, withG(q.Grapheme, pen))
			case ansi.CSI:
				if q.Final == 'm' && len(q.Intermediate) == 0 {
					cp := make([][]int, len(q.Parameters))
					for i, pr := range q.Parameters {
						cp[i] = append([]int(nil), pr...)
					}
					pen = term.VerifC18Sgr(e.emu, pen, cp)
				}
			}
			p.Finish(seq)
		}
		return cellsStr(cells)
	})
}

// doRdf: a real rendered frame read back by the two real string parsers and by the embedded terminal's sgr().
func (e *env) doRdf(caps int, cells []vaxis.Cell) (res string, str string) {
	if err := e.setLegacy(caps&4 != 0); err != nil {
		return "error:" + err.Error(), ""
	}
	defer e.setLegacy(false)
	panicked, _ := hx.Guard(func() {
		s, err := e.renderSgrText(caps, cells)
		if err != nil {
			res = "error:" + err.Error()
			return
		}
		str = s
		res = e.doDecB("cells", vaxis.Style{}, s) + "|" + e.doDecB("ss", vaxis.Style{}, s) + "|" + e.emuCells(s)
	})
	if panicked {
		return "panic", str
	}
	return res, str
}

// rdf emits the case (the op line carries the cluster table of the string the real renderer wrote).
func (e *env) rdf(caps int, cs []string) {
	cells, ok := parseCells(cs)
	if !ok || len(cells) == 0 || len(cells) > renderW {
		return
	}
	res, str := e.doRdf(caps, cells)
	if !utf8.ValidString(str) {
		return
	}
	e.r.Emit(fmt.Sprintf("rdf %d %s %s", caps, clusterTable(str), strings.Join(cs, " ")), res)
	e.r.Count("rdf")
}

func (e *env) doRt(which string, legacy bool, cells []vaxis.Cell) (res string) {
	if err := e.setLegacy(legacy); err != nil {
		return "error:" + err.Error()
	}
	defer e.setLegacy(false)
	panicked, _ := hx.Guard(func() {
		switch which {
		case "cells":
			res = e.stable(func() string { return cellsStr(vaxis.ParseStyledString(vaxis.EncodeCells(cells))) })
		case "ss":
			ss := &vaxis.StyledString{Cells: cells}
			res = cellsStr(e.plain.NewStyledString(ss.Encode(), vaxis.Style{}).Cells)
		default:
			res = "bad-op"
		}
	})
	if panicked {
		return "panic"
	}
	return res
}

func (e *env) doEncB(which string, caps int, cells []vaxis.Cell) (res string) {
	if err := e.setLegacy(caps&4 != 0); err != nil {
		return "error:" + err.Error()
	}
	defer e.setLegacy(false)
	panicked, _ := hx.Guard(func() {
		switch which {
		case "cells":
			res = hexOrDash(vaxis.EncodeCells(cells))
		case "ss":
			res = hexOrDash((&vaxis.StyledString{Cells: cells}).Encode())
		case "render":
			// the exact bytes of the SGR sequences and the text of one rendered frame, in order (cursor movement, modes and
			// other sequences removed): what Model.SgrBytes.renderFromB writes
			vx, fc, err := e.session(caps)
			if err != nil {
				res = "error:" + err.Error()
				return
			}
			win := vx.Window()
			for i, c := range cells {
				c.Width = 1
				win.SetCell(i, 0, c)
			}
			vx.Render()
			res = hexOrDash(sgrAndText(string(fc.Take())))
			win.Clear()
			vx.Render()
			fc.Take()
		default:
			res = "bad-op"
		}
	})
	if panicked {
		return "panic"
	}
	return res
}

// sgrAndText keeps, byte for byte, the SGR sequences (CSI with digits, ';' and ':' only, final 'm') and the text of s; every other
// escape sequence, control string and C0 control is dropped.
func sgrAndText(s string) string {
	var sb strings.Builder
	for i := 0; i < len(s); {
		switch {
		case s[i] == 0x1b && i+1 < len(s) && s[i+1] == '[':
			j := i + 2
			for j < len(s) && (s[j] < 0x40 || s[j] > 0x7e) {
				j++
			}
			if j >= len(s) {
				return sb.String()
			}
			if s[j] == 'm' && strings.Trim(s[i+2:j], "0123456789;:") == "" {
				sb.WriteString(s[i : j+1])
			}
			i = j + 1
		case s[i] == 0x1b && i+1 < len(s) && (s[i+1] == ']' || s[i+1] == 'P' || s[i+1] == '_' || s[i+1] == '^' || s[i+1] == 'X'):
			j := i + 2
			for j < len(s) && s[j] != 0x07 && !(s[j] == 0x1b && j+1 < len(s) && s[j+1] == '\\') {
				j++
			}
			if j < len(s) && s[j] == 0x1b {
				j++
			}
			i = j + 1
		case s[i] == 0x1b:
			i += 2
		case s[i] < 0x20:
			i++
		default:
			sb.WriteByte(s[i])
			i++
		}
	}
	return sb.String()
}

func hexOrDash(s string) string {
	if s == "" {
		return "-"
	}
	return hx.Hex(s)
}

// clusterTable: for every rune offset of s, the number of runes of the first grapheme cluster of the rest.
func clusterTable(s string) string {
	if s == "" {
		return "-"
	}
	var out []string
	for i := range s {
		g, _, _, _ := uniseg.FirstGraphemeClusterInString(s[i:], -1)
		out = append(out, strconv.Itoa(len([]rune(g))))
	}
	return strings.Join(out, ",")
}

func (e *env) doDecB(which string, dflt vaxis.Style, s string) (res string) {
	panicked, msg := hx.Guard(func() {
		switch which {
		case "cells":
			res = e.stable(func() string { return cellsStr(vaxis.ParseStyledString(s)) })
		case "ss":
			res = cellsStr(e.plain.NewStyledString(s, dflt).Cells)
		default:
			res = "bad-op"
		}
	})
	if panicked {
		e.r.Count("panic:" + which + ":" + strings.SplitN(msg, "[", 2)[0])
		return "panic"
	}
	return res
}

// decb emits the byte-level case for the exact string s.
func (e *env) decb(which string, dflt vaxis.Style, s string) {
	if !utf8.ValidString(s) {
		return
	}
	e.emit(fmt.Sprintf("decb %s %s %s %s", which, styleStr(dflt), hexOrDash(s), clusterTable(s)))
	e.r.Count("decb:" + which)
}

// decbl emits the byte-level case with hyperlinks for the exact string s (NewStyledString only).
func (e *env) decbl(dflt vaxis.Style, s string) {
	if !utf8.ValidString(s) || !utf8.ValidString(dflt.Hyperlink) || !utf8.ValidString(dflt.HyperlinkParams) {
		return
	}
	e.emit(fmt.Sprintf("decbl %s %s %s %s %s", styleStr(dflt), hexOrDash(dflt.Hyperlink), hexOrDash(dflt.HyperlinkParams),
		hexOrDash(s), clusterTable(s)))
	e.r.Count("decbl")
}

func (e *env) doDecBL(dflt vaxis.Style, s string) (res string) {
	panicked, msg := hx.Guard(func() {
		res = lcellsStr(e.plain.NewStyledString(s, dflt).Cells)
	})
	if panicked {
		e.r.Count("panic:decbl:" + strings.SplitN(msg, "[", 2)[0])
		return "panic"
	}
	return res
}

func lcellStr(c vaxis.Cell) string {
	return hexOrDash(c.Grapheme) + "/" + styleStr(c.Style) + "/" + hexOrDash(c.Hyperlink) + "/" + hexOrDash(c.HyperlinkParams)
}

func parseLCell(t string) (vaxis.Cell, bool) {
	f := strings.Split(t, "/")
	if len(f) != 4 {
		return vaxis.Cell{}, false
	}
	g, ok1 := unhex(f[0])
	st, ok2 := parseStyle(f[1])
	url, ok3 := unhex(f[2])
	ps, ok4 := unhex(f[3])
	st.Hyperlink, st.HyperlinkParams = url, ps
	return vaxis.Cell{Character: vaxis.Character{Grapheme: g}, Style: st}, ok1 && ok2 && ok3 && ok4
}

func lcellsStr(cs []vaxis.Cell) string {
	if len(cs) == 0 {
		return "-"
	}
	out := make([]string, len(cs))
	for i, c := range cs {
		out[i] = lcellStr(c)
	}
	return strings.Join(out, " ")
}

func (e *env) doRtl(which string, cells []vaxis.Cell) (res string) {
	panicked, _ := hx.Guard(func() {
		switch which {
		case "cells":
			res = e.stable(func() string { return lcellsStr(vaxis.ParseStyledString(vaxis.EncodeCells(cells))) })
		case "ss":
			ss := &vaxis.StyledString{Cells: cells}
			res = lcellsStr(e.plain.NewStyledString(ss.Encode(), vaxis.Style{}).Cells)
		default:
			res = "bad-op"
		}
	})
	if panicked {
		return "panic"
	}
	return res
}

func (e *env) exec(op []string) (string, bool) {
	if len(op) < 2 {
		return "", false
	}
	switch op[0] {
	case "rtl", "encbl":
		var cells []vaxis.Cell
		for _, t := range op[2:] {
			c, ok := parseLCell(t)
			if !ok {
				return "", false
			}
			cells = append(cells, c)
		}
		if op[0] == "encbl" {
			return e.doEncB(op[1], 3, cells), true
		}
		return e.doRtl(op[1], cells), true
	case "encb":
		if len(op) < 3 {
			return "", false
		}
		caps, err := strconv.Atoi(op[2])
		if err != nil {
			return "", false
		}
		cells, ok := parseCells(op[3:])
		if !ok {
			return "", false
		}
		return e.doEncB(op[1], caps, cells), true
	case "decbl":
		if len(op) != 6 {
			return "", false
		}
		st, ok := parseStyle(op[1])
		url, ok1 := unhex(op[2])
		ps, ok2 := unhex(op[3])
		str, ok3 := unhex(op[4])
		if !ok || !ok1 || !ok2 || !ok3 {
			return "", false
		}
		st.Hyperlink, st.HyperlinkParams = url, ps
		return e.doDecBL(st, str), true
	case "decb":
		if len(op) != 5 {
			return "", false
		}
		st, ok := parseStyle(op[2])
		if !ok {
			return "", false
		}
		str, ok := unhex(op[3])
		if !ok {
			return "", false
		}
		return e.doDecB(op[1], st, str), true
	case "enc":
		if len(op) < 3 {
			return "", false
		}
		caps, err := strconv.Atoi(op[2])
		if err != nil {
			return "", false
		}
		cells, ok := parseCells(op[3:])
		if !ok {
			return "", false
		}
		return e.doEnc(op[1], caps, cells), true
	case "dec":
		if len(op) < 3 {
			return "", false
		}
		st, ok := parseStyle(op[2])
		if !ok {
			return "", false
		}
		return e.doDec(op[1], st, op[3:]), true
	case "agr":
		if len(op) != 2 {
			return "", false
		}
		return e.doAgr(op[1]), true
	case "rdf":
		if len(op) < 4 {
			return "", false
		}
		caps, err := strconv.Atoi(op[1])
		if err != nil {
			return "", false
		}
		cells, ok := parseCells(op[3:])
		if !ok {
			return "", false
		}
		res, _ := e.doRdf(caps, cells)
		return res, true
	case "rt", "rtq":
		cells, ok := parseCells(op[2:])
		if !ok {
			return "", false
		}
		return e.doRt(op[1], op[0] == "rtq", cells), true
	}
	return "", false
}

func parseCells(ts []string) ([]vaxis.Cell, bool) {
	var cells []vaxis.Cell
	for _, t := range ts {
		c, ok := parseCell(t)
		if !ok {
			return nil, false
		}
		cells = append(cells, c)
	}
	return cells, true
}

func (e *env) emit(op string) {
	res, ok := e.exec(strings.Fields(op))
	if !ok {
		res = "bad-op"
	}
	e.r.Emit(op, res)
}

// ---- generators ------------------------------------------------------------------------------

var classNames = []string{"default", "0-7", "8-15", "16-255", "rgb"}

func colourOf(rng *gen.Rng, class int) vaxis.Color {
	switch class {
	case 0:
		return 0
	case 1:
		return vaxis.IndexColor(uint8(rng.Intn(8)))
	case 2:
		return vaxis.IndexColor(uint8(8 + rng.Intn(8)))
	case 3:
		return vaxis.IndexColor(uint8(16 + rng.Intn(240)))
	default:
		if rng.Chance(1, 8) {
			lv := []uint8{0, 95, 135, 175, 215, 255}
			return vaxis.RGBColor(gen.Pick(rng, lv), gen.Pick(rng, lv), gen.Pick(rng, lv))
		}
		return vaxis.RGBColor(uint8(rng.Intn(256)), uint8(rng.Intn(256)), uint8(rng.Intn(256)))
	}
}

func mkStyle(rng *gen.Rng, fc, bc, uc, uls int, attr int) vaxis.Style {
	return vaxis.Style{Foreground: colourOf(rng, fc), Background: colourOf(rng, bc), UnderlineColor: colourOf(rng, uc),
		UnderlineStyle: vaxis.UnderlineStyle(uls), Attribute: vaxis.AttributeMask(attr)}
}

func randStyle(rng *gen.Rng) vaxis.Style {
	attr := 0
	switch rng.Intn(4) {
	case 0:
	case 1:
		attr = 2 << uint(rng.Intn(7))
	default:
		attr = rng.Intn(128) * 2
	}
	uls := 0
	if rng.Bool() {
		uls = rng.Intn(6)
	}
	return mkStyle(rng, rng.Intn(5), rng.Intn(5), rng.Intn(5), uls, attr)
}

var graphemes = []string{"a", "b", "Z", "q", "é", "é", "世", "界", "👩‍🚀", "x", "1", ";", "[", "~"}
var asciiG = []string{"a", "b", "c", "d", "e", "f", "g", "h", "Z", "Q", "1", "#"}

func withG(g string, s vaxis.Style) vaxis.Cell {
	return vaxis.Cell{Character: vaxis.Character{Grapheme: g}, Style: s}
}

func (e *env) pair(which string, caps int, p, n vaxis.Style) {
	e.emit(fmt.Sprintf("enc %s %d %s %s", which, caps, cellStr(withG("a", p)), cellStr(withG("b", n))))
}

var producers = []struct {
	which string
	caps  int
}{{"cells", 3}, {"ss", 3}, {"render", 3}, {"render", 2}, {"render", 1}, {"render", 0}, {"cells", 7}, {"render", 7}, {"render", 4}, {"ss", 7}}

func (e *env) genEnc(rng *gen.Rng) {
	r := e.r
	// (1) all 128 × 128 attribute-mask pairs; colour classes and underline styles paired along
	ncombo := 125
	combo := func(k int) (int, int, int) { return k % 5, k / 5 % 5, k / 25 % 5 }
	for pi, pr := range producers {
		full := r.Thorough || pi == 0
		for a := 0; a < 128; a++ {
			for b := 0; b < 128; b++ {
				k := a*128 + b
				if !full && !rng.Chance(1, 8) {
					continue
				}
				f1, b1, u1 := combo((k*7 + pi) % ncombo)
				f2, b2, u2 := combo((k/ncombo + k*3 + 1) % ncombo)
				p := mkStyle(rng, f1, b1, u1, k%6, a*2)
				n := mkStyle(rng, f2, b2, u2, k/6%6, b*2)
				if rng.Chance(1, 3) { // attribute-only transitions
					n.Foreground, n.Background, n.UnderlineColor, n.UnderlineStyle = p.Foreground, p.Background, p.UnderlineColor, p.UnderlineStyle
				}
				e.pair(pr.which, pr.caps, p, n)
				r.Count("enc-attrpair:" + pr.which)
			}
		}
	}
	// (2) colour class triples × underline styles
	for pi, pr := range producers {
		for c1 := 0; c1 < ncombo; c1++ {
			for c2 := 0; c2 < ncombo; c2++ {
				for u := 0; u < 36; u++ {
					if !r.Thorough && !rng.Chance(1, 400) {
						continue
					}
					if r.Thorough && pi >= 2 && !rng.Chance(1, 12) {
						continue
					}
					f1, b1, u1 := combo(c1)
					f2, b2, u2 := combo(c2)
					p := mkStyle(rng, f1, b1, u1, u%6, rng.Intn(128)*2)
					n := mkStyle(rng, f2, b2, u2, u/6, rng.Intn(128)*2)
					e.pair(pr.which, pr.caps, p, n)
					r.Count("enc-classpair:" + pr.which)
					r.Count("class-fg:" + classNames[f2])
				}
			}
		}
	}
	// (3) every index colour and a walk over underline colours, per producer
	for _, pr := range producers {
		for i := 0; i < 256; i++ {
			c := vaxis.IndexColor(uint8(i))
			e.pair(pr.which, pr.caps, vaxis.Style{}, vaxis.Style{Foreground: c, Background: c, UnderlineColor: c})
			r.Count("enc-index")
		}
	}
	// (4) longer cell sequences
	nseq := 1500
	if r.Thorough {
		nseq = 40000
	}
	for i := 0; i < nseq; i++ {
		pr := producers[rng.Intn(len(producers))]
		n := rng.Intn(7)
		var cs []string
		st := randStyle(rng)
		for j := 0; j < n; j++ {
			if !rng.Chance(1, 3) {
				st = randStyle(rng)
			}
			g := gen.Pick(rng, graphemes)
			if pr.which == "render" {
				g = asciiG[j]
			}
			cs = append(cs, cellStr(withG(g, st)))
		}
		e.emit(strings.TrimSpace(fmt.Sprintf("enc %s %d %s", pr.which, pr.caps, strings.Join(cs, " "))))
		r.Count("enc-seq")
	}
	// (5) out-of-range styles (not judged by the oracle, model ≡ code only): raw colour values,
	// undefined attribute bit, underline styles above 5
	nraw := 300
	if r.Thorough {
		nraw = 5000
	}
	for i := 0; i < nraw; i++ {
		pr := producers[rng.Intn(2)]
		p, n := randStyle(rng), randStyle(rng)
		switch rng.Intn(4) {
		case 0:
			n.Foreground = vaxis.Color(uint32(rng.U64()) & 0x3FFFFFF)
		case 1:
			n.Attribute |= 1
		case 2:
			n.UnderlineStyle = vaxis.UnderlineStyle(6 + rng.Intn(250))
		default:
			n.UnderlineColor = vaxis.Color(uint32(rng.U64()))
			p.Attribute = vaxis.AttributeMask(rng.Intn(256))
		}
		e.pair(pr.which, pr.caps, p, n)
		r.Count("enc-out-of-range")
	}
}

// genLong: strings longer than the parser's default bufio buffer (4096 bytes). The ansi parser joins a grapheme cluster only from
// what its reader has buffered, so a multi-rune grapheme whose first rune ended exactly at a buffer boundary came back from
// ParseStyledString as two cells (F122, fixed: ParseStyledString buffers the whole string). For every buffer boundary, every
// multi-rune grapheme and every rune boundary inside it: a cell list whose encoding puts that rune boundary on the buffer boundary
// (and one byte before / after it); filler cells carry long single-cluster graphemes so that the op lines stay short.
func (e *env) genLong() {
	r := e.r
	filler := func(bytes int) []vaxis.Cell { // cells without style whose graphemes encode to exactly `bytes` bytes
		var out []vaxis.Cell
		for bytes > 0 {
			n := bytes
			if n > 273 {
				n = 273
			}
			if n%2 == 0 { // "a" + k combining acutes has odd length
				n--
			}
			out = append(out, withG("a"+strings.Repeat("\u0301", (n-1)/2), vaxis.Style{}))
			bytes -= n
		}
		return out
	}
	multi := []string{"e\u0301", "\U0001F469\u200d\U0001F680", "\U0001F1E9\U0001F1EA", "o\u0302\u0323"}
	bounds := []int{4096, 8192}
	if r.Thorough {
		bounds = append(bounds, 12288, 16384)
	}
	for _, b := range bounds {
		for _, g := range multi {
			off := 0
			for i, rn := range g {
				_ = rn
				if i == 0 {
					continue
				}
				off = i // byte offset of a later rune of g
				for _, d := range []int{-1, 0, 1} {
					head := []vaxis.Cell{withG("x", vaxis.Style{Attribute: vaxis.AttrBold, Foreground: vaxis.IndexColor(200)}), withG("y", vaxis.Style{})}
					hl := len(vaxis.EncodeCells(head))
					cells := append(head, filler(b-off+d-hl)...)
					cells = append(cells, withG(g, vaxis.Style{}), withG("z", vaxis.Style{Background: vaxis.RGBColor(1, 2, 3)}))
					var cs []string
					for _, c := range cells {
						cs = append(cs, cellStr(c))
					}
					e.emit("rt cells " + strings.Join(cs, " "))
					e.emit("rt ss " + strings.Join(cs, " "))
					str := vaxis.EncodeCells(cells)
					e.decb("cells", vaxis.Style{}, str)
					e.decb("ss", vaxis.Style{}, str)
					r.Count(fmt.Sprintf("long:boundary-%d:d%+d", b, d))
				}
			}
		}
	}
}

func (e *env) genRt(rng *gen.Rng) {
	r := e.r
	n := 6000
	if r.Thorough {
		n = 150000
	}
	for i := 0; i < n; i++ {
		which := "cells"
		if i%2 == 1 {
			which = "ss"
		}
		k := rng.Intn(6)
		var cs []string
		st := randStyle(rng)
		for j := 0; j < k; j++ {
			if !rng.Chance(1, 4) {
				st = randStyle(rng)
			}
			cs = append(cs, cellStr(withG(gen.Pick(rng, graphemes), st)))
		}
		kind := "rt"
		if i%4 >= 2 { // the same round trips with VAXIS_FORCE_LEGACY_SGR applied
			kind = "rtq"
		}
		e.emit(strings.TrimSpace(fmt.Sprintf("%s %s %s", kind, which, strings.Join(cs, " "))))
		r.Count(kind + ":" + which)
		if r.Thorough || i%3 == 0 { // the same case at the byte level: the exact string, and every codec reading it
			caps := 3
			if kind == "rtq" {
				caps = 7
			}
			e.emit(strings.TrimSpace(fmt.Sprintf("encb %s %d %s", which, caps, strings.Join(cs, " "))))
			r.Count("encb:" + which)
			if len(cs) > 0 && (r.Thorough || i%6 == 0) { // the SGR bytes and text of a rendered frame of the same cells, every capability setting
				rc := rng.Intn(4) | (caps & 4)
				e.emit(fmt.Sprintf("encb render %d %s", rc, strings.Join(cs, " ")))
				r.Count("encb:render")
				e.rdf(rc, cs)
			}
			if cells, ok := parseCells(cs); ok {
				str := ""
				e.setLegacy(caps&4 != 0)
				if which == "cells" {
					str = vaxis.EncodeCells(cells)
				} else {
					str = (&vaxis.StyledString{Cells: cells}).Encode()
				}
				e.setLegacy(false)
				e.decb("cells", vaxis.Style{}, str)
				e.decb("ss", vaxis.Style{}, str)
			}
		}
	}
	// legacy quirk applied: each codec must still read back its own extended colours (16-255 and RGB, fg and bg)
	for _, which := range []string{"cells", "ss"} {
		for i := 0; i < 256; i += 3 {
			a := vaxis.Style{Foreground: vaxis.IndexColor(uint8(16 + i%240)), Background: vaxis.RGBColor(uint8(i), uint8(255-i), uint8(i*7))}
			b := vaxis.Style{Foreground: vaxis.RGBColor(uint8(i*5), uint8(i), uint8(3)), Background: vaxis.IndexColor(uint8(16 + (i*11)%240))}
			e.emit(fmt.Sprintf("rtq %s %s %s %s", which, cellStr(withG("a", a)), cellStr(withG("b", b)), cellStr(withG("c", vaxis.Style{}))))
			r.Count("rtq-extcolour:" + which)
		}
	}
	// cells that carry hyperlinks (OSC 8): graphemes and styles must come back; NewStyledString also restores the link
	urls := []string{"", "http://a", "https://example.org/x?y=1;z=2", "file:///tmp/ü"}
	params := []string{"", "id=7", "id=a:foo=b"}
	nl := 600
	if r.Thorough {
		nl = 20000
	}
	for i := 0; i < nl; i++ {
		which := "cells"
		if i%2 == 1 {
			which = "ss"
		}
		k := 1 + rng.Intn(5)
		var cs []string
		var real []vaxis.Cell
		st := randStyle(rng)
		for j := 0; j < k; j++ {
			if rng.Chance(1, 2) {
				st = randStyle(rng)
			}
			if rng.Chance(2, 3) {
				// parameters are a function of the URL: Encode re-sends OSC 8 only when the URL changes
				// (cursor.Hyperlink != next.Hyperlink), so a change of the parameters alone is not encoded
				ui := rng.Intn(len(urls))
				st.Hyperlink = urls[ui]
				st.HyperlinkParams = ""
				if st.Hyperlink != "" {
					st.HyperlinkParams = params[ui%len(params)]
				}
				if rng.Chance(1, 8) {
					// outside LinksRestorable (parameters not a function of the URL, parameters under the empty URL, a ';' in
					// them): the oracle does not judge the links of such cell lists; model ≡ code through decbl
					st.HyperlinkParams = gen.Pick(rng, []string{"", "id=7", "id=a:foo=b", "x;y"})
					r.Count("rtl:params-free")
				}
			}
			c := withG(gen.Pick(rng, graphemes), st)
			real = append(real, c)
			cs = append(cs, lcellStr(c))
		}
		e.emit(fmt.Sprintf("rtl %s %s", which, strings.Join(cs, " ")))
		r.Count("rtl:" + which)
		e.emit(fmt.Sprintf("encbl %s %s", which, strings.Join(cs, " ")))
		// the same string at the byte level, read by both parsers
		str := ""
		if which == "cells" {
			str = vaxis.EncodeCells(real)
		} else {
			str = (&vaxis.StyledString{Cells: real}).Encode()
		}
		e.decb("cells", vaxis.Style{}, str)
		e.decb("ss", vaxis.Style{}, str)
		// NewStyledString with the hyperlink fields on the same exact string (model: newStyledStringBL)
		e.decbl(vaxis.Style{}, str)
		if i%5 == 0 {
			e.decbl(vaxis.Style{Hyperlink: "http://d", HyperlinkParams: "id=d", Attribute: vaxis.AttrBold}, str)
		}
	}
	// hand-made strings around the hyperlink state of NewStyledString: what restores the default's link (ESC[m, "0"),
	// what does not (a 0 used up by a legacy colour form), OSC 8 without ';' / without ST / empty, links and text mixed
	linkStrs := []string{
		"\x1b]8;id=1;http://a\x1b\\a\x1b[mb\x1b]8;;\x1b\\c",
		"\x1b]8;id=1;http://a\x1b\\a\x1b[0mb",
		"\x1b]8;id=1;http://a\x1b\\a\x1b[1;0;3mb",
		"\x1b]8;id=1;http://a\x1b\\a\x1b[38;5;0mb",
		"\x1b]8;id=1;http://a\x1b\\a\x1b[38;2;0;0;0mb\x1b[48;5;0;0mc",
		"\x1b]8;id=1;http://a\x1b\\a\x1b[38:5:0mb\x1b[00mc\x1b[;md",
		"\x1b]8;nosemicolon\x1b\\a",
		"\x1b]8;p;u;v;w\x1b\\a",
		"\x1b]8;;http://never-terminated a",
		"\x1b]8;\x1b\\a",
		"\x1b]8;;\x1b\\",
		"a\x1b]8;;u\x1b\\\x1b]8;q;v\x1b\\b\x1b]8;;\x1b\\c\x1b[m",
		"\x1b]8;;u\x1bx\x1b\\a",
		"\x1b]9;;u\x1b\\a",
	}
	for _, str := range linkStrs {
		for _, d := range []vaxis.Style{{}, {Hyperlink: "http://d", HyperlinkParams: "id=d"}, {Foreground: vaxis.IndexColor(3), HyperlinkParams: "only-params"}} {
			e.decbl(d, str)
			r.Count("decbl-handmade")
		}
	}
	// single transitions of one field, both directions, for both codecs
	vals := []vaxis.Style{{}, {Foreground: vaxis.IndexColor(1)}, {Foreground: vaxis.IndexColor(9)}, {Foreground: vaxis.IndexColor(200)},
		{Foreground: vaxis.RGBColor(1, 2, 3)}, {Background: vaxis.IndexColor(7)}, {Background: vaxis.IndexColor(15)}, {Background: vaxis.IndexColor(16)},
		{Background: vaxis.RGBColor(0, 0, 0)}, {UnderlineColor: vaxis.IndexColor(3)}, {UnderlineColor: vaxis.RGBColor(9, 8, 7)},
		{UnderlineStyle: 1}, {UnderlineStyle: 3}, {UnderlineStyle: 5}, {Attribute: vaxis.AttrBold}, {Attribute: vaxis.AttrDim},
		{Attribute: vaxis.AttrBold | vaxis.AttrDim}, {Attribute: vaxis.AttrItalic | vaxis.AttrStrikethrough}, {Attribute: 254}}
	for _, which := range []string{"cells", "ss"} {
		for _, a := range vals {
			for _, b := range vals {
				e.emit(fmt.Sprintf("rt %s %s %s %s", which, cellStr(withG("a", a)), cellStr(withG("b", b)), cellStr(withG("c", a))))
				r.Count("rt-single")
			}
		}
	}
}

var consumers = []string{"cells", "ss", "emu"}

func (e *env) dec(which string, dflt vaxis.Style, toks ...string) {
	e.emit(strings.TrimSpace(fmt.Sprintf("dec %s %s %s", which, styleStr(dflt), strings.Join(toks, " "))))
	e.ndec++
	if which != "emu" && (e.r.Thorough || e.ndec%2 == 0 || len(toks) > 3) {
		if str, ok := toksString(toks); ok {
			e.decb(which, dflt, str)
		}
	}
}

func randNum(rng *gen.Rng) string {
	switch rng.Intn(10) {
	case 0:
		return ""
	case 1:
		return strconv.Itoa(rng.Intn(10))
	case 2, 3:
		return strconv.Itoa(rng.Intn(110))
	case 4:
		return strconv.Itoa(rng.Intn(256))
	case 5:
		return strconv.Itoa(255 + rng.Intn(3))
	case 6:
		return strconv.Itoa(rng.Intn(100000))
	case 7:
		return gen.Pick(rng, []string{"38", "48", "58", "2", "5", "4"})
	case 8:
		return gen.Pick(rng, []string{"0", "00", "01", "007", "030", "038"})
	default:
		return strconv.FormatUint(rng.U64()%1000000000000000, 10)
	}
}

var vocab = []string{"0", "1", "2", "3", "4", "5", "6", "7", "8", "9", "21", "22", "23", "24", "25", "27", "28", "29", "39", "49", "59",
	"31", "37", "42", "47", "91", "97", "100", "107", "4:0", "4:1", "4:2", "4:3", "4:4", "4:5", "4:6", "4:1:2", "4:",
	"38:5:1", "38:5:255", "38:5:256", "48:5:17", "58:5:9", "38:2:1:2:3", "48:2:255:0:7", "58:2:9:9:9", "38:2::1:2:3", "58:2:0:1:2:3", "48:2:1:2:300",
	"38;5;1", "48;5;200", "58;5;3", "38;2;1;2;3", "48;2;9;8;7", "58;2;4;5;6",
	"38", "48", "58", "38;5", "38;2", "38;2;1", "38;2;1;2", "48;5", "58;2;1;2", "38;7;1", "38:5", "38:2", "38:2:1", "38:2:1:2", "38:3:1", "38:9:1:2:3", "38:9:8:1:2:3",
	"38:5:1:1", "38:1:2:3:4:5:6", "58:5", "48:2:1:2"}

func randBody(rng *gen.Rng, junk bool) string {
	n := 1 + rng.Intn(6)
	parts := make([]string, n)
	for i := range parts {
		switch rng.Intn(5) {
		case 0, 1, 2:
			parts[i] = gen.Pick(rng, vocab)
		case 3:
			k := 1 + rng.Intn(6)
			sub := make([]string, k)
			for j := range sub {
				sub[j] = randNum(rng)
			}
			parts[i] = strings.Join(sub, ":")
		default:
			parts[i] = randNum(rng)
		}
		if junk && rng.Chance(1, 10) {
			parts[i] = gen.Pick(rng, []string{"+5", "-3", "x", "1x", " ", "0x10", "１", "99999999999999999999999", "-99999999999999999999999", "1_0", "38:5:+7", "38:5:-1", "48:2:a:b:c", "4:x", "4:03"})
			parts[i] = strings.ReplaceAll(parts[i], " ", "_")
		}
	}
	return strings.Join(parts, ";")
}

var soloCodes = []int{1, 2, 3, 4, 5, 7, 8, 9, 22, 23, 24, 25, 27, 28, 29, 39, 49, 59}

// rangeSeq: one parameter list a producer can write (legacy: the semicolon colour forms).
func rangeSeq(rng *gen.Rng, legacy bool) string {
	switch rng.Intn(10) {
	case 0, 1, 2, 3:
		return strconv.Itoa(gen.Pick(rng, soloCodes))
	case 4:
		return strconv.Itoa(gen.Pick(rng, []int{30, 40, 90, 100}) + rng.Intn(8))
	case 5:
		return "4:" + strconv.Itoa(rng.Intn(6))
	case 6:
		return "-"
	case 7, 8:
		p := gen.Pick(rng, []string{"38", "48", "58"})
		if legacy && p != "58" {
			return fmt.Sprintf("%s;5;%d", p, rng.Intn(256))
		}
		return fmt.Sprintf("%s:5:%d", p, rng.Intn(256))
	default:
		p := gen.Pick(rng, []string{"38", "48", "58"})
		if legacy && p != "58" {
			return fmt.Sprintf("%s;2;%d;%d;%d", p, rng.Intn(256), rng.Intn(256), rng.Intn(256))
		}
		return fmt.Sprintf("%s:2:%d:%d:%d", p, rng.Intn(256), rng.Intn(256), rng.Intn(256))
	}
}

// agrVocab: canonical parameter texts (no empty or padded numerals: the model of NewStyledString in the agr op reads canonical numerals).
var agrVocab = []string{"0", "1", "2", "3", "4", "5", "6", "7", "8", "9", "21", "22", "23", "24", "25", "27", "28", "29", "39", "49", "59",
	"30", "37", "40", "47", "90", "97", "100", "107", "10", "50", "110", "255", "256", "300",
	"4:0", "4:1", "4:3", "4:5", "4:6", "4:1:2", "4:9:1", "4:3:9",
	"38:5:1", "38:5:255", "38:5:256", "48:5:17", "58:5:9", "38:2:1:2:3", "48:2:255:0:7", "58:2:9:9:9", "38:2:0:1:2:3", "58:2:0:1:2:3", "48:2:1:2:300",
	"38;5;1", "48;5;200", "58;5;3", "38;2;1;2;3", "48;2;9;8;7", "58;2;4;5;6", "38;5;0", "48;2;0;0;0",
	"38", "48", "58", "38;5", "38;2", "38;2;1", "38;2;1;2", "48;5", "58;2;1;2", "38;7;1", "38:5", "38:2", "38:2:1", "38:2:1:2", "38:3:1", "38:9:1:2:3", "38:9:8:1:2:3",
	"38:5:1:1", "38:1:2:3:4:5:6", "58:5", "48:2:1:2", "38;5:1;7", "48;5;7:3", "38;2:0;1;2;3", "38;2;1:1;2;3"}

func (e *env) agr(body string) {
	op := "agr " + body
	res, ok := e.exec(strings.Fields(op))
	if !ok {
		res = "bad-op"
	}
	e.r.Emit(op, res)
	parts := strings.Split(res, "|")
	if len(parts) == 3 && parts[0] == parts[1] && parts[1] == parts[2] {
		e.r.Count("agr:all-three-equal")
	} else if len(parts) == 3 && parts[0] == parts[2] {
		e.r.Count("agr:NewStyledString-differs")
	} else {
		e.r.Count("agr:other")
	}
}

// genAgr (round 4): the three real consumers side by side on arbitrary well-printed parameter lists; the driver's oracle demands
// no panic anywhere and equal styles on producible sequences; the three model columns (which agree exactly on Model.Sgr.agreeExact:
// Props.C18Agree.consumers_agree_iff) must equal the three real ones.
func (e *env) genAgr(rng *gen.Rng) {
	for _, a := range agrVocab {
		e.agr(a)
		e.agr("1;" + a)
		e.agr(a + ";1")
		e.agr("1;3;4:3;" + a + ";7;9")
	}
	core := []string{"0", "1", "22", "4:3", "31", "38:5:7", "38;5;7", "48;2;1;2;3", "38", "38;5", "48;2;1", "58:2:0:1:2:3", "38:3:7", "4:3:9", "21", "6"}
	for _, a := range core {
		for _, b := range core {
			e.agr(a + ";" + b)
		}
	}
	n := 3000
	if e.r.Thorough {
		n = 60000
	}
	num := func() string {
		switch rng.Intn(6) {
		case 0:
			return strconv.Itoa(rng.Intn(10))
		case 1, 2:
			return strconv.Itoa(rng.Intn(110))
		case 3:
			return strconv.Itoa(rng.Intn(300))
		case 4:
			return gen.Pick(rng, []string{"38", "48", "58", "2", "5", "4"})
		default:
			return strconv.Itoa(rng.Intn(100000))
		}
	}
	for i := 0; i < n; i++ {
		k := 1 + rng.Intn(7)
		parts := make([]string, k)
		for j := range parts {
			switch rng.Intn(6) {
			case 0, 1, 2:
				parts[j] = gen.Pick(rng, agrVocab)
			case 3:
				m := 2 + rng.Intn(6)
				sub := make([]string, m)
				for x := range sub {
					sub[x] = num()
				}
				if rng.Bool() {
					sub[0] = gen.Pick(rng, []string{"38", "48", "58", "4"})
				}
				parts[j] = strings.Join(sub, ":")
			default:
				parts[j] = num()
			}
		}
		e.agr(strings.Join(parts, ";"))
	}
}

func (e *env) genDec(rng *gen.Rng) {
	r := e.r
	zero := vaxis.Style{}
	busy := vaxis.Style{Foreground: vaxis.IndexColor(3), Background: vaxis.RGBColor(1, 2, 3), UnderlineColor: vaxis.IndexColor(77), UnderlineStyle: 3, Attribute: 254}
	for _, which := range consumers {
		// every code alone, from an empty and from a busy pen
		for c := 0; c <= 110; c++ {
			e.dec(which, zero, "S"+strconv.Itoa(c), "T61")
			e.dec(which, zero, "S1", "S3", "S4:3", "S31", "S42", "S58:5:7", "T61", "S"+strconv.Itoa(c), "T62")
			e.dec(which, zero, "S1", "S2", "S3", "S5", "S7", "S8", "S9", "S4:5", "S38:2:1:2:3", "S105", "S58:2:9:8:7", "T61", "S"+strconv.Itoa(c), "T62")
			e.dec(which, zero, "S1;3;4:3;31;42;58:5:7", "T61", "S"+strconv.Itoa(c), "T62")
			for _, sub := range []string{":0", ":5", ":2:1:2:3", ":5:7", ":", ":2::1:2:3", ":1:2:3:4:5:6:7"} {
				e.dec(which, zero, "S"+strconv.Itoa(c)+sub, "T61")
			}
			r.Count("dec-code:" + which)
		}
		e.dec(which, zero, "S-", "T61")
		e.dec(which, zero, "S1", "T61", "S-", "T62")
		e.dec(which, zero, "S1")
		e.dec(which, zero)
		// the producers' range
		for n := 0; n < 256; n++ {
			for _, p := range []string{"38", "48", "58"} {
				e.dec(which, zero, fmt.Sprintf("S%s:5:%d", p, n), "T61")
				e.dec(which, zero, fmt.Sprintf("S%s:2:%d:%d:%d", p, n, 255-n, (n*7)%256), "T61")
				if p != "58" {
					e.dec(which, zero, fmt.Sprintf("S%s;5;%d", p, n), "T61")
					e.dec(which, zero, fmt.Sprintf("S%s;2;%d;%d;%d", p, n, 255-n, (n*7)%256), "T61")
				}
			}
			r.Count("dec-range:" + which)
		}
		// every truncation of the extended-colour forms, alone, followed by more, and after a prefix
		forms := []string{"38;5;7", "38;2;1;2;3", "48;5;7", "48;2;1;2;3", "58;5;7", "58;2;1;2;3", "38:5:7", "38:2:1:2:3", "38:2::1:2:3", "58:2:0:1:2:3", "38;9;1", "38;2;1;2;3;4;5"}
		for _, f := range forms {
			for cut := 1; cut <= len(f); cut++ {
				if cut < len(f) && f[cut] != ';' && f[cut] != ':' {
					continue
				}
				t := f[:cut]
				e.dec(which, zero, "S"+t, "T61")
				e.dec(which, zero, "S1;"+t, "T61")
				e.dec(which, zero, "S"+t+";1", "T61")
				e.dec(which, zero, "S"+t+";1;3;7;9", "T61", "S"+t, "T62")
				r.Count("dec-truncated:" + which)
			}
		}
		// round 4: the same truncations at every position of a longer list (a bounds check on the whole list instead of
		// on what remains after the 38/48/58 is only wrong when the form is NOT at the start and the list has >= 3 / >= 5
		// entries): 0-5 leading parameters, 0-2 trailing ones, legacy and colon forms of 38, 48 and 58
		for _, p := range []string{"38", "48", "58"} {
			for _, f := range []string{p + ";5;7", p + ";2;10;20;30", p + ":5:7", p + ":2:10:20:30", p + ":2::10:20:30"} {
				for cut := len(p); cut <= len(f); cut++ {
					if cut < len(f) && f[cut] != ';' && f[cut] != ':' {
						continue
					}
					t := f[:cut]
					for _, pre := range []string{"", "1;", "1;3;", "1;3;4:3;", "1;3;7;9;", "0;1;3;7;9;"} {
						for _, suf := range []string{"", ";1", ";1;3"} {
							e.dec(which, zero, "S"+pre+t+suf, "T61")
							r.Count("dec-truncated-pos:" + which)
						}
					}
					e.dec(which, busy, "S1;3;"+t, "T61", "S"+t+";22", "T62")
				}
			}
		}
	}
	e.genAgr(rng.Fork(77))
	// producer-like streams: sequences from the producers' range, one parameter list each
	np := 6000
	if r.Thorough {
		np = 150000
	}
	for i := 0; i < np; i++ {
		which := consumers[i%3]
		k := 2 + rng.Intn(10)
		var toks []string
		for j := 0; j < k; j++ {
			toks = append(toks, "S"+rangeSeq(rng, which != "ss" && rng.Chance(1, 5)))
			if rng.Chance(1, 3) {
				toks = append(toks, "T"+hx.Hex(gen.Pick(rng, graphemes)))
			}
		}
		toks = append(toks, "T61")
		e.dec(which, zero, toks...)
		r.Count("dec-range-stream:" + which)
	}
	n := 8000
	if r.Thorough {
		n = 250000
	}
	for i := 0; i < n; i++ {
		which := consumers[i%3]
		k := 1 + rng.Intn(4)
		var toks []string
		for j := 0; j < k; j++ {
			b := randBody(rng, which == "ss")
			toks = append(toks, "S"+b, "T"+hx.Hex(gen.Pick(rng, graphemes)))
		}
		if rng.Chance(1, 10) {
			toks = toks[:len(toks)-1]
		}
		d := zero
		if which != "cells" && rng.Chance(1, 4) {
			d = busy
			if rng.Bool() {
				d = randStyle(rng)
			}
		}
		e.dec(which, d, toks...)
		r.Count("dec-random:" + which)
	}
}

func run(r *hx.Run) error {
	os.Unsetenv("COLORTERM")
	os.Unsetenv("VAXIS_FORCE_LEGACY_SGR")
	e := &env{r: r, vx: map[int]*vaxis.Vaxis{}, fc: map[int]*fakeconsole.Console{}, emu: term.New()}
	e.colon = vaxis.VerifC18SGRFormats()
	fc := fakeconsole.New(4, 1, fakeconsole.FromMask(1<<2)) // unicode core: widths as measured by uniseg
	plain, err := vaxis.New(vaxis.Options{WithConsole: fc, NoSignals: true})
	if err != nil {
		return err
	}
	e.plain = plain
	defer func() {
		plain.Close()
		for _, vx := range e.vx {
			vx.Close()
		}
	}()
	if r.Replay != "" {
		return hx.ReplayOps(r, e.exec)
	}
	for _, ops := range hx.Corpus("C18") {
		for _, op := range ops {
			e.emit(op)
			r.Count("corpus")
		}
	}
	rng := gen.New(r.Seed)
	e.genEnc(rng.Fork(1))
	e.genRt(rng.Fork(2))
	e.genDec(rng.Fork(3))
	e.genLong()
	return nil
}
