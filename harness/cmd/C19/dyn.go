package main

import (
	"fmt"
	"strconv"
	"strings"

	"git.sr.ht/~rockorager/vaxis"
	"git.sr.ht/~rockorager/vaxis/vxfw"
	vlist "git.sr.ht/~rockorager/vaxis/vxfw/list"
	"verifharness/gen"
	"verifharness/hx"
)

// stub is a fixed-height widget that remembers its index.
type stub struct {
	idx int
	h   uint16
}

func (s *stub) Draw(ctx vxfw.DrawContext) (vxfw.Surface, error) {
	return vxfw.NewSurface(1, s.h, s), nil
}

func (s *stub) HandleEvent(ev vaxis.Event, ph vxfw.EventPhase) (vxfw.Command, error) {
	return nil, nil
}

type dynState struct {
	d  *vlist.Dynamic
	hs []uint16
}

func heights(s string) []uint16 {
	if s == "-" || s == "" {
		return nil
	}
	var out []uint16
	for _, t := range strings.Split(s, ",") {
		out = append(out, uint16(atoi(t)))
	}
	return out
}

func (e *env) execDL(op []string) (string, bool) {
	if len(op) == 0 {
		return "", false
	}
	if op[0] == "new" && len(op) == 4 {
		st := &dynState{hs: heights(op[3])}
		st.d = &vlist.Dynamic{Gap: atoi(op[1]), DrawCursor: op[2] == "1"}
		st.d.Builder = func(i uint, cursor uint) vxfw.Widget {
			if i < uint(len(st.hs)) {
				return &stub{idx: int(i), h: st.hs[i]}
			}
			return nil
		}
		e.dl = st
		return fmt.Sprintf("cursor=%d off=%d", st.d.Cursor(), st.d.Offset()), true
	}
	if e.dl == nil {
		return "", false
	}
	st := e.dl
	d := st.d
	extra := ""
	ok := true
	cmdOf := func(c vxfw.Command) string {
		if c == nil {
			return " cmd=0"
		}
		return " cmd=1"
	}
	panicked, msg := hx.Guard(func() {
		switch {
		case op[0] == "items" && len(op) == 2:
			st.hs = heights(op[1])
			extra = "-"
		case op[0] == "setcursor" && len(op) == 2:
			c, _ := strconv.ParseUint(op[1], 10, 64)
			d.SetCursor(uint(c))
		case op[0] == "pending" && len(op) == 2:
			d.SetPendingScroll(atoi(op[1]))
		case op[0] == "next" && len(op) == 1:
			extra = cmdOf(d.NextItem())
		case op[0] == "prev" && len(op) == 1:
			extra = cmdOf(d.PrevItem())
		case op[0] == "keyj" && len(op) == 1:
			c, _ := d.CaptureEvent(vaxis.Key{Keycode: 'j', Text: "j"})
			extra = cmdOf(c)
		case op[0] == "keyk" && len(op) == 1:
			c, _ := d.CaptureEvent(vaxis.Key{Keycode: vaxis.KeyUp})
			extra = cmdOf(c)
		case (op[0] == "ev" || op[0] == "dev") && len(op) == 2:
			// any event, delivered to the handler that looks at its type (keys: CaptureEvent, everything
			// else: HandleEvent); "dev" = the same with DisableEventHandlers set
			d.DisableEventHandlers = op[0] == "dev"
			var c vxfw.Command
			switch op[1] {
			case "j":
				c, _ = d.CaptureEvent(vaxis.Key{Keycode: 'j', Text: "j"})
			case "down":
				c, _ = d.CaptureEvent(vaxis.Key{Keycode: vaxis.KeyDown})
			case "k":
				c, _ = d.CaptureEvent(vaxis.Key{Keycode: 'k', Text: "k"})
			case "up":
				c, _ = d.CaptureEvent(vaxis.Key{Keycode: vaxis.KeyUp})
			case "x":
				c, _ = d.CaptureEvent(vaxis.Key{Keycode: 'x', Text: "x"})
			case "wheeldown":
				c, _ = d.HandleEvent(vaxis.Mouse{Button: vaxis.MouseWheelDown}, vxfw.TargetPhase)
			case "wheelup":
				c, _ = d.HandleEvent(vaxis.Mouse{Button: vaxis.MouseWheelUp}, vxfw.TargetPhase)
			case "left":
				c, _ = d.HandleEvent(vaxis.Mouse{Button: vaxis.MouseLeftButton}, vxfw.TargetPhase)
			case "keytohandle":
				c, _ = d.HandleEvent(vaxis.Key{Keycode: 'j', Text: "j"}, vxfw.TargetPhase)
			case "mousetocapture":
				c, _ = d.CaptureEvent(vaxis.Mouse{Button: vaxis.MouseWheelDown})
			default:
				c, _ = d.HandleEvent(vaxis.FocusIn{}, vxfw.TargetPhase)
			}
			d.DisableEventHandlers = false
			extra = cmdOf(c)
		case op[0] == "wheeldown" && len(op) == 1:
			c, _ := d.HandleEvent(vaxis.Mouse{Button: vaxis.MouseWheelDown}, vxfw.TargetPhase)
			extra = cmdOf(c)
		case op[0] == "wheelup" && len(op) == 1:
			c, _ := d.HandleEvent(vaxis.Mouse{Button: vaxis.MouseWheelUp}, vxfw.TargetPhase)
			extra = cmdOf(c)
		case op[0] == "draw" && len(op) == 3:
			ctx := vxfw.DrawContext{
				Max:        vxfw.Size{Width: uint16(atoi(op[1])), Height: uint16(atoi(op[2]))},
				Characters: vaxis.Characters,
			}
			s, err := d.Draw(ctx)
			if err != nil {
				extra = " err"
				return
			}
			var ch []string
			for _, c := range s.Children {
				id := "?"
				if w, isStub := c.Surface.Widget.(*stub); isStub {
					id = strconv.Itoa(w.idx)
				}
				ch = append(ch, fmt.Sprintf("%s@%d/%d", id, c.Origin.Row, c.Surface.Size.Height))
			}
			if len(ch) == 0 {
				extra = " ch=-"
			} else {
				extra = " ch=" + strings.Join(ch, ",")
			}
			extra += fmt.Sprintf(" sz=%dx%d", s.Size.Width, s.Size.Height)
		default:
			ok = false
		}
	})
	if !ok {
		return "", false
	}
	if panicked {
		e.dead = true
		e.r.Count("panic: " + strings.Split(msg, "[")[0])
		return "panic", true
	}
	if extra == "-" {
		return "-", true
	}
	return fmt.Sprintf("cursor=%d off=%d", d.Cursor(), d.Offset()) + extra, true
}

func hsStr(hs []int) string {
	if len(hs) == 0 {
		return "-"
	}
	s := make([]string, len(hs))
	for i, h := range hs {
		s[i] = strconv.Itoa(h)
	}
	return strings.Join(s, ",")
}

func genDyn(e *env, rng *gen.Rng) {
	r := e.r
	id := 0
	run := func(ops []string) {
		e.runCase(fmt.Sprintf("dl-%d", id), ops)
		id++
	}
	// bounded-exhaustive: counts 0..4 with heights from a few patterns, viewports 0..5, gap 0/1,
	// every op sequence up to maxLen over the alphabet, always closed by a draw
	maxLen := 3
	if r.Thorough {
		maxLen = 4
	}
	var deep uint64
	patterns := [][]int{{}, {1}, {3}, {1, 1}, {2, 1}, {1, 2, 3}, {3, 1, 2}, {1, 1, 1, 1}, {2, 3, 1, 2}}
	for _, hs := range patterns {
		for _, H := range []int{0, 1, 2, 3, 5} {
			for _, cfg := range []string{"0 0", "0 1", "1 0", "2 1"} {
				if !r.Thorough && cfg != "0 0" && (H == 0 || H == 5) {
					continue
				}
				if !r.Thorough && cfg == "2 1" && (len(hs) < 2 || H == 3) {
					continue
				}
				draw := fmt.Sprintf("dl draw 4 %d", H)
				alpha := []string{"dl next", "dl prev", "dl wheeldown", "dl wheelup", draw, fmt.Sprintf("dl setcursor %d", len(hs)-1), "dl pending -2"}
				if len(hs) == 0 {
					alpha[5] = "dl setcursor 0"
				}
				// item replacement: the builder shrinks to its first item (or grows by two rows of
				// height 2 when it has at most one), and a builder with other heights
				shrunk := []int{}
				if len(hs) > 1 {
					shrunk = hs[:1]
				} else {
					shrunk = append(append([]int{}, hs...), 2, 2)
				}
				other := make([]int, len(hs))
				for i := range hs {
					other[i] = 4 - hs[i]
				}
				alpha = append(alpha, "dl items "+hsStr(shrunk))
				if len(hs) > 0 && (r.Thorough || cfg != "0 1") {
					alpha = append(alpha, "dl items "+hsStr(other))
				}
				var rec func(seq []string, depth int)
				rec = func(seq []string, depth int) {
					// case cap of the thorough tier: one in 16 of the histories of length >= 4 (phase = seed)
					deep++
					if !r.Thorough || len(seq) < 4 || (deep+r.Seed)%16 == 0 {
						ops := append([]string{fmt.Sprintf("dl new %s %s", cfg, hsStr(hs))}, seq...)
						ops = append(ops, draw)
						run(ops)
						r.Count("dl-exhaustive")
					}
					if depth == 0 {
						return
					}
					for _, a := range alpha {
						rec(append(append([]string{}, seq...), a), depth-1)
					}
				}
				rec(nil, maxLen)
				if r.Thorough && len(hs) <= 2 && H <= 2 {
					// length-5 histories on the smallest lists
					alpha = append(alpha[:6:6], alpha[7])
					rec(nil, 5)
				}
			}
		}
	}
	// upward-scroll family (the shape that exposed F119f): varied heights, select far down, draw,
	// scroll up by a pending amount, draw, change the selection, draw
	upCases := 4000
	if r.Thorough {
		upCases = 20000
	}
	for c := 0; c < upCases; c++ {
		n := rng.Range(2, 8)
		hs := make([]int, n)
		for i := range hs {
			hs[i] = rng.Range(1, 6)
		}
		H := rng.Range(1, 7)
		gap := 0
		if rng.Chance(1, 6) {
			gap = 1
		}
		ops := []string{fmt.Sprintf("dl new %d %d %s", gap, rng.Intn(2), hsStr(hs)),
			fmt.Sprintf("dl setcursor %d", rng.Range(0, n-1)), fmt.Sprintf("dl draw 4 %d", rng.Range(1, 7))}
		for k := rng.Range(1, 3); k > 0; k-- {
			ops = append(ops, fmt.Sprintf("dl pending %d", -rng.Range(1, 9)), fmt.Sprintf("dl draw 4 %d", H))
			switch rng.Intn(4) {
			case 0:
				ops = append(ops, "dl next")
			case 1:
				ops = append(ops, "dl prev")
			default:
				ops = append(ops, fmt.Sprintf("dl setcursor %d", rng.Range(0, n-1)))
			}
			ops = append(ops, fmt.Sprintf("dl draw 4 %d", H))
		}
		run(ops)
		r.Count("dl-scrollup")
	}
	// replacement family: gaps 0..3, heights 0..6, the builder is replaced often (shrinking below the
	// top, growing, changing heights) between upward/downward scrolls and selection changes
	repCases := 4000
	if r.Thorough {
		repCases = 30000
	}
	for c := 0; c < repCases; c++ {
		mk := func() []int {
			n := rng.Range(0, 9)
			if rng.Chance(1, 3) {
				n = rng.Range(0, 2)
			}
			hs := make([]int, n)
			for i := range hs {
				hs[i] = rng.Range(1, 4)
				if rng.Chance(1, 10) {
					hs[i] = 0
				} else if rng.Chance(1, 8) {
					hs[i] = rng.Range(5, 6)
				}
			}
			return hs
		}
		hs := mk()
		gap := rng.Range(0, 3)
		H := rng.Range(1, 6)
		if rng.Chance(1, 12) {
			H = 0
		}
		// viewport widths 0..7 (the cursor gutter takes 2 columns; widths below 2 included)
		W := gen.Pick(rng, []int{0, 1, 2, 3, 4, 4, 7})
		r.Count(fmt.Sprintf("dl-replace-width%d", W))
		ops := []string{fmt.Sprintf("dl new %d %d %s", gap, rng.Intn(2), hsStr(hs))}
		if len(hs) > 0 {
			ops = append(ops, fmt.Sprintf("dl setcursor %d", rng.Range(0, len(hs)-1)), fmt.Sprintf("dl draw %d %d", W, H))
		}
		for k := rng.Range(2, 7); k > 0; k-- {
			switch rng.Intn(6) {
			case 0, 1:
				hs = mk()
				ops = append(ops, "dl items "+hsStr(hs))
			case 2:
				ops = append(ops, fmt.Sprintf("dl pending %d", -rng.Range(1, 7)))
			case 3:
				ops = append(ops, fmt.Sprintf("dl pending %d", rng.Range(1, 7)))
			case 4:
				ops = append(ops, "dl wheeldown")
			default:
				ops = append(ops, "dl wheelup")
			}
			if rng.Chance(2, 3) {
				ops = append(ops, fmt.Sprintf("dl draw %d %d", W, H))
			}
			switch rng.Intn(4) {
			case 0:
				ops = append(ops, "dl next", fmt.Sprintf("dl draw %d %d", W, H))
			case 1:
				ops = append(ops, "dl prev", fmt.Sprintf("dl draw %d %d", W, H))
			case 2:
				if len(hs) > 0 {
					ops = append(ops, fmt.Sprintf("dl setcursor %d", rng.Range(0, len(hs)-1)), fmt.Sprintf("dl draw %d %d", W, H))
				}
			case 3:
				if rng.Chance(1, 4) {
					// a cursor far beyond the items: uint(len(items)-1) of an empty list, 2^63, len+k
					huge := gen.Pick(rng, []string{"18446744073709551615", "9223372036854775808", "9223372036854775807", fmt.Sprint(len(hs) + rng.Range(0, 3))})
					ops = append(ops, "dl setcursor "+huge, fmt.Sprintf("dl draw %d %d", W, H))
					r.Count("dl-replace-huge-cursor")
				}
			}
		}
		ops = append(ops, fmt.Sprintf("dl draw %d %d", W, H))
		run(ops)
		r.Count("dl-replace")
		r.Count(fmt.Sprintf("dl-replace-gap%d", gap))
	}
	// random long histories
	cases := 3000
	if r.Thorough {
		cases = 20000
	}
	for c := 0; c < cases; c++ {
		n := rng.Range(0, 12)
		if rng.Chance(1, 5) {
			n = rng.Range(0, 2)
		}
		mk := func(n int) []int {
			hs := make([]int, n)
			for i := range hs {
				hs[i] = rng.Range(1, 3)
				if rng.Chance(1, 10) {
					hs[i] = rng.Range(4, 9)
				}
			}
			return hs
		}
		hs := mk(n)
		gap := 0
		if rng.Chance(1, 2) {
			gap = rng.Range(1, 3)
		}
		dc := 0
		if rng.Chance(1, 3) {
			dc = 1
		}
		H := rng.Range(0, 8)
		ops := []string{fmt.Sprintf("dl new %d %d %s", gap, dc, hsStr(hs))}
		for k := rng.Range(4, 30); k > 0; k-- {
			switch rng.Intn(16) {
			case 0, 1, 2:
				ops = append(ops, "dl next")
			case 3, 4:
				ops = append(ops, "dl prev")
			case 5:
				ops = append(ops, "dl keyj")
			case 6:
				if rng.Chance(1, 3) {
					ops = append(ops, "dl keyk")
				} else {
					kinds := []string{"j", "down", "k", "up", "x", "wheeldown", "wheelup", "left", "keytohandle", "mousetocapture", "focus"}
					k := kinds[rng.Intn(len(kinds))]
					if rng.Chance(1, 5) {
						ops = append(ops, "dl dev "+k)
						r.Count("dl-event-disabled")
					} else {
						ops = append(ops, "dl ev "+k)
						r.Count("dl-event-" + k)
					}
				}
			case 7:
				ops = append(ops, "dl wheeldown")
			case 8:
				ops = append(ops, "dl wheelup")
			case 9:
				ops = append(ops, fmt.Sprintf("dl setcursor %d", rng.Range(0, n+1)))
			case 10:
				ops = append(ops, fmt.Sprintf("dl pending %d", rng.Range(-6, 6)))
			case 11:
				if rng.Chance(2, 3) {
					n = rng.Range(0, 12)
					hs = mk(n)
					ops = append(ops, "dl items "+hsStr(hs))
				}
			default:
				if rng.Chance(1, 6) {
					H = rng.Range(0, 8)
				}
				ops = append(ops, fmt.Sprintf("dl draw 4 %d", H))
			}
		}
		ops = append(ops, fmt.Sprintf("dl draw 4 %d", H))
		run(ops)
		r.Count("dl-random")
	}
}
