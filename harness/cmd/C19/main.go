package main

// C19 lists and pagers: the real widgets are driven through their public API; what they draw is
// read back from the next-frame screen of a fake-console Vaxis (hook VerifC19Screen), the vxfw
// dynamic list is driven through Draw with fixed-height stub widgets.
//
// Every case is a list of self-contained textual ops (see lean/VaxisModel/Driver/C19.lean), executed
// by `env.exec`; generators only produce op lists, so corpus files and replays take the same path.

import (
	"encoding/hex"
	"fmt"
	"strconv"
	"strings"

	"git.sr.ht/~rockorager/vaxis"
	"git.sr.ht/~rockorager/vaxis/widgets/list"
	"git.sr.ht/~rockorager/vaxis/widgets/pager"
	"git.sr.ht/~rockorager/vaxis/widgets/scrollbar"
	"verifharness/fakeconsole"
	"verifharness/gen"
	"verifharness/hx"
)

const (
	scrW = 16
	scrH = 12
)

type env struct {
	r    *hx.Run
	vx   *vaxis.Vaxis
	dead bool // the current case's widget panicked: remaining ops are not executed
	sl   *list.List
	pg   *pager.Model
	dl   *dynState
}

var slDeep uint64

// slKeep: the quick tier keeps everything; the thorough tier keeps every history shorter than 4, one in 4 of length
// 4 and 5, one in 16 of the longer ones.
func slKeep(thorough bool, seed uint64, n int) bool {
	if !thorough || n < 4 {
		return true
	}
	slDeep++
	stride := uint64(4)
	if n >= 6 {
		stride = 16
	}
	return (slDeep+seed)%stride == 0
}

func main() { hx.Main("C19", run) }

func run(r *hx.Run) error {
	fc := fakeconsole.New(scrW, scrH, fakeconsole.FromMask(0))
	vx, err := vaxis.New(vaxis.Options{WithConsole: fc, NoSignals: true})
	if err != nil {
		return err
	}
	defer vx.Close()
	e := &env{r: r, vx: vx}
	if r.Replay != "" {
		return hx.ReplayOps(r, e.exec)
	}
	for i, ops := range hx.Corpus("C19") {
		e.runCase(fmt.Sprintf("corpus-%d", i), ops)
		r.Count("corpus")
	}
	rng := gen.New(r.Seed)
	genSimpleList(e, rng.Fork(1))
	genPager(e, rng.Fork(2))
	genScrollbar(e, rng.Fork(3))
	genDyn(e, rng.Fork(4))
	return nil
}

func (e *env) reset() {
	e.dead = false
	e.sl, e.pg, e.dl = nil, nil, nil
}

// runCase executes one case; after a panic the rest of the case is dropped (the widget's state is
// undefined, nothing more is compared).
func (e *env) runCase(id string, ops []string) {
	e.reset()
	e.r.Case(id)
	for _, op := range ops {
		if strings.HasPrefix(op, "#case") {
			continue
		}
		res, ok := e.exec(strings.Fields(op))
		if !ok {
			res = "bad-op"
		}
		e.r.Emit(op, res)
		if e.dead {
			e.r.Count("panicked-cases")
			return
		}
	}
}

func atoi(s string) int { n, _ := strconv.Atoi(s); return n }

// exec runs one op on the real code and returns the implementation's result.
func (e *env) exec(op []string) (string, bool) {
	if len(op) == 0 {
		return "", false
	}
	if op[0] == "#case" {
		e.reset()
		return "-", true
	}
	if e.dead {
		return "-", true
	}
	switch op[0] {
	case "sl":
		return e.execSL(op[1:])
	case "pg":
		return e.execPG(op[1:])
	case "sb":
		return e.execSB(op[1:])
	case "dl":
		return e.execDL(op[1:])
	}
	return "", false
}

// window returns a cleared w×h window at the screen's origin.
func (e *env) window(w, h int) vaxis.Window {
	root := e.vx.Window()
	root.Clear()
	return root.New(0, 0, w, h)
}

// ---------------------------------------------------------------------- widgets/list

func items(n int) []string {
	out := make([]string, n)
	for i := range out {
		out[i] = strconv.Itoa(i)
	}
	return out
}

func (e *env) execSL(op []string) (string, bool) {
	if len(op) == 0 {
		return "", false
	}
	if op[0] == "new" && len(op) == 2 {
		l := list.New(items(atoi(op[1])))
		e.sl = &l
		return fmt.Sprintf("idx=%d", e.sl.Index()), true
	}
	if e.sl == nil {
		return "", false
	}
	l := e.sl
	var out string
	ok := true
	panicked, msg := hx.Guard(func() {
		switch {
		case op[0] == "down" && len(op) == 1:
			l.Down()
		case op[0] == "up" && len(op) == 1:
			l.Up()
		case op[0] == "home" && len(op) == 1:
			l.Home()
		case op[0] == "end" && len(op) == 1:
			l.End()
		case op[0] == "pgdn" && len(op) == 2:
			l.PageDown(e.window(6, atoi(op[1])))
		case op[0] == "pgup" && len(op) == 2:
			l.PageUp(e.window(6, atoi(op[1])))
		case op[0] == "set" && len(op) == 2:
			l.SetItems(items(atoi(op[1])))
		case op[0] == "draw" && len(op) == 2:
			h := atoi(op[1])
			win := e.window(6, h)
			l.Draw(win)
			out = " rows=" + e.listRows(h)
		default:
			ok = false
		}
	})
	if !ok {
		return "", false
	}
	if panicked {
		e.dead = true
		e.r.Count("panic: " + msg)
		return "panic", true
	}
	return fmt.Sprintf("idx=%d", l.Index()) + out, true
}

// listRows reads rows 0..h-1 of the screen: the decimal item name at column 0 and whether the
// first cell is drawn reversed.
func (e *env) listRows(h int) string {
	if h == 0 {
		return "."
	}
	scr := e.vx.VerifC19Screen()
	var rows []string
	for r := 0; r < h; r++ {
		name := ""
		for c := 0; c < 6; c++ {
			g := scr[r][c].Grapheme
			if g == "" || g == " " {
				break
			}
			name += g
		}
		switch {
		case name == "":
			rows = append(rows, "-")
		case scr[r][0].Attribute&vaxis.AttrReverse != 0:
			rows = append(rows, name+"*")
		default:
			rows = append(rows, name)
		}
	}
	return strings.Join(rows, ",")
}

// ---------------------------------------------------------------------- widgets/pager

var textStyle = vaxis.Style{Foreground: vaxis.IndexColor(2)}

func tokensOf(segs []string) string {
	var toks []string
	for i, s := range segs {
		if i > 0 {
			toks = append(toks, "|")
		}
		for _, ch := range vaxis.Characters(s) {
			toks = append(toks, hex.EncodeToString([]byte(ch.Grapheme))+":"+strconv.Itoa(ch.Width))
		}
	}
	return strings.Join(toks, " ")
}

func cellHex(c vaxis.Cell) string {
	if (c.Grapheme == " " || c.Grapheme == "") && c.Style == (vaxis.Style{}) {
		return "~"
	}
	return hex.EncodeToString([]byte(c.Grapheme))
}

func linesCanon(ls [][]string) string {
	if len(ls) == 0 {
		return "-"
	}
	out := make([]string, len(ls))
	for i, l := range ls {
		if len(l) == 0 {
			out[i] = "_"
		} else {
			out[i] = strings.Join(l, ".")
		}
	}
	return strings.Join(out, "/")
}

func (e *env) pagerLines() string {
	var ls [][]string
	for _, l := range e.pg.VerifLines() {
		var row []string
		for _, c := range l {
			row = append(row, hex.EncodeToString([]byte(c.Grapheme)))
		}
		ls = append(ls, row)
	}
	return linesCanon(ls)
}

func (e *env) execPG(op []string) (string, bool) {
	if len(op) == 0 {
		return "", false
	}
	if e.pg == nil {
		e.pg = &pager.Model{}
	}
	m := e.pg
	var out string
	ok := true
	panicked, msg := hx.Guard(func() {
		switch {
		case op[0] == "text":
			var segs []vaxis.Segment
			cur := ""
			for _, t := range op[1:] {
				if t == "|" {
					segs = append(segs, vaxis.Segment{Text: cur, Style: textStyle})
					cur = ""
					continue
				}
				b, err := hex.DecodeString(strings.SplitN(t, ":", 2)[0])
				if err != nil {
					ok = false
					return
				}
				cur += string(b)
			}
			segs = append(segs, vaxis.Segment{Text: cur, Style: textStyle})
			m.Segments = segs
			out = "-"
		case op[0] == "layout" && len(op) == 1:
			m.Layout()
			out = "lines=" + e.pagerLines()
		case op[0] == "draw" && len(op) == 3:
			w, h := atoi(op[1]), atoi(op[2])
			win := e.window(w, h)
			m.Draw(win)
			scr := e.vx.VerifC19Screen()
			var rows [][]string
			for r := 0; r < h; r++ {
				var row []string
				for c := 0; c < w; c++ {
					row = append(row, cellHex(scr[r][c]))
				}
				rows = append(rows, row)
			}
			out = fmt.Sprintf("off=%d lines=%s rows=%s", m.Offset, e.pagerLines(), linesCanon(rows))
		case op[0] == "down" && len(op) == 1:
			m.ScrollDown()
			out = fmt.Sprintf("off=%d", m.Offset)
		case op[0] == "up" && len(op) == 1:
			m.ScrollUp()
			out = fmt.Sprintf("off=%d", m.Offset)
		case op[0] == "off" && len(op) == 2:
			m.Offset = atoi(op[1])
			out = fmt.Sprintf("off=%d", m.Offset)
		default:
			ok = false
		}
	})
	if !ok {
		return "", false
	}
	if panicked {
		e.dead = true
		e.r.Count("panic: " + msg)
		return "panic", true
	}
	return out, true
}

// ---------------------------------------------------------------------- widgets/scrollbar

func (e *env) execSB(op []string) (string, bool) {
	if len(op) != 4 {
		return "", false
	}
	m := &scrollbar.Model{TotalHeight: atoi(op[0]), ViewHeight: atoi(op[1]), Top: atoi(op[2])}
	h := atoi(op[3])
	var out string
	panicked, msg := hx.Guard(func() {
		win := e.window(2, h)
		m.Draw(win)
		scr := e.vx.VerifC19Screen()
		var rows []string
		for r := 0; r < scrH; r++ {
			for c := 0; c < scrW; c++ {
				if scr[r][c].Grapheme == "▐" {
					if c != 0 {
						rows = append(rows, "col"+strconv.Itoa(c))
					} else {
						rows = append(rows, strconv.Itoa(r))
					}
				}
			}
		}
		if len(rows) == 0 {
			out = "rows=-"
		} else {
			out = "rows=" + strings.Join(rows, ",")
		}
	})
	if panicked {
		e.r.Count("panic: " + msg)
		return "panic", true
	}
	return out, true
}

// ---------------------------------------------------------------------- generators

func genSimpleList(e *env, rng *gen.Rng) {
	r := e.r
	id := 0
	emit := func(n, h int, seq []string) {
		ops := append([]string{fmt.Sprintf("sl new %d", n)}, seq...)
		ops = append(ops, fmt.Sprintf("sl draw %d", h))
		e.runCase(fmt.Sprintf("sl-%d", id), ops)
		id++
	}
	alphabet := func(n, h int, full bool) []string {
		a := []string{"sl down", "sl up", "sl end", fmt.Sprintf("sl pgdn %d", h), fmt.Sprintf("sl draw %d", h), "sl set 0", "sl set 2"}
		if full {
			a = append(a, "sl home", fmt.Sprintf("sl pgup %d", h), fmt.Sprintf("sl set %d", n+1))
		}
		return a
	}
	var rec func(n, h int, alpha []string, seq []string, depth int)
	rec = func(n, h int, alpha []string, seq []string, depth int) {
		// Case cap of the thorough tier (it is also the search the check falls back to): histories of length >= 4 are
		// sub-sampled with a stride whose phase is the seed, so that a run stays near 3 M lines (the check keeps every
		// mismatching line in memory) while different seeds visit different histories.
		if slKeep(r.Thorough, r.Seed, len(seq)) {
			emit(n, h, seq)
			r.Count(fmt.Sprintf("sl-exhaustive-len%d", len(seq)))
		}
		if depth == 0 {
			return
		}
		for _, a := range alpha {
			rec(n, h, alpha, append(append([]string{}, seq...), a), depth-1)
		}
	}
	// bounded-exhaustive: every (count, viewport) with every sequence over the full alphabet up to
	// length lenFull, and over the reduced alphabet up to length lenRed on a sub-grid
	lenFull, lenRed, lenTiny := 3, 5, 0
	if r.Thorough {
		lenFull, lenRed, lenTiny = 4, 6, 7
	}
	for n := 0; n <= 4; n++ {
		for h := 0; h <= 5; h++ {
			rec(n, h, alphabet(n, h, true), nil, lenFull)
		}
	}
	for _, n := range []int{0, 1, 3} {
		for _, h := range []int{0, 1, 2} {
			rec(n, h, alphabet(n, h, false)[:6], nil, lenRed)
		}
	}
	if lenTiny > 0 {
		// thorough: length-7 histories over {down, up, end, draw, set 0} on the smallest lists
		for _, n := range []int{0, 1} {
			for _, h := range []int{0, 1} {
				a := alphabet(n, h, false)
				rec(n, h, []string{a[0], a[1], a[2], a[4], a[5]}, nil, lenTiny)
			}
		}
	}
	// random long histories
	cases := 1500
	if r.Thorough {
		cases = 10000
	}
	for c := 0; c < cases; c++ {
		n := rng.Range(0, 40)
		if rng.Chance(1, 4) {
			n = rng.Range(0, 3)
		}
		var seq []string
		for k := rng.Range(5, 40); k > 0; k-- {
			h := rng.Range(0, 8)
			switch rng.Intn(12) {
			case 0, 1, 2:
				seq = append(seq, "sl down")
			case 3, 4:
				seq = append(seq, "sl up")
			case 5:
				seq = append(seq, "sl home")
			case 6:
				seq = append(seq, "sl end")
			case 7:
				seq = append(seq, fmt.Sprintf("sl pgdn %d", h))
			case 8:
				seq = append(seq, fmt.Sprintf("sl pgup %d", h))
			case 9:
				seq = append(seq, fmt.Sprintf("sl set %d", rng.Range(0, 40)))
			default:
				seq = append(seq, fmt.Sprintf("sl draw %d", h))
			}
		}
		emit(n, rng.Range(0, 8), seq)
		r.Count("sl-random")
	}
}

var pieces = []string{"a", "b", " ", "\n", "世", "\r\n", "é", "👍", "c"}

func genPager(e *env, rng *gen.Rng) {
	r := e.r
	id := 0
	run := func(ops []string) {
		e.runCase(fmt.Sprintf("pg-%d", id), ops)
		id++
	}
	// bounded-exhaustive texts of up to 4 pieces over {a, b, space, newline, wide}; every width 0..4
	// and height 0..3; one draw each
	maxLen := 4
	np := 5
	var rec func(text string, depth int)
	rec = func(text string, depth int) {
		for w := 0; w <= 4; w++ {
			for h := 0; h <= 3; h++ {
				if !r.Thorough && (w+h+len(text))%3 != 0 && len(text) > 2 {
					continue // quick tier: a third of the (w,h) grid for the longer texts
				}
				run([]string{"pg text " + tokensOf([]string{text}), fmt.Sprintf("pg draw %d %d", w, h)})
				r.Count("pg-exhaustive")
			}
		}
		if depth == 0 {
			return
		}
		for _, p := range pieces[:np] {
			rec(text+p, depth-1)
		}
	}
	rec("", maxLen)
	// random texts and op sequences
	cases := 2000
	if r.Thorough {
		cases = 15000
	}
	randText := func() []string {
		nseg := 1
		if rng.Chance(1, 4) {
			nseg = rng.Range(2, 3)
		}
		segs := make([]string, nseg)
		for i := range segs {
			for k := rng.Range(0, 14); k > 0; k-- {
				segs[i] += gen.Pick(rng, pieces)
			}
			if rng.Chance(1, 3) {
				segs[i] = strings.TrimRight(segs[i], "\n")
			}
		}
		return segs
	}
	for c := 0; c < cases; c++ {
		ops := []string{"pg text " + tokensOf(randText())}
		w := rng.Range(0, 8)
		for k := rng.Range(1, 10); k > 0; k-- {
			switch rng.Intn(10) {
			case 0, 1, 2, 3:
				if rng.Chance(1, 4) {
					w = rng.Range(0, 8)
				}
				ops = append(ops, fmt.Sprintf("pg draw %d %d", w, rng.Range(0, 6)))
			case 4, 5:
				ops = append(ops, "pg down")
			case 6:
				ops = append(ops, "pg up")
			case 7:
				ops = append(ops, fmt.Sprintf("pg off %d", rng.Range(-3, 12)))
			case 8:
				ops = append(ops, "pg text "+tokensOf(randText()), "pg layout")
			default:
				ops = append(ops, "pg layout")
			}
		}
		ops = append(ops, fmt.Sprintf("pg draw %d %d", w, rng.Range(1, 6)))
		run(ops)
		r.Count("pg-random")
	}
}

func genScrollbar(e *env, rng *gen.Rng) {
	r := e.r
	var ops []string
	flush := func() {
		if len(ops) > 0 {
			e.runCase(fmt.Sprintf("sb-%d", r.Cases()), ops)
			ops = nil
		}
	}
	for total := -1; total <= 6; total++ {
		for view := -1; view <= 7; view++ {
			for top := -2; top <= 7; top++ {
				for h := 0; h <= 5; h++ {
					ops = append(ops, fmt.Sprintf("sb %d %d %d %d", total, view, top, h))
					r.Count("sb-exhaustive")
					if len(ops) == 200 {
						flush()
					}
				}
			}
		}
	}
	for i := 0; i < 3000; i++ {
		total := rng.Range(1, 500)
		view := rng.Range(1, total)
		top := rng.Range(0, total-view)
		ops = append(ops, fmt.Sprintf("sb %d %d %d %d", total, view, top, rng.Range(1, scrH)))
		r.Count("sb-random-valid")
		if len(ops) == 200 {
			flush()
		}
	}
	flush()
}
