package main

import (
	"fmt"
	"strconv"
	"strings"

	"git.sr.ht/~rockorager/vaxis"
	"verifharness/gen"
	"verifharness/hx"
)

// C20 images: fit / aspect / pixels / placement bookkeeping.  Every op is self-contained given the
// ops of its case before it, and is executed by execOp both when generating and when replaying.
func main() { hx.Main("C20", runC20) }

type session struct {
	r *hx.Run
}

func (s *session) reset() {}

func atoi(s string) int { n, _ := strconv.Atoi(s); return n }

func ints(f []string) ([]int, bool) {
	out := make([]int, len(f))
	for i, x := range f {
		n, err := strconv.Atoi(x)
		if err != nil {
			return nil, false
		}
		out[i] = n
	}
	return out, true
}

func (s *session) execOp(f []string) (string, bool) {
	if len(f) == 0 {
		return "", false
	}
	switch f[0] {
	case "#case":
		s.reset()
		return "-", true
	case "dims":
		a, ok := ints(f[1:])
		if !ok || len(a) != 6 {
			return "", false
		}
		var nw, nh int
		if p, msg := hx.Guard(func() { nw, nh = vaxis.VerifResizeDims(a[0], a[1], a[2], a[3], a[4], a[5]) }); p {
			s.r.Count("dims-panic: " + msg)
			return "panic", true
		}
		return fmt.Sprintf("%d %d", nw, nh), true
	}
	return "", false
}

var geoms = [][2]int{{1, 2}, {8, 16}, {10, 20}}

func ceilDiv(x, c int) int { return (x + c - 1) / c }

func runC20(r *hx.Run) error {
	s := &session{r: r}
	do := func(op string) {
		res, ok := s.execOp(strings.Fields(op))
		if !ok {
			res = "bad-op"
		}
		r.Emit(op, res)
	}
	if r.Replay != "" {
		return hx.ReplayOps(r, s.execOp)
	}
	for i, c := range hx.Corpus("C20") {
		if len(c) == 0 || !strings.HasPrefix(c[0], "#case") {
			do(fmt.Sprintf("#case corpus%d", i))
		}
		for _, op := range c {
			do(op)
		}
		r.Count("corpus")
	}
	rng := gen.New(r.Seed)
	genDims(r, rng.Fork(1), do)
	return nil
}

// classify counts the input classes of one dims case.
func classify(r *hx.Run, wPix, hPix, w, h, cw, ch int) (coincide bool) {
	columns, lines := ceilDiv(wPix, cw), ceilDiv(hPix, ch)
	switch {
	case columns <= w && lines <= h:
		r.Count("dims-fits")
	case w*lines == h*columns:
		r.Count("dims-scale-factors-coincide")
		return true
	case w*lines < h*columns:
		r.Count("dims-width-binds")
	default:
		r.Count("dims-height-binds")
	}
	return false
}

func genDims(r *hx.Run, rng *gen.Rng, do func(string)) {
	one := func(wPix, hPix, w, h int) {
		do(fmt.Sprintf("#case d:%d,%d,%d,%d", wPix, hPix, w, h))
		for _, g := range geoms {
			classify(r, wPix, hPix, w, h, g[0], g[1])
			do(fmt.Sprintf("dims %d %d %d %d %d %d", wPix, hPix, w, h, g[0], g[1]))
		}
	}
	const N = 24
	if r.Thorough {
		for wPix := 1; wPix <= N; wPix++ {
			for hPix := 1; hPix <= N; hPix++ {
				for w := 1; w <= N; w++ {
					for h := 1; h <= N; h++ {
						one(wPix, hPix, w, h)
					}
				}
			}
		}
		r.Note("exhaustive", true)
		r.Note("dims-space", "all (wPix,hPix,w,h) in [1,24]^4 x cell geometries {1x2,8x16,10x20}")
	} else {
		// every case of [1,12]^4 in which the two scale factors coincide for some geometry, plus a sample
		for wPix := 1; wPix <= N; wPix++ {
			for hPix := 1; hPix <= N; hPix++ {
				for w := 1; w <= N; w++ {
					for h := 1; h <= N; h++ {
						co := false
						if wPix <= 12 && hPix <= 12 && w <= 12 && h <= 12 {
							for _, g := range geoms {
								columns, lines := ceilDiv(wPix, g[0]), ceilDiv(hPix, g[1])
								if !(columns <= w && lines <= h) && w*lines == h*columns {
									co = true
								}
							}
						}
						if co || rng.Chance(1, 40) {
							one(wPix, hPix, w, h)
						}
					}
				}
			}
		}
	}
	// realistic sizes: images up to 160x160 px, boxes up to 40x20, common cell geometries
	big := [][2]int{{8, 16}, {10, 20}, {9, 18}, {7, 15}, {1, 2}, {12, 24}, {1, 1}, {16, 8}}
	n := 600
	if r.Thorough {
		n = 6000
	}
	for i := 0; i < n; i++ {
		g := gen.Pick(rng, big)
		wPix, hPix := rng.Range(1, 160), rng.Range(1, 160)
		w, h := rng.Range(0, 40), rng.Range(0, 20)
		if rng.Chance(1, 4) {
			// force coinciding scale factors: box = cells / k
			k := rng.Range(2, 4)
			columns, lines := ceilDiv(wPix, g[0]), ceilDiv(hPix, g[1])
			columns, lines = (columns/k+1)*k, (lines/k+1)*k
			wPix, hPix = columns*g[0], lines*g[1]
			w, h = columns/k, lines/k
		}
		do(fmt.Sprintf("#case D:%d", i))
		classify(r, wPix, hPix, w, h, g[0], g[1])
		if w == 0 || h == 0 {
			r.Count("dims-empty-box")
		}
		do(fmt.Sprintf("dims %d %d %d %d %d %d", wPix, hPix, w, h, g[0], g[1]))
	}
	// zero cell geometry (F52)
	for i, z := range [][2]int{{0, 16}, {8, 0}, {0, 0}, {0, 1}} {
		do(fmt.Sprintf("#case Z:%d", i))
		do(fmt.Sprintf("dims %d %d %d %d %d %d", 16, 16, 4, 4, z[0], z[1]))
		r.Count("dims-zero-cell")
	}
}
