package main

import (
	"bytes"
	"encoding/base64"
	"encoding/hex"
	"fmt"
	"image"
	"image/color"
	"image/png"
	"regexp"
	"strconv"
	"strings"
	"time"

	"git.sr.ht/~rockorager/vaxis"
	"verifharness/fakeconsole"
	"verifharness/gen"
	"verifharness/hx"
)

// C20 images: fit / aspect / pixels / placement bookkeeping.  Every op is self-contained given the
// ops of its case before it, and is executed by execOp both when generating and when replaying.
//
//	dims wPix hPix w h cellW cellH          real resizeImage on a bounds-only image  => "newW newH" | panic
//	torgb pr pg pb pa                       toRGB(color.RGBA64)                       => "r g b a"
//	nrgba r g b a / rgba r g b a            toRGB(color.NRGBA / color.RGBA)           => "r g b a"
//	avg pr pg pb pa pr pg pb pa ...         averageColor(first, rest...) (RGBA64)     => "r g b a"
//	half|full W H HEX bw bh col row ww wh   NRGBA image WxH (HEX = 4 bytes/pixel), New*BlockImage, Resize(bw,bh),
//	                                        Draw into Window().New(col,row,ww,wh) of a cleared 16x8 screen
//	                                        => "cw ch;x,y:glyph:fg:bg;..." (cells differing from the cleared cell)
//	knew W H XPIX YPIX                      new Vaxis on a fake console reporting that size (in-band resize)
//	kimg N wPix hPix                        vx.NewKittyGraphic of an NRGBA image         => image id   (kimgs: of a crop of a larger image; kimgo: opaque — the transmitted PNG's pixels are compared with the model's)
//	kresize N w h                           Resize + wait for the encoder               => "cw ch" | "cw ch noencode" | panic
//	simg N wPix hPix / sresize N w h        the same for vx.NewSixel (ids are shared with kitty images)
//	sdraw N col row ww wh                   sixel.Draw(Window().New(col,row,ww,wh)): not drawn if larger than the window
//	kdraw N col row [ww wh]                 img.Draw(Window().New(col,row,ww,wh)), default -1,-1; not placed if larger than the window (F120 repaired)
//	kclear                                  Window().Clear()
//	krender | krefresh                      Render() / Refresh(); graphics sequences parsed from the console output
//	   placement ops => [D=.. W=.. U=.. Q=.. ]N=.. L=.. R=0|1   (deleted, written, uploaded; all graphics commands in the order written; next list, last list, refresh flag)
func main() { hx.Main("C20", runC20) }

const (
	screenW = 16
	screenH = 8
)

type session struct {
	r    *hx.Run
	bvx  *vaxis.Vaxis // shared block-image Vaxis
	kvx  *vaxis.Vaxis // kitty session
	kfc  *fakeconsole.Console
	imgs map[int]*vaxis.KittyImage
	simgs map[int]*vaxis.Sixel
	imgDims map[int][2]int
}

// resizedPx: the cell pixel size the real code uses (cellPixelSize) and the pixel size of the image the real
// resizeImage returns for it: "px=<w>x<h> cell=<w>x<h>" (what CellSize() has to cover).
func (s *session) resizedPx(d [2]int, w, h int) string {
	gw, gh := s.kvx.VerifC20CellPixelSize()
	pw, ph := -1, -1
	hx.Guard(func() { pw, ph = vaxis.VerifResizeDims(d[0], d[1], w, h, gw, gh) })
	return fmt.Sprintf("px=%dx%d cell=%dx%d", pw, ph, gw, gh)
}

func (s *session) reset() {
	if s.kvx != nil {
		s.kvx.Close()
		s.kvx, s.kfc = nil, nil
	}
	s.imgs = map[int]*vaxis.KittyImage{}
	s.simgs = map[int]*vaxis.Sixel{}
	s.imgDims = map[int][2]int{}
}

func (s *session) closeAll() {
	s.reset()
	if s.bvx != nil {
		s.bvx.Close()
		s.bvx = nil
	}
}

func ints(f []string) ([]int, bool) {
	out := make([]int, len(f))
	for i, x := range f {
		n, err := strconv.Atoi(x)
		if err != nil {
			return nil, false
		}
		out[i] = n
	}
	return out, true
}

func rgba4(r, g, b, a uint8) string { return fmt.Sprintf("%d %d %d %d", r, g, b, a) }

func (s *session) blockVx() *vaxis.Vaxis {
	if s.bvx == nil {
		fc := fakeconsole.New(screenW, screenH, fakeconsole.FromMask(0))
		vx, err := vaxis.New(vaxis.Options{WithConsole: fc, NoSignals: true})
		if err != nil {
			panic(err)
		}
		s.bvx = vx
	}
	return s.bvx
}

func fmtCell(c vaxis.Cell) string {
	g := hx.Hex(c.Grapheme)
	extra := ""
	st := c.Style
	st.Foreground, st.Background = 0, 0
	if st != (vaxis.Style{}) {
		extra = "!style"
	}
	if c.Grapheme != "" && c.Width != 1 {
		extra += fmt.Sprintf("!w%d", c.Width)
	}
	return fmt.Sprintf("%s:%d:%d%s", g, uint32(c.Foreground), uint32(c.Background), extra)
}

func (s *session) block(kind string, a []int, hexpix string) (string, bool) {
	if len(a) != 8 {
		return "", false
	}
	W, H, bw, bh, col, row, ww, wh := a[0], a[1], a[2], a[3], a[4], a[5], a[6], a[7]
	pix, err := hex.DecodeString(hexpix)
	if err != nil || len(pix) != 4*W*H || W < 1 || H < 1 {
		return "", false
	}
	// half / full: an *image.NRGBA source (straight alpha); halfp / fullp: an *image.RGBA source (premultiplied)
	// round 4: halfg / fullg: an *image.Gray source (Y = the first byte of each pixel; the scaler's Gray fast path when
	// it is rescaled); halfq / fullq: an *image.Paletted source whose palette holds the distinct pixels as color.NRGBA
	// (the scaler's generic path scale_RGBA_Image_{Over,Src})
	var img image.Image
	if strings.HasSuffix(kind, "s") {
		// halfs / fulls (round 4, F420): the WxH pixels are a crop (SubImage) of a larger *image.NRGBA whose margin holds
		// other pixels: Bounds().Min is not the origin
		mx, my := 3+W%4, 2+H%3
		big := image.NewNRGBA(image.Rect(0, 0, W+mx+2, H+my+1))
		for i := range big.Pix {
			big.Pix[i] = uint8(91*i + 7)
		}
		for y := 0; y < H; y++ {
			copy(big.Pix[(y+my)*big.Stride+4*mx:], pix[4*y*W:4*(y+1)*W])
		}
		img = big.SubImage(image.Rect(mx, my, mx+W, my+H))
	} else if strings.HasSuffix(kind, "g") {
		im := image.NewGray(image.Rect(0, 0, W, H))
		for i := range im.Pix {
			im.Pix[i] = pix[4*i]
		}
		img = im
	} else if strings.HasSuffix(kind, "w") {
		// halfw / fullw: an opaque *image.NRGBA64 source (16 bits per channel: the byte of the op line is the high byte,
		// the low byte is derived from it), through the scaler's generic path
		im := image.NewNRGBA64(image.Rect(0, 0, W, H))
		for i := 0; i < W*H; i++ {
			for c := 0; c < 3; c++ {
				im.Pix[8*i+2*c] = pix[4*i+c]
				im.Pix[8*i+2*c+1] = pix[4*i+c] ^ 0x5a
			}
			im.Pix[8*i+6], im.Pix[8*i+7] = 0xff, 0xff
		}
		img = im
	} else if strings.HasSuffix(kind, "y") || strings.HasSuffix(kind, "z") || strings.HasSuffix(kind, "u") || strings.HasSuffix(kind, "v") {
		// halfy / fully: an *image.YCbCr 4:4:4 source, (Y, Cb, Cr) = the first three bytes of each pixel; halfz / fullz:
		// 4:2:0 (what most JPEGs decode to), halfu / fullu: 4:2:2, halfv / fullv: 4:4:0 — the chroma sample of a block
		// is taken from its top-left pixel
		ratio, sx, sy := image.YCbCrSubsampleRatio444, 1, 1
		switch kind[len(kind)-1] {
		case 'z':
			ratio, sx, sy = image.YCbCrSubsampleRatio420, 2, 2
		case 'u':
			ratio, sx, sy = image.YCbCrSubsampleRatio422, 2, 1
		case 'v':
			ratio, sx, sy = image.YCbCrSubsampleRatio440, 1, 2
		}
		im := image.NewYCbCr(image.Rect(0, 0, W, H), ratio)
		for y := 0; y < H; y++ {
			for x := 0; x < W; x++ {
				i := y*W + x
				im.Y[im.YOffset(x, y)] = pix[4*i]
				if x%sx == 0 && y%sy == 0 {
					im.Cb[im.COffset(x, y)] = pix[4*i+1]
					im.Cr[im.COffset(x, y)] = pix[4*i+2]
				}
			}
		}
		img = im
	} else if strings.HasSuffix(kind, "q") {
		var pal color.Palette
		idx := map[[4]byte]int{}
		im := image.NewPaletted(image.Rect(0, 0, W, H), nil)
		for i := range im.Pix {
			k := [4]byte{pix[4*i], pix[4*i+1], pix[4*i+2], pix[4*i+3]}
			j, ok := idx[k]
			if !ok {
				j = len(pal)
				if j > 255 {
					return "", false
				}
				idx[k] = j
				pal = append(pal, color.NRGBA{k[0], k[1], k[2], k[3]})
			}
			im.Pix[i] = uint8(j)
		}
		im.Palette = pal
		img = im
	} else if strings.HasSuffix(kind, "p") {
		im := image.NewRGBA(image.Rect(0, 0, W, H))
		copy(im.Pix, pix)
		img = im
	} else {
		im := image.NewNRGBA(image.Rect(0, 0, W, H))
		copy(im.Pix, pix)
		img = im
	}
	vx := s.blockVx()
	var out strings.Builder
	p, msg := hx.Guard(func() {
		vx.Window().Clear()
		var im vaxis.Image
		if strings.HasPrefix(kind, "half") {
			im = vx.NewHalfBlockImage(img)
		} else {
			im = vx.NewFullBlockImage(img)
		}
		im.Resize(bw, bh)
		cw, ch := im.CellSize()
		fmt.Fprintf(&out, "%d %d", cw, ch)
		im.Draw(vx.Window().New(col, row, ww, wh))
		clear := vaxis.Cell{Character: vaxis.Character{Grapheme: " ", Width: 1}}
		for y := 0; y < screenH; y++ {
			for x := 0; x < screenW; x++ {
				c, ok := vx.VerifC20CellAt(x, y)
				if !ok {
					fmt.Fprintf(&out, ";%d,%d:missing", x, y)
					continue
				}
				if c != clear {
					fmt.Fprintf(&out, ";%d,%d:%s", x, y, fmtCell(c))
				}
			}
		}
	})
	if p {
		s.r.Count("block-panic: " + msg)
		return "panic", true
	}
	return out.String(), true
}

var reGfx = regexp.MustCompile(`\x1b\[(\d+);(\d+)H|\x1b_Ga=p,i=(\d+),p=(\d+),C=1\x1b\\|\x1b_Ga=d,d=i,i=(\d+),p=(\d+)\x1b\\|\x1b_Gf=100,i=(\d+),m=(\d+);([^\x1b]*)\x1b\\|\x1b_G[^\x1b]*\x1b\\|(\x1bP[0-9;]*q)[^\x1b]*\x1b\\`)

// parseGfx extracts deletions, placements (with a check that the cursor was moved to the placement's cell first) and
// image uploads from what vaxis wrote, and (round 4) `Q=`: ALL graphics commands in the order they were written —
// `d<id>@<col>,<row>` (a=d of one placement), `p<id>@<col>,<row>` (a=p), `t<id>:<W>x<H>` (one complete transmission of
// image data: the chunks up to m=0 joined, base64-decoded, and the pixel size of the PNG they hold — followed by
// `#<digest>` of its pixels when the picture is opaque; `?` when they do not decode), `S@<col>,<row>` (sixel data at the cursor).  The driver runs an order-sensitive model of the terminal's
// image and placement tables on it (a delete after the a=p of the same placement id removes the new placement).
func parseGfx(b []byte) string {
	var d, w, u, q []string
	cupRow, cupCol := -1, -1
	lastUp := -1
	var payload strings.Builder
	for _, m := range reGfx.FindAllStringSubmatch(string(b), -1) {
		switch {
		case m[1] != "":
			cupRow, _ = strconv.Atoi(m[1])
			cupCol, _ = strconv.Atoi(m[2])
		case m[3] != "":
			id, _ := strconv.Atoi(m[3])
			pid, _ := strconv.Atoi(m[4])
			col, row := pid>>16, pid&0xffff
			e := fmt.Sprintf("%d@%d,%d", id, col, row)
			q = append(q, "p"+e)
			if cupRow != row+1 || cupCol != col+1 {
				e += fmt.Sprintf("!cursor-at-%d,%d", cupCol-1, cupRow-1)
			}
			w = append(w, e)
		case m[5] != "":
			id, _ := strconv.Atoi(m[5])
			pid, _ := strconv.Atoi(m[6])
			e := fmt.Sprintf("%d@%d,%d", id, pid>>16, pid&0xffff)
			d = append(d, e)
			q = append(q, "d"+e)
		case m[7] != "":
			id, _ := strconv.Atoi(m[7])
			if id != lastUp {
				u = append(u, strconv.Itoa(id))
				payload.Reset()
			}
			lastUp = id
			payload.WriteString(m[9])
			if m[8] == "0" {
				lastUp = -1
				dims := "?"
				if raw, err := base64.StdEncoding.DecodeString(payload.String()); err == nil {
					if cfg, err := png.DecodeConfig(bytes.NewReader(raw)); err == nil {
						dims = fmt.Sprintf("%dx%d", cfg.Width, cfg.Height)
					}
					// an opaque picture: FNV-1a over the 8-bit (R, G, B) of its pixels, row major (what the terminal shows)
					if im, err := png.Decode(bytes.NewReader(raw)); err == nil {
						h, opaque := uint32(2166136261), true
						b := im.Bounds()
						for y := b.Min.Y; y < b.Max.Y && opaque; y++ {
							for x := b.Min.X; x < b.Max.X; x++ {
								r, g, bl, al := im.At(x, y).RGBA()
								if al != 0xffff {
									opaque = false
									break
								}
								for _, c := range []uint32{r >> 8, g >> 8, bl >> 8} {
									h = (h ^ c) * 16777619
								}
							}
						}
						if opaque {
							dims += fmt.Sprintf("#%08x", h)
						}
					}
				}
				q = append(q, fmt.Sprintf("t%d:%s", id, dims))
				payload.Reset()
			}
		case m[10] != "":
			// sixel data is written at the cursor: identified by its cell
			w = append(w, fmt.Sprintf("S@%d,%d", cupCol-1, cupRow-1))
			q = append(q, fmt.Sprintf("S@%d,%d", cupCol-1, cupRow-1))
		default:
			w = append(w, "unknown-graphics-sequence:"+hx.Hex(m[0]))
			q = append(q, "unknown-graphics-sequence:"+hx.Hex(m[0]))
		}
	}
	if lastUp != -1 {
		q = append(q, fmt.Sprintf("t%d:unterminated", lastUp))
	}
	j := func(l []string) string {
		if len(l) == 0 {
			return "-"
		}
		return strings.Join(l, ";")
	}
	return fmt.Sprintf("D=%s W=%s U=%s Q=%s ", j(d), j(w), j(u), j(q))
}

func (s *session) snap() string {
	next, last, refresh := s.kvx.VerifPlacements()
	f := func(ps [][5]int) string {
		if len(ps) == 0 {
			return "-"
		}
		out := make([]string, len(ps))
		for i, p := range ps {
			out[i] = fmt.Sprintf("%d@%d,%d:%dx%d", p[0], p[1], p[2], p[3], p[4])
		}
		return strings.Join(out, ";")
	}
	r := 0
	if refresh {
		r = 1
	}
	return fmt.Sprintf("N=%s L=%s R=%d", f(next), f(last), r)
}

func (s *session) execOp(f []string) (string, bool) {
	if len(f) == 0 {
		return "", false
	}
	switch f[0] {
	case "#case":
		s.reset()
		return "-", true
	case "dims", "dimsi":
		a, ok := ints(f[1:])
		if !ok || len(a) != 6 {
			return "", false
		}
		var nw, nh int
		if p, msg := hx.Guard(func() { nw, nh = vaxis.VerifResizeDims(a[0], a[1], a[2], a[3], a[4], a[5]) }); p {
			s.r.Count("dims-panic: " + msg)
			return "panic", true
		}
		return fmt.Sprintf("%d %d", nw, nh), true
	case "torgb", "nrgba", "rgba":
		a, ok := ints(f[1:])
		if !ok || len(a) != 4 {
			return "", false
		}
		var c color.Color
		switch f[0] {
		case "torgb":
			c = color.RGBA64{uint16(a[0]), uint16(a[1]), uint16(a[2]), uint16(a[3])}
		case "nrgba":
			c = color.NRGBA{uint8(a[0]), uint8(a[1]), uint8(a[2]), uint8(a[3])}
		default:
			c = color.RGBA{uint8(a[0]), uint8(a[1]), uint8(a[2]), uint8(a[3])}
		}
		var res string
		if p, _ := hx.Guard(func() { res = rgba4(vaxis.VerifToRGB(c)) }); p {
			return "panic", true
		}
		return res, true
	case "avg":
		a, ok := ints(f[1:])
		if !ok || len(a) < 4 || len(a)%4 != 0 {
			return "", false
		}
		var cs []color.Color
		for i := 0; i < len(a); i += 4 {
			cs = append(cs, color.RGBA64{uint16(a[i]), uint16(a[i+1]), uint16(a[i+2]), uint16(a[i+3])})
		}
		var res string
		if p, _ := hx.Guard(func() { res = rgba4(vaxis.VerifAverageColor(cs[0], cs[1:]...)) }); p {
			return "panic", true
		}
		return res, true
	case "half", "full", "halfp", "fullp", "halfg", "fullg", "halfq", "fullq", "halfy", "fully", "halfz", "fullz", "halfu", "fullu", "halfv", "fullv", "halfw", "fullw", "halfs", "fulls":
		if len(f) != 10 {
			return "", false
		}
		a, ok := ints(append(append([]string{}, f[1:3]...), f[4:]...))
		if !ok {
			return "", false
		}
		return s.block(f[0], a, f[3])
	case "knew":
		a, ok := ints(f[1:])
		if !ok || len(a) != 4 {
			return "", false
		}
		s.reset()
		// capabilities: kittyGraphics (bit 5) + inBandResize (bit 14): the in-band report carries the pixel size
		fc := fakeconsole.New(a[0], a[1], fakeconsole.FromMask(1<<5|1<<14))
		fc.XPix, fc.YPix = a[2], a[3]
		vx, err := vaxis.New(vaxis.Options{WithConsole: fc, NoSignals: true})
		if err != nil {
			return "error:" + hx.Hex(err.Error()), true
		}
		s.kvx, s.kfc = vx, fc
		fc.Take()
		return s.snap(), true
	}
	if s.kvx == nil {
		return "", false
	}
	switch f[0] {
	case "kimg", "kimgs", "kimgo":
		a, ok := ints(f[1:])
		if !ok || len(a) != 3 || a[1] < 1 || a[2] < 1 {
			return "", false
		}
		// kimgs (round 4, F420): the image is a crop (SubImage) of a larger one, its bounds do not start at the origin
		mx, my := 0, 0
		if f[0] == "kimgs" {
			mx, my = 5+a[1]%7, 3+a[2]%5
		}
		big := image.NewNRGBA(image.Rect(0, 0, a[1]+mx, a[2]+my))
		for i := range big.Pix {
			big.Pix[i] = uint8(37*i + 11*a[0] + 200)
			// kimgo (round 4): an opaque image — the PNG transmitted for it is compared pixel by pixel (as a digest) with
			// the model's nearest-neighbour scaling
			if f[0] == "kimgo" && i%4 == 3 {
				big.Pix[i] = 255
			}
		}
		var img image.Image = big
		if f[0] == "kimgs" {
			img = big.SubImage(image.Rect(mx, my, mx+a[1], my+a[2]))
		}
		s.imgs[a[0]] = s.kvx.NewKittyGraphic(img)
		s.imgDims[a[0]] = [2]int{a[1], a[2]}
		return "ok", true
	case "kresize":
		a, ok := ints(f[1:])
		if !ok || len(a) != 3 || s.imgs[a[0]] == nil {
			return "", false
		}
		im := s.imgs[a[0]]
		if p, msg := hx.Guard(func() { im.Resize(a[1], a[2]) }); p {
			s.r.Count("kresize-panic: " + msg)
			return "panic", true
		}
		px := s.resizedPx(s.imgDims[a[0]], a[1], a[2])
		// the encoder goroutine clears the `encoding` flag when it is done (Draw is a no-op before)
		deadline := time.Now().Add(10 * time.Second)
		for {
			enc, pending := im.VerifC20State()
			if !enc {
				cw, ch := im.CellSize()
				if !pending {
					s.r.Count("kresize-encoder-refused")
					return fmt.Sprintf("%d %d %s noencode", cw, ch, px), true
				}
				return fmt.Sprintf("%d %d %s", cw, ch, px), true
			}
			if time.Now().After(deadline) {
				return "hang", true
			}
			time.Sleep(50 * time.Microsecond)
		}
	case "simg":
		a, ok := ints(f[1:])
		if !ok || len(a) != 3 || a[1] < 1 || a[2] < 1 {
			return "", false
		}
		img := image.NewNRGBA(image.Rect(0, 0, a[1], a[2]))
		for i := range img.Pix {
			img.Pix[i] = uint8(53*i + 17*a[0] + 99)
			if i%4 == 3 {
				img.Pix[i] = 255
			}
		}
		s.simgs[a[0]] = s.kvx.NewSixel(img)
		s.imgDims[a[0]] = [2]int{a[1], a[2]}
		return "ok", true
	case "sresize":
		a, ok := ints(f[1:])
		if !ok || len(a) != 3 || s.simgs[a[0]] == nil {
			return "", false
		}
		im := s.simgs[a[0]]
		// NB: Sixel.Resize does all its work in a goroutine; a panic there cannot be recovered here and would kill
		// the harness: a zero cell pixel size (what the goroutine would divide by) is reported as the panic it would be
		if gw, gh := s.kvx.VerifC20CellPixelSize(); gw == 0 || gh == 0 {
			s.r.Count("sresize-would-divide-by-zero")
			return "panic", true
		}
		im.Resize(a[1], a[2])
		px := s.resizedPx(s.imgDims[a[0]], a[1], a[2])
		deadline := time.Now().Add(10 * time.Second)
		for {
			enc, n := im.VerifC20State()
			if !enc {
				cw, ch := im.CellSize()
				if n == 0 {
					return fmt.Sprintf("%d %d %s empty", cw, ch, px), true
				}
				return fmt.Sprintf("%d %d %s", cw, ch, px), true
			}
			if time.Now().After(deadline) {
				return "hang", true
			}
			time.Sleep(50 * time.Microsecond)
		}
	case "sdraw":
		a, ok := ints(f[1:])
		if !ok || len(a) != 5 || s.simgs[a[0]] == nil {
			return "", false
		}
		if p, _ := hx.Guard(func() { s.simgs[a[0]].Draw(s.kvx.Window().New(a[1], a[2], a[3], a[4])) }); p {
			return "panic", true
		}
		return s.snap(), true
	case "kdraw":
		a, ok := ints(f[1:])
		if !ok || (len(a) != 3 && len(a) != 5) || s.imgs[a[0]] == nil {
			return "", false
		}
		if len(a) == 3 {
			a = append(a, -1, -1)
		}
		if p, _ := hx.Guard(func() {
			win := s.kvx.Window().New(a[1], a[2], a[3], a[4])
			iw, ih := s.imgs[a[0]].CellSize()
			if ww, wh := win.Size(); iw > ww || ih > wh {
				s.r.Count("kitty-draw-into-too-small-window")
			} else {
				s.r.Count("kitty-draw-into-fitting-window")
			}
			s.imgs[a[0]].Draw(win)
		}); p {
			return "panic", true
		}
		return s.snap(), true
	case "kclear":
		if p, _ := hx.Guard(func() { s.kvx.Window().Clear() }); p {
			return "panic", true
		}
		return s.snap(), true
	case "krender", "krefresh":
		s.kfc.Take()
		if p, _ := hx.Guard(func() {
			if f[0] == "krender" {
				s.kvx.Render()
			} else {
				s.kvx.Refresh()
			}
		}); p {
			return "panic", true
		}
		// distribution: frames in which one image stands twice at one origin in two sizes (the terminal-table oracle
		// does not judge a case from such a frame on: Props.C20Term.keyfun_needed)
		if next, _, _ := s.kvx.VerifPlacements(); true {
			clash := false
			for i, p := range next {
				for _, q := range next[:i] {
					if p[0] == q[0] && p[1] == q[1] && p[2] == q[2] && (p[3] != q[3] || p[4] != q[4]) {
						clash = true
					}
				}
			}
			if clash {
				s.r.Count("frame-with-one-image-twice-at-one-origin-in-two-sizes")
			} else {
				s.r.Count("frame-key-functional")
			}
		}
		return parseGfx(s.kfc.Take()) + s.snap(), true
	}
	return "", false
}

var geoms = [][2]int{{1, 2}, {8, 16}, {10, 20}}

func ceilDiv(x, c int) int { return (x + c - 1) / c }

func runC20(r *hx.Run) error {
	s := &session{r: r, imgs: map[int]*vaxis.KittyImage{}, simgs: map[int]*vaxis.Sixel{}, imgDims: map[int][2]int{}}
	defer s.closeAll()
	do := func(op string) string {
		res, ok := s.execOp(strings.Fields(op))
		if !ok {
			res = "bad-op"
		}
		r.Emit(op, res)
		return res
	}
	if r.Replay != "" {
		return hx.ReplayOps(r, s.execOp)
	}
	for i, c := range hx.Corpus("C20") {
		if len(c) == 0 || !strings.HasPrefix(c[0], "#case") {
			do(fmt.Sprintf("#case corpus%d", i))
		}
		for _, op := range c {
			do(op)
		}
		r.Count("corpus")
	}
	rng := gen.New(r.Seed)
	genPixels(r, rng.Fork(2), do)
	genBlocks(r, rng.Fork(3), do)
	genPlacements(r, rng.Fork(4), do)
	genDims(r, rng.Fork(1), do)
	return nil
}

// ---------------------------------------------------------------------------------------------
// dims

// classify counts the input classes of one dims case.
func classify(r *hx.Run, wPix, hPix, w, h, cw, ch int) (coincide bool) {
	columns, lines := ceilDiv(wPix, cw), ceilDiv(hPix, ch)
	switch {
	case columns <= w && lines <= h:
		r.Count("dims-fits")
	case w*lines == h*columns:
		r.Count("dims-scale-factors-coincide")
		return true
	case w*lines < h*columns:
		r.Count("dims-width-binds")
	default:
		r.Count("dims-height-binds")
	}
	return false
}

func genDims(r *hx.Run, rng *gen.Rng, do func(string) string) {
	one := func(wPix, hPix, w, h int) {
		do(fmt.Sprintf("#case d:%d,%d,%d,%d", wPix, hPix, w, h))
		for _, g := range geoms {
			classify(r, wPix, hPix, w, h, g[0], g[1])
			do(fmt.Sprintf("dims %d %d %d %d %d %d", wPix, hPix, w, h, g[0], g[1]))
		}
	}
	const N = 24
	if r.Thorough {
		for wPix := 1; wPix <= N; wPix++ {
			for hPix := 1; hPix <= N; hPix++ {
				for w := 1; w <= N; w++ {
					for h := 1; h <= N; h++ {
						one(wPix, hPix, w, h)
					}
				}
			}
		}
		r.Note("exhaustive", true)
		r.Note("dims-space", "all (wPix,hPix,w,h) in [1,24]^4 x cell geometries {1x2,8x16,10x20}")
	} else {
		// every case of [1,12]^4 in which the two scale factors coincide for some geometry, plus a sample
		for wPix := 1; wPix <= N; wPix++ {
			for hPix := 1; hPix <= N; hPix++ {
				for w := 1; w <= N; w++ {
					for h := 1; h <= N; h++ {
						co, fits := false, true
						for _, g := range geoms {
							columns, lines := ceilDiv(wPix, g[0]), ceilDiv(hPix, g[1])
							if !(columns <= w && lines <= h) {
								fits = false
								if w*lines == h*columns && wPix <= 12 && hPix <= 12 && w <= 12 && h <= 12 {
									co = true
								}
							}
						}
						if co || (fits && rng.Chance(1, 100)) || (!fits && rng.Chance(1, 8)) {
							one(wPix, hPix, w, h)
						}
					}
				}
			}
		}
	}
	// realistic sizes: images up to 160x160 px, boxes up to 40x20, common cell geometries
	big := [][2]int{{8, 16}, {10, 20}, {9, 18}, {7, 15}, {1, 2}, {12, 24}, {1, 1}, {16, 8}}
	n := 3000
	if r.Thorough {
		n = 30000
	}
	for i := 0; i < n; i++ {
		g := gen.Pick(rng, big)
		wPix, hPix := rng.Range(1, 160), rng.Range(1, 160)
		w, h := rng.Range(0, 40), rng.Range(0, 20)
		if rng.Chance(1, 4) {
			// force coinciding scale factors: box = cells / k
			k := rng.Range(2, 4)
			columns, lines := ceilDiv(wPix, g[0]), ceilDiv(hPix, g[1])
			columns, lines = (columns/k+1)*k, (lines/k+1)*k
			wPix, hPix = columns*g[0], lines*g[1]
			w, h = columns/k, lines/k
		}
		do(fmt.Sprintf("#case D:%d", i))
		classify(r, wPix, hPix, w, h, g[0], g[1])
		if w == 0 || h == 0 {
			r.Count("dims-empty-box")
		}
		do(fmt.Sprintf("dims %d %d %d %d %d %d", wPix, hPix, w, h, g[0], g[1]))
	}
	// negative box dimensions (what the code does with them: the empty image)
	nneg := 400
	if r.Thorough {
		nneg = 6000
	}
	for i := 0; i < nneg; i++ {
		g := gen.Pick(rng, big)
		wPix, hPix := rng.Range(1, 60), rng.Range(1, 60)
		w, h := rng.Range(-6, 12), rng.Range(-6, 12)
		switch rng.Intn(3) {
		case 0:
			w = -rng.Range(1, 40)
		case 1:
			h = -rng.Range(1, 40)
		}
		do(fmt.Sprintf("#case N:%d", i))
		switch {
		case w < 0 && h < 0:
			r.Count("dims-box-both-negative")
		case w < 0 || h < 0:
			r.Count("dims-box-one-negative")
		default:
			r.Count("dims-box-nonnegative(signed op)")
		}
		do(fmt.Sprintf("dimsi %d %d %d %d %d %d", wPix, hPix, w, h, g[0], g[1]))
	}
	// zero cell geometry (F52): only reachable by calling resizeImage directly
	for i, z := range [][2]int{{0, 16}, {8, 0}, {0, 0}, {0, 1}} {
		do(fmt.Sprintf("#case Z:%d", i))
		do(fmt.Sprintf("dims %d %d %d %d %d %d", 16, 16, 4, 4, z[0], z[1]))
		r.Count("dims-zero-cell")
	}
}

// ---------------------------------------------------------------------------------------------
// pixels

func genPixels(r *hx.Run, rng *gen.Rng, do0 func(string) string) {
	// pixel lines are independent: start a new case every 32 lines so that replays stay short
	cnt, grp, name := 0, 0, ""
	do := func(op string) string {
		if strings.HasPrefix(op, "#case") {
			name, cnt, grp = strings.TrimPrefix(op, "#case "), 0, 0
			return do0(op)
		}
		if cnt == 32 {
			grp++
			cnt = 0
			do0(fmt.Sprintf("#case %s.%d", name, grp))
		}
		cnt++
		return do0(op)
	}
	bnd8 := []int{0, 1, 2, 49, 50, 51, 127, 128, 200, 254, 255}
	// straight-alpha 8-bit colours: every alpha level x boundary channel values
	do("#case px:nrgba")
	for a := 0; a < 256; a++ {
		for _, c := range bnd8 {
			do(fmt.Sprintf("nrgba %d %d %d %d", c, bnd8[(a+c)%len(bnd8)], 255-c, a))
			r.Count("pixel-nrgba")
		}
	}
	nr := 2000
	if r.Thorough {
		// every channel value at every alpha level
		for a := 0; a < 256; a++ {
			for c := 0; c < 256; c++ {
				do(fmt.Sprintf("nrgba %d %d %d %d", c, (c*7+a)%256, 255-c, a))
				r.Count("pixel-nrgba")
			}
		}
		nr = 20000
	}
	for i := 0; i < nr; i++ {
		do(fmt.Sprintf("nrgba %d %d %d %d", rng.Intn(256), rng.Intn(256), rng.Intn(256), rng.Intn(256)))
		r.Count("pixel-nrgba")
	}
	// premultiplied 8-bit colours (channels <= alpha) at every alpha level
	do("#case px:rgba")
	for a := 0; a < 256; a++ {
		for _, c := range []int{0, 1, a / 2, a - 1, a} {
			if c < 0 || c > a {
				continue
			}
			do(fmt.Sprintf("rgba %d %d %d %d", c, a-c, c/2, a))
			r.Count("pixel-rgba-premultiplied")
		}
	}
	// raw 16-bit quadruples, including ones that are not valid premultiplied colours
	do("#case px:torgb")
	bnd16 := []int{0, 1, 255, 256, 257, 12799, 12800, 12850, 32768, 65534, 65535}
	for _, a := range bnd16 {
		for _, c := range bnd16 {
			do(fmt.Sprintf("torgb %d %d %d %d", c, bnd16[(c+a)%len(bnd16)], 65535-c, a))
			if c > a {
				r.Count("pixel-raw16-not-premultiplied")
			} else {
				r.Count("pixel-raw16")
			}
		}
	}
	for i := 0; i < nr/2; i++ {
		a := rng.Intn(65536)
		do(fmt.Sprintf("torgb %d %d %d %d", rng.Intn(a+1), rng.Intn(a+1), rng.Intn(a+1), a))
		r.Count("pixel-raw16")
	}
	do("#case px:avg")
	for i := 0; i < nr/4; i++ {
		n := rng.Range(1, 4)
		var sb strings.Builder
		sb.WriteString("avg")
		for k := 0; k < n; k++ {
			a := rng.Intn(65536)
			if rng.Chance(1, 4) {
				a = gen.Pick(rng, bnd16)
			}
			fmt.Fprintf(&sb, " %d %d %d %d", rng.Intn(a+1), rng.Intn(a+1), rng.Intn(a+1), a)
		}
		do(sb.String())
		r.Count(fmt.Sprintf("average-of-%d", n))
	}
}

func hexPixels(px [][4]int) string {
	b := make([]byte, 0, 4*len(px))
	for _, p := range px {
		b = append(b, byte(p[0]), byte(p[1]), byte(p[2]), byte(p[3]))
	}
	return hex.EncodeToString(b)
}

func genBlocks(r *hx.Run, rng *gen.Rng, do func(string) string) {
	n := 0
	emit := func(kind string, W, H int, px [][4]int, bw, bh, col, row, ww, wh int) {
		do(fmt.Sprintf("#case blk:%d", n))
		n++
		do(fmt.Sprintf("%s %d %d %s %d %d %d %d %d %d", kind, W, H, hexPixels(px), bw, bh, col, row, ww, wh))
		switch {
		case W > bw || ceilDiv(H, 2) > bh:
			r.Count(kind + "-block-rescaled")
		case col+W > screenW || row+ceilDiv(H, 2) > screenH || (ww >= 0 && ww < W) || (wh >= 0 && wh < ceilDiv(H, 2)):
			r.Count(kind + "-block-clipped")
		default:
			r.Count(kind + "-block")
		}
	}
	// every alpha level for the top and for the bottom pixel of a 1x2 image, both renderers
	for _, kind := range []string{"half", "full"} {
		for a := 0; a < 256; a++ {
			other := []int{0, 49, 50, 255}[a%4]
			emit(kind, 1, 2, [][4]int{{200, 100, 50, a}, {10, 20, 30, other}}, 4, 4, 1, 1, -1, -1)
			emit(kind, 1, 2, [][4]int{{1, 2, 3, other}, {250, 128, 0, a}}, 4, 4, 0, 0, -1, -1)
		}
		// alpha pairs around the threshold
		for _, ta := range []int{0, 48, 49, 50, 51, 255} {
			for _, ba := range []int{0, 48, 49, 50, 51, 255} {
				emit(kind, 1, 2, [][4]int{{255, 0, 127, ta}, {0, 255, 128, ba}}, 1, 1, 3, 2, -1, -1)
			}
		}
	}
	m := 3000
	if r.Thorough {
		m = 30000
	}
	alphas := []int{0, 1, 49, 50, 51, 128, 254, 255, 255, 255}
	for i := 0; i < m; i++ {
		kind := "half"
		if rng.Bool() {
			kind = "full"
		}
		W, H := rng.Range(1, 4), rng.Range(1, 5)
		px := make([][4]int, W*H)
		for k := range px {
			a := gen.Pick(rng, alphas)
			if rng.Chance(1, 5) {
				a = rng.Intn(256)
			}
			px[k] = [4]int{rng.Intn(256), rng.Intn(256), rng.Intn(256), a}
		}
		bw, bh := rng.Range(W, 8), rng.Range(ceilDiv(H, 2), 6)
		col, row, ww, wh := rng.Range(0, 6), rng.Range(0, 4), -1, -1
		switch rng.Intn(6) {
		case 0: // box too small: rescaled (only the cell size is compared)
			bw, bh = rng.Range(0, W), rng.Range(0, ceilDiv(H, 2))
		case 1: // window smaller than the image or hanging over the screen edge
			col, row = rng.Range(0, screenW-1), rng.Range(0, screenH-1)
			ww, wh = rng.Range(0, 4), rng.Range(0, 3)
		}
		emit(kind, W, H, px, bw, bh, col, row, ww, wh)
	}
	// opaque images that are rescaled: every cell of the half-block rendering must show colours of source pixels
	// (the hypothesis ScalerPicks of Props.C20Ext.resized_opaque_half, checked on the real scaler)
	mo := 400
	if r.Thorough {
		mo = 6000
	}
	for i := 0; i < mo; i++ {
		W, H := rng.Range(2, 7), rng.Range(2, 9)
		px := make([][4]int, W*H)
		for k := range px {
			px[k] = [4]int{rng.Intn(256), rng.Intn(256), rng.Intn(256), 255}
		}
		bw, bh := rng.Range(1, W), rng.Range(1, ceilDiv(H, 2))
		if bw == W && bh == ceilDiv(H, 2) {
			bw = W - 1
		}
		emit("half", W, H, px, bw, bh, rng.Range(0, 4), rng.Range(0, 2), -1, -1)
		r.Count("half-block-rescaled-opaque")
	}
	// round 3: the scaler is inside the model (Model/Scaler.lean) — rescaled images of every kind are compared cell
	// by cell: opaque full-block images (oracle: mean of the two source pixels under the cell), translucent images
	// (8-bit premultiplied quantisation), *image.RGBA sources, sizes up to 9x12 squeezed into boxes down to 1x1
	for i := 0; i < mo; i++ {
		W, H := rng.Range(2, 9), rng.Range(2, 12)
		px := make([][4]int, W*H)
		kind := gen.Pick(rng, []string{"full", "half", "full", "halfp", "fullp"})
		translucent := rng.Chance(1, 2)
		for k := range px {
			a := 255
			if translucent {
				a = gen.Pick(rng, []int{0, 1, 2, 49, 50, 51, 100, 128, 200, 254, 255, rng.Intn(256)})
			}
			c := [3]int{rng.Intn(256), rng.Intn(256), rng.Intn(256)}
			if strings.HasSuffix(kind, "p") { // premultiplied: channels <= alpha
				for j := range c {
					c[j] = c[j] * a / 255
				}
			}
			px[k] = [4]int{c[0], c[1], c[2], a}
		}
		bw, bh := rng.Range(1, W), rng.Range(1, ceilDiv(H, 2))
		if bw == W && bh == ceilDiv(H, 2) {
			bh--
		}
		emit(kind, W, H, px, bw, bh, rng.Range(0, 4), rng.Range(0, 2), -1, -1)
		if translucent {
			r.Count(kind + "-block-rescaled-translucent")
		} else {
			r.Count(kind + "-block-rescaled-opaque")
		}
	}
	// round 4: sources of other concrete types — *image.Gray (the scaler's Gray fast path), *image.Paletted with a
	// color.NRGBA palette (the scaler's generic path; translucent entries in half of them), *image.YCbCr 4:4:4 and 4:2:0
	// (the scaler's YCbCr fast paths; what JPEGs decode to) — unscaled and rescaled
	mg := 1800
	if r.Thorough {
		mg = 18000
	}
	for i := 0; i < mg; i++ {
		W, H := rng.Range(1, 9), rng.Range(1, 12)
		kind := gen.Pick(rng, []string{"halfg", "fullg", "halfq", "fullq", "halfq", "fullq", "halfy", "fully", "halfz", "fullz", "halfz", "fullz",
			"halfu", "fullu", "halfv", "fullv", "halfw", "fullw", "halfs", "fulls", "halfs", "fulls"})
		px := make([][4]int, W*H)
		var pal [][4]int
		translucent := rng.Chance(1, 2)
		for k, np := 0, rng.Range(1, 6); k < np; k++ {
			a := 255
			if translucent {
				a = gen.Pick(rng, []int{0, 1, 49, 50, 51, 100, 200, 254, 255, rng.Intn(256)})
			}
			pal = append(pal, [4]int{rng.Intn(256), rng.Intn(256), rng.Intn(256), a})
		}
		for k := range px {
			if strings.HasSuffix(kind, "g") {
				y := rng.Intn(256)
				px[k] = [4]int{y, y, y, 255}
			} else if strings.HasSuffix(kind, "w") || strings.HasSuffix(kind, "s") {
				px[k] = [4]int{rng.Intn(256), rng.Intn(256), rng.Intn(256), 255}
			} else if !strings.HasSuffix(kind, "q") {
				// (Y, Cb, Cr), extremes included (conversions that clamp)
				px[k] = [4]int{gen.Pick(rng, []int{0, 16, 128, 235, 255, rng.Intn(256)}), gen.Pick(rng, []int{0, 128, 255, rng.Intn(256)}),
					gen.Pick(rng, []int{0, 128, 255, rng.Intn(256)}), 255}
			} else {
				px[k] = gen.Pick(rng, pal)
			}
		}
		bw, bh := rng.Range(W, 9), rng.Range(ceilDiv(H, 2), 6)
		if rng.Chance(2, 3) { // rescaled
			bw, bh = rng.Range(1, W), rng.Range(1, ceilDiv(H, 2))
		}
		emit(kind, W, H, px, bw, bh, rng.Range(0, 4), rng.Range(0, 2), -1, -1)
	}
	// unscaled premultiplied sources at every alpha level
	for a := 0; a < 256; a++ {
		for _, kind := range []string{"halfp", "fullp"} {
			emit(kind, 1, 2, [][4]int{{200 * a / 255, 100 * a / 255, 50 * a / 255, a}, {a, a / 2, 0, a}}, 4, 4, 1, 1, -1, -1)
		}
	}
}

// ---------------------------------------------------------------------------------------------
// placements

func genPlacements(r *hx.Run, rng *gen.Rng, do func(string) string) {
	n := 300
	if r.Thorough {
		n = 3000
	}
	type pl struct{ img, col, row, ww, wh int }
	for c := 0; c < n; c++ {
		do(fmt.Sprintf("#case kitty:%d", c))
		cw, ch := gen.Pick(rng, [][2]int{{8, 16}, {10, 20}, {4, 8}})[0], 0
		switch cw {
		case 8:
			ch = 16
		case 10:
			ch = 20
		default:
			ch = 8
		}
		W, H := 40, 20
		do(fmt.Sprintf("knew %d %d %d %d", W, H, W*cw, H*ch))
		nimg := rng.Range(1, 3)
		withSixel := rng.Chance(1, 3)
		imgW, imgH, sixel := map[int]int{}, map[int]int{}, map[int]bool{}
		// box for a resize; boxes that squeeze the image to zero pixels are avoided here (the PNG
		// encoder refuses such an image and no Redraw is posted; see the explicit case below)
		box := func(i int) (int, int) {
			for try := 0; try < 12; try++ {
				w, h := rng.Range(1, 5), rng.Range(1, 3)
				if nw, nh := vaxis.VerifResizeDims(imgW[i], imgH[i], w, h, cw, ch); nw > 0 && nh > 0 {
					return w, h
				}
			}
			return ceilDiv(imgW[i], cw), ceilDiv(imgH[i], ch) // fits unscaled
		}
		resize := func(i int) {
			w, h := box(i)
			if sixel[i] {
				do(fmt.Sprintf("sresize %d %d %d", i, w, h))
				r.Count("sixel-resize")
			} else {
				do(fmt.Sprintf("kresize %d %d %d", i, w, h))
				r.Count("kitty-resize")
			}
		}
		for i := 1; i <= nimg; i++ {
			imgW[i], imgH[i] = rng.Range(1, 40), rng.Range(1, 40)
			sixel[i] = withSixel && rng.Bool()
			if sixel[i] {
				do(fmt.Sprintf("simg %d %d %d", i, imgW[i], imgH[i]))
			} else {
				if rng.Bool() {
					do(fmt.Sprintf("kimgo %d %d %d", i, imgW[i], imgH[i]))
				} else {
					do(fmt.Sprintf("kimg %d %d %d", i, imgW[i], imgH[i]))
				}
			}
			resize(i)
		}
		place := func(i int) pl {
			p := pl{i, rng.Range(0, W-6), rng.Range(0, H-4), -1, -1}
			if !sixel[i] {
				switch rng.Intn(24) {
				case 0: // anywhere: the image may stick out of the rest of the screen (F120)
					p.col, p.row = rng.Range(0, W-1), rng.Range(0, H-1)
					r.Count("kitty-anywhere")
				case 1, 2, 3: // a window of its own, sometimes smaller than the image (F120)
					p.ww, p.wh = rng.Range(2, 9), rng.Range(1, 6)
					r.Count("kitty-small-window")
				case 4, 5, 6: // round 3: windows round the image's own size, empty ones included
					p.ww, p.wh = rng.Range(0, 5), rng.Range(0, 3)
					r.Count("kitty-tight-window")
				}
			}
			if sixel[i] {
				// sixel images are only drawn into windows they fit in: mostly large windows, some small
				p.col, p.row = rng.Range(0, W-6), rng.Range(0, H-4)
				if rng.Chance(1, 4) {
					p.ww, p.wh = rng.Range(0, 5), rng.Range(0, 3)
					r.Count("sixel-small-window")
				}
			}
			return p
		}
		var prev []pl
		frames := rng.Range(3, 8)
		for f := 0; f < frames; f++ {
			noClear := f > 0 && rng.Chance(1, 8)
			if noClear {
				r.Count("frame-without-clear")
			} else {
				do("kclear")
			}
			if f > 0 && rng.Chance(1, 8) {
				resize(rng.Range(1, nimg))
				r.Count("image-resized-between-frames")
			}
			var cur []pl
			// keep / move / drop each previous placement, then maybe add new ones
			for _, p := range prev {
				switch rng.Intn(5) {
				case 0:
					r.Count("placement-dropped")
				case 1:
					cur = append(cur, place(p.img))
					r.Count("placement-moved")
				default:
					cur = append(cur, p)
					r.Count("placement-kept")
				}
			}
			for k := rng.Intn(3); k > 0 || (f == 0 && len(cur) == 0); k-- {
				cur = append(cur, place(rng.Range(1, nimg)))
				r.Count("placement-added")
				if k == 0 {
					break
				}
			}
			if len(cur) > 0 && rng.Chance(1, 10) {
				cur = append(cur, cur[rng.Intn(len(cur))])
				r.Count("placement-drawn-twice")
			}
			for _, p := range cur {
				if sixel[p.img] {
					do(fmt.Sprintf("sdraw %d %d %d %d %d", p.img, p.col, p.row, p.ww, p.wh))
				} else {
					if p.ww == -1 && p.wh == -1 {
						do(fmt.Sprintf("kdraw %d %d %d", p.img, p.col, p.row))
					} else {
						do(fmt.Sprintf("kdraw %d %d %d %d %d", p.img, p.col, p.row, p.ww, p.wh))
					}
				}
			}
			if rng.Chance(1, 6) {
				do("krefresh")
				r.Count("frame-refresh")
			} else {
				do("krender")
				r.Count("frame-render")
			}
			if noClear {
				cur = append(append([]pl{}, prev...), cur...)
			}
			prev = cur
		}
	}
	// round 4: histories aimed at the ORDER of the commands of a frame and at re-upload: an image resized in place (drawn
	// again at the same origin after a Resize, mostly to another cell size), next to a kept or moved placement of another
	// image; then resized again (sometimes twice before it is placed: the buffer accumulates) and kept, moved or refreshed
	ni := 80
	if r.Thorough {
		ni = 800
	}
	for c := 0; c < ni; c++ {
		do(fmt.Sprintf("#case kitty:inplace:%d", c))
		g := gen.Pick(rng, [][2]int{{8, 16}, {10, 20}, {4, 8}})
		do(fmt.Sprintf("knew 40 20 %d %d", 40*g[0], 20*g[1]))
		if rng.Chance(1, 3) {
			do(fmt.Sprintf("kimgs 1 %d %d", rng.Range(30, 64), rng.Range(30, 64)))
			r.Count("kitty-image-is-a-crop")
		} else {
			do(fmt.Sprintf("kimgo 1 %d %d", rng.Range(30, 64), rng.Range(30, 64)))
		}
		do(fmt.Sprintf("kimg 2 %d %d", rng.Range(4, 20), rng.Range(4, 20)))
		do(fmt.Sprintf("kresize 1 %d %d", rng.Range(2, 6), rng.Range(1, 3)))
		do(fmt.Sprintf("kresize 2 %d %d", rng.Range(1, 3), rng.Range(1, 2)))
		c1, r1, c2, r2 := rng.Range(0, 12), rng.Range(0, 12), rng.Range(20, 30), rng.Range(0, 12)
		frame := func(resizes int, move1, move2, drop2, refresh bool) {
			do("kclear")
			for k := 0; k < resizes; k++ {
				do(fmt.Sprintf("kresize 1 %d %d", rng.Range(1, 6), rng.Range(1, 3)))
				r.Count("kitty-resize")
			}
			if move1 {
				c1, r1 = rng.Range(0, 12), rng.Range(0, 12)
			}
			if move2 {
				c2, r2 = rng.Range(20, 30), rng.Range(0, 12)
			}
			do(fmt.Sprintf("kdraw 1 %d %d", c1, r1))
			if !drop2 {
				do(fmt.Sprintf("kdraw 2 %d %d", c2, r2))
			}
			if refresh {
				do("krefresh")
				r.Count("frame-refresh")
			} else {
				do("krender")
				r.Count("frame-render")
			}
		}
		frame(0, false, false, false, false)
		frame(1, false, rng.Chance(1, 3), rng.Chance(1, 5), rng.Chance(1, 6))
		r.Count("kitty-resized-in-place")
		frame(rng.Range(0, 2), rng.Chance(1, 3), rng.Chance(1, 3), rng.Chance(1, 5), rng.Chance(1, 6))
		frame(rng.Range(0, 1), rng.Chance(1, 2), false, false, rng.Chance(1, 6))
	}
	// F52 end to end (repaired): terminals reporting fewer pixels than cells, or none at all
	for i, t := range [][4]int{{80, 24, 50, 400}, {80, 24, 0, 0}, {80, 24, 640, 10}, {40, 20, 39, 19}, {40, 20, 41, 400}} {
		do(fmt.Sprintf("#case kitty:degenerate-pixels:%d", i))
		do(fmt.Sprintf("knew %d %d %d %d", t[0], t[1], t[2], t[3]))
		do("kimg 1 16 16")
		do("kresize 1 4 4")
		do("kdraw 1 1 1")
		do("krender")
		do("simg 2 9 7")
		do("sresize 2 3 3")
		r.Count("kitty-degenerate-pixel-report")
	}
	// negative boxes through the exported Resize
	do("#case kitty:negative-box")
	do("knew 40 20 320 320")
	do("kimg 1 24 24")
	do("kresize 1 -2 3")
	do("kresize 1 2 -3")
	do("kresize 1 -1 -1")
	r.Count("kitty-negative-box")
	// an image squeezed to zero height: the PNG encoder refuses it and no Redraw is posted
	do("#case kitty:vanishing")
	do("knew 40 20 320 320")
	do("kimg 1 24 1")
	do("kresize 1 1 1")
	do("kdraw 1 2 3")
	do("krender")
	r.Count("kitty-image-squeezed-to-nothing")
	// round 4: refused encodes BETWEEN successful ones — an image shown, squeezed to nothing / given a negative box (the
	// encoder refuses, `uploaded` and the buffer stay as they are, the placement changes size and is placed again with the
	// data the terminal already has), then resized to a real size again (new data must go out)
	nv := 12
	if r.Thorough {
		nv = 120
	}
	for c := 0; c < nv; c++ {
		do(fmt.Sprintf("#case kitty:refused:%d", c))
		do("knew 40 20 320 320") // cells of 8x16 px
		flatW := rng.Range(17, 40)
		kind := gen.Pick(rng, []string{"kimg", "kimgo"})
		do(fmt.Sprintf("%s 1 %d 1", kind, flatW)) // a flat image: squeezed into fewer columns its height becomes 0
		col, row := rng.Range(0, 20), rng.Range(0, 12)
		step := func(box string, refused bool) {
			do("kclear")
			do("kresize 1 " + box)
			if refused {
				r.Count("kitty-refused-encode-between-frames")
			}
			if rng.Chance(1, 4) {
				col, row = rng.Range(0, 20), rng.Range(0, 12)
			}
			do(fmt.Sprintf("kdraw 1 %d %d", col, row))
			if rng.Chance(1, 6) {
				do("krefresh")
			} else {
				do("krender")
			}
		}
		step(fmt.Sprintf("%d 1", ceilDiv(flatW, 8)), false) // fits: shown as it is
		step("1 1", true)                                    // squeezed to zero height
		if rng.Bool() {
			step(fmt.Sprintf("-%d 2", rng.Range(1, 3)), true) // negative box
		}
		step(fmt.Sprintf("%d 1", ceilDiv(flatW, 8)), false) // a real size again
		step(fmt.Sprintf("%d 1", ceilDiv(flatW, 8)+1), false)
	}
}
