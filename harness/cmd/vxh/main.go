// Command vxh is the implementation side of the correspondence check: for one
// property it generates cases from VERIF_SEED, runs the real vaxis code on
// them in-process and writes one line `op<TAB>impl-result` per case, in the
// line protocol the Lean driver `vxdrv` reads.
package main

import (
	"bufio"
	"encoding/json"
	"flag"
	"fmt"
	"os"
	"path/filepath"
	"sort"
	"strconv"
)

// Run is the context handed to a property's generator.
type Run struct {
	Prop    string
	Tier    string
	Seed    uint64
	Thorough bool
	Replay  string
	w       *bufio.Writer
	n       int
	dist    map[string]int
	samples []string
	notes   map[string]interface{}
}

// Emit writes one case.
func (r *Run) Emit(op, impl string) {
	r.w.WriteString(op)
	r.w.WriteByte('\t')
	r.w.WriteString(impl)
	r.w.WriteByte('\n')
	r.n++
	if len(r.samples) < 8 && (r.n < 4 || r.n%9973 == 0) {
		r.samples = append(r.samples, op+" => "+impl)
	}
}

// Count bumps a distribution counter (input classes, branches, error kinds).
func (r *Run) Count(key string) { r.dist[key]++ }

func (r *Run) Note(key string, v interface{}) { r.notes[key] = v }

type propFn func(*Run) error

var props = map[string]propFn{}

func register(name string, fn propFn) { props[name] = fn }

func main() {
	tier := flag.String("tier", "quick", "quick|thorough")
	seed := flag.Uint64("seed", 0, "seed (default: $VERIF_SEED or 1)")
	out := flag.String("out", "", "output directory")
	replay := flag.String("replay", "", "replay file")
	flag.Parse()
	if flag.NArg() != 1 {
		fmt.Fprintln(os.Stderr, "usage: vxh [-tier T] [-seed N] -out DIR <driver>")
		os.Exit(2)
	}
	name := flag.Arg(0)
	fn, ok := props[name]
	if !ok {
		names := []string{}
		for k := range props {
			names = append(names, k)
		}
		sort.Strings(names)
		fmt.Fprintln(os.Stderr, "unknown driver", name, "have", names)
		os.Exit(2)
	}
	if *seed == 0 {
		if s, err := strconv.ParseUint(os.Getenv("VERIF_SEED"), 10, 64); err == nil {
			*seed = s
		} else {
			*seed = 1
		}
	}
	if *out == "" {
		fmt.Fprintln(os.Stderr, "-out required")
		os.Exit(2)
	}
	os.MkdirAll(*out, 0o755)
	f, err := os.Create(filepath.Join(*out, name+".ops"))
	if err != nil {
		panic(err)
	}
	r := &Run{Prop: name, Tier: *tier, Seed: *seed, Thorough: *tier == "thorough", Replay: *replay,
		w: bufio.NewWriterSize(f, 1<<20), dist: map[string]int{}, notes: map[string]interface{}{}}
	if err := fn(r); err != nil {
		fmt.Fprintln(os.Stderr, "HARNESS-ERROR:", err)
		os.Exit(3)
	}
	r.w.Flush()
	f.Close()
	st := map[string]interface{}{"cases": r.n, "distribution": r.dist, "samples": r.samples, "notes": r.notes}
	b, _ := json.MarshalIndent(st, "", " ")
	os.WriteFile(filepath.Join(*out, name+".stats.json"), b, 0o644)
}
