package main

import (
	"bufio"
	"encoding/json"
	"os"
	"strings"
)

// replayOps re-runs the ops listed in a replay file (JSON with an "ops" array of op strings).
func replayOps(r *Run, f func(op []string) (string, bool)) error {
	b, err := os.ReadFile(r.Replay)
	if err != nil {
		return err
	}
	var rp struct {
		Ops []string `json:"ops"`
	}
	if err := json.Unmarshal(b, &rp); err != nil {
		// plain text: one op per line
		sc := bufio.NewScanner(strings.NewReader(string(b)))
		for sc.Scan() {
			rp.Ops = append(rp.Ops, strings.SplitN(sc.Text(), "\t", 2)[0])
		}
	}
	for _, op := range rp.Ops {
		res, ok := f(strings.Fields(op))
		if !ok {
			res = "bad-op"
		}
		r.Emit(op, res)
	}
	return nil
}
