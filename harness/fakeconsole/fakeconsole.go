// Package fakeconsole is an in-memory console.Console: everything vaxis writes is recorded,
// bytes can be injected as terminal input, and a scripted responder answers vaxis's queries
// according to a configurable capability set. Fd() is not a TTY, so reportWinsize falls back to
// Size().
package fakeconsole

import (
	"bytes"
	"fmt"
	"io"
	"strings"
	"sync"

	"github.com/containerd/console"
)

// Caps is what the scripted terminal advertises in its replies.
type Caps struct {
	Sixel              bool // DA1 contains 4
	SixelGeom          bool // answers XTSMGRAPHICS
	Sync               bool // DECRPM 2026
	UnicodeCore        bool // DECRPM 2027
	ColorTheme         bool // DECRPM 2031
	KittyKeyboard      bool // CSI ? 0 u
	KittyGraphics      bool // APC G reply
	RGB                bool // XTGETTCAP RGB
	StyledUnderlines   bool // XTGETTCAP Smulx
	VTE                bool // tertiary DA "~VTE"
	Osc4, Osc10, Osc11 bool
	Osc176             bool
	SizePixels         bool // CSI 4;h;w t
	SizeChars          bool // CSI 8;h;w t
	InBandResize       bool // CSI 48;... t after ?2048h
	ExplicitWidth      bool // OSC 66 advances the cursor by w
	XTVersion          bool
	CursorStyle        int  // DECRPSS reply digit 0..6, -1 = no reply
	NoDA1              bool // never answer DA1 (start-up then waits for its 3 s timeout)
}

// CapNames lists the boolean capabilities in a fixed order (bit i of a mask = CapNames[i]).
var CapNames = []string{"sixel", "sync", "unicodeCore", "colorTheme", "kittyKeyboard", "kittyGraphics", "rgb",
	"styledUnderlines", "osc4", "osc10", "osc11", "osc176", "sizePixels", "sizeChars", "inBandResize", "explicitWidth", "vte", "sixelGeom", "xtversion"}

// FromMask builds a Caps from a bit mask over CapNames.
func FromMask(m uint32) Caps {
	b := func(i int) bool { return m>>uint(i)&1 == 1 }
	return Caps{Sixel: b(0), Sync: b(1), UnicodeCore: b(2), ColorTheme: b(3), KittyKeyboard: b(4), KittyGraphics: b(5),
		RGB: b(6), StyledUnderlines: b(7), Osc4: b(8), Osc10: b(9), Osc11: b(10), Osc176: b(11), SizePixels: b(12),
		SizeChars: b(13), InBandResize: b(14), ExplicitWidth: b(15), VTE: b(16), SixelGeom: b(17), XTVersion: b(18), CursorStyle: -1}
}

type Console struct {
	mu         sync.Mutex
	cond       *sync.Cond
	in         []byte
	closed     bool
	out        bytes.Buffer // everything written since the last Take
	all        int
	Caps       Caps
	W, H       int
	XPix, YPix int
	// Respond, if set, replaces the scripted responder.
	Respond func(c *Console, written []byte) []byte
	// Silent disables all automatic replies.
	Silent bool
	// Mirror, if set, receives a copy of every write (used by child processes that are
	// expected to die: the parent reads the mirrored stream).
	Mirror func([]byte)
	// NegativeTcap: answer XTGETTCAP queries for capabilities the terminal lacks with the
	// failure form `DCS 0 + r <name> ST` instead of staying silent.
	NegativeTcap bool
	// VersionString is the XTVERSION reply (default "fake 1.0").
	VersionString string
	// InitCol is the (1-based) column the cursor is in when Vaxis starts (0 = column 1).
	InitCol                          int
	sawHome                          bool
	sawOsc66                         bool
	pend                             []byte // partial escape sequence carried between writes (not needed: vaxis writes whole sequences)
	RawCalls, ResetCalls, CloseCalls int
}

func New(w, h int, caps Caps) *Console {
	c := &Console{W: w, H: h, Caps: caps}
	c.cond = sync.NewCond(&c.mu)
	return c
}

// Inject queues bytes as terminal input.
func (c *Console) Inject(b []byte) {
	c.mu.Lock()
	c.in = append(c.in, b...)
	c.mu.Unlock()
	c.cond.Broadcast()
}

func (c *Console) InjectString(s string) { c.Inject([]byte(s)) }

// Pending reports how many injected bytes have not been read yet.
func (c *Console) Pending() int {
	c.mu.Lock()
	defer c.mu.Unlock()
	return len(c.in)
}

// Take returns and clears the recorded output.
func (c *Console) Take() []byte {
	c.mu.Lock()
	defer c.mu.Unlock()
	b := append([]byte(nil), c.out.Bytes()...)
	c.out.Reset()
	return b
}

func (c *Console) Read(p []byte) (int, error) {
	c.mu.Lock()
	defer c.mu.Unlock()
	for len(c.in) == 0 && !c.closed {
		c.cond.Wait()
	}
	if len(c.in) == 0 && c.closed {
		return 0, io.EOF
	}
	n := copy(p, c.in)
	c.in = c.in[n:]
	return n, nil
}

func (c *Console) Write(p []byte) (int, error) {
	c.mu.Lock()
	c.out.Write(p)
	c.all += len(p)
	if c.Mirror != nil {
		c.Mirror(p)
	}
	var resp []byte
	if !c.Silent {
		if c.Respond != nil {
			resp = c.Respond(c, p)
		} else {
			resp = c.script(p)
		}
	}
	if len(resp) > 0 {
		c.in = append(c.in, resp...)
	}
	c.mu.Unlock()
	if len(resp) > 0 {
		c.cond.Broadcast()
	}
	return len(p), nil
}

// script answers the queries found in one write, in the order they appear.
func (c *Console) script(p []byte) []byte {
	s := string(p)
	var out strings.Builder
	for i := 0; i < len(s); i++ {
		if s[i] != 0x1b {
			continue
		}
		rest := s[i:]
		switch {
		case strings.HasPrefix(rest, "\x1b]66;"):
			c.sawOsc66 = true
		case strings.HasPrefix(rest, "\x1b[H"):
			c.sawOsc66 = false
			c.sawHome = true
		case strings.HasPrefix(rest, "\x1b[6n"):
			// the cursor is in column 2 after `CSI H` + `OSC 66 ; w=1 ; " "` iff the terminal
			// implements explicit width
			col := 1
			if c.sawOsc66 && c.Caps.ExplicitWidth {
				col = 2
			} else if !c.sawOsc66 && !c.sawHome && c.InitCol > 0 {
				col = c.InitCol // nothing moved the cursor yet: it is where the shell left it
			}
			c.sawOsc66 = false
			fmt.Fprintf(&out, "\x1b[1;%dR", col)
		case strings.HasPrefix(rest, "\x1b[c"):
			if !c.Caps.NoDA1 {
				if c.Caps.Sixel {
					out.WriteString("\x1b[?62;4;22c")
				} else {
					out.WriteString("\x1b[?62;22c")
				}
			}
		case strings.HasPrefix(rest, "\x1b[=c"):
			if c.Caps.VTE {
				out.WriteString("\x1bP!|7E565445\x1b\\")
			}
		case strings.HasPrefix(rest, "\x1b[?2026$p"):
			if c.Caps.Sync {
				out.WriteString("\x1b[?2026;2$y")
			}
		case strings.HasPrefix(rest, "\x1b[?2027$p"):
			if c.Caps.UnicodeCore {
				out.WriteString("\x1b[?2027;2$y")
			}
		case strings.HasPrefix(rest, "\x1b[?2031$p"):
			if c.Caps.ColorTheme {
				out.WriteString("\x1b[?2031;2$y")
			}
		case strings.HasPrefix(rest, "\x1b[?2048h"):
			if c.Caps.InBandResize {
				fmt.Fprintf(&out, "\x1b[48;%d;%d;%d;%dt", c.H, c.W, c.YPix, c.XPix)
			}
		case strings.HasPrefix(rest, "\x1b[>0q"):
			if c.Caps.XTVersion {
				v := c.VersionString
				if v == "" {
					v = "fake 1.0"
				}
				out.WriteString("\x1bP>|" + v + "\x1b\\")
			}
		case strings.HasPrefix(rest, "\x1b[?u"):
			if c.Caps.KittyKeyboard {
				out.WriteString("\x1b[?0u")
			}
		case strings.HasPrefix(rest, "\x1b_Gi=1,a=q\x1b\\"):
			if c.Caps.KittyGraphics {
				out.WriteString("\x1b_Gi=1;OK\x1b\\")
			}
		case strings.HasPrefix(rest, "\x1b[?2;1;0S"):
			if c.Caps.SixelGeom {
				out.WriteString("\x1b[?2;0;800;600S")
			}
		case strings.HasPrefix(rest, "\x1b[14t"):
			if c.Caps.SizePixels {
				fmt.Fprintf(&out, "\x1b[4;%d;%dt", c.YPix, c.XPix)
			}
		case strings.HasPrefix(rest, "\x1b[18t"):
			if c.Caps.SizeChars {
				fmt.Fprintf(&out, "\x1b[8;%d;%dt", c.H, c.W)
			}
		case strings.HasPrefix(rest, "\x1bP+q524742\x1b\\"): // RGB
			if c.Caps.RGB {
				out.WriteString("\x1bP1+r524742=38\x1b\\")
			} else if c.NegativeTcap {
				out.WriteString("\x1bP0+r524742\x1b\\") // "not available", echoing the name
			}
		case strings.HasPrefix(rest, "\x1bP+q536D756C78\x1b\\"): // Smulx
			if c.Caps.StyledUnderlines {
				out.WriteString("\x1bP1+r536D756C78=5C455B343A25703125646D\x1b\\")
			} else if c.NegativeTcap {
				out.WriteString("\x1bP0+r536D756C78\x1b\\")
			}
		case strings.HasPrefix(rest, "\x1bP$q q\x1b\\"):
			if c.Caps.CursorStyle >= 0 {
				fmt.Fprintf(&out, "\x1bP1$r%d q\x1b\\", c.Caps.CursorStyle)
			}
		case strings.HasPrefix(rest, "\x1b]4;"):
			if c.Caps.Osc4 && strings.Contains(rest[:min(len(rest), 16)], ";?") {
				out.WriteString("\x1b]4;1;rgb:ffff/0000/0000\x1b\\")
			}
		case strings.HasPrefix(rest, "\x1b]10;?"):
			if c.Caps.Osc10 {
				out.WriteString("\x1b]10;rgb:ffff/ffff/ffff\x1b\\")
			}
		case strings.HasPrefix(rest, "\x1b]11;?"):
			if c.Caps.Osc11 {
				out.WriteString("\x1b]11;rgb:0000/0000/0000\x1b\\")
			}
		case strings.HasPrefix(rest, "\x1b]176;?"):
			if c.Caps.Osc176 {
				out.WriteString("\x1b]176;fakeapp\x1b\\")
			}
		}
	}
	return []byte(out.String())
}

func min(a, b int) int {
	if a < b {
		return a
	}
	return b
}

func (c *Console) Close() error {
	c.mu.Lock()
	c.closed = true
	c.CloseCalls++
	c.mu.Unlock()
	c.cond.Broadcast()
	return nil
}

func (c *Console) Fd() uintptr  { return ^uintptr(0) }
func (c *Console) Name() string { return "fakeconsole" }
func (c *Console) Resize(ws console.WinSize) error {
	c.SetSize(int(ws.Width), int(ws.Height))
	return nil
}
func (c *Console) ResizeFrom(o console.Console) error { return nil }
func (c *Console) SetRaw() error                      { c.mu.Lock(); c.RawCalls++; c.mu.Unlock(); return nil }
func (c *Console) DisableEcho() error                 { return nil }
func (c *Console) Reset() error                       { c.mu.Lock(); c.ResetCalls++; c.mu.Unlock(); return nil }
func (c *Console) Size() (console.WinSize, error) {
	c.mu.Lock()
	defer c.mu.Unlock()
	return console.WinSize{Width: uint16(c.W), Height: uint16(c.H)}, nil
}

// SetSize changes what Size() reports (call vx.Resize() afterwards to make vaxis notice).
func (c *Console) SetSize(w, h int) {
	c.mu.Lock()
	c.W, c.H = w, h
	c.mu.Unlock()
}

var _ console.Console = (*Console)(nil)
