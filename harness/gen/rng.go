// Package gen holds the seeded generator primitives shared by all sub-commands.
// Every random choice in a run derives from one splitmix64 state seeded by VERIF_SEED.
package gen

type Rng struct{ s uint64 }

func New(seed uint64) *Rng { return &Rng{s: seed*0x9E3779B97F4A7C15 + 0x1234567} }

func (r *Rng) U64() uint64 {
	r.s += 0x9E3779B97F4A7C15
	z := r.s
	z = (z ^ (z >> 30)) * 0xBF58476D1CE4E5B9
	z = (z ^ (z >> 27)) * 0x94D049BB133111EB
	return z ^ (z >> 31)
}

// Intn returns a value in [0,n).
func (r *Rng) Intn(n int) int {
	if n <= 0 {
		return 0
	}
	return int(r.U64() % uint64(n))
}

// Range returns a value in [lo,hi].
func (r *Rng) Range(lo, hi int) int { return lo + r.Intn(hi-lo+1) }

func (r *Rng) Bool() bool { return r.U64()&1 == 1 }

// Chance returns true with probability num/den.
func (r *Rng) Chance(num, den int) bool { return r.Intn(den) < num }

// Fork derives an independent stream (for sharding) without disturbing determinism.
func (r *Rng) Fork(k uint64) *Rng { return New(r.U64() ^ (k * 0xD6E8FEB86659FD93)) }

func Pick[T any](r *Rng, xs []T) T { return xs[r.Intn(len(xs))] }
