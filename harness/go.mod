module verifharness

go 1.18

require (
	git.sr.ht/~rockorager/vaxis v0.0.0
	github.com/containerd/console v1.0.3
	github.com/mattn/go-runewidth v0.0.14
	github.com/rivo/uniseg v0.4.4
)

require (
	github.com/creack/pty v1.1.18 // indirect
	github.com/mattn/go-sixel v0.0.5 // indirect
	github.com/soniakeys/quant v1.0.0 // indirect
	golang.org/x/exp v0.0.0-20230522175609-2e198f4a06a1 // indirect
	golang.org/x/image v0.9.0 // indirect
	golang.org/x/sys v0.10.0 // indirect
)

replace git.sr.ht/~rockorager/vaxis => /repo
