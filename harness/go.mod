module verifharness

go 1.18

require (
	git.sr.ht/~rockorager/vaxis v0.0.0
	github.com/containerd/console v1.0.3
)

require (
	github.com/mattn/go-runewidth v0.0.14 // indirect
	github.com/mattn/go-sixel v0.0.5 // indirect
	github.com/rivo/uniseg v0.4.4 // indirect
	github.com/soniakeys/quant v1.0.0 // indirect
	golang.org/x/image v0.9.0 // indirect
	golang.org/x/sys v0.10.0 // indirect
)

replace git.sr.ht/~rockorager/vaxis => /repo
