// Package hx is the shared library of the implementation side of the correspondence check: for one
// property it generates cases from VERIF_SEED, runs the real vaxis code on
// them in-process and writes one line `op<TAB>impl-result` per case, in the
// line protocol the Lean driver `vxdrv` reads.
package hx

import (
	"bufio"
	"encoding/json"
	"flag"
	"fmt"
	"os"
	"path/filepath"
	"strconv"
	"strings"
)

// Run is the context handed to a property's generator.
type Run struct {
	Prop     string
	Tier     string
	Seed     uint64
	Thorough bool
	Replay   string
	w        *bufio.Writer
	n        int
	dist     map[string]int
	samples  []string
	notes    map[string]interface{}
}

// Emit writes one case.
func (r *Run) Emit(op, impl string) {
	r.w.WriteString(op)
	r.w.WriteByte('\t')
	r.w.WriteString(impl)
	r.w.WriteByte('\n')
	r.n++
	if len(r.samples) < 8 && (r.n < 4 || r.n%9973 == 0) {
		r.samples = append(r.samples, op+" => "+impl)
	}
}

// Count bumps a distribution counter (input classes, branches, error kinds).
func (r *Run) Count(key string) { r.dist[key]++ }

func (r *Run) Note(key string, v interface{}) { r.notes[key] = v }

// Main is the entry point of a per-driver harness command:
//
//	vxh-<name> [-tier quick|thorough] [-seed N] [-replay FILE] -out DIR
//
// It writes DIR/<name>.ops (one line `op<TAB>impl-result` per case) and DIR/<name>.stats.json.
func Main(name string, fn func(*Run) error) {
	tier := flag.String("tier", "quick", "quick|thorough")
	seed := flag.Uint64("seed", 0, "seed (default: $VERIF_SEED or 1)")
	out := flag.String("out", "", "output directory")
	replay := flag.String("replay", "", "replay file")
	flag.Parse()
	if *seed == 0 {
		if s, err := strconv.ParseUint(os.Getenv("VERIF_SEED"), 10, 64); err == nil && s != 0 {
			*seed = s
		} else {
			*seed = 1
		}
	}
	if *out == "" {
		fmt.Fprintln(os.Stderr, "-out required")
		os.Exit(2)
	}
	os.MkdirAll(*out, 0o755)
	f, err := os.Create(filepath.Join(*out, name+".ops"))
	if err != nil {
		panic(err)
	}
	r := &Run{Prop: name, Tier: *tier, Seed: *seed, Thorough: *tier == "thorough", Replay: *replay,
		w: bufio.NewWriterSize(f, 1<<20), dist: map[string]int{}, notes: map[string]interface{}{}}
	if err := fn(r); err != nil {
		fmt.Fprintln(os.Stderr, "HARNESS-ERROR:", err)
		os.Exit(3)
	}
	r.w.Flush()
	f.Close()
	st := map[string]interface{}{"cases": r.n, "distribution": r.dist, "samples": r.samples, "notes": r.notes}
	b, _ := json.MarshalIndent(st, "", " ")
	os.WriteFile(filepath.Join(*out, name+".stats.json"), b, 0o644)
}

// Case starts a new stateful case: emits a `#case <id>` line (the Lean driver resets its state).
func (r *Run) Case(id string) { r.Emit("#case "+id, "-") }

// Add bumps a distribution counter by n.
func (r *Run) Add(key string, n int) { r.dist[key] += n }

// Cases returns the number of lines emitted so far.
func (r *Run) Cases() int { return r.n }

// replayOps re-runs the ops listed in a replay file (JSON with an "ops" array of op strings).
func ReplayOps(r *Run, f func(op []string) (string, bool)) error {
	b, err := os.ReadFile(r.Replay)
	if err != nil {
		return err
	}
	var rp struct {
		Ops []string `json:"ops"`
	}
	if err := json.Unmarshal(b, &rp); err != nil {
		// plain text: one op per line
		sc := bufio.NewScanner(strings.NewReader(string(b)))
		for sc.Scan() {
			rp.Ops = append(rp.Ops, strings.SplitN(sc.Text(), "\t", 2)[0])
		}
	}
	for _, op := range rp.Ops {
		res, ok := f(strings.Fields(op))
		if !ok {
			res = "bad-op"
		}
		r.Emit(op, res)
	}
	return nil
}

// Corpus returns the minimised past failures stored under /verif/corpus/<name>/*.ops: each file is
// one case, one op per line (anything after a TAB is ignored; lines starting with "#" are skipped).
// Harnesses run these first.
func Corpus(name string) [][]string {
	dir := filepath.Join(verifDir(), "corpus", name)
	files, _ := filepath.Glob(filepath.Join(dir, "*.ops"))
	var out [][]string
	for _, f := range files {
		b, err := os.ReadFile(f)
		if err != nil {
			continue
		}
		var ops []string
		for _, l := range strings.Split(string(b), "\n") {
			l = strings.SplitN(l, "\t", 2)[0]
			if l == "" || strings.HasPrefix(l, "#") {
				continue
			}
			ops = append(ops, l)
		}
		if len(ops) > 0 {
			out = append(out, ops)
		}
	}
	return out
}

func verifDir() string {
	if d := os.Getenv("VERIF_DIR"); d != "" {
		return d
	}
	return "/verif"
}

// Hex encodes a string for the line protocol ("-" for the empty string).
func Hex(s string) string {
	if s == "" {
		return "-"
	}
	const d = "0123456789abcdef"
	b := make([]byte, 0, 2*len(s))
	for i := 0; i < len(s); i++ {
		b = append(b, d[s[i]>>4], d[s[i]&15])
	}
	return string(b)
}

// Guard runs f with panic recovery; it returns "panic" and the message if f panicked.
func Guard(f func()) (panicked bool, msg string) {
	defer func() {
		if e := recover(); e != nil {
			panicked = true
			msg = fmt.Sprint(e)
		}
	}()
	f()
	return false, ""
}
