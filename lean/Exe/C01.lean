import VaxisModel.Driver.C01

def main : IO Unit := VaxisModel.Driver.C01.main
