import VaxisModel.Driver.C01Ops

def main : IO Unit := VaxisModel.Driver.C01Ops.main
