import VaxisModel.Driver.C02

def main : IO Unit := VaxisModel.Driver.C02.main
