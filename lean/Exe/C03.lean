import VaxisModel.Driver.C03

def main : IO Unit := VaxisModel.Driver.C03.main
