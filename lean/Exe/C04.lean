import VaxisModel.Driver.C04

def main : IO Unit := VaxisModel.Driver.C04.main
