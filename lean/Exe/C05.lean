import VaxisModel.Driver.C05

def main : IO Unit := VaxisModel.Driver.C05.main
