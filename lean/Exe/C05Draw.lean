import VaxisModel.Driver.C05Draw

def main : IO Unit := VaxisModel.Driver.C05Draw.main
