import VaxisModel.Driver.C05Events

def main : IO Unit := VaxisModel.Driver.C05Events.main
