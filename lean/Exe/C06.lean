import VaxisModel.Driver.C06

def main : IO Unit := VaxisModel.Driver.C06.main
