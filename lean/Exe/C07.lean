import VaxisModel.Driver.C07

def main : IO Unit := VaxisModel.Driver.C07.main
