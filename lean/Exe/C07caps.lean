import VaxisModel.Driver.C07caps

def main : IO Unit := VaxisModel.Driver.C07caps.main
