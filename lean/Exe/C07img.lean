import VaxisModel.Driver.C07img

def main : IO Unit := VaxisModel.Driver.C07img.main
