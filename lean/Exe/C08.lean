import VaxisModel.Driver.C08

def main : IO Unit := VaxisModel.Driver.C08.main
