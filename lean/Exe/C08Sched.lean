import VaxisModel.Driver.C08Sched

def main : IO Unit := VaxisModel.Driver.C08Sched.main
