import VaxisModel.Driver.C09

def main : IO Unit := VaxisModel.Driver.C09.main
