import VaxisModel.Driver.C10

def main : IO Unit := VaxisModel.Driver.C10.main
