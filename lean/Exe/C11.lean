import VaxisModel.Driver.C11

def main : IO Unit := VaxisModel.Driver.C11.main
