import VaxisModel.Driver.C12

def main : IO Unit := VaxisModel.Driver.C12.main
