import VaxisModel.Driver.C13

def main : IO Unit := VaxisModel.Driver.C13.main
