import VaxisModel.Driver.C14

def main : IO Unit := VaxisModel.Driver.C14.main
