import VaxisModel.Driver.C15

def main : IO Unit := VaxisModel.Driver.C15.main
