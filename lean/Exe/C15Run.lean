import VaxisModel.Driver.C15Run

def main : IO Unit := VaxisModel.Driver.C15Run.main
