import VaxisModel.Driver.C16

def main : IO Unit := VaxisModel.Driver.C16.main
