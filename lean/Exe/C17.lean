import VaxisModel.Driver.C17

def main : IO Unit := VaxisModel.Driver.C17.main
