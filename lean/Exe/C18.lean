import VaxisModel.Driver.C18

def main : IO Unit := VaxisModel.Driver.C18.main
