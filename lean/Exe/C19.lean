import VaxisModel.Driver.C19

def main : IO Unit := VaxisModel.Driver.C19.main
