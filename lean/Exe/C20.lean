import VaxisModel.Driver.C20

def main : IO Unit := VaxisModel.Driver.C20.main
