import VaxisModel.Driver.C07

/-- `vxdrv <sub-driver>`: reads operation lines on stdin, writes one result line per input line. -/
def main (args : List String) : IO UInt32 := do
  match args with
  | ["C07"] => VaxisModel.Driver.C07.main; return 0
  | _ => IO.eprintln "usage: vxdrv <driver>"; return 2
