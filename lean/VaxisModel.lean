-- Root of the library: everything that `lake build` (default target) must check.
import VaxisModel.Props.C07
import VaxisModel.Driver.C07
