import VaxisModel.Driver.Common
import VaxisModel.Model.Render
import VaxisModel.Model.RenderSixel
import VaxisModel.Spec.ExpectedClip
import VaxisModel.Spec.Display
import VaxisModel.Spec.Expected
import VaxisModel.Spec.Tokenize
import VaxisModel.Lemmas.RenderGate

/-! Driver for C01 (also used by C07 gating and C11 observation). Stateful; one case = one Vaxis
session on the fake console. Lines (fields separated by spaces, strings in hex, `-` = empty):

  #case <id>
  caps <rgb> <styledUnderlines> <explicitWidth> <sync>          (0/1 each)
  size <cols> <rows>
  dict <ghex>:<cw> …                                             (graphemes used, with characterWidth)
  cell <id> <ghex> <w> <fg> <bg> <ul> <ulstyle> <attr> <linkhex> <paramshex>
  showcursor <col> <row> <style> | hidecursor | shape <hex>
  render <grid>  \t <bytes hex>      grid = rows separated by '/', cell ids separated by ','
  refresh <grid> \t <bytes hex>
  resize <cols> <rows> \t <bytes hex>

For render/refresh/resize the output is  model-canon \t impl-canon \t verdict  where the canon forms
compare the model's token list with the tokens lexed from the real bytes, and the verdict is the
property oracle: the real bytes are interpreted by `Spec.Display` (from a scrambled grid when the
frame is a refresh / first frame after a resize) and the result is compared with the application's
screen, the requested cursor, pen reset, link closed, sync balanced, nothing terminal-specific. -/
namespace VaxisModel.Driver.C01
open VaxisModel.Driver VaxisModel.Model.Render VaxisModel.Spec VaxisModel.Spec.Display

structure St where
  caps : Caps := {}
  cols : Nat := 0
  rows : Nat := 0
  dict : List (String × Nat) := []
  cells : List (Nat × Cell) := []
  last : Grid := []
  refresh : Bool := true
  cn : CursorState := { style := 2 }
  cl : CursorState := {}
  shapeN : String := ""
  shapeL : String := ""
  term : Term := Term.init 0 0
  dead : Bool := false      -- a frame of this case already failed: later frames are not judged (no cascades)
  deriving Inhabited

def cwOf (dict : List (String × Nat)) (g : String) : Nat :=
  match dict.find? (·.1 == g) with
  | some (_, w) => w
  | none => if g = "" then 0 else 1

def unhex (s : String) : String := if s = "-" then "" else s

def tokStr : Tok → String
  | .cup r c => s!"cup({r},{c})"
  | .sgr ps => "sgr(" ++ ";".intercalate (ps.map fun p => ":".intercalate (p.map toString)) ++ ")"
  | .osc8 p u => s!"osc8({p},{u})"
  | .text g => s!"t({g})"
  | .textW w g => s!"tw({w},{g})"
  | .decset n => s!"set({n})"
  | .decrst n => s!"rst({n})"
  | .cursorStyle n => s!"cstyle({n})"
  | .pointer s => s!"ptr({s})"
  | .other r => s!"other({r})"

def firstDiff : List Tok → List Tok → Nat → Option (Nat × String × String)
  | [], [], _ => none
  | a :: as, b :: bs, i => if a = b then firstDiff as bs (i + 1) else some (i, tokStr a, tokStr b)
  | a :: _, [], i => some (i, tokStr a, "<end>")
  | [], b :: _, i => some (i, "<end>", tokStr b)

def junkCell : DCell := .glyph "58" 1 { fg := .idx 3, bold := true, ulStyle := 1 } "" "6a756e6b"

/-- "Whatever the terminal displayed before": junk in every cell, cursor somewhere else. -/
def scramble (t : Term) (moveCursor : Bool) : Term :=
  if moveCursor then
    { t with grid := List.replicate t.rows (List.replicate t.cols junkCell), row := t.rows - 1, col := 0, pw := false }
  else { t with grid := List.replicate t.rows (List.replicate t.cols junkCell) }

def dcellStr : DCell → String
  | .glyph g w st lp l => s!"[{g} w{w} {st.toString} {lp}|{l}]"
  | .cont => "[cont]"
  | .poison => "[poison]"

def gridDiff (next : Grid) (exp got : List (List DCell)) : Option String :=
  let rec rowDiff (r : Nat) : List (List DCell) → List (List DCell) → Option String
    | [], [] => none
    | e :: es, g :: gs =>
      let rec cellDiff (c : Nat) : List DCell → List DCell → Option String
        | [], [] => none
        | x :: xs, y :: ys =>
          if x = y then cellDiff (c + 1) xs ys else
          let unwritten := match next[r]? with
            | some row => (match row[c]? with | some cell => cell == ({} : Cell) | none => false)
            | none => false
          let note := if (y == DCell.poison) && unwritten then " (never-written cell beside a replaced wide glyph)" else ""
          some s!"cell row {r} col {c}: terminal shows {dcellStr y}, application set {dcellStr x}{note}"
        | _, _ => some s!"row {r}: length differs"
      match cellDiff 0 e g with
      | some d => some d
      | none => rowDiff (r + 1) es gs
    | _, _ => some "row count differs"
  rowDiff 0 exp got

/-- A cell flagged `sixel` lies under an image: the cell loop does not draw it, and what the terminal
    shows there is the image's business (C20) — those positions are not compared (unless the cell
    is covered by a wide glyph to its left, then the glyph's continuation is expected as usual). -/
def sixelDontCare (next : Grid) (exp got : List (List DCell)) : List (List DCell) :=
  (List.range exp.length).zipWith (fun r erow =>
    (List.range erow.length).zipWith (fun c e =>
      let sx := match next[r]? with
        | some row => (match row[c]? with | some cell => cell.sixel | none => false)
        | none => false
      if sx && e != DCell.cont then
        match got[r]? with
        | some grow => (match grow[c]? with | some g => g | none => e)
        | none => e
      else e) erow) exp

/-- C07 on the implementation: the first token of the frame that is neither baseline vocabulary nor
    allowed by the capability set. -/
def gateViolation (caps : Caps) (toks : List Tok) : Option String :=
  (toks.find? fun k => !(match k with
      | .other _ => false            -- a frame writes nothing outside the renderer vocabulary
      | k => VaxisModel.Lemmas.RenderGate.allowedTok caps k)).map fun k =>
    s!"FAIL not advertised: the frame writes {tokStr k} although the capability set does not allow it"

def verdict (s : St) (next : Grid) (t : Term) : String :=
  match t.bad with
  | some why => s!"FAIL terminal-specific behaviour relied on: {why}"
  | none =>
  match gridDiff next (sixelDontCare next (Expected.expectedC (cwOf s.dict) s.caps next) t.grid) t.grid with
  | some d => s!"FAIL {d}"
  | none =>
  if t.pen ≠ TStyle.reset then s!"FAIL pen not reset after flush: {t.pen.toString}"
  else if t.link ≠ "" then "FAIL hyperlink left open after flush"
  else if t.sync ≠ 0 then s!"FAIL synchronized-update depth {t.sync} after flush"
  else if s.cn.visible then
    if ¬ t.cursorVisible then "FAIL cursor requested visible but hidden"
    else if (t.row : Int) ≠ s.cn.row ∨ (t.col : Int) ≠ s.cn.col ∨ t.pw then s!"FAIL cursor at ({t.row},{t.col}) requested ({s.cn.row},{s.cn.col})"
    else if t.cursorShape ≠ s.cn.style then s!"FAIL cursor shape {t.cursorShape} requested {s.cn.style}"
    else "ok"
  else if t.cursorVisible then "FAIL cursor requested hidden but visible"
  else "ok"

def parseGrid (s : St) (enc : String) : Option Grid :=
  if enc = "-" then some [] else
  (enc.splitOn "/").mapM fun row =>
    if row = "" then some [] else
    (row.splitOn ",").mapM fun id => do
      let n ← id.toNat?
      let (_, c) ← s.cells.find? (·.1 == n)
      pure c

def bad3 : String := "bad-op\tbad-op\tbad-op"

def frame (s : St) (enc : String) (implHex : String) (forceRefresh : Bool) : St × String :=
  match parseGrid s enc, hexBytes? implHex with
  | some next, some bytes =>
    let refresh := s.refresh || forceRefresh
    let f : Frame := { caps := s.caps, refresh := refresh, next := next, last := s.last,
                       cursorNext := s.cn, cursorLast := s.cl, shapeNext := s.shapeN, shapeLast := s.shapeL }
    let (last', mtoks) := renderFrameS (cwOf s.dict) f
    let dictBytes := s.dict.filterMap fun (g, _) => hexBytes? g
    let itoks := Tokenize.tokens dictBytes bytes
    -- the cursor is displaced too when the frame draws at least one cell (a screen entirely under
    -- images writes no cell: its bytes are the image transmissions, which this stream does not have)
    let t0 := if refresh then scramble s.term (next.any fun row => row.any fun c => !c.sixel) else s.term
    let t1 := Display.run (cwOf s.dict) t0 itoks
    let canon := match firstDiff mtoks itoks 0 with
      | none => let k := s!"toks={mtoks.length}"; (k, k)
      | some (i, a, b) => (s!"M@{i}:{a}", s!"I@{i}:{b}")
    let v := if s.dead then "-" else (gateViolation s.caps itoks).getD (verdict s next t1)
    let s' := { s with last := last', refresh := false, cl := s.cn, shapeL := s.shapeN, term := { t1 with bad := none },
                       dead := s.dead || (v != "ok" && v != "-") }
    (s', s!"{canon.1}\t{canon.2}\t{v}")
  | _, _ => (s, bad3)

def step (s : St) (line : String) : St × String :=
  let (op, impl) := splitTab line
  match fields op with
  | "#case" :: _ => ({}, "-\t-\t-")
  | "session" :: _ => (s, "-\t-\t-")      -- corpus scenario lines: what the harness did, for replay
  | "set" :: _ => (s, "-\t-\t-")
  | "sixel" :: _ => (s, "-\t-\t-")
  | ["clear"] => (s, "-\t-\t-")
  | ["caps", a, b, c, d] =>
      ({ s with caps := { rgb := a == "1", styledUnderlines := b == "1", explicitWidth := c == "1", sync := d == "1" } }, "-\t-\t-")
  | ["size", w, h] =>
      match w.toNat?, h.toNat? with
      | some w, some h =>
        ({ s with cols := w, rows := h, last := blankGrid w h, refresh := true,
                   term := { Term.init w h with cursorVisible := false } }, "-\t-\t-")
      | _, _ => (s, bad3)
  | "dict" :: es =>
      let add := es.filterMap fun e => match e.splitOn ":" with
        | [g, w] => w.toNat?.map fun w => (unhex g, w)
        | _ => none
      ({ s with dict := s.dict ++ add }, "-\t-\t-")
  | "cell" :: id :: g :: w :: fg :: bg :: ul :: uls :: attr :: link :: lp :: sx =>
      match id.toNat?, w.toInt?, fg.toNat?, bg.toNat?, ul.toNat?, uls.toNat?, attr.toNat? with
      | some id, some w, some fg, some bg, some ul, some uls, some attr =>
        let c : Cell := { g := unhex g, w := w, sixel := sx == ["1"],
                          style := { link := unhex link, linkParams := unhex lp, fg := fg, bg := bg, ul := ul, ulStyle := uls, attr := attr } }
        ({ s with cells := (id, c) :: s.cells }, "-\t-\t-")
      | _, _, _, _, _, _, _ => (s, bad3)
  | ["showcursor", c, r, st] =>
      match c.toInt?, r.toInt?, st.toNat? with
      | some c, some r, some st => ({ s with cn := { row := r, col := c, style := st, visible := true } }, "-\t-\t-")
      | _, _, _ => (s, bad3)
  | ["hidecursor"] => ({ s with cn := { s.cn with visible := false } }, "-\t-\t-")
  | ["shape", h] => ({ s with shapeN := unhex h }, "-\t-\t-")
  | ["render", enc] => frame s enc impl false
  | ["refresh", enc] => frame s enc impl true
  | ["resize", w, h] =>
      match w.toNat?, h.toNat? with
      | some w, some h =>
        -- Render() with the resize flag set: both buffers reallocated, refresh := true, nothing written
        let same := w = s.cols ∧ h = s.rows
        let s' := if same then s else
          { s with cols := w, rows := h, last := blankGrid w h, refresh := true,
                    term := { Term.init w h with cursorVisible := s.term.cursorVisible, cursorShape := s.term.cursorShape } }
        (s', s!"bytes=-\tbytes={impl}\t-")
      | _, _ => (s, bad3)
  | _ => (s, bad3)

def main : IO Unit := foldLoop ({} : St) step

end VaxisModel.Driver.C01
