import VaxisModel.Driver.Common
import VaxisModel.Driver.C01
import VaxisModel.Driver.C11
import VaxisModel.Model.App
import VaxisModel.Lemmas.AppSpec

/-! Driver for the op-level C01 stream (`harness/cmd/C01Ops`).  Stateful; one case = one Vaxis
session on the fake console.  The harness records every drawing call; this driver computes the
next-frame buffer itself with `Model.App.draw` (C11's window model) and the frame with
`Model.App.endFrame` (the C01 renderer model) — the very functions `Props.C01App.app_history_displays`
is stated over (`Lemmas.AppSys.sysStep` is `draw` / `endFrame` + the reference terminal).

Lines: see `harness/cmd/C01Ops/main.go`.  For `render` / `refresh` the output is

  model-canon = `<first token difference or toks=N>;<the model's buffer>`
  impl-canon  = the same from the real bytes and the real buffer (hook `VerifScreenNext`)
  verdict     = the C01 oracle (`Driver.C01.verdict`) on the REAL bytes, against the screen the
                *specification* ascribes to the drawing calls: every cell is the fold, in call
                order, of the `Spec.Window` writes that hit it (`Lemmas.AppSpec.specWrites`: clip
                region, origin + offset, reading-order layouts), from the zero cell; the cursor is
                the window's absolute origin + offset.  Neither uses the window model's `put`.
-/
namespace VaxisModel.Driver.C01Ops
open VaxisModel.Driver VaxisModel.Model.Render VaxisModel.Model.Window VaxisModel.Model.App
open VaxisModel.Spec VaxisModel.Spec.Display

structure GDef where
  id : Nat
  hex : String
  cw : Nat
  nl : Bool
  tb : Bool

structure St where
  caps : Caps := {}
  uc : Bool := false
  gs : List GDef := []
  ss : List (Nat × Style) := []
  v : Vx := Vx.init 0 0                      -- the model's Vaxis
  spec : List (List VaxisModel.Model.Window.Cell) := []        -- the screen according to the specification
  specCur : CursorState := {}                 -- the cursor according to the specification
  term : Term := Term.init 0 0                -- the reference terminal, fed the real bytes
  dead : Bool := false
  deriving Inhabited

def St.interp (s : St) : Interp :=
  { gOf := fun n => match s.gs.find? (·.id == n) with | some d => d.hex | none => ""
    stOf := fun n => match s.ss.find? (·.1 == n) with | some (_, st) => st | none => {} }

def St.lib (s : St) : Lib :=
  { cw := fun n => match s.gs.find? (·.id == n) with | some d => (d.cw : Int) | none => 1
    hasNL := fun n => match s.gs.find? (·.id == n) with | some d => d.nl | none => false
    trailBrk := fun n => match s.gs.find? (·.id == n) with | some d => d.tb | none => false }

def St.dict (s : St) : List (String × Nat) := s.gs.map fun d => (d.hex, d.cw)

def St.rm (s : St) : Bool := remeasure s.uc s.caps.explicitWidth

def unhex (s : String) : String := if s = "-" then "" else s

/-- `chain args ann` → the drawing call. -/
def parseDraw (kind chain args ann : String) : Option DrawOp := do
  if kind = "hidecursor" then return .hideCursor
  if kind = "mouseshape" then return .mouseShape (unhex ann)
  let steps ← (chain.splitOn "/").mapM C11.parseStep?
  let wins ← C11.buildChain steps
  let win ← wins.getLast?
  let a ← if args = "-" then some [] else C11.ints? args
  let segs ← C11.parseAnn? ann
  match kind, a with
  | "setcell", [c, r, g, w, st] => some (.setCell win c r { g := g.toNat, w := w, st := st.toNat })
  | "setstyle", [c, r, st] => some (.setStyle win c r st.toNat)
  | "fill", [g, w, st] => some (.fill win { g := g.toNat, w := w, st := st.toNat })
  | "clear", [] => some (.clear win)
  | "print", [] => some (.print win (C11.flat1 segs))
  | "println", [row] => some (.println win row (C11.flat1 segs))
  | "trunc", [row] => some (.printTruncate win row (C11.flat1 segs))
  | "wrap", [] => some (.wrap win segs)
  | "showcursor", [c, r, st] => some (.showCursor win c r st.toNat)
  | _, _ => none

/-- The specification's screen after one drawing call: each cell folds the writes that hit it. -/
def specDraw (s : St) (d : DrawOp) : List (List VaxisModel.Model.Window.Cell) :=
  let scr : Screen := { cols := s.v.scr.cols, rows := s.v.scr.rows, buf := [] }
  let ws := Lemmas.AppSpec.specWrites s.lib s.rm d
  (List.range s.spec.length).zipWith (fun (y : Nat) row =>
    (List.range row.length).zipWith (fun (x : Nat) c => Lemmas.App.foldHits scr (Int.ofNat x) (Int.ofNat y) c ws) row) s.spec

def specCursor (s : St) : DrawOp → CursorState
  | .showCursor win c r st =>
      let o := Spec.Window.absOrigin win
      { row := o.2 + r, col := o.1 + c, style := st, visible := true }
  | .hideCursor => { s.specCur with visible := false }
  | _ => s.specCur

def gridStr (buf : List (List VaxisModel.Model.Window.Cell)) : String :=
  if buf.isEmpty then "-" else
  "/".intercalate (buf.map fun row => ",".intercalate (row.map fun c => s!"{c.g}.{c.w}.{c.st}"))

/-- Consecutive raw text writes are one run of bytes on the wire: compare them as such (the lexer
    segments a run by longest match over the session's graphemes, which need not be where the cell
    boundaries were — two cells holding the halves of one cluster, finding F111c / F112d). -/
def mergeTexts : List Tok → List Tok
  | .text a :: .text b :: rest => mergeTexts (.text (a ++ b) :: rest)
  | k :: rest => k :: mergeTexts rest
  | [] => []
termination_by l => l.length

def bad3 : String := "bad-op\tbad-op\tbad-op"

def frame (s : St) (e : EndOp) (impl : String) : St × String :=
  match impl.splitOn " " with
  | [hex, implGrid] =>
    match hexBytes? hex with
    | none => (s, bad3)
    | some bytes =>
      let cw := C01.cwOf s.dict
      let refresh := s.v.refresh || (match e with | .refresh => true | _ => false)
      let modelGrid := gridStr s.v.scr.buf
      let (v', mtoks) := endFrame cw s.caps s.interp s.v e
      let dictBytes := s.dict.filterMap fun (g, _) => hexBytes? g
      let itoks := Tokenize.tokens dictBytes bytes
      let next : Grid := s.interp.grid s.spec
      let t0 := if refresh then C01.scramble s.term (next.any fun row => !row.isEmpty) else s.term
      let t1 := Display.run cw t0 itoks
      let canon := match C01.firstDiff (mergeTexts mtoks) (mergeTexts itoks) 0 with
        | none => let k := s!"toks={mtoks.length}"; (k, k)
        | some (i, a, b) => (s!"M@{i}:{a}", s!"I@{i}:{b}")
      let os : C01.St := { caps := s.caps, dict := s.dict, cn := s.specCur }
      let v := if s.dead then "-" else (C01.gateViolation s.caps itoks).getD (C01.verdict os next t1)
      ({ s with v := v', term := { t1 with bad := none }, dead := s.dead || (v != "ok" && v != "-") },
       s!"{canon.1};{modelGrid}\t{canon.2};{implGrid}\t{v}")
  | _ => (s, bad3)

def step (s : St) (line : String) : St × String :=
  let (op, impl) := splitTab line
  match fields op with
  | "#case" :: _ => ({}, "-\t-\t-")
  | ["caps", a, b, c, d, e] =>
      ({ s with caps := { rgb := a == "1", styledUnderlines := b == "1", explicitWidth := c == "1", sync := d == "1" },
                uc := e == "1" }, "-\t-\t-")
  | ["size", w, h] =>
      match w.toNat?, h.toNat? with
      | some w, some h =>
        ({ s with v := Vx.init w h, spec := List.replicate h (List.replicate w default), specCur := {},
                   term := { Term.init w h with cursorVisible := false } }, "-\t-\t-")
      | _, _ => (s, bad3)
  | ["g", id, hex, cw, nl, tb] =>
      match id.toNat?, cw.toNat? with
      | some id, some cw => ({ s with gs := s.gs ++ [{ id := id, hex := unhex hex, cw := cw, nl := nl == "1", tb := tb == "1" }] }, "-\t-\t-")
      | _, _ => (s, bad3)
  | ["s", id, fg, bg, ul, uls, attr, link, lp] =>
      match id.toNat?, fg.toNat?, bg.toNat?, ul.toNat?, uls.toNat?, attr.toNat? with
      | some id, some fg, some bg, some ul, some uls, some attr =>
        ({ s with ss := s.ss ++ [(id, { link := unhex link, linkParams := unhex lp, fg := fg, bg := bg, ul := ul, ulStyle := uls, attr := attr })] },
         "-\t-\t-")
      | _, _, _, _, _, _ => (s, bad3)
  | ["d", kind, chain, args, ann] =>
      match parseDraw kind chain args ann with
      | none => (s, bad3)
      | some d =>
        ({ s with v := draw s.lib s.rm s.v d, spec := specDraw s d, specCur := specCursor s d }, "-\t-\t-")
  | ["render"] => frame s .render impl
  | ["refresh"] => frame s .refresh impl
  | ["resize", w, h] =>
      match w.toNat?, h.toNat? with
      | some w, some h =>
        -- Render() with the resize flag set: both buffers reallocated, refresh := true, nothing written
        let (v', mtoks) := endFrame (C01.cwOf s.dict) s.caps s.interp s.v (.resize w h)
        let t' : Term := { Term.init w h with cursorVisible := s.term.cursorVisible, cursorShape := s.term.cursorShape }
        ({ s with v := v', spec := List.replicate h (List.replicate w default), term := t' },
         s!"bytes={if mtoks.isEmpty then "-" else "toks"}\tbytes={impl}\t-")
      | _, _ => (s, bad3)
  | _ => (s, bad3)

def main : IO Unit := foldLoop ({} : St) step

end VaxisModel.Driver.C01Ops
