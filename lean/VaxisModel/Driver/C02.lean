import VaxisModel.Driver.Common
import VaxisModel.Model.ParserIO
import VaxisModel.Model.ParserReaderInterp
import VaxisModel.Model.ParserUtf8
import VaxisModel.Gen.ParserReader
import VaxisModel.Spec.VT500

/-! Driver for C02.  One line per stream:

  `run <hex bytes> <chunk sizes, comma separated> <cluster table>\t<impl items>`

`cluster table` = `off:len,…` for the byte offsets whose grapheme cluster has more than one rune
(computed by the harness with uniseg), `-` if none.  Items are space separated tokens:
`P:<runes>` `C:<rune>` `E:<inter>:<final>` `S:<rune>` `I:<inter>:<params>:<final>` `O:<payload>`
`D:<final>:<inter>:<params>:<data>` `A:<data>` `X` (error value) `Z` (EOF) `!` (panic);
runes are hex joined by `.`, `-` = empty/nil; params decimal, `.` between sub-parameters, `,`
between parameters.  A trailing `STDLIB!<clause>` token = the harness found that clause of the
standard-library contract (`Model/ParserStdlib.lean`) violated by the real library on this case's reads.

Output: model-canon = the model (interpreting the *regenerated* table, with the same reads and the
same cluster oracle), impl-canon = the implementation's items, verdict = the Spec machine
(Spec/VT500.lean) run on the same bytes, compared with the implementation after merging adjacent
`Print`s and dropping `error` items; numbers are rendered as Go delivers them (CSI values wrap in a
64-bit int, a DCS with a value ≥ 2^63 has nil parameters), so overflowing parameters are judged too. -/
namespace VaxisModel.Driver.C02
open VaxisModel.Driver VaxisModel.Model.Parser VaxisModel.Model.ParserIO

def hexNat (n : Nat) : String := String.ofList (Nat.toDigits 16 n)

def runes (l : List Nat) : String :=
  if l.isEmpty then "-" else ".".intercalate (l.map hexNat)

def csiParams (ps : List (List Int)) : String :=
  if ps.isEmpty then "-" else ",".intercalate (ps.map fun p => ".".intercalate (p.map toString))

def intsComma (ps : List Int) : String :=
  if ps.isEmpty then "-" else ",".intercalate (ps.map toString)

def seqTok : Seq → String
  | .print r => s!"P:{hexNat r}"
  | .c0 r => s!"C:{hexNat r}"
  | .esc i f => s!"E:{runes i}:{hexNat f}"
  | .ss3 r => s!"S:{hexNat r}"
  | .csi i p f => s!"I:{runes i}:{csiParams p}:{hexNat f}"
  | .osc p => s!"O:{runes p}"
  | .dcs f i p d => s!"D:{hexNat f}:{runes i}:{intsComma p}:{runes d}"
  | .apc d => s!"A:{runes d}"
  | .err => "X"
  | .eof => "Z"
  | .panic => "!"

def itemTok : Item → String
  | .print g => s!"P:{runes g}"
  | .seq s => seqTok s

/-- A Spec number as Go delivers it in a CSI (`Props.C02Refine.codec_csi_holds`): mod 2^64, signed. -/
def goI (n : Nat) : Int := wrap64 (Int.ofNat n)

/-- Spec DCS parameters as `hook` delivers them (`codec_dcs_holds`): nil if one does not fit an `int`. -/
def goD (p : List Nat) : List Int :=
  if p.all (fun x => decide (x < 9223372036854775808)) then p.map Int.ofNat else []

def specTok : Spec.VT500.Item → String
  | .print r => s!"P:{hexNat r}"
  | .c0 r => s!"C:{hexNat r}"
  | .esc i f => s!"E:{runes i}:{hexNat f}"
  | .ss3 r => s!"S:{hexNat r}"
  | .csi i p f => s!"I:{runes i}:{csiParams (p.map (·.map goI))}:{hexNat f}"
  | .osc p => s!"O:{runes p}"
  | .dcs f i p d => s!"D:{hexNat f}:{runes i}:{intsComma (goD p)}:{runes d}"
  | .apc d => s!"A:{runes d}"

/-- Print token with invalid bytes marked `~xx` (for naming the invalid-byte deviation). -/
def specTokM : Spec.VT500.Item → String
  | .print r => if r ≥ Spec.VT500.invalidMark then s!"P:~{hexNat (Spec.VT500.unmark r)}" else s!"P:{hexNat r}"
  | .osc p => specTok (.osc (p.map Spec.VT500.unmark))
  | .dcs f i ps d => specTok (.dcs (Spec.VT500.unmark f) i ps (d.map Spec.VT500.unmark))
  | .apc d => specTok (.apc (d.map Spec.VT500.unmark))
  | .ss3 r => specTok (.ss3 (Spec.VT500.unmark r))
  | it => specTok it

/-- impl token vs marked spec token: equal, or a Print whose runes agree except that the
    implementation may show U+FFFD where the spec has a raw invalid byte. -/
def relTok (i s : String) : Bool :=
  i = s.replace "~" "" ||
  (i.startsWith "P:" && s.startsWith "P:" &&
    let ir := ((i.drop 2).toString).splitOn "."
    let sr := ((s.drop 2).toString).splitOn "."
    ir.length = sr.length &&
    (ir.zip sr).all fun (a, b) => a = b || (b.startsWith "~" && (a = (b.drop 1).toString || a = "fffd")))

def relToks (i s : List String) : Bool :=
  i.length = s.length && (i.zip s).all fun (a, b) => relTok a b

/-- Merge adjacent `P:` tokens (a cluster may arrive in pieces at a read boundary). -/
def mergePrints : List String → List String
  | a :: b :: rest =>
    if a.startsWith "P:" && b.startsWith "P:" then mergePrints ((a ++ "." ++ (b.drop 2).toString) :: rest)
    else a :: mergePrints (b :: rest)
  | l => l
termination_by l => l.length

/-- Kept for `Driver/C08.lean`: no item is exempt from the oracle any more — numbers beyond a Go `int`
    are rendered as the code delivers them (`goI`, `goD`), which `Props.C02Refine.codec_*_holds` proves. -/
def tooBig (_ : Spec.VT500.Item) : Bool := false

/-- offsets → cluster length -/
def parseClusters (s : String) : Option (List (Nat × Nat)) :=
  if s = "-" ∨ s = "" then some [] else
  (s.splitOn ",").mapM fun e =>
    match e.splitOn ":" with
    | [a, b] => do let x ← a.toNat?; let y ← b.toNat?; pure (x, y)
    | _ => none

def lookupCl (tbl : List (Nat × Nat)) (pos : Nat) : Nat :=
  match tbl.find? (·.1 = pos) with
  | some (_, l) => l
  | none => 1

def splitChunks : List Nat → List Nat → List (List Nat)
  | bs, [] => if bs.isEmpty then [] else [bs]
  | bs, n :: ns => bs.take n :: splitChunks (bs.drop n) ns

/-- `text_blocks` evaluated on the implementation's output (text streams only: every byte ≥ 0x20, every
    item a Print): the Prints are consecutive blocks of units; a block at byte offset `pos` has at most
    `max 1 (cl pos)` units, and fewer only if it ends at a read boundary, at the end of the stream, or
    in front of an invalid byte.  Returns a complaint, or "" if fine / not applicable. -/
def blocksComplaint (bytes : List Nat) (sizes : List Nat) (cl : Nat → Nat) (toks : List String) : String :=
  if !(bytes.all (· ≥ 0x20)) then "" else
  let body := toks.filter (· ≠ "X")
  if !(body.all fun t => t.startsWith "P:" || t = "Z") then "" else
  let prints := body.filter (·.startsWith "P:")
  let us := VaxisModel.Model.ParserUtf8.units bytes
  let cuts : List Nat := (sizes.foldl (fun (acc : List Nat × Nat) n => (acc.1 ++ [acc.2 + n], acc.2 + n)) ([], 0)).1
  let rec go (fuel : Nat) (ps : List String) (us : List VaxisModel.Model.ParserUtf8.U) (pos : Nat) : String :=
    match fuel, ps with
    | 0, _ => ""
    | _, [] => ""
    | fuel + 1, p :: rest =>
      let k := (((p.drop 2).toString).splitOn ".").length
      let blk := us.take k
      let after := us.drop k
      let want := max 1 (cl pos)
      let endPos := pos + VaxisModel.Model.ParserUtf8.ulen blk
      let nextInvalid := match after with | u :: _ => u.inv | [] => true
      if blk.length < k then ""                -- more runes than units: left to the main oracle
      else if k > want then s!"Print at byte {pos} has {k} runes, the cluster there has {want}"
      else if k < want && !(cuts.contains endPos) && !nextInvalid then
        s!"cluster at byte {pos} ({want} runes) delivered in pieces ({k} first) although byte {endPos} is not a read boundary"
      else go fuel rest after endPos
  go (prints.length + 1) prints us 0

def verdict (bytes : List Nat) (impl : String) : String :=
  let toks := (impl.splitOn " ").filter (· ≠ "")
  -- the harness found a clause of `Model/ParserStdlib.lean : StdlibContract` violated by the real
  -- unicode/utf8 / bufio.Reader on the reads of this case (marker `STDLIB!<clause>`)
  if toks.any (·.startsWith "STDLIB!") then
    "FAIL[stdlib-contract] the standard library does not meet the contract the reader model assumes: " ++
      " ".intercalate (toks.filter (·.startsWith "STDLIB!"))
  else if toks.any (·.startsWith "W!") then "FAIL Print width differs from the width of its grapheme: " ++ impl
  else if toks.contains "!" then "FAIL panic"
  else if toks.contains "hang" then "FAIL hang"
  else if toks.getLast? ≠ some "Z" then "FAIL last item is not EOF"
  else
    let body := mergePrints ((toks.dropLast).filter (· ≠ "X"))
    if body.contains "Z" then "FAIL EOF delivered before the end" else
    let rsM := Spec.VT500.decodeMarked bytes
    let rs := rsM.map Spec.VT500.unmark
    let (out, flush) := Spec.VT500.run rs
    let agrees (o f : List Spec.VT500.Item) : Bool :=
      body = mergePrints (o.map specTok) || body = mergePrints ((o ++ f).map specTok)
    if agrees out flush then "ok" else
    -- name the failure if it is exactly a combination of the known deviations
    let devs : List (String × Spec.VT500.Dev) :=
      [("", {}), ("st-after-empty-string", { lazyST := true }), ("st-after-c0-in-escape", { c0ClearsST := true }),
       ("st-after-empty-string+st-after-c0-in-escape", { lazyST := true, c0ClearsST := true })]
    let strict := devs.find? fun (_, d) => let (o, f) := Spec.VT500.runD d rs; agrees o f
    let tagS := match strict with
      | some (n, _) => s!"[{n}]"
      | none =>
        let relaxed : Option (String × Spec.VT500.Dev) := devs.find? fun (_, d) =>
            let (oM, fM) := Spec.VT500.runD d rsM
            relToks body (mergePrints (oM.map specTokM)) || relToks body (mergePrints ((oM ++ fM).map specTokM))
        match relaxed with
        | some (n, _) => if n = "" then "[invalid-byte-as-fffd]" else s!"[{n}+invalid-byte-as-fffd]"
        | none => ""
    let want := mergePrints (out.map specTok)
    s!"FAIL{tagS} spec requires [{" ".intercalate want}]" ++
      (if flush.isEmpty then "" else s!" (optionally + [{" ".intercalate (flush.map specTok)}])")

def step (line : String) : String :=
  let (op, impl) := splitTab line
  if op.startsWith "#" then "-\t-\t-" else
  match fields op with
  | ["run", hx, ch, cl] =>
    match hexBytes? hx, commaNats? ch, parseClusters cl with
    | some bytes, some sizes, some tbl =>
      -- the regenerated table interpreted, and `readRune` / `print` interpreted from their regenerated bodies
      -- (`Props.C02Text.reader_interpreted_eq_model`: = `runChunks`); a body that cannot be interpreted
      -- (statement outside the vocabulary: `reader_skeleton_recognised` fails) falls back to the hand model
      let items := (VaxisModel.Model.ParserReaderInterp.runChunksI VaxisModel.Gen.ParserReader.readRuneBody VaxisModel.Gen.ParserReader.printBody
        genTable (lookupCl tbl) (splitChunks bytes sizes)).getD (runChunks genTable (lookupCl tbl) (splitChunks bytes sizes))
      let mc := " ".intercalate (items.map itemTok)
      let v := verdict bytes impl
      let v := if v = "ok" then
          (let c := blocksComplaint bytes (if sizes.isEmpty then [bytes.length] else sizes) (lookupCl tbl)
                      ((impl.splitOn " ").filter (· ≠ ""))
           if c = "" then v else "FAIL[cluster-pieces] " ++ c)
        else v
      s!"{mc}\t{impl}\t{v}"
    | _, _, _ => "bad-op\tbad-op\tbad-op"
  | _ => "bad-op\tbad-op\tbad-op"

def main : IO Unit := lineLoop step

end VaxisModel.Driver.C02
