import VaxisModel.Driver.Common
import VaxisModel.Model.InputLoop
import VaxisModel.Model.InputQuery
import VaxisModel.Spec.InputEvents

/-! Driver for C03.  Stateful: a case is
```
#case id
init mask=<m> caps=<17 bits> p=<b> q=<b> z=<b> ns=c,r,x,y ucs=<n> ch=<5 digits>
-- direct cases:
seq <sequence> [k <tok> <et>]      ⇥ <outcome> ev=<events> snd=<values> <state>
setreq <b> | drain | stub <b>
-- stream cases:
stream wf=<b> queue=<n> bytes=<hex>
report <grammar-level report>*
sseq <sequence>*
end                                ⇥ <outcome> ev=<events> snd=<values> <state>
```
model-canon = what `Model.Input.handle` + the LTS step semantics of `Model.InputLoop` predict;
verdict = the property oracle (`Spec.InputEvents`, no panic, no wedge) on the implementation's result. -/
namespace VaxisModel.Driver.C03
open VaxisModel.Driver VaxisModel.Model.Input VaxisModel.Model.InputLoop
open VaxisModel.Spec.InputEvents (Report UEvent specEvents specInternal mouseEvent)

def cps? (s : String) : Option (List Nat) :=
  if s = "-" ∨ s = "" then some [] else (s.splitOn ",").mapM (·.toNat?)

def cpsOut (l : List Nat) : String :=
  if l.isEmpty then "-" else ",".intercalate (l.map toString)

def csiParams? (s : String) : Option (List (List Int)) :=
  if s = "-" then some [] else
    (s.splitOn ";").mapM fun p =>
      if p = "e" then some [] else (p.splitOn ":").mapM (·.toInt?)

def ints? (s : String) : Option (List Int) :=
  if s = "-" then some [] else (s.splitOn ",").mapM (·.toInt?)

structure KeyInfo where
  tok : String := "?"
  et : Int := 0

/-- Parse `<kind> args… [k tok et]`; for OSC the base64 oracle. -/
def parseSeq (f : List String) : Option (Seq × KeyInfo × Option (List Nat)) :=
  let key (rest : List String) : KeyInfo :=
    match rest with
    | ["k", tok, et] => { tok := tok, et := et.toInt?.getD 0 }
    | _ => {}
  match f with
  | "print" :: g :: w :: rest => do
      let g ← cps? g; let w ← w.toInt?
      pure (.print g w, key rest, none)
  | "c0" :: r :: rest => do pure (.c0 (← r.toNat?), key rest, none)
  | "esc" :: im :: fin :: rest => do pure (.esc (← cps? im) (← fin.toNat?), key rest, none)
  | "ss3" :: r :: rest => do pure (.ss3 (← r.toNat?), key rest, none)
  | "csi" :: im :: ps :: fin :: rest => do
      pure (.csi (← cps? im) (← csiParams? ps) (← fin.toNat?), key rest, none)
  | ["dcs", fin, im, ps, data] => do
      pure (.dcs (← fin.toNat?) (← cps? im) (← ints? ps) (← cps? data), {}, none)
  | ["apc", data] => do pure (.apc (← cps? data), {}, none)
  | ["osc", pl, b] => do
      let pl ← cps? pl
      let dec : Option (List Nat) :=
        if b = "n" then none else if b = "=" then some [] else cps? ((b.drop 1).toString)
      pure (.osc pl, {}, dec)
  | ["other"] => some (.other, {}, none)
  | _ => none

def renderEvent (k : KeyInfo) : Event → String
  | .key _ paste => s!"K/{k.tok}/{if paste then (evPaste : Int) else k.et}"
  | .mouse m => s!"M/{m.button}/{m.row}/{m.col}/{m.eventType}/{m.mods}"
  | .focusIn => "FI" | .focusOut => "FO" | .pasteStart => "PS" | .pasteEnd => "PE"
  | .colorTheme m => s!"CT/{m}"
  | .redraw => "RD"
  | .internal i => s!"i/{i.name}"
  | .appID s => s!"A/{cpsOut s}"
  | .terminalID s => s!"T/{cpsOut s}"

def bit (b : Bool) : String := if b then "1" else "0"

structure D where
  sys : Sys := {}
  stub : Bool := true
  stream : Bool := false
  wf : Bool := false
  reports : Array (Report String) := #[]
  evs : Array String := #[]
  snd : Array String := #[]
  outcome : String := "alive"
  bad : Bool := false
  /-- small event queue: non-blocking posts (Redraw, appID) may legitimately be dropped -/
  smallQueue : Bool := false

def canonState (s : Sys) : String :=
  let c := String.join (s.vs.caps.toList.map bit)
  let ns := s.vs.nextSize
  s!"caps={c} p={bit s.vs.pastePending} q={bit s.vs.reqCursorPos} z={bit s.vs.resizeFlag} ns={ns.cols},{ns.rows},{ns.xpix},{ns.ypix} ucs={s.vs.userCursorStyle} ch={s.cursorCh.length}{s.sizeDone}{s.color.length}{s.fg.length}{s.bg.length}"

def capsOfBits (l : List Bool) : Caps :=
  match l with
  | [a, b, c, d, e, f, g, h, i, j, k, l, m, n, o, p, q] =>
    { synchronizedUpdate := a, unicodeCore := b, noZWJ := c, rgb := d, kittyGraphics := e, kittyKeyboard := f,
      styledUnderlines := g, sixels := h, colorThemeUpdates := i, reportSizeChars := j, reportSizePixels := k,
      osc4 := l, osc10 := m, osc11 := n, osc176 := o, inBandResize := p, explicitWidth := q }
  | _ => {}

/-- Which capabilities a terminal advertising the fake console's mask bits must end up with
(fakeconsole.CapNames: 0 sixel, 1 sync, 2 unicodeCore, 3 colorTheme, 4 kittyKeyboard, 5 kittyGraphics,
6 rgb, 7 styledUnderlines, 8 osc4, 9 osc10, 10 osc11, 11 osc176, 12 sizePixels, 13 sizeChars,
14 inBandResize, 15 explicitWidth, 16 vte, 17 sixelGeom, 18 xtversion), in `capabilities` order. -/
def capsOfMask (m : Nat) : List Bool :=
  let b (i : Nat) : Bool := m / 2 ^ i % 2 == 1
  [b 1, b 2, false, b 6, b 5, b 4, b 7 || b 16, b 0 || b 17, b 3, b 13, b 12, b 8, b 9, b 10, b 11, b 14, b 15]

def kv (f : List String) (k : String) : Option String :=
  f.findSome? fun x => if x.startsWith (k ++ "=") then some ((x.drop (k.length + 1)).toString) else none

def parseInit (f : List String) : Option Sys := do
  let caps ← kv f "caps"
  let p ← kv f "p"; let q ← kv f "q"; let z ← kv f "z"
  let ns ← kv f "ns"; let ucs ← kv f "ucs"; let ch ← kv f "ch"
  let nsl ← (ns.splitOn ",").mapM (·.toInt?)
  let (c, r, x, y) ← match nsl with | [c, r, x, y] => some (c, r, x, y) | _ => none
  let chl := ch.toList.map fun d => d.toNat - 48
  let (cp, sd, co, fg, bg) ← match chl with | [z, a, b, c, d] => some (z, a, b, c, d) | _ => none
  let vs : VState := { pastePending := p == "1", reqCursorPos := q == "1", resizeFlag := z == "1",
                       caps := capsOfBits (caps.toList.map (· == '1')), nextSize := { cols := c, rows := r, xpix := x, ypix := y },
                       userCursorStyle := (← ucs.toInt?) }
  -- contents of pre-filled channels are unknown (never happens right after New); use placeholders
  pure { vs := vs, cursorCh := List.replicate cp (0, 0), sizeDone := sd, color := List.replicate co [], fg := List.replicate fg [], bg := List.replicate bg [] }

def params (qcap : Nat) (b64 : Option (List Nat)) : Params :=
  { qcap := qcap, kinds := Kinds.ofGen, b64 := fun _ => b64 }

/-- Perform the pending effects in the harness environment (event queue never full, requester
stubs per `stub`).  Returns the final system, events, sent values and the first block. -/
def perform (k : KeyInfo) (p : Params) (stub : Bool) (fuel : Nat) (s : Sys) (evs snd : Array String) (blk : Option String) :
    Sys × Array String × Array String × Option String :=
  match fuel with
  | 0 => (s, evs, snd, blk)
  | fuel + 1 =>
    match s.pend with
    | [] => (s, evs, snd, blk)
    | e :: rest =>
      let s := { s with cursorWaiting := stub, clipWaiting := stub, queue := [] }
      match e with
      | .postB ev | .postNB ev => perform k p stub fuel { s with pend := rest } (evs.push (renderEvent k ev)) snd blk
      | .sendCursorPos r c =>
          match stepEffect p s e rest with
          | some s' =>
              -- a stub requester is always waiting: it takes the answer at once (rendezvous or buffered)
              if stub then perform k p stub fuel { s' with cursorCh := [] } evs (snd.push s!"cp:{r}:{c}") blk
              else perform k p stub fuel s' evs snd blk
          | none => perform k p stub fuel { s with pend := rest } evs (snd.push s!"released:cp:{r}:{c}") (blk.orElse fun _ => some "chCursorPos")
      | .sendClipboard v =>
          match stepEffect p s e rest with
          | some s' => perform k p stub fuel s' evs (snd.push s!"cb:{cpsOut v}") blk
          | none => perform k p stub fuel { s with pend := rest } evs snd blk   -- 10 ms time-out
      | .sendSizeDone =>
          match stepEffect p s e rest with
          | some s' => perform k p stub fuel s' evs snd blk
          | none => perform k p stub fuel { s with pend := rest } evs (snd.push "released:sd") (blk.orElse fun _ => some "chSizeDone")
      | .sendColor v =>
          match stepEffect p s e rest with
          | some s' => perform k p stub fuel s' evs snd blk
          | none => perform k p stub fuel { s with pend := rest, color := [v] } evs (snd.push s!"released:col:{cpsOut (s.color.headD [])}") (blk.orElse fun _ => some "chColor")
      | .sendFg v =>
          match stepEffect p s e rest with
          | some s' => perform k p stub fuel s' evs snd blk
          | none => perform k p stub fuel { s with pend := rest, fg := [v] } evs (snd.push s!"released:fg:{cpsOut (s.fg.headD [])}") (blk.orElse fun _ => some "chFg")
      | .sendBg v =>
          match stepEffect p s e rest with
          | some s' => perform k p stub fuel s' evs snd blk
          | none => perform k p stub fuel { s with pend := rest, bg := [v] } evs (snd.push s!"released:bg:{cpsOut (s.bg.headD [])}") (blk.orElse fun _ => some "chBg")

def joinA (a : Array String) : String := if a.isEmpty then "-" else "|".intercalate a.toList

def wfSeq : Seq → Bool
  | .csi _ ps _ => ps.all fun p => !p.isEmpty
  | _ => true

def short (ch : String) : String :=
  if ch == "chSizeDone" then "sd" else if ch == "chColor" then "col" else if ch == "chFg" then "fg"
  else if ch == "chBg" then "bg" else ch

/-- Canonical form of an implementation result: panics and wedges lose their details. -/
def implCanon (impl : String) : String :=
  if impl.startsWith "panic" then "panic"
  else if impl.startsWith "wedged" then (impl.splitOn " ").headD "wedged"
  else impl

def userVisibleCanon (e : String) : Bool :=
  !(e.startsWith "i/" || e.startsWith "A/" || e.startsWith "T/")

def evsOf (impl : String) : List String :=
  match (impl.splitOn " ").find? (·.startsWith "ev=") with
  | some x => let b := (x.drop 3).toString; if b = "-" then [] else b.splitOn "|"
  | none => []

def mouseOracle (q : Seq) (impl : String) : Option String :=
  match q with
  | .csi [60] [[b], [x], [y]] fin =>
    if (fin == 77 || fin == 109) && b ≥ 0 && x ≥ 0 && y ≥ 0 then
      let want := (mouseEvent (κ := String) b.toNat x.toNat y.toNat (fin == 109)).canon
      let got := evsOf impl
      if got == [want] then none else some s!"FAIL mouse report must yield exactly {want}, got {got}"
    else none
  | _ => none

def parseAnn (a : String) : Option (List String) :=
  if a == "?" then none else if a == "-" then some [] else some (a.splitOn ",")

/-- Name of an internal notification in the canonical event list. -/
def internalName (e : String) : Option String :=
  if e.startsWith "i/" then some ((e.drop 2).toString)
  else if e.startsWith "T/" then some "terminalID"
  else if e.startsWith "A/" then some "appID"
  else none

def parseReport (f : List String) : Option (Report String) :=
  match f with
  | ["key", tok, et] => some (.key tok (et.toInt?.getD 0))
  | ["mouse", b, x, y, fin] => do pure (.mouseSGR (← b.toNat?) (← x.toNat?) (← y.toNat?) (fin == "m"))
  | ["focus", "in"] => some (.focus true)
  | ["focus", "out"] => some (.focus false)
  | ["paste", "start"] => some .pasteStart
  | ["paste", "end"] => some .pasteEnd
  | ["reply", "inband", a] => some (.replyInband (parseAnn a))
  | ["reply", "theme", m] => do pure (.replyTheme (← m.toNat?))
  | ["reply", n, a] => some (.reply n (parseAnn a))
  | ["trunc", n] => some (.truncated n)
  | _ => none

def firstDiff : List String → List String → Nat → String
  | [], [], _ => "none"
  | a :: as, b :: bs, i => if a == b then firstDiff as bs (i + 1) else s!"at {i}: required {a}, got {b}"
  | a :: _, [], i => s!"at {i}: required {a}, got nothing"
  | [], b :: _, i => s!"at {i}: unexpected {b}"

def step (d : D) (line : String) : D × String :=
  let (op, impl) := splitTab line
  let f := fields op
  match f with
  | "#case" :: _ => ({}, "-\t-\t-")
  | "init" :: rest =>
    match parseInit rest with
    | some s =>
      -- oracle for the start-up collection of `New`: the capabilities are exactly those the
      -- terminal advertised in its replies (fake console capability mask)
      let verdict := match (kv rest "mask").bind String.toNat? with
        | some m =>
          -- `probe=silent` / `probe=col7`: the explicit-width probe was not answered / answered with a column that is
          -- neither 1 nor 2 — no advertisement of explicit width, whatever the mask says
          let probeStd := ((kv rest "probe").getD "std") == "std"
          let want0 := capsOfMask m
          let want := if probeStd then want0 else
            (Caps.fieldNames.zip want0).map fun (x : String × Bool) => if x.1 == "explicitWidth" then false else x.2
          let got := s.vs.caps.toList
          -- explicitWidth = the probe was answered with column 2 (mask bit 15; with a tiny event queue the answer may
          -- be stuck behind a full queue until the 50 ms time-out: not compared then); noZWJ = the quirk of a terminal
          -- identifying as kitty (the fake console identifies as "fake 1.0": false)
          let smallQ := (kv rest "queue").getD "0" != "0"
          let cmp : List (String × Bool × Bool) := (Caps.fieldNames.zip (want.zip got)).filter
            fun (x : String × Bool × Bool) => !(x.1 == "explicitWidth" && smallQ) && x.2.1 != x.2.2 &&
              -- the OSC 176 reply is posted with the non-blocking PostEvent: with a tiny queue it may be dropped
              !(x.1 == "osc176" && (kv rest "queue").getD "0" != "0")
          match cmp with
          | [] => "ok"
          | x :: _ => s!"FAIL after New the capability {x.1} is {x.2.2} although the terminal's replies say {x.2.1}"
        | none => "-"
      ({ d with sys := s }, s!"init\tinit\t{verdict}")
    | none => ({ d with bad := true }, if impl == "error" then "init\terror\tFAIL vaxis.New failed on the fake console" else "bad-init\tbad-init\tbad-op")
  | "setreq" :: b :: _ =>
    let s := { d.sys with vs := { d.sys.vs with reqCursorPos := b == "1" } }
    ({ d with sys := s }, s!"{canonState s}\t{impl}\t-")
  | ["stub", b] => ({ d with stub := b == "1" }, "-\t-\t-")
  | ["drain"] =>
    let s := d.sys
    let out := (s.cursorCh.toArray.map fun v => s!"cp:{v.1}:{v.2}") ++ (if s.sizeDone > 0 then #["sd"] else #[]) ++ (s.color.toArray.map fun v => s!"col:{cpsOut v}")
      ++ (s.fg.toArray.map fun v => s!"fg:{cpsOut v}") ++ (s.bg.toArray.map fun v => s!"bg:{cpsOut v}")
    let s := { s with cursorCh := [], sizeDone := 0, color := [], fg := [], bg := [] }
    ({ d with sys := s }, s!"{joinA out} {canonState s}\t{impl}\t-")
  | "seq" :: rest =>
    match parseSeq rest with
    | none => (d, "bad-op\tbad-op\tbad-op")
    | some (q, k, b64) =>
      let p := params 1024 b64
      match next p d.sys (.input q) with
      | some (.ok s1) =>
        let (s2, evs, snd, blk) := perform k p d.stub 64 s1 #[] #[] none
        let outcome := match blk with | some c => s!"blk:{c}" | none => "ok"
        let mc := s!"{outcome} ev={joinA evs} snd={joinA snd} {canonState s2}"
        let verdict :=
          if impl.startsWith "panic" then (if wfSeq q then "FAIL handleSequence panicked on a sequence the parser can deliver" else "-")
          else if impl.startsWith "blk:" then s!"FAIL handleSequence blocks on {(impl.splitOn " ").headD ""} with nobody receiving (the input loop would wedge)"
          else if impl.startsWith "hang" then "FAIL handleSequence does not return"
          else match mouseOracle q impl with
            | some v => v
            | none => "ok"
        ({ d with sys := s2 }, s!"{mc}\t{implCanon impl}\t{verdict}")
      | some (.error _) =>
        let verdict :=
          if impl.startsWith "panic" then (if wfSeq q then "FAIL handleSequence panicked on a sequence the parser can deliver" else "-")
          else "ok"
        (d, s!"panic\t{implCanon impl}\t{verdict}")
      | none => (d, "not-idle\tnot-idle\tbad-op")
  | "query" :: kind :: rest =>
    -- a solicited reply: requester call, the reply as input, the hand-off — as a run of the LTS
    let implRes := (impl.splitOn " ").headD ""
    let bad := impl.contains "wedged" || implRes == "hang" || implRes == "panic"
    let finish (s' : Option Sys) (res want : String) : D × String :=
      match s' with
      | none => (d, s!"not-a-run\t{impl}\tbad-op")
      | some s' =>
        let s'' := { s' with cursorGot := [], clipGot := [] }
        let verdict := if bad then s!"FAIL the requester or the input loop did not survive the query: {impl}"
          else if implRes == want then "ok" else s!"FAIL the query must return {want}, got {implRes}"
        ({ d with sys := s'' }, s!"{res} {canonState s''}\t{impl}\t{verdict}")
    match kind, rest with
    | "key", seqf =>
      -- a `CSI r;c R` report with no cursor-position query outstanding: user input
      match parseSeq seqf with
      | some (q, k, b64) =>
        let p := params 1024 b64
        match next p d.sys (.input q) with
        | some (.ok s1) =>
          let (s2, evs, _, _) := perform k p false 64 s1 #[] #[] none
          let want := s!"K/{k.tok}/{k.et}"
          let got := evsOf impl
          let verdict :=
            if bad then s!"FAIL the input loop did not survive a key report: {impl}"
            else if got == [want] then "ok"
            else s!"FAIL no cursor-position query is outstanding, so this report is a key press and must yield exactly {want}; got {got} (user input lost or altered)"
          ({ d with sys := s2 }, s!"ev={joinA evs} {canonState s2}\t{impl}\t{verdict}")
        | _ => (d, "not-a-run\tnot-a-run\tbad-op")
      | none => (d, "bad-op\tbad-op\tbad-op")
    | "cursor", [r, c, mode] =>
      match r.toInt?, c.toInt? with
      | some r, some c =>
        if mode == "reply" then
          let p := params 1024 none
          let pre : List Label := if p.cursorDrain then [.cursorDrain] else []
          let post : List Label := if p.cursorCap = 0 then [] else [.cursorRecv]
          let s' := run p d.sys (pre ++ [.cursorCall, .input (.csi [] [[r], [c]] 82), .step] ++ post)
          let res := match s'.bind (·.cursorGot.getLast?) with
            | some (a, b) => s!"{a - 1},{b - 1}"
            | none => "none"
          finish s' res s!"{r - 1},{c - 1}"
        else
          let p := params 1024 none
          let pre : List Label := if p.cursorDrain then [.cursorDrain] else []
          finish (run p d.sys (pre ++ [.cursorCall, .cursorTimeout])) "-1,-1" "-1,-1"
      | _, _ => (d, "bad-op\tbad-op\tbad-op")
    | "size", [h, w, hp, wp, mode] =>
      match h.toInt?, w.toInt?, hp.toInt?, wp.toInt? with
      | some h, some w, some hp, some wp =>
        let caps := d.sys.vs.caps
        if !(caps.reportSizeChars && caps.reportSizePixels) || caps.inBandResize then (d, s!"unsupported\tunsupported\t-")
        else if mode == "reply" then
          let p := params 1024 none
          let s' := run p d.sys [.input (.csi [] [[4], [hp], [wp]] 116), .input (.csi [] [[8], [h], [w]] 116), .step, .sizeRecv]
          let res := match s' with
            | some t => s!"{t.vs.nextSize.cols},{t.vs.nextSize.rows},{t.vs.nextSize.xpix},{t.vs.nextSize.ypix}"
            | none => "none"
          finish s' res s!"{w},{h},{wp},{hp}"
        else finish (some d.sys) "err" "err"
      | _, _, _, _ => (d, "bad-op\tbad-op\tbad-op")
    | "clip", mode :: seqf =>
      match parseSeq seqf with
      | some (q, _, b64) =>
        if mode == "reply" then
          let p := params 1024 b64
          let s' := run p d.sys [.clipCall, .input q, .step]
          let res := match s'.bind (·.clipGot.getLast?) with
            | some v => s!"={cpsOut v}"
            | none => "none"
          finish s' res (match b64 with | some v => s!"={cpsOut v}" | none => "err")
        else if mode == "early" then
          -- the reply is handled before ClipboardPop has reached its select (forced schedule): with the hand-off
          -- written as `select` + time-out case the goroutine waits for the requester; written with `default`
          -- (or in any other way) the reply would be gone.  Oracle: a solicited reply reaches its requester.
          if impl.startsWith "not-forced" then (d, "-\t-\t-") else
          let p := params 1024 b64
          let want := match b64 with | some v => s!"={cpsOut v}" | none => "err"
          let s' :=
            if p.kinds.clipboard == .timeout then run p d.sys [.input q, .clipCall, .step]
            else run p d.sys [.input q, .step, .clipCall, .clipCancel]   -- `select` + `default`: dropped at once (LTS)
          let res := match s'.bind (·.clipGot.getLast?) with
            | some v => s!"={cpsOut v}"
            | none => "err"
          finish s' res want
        else finish (run (params 1024 none) d.sys [.clipCall, .clipCancel]) "err" "err"
      | none => (d, "bad-op\tbad-op\tbad-op")
    | _, _ => (d, "bad-op\tbad-op\tbad-op")
  | ["cquery", kind, idx, stale, reply] =>
    -- a colour query: the real QueryColor/QueryForeground/QueryBackground against a terminal that answers with
    -- `reply`, after an unsolicited `stale` reply; prediction = LTS run + the model of parseColorReply
    match idx.toNat?, cps? ((stale.drop 6).toString), cps? ((reply.drop 6).toString) with
    | some idx, some stalePl, some replyPl =>
      let p := params 1024 none
      let caps := d.sys.vs.caps
      let (can, lit, drain) :=
        if kind == "color" then (caps.osc4, VaxisModel.Model.InputQuery.litColor idx, VaxisModel.Model.InputQuery.colorDrainGen)
        else if kind == "fg" then (caps.osc10, VaxisModel.Model.InputQuery.litFg, VaxisModel.Model.InputQuery.fgDrainGen)
        else (caps.osc11, VaxisModel.Model.InputQuery.litBg, VaxisModel.Model.InputQuery.bgDrainGen)
      let feed (s : Sys) (pl : List Nat) : Sys :=
        match next p s (.input (.osc pl)) with
        | some (.ok s1) => (perform {} p false 64 s1 #[] #[] none).1
        | _ => s
      let s1 := if stale == "stale=-" then d.sys else feed d.sys stalePl
      let implRes := (impl.splitOn " ").headD ""
      let bad := impl.contains "wedged" || implRes == "hang" || implRes == "panic"
      if !can then
        let s2 := { s1 with queue := [] }
        let v := if bad then s!"FAIL the colour query or the input loop did not survive: {impl}"
          else if implRes == "col=0" then "ok" else s!"FAIL the terminal did not advertise colour reports, the query must return Color(0), got {implRes}"
        ({ d with sys := s2 }, s!"col=0 alive {canonState s2}\t{impl}\t{v}")
      else
        let clear (s : Sys) : Sys :=
          if !drain then s else if kind == "color" then { s with color := [] } else if kind == "fg" then { s with fg := [] } else { s with bg := [] }
        let take (s : Sys) : Option (List Nat) × Sys :=
          if kind == "color" then (s.color.head?, { s with color := s.color.drop 1 })
          else if kind == "fg" then (s.fg.head?, { s with fg := s.fg.drop 1 })
          else (s.bg.head?, { s with bg := s.bg.drop 1 })
        -- the requester receives as soon as it has written its query: a reply already parked in the channel is
        -- taken before the terminal's answer has been handled (which is then parked in turn)
        let s1' := clear s1
        let (got, s3) : Option (List Nat) × Sys :=
          match take s1' with
          | (some pl, s) => (some pl, feed s replyPl)
          | (none, _) => take (feed s1' replyPl)
        let s3 := { s3 with queue := [] }
        let res := match got with
          | some pl => s!"col={VaxisModel.Model.InputQuery.colorOfReply lit pl}"
          | none => "hang"
        -- oracle: a reply `<prefix>rgb:h/h/h` (1–4 hexadecimal digits per channel, XParseColor) reports that colour
        let want : Option Nat :=
          match VaxisModel.Model.InputQuery.matchLit lit replyPl with
          | none => none
          | some body =>
            match (String.ofList (body.map Char.ofNat)).splitOn "/" with
            | [a, b, c] =>
              match VaxisModel.Model.InputQuery.xparseChannel (a.toList.map Char.toNat), VaxisModel.Model.InputQuery.xparseChannel (b.toList.map Char.toNat),
                    VaxisModel.Model.InputQuery.xparseChannel (c.toList.map Char.toNat) with
              | some r, some g, some b => some (VaxisModel.Model.Color.rgbColor r g b)
              | _, _, _ => none
            | _ => none
        let v := if bad then s!"FAIL the colour query or the input loop did not survive: {impl}"
          else match want with
            | some w =>
              if implRes == s!"col={w}" then "ok"
              else if stale != "stale=-" && implRes != res then s!"FAIL the terminal answered this query with colour {w}, the query returned {implRes}"
              else if stale != "stale=-" && implRes != s!"col={VaxisModel.Model.InputQuery.colorOfReply lit replyPl}" then
                s!"FAIL the terminal answered this query with colour {w}, but the query returned {implRes}: the unsolicited reply received earlier was taken for the answer"
              else s!"FAIL the terminal answered this query with colour {w} (XParseColor scaling of the digits sent), the query returned {implRes}: channels wider or narrower than 8 bits are cut to their low byte (F303 is back)"
            | none => "ok"
        ({ d with sys := s3 }, s!"{res} alive {canonState s3}\t{impl}\t{v}")
    | _, _, _ => (d, "bad-op\tbad-op\tbad-op")
  | ["suspend", _, _, n1f, n2f] =>
    -- Suspend + Resume with the input goroutine blocked on a full queue; the queue is drained only afterwards.
    -- Oracle (no model prediction needed): keys typed after Resume come out exactly once and in order; keys typed
    -- before Suspend at most once and in order (Suspend may discard what was not yet delivered); the loop is alive.
    match (n1f.drop 3).toString.toNat?, (n2f.drop 3).toString.toNat? with
    | some n1, some n2 =>
      if impl == "not-forced" then (d, "-\t-\t-")
      else
        let parts := impl.splitOn " keys="
        let head := parts.headD ""
        let codes : List Nat := ((parts.getD 1 "").splitOn ",").filterMap (·.toNat?)
        let first := codes.filter (fun c => 0xE100 ≤ c && c < 0xE200)
        let second := codes.filter (fun c => 0xE200 ≤ c && c < 0xE300)
        let wantSecond := (List.range n2).map (· + 0xE200)
        let rec increasing : List Nat → Bool
          | a :: b :: t => a < b && increasing (b :: t)
          | _ => true
        let v :=
          if head.startsWith "hang" then s!"FAIL Suspend/Resume did not return with the input goroutine blocked on a full queue: {head}"
          else if head != "forced" then s!"FAIL after Suspend and Resume the input loop no longer delivers input (sentinel not delivered): {head}"
          else if second != wantSecond then
            s!"FAIL the {n2} keys typed after Resume must be delivered exactly once and in order; got {second.map (· - 0xE200)} (user input lost, duplicated or reordered)"
          else if !(increasing first) || first.any (fun c => c ≥ 0xE100 + n1) then
            s!"FAIL keys typed before Suspend were delivered out of order or twice: {first.map (· - 0xE100)}"
          else "ok"
        (d, s!"forced second={n2}\t{head} second={if second == wantSecond then toString n2 else "differs"}\t{v}")
    | _, _ => (d, "bad-op\tbad-op\tbad-op")
  | ["raceyield", _] =>
    (d, "reached\tnever-reached\tFAIL no cursor-position schedule could be forced: the yield point verifC03 in handleSequence was never reached")
  | "race" :: ord :: r :: c :: r2 :: c2 :: seqf =>
    -- the cursor-position hand-off against the requester's time-out, as runs of the LTS (schedules forced
    -- on the real code through the yield point after the request flag is taken)
    if impl.contains "not-held" then (d, "-\t-\t-") else   -- the harness could not force the schedule in time: not judged
    match r.toInt?, c.toInt?, r2.toInt?, c2.toInt?, parseSeq seqf with
    | some r, some c, some r2, some c2, some (_, k, _) =>
      let p := params 1024 none
      let pre : List Label := if p.cursorDrain then [.cursorDrain] else []
      let rep1 : Label := .input (.csi [] [[r], [c]] 82)
      let rep2 : Label := .input (.csi [] [[r2], [c2]] 82)
      let got (s : Option Sys) (n : Nat) : String :=
        match s.bind (fun t => t.cursorGot[n]?) with
        | some (a, b) => s!"{a - 1},{b - 1}"
        | none => "-1,-1"
      let s0 := { d.sys with cursorGot := [], queue := [] }
      let (sA, res1, sB, res2) : Option Sys × String × Option Sys × String :=
        if ord == "order=reply-first" then
          let sA := run p s0 (pre ++ [.cursorCall, rep1, .step, .cursorRecv])
          let sB := sA.bind fun t => run p t (pre ++ [.cursorCall, rep2, .step, .cursorRecv])
          (sA, got sA 0, sB, got sB 1)
        else if ord == "order=timeout-first" then
          let sA := run p s0 (pre ++ [.cursorCall, rep1, .cursorTimeout, .step])
          let sB := sA.bind fun t => run p t (pre ++ [.cursorCall, rep2, .step, .cursorRecv])
          (sA, got sA 0, sB, got sB 0)
        else
          let sA := run p s0 (pre ++ [.cursorCall, rep1, .cursorTimeout])
          let sB := sA.bind fun t => run p t (pre ++ [.cursorCall, .step, .cursorRecv, rep2, .step])
          (sA, got sA 0, sB, got sB 0)
      match sA, sB with
      | some _, some t =>
        -- whatever is still pending is performed with nobody waiting (posts go to the queue)
        let (t2, evs, _, _) := perform k p false 64 { t with queue := [] } (t.queue.toArray.map (renderEvent k)) #[] none
        let t3 := { t2 with cursorGot := [], queue := [] }
        let mc := s!"res1={res1} res2={res2} ev={joinA evs} alive {canonState t3}"
        let implEvs := evsOf impl
        let verdict :=
          if impl.contains "wedged" || impl.contains "hang" || impl.contains "panic" || impl.contains "blocked-after-release" then
            s!"FAIL the cursor-position hand-off blocked the input loop or the requester: {impl}"
          else if !implEvs.isEmpty then
            s!"FAIL every cursor-position report here answers a query Vaxis wrote while its request was standing, yet the application received {implEvs} (a reply came out as user input)"
          else
            let ir1 := ((impl.splitOn " ").find? (·.startsWith "res1=")).getD ""
            let ir2 := ((impl.splitOn " ").find? (·.startsWith "res2=")).getD ""
            let want1 := if ord == "order=reply-first" then s!"res1={r - 1},{c - 1}" else "res1=-1,-1"
            -- the second call gets the terminal's answer to it — or, in the recall schedule, the answer the
            -- first call no longer waited for (the protocol has no query ids)
            let want2 := if ord == "order=recall" then [s!"res2={r - 1},{c - 1}", s!"res2={r2 - 1},{c2 - 1}"] else [s!"res2={r2 - 1},{c2 - 1}"]
            if ir1 != want1 then s!"FAIL the first CursorPosition must return {want1}, got {ir1}"
            else if !want2.contains ir2 then s!"FAIL the second CursorPosition must return one of {want2}, got {ir2}"
            else "ok"
        ({ d with sys := t3 }, s!"{mc}\t{impl}\t{verdict}")
      | _, _ => (d, s!"not-a-run\t{impl}\tbad-op")
    | _, _, _, _, _ => (d, "bad-op\tbad-op\tbad-op")
  | "stream" :: rest =>
    ({ d with stream := true, wf := (kv rest "wf") == some "1", smallQueue := (kv rest "queue") != some "0" }, "-\t-\t-")
  | "report" :: rest =>
    match parseReport rest with
    | some r => ({ d with reports := d.reports.push r }, "-\t-\t-")
    | none => ({ d with bad := true }, "bad-report\tbad-report\tbad-op")
  | "sseq" :: rest =>
    if d.outcome != "alive" then (d, "-\t-\t-") else
    match parseSeq rest with
    | none => ({ d with bad := true }, "bad-op\tbad-op\tbad-op")
    | some (q, k, b64) =>
      let p := params 1024 b64
      match next p d.sys (.input q) with
      | some (.ok s1) =>
        let (s2, evs, snd, blk) := perform k p true 64 s1 d.evs d.snd none
        match blk with
        | some c => ({ d with sys := s2, evs := evs, snd := snd, outcome := s!"wedged:{short c}" }, "-\t-\t-")
        | none => ({ d with sys := s2, evs := evs, snd := snd }, "-\t-\t-")
      | some (.error _) => ({ d with outcome := "panic" }, "-\t-\t-")
      | none => ({ d with bad := true }, "not-idle\tnot-idle\tbad-op")
  | ["end"] =>
    let dropNB (l : List String) : List String :=
      if d.smallQueue then l.filter fun e => !(e == "RD" || e.startsWith "A/") else l
    let mc := if d.outcome == "alive" then s!"alive ev={joinA (dropNB d.evs.toList).toArray} snd={joinA d.snd} {canonState d.sys}" else d.outcome
    let ic := if impl.startsWith "alive" then
        match impl.splitOn " " with
        | a :: _ :: rest => " ".intercalate (a :: s!"ev={joinA (dropNB (evsOf impl)).toArray}" :: rest)
        | _ => impl
      else implCanon impl
    let verdict :=
      if impl.startsWith "panic" then "FAIL the input goroutine panics on this stream (the process dies)"
      else if impl.startsWith "wedged" then s!"FAIL the input loop wedged: the sentinel key never arrived ({(impl.splitOn " ").headD ""})"
      else if impl.startsWith "alive" then
        if d.wf then
          -- `Redraw` comes from a non-blocking post (it may be dropped, and it is not user input)
          let got := (evsOf impl).filter fun e => userVisibleCanon e && e != "RD"
          let got := got.take (got.length - 2)   -- the sentinel's CAN and U+E000 keys
          let want := ((specEvents false d.reports.toList).map UEvent.canon).filter (· != "RD")
          if got != want then s!"FAIL events differ from the reports {firstDiff want got 0}"
          else match specInternal d.reports.toList with
            | none => "ok"
            | some wantI =>
              let gotI := (evsOf impl).filterMap internalName
              if gotI == wantI then "ok" else s!"FAIL capability notifications differ from the replies {firstDiff wantI gotI 0}"
        else "ok"
      else s!"FAIL {impl}"
    (d, s!"{mc}\t{ic}\t{verdict}")
  | _ => (d, "bad-op\tbad-op\tbad-op")

def main : IO Unit := foldLoop ({} : D) step

end VaxisModel.Driver.C03
