import VaxisModel.Driver.Common
import VaxisModel.Model.Lifecycle
import VaxisModel.Spec.ModeTerm
import VaxisModel.Spec.Tokenize
import VaxisModel.Lemmas.C07Gate
import VaxisModel.Lemmas.C04Session

/-! Driver for C04 (stateful; one case = one Vaxis session on the fake console). Lines:

  #case <id>
  env <9 bits: kittyKeyboard sixels unicodeCore explicitWidth colorThemeUpdates inBandResize osc176 synchronizedUpdate disableMouse> <kittyFlags> <userCursorStyle> <appId hex> <terminal's original cursor style> <terminal's original app id hex>
                     (the first three values are what Vaxis stored — inputs of the model; the last two are the fake terminal's own configuration — the ORIGINAL values the oracle compares with)
  setappid <id hex>  \t bytes    SetAppID: model = the direct OSC 176 write
  startup            \t bytes    model = tokens of `startupW`
  bytes0             \t bytes    anything (the panic child's output before the panic, start-up included): only fed to the mode terminal
  bytes              \t bytes    frames etc.: fed to the mode terminal; verdict: every token is an admissible operation of the
                                 session theorem (`C04Session.frameTok`, or an OSC 176 set = `Op.setAppId`) and no hyperlink is left open
                                 (the hypotheses `Op.ok` of `Props.C04.balanced`, checked on the implementation's frames)
  suspend <cnv> <clv> <row> <col> <style>\t bytes    model = tokens of `suspendW`; verdict: everything restored
  resume             \t bytes    model = tokens of `resumeW`; verdict: mode state = after start-up
  close <cnv> <clv> <closed> <row> <col> <style> \t bytes   model = tokens of `closeW`; verdict: everything restored
  closesuspended     \t bytes|hang   Close after Suspend without Resume
  closeby <how> <cnv> <clv> <row> <col> <style> \t bytes    Close triggered by signal / panic: model = tokens of the signal arm / recover handler (from Gen), verdict restored
-/
namespace VaxisModel.Driver.C04
open VaxisModel.Driver VaxisModel.Model.Lifecycle VaxisModel.Model.Render VaxisModel.Spec VaxisModel.Spec.ModeTerm

def varNames : List String :=
  ["caps.kittyKeyboard", "caps.sixels", "caps.unicodeCore", "caps.explicitWidth", "caps.colorThemeUpdates",
   "caps.inBandResize", "caps.osc176", "caps.synchronizedUpdate", "disableMouse"]

structure St where
  env : Env := default
  w : WSt := {}
  t0 : MTerm := {}
  t : MTerm := {}
  tStart : MTerm := {}
  deriving Inhabited

def tokStr : Tok → String
  | .cup r c => s!"cup({r},{c})"
  | .sgr ps => "sgr(" ++ ";".intercalate (ps.map fun p => ":".intercalate (p.map toString)) ++ ")"
  | .osc8 p u => s!"osc8({p},{u})"
  | .text g => s!"t({g})"
  | .textW w g => s!"tw({w},{g})"
  | .decset n => s!"set({n})"
  | .decrst n => s!"rst({n})"
  | .cursorStyle n => s!"cstyle({n})"
  | .pointer s => s!"ptr({s})"
  | .other r => s!"other({r})"

def firstDiff : List Tok → List Tok → Nat → Option (Nat × String × String)
  | [], [], _ => none
  | a :: as, b :: bs, i => if a = b then firstDiff as bs (i + 1) else some (i, tokStr a, tokStr b)
  | a :: _, [], i => some (i, tokStr a, "<end>")
  | [], b :: _, i => some (i, "<end>", tokStr b)

def canon (m i : List Tok) : String × String :=
  match firstDiff m i 0 with
  | none => let k := s!"toks={m.length}"; (k, k)
  | some (j, a, b) => (s!"M@{j}:{a}", s!"I@{j}:{b}")

def lex (hex : String) : Option (List Tok) :=
  (hexBytes? hex).map (Tokenize.tokens [[32]])

def describe (t0 t : MTerm) : String :=
  let bad := t.modes.filter (·.2)
  (if bad.isEmpty then "" else s!" modes still set: {bad.map (·.1)};") ++
  (if t.cursorVisible then "" else " cursor hidden;") ++ (if t.alt then " alternate screen active;" else "") ++
  (if t.kitty == t0.kitty then "" else s!" kitty keyboard stack depth {t.kitty} (was {t0.kitty});") ++
  (if t.keypadApp then " keypad application mode;" else "") ++
  (if t.cursorShape == t0.cursorShape then "" else s!" cursor shape {t.cursorShape} (was {t0.cursorShape});") ++
  (if t.appId == t0.appId then "" else s!" app id {t.appId} (was {t0.appId});") ++
  (if t.pointer == t0.pointer then "" else s!" pointer {t.pointer} (was {t0.pointer});") ++
  (if t.penClean then "" else " pen not reset;") ++ (if t.linkOpen then " hyperlink open;" else "") ++
  (if t.sync then " synchronized update left on;" else "")

def restoredVerdict (t0 t : MTerm) : String :=
  if restored t0 t then "ok" else "FAIL not restored:" ++ describe t0 t

/-- C07 on the implementation: the first token (after the device-attributes reply, for start-up)
    that is neither baseline nor gated by an advertised capability. -/
def gate (e : Env) (toks : List Tok) (v : String) : String :=
  match toks.find? (fun k => !VaxisModel.Lemmas.C07Gate.allowedLife e k) with
  | some k => s!"FAIL not advertised: {tokStr k} is written although the capability set does not allow it"
  | none => v

/-- Tokens of start-up written after the last DA1 query (`CSI c`), i.e. once the capabilities are known. -/
def afterDA1 (toks : List Tok) : List Tok :=
  (toks.reverse.takeWhile (· != Tok.other "1b5b63")).reverse

def sameModes (a b : MTerm) : Bool :=
  (a.modes.all fun (n, v) => modeVal b n == v) && (b.modes.all fun (n, v) => modeVal a n == v) &&
  a.alt == b.alt && a.kitty == b.kitty && a.keypadApp == b.keypadApp

def bad3 : String := "bad-op\tbad-op\tbad-op"
def b (s : String) : Bool := s == "1"
def cur (vis : Bool) : CursorState := { visible := vis }

def strOfBytes (bs : List Nat) : String :=
  match String.fromUTF8? ⟨(bs.map UInt8.ofNat).toArray⟩ with
  | some s => s
  | none => String.ofList (bs.map Char.ofNat)

def step (s : St) (line : String) : St × String :=
  let (op, impl) := splitTab line
  match fields op with
  | "#case" :: _ => ({}, "-\t-\t-")
  -- a session whose start-up did not see the terminal's answers (lone-ESC timer under load) is not judged
  | "incomplete" :: _ => (s, "-\t-\t-")
  | ["env", bits, kf, ucs, app, ucs0, app0] =>
      match kf.toNat?, ucs.toNat?, hexBytes? app, ucs0.toNat? with
      | some kf, some ucs, some appB, some ucs0 =>
        let bl := bits.toList.map (· == '1')
        let e : Env := { v := fun n => match varNames.idxOf? n with | some i => bl.getD i false | none => false,
                         kittyFlags := kf, userCursorStyle := ucs, appId := strOfBytes appB }
        let t0 : MTerm :=
          { supported := (if e.v "caps.synchronizedUpdate" then [2026] else []) ++ (if e.v "caps.unicodeCore" then [2027] else []) ++
              (if e.v "caps.colorThemeUpdates" then [2031] else []) ++ (if e.v "caps.inBandResize" then [2048] else []) ++
              (if e.v "caps.sixels" then [8452] else [])
            kittySupported := e.v "caps.kittyKeyboard", appIdSupported := e.v "caps.osc176",
            appId := if app0 = "-" then "" else app0, cursorShape := ucs0 }
        ({ env := e, t0 := t0, t := t0 }, "-\t-\t-")
      | _, _, _, _ => (s, bad3)
  | ["setappid", idh] =>
      match lex impl, hexBytes? idh with
      | some itoks, some idB =>
        let c := canon [Tok.other (appIdSetRaw (strOfBytes idB))] itoks
        ({ s with t := ModeTerm.run s.t itoks }, s!"{c.1}\t{c.2}\t-")
      | _, _ => (s, bad3)
  | ["startup"] =>
      match lex impl with
      | some itoks =>
        let w := startupW s.env
        let c := canon w.wire itoks
        let t := ModeTerm.run s.t itoks
        ({ s with w := { w with wire := [] }, t := t, tStart := t }, s!"{c.1}\t{c.2}\t{gate s.env (afterDA1 itoks) "ok"}")
      | none => (s, bad3)
  | ["bytes0"] =>
      match lex impl with
      | some itoks => ({ s with t := ModeTerm.run s.t itoks, w := { (startupW s.env) with wire := [] } }, "-\t-\t-")
      | none => (s, bad3)
  | ["bytes"] =>
      match lex impl with
      | some itoks =>
        let t := ModeTerm.run s.t itoks
        let isSet (k : Tok) : Bool := match k with
          | .other raw => ModeTerm.startsWith raw "1b5d3137363b" && raw != "1b5d3137363b3f"
          | _ => false
        let v := match itoks.find? (fun k => !(VaxisModel.Lemmas.C04Session.frameTok k || isSet k)) with
          | some k => s!"FAIL application output between lifecycle calls changes lifecycle state: {tokStr k}"
          | none => if t.linkOpen && !s.t.linkOpen then "FAIL a frame leaves a hyperlink open" else (if itoks.isEmpty then "-" else "ok")
        ({ s with t := t }, s!"-\t-\t{v}")
      | none => (s, bad3)
  | ["suspend", cnv, clv, row, col, sty] =>
      if impl = "hang" then (s, "-\thang\tFAIL Suspend never returns") else
      if impl = "panic" then (s, "-\tpanic\tFAIL Suspend panicked") else
      match lex impl with
      | some itoks =>
        let cn : CursorState := { row := row.toInt?.getD 0, col := col.toInt?.getD 0, style := sty.toNat?.getD 0, visible := b cnv }
        let w := suspendW s.env { s.w with wire := [], cn := cn, cl := { cn with visible := b clv } }
        let c := canon w.wire itoks
        let t := ModeTerm.run s.t itoks
        ({ s with w := { w with wire := [] }, t := t }, s!"{c.1}\t{c.2}\t{gate s.env itoks (restoredVerdict s.t0 t)}")
      | none => (s, bad3)
  | ["resume"] =>
      match lex impl with
      | some itoks =>
        let w := resumeW s.env { s.w with wire := [] }
        let c := canon w.wire itoks
        let t := ModeTerm.run s.t itoks
        let v := gate s.env itoks (if sameModes t s.tStart then "ok" else "FAIL modes after Resume differ from start-up:" ++ describe s.tStart t)
        ({ s with w := { w with wire := [] }, t := t }, s!"{c.1}\t{c.2}\t{v}")
      | none => (s, bad3)
  | ["close", cnv, clv, closed, row, col, sty] =>
      if impl = "hang" then (s, "-\thang\tFAIL Close never returns") else
      if impl = "panic" then (s, "-\tpanic\tFAIL Close panicked (a second Close must be harmless)") else
      match lex impl with
      | some itoks =>
        let cn : CursorState := { row := row.toInt?.getD 0, col := col.toInt?.getD 0, style := sty.toNat?.getD 0, visible := b cnv }
        let w := closeW s.env (b closed) { s.w with wire := [], cn := cn, cl := { cn with visible := b clv } }
        let c := canon w.wire itoks
        let t := ModeTerm.run s.t itoks
        ({ s with w := { w with wire := [] }, t := t }, s!"{c.1}\t{c.2}\t{restoredVerdict s.t0 t}")
      | none => (s, bad3)
  | ["closesuspended"] =>
      -- Close while suspended (no Resume): must return, and writes nothing more
      if impl = "hang" then (s, "toks=0\thang\tFAIL Close while suspended never returns") else
      if impl = "panic" then (s, "toks=0\tpanic\tFAIL Close while suspended panicked") else
      match lex impl with
      | some itoks =>
        let w := closeW s.env false { s.w with wire := [] }
        let c := canon w.wire itoks
        let t := ModeTerm.run s.t itoks
        ({ s with w := { w with wire := [] }, t := t }, s!"{c.1}\t{c.2}\t{restoredVerdict s.t0 t}")
      | none => (s, bad3)
  | ["startupfail"] =>
      -- New failed half-way (reportWinsize returned an error after the alternate screen was entered and the modes
      -- enabled) and returned (nil, err): model = start-up, then the lifecycle calls of that error exit as
      -- regenerated from New (`Gen.Modes.newSequence`: after the round-4 repair `Close`); oracle: restored
      if impl = "hang" then (s, "-\thang\tFAIL New never returns") else
      if impl = "noerror" then (s, "-\t-\t-") else
      match lex impl with
      | some itoks =>
        let w := VaxisModel.Model.Lifecycle.startupFailW s.env
        let c := canon w.wire itoks
        let t := ModeTerm.run s.t itoks
        let v := if restored s.t0 t then "ok" else "FAIL a failed New (error after the terminal was set up, no handle returned) leaves the terminal unrestored:" ++ describe s.t0 t
        ({ s with t := t }, s!"{c.1}\t{c.2}\t{v}")
      | none => (s, bad3)
  | ["closeby", "sigstartup"] =>
      -- a real SIGTERM while New waits for the replies to its queries: setupSignals is the last step of New, so
      -- the default action kills the process; what it had written so far is judged by the mode terminal (F406)
      if impl = "notkilled" then (s, "-\t-\t-") else
      match lex impl with
      | some itoks =>
        let t := ModeTerm.run s.t itoks
        let v := if restored s.t0 t then "ok" else "FAIL a termination signal during New (before setupSignals) killed the process; the terminal is left:" ++ describe s.t0 t
        ({ s with t := t }, s!"-\t-\t{v}")
      | none => (s, bad3)
  | ["closeby", "signalframe"] =>
      -- forced schedule "kill signal mid-frame" (F404/F410): the Close run by the kill arm is held at the end of
      -- its Suspend while the main goroutine renders one more frame; judged by the mode terminal only
      if impl = "hang" then (s, "-\thang\tFAIL Close triggered from the input goroutine never completes") else
      match lex impl with
      | some itoks =>
        let t := ModeTerm.run s.t itoks
        let v := if restored s.t0 t then "ok" else "FAIL not restored after a kill signal that arrived mid-frame (the application's frame follows the restore sequence):" ++ describe s.t0 t
        ({ s with t := t }, s!"-\t-\t{v}")
      | none => (s, bad3)
  | ["closeby", how, cnv, clv, row, col, sty] =>
      -- Close triggered on the input goroutine: model = the statement list of the kill-signal arm / of the
      -- deferred recover handler, as regenerated from openTty (`Props.C04.signal_path_is_close`, `panic_path_is_close`)
      if impl = "hang" then (s, "-\thang\tFAIL Close triggered from the input goroutine never completes") else
      if impl = "killed" then (s, "-\tkilled\tFAIL the termination signal killed the process: no handler was installed for this capability set, the terminal is left as it was") else
      if impl = "nopanic" then (s, "-\t-\t-") else
      match lex impl with
      | some itoks =>
        let cn : CursorState := { row := row.toInt?.getD 0, col := col.toInt?.getD 0, style := sty.toNat?.getD 0, visible := b cnv }
        let path := if how = "panic" then VaxisModel.Gen.Modes.inputLoopRecover else VaxisModel.Gen.Modes.inputLoopSignalArm
        let w := interp s.env 65 path { s.w with wire := [], cn := cn, cl := { cn with visible := b clv } }
        let c := canon w.wire itoks
        let t := ModeTerm.run s.t itoks
        ({ s with w := { w with wire := [] }, t := t }, s!"{c.1}\t{c.2}\t{restoredVerdict s.t0 t}")
      | none => (s, bad3)
  | _ => (s, bad3)

def main : IO Unit := foldLoop ({} : St) step

end VaxisModel.Driver.C04
